// Command c26: correspondence harness for C26 (contract deployment / update / removal lifecycle).
// Histories of contracts.add / update / tryUpdate / remove / get / borrow / names calls over two
// accounts and three contract names, with generated sources of several validity classes, run as
// real transactions (and observing scripts) on lib.Host in both engines. Per-operation results,
// AccountContract* events and the host-level code map are written as Coq cases and also compared
// with an independent Go rendering of the lifecycle specification.
package main

import (
	"crypto/sha3"
	"encoding/hex"
	"flag"
	"fmt"
	"os"
	"sort"
	"strings"

	"cvh/lib"

	"github.com/onflow/cadence"
	"github.com/onflow/cadence/common"
	cerrors "github.com/onflow/cadence/errors"
	"github.com/onflow/cadence/stdlib"
)

var (
	prop = flag.String("prop", "C26", "property id")
	seed = flag.Uint64("seed", 1, "seed")
	tier = flag.String("tier", "quick", "quick|thorough")
	dir  = flag.String("dir", ".", "output directory")
)

func main() {
	flag.Parse()
	sum := &lib.Summary{}
	if *prop != "C26" {
		fmt.Fprintln(os.Stderr, "unknown prop", *prop)
		os.Exit(2)
	}
	c26(sum)
	sum.Write(*dir)
}

// ---------------------------------------------------------------- sources

var classNames = []string{"SValid", "SInitPanics", "STypeError", "SParseError", "SNoContract", "STwoContracts"}

const (
	cValid = iota
	cInitPanics
	cTypeError
	cParseError
	cNoContract
	cTwoContracts
)

type Decl struct {
	Kind  int // 0 struct 1 resource 2 event 3 enum 4 struct interface 5 resource interface
	Name  int
	Cases int // enums: number of cases (1 or 2)
}

var kindCoq = []string{"KStruct", "KResource", "KEvent", "KEnum", "KSIface", "KRIface"}

const kEnum = 3

func (d Decl) Text() string {
	n := fmt.Sprintf("N%d", d.Name)
	switch d.Kind {
	case 0:
		return "access(all) struct " + n + " {}"
	case 1:
		return "access(all) resource " + n + " {}"
	case 2:
		return "access(all) event " + n + "()"
	case 3:
		if d.Cases >= 2 {
			return "access(all) enum " + n + ": UInt8 { access(all) case x\naccess(all) case y }"
		}
		return "access(all) enum " + n + ": UInt8 { access(all) case x }"
	case 4:
		return "access(all) struct interface " + n + " {}"
	}
	return "access(all) resource interface " + n + " {}"
}

type Source struct {
	Class, Decl, Fields int
	Decls               []Decl
	Ver                 int
}

var fieldDecls = []string{
	"access(all) var a: Int",
	"access(all) var a: Int\naccess(all) var b: Int",
	"access(all) var a: String",
	"",
}
var fieldInit = []string{"self.a = 1", "self.a = 1\nself.b = 2", "self.a = \"s\"", ""}

const nFields = 4

func (s Source) body() string {
	parts := []string{fieldDecls[s.Fields]}
	for _, d := range s.Decls {
		parts = append(parts, d.Text())
	}
	return strings.Join(parts, "\n")
}

func (s Source) Text() string {
	name := fmt.Sprintf("C%d", s.Decl)
	head := fmt.Sprintf("// v%d\n", s.Ver)
	switch s.Class {
	case cValid:
		return head + fmt.Sprintf("access(all) contract %s {\n%s\naccess(all) fun v(): Int { return %d }\ninit() {\n%s\n}\n}", name, s.body(), s.Ver, fieldInit[s.Fields])
	case cInitPanics:
		return head + fmt.Sprintf("access(all) contract %s {\n%s\naccess(all) fun v(): Int { return %d }\ninit() {\n%s\npanic(\"no\")\n}\n}", name, s.body(), s.Ver, fieldInit[s.Fields])
	case cTypeError:
		return head + fmt.Sprintf("access(all) contract %s {\n%s\naccess(all) fun v(): Int { return \"s\" }\ninit() {\n%s\n}\n}", name, s.body(), fieldInit[s.Fields])
	case cParseError:
		return head + fmt.Sprintf("access(all) contract %s {\n%s\n", name, s.body())
	case cNoContract:
		return head + fmt.Sprintf("// no contract %s\n", name)
	default:
		return head + fmt.Sprintf("access(all) contract %s {}\naccess(all) contract %sb {}\n", name, name)
	}
}

func declsCoq(ds []Decl) string {
	parts := make([]string, len(ds))
	for i, d := range ds {
		parts[i] = fmt.Sprintf("mkD %s %d %d", kindCoq[d.Kind], d.Name, d.Cases)
	}
	return "[" + strings.Join(parts, "; ") + "]"
}

func (s Source) Coq() string {
	return fmt.Sprintf("(mkSrc %s %d %d %s %d)", classNames[s.Class], s.Decl, s.Fields, declsCoq(s.Decls), s.Ver)
}

// Source is used as a map value and compared: a comparable key form
func (s Source) key() string { return s.Coq() }

// registries: code text / code hash -> source
var byText = map[string]Source{}
var byHash = map[string]Source{}

func register(s Source) {
	t := s.Text()
	byText[t] = s
	h := sha3.Sum256([]byte(t))
	byHash[hex.EncodeToString(h[:])] = s
}

// ---------------------------------------------------------------- operations

type Op struct {
	K   string // OAdd OUpdate OTryUpdate ORemove OGet OBorrow ONames OPanic
	A   int
	N   int
	Src Source
}

func (o Op) Coq() string {
	switch o.K {
	case "OAdd", "OUpdate", "OTryUpdate":
		return fmt.Sprintf("%s %d %d %s", o.K, o.A, o.N, o.Src.Coq())
	case "ORemove", "OGet", "OBorrow":
		return fmt.Sprintf("%s %d %d", o.K, o.A, o.N)
	case "ONames":
		return fmt.Sprintf("ONames %d", o.A)
	}
	return "OPanic"
}

// Cadence statement block; acct is the expression denoting the account (signer reference in
// transactions, getAccount(..) in scripts)
func (o Op) Cadence(acct string) string {
	name := fmt.Sprintf("\"C%d\"", o.N)
	code := "\"" + hex.EncodeToString([]byte(o.Src.Text())) + "\".decodeHex()"
	switch o.K {
	case "OAdd":
		return fmt.Sprintf("%s.contracts.add(name: %s, code: %s)\nlog(\"u\")", acct, name, code)
	case "OUpdate":
		return fmt.Sprintf("%s.contracts.update(name: %s, code: %s)\nlog(\"u\")", acct, name, code)
	case "OTryUpdate":
		return fmt.Sprintf("let r = %s.contracts.tryUpdate(name: %s, code: %s)\nlog(r.deployedContract != nil ? \"b:true\" : \"b:false\")", acct, name, code)
	case "ORemove":
		return fmt.Sprintf("if let dc = %s.contracts.remove(name: %s) {\nlog(\"c:\".concat(String.encodeHex(dc.code)))\n} else { log(\"n\") }", acct, name)
	case "OGet":
		return fmt.Sprintf("if let dc = %s.contracts.get(name: %s) {\nlog(\"c:\".concat(String.encodeHex(dc.code)))\n} else { log(\"n\") }", acct, name)
	case "OBorrow":
		return fmt.Sprintf("log(%s.contracts.borrow<&AnyStruct>(name: %s) != nil ? \"b:true\" : \"b:false\")", acct, name)
	case "ONames":
		return fmt.Sprintf("var s = \"l:\"\nfor n in %s.contracts.names { s = s.concat(n).concat(\",\") }\nlog(s)", acct)
	}
	return "panic(\"abort\")"
}

var signers = []common.Address{common.MustBytesToAddress([]byte{1}), common.MustBytesToAddress([]byte{2})}

func txSource(ops []Op) string {
	var sb strings.Builder
	sb.WriteString("transaction {\nprepare(s1: auth(Contracts) &Account, s2: auth(Contracts) &Account) {\n")
	for _, o := range ops {
		sb.WriteString("if true {\n" + o.Cadence(fmt.Sprintf("s%d", o.A)) + "\n}\n")
	}
	sb.WriteString("}\n}\n")
	return sb.String()
}

func scriptSource(ops []Op) string {
	var sb strings.Builder
	sb.WriteString("access(all) fun main() {\n")
	for _, o := range ops {
		sb.WriteString("if true {\n" + o.Cadence(fmt.Sprintf("getAccount(0x%d)", o.A)) + "\n}\n")
	}
	sb.WriteString("}\n")
	return sb.String()
}

// the observing script: every read of every account and name
func observeOps() []Op {
	var ops []Op
	for a := 1; a <= 2; a++ {
		ops = append(ops, Op{K: "ONames", A: a})
		for n := 0; n < 3; n++ {
			ops = append(ops, Op{K: "OGet", A: a, N: n}, Op{K: "OBorrow", A: a, N: n})
		}
	}
	return ops
}

// ---------------------------------------------------------------- execution

type Tx struct {
	Ops     []Op
	Script  bool
	Results []string
	Events  []string
	Failed  bool
	Bad     string
}

func unwrapFind(err error, f func(error) bool) bool {
	for i := 0; err != nil && i < 60; i++ {
		if f(err) {
			return true
		}
		u, ok := err.(interface{ Unwrap() error })
		if !ok {
			return false
		}
		err = u.Unwrap()
	}
	return false
}

type goRuntimeError interface {
	error
	RuntimeError()
}

func failClass(err error) string {
	cls := ""
	crash := false
	unwrapFind(err, func(e error) bool {
		if _, ok := e.(goRuntimeError); ok {
			crash = true
			return true
		}
		if cls != "" {
			return false
		}
		switch e.(type) {
		case *stdlib.InvalidContractDeploymentError:
			cls = "FDeploy"
		case *stdlib.ContractRemovalError:
			cls = "FRemoval"
		case *stdlib.PanicError:
			cls = "FPanic"
		case cerrors.DefaultUserError:
			cls = "FUser"
		case *cerrors.DefaultUserError:
			cls = "FUser"
		}
		return false
	})
	if crash {
		return "FCrash"
	}
	if cerrors.IsInternalError(err) {
		if strings.Contains(err.Error(), "runtime error:") {
			return "FCrash"
		}
		return "FInternal"
	}
	return cls
}

func parseResult(line string) (string, bool) {
	line = strings.Trim(line, "\"")
	switch {
	case line == "u":
		return "RUnit", true
	case line == "n":
		return "RNone", true
	case line == "b:true":
		return "(RBool true)", true
	case line == "b:false":
		return "(RBool false)", true
	case strings.HasPrefix(line, "l:"):
		var ids []int
		for _, p := range strings.Split(line[2:], ",") {
			if p == "" {
				continue
			}
			var n int
			if _, err := fmt.Sscanf(p, "C%d", &n); err != nil {
				return "", false
			}
			ids = append(ids, n)
		}
		sort.Ints(ids)
		parts := make([]string, len(ids))
		for i, v := range ids {
			parts[i] = fmt.Sprint(v)
		}
		return "(RNames [" + strings.Join(parts, ";") + "])", true
	case strings.HasPrefix(line, "c:"):
		b, err := hex.DecodeString(line[2:])
		if err != nil {
			return "", false
		}
		s, ok := byText[string(b)]
		if !ok {
			return "", false
		}
		return "(RCode " + s.Coq() + ")", true
	}
	return "", false
}

func parseEvent(e cadence.Event) (string, bool) {
	f := e.FieldsMappedByName()
	name := strings.TrimPrefix(e.EventType.QualifiedIdentifier, "flow.")
	ctor := map[string]string{"AccountContractAdded": "EvAdded", "AccountContractUpdated": "EvUpdated", "AccountContractRemoved": "EvRemoved"}[name]
	if ctor == "" {
		return "", false
	}
	var a, n int
	if _, err := fmt.Sscanf(f["address"].String(), "0x%x", &a); err != nil {
		return "", false
	}
	if _, err := fmt.Sscanf(strings.Trim(f["contract"].String(), "\""), "C%d", &n); err != nil {
		return "", false
	}
	arr, ok := f["codeHash"].(cadence.Array)
	if !ok {
		return "", false
	}
	hb := make([]byte, 0, 32)
	for _, v := range arr.Values {
		u, ok := v.(cadence.UInt8)
		if !ok {
			return "", false
		}
		hb = append(hb, byte(u))
	}
	s, ok := byHash[hex.EncodeToString(hb)]
	if !ok {
		return "", false
	}
	return fmt.Sprintf("%s %d %d %s", ctor, a, n, s.Coq()), true
}

func firstLine(s string) string {
	s = strings.TrimPrefix(s, "Execution failed:\n")
	if i := strings.Index(s, "\n"); i >= 0 {
		s = s[:i]
	}
	if len(s) > 300 {
		s = s[:300]
	}
	return s
}

// run one transaction (or script); the host discards code updates of a failed transaction and
// never keeps checked programs across executions
func runTx(h *lib.Host, vm bool, ops []Op, script bool) *Tx {
	t := &Tx{Ops: ops, Script: script}
	saved := map[common.AddressLocation][]byte{}
	for k, v := range h.Codes {
		saved[k] = v
	}
	// the ledger is transactional too (a failure during commit must leave no registers behind)
	regs := map[string][]byte{}
	for k, v := range h.Ledger.StoredValues {
		regs[k] = v
	}
	idx := map[string]uint64{}
	for k, v := range h.Ledger.StorageIndices {
		idx[k] = v
	}
	h.Iface.Programs = nil
	var o lib.Outcome
	if script {
		o = h.RunScript(scriptSource(ops), nil, vm)
	} else {
		o = h.RunTx(txSource(ops), nil, signers, vm)
	}
	if o.Panic != nil {
		t.Bad = fmt.Sprintf("Go panic escaped the runtime: %v", o.Panic)
		return t
	}
	for _, l := range o.Logs {
		r, ok := parseResult(l)
		if !ok {
			t.Bad = "cannot interpret result line " + l
			return t
		}
		t.Results = append(t.Results, r)
	}
	for _, e := range o.Events {
		ev, ok := parseEvent(e)
		if !ok {
			t.Bad = "cannot interpret event " + e.String()
			return t
		}
		t.Events = append(t.Events, ev)
	}
	if o.Err != nil {
		t.Failed = true
		for k := range h.Codes {
			delete(h.Codes, k)
		}
		for k, v := range saved {
			h.Codes[k] = v
		}
		for k := range h.Ledger.StoredValues {
			delete(h.Ledger.StoredValues, k)
		}
		for k, v := range regs {
			h.Ledger.StoredValues[k] = v
		}
		for k := range h.Ledger.StorageIndices {
			delete(h.Ledger.StorageIndices, k)
		}
		for k, v := range idx {
			h.Ledger.StorageIndices[k] = v
		}
		cls := failClass(o.Err)
		if cls == "" {
			t.Bad = fmt.Sprintf("failed with an error outside the modelled classes: %s", firstLine(o.Err.Error()))
			return t
		}
		t.Results = append(t.Results, "(RFail "+cls+")")
		if len(t.Results) > len(ops)+1 {
			t.Bad = "more results than operations"
		}
		return t
	}
	if len(t.Results) != len(ops) {
		t.Bad = fmt.Sprintf("%d results for %d operations", len(t.Results), len(ops))
	}
	return t
}

func hostCodes(h *lib.Host) (string, any) {
	var accts []string
	desc := map[string][]string{}
	for a := 1; a <= 2; a++ {
		var items []string
		for n := 0; n < 3; n++ {
			loc := common.AddressLocation{Address: signers[a-1], Name: fmt.Sprintf("C%d", n)}
			code, ok := h.Codes[loc]
			if !ok || len(code) == 0 {
				continue
			}
			s, known := byText[string(code)]
			if !known {
				items = append(items, fmt.Sprintf("(%d, mkSrc SValid (-1) (-1) (-1))", n))
				continue
			}
			items = append(items, fmt.Sprintf("(%d, %s)", n, s.Coq()))
			desc[fmt.Sprintf("0x%d", a)] = append(desc[fmt.Sprintf("0x%d", a)], fmt.Sprintf("C%d=%s", n, s.Coq()))
		}
		accts = append(accts, fmt.Sprintf("(%d, [%s])", a, strings.Join(items, "; ")))
	}
	// any contract outside the name universe is unexpected
	for loc := range h.Codes {
		var n int
		if _, err := fmt.Sscanf(loc.Name, "C%d", &n); err != nil || n > 2 {
			desc["unexpected"] = append(desc["unexpected"], loc.String())
		}
	}
	return "[" + strings.Join(accts, "; ") + "]", desc
}

type History struct {
	Name  string
	Txs   []*Tx
	Codes string
	CDesc any
}

func (h *History) coq(vm bool) string {
	txs := make([]string, len(h.Txs))
	obs := make([]string, len(h.Txs))
	for i, t := range h.Txs {
		ops := make([]string, len(t.Ops))
		for j, o := range t.Ops {
			ops[j] = o.Coq()
		}
		txs[i] = "[" + strings.Join(ops, "; ") + "]"
		obs[i] = "([" + strings.Join(t.Results, "; ") + "], [" + strings.Join(t.Events, "; ") + "])"
	}
	b := "false"
	if vm {
		b = "true"
	}
	return "(" + b + ",\n [" + strings.Join(txs, ";\n  ") + "],\n [" + strings.Join(obs, ";\n  ") + "],\n " + h.Codes + ")"
}

func (h *History) desc(vm bool) map[string]any {
	var txs []any
	for _, t := range h.Txs {
		var ops []string
		for _, o := range t.Ops {
			ops = append(ops, o.Coq())
		}
		txs = append(txs, map[string]any{"ops": ops, "script": t.Script, "observed_results": t.Results, "observed_events": t.Events, "failed": t.Failed})
	}
	return map[string]any{"history": h.Name, "vm": vm, "transactions": txs, "host_codes_after": h.CDesc}
}

// ---------------------------------------------------------------- independent Go oracle (specification)

type key struct{ a, n int }

type spec struct {
	dep     map[key]Source
	added   map[key]bool
	touched map[key]bool
}

// independent renderings of the two verdicts (declarative, not in the shape of the Go code)
func fieldsCompat(o, n int) bool {
	// fields may be removed, never added or retyped
	have := [][]string{{"a:Int"}, {"a:Int", "b:Int"}, {"a:String"}, {}}
	for _, f := range have[n] {
		found := false
		for _, g := range have[o] {
			found = found || f == g
		}
		if !found {
			return false
		}
	}
	return true
}

func compatSrc(o, n Source) bool {
	if !fieldsCompat(o.Fields, n.Fields) {
		return false
	}
	byName := map[int]Decl{}
	for _, d := range n.Decls {
		byName[d.Name] = d
	}
	for _, d := range o.Decls {
		nd, ok := byName[d.Name]
		if !ok || nd.Kind != d.Kind || nd.Cases < d.Cases {
			return false
		}
	}
	return true
}

func declaresEnum(s Source) bool {
	for _, d := range s.Decls {
		if d.Kind == kEnum {
			return true
		}
	}
	return false
}

func deployable(n int, s Source, old *Source) string {
	switch s.Class {
	case cParseError, cTypeError:
		return "FDeploy"
	case cNoContract, cTwoContracts:
		return "FUser"
	}
	if s.Decl != n {
		return "FUser"
	}
	if old != nil && !compatSrc(*old, s) {
		return "FDeploy"
	}
	return ""
}

// step returns the predicted result term; state is updated in place
func (sp *spec) step(o Op) string {
	k := key{o.A, o.N}
	cur, present := sp.dep[k]
	switch o.K {
	case "OAdd":
		if present || sp.touched[k] {
			return "(RFail FUser)"
		}
		if f := deployable(o.N, o.Src, nil); f != "" {
			return "(RFail " + f + ")"
		}
		if o.Src.Class == cInitPanics {
			return "(RFail FPanic)"
		}
		sp.dep[k] = o.Src
		sp.added[k], sp.touched[k] = true, true
		return "RUnit"
	case "OUpdate", "OTryUpdate":
		f := ""
		if !present {
			f = "FUser"
		} else {
			f = deployable(o.N, o.Src, &cur)
		}
		if f == "" {
			sp.dep[k] = o.Src
		}
		if o.K == "OTryUpdate" {
			if f == "" {
				return "(RBool true)"
			}
			return "(RBool false)"
		}
		if f != "" {
			return "(RFail " + f + ")"
		}
		return "RUnit"
	case "ORemove":
		if !present {
			return "RNone"
		}
		if declaresEnum(cur) {
			return "(RFail FRemoval)"
		}
		delete(sp.dep, k)
		sp.touched[k] = true
		return "(RCode " + cur.Coq() + ")"
	case "OGet":
		if !present {
			return "RNone"
		}
		return "(RCode " + cur.Coq() + ")"
	case "OBorrow":
		if present && !sp.added[k] {
			return "(RBool true)"
		}
		return "(RBool false)"
	case "ONames":
		var parts []string
		for n := 0; n < 3; n++ {
			if _, ok := sp.dep[key{o.A, n}]; ok {
				parts = append(parts, fmt.Sprint(n))
			}
		}
		return "(RNames [" + strings.Join(parts, ";") + "])"
	}
	return "(RFail FPanic)"
}

func (sp *spec) clone() *spec {
	c := &spec{dep: map[key]Source{}, added: map[key]bool{}, touched: map[key]bool{}}
	for k, v := range sp.dep {
		c.dep[k] = v
	}
	return c
}

// runTx predicts the results of a transaction; returns predicted results and the state after
func (sp *spec) runTx(ops []Op) ([]string, *spec) {
	w := sp.clone()
	var out []string
	for _, o := range ops {
		r := w.step(o)
		out = append(out, r)
		if strings.HasPrefix(r, "(RFail") {
			return out, sp.clone()
		}
	}
	return out, w.clone()
}

// ---------------------------------------------------------------- generation

type gen struct {
	r   *lib.Rng
	ver *int
}

func (g *gen) source(class, decl, fields int, decls []Decl) Source {
	*g.ver++
	s := Source{Class: class, Decl: decl, Fields: fields, Decls: append([]Decl{}, decls...), Ver: *g.ver}
	register(s)
	return s
}

// random nested declarations: 0..5 declarations with distinct names, any kinds, any order
// (so an enum may come first, in the middle or last, alone or several)
func (g *gen) randDecls() []Decl {
	n := []int{0, 0, 1, 1, 2, 2, 3, 3, 4, 5}[g.r.Intn(10)]
	names := []int{1, 2, 3, 4, 5, 6}
	for i := len(names) - 1; i > 0; i-- {
		j := g.r.Intn(i + 1)
		names[i], names[j] = names[j], names[i]
	}
	var ds []Decl
	for i := 0; i < n; i++ {
		k := []int{0, 0, 1, 2, 2, 3, 3, 3, 4, 5}[g.r.Intn(10)]
		d := Decl{Kind: k, Name: names[i]}
		if k == kEnum {
			d.Cases = 1 + g.r.Intn(2)
		}
		ds = append(ds, d)
	}
	return ds
}

// a variation of deployed declarations: mostly compatible (same, reordered, one added, enum case
// added), sometimes incompatible (one removed, kind changed, enum case removed)
func (g *gen) varyDecls(old []Decl) []Decl {
	ds := append([]Decl{}, old...)
	switch x := g.r.Intn(100); {
	case x < 25:
	case x < 45: // reorder
		for i := len(ds) - 1; i > 0; i-- {
			j := g.r.Intn(i + 1)
			ds[i], ds[j] = ds[j], ds[i]
		}
	case x < 65: // add one (front, middle or back)
		used := map[int]bool{}
		for _, d := range ds {
			used[d.Name] = true
		}
		for n := 1; n <= 6; n++ {
			if !used[n] {
				k := []int{0, 1, 2, 3, 3, 4, 5}[g.r.Intn(7)]
				d := Decl{Kind: k, Name: n}
				if k == kEnum {
					d.Cases = 1
				}
				at := g.r.Intn(len(ds) + 1)
				ds = append(ds[:at:at], append([]Decl{d}, ds[at:]...)...)
				break
			}
		}
	case x < 75: // enum case added
		for i := range ds {
			if ds[i].Kind == kEnum && ds[i].Cases == 1 {
				ds[i].Cases = 2
				break
			}
		}
	case x < 85: // one removed
		if len(ds) > 0 {
			at := g.r.Intn(len(ds))
			ds = append(ds[:at:at], ds[at+1:]...)
		}
	case x < 93: // kind changed
		if len(ds) > 0 {
			at := g.r.Intn(len(ds))
			ds[at].Kind = (ds[at].Kind + 1 + g.r.Intn(5)) % 6
			ds[at].Cases = 0
			if ds[at].Kind == kEnum {
				ds[at].Cases = 1
			}
		}
	default: // enum case removed
		for i := range ds {
			if ds[i].Kind == kEnum && ds[i].Cases == 2 {
				ds[i].Cases = 1
				break
			}
		}
	}
	return ds
}

func (g *gen) newSource(n int, old *Source) Source {
	class := cValid
	decl := n
	fields := g.r.Intn(nFields)
	decls := g.randDecls()
	if old != nil && g.r.Chance(8, 10) {
		decls = g.varyDecls(old.Decls)
		if g.r.Chance(7, 10) {
			// mostly compatible fields
			var ok []int
			for f := 0; f < nFields; f++ {
				if fieldsCompat(old.Fields, f) {
					ok = append(ok, f)
				}
			}
			fields = ok[g.r.Intn(len(ok))]
		}
	} else if old == nil && g.r.Chance(1, 2) {
		fields = []int{0, 0, 1, 3}[g.r.Intn(4)]
	}
	switch x := g.r.Intn(100); {
	case x < 72:
	case x < 77:
		class = cInitPanics
	case x < 82:
		class = cTypeError
	case x < 86:
		class = cParseError
	case x < 89:
		class = cNoContract
	case x < 92:
		class = cTwoContracts
	default:
		decl = (n + 1 + g.r.Intn(2)) % 3 // name mismatch
	}
	return g.source(class, decl, fields, decls)
}

func (g *gen) tx(sp *spec) []Op {
	n := 1 + g.r.Intn(6)
	w := sp.clone()
	var ops []Op
	for i := 0; i < n; i++ {
		a, nm := 1+g.r.Intn(2), g.r.Intn(3)
		// bias the name towards presence/absence as the operation needs
		pick := func(wantPresent bool) {
			for try := 0; try < 4; try++ {
				if _, ok := w.dep[key{a, nm}]; ok == wantPresent {
					return
				}
				a, nm = 1+g.r.Intn(2), g.r.Intn(3)
			}
		}
		var o Op
		switch x := g.r.Intn(100); {
		case x < 24:
			if g.r.Chance(8, 10) {
				pick(false)
			}
			o = Op{K: "OAdd", A: a, N: nm, Src: g.newSource(nm, nil)}
		case x < 40:
			if g.r.Chance(8, 10) {
				pick(true)
			}
			var old *Source
			if c, ok := w.dep[key{a, nm}]; ok {
				old = &c
			}
			o = Op{K: "OUpdate", A: a, N: nm, Src: g.newSource(nm, old)}
		case x < 54:
			if g.r.Chance(8, 10) {
				pick(true)
			}
			var old *Source
			if c, ok := w.dep[key{a, nm}]; ok {
				old = &c
			}
			o = Op{K: "OTryUpdate", A: a, N: nm, Src: g.newSource(nm, old)}
		case x < 70:
			if g.r.Chance(8, 10) {
				pick(true)
			}
			o = Op{K: "ORemove", A: a, N: nm}
		case x < 79:
			o = Op{K: "OGet", A: a, N: nm}
		case x < 88:
			o = Op{K: "OBorrow", A: a, N: nm}
		case x < 96:
			o = Op{K: "ONames", A: a}
		default:
			o = Op{K: "OPanic"}
		}
		ops = append(ops, o)
		r := w.step(o)
		if strings.HasPrefix(r, "(RFail") {
			break
		}
	}
	return ops
}

// declaration lists used by the verdict tables and the scenarios: enum alone, first, in the
// middle, last, followed only by interfaces, several enums, events, resources, interfaces
func declPool() [][]Decl {
	e := func(n, c int) Decl { return Decl{Kind: kEnum, Name: n, Cases: c} }
	st := func(n int) Decl { return Decl{Kind: 0, Name: n} }
	re := func(n int) Decl { return Decl{Kind: 1, Name: n} }
	ev := func(n int) Decl { return Decl{Kind: 2, Name: n} }
	si := func(n int) Decl { return Decl{Kind: 4, Name: n} }
	ri := func(n int) Decl { return Decl{Kind: 5, Name: n} }
	return [][]Decl{
		{},
		{e(1, 1)},
		{e(1, 2)},
		{st(2)},
		{e(1, 1), st(2)},
		{st(2), e(1, 1)},
		{st(2), e(1, 1), ev(3)},
		{e(1, 1), ev(3)},
		{e(1, 1), re(2)},
		{re(2), si(4), e(1, 1), ri(5)},
		{e(1, 1), st(2), e(6, 1)},
		{e(1, 1), e(6, 2), re(2)},
		{ev(3), st(2)},
		{si(4), ri(5)},
		{e(2, 1)},
		{ev(3), e(1, 2), si(4), st(2), re(5)},
	}
}

// ---------------------------------------------------------------- fixed scenarios

func scenarios(g *gen) ([]string, map[string][][]Op) {
	v := func(n, fields int) Source { return g.source(cValid, n, fields, nil) }
	vd := func(n int, decls []Decl) Source { return g.source(cValid, n, 0, decls) }
	pool := declPool()
	sc := map[string][][]Op{}
	sc["lifecycle"] = [][]Op{
		{{K: "OAdd", A: 1, N: 0, Src: v(0, 0)}, {K: "ONames", A: 1}, {K: "OGet", A: 1, N: 0}, {K: "OAdd", A: 2, N: 0, Src: v(0, 1)}},
		{{K: "OBorrow", A: 1, N: 0}, {K: "OUpdate", A: 1, N: 0, Src: v(0, 3)}, {K: "OGet", A: 1, N: 0}, {K: "OBorrow", A: 1, N: 0},
			{K: "OTryUpdate", A: 1, N: 0, Src: v(0, 0)}, {K: "OGet", A: 1, N: 0}, {K: "OTryUpdate", A: 1, N: 1, Src: v(1, 0)}, {K: "OTryUpdate", A: 1, N: 0, Src: g.source(cTypeError, 0, 3, nil)},
			{K: "OTryUpdate", A: 1, N: 0, Src: g.source(cParseError, 0, 3, nil)}, {K: "OTryUpdate", A: 1, N: 0, Src: v(1, 3)}, {K: "OTryUpdate", A: 1, N: 0, Src: g.source(cInitPanics, 0, 3, nil)}, {K: "OGet", A: 1, N: 0}},
		{{K: "OAdd", A: 1, N: 0, Src: v(0, 0)}},
		{{K: "OUpdate", A: 1, N: 1, Src: v(1, 0)}},
		{{K: "OUpdate", A: 2, N: 0, Src: v(0, 2)}},
		{{K: "ORemove", A: 1, N: 0}, {K: "ORemove", A: 1, N: 0}, {K: "ONames", A: 1}, {K: "OBorrow", A: 1, N: 0}, {K: "OGet", A: 1, N: 0}},
		{{K: "OAdd", A: 1, N: 0, Src: v(0, 1)}, {K: "OUpdate", A: 1, N: 0, Src: v(0, 0)}, {K: "OGet", A: 1, N: 0}},
	}
	// enum first and a struct after it; enum added by an update, in the middle of other declarations
	sc["remove-enum"] = [][]Op{
		{{K: "OAdd", A: 2, N: 1, Src: vd(1, pool[4])}, {K: "OAdd", A: 2, N: 2, Src: v(2, 0)}, {K: "OAdd", A: 1, N: 1, Src: vd(1, pool[12])}},
		{{K: "ORemove", A: 2, N: 1}},
		{{K: "OUpdate", A: 2, N: 2, Src: vd(2, pool[6])}, {K: "ORemove", A: 2, N: 2}},
		{{K: "ONames", A: 2}, {K: "OUpdate", A: 2, N: 1, Src: v(1, 0)}},
		{{K: "OTryUpdate", A: 2, N: 1, Src: vd(1, pool[10])}, {K: "OGet", A: 2, N: 1}, {K: "ORemove", A: 2, N: 1}},
		{{K: "ORemove", A: 1, N: 1}, {K: "ONames", A: 1}},
	}
	sc["remove-then-add-same-tx"] = [][]Op{
		{{K: "OAdd", A: 1, N: 2, Src: v(2, 0)}},
		{{K: "ORemove", A: 1, N: 2}, {K: "OAdd", A: 1, N: 2, Src: v(2, 0)}},
		{{K: "ONames", A: 1}, {K: "ORemove", A: 1, N: 2}, {K: "OUpdate", A: 1, N: 2, Src: v(2, 0)}},
		{{K: "ORemove", A: 1, N: 2}},
		{{K: "OAdd", A: 1, N: 2, Src: v(2, 2)}, {K: "OGet", A: 1, N: 2}},
	}
	sc["failed-tx-invisible"] = [][]Op{
		{{K: "OAdd", A: 1, N: 1, Src: v(1, 0)}},
		{{K: "OUpdate", A: 1, N: 1, Src: v(1, 3)}, {K: "OAdd", A: 1, N: 0, Src: v(0, 0)}, {K: "ORemove", A: 1, N: 1}, {K: "ONames", A: 1}, {K: "OPanic"}},
		{{K: "OAdd", A: 2, N: 0, Src: g.source(cInitPanics, 0, 0, nil)}},
		{{K: "OAdd", A: 2, N: 0, Src: g.source(cNoContract, 0, 0, nil)}},
		{{K: "OAdd", A: 2, N: 0, Src: g.source(cTwoContracts, 0, 0, nil)}},
		{{K: "OAdd", A: 2, N: 0, Src: v(1, 0)}},
	}
	// interpreter: borrow of a contract added earlier in the same transaction
	sc["borrow-after-add-same-tx"] = [][]Op{
		{{K: "OAdd", A: 2, N: 2, Src: v(2, 0)}, {K: "OBorrow", A: 2, N: 2}, {K: "OGet", A: 2, N: 2}},
		{{K: "OBorrow", A: 2, N: 2}},
	}
	// add followed by remove of the same contract in one transaction
	sc["add-then-remove-same-tx"] = [][]Op{
		{{K: "OAdd", A: 1, N: 1, Src: v(1, 0)}, {K: "ORemove", A: 1, N: 1}, {K: "ONames", A: 1}},
		{{K: "ONames", A: 1}},
	}
	var names []string
	for n := range sc {
		names = append(names, n)
	}
	sort.Strings(names)
	return names, sc
}

// ---------------------------------------------------------------- main flow

func c26(sum *lib.Summary) {
	thorough := *tier == "thorough"
	rng := lib.NewRng(*seed)
	sum.Rule = "histories of contracts.add/update/tryUpdate/remove/get/borrow/names over 2 accounts x 3 names, sources of 6 classes (valid, initializer panics, " +
		"type error, parse error, no contract, two contracts) plus name mismatch, 4 field variants and nested declaration lists (struct/resource/event/enum/interfaces in varied order, enum cases) giving " +
		"compatible and incompatible updates; transactions (some failing) each followed by an observing script reading names/get/borrow of every account and name; both engines; " +
		"per-operation results, AccountContractAdded/Updated/Removed events and the host code map are compared with the Coq model and with an independent Go specification; " +
		"update-validation verdicts (all pairs of a pool of field variants and nested-declaration lists) and removal verdicts (enum alone/first/middle/last, several enums, events, resources, interfaces, random orders) are compared with the real validator and removeContract. non-trivial history = at least one successful add, update and remove, a failing tryUpdate " +
		"and a failed transaction; distinct = distinct operation sequences"

	// update-validation and removal verdicts against the real validator / removeContract
	tw := &lib.CaseWriter{Dir: *dir, Prefix: "cases_C26_compat", Header: "From CV Require Import C26.Cases.",
		ElemType: "source * source * bool", CheckFn: "check_compat", PerFile: 400}
	rw := &lib.CaseWriter{Dir: *dir, Prefix: "cases_C26_remove", Header: "From CV Require Import C26.Cases.",
		ElemType: "source * bool", CheckFn: "check_remove", PerFile: 400}
	ver := 0
	g0 := &gen{r: rng, ver: &ver}
	type shapeT struct {
		f int
		d []Decl
	}
	var shapes []shapeT
	for f := 0; f < nFields; f++ {
		shapes = append(shapes, shapeT{f, nil})
	}
	for _, d := range declPool()[1:] {
		shapes = append(shapes, shapeT{0, d})
	}
	// random declaration lists as well (order and position of enums vary with the seed)
	nrand := 12
	if thorough {
		nrand = 60
	}
	for i := 0; i < nrand; i++ {
		shapes = append(shapes, shapeT{0, g0.randDecls()})
	}
	for k, sh := range shapes {
		for _, vm := range []bool{false, true} {
			h := lib.NewHost()
			src := g0.source(cValid, 0, sh.f, sh.d)
			t1 := runTx(h, vm, []Op{{K: "OAdd", A: 1, N: 0, Src: src}}, false)
			t2 := runTx(h, vm, []Op{{K: "ORemove", A: 1, N: 0}}, false)
			sum.Evaluations++
			sum.Count("remove-table")
			refused := t2.Failed && len(t2.Results) == 1 && t2.Results[0] == "(RFail FRemoval)"
			removed := !t2.Failed && len(t2.Results) == 1 && strings.HasPrefix(t2.Results[0], "(RCode")
			if t1.Bad != "" || t1.Failed || t2.Bad != "" || (!refused && !removed) {
				sum.Fail("unexpected-outcome", fmt.Sprintf("removal of shape %d (vm=%v): add %v %s, remove %v %s", k, vm, t1.Results, t1.Bad, t2.Results, t2.Bad),
					map[string]any{"source": src.Text(), "vm": vm})
				continue
			}
			if refused != declaresEnum(src) {
				sum.Fail("remove-verdict", fmt.Sprintf("contracts.remove (vm=%v) refused=%v for a contract that declares enum=%v", vm, refused, declaresEnum(src)),
					map[string]any{"source": src.Text(), "vm": vm, "refused": refused, "declares_enum": declaresEnum(src)})
			}
			rw.Add(fmt.Sprintf("(%s, %s)", src.Coq(), map[bool]string{true: "true", false: "false"}[refused]),
				map[string]any{"table": "remove", "source": src.Text(), "vm": vm, "refused": refused})
		}
	}
	rw.Close()
	npool := nFields + len(declPool()) - 1 + 4 // fixed shapes and a few random ones
	if thorough {
		npool = len(shapes)
	}
	for i := 0; i < npool; i++ {
		for j := 0; j < npool; j++ {
			vm := (i+j)%3 == 0 // the validator is shared code: a third of the pairs on the VM
			h := lib.NewHost()
			so := g0.source(cValid, 0, shapes[i].f, shapes[i].d)
			sn := g0.source(cValid, 0, shapes[j].f, shapes[j].d)
			t1 := runTx(h, vm, []Op{{K: "OAdd", A: 1, N: 0, Src: so}}, false)
			t2 := runTx(h, vm, []Op{{K: "OUpdate", A: 1, N: 0, Src: sn}}, false)
			sum.Evaluations++
			sum.Count("compat-table")
			if t1.Bad != "" || t1.Failed || t2.Bad != "" {
				sum.Fail("unexpected-outcome", fmt.Sprintf("compat table %d->%d (vm=%v): %s %s", i, j, vm, t1.Bad, t2.Bad),
					map[string]any{"old": so.Text(), "new": sn.Text(), "vm": vm})
				continue
			}
			obs := "true"
			if t2.Failed {
				obs = "false"
			}
			if t2.Failed != !compatSrc(so, sn) {
				sum.Fail("compat-table", fmt.Sprintf("update validation (vm=%v): accepted=%v, Go oracle says %v", vm, !t2.Failed, compatSrc(so, sn)),
					map[string]any{"old": so.Text(), "new": sn.Text(), "vm": vm, "accepted": !t2.Failed})
			}
			tw.Add(fmt.Sprintf("(%s, %s, %s)", so.Coq(), sn.Coq(), obs),
				map[string]any{"table": "compat", "old": so.Text(), "new": sn.Text(), "vm": vm, "accepted": !t2.Failed})
		}
	}
	tw.Close()

	cw := &lib.CaseWriter{Dir: *dir, Prefix: "cases_C26_hist", Header: "From CV Require Import C26.Cases.",
		ElemType: "bool * list (list op) * list (list result * list event) * list (Z * list (Z * source))",
		CheckFn:  "check_history", PerFile: 12}
	distinct := map[string]bool{}
	obsOps := observeOps()

	handle := func(name string, next func(sp *spec, i int) []Op) {
		var base [][]Op
		for k, vm := range []bool{false, true} {
			h := lib.NewHost()
			hist := &History{Name: name}
			sp := &spec{dep: map[key]Source{}, added: map[key]bool{}, touched: map[key]bool{}}
			bad := false
			for i := 0; ; i++ {
				var ops []Op
				if k == 0 {
					ops = next(sp, i)
					if ops == nil {
						break
					}
					base = append(base, ops)
				} else {
					if i >= len(base) {
						break
					}
					ops = base[i]
				}
				for pass, cur := range [][]Op{ops, obsOps} {
					t := runTx(h, vm, cur, pass == 1)
					hist.Txs = append(hist.Txs, t)
					sum.Count("transactions+scripts")
					if t.Bad != "" {
						bad = true
						sum.Fail("unexpected-outcome", fmt.Sprintf("history %s (vm=%v): %s", name, vm, t.Bad), hist.desc(vm))
						break
					}
					// independent Go specification
					pred, after := sp.runTx(cur)
					if !t.Failed {
						sp = after // (on failure the state before the transaction stays)
					}
					for j, o := range cur {
						if j < len(t.Results) {
							sum.Count("op " + o.K)
						}
					}
					if strings.Join(pred, ";") != strings.Join(t.Results, ";") {
						// classify against the two known deviations
						keyF := "spec-mismatch"
						last := t.Results[len(t.Results)-1]
						switch {
						case !vm && last == "(RFail FCrash)" && len(t.Results) <= len(cur) && cur[len(t.Results)-1].K == "OBorrow" &&
							pred[len(t.Results)-1] == "(RBool false)":
							keyF = "borrow-after-add-same-tx-crash"
						case last == "(RFail FInternal)" && len(t.Results) == len(cur)+1:
							keyF = "add-then-remove-same-tx-internal"
						}
						sum.Count("deviation " + keyF)
						sum.Fail(keyF, fmt.Sprintf("history %s (vm=%v): observed %v, lifecycle specification requires %v", name, vm, t.Results, pred), hist.desc(vm))
					}
					if t.Failed {
						sum.Count("failed")
					}
				}
				if bad {
					break
				}
			}
			if bad {
				continue
			}
			hist.Codes, hist.CDesc = hostCodes(h)
			sum.Evaluations++
			sum.Count(fmt.Sprintf("history vm=%v", vm))
			cw.Add(hist.coq(vm), hist.desc(vm))
			if k == 0 {
				var keyS strings.Builder
				add, upd, rem, tryF, failed := false, false, false, false, false
				for _, t := range hist.Txs {
					if t.Script {
						continue
					}
					failed = failed || t.Failed
					for j, o := range t.Ops {
						keyS.WriteString(o.Coq() + ";")
						if j >= len(t.Results) || t.Failed {
							continue
						}
						switch o.K {
						case "OAdd":
							add = add || t.Results[j] == "RUnit"
						case "OUpdate":
							upd = upd || t.Results[j] == "RUnit"
						case "ORemove":
							rem = rem || strings.HasPrefix(t.Results[j], "(RCode")
						case "OTryUpdate":
							tryF = tryF || t.Results[j] == "(RBool false)"
						}
					}
					keyS.WriteString("|")
				}
				if add && upd && rem && tryF && failed && !distinct[keyS.String()] {
					distinct[keyS.String()] = true
					sum.DistinctNontrivial++
					sum.Sample(hist.desc(vm))
				}
			}
		}
	}

	names, sc := scenarios(g0)
	for _, n := range names {
		txs := sc[n]
		handle("scenario:"+n, func(_ *spec, i int) []Op {
			if i < len(txs) {
				return txs[i]
			}
			return nil
		})
	}
	nh := 40
	if thorough {
		nh = 600
	}
	for k := 0; k < nh; k++ {
		g := &gen{r: lib.NewRng(rng.U64()), ver: &ver}
		ntx := 4 + g.r.Intn(8)
		if thorough {
			ntx = 4 + g.r.Intn(16)
		}
		handle(fmt.Sprintf("random:%d:%d", *seed, k), func(sp *spec, i int) []Op {
			if i >= ntx {
				return nil
			}
			return g.tx(sp)
		})
	}
	cw.Close()
	sum.CaseFiles = append(append(tw.Files, rw.Files...), cw.Files...)
}
