package main

import (
	"encoding/hex"
	"fmt"
	"testing"

	"cvh/lib"
)

func TestProbe(t *testing.T) {
	for name, code := range map[string]string{
		"depth2":   "access(all) contract C0 { access(all) struct S { access(all) enum E: UInt8 { access(all) case a } } }",
		"resenum":  "access(all) contract C0 { access(all) resource R { access(all) enum E: UInt8 { access(all) case a } } }",
		"ifaceev":  "access(all) contract C0 { access(all) struct interface I { access(all) event Ev() } access(all) event X() access(all) resource R {} access(all) resource interface RI {} }",
		"ifaceenum":  "access(all) contract C0 { access(all) struct interface I { access(all) enum E: UInt8 { access(all) case a } } }",
	} {
		h := lib.NewHost()
		tx := "transaction { prepare(s: auth(Contracts) &Account) {\ns.contracts.add(name: \"C0\", code: \"" + hex.EncodeToString([]byte(code)) + "\".decodeHex())\n}}"
		o := h.RunTx(tx, nil, signers[:1], false)
		e := ""
		if o.Err != nil {
			e = o.Err.Error()
			if len(e) > 700 {
				e = e[:700]
			}
		}
		fmt.Printf("%s: %q\n", name, e)
	}
}
