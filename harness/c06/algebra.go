package main

import (
	"fmt"
	"strings"

	"cvh/lib"

	"github.com/onflow/cadence/ast"
	"github.com/onflow/cadence/common"
	"github.com/onflow/cadence/interpreter"
	"github.com/onflow/cadence/sema"
)

const header = "From CV Require Import C06.Cases."

// failOnce records one failure per key (the first input seen) and counts the rest, so that a frequent known
// class can never crowd out a different failure.
type failures struct {
	sum   *lib.Summary
	count map[string]int
}

func (f *failures) fail(key, what string, replay any) {
	if f.count[key] == 0 {
		f.sum.Fail(key, what, replay)
	}
	f.count[key]++
}

type ctx struct {
	u        *universe
	sum      *lib.Summary
	f        *failures
	rng      *lib.Rng
	mapTypes map[int]*sema.EntitlementMapType
	files    []string
	distinct map[string]bool
}

func (c *ctx) nontrivial(k string) {
	if !c.distinct[k] {
		c.distinct[k] = true
		c.sum.DistinctNontrivial++
	}
}

func (c *ctx) writer(name, elem, fn string, per int) *lib.CaseWriter {
	return &lib.CaseWriter{Dir: *dir, Prefix: "cases_C06_" + name, Header: header, ElemType: elem, CheckFn: fn, PerFile: per}
}

func (c *ctx) done(w *lib.CaseWriter) {
	w.Close()
	c.files = append(c.files, w.Files...)
}

func boolCoq(b bool) string {
	if b {
		return "true"
	}
	return "false"
}

// callBool runs a boolean method of the implementation; a Go panic is reported as a failure.
func (c *ctx) callBool(what string, f func() bool) bool {
	var r bool
	cls, rec := lib.Catch(func() { r = f() })
	if cls != "" {
		c.f.fail("panic:"+what, fmt.Sprintf("%s panicked: %v", what, rec), map[string]any{"call": what, "panic": fmt.Sprint(rec)})
	}
	return r
}

// ---------------------------------------------------------------- interpreter-side type converter

type conv struct{ u *universe }

func (conv) MeterMemory(common.MemoryUsage) error { return nil }
func (c conv) GetEntitlementType(id interpreter.TypeID) (*sema.EntitlementType, error) {
	e, ok := c.u.byID[id]
	if !ok {
		return nil, fmt.Errorf("unknown entitlement %s", id)
	}
	return e, nil
}
func (c conv) GetEntitlementMapType(id interpreter.TypeID) (*sema.EntitlementMapType, error) {
	m, ok := c.u.maps[id]
	if !ok {
		return nil, fmt.Errorf("unknown entitlement map %s", id)
	}
	return m, nil
}
func (conv) GetInterfaceType(common.Location, string, interpreter.TypeID) (*sema.InterfaceType, error) {
	return nil, fmt.Errorf("no interfaces")
}
func (conv) GetCompositeType(common.Location, string, interpreter.TypeID) (*sema.CompositeType, error) {
	return nil, fmt.Errorf("no composites")
}
func (c conv) SemaTypeFromStaticType(t interpreter.StaticType) sema.Type {
	return interpreter.MustConvertStaticToSemaType(t, c) //nolint:staticcheck
}
func (c conv) SemaAccessFromStaticAuthorization(a interpreter.Authorization) (sema.Access, error) {
	return interpreter.ConvertStaticAuthorizationToSemaAccess(a, c) //nolint:staticcheck
}

var _ interpreter.TypeConverter = conv{}

// ---------------------------------------------------------------- A: all pairs

func (c *ctx) sectionPairs() {
	all := allAccesses()
	recv := make([]sema.Access, len(all))
	arg := make([]sema.Access, len(all)) // distinct objects for the argument side
	for i, a := range all {
		recv[i] = c.u.toSema(a, c.mapTypes)
		arg[i] = c.u.toSema(a, c.mapTypes)
	}
	wp := c.writer("permits", "access * access * bool", "check_permits", 450)
	wi := c.writer("intersect", "access * access * access", "check_intersect", 450)
	// one case per ordered pair: (receiver, argument, (PermitsAccess, Equal, IsSubType(auth(argument) &Int, auth(receiver) &Int), IntersectAccess))
	wpair := c.writer("pair", "access * access * (bool * bool * bool * access)", "check_pair", 350)
	// the same through the interpreter's static authorizations: (PermitsAccess, Equal, IsSubType)
	wrt := c.writer("rtpair", "access * access * (bool * bool * bool)", "check_rt_pair", 450)
	for i, e := range all {
		for j, o := range all {
			desc := func(fn string, obs any) map[string]any {
				return map[string]any{"fn": fn, "receiver": e.String(), "argument": o.String(), "observed": fmt.Sprint(obs)}
			}
			// PermitsAccess
			got := c.callBool("PermitsAccess", func() bool { return recv[i].PermitsAccess(arg[j]) })
			c.sum.Evaluations++
			c.sum.Count("PermitsAccess")
			if e.isSet() && o.isSet() {
				c.nontrivial("permits " + e.String() + " " + o.String())
			}
			if e.isAuthz() && o.isAuthz() && !(e.Kind == "conj" && len(e.Set) == 0 && o.isUnauth()) {
				// set semantics: the requirement e is satisfied by o iff every holder satisfying o satisfies e
				want := stronger(o, e)
				if got != want {
					c.f.fail(fmt.Sprintf("permits-semantics:%s-permits-%s", e.Kind, o.Kind),
						fmt.Sprintf("%s.PermitsAccess(%s) = %v, but by set semantics (all holders over E1..E4) it must be %v", e, o, got, want),
						desc("sema.Access.PermitsAccess", got))
				}
			}
			// Equal
			eq := c.callBool("Equal", func() bool { return recv[i].Equal(arg[j]) })
			c.sum.Evaluations++
			c.sum.Count("Equal")
			if e.isSet() && o.isSet() {
				want := e.Kind == o.Kind && fmt.Sprint(sorted(e.Set)) == fmt.Sprint(sorted(o.Set))
				if eq != want {
					c.f.fail("equal-sets", fmt.Sprintf("%s.Equal(%s) = %v, must be %v (same kind and same entitlements)", e, o, eq, want),
						desc("sema.Access.Equal", eq))
				}
			}
			if eq && e.isAuthz() && o.isAuthz() && !(stronger(e, o) && stronger(o, e)) {
				c.f.fail("equal-unsound", fmt.Sprintf("%s.Equal(%s) = true but they are satisfied by different holders", e, o),
					desc("sema.Access.Equal", eq))
			}
			// IntersectAccess
			var res sema.Access
			cls, rec := lib.Catch(func() { res = sema.IntersectAccess(recv[i], arg[j]) })
			c.sum.Evaluations++
			c.sum.Count("IntersectAccess")
			if cls != "" {
				c.f.fail("panic:IntersectAccess", fmt.Sprintf("IntersectAccess(%s, %s) panicked: %v", e, o, rec), desc("sema.IntersectAccess", rec))
				continue
			}
			r := c.u.fromSema(res)
			// reference subtyping: auth(o) &Int <: auth(e) &Int
			tsub := sema.NewReferenceType(nil, arg[j], sema.IntType)
			tsup := sema.NewReferenceType(nil, recv[i], sema.IntType)
			st := c.callBool("sema.IsSubType", func() bool { return sema.IsSubType(tsub, tsup) })
			c.sum.Evaluations++
			c.sum.Count("sema.IsSubType on reference types")
			if e.wfAuthz() && o.wfAuthz() {
				if want := stronger(o, e); st != want {
					c.f.fail("subtype-semantics", fmt.Sprintf("IsSubType(%s &Int, %s &Int) = %v, set semantics requires %v", o, e, st, want), desc("sema.IsSubType", st))
				}
			}
			wpair.Add(fmt.Sprintf("(%s, %s, (%s, %s, %s, %s))", e.coq(), o.coq(), boolCoq(got), boolCoq(eq), boolCoq(st), r.coq()),
				map[string]any{"fn": "sema pair", "receiver": e.String(), "argument": o.String(),
					"PermitsAccess": got, "Equal": eq, "IsSubType(auth(argument) &Int, auth(receiver) &Int)": st, "IntersectAccess": r.String()})
			if e.wfAuthz() && o.wfAuthz() {
				if !r.wfAuthz() {
					c.f.fail("intersect-ill-formed", fmt.Sprintf("IntersectAccess(%s, %s) = %s is not a well-formed authorization", e, o, r),
						desc("sema.IntersectAccess", r))
				}
				// no escalation: every holder that justified either side justifies the result
				if !(stronger(e, r) && stronger(o, r)) {
					c.f.fail("intersect-escalation", fmt.Sprintf("IntersectAccess(%s, %s) = %s grants more than one of its sources", e, o, r),
						desc("sema.IntersectAccess", r))
				}
				if e.isSet() && o.isSet() && r.isSet() {
					c.nontrivial("intersect " + e.String() + " " + o.String())
				}
			}
		}
	}

	// sets given to the constructor in random order (insertion order must not matter)
	n := 400
	if *tier == "thorough" {
		n = 3000
	}
	shuffle := func(xs []int) []int {
		ys := append([]int{}, xs...)
		for i := len(ys) - 1; i > 0; i-- {
			j := c.rng.Intn(i + 1)
			ys[i], ys[j] = ys[j], ys[i]
		}
		return ys
	}
	randSet := func() acc {
		k := "conj"
		if c.rng.Bool() {
			k = "disj"
		}
		return acc{Kind: k, Set: shuffle(subset(c.rng.Intn(1<<NE), NE))}
	}
	for i := 0; i < n; i++ {
		e, o := randSet(), randSet()
		se, so := c.u.toSema(e, nil), c.u.toSema(o, nil)
		got := c.callBool("PermitsAccess", func() bool { return se.PermitsAccess(so) })
		c.sum.Evaluations++
		c.sum.Count("PermitsAccess (shuffled)")
		wp.Add(fmt.Sprintf("(%s, %s, %s)", e.coq(), o.coq(), boolCoq(got)),
			map[string]any{"fn": "sema.Access.PermitsAccess", "receiver": e.String(), "argument": o.String(), "observed": got})
		if want := stronger(o, e); got != want {
			c.f.fail(fmt.Sprintf("permits-semantics:%s-permits-%s", e.Kind, o.Kind),
				fmt.Sprintf("%s.PermitsAccess(%s) = %v, but by set semantics it must be %v", e, o, got, want),
				map[string]any{"receiver": e.String(), "argument": o.String(), "observed": got})
		}
		res := c.u.fromSema(sema.IntersectAccess(se, so))
		c.sum.Evaluations++
		wi.Add(fmt.Sprintf("(%s, %s, %s)", e.coq(), o.coq(), res.coq()),
			map[string]any{"fn": "sema.IntersectAccess", "receiver": e.String(), "argument": o.String(), "observed": res.String()})
	}

	// interpreter side: static authorizations
	tc := conv{c.u}
	var conv1 []acc
	for _, a := range all {
		if a.Kind == "prim" && a.Prim != ast.AccessAll && a.Prim != ast.AccessNone {
			continue // only unauthorized / inaccessible have a static counterpart
		}
		conv1 = append(conv1, a)
	}
	st := make([]interpreter.Authorization, len(conv1))
	for i, a := range conv1 {
		x := c.u.toSema(a, c.mapTypes)
		cls, rec := lib.Catch(func() { st[i] = interpreter.ConvertSemaAccessToStaticAuthorization(nil, x) })
		if cls != "" {
			c.f.fail("panic:ConvertSemaAccessToStaticAuthorization", fmt.Sprintf("conversion of %s panicked: %v", a, rec), map[string]any{"access": a.String()})
			continue
		}
		// round trip
		back, err := interpreter.ConvertStaticAuthorizationToSemaAccess(st[i], tc) //nolint:staticcheck
		c.sum.Evaluations++
		c.sum.Count("static authorization round trip")
		if err != nil || !back.Equal(x) || !x.Equal(back) {
			c.f.fail("static-roundtrip", fmt.Sprintf("%s -> static authorization -> %v (err %v): not Equal to the original", a, back, err),
				map[string]any{"access": a.String(), "back": fmt.Sprint(back), "err": fmt.Sprint(err)})
		}
	}
	intTy := interpreter.PrimitiveStaticTypeInt
	for i, e := range conv1 {
		for j, o := range conv1 {
			if st[i] == nil || st[j] == nil {
				continue
			}
			desc := func(fn string, obs any) map[string]any {
				return map[string]any{"fn": fn, "receiver": e.String(), "argument": o.String(), "observed": fmt.Sprint(obs)}
			}
			eq := c.callBool("interpreter.Authorization.Equal", func() bool { return st[i].Equal(st[j]) })
			p := c.callBool("interpreter.PermitsAccess", func() bool { return interpreter.PermitsAccess(tc, st[i], st[j]) })
			// run-time reference subtyping: auth(o) &Int <: auth(e) &Int
			sub := interpreter.NewReferenceStaticType(nil, st[j], intTy)
			sup := interpreter.NewReferenceStaticType(nil, st[i], intTy)
			s := c.callBool("interpreter.IsSubType", func() bool { return interpreter.IsSubType(tc, sub, sup) })
			c.sum.Evaluations += 3
			c.sum.Count("interpreter Equal/PermitsAccess/IsSubType")
			wrt.Add(fmt.Sprintf("(%s, %s, (%s, %s, %s))", e.coq(), o.coq(), boolCoq(p), boolCoq(eq), boolCoq(s)),
				map[string]any{"fn": "interpreter pair", "receiver": e.String(), "argument": o.String(),
					"PermitsAccess": p, "Equal": eq, "IsSubType(auth(argument) &Int, auth(receiver) &Int)": s})
			if e.wfAuthz() && o.wfAuthz() {
				if want := stronger(o, e); s != want {
					c.f.fail("runtime-subtype-semantics",
						fmt.Sprintf("run-time IsSubType(auth %s &Int, auth %s &Int) = %v, set semantics requires %v", o, e, s, want), desc("interpreter.IsSubType", s))
				}
			}
		}
	}
	c.done(wp)
	c.done(wi)
	c.done(wpair)
	c.done(wrt)
}

// ---------------------------------------------------------------- B: mapping images

func obsImage(c *ctx, res sema.Access, err error) (string, *acc) {
	if err != nil {
		if _, ok := err.(*sema.UnrepresentableEntitlementMapOutputError); ok {
			return "(Err UserOther)", nil
		}
		return "(Err Internal)", nil
	}
	r := c.u.fromSema(res)
	return "(Ok " + r.coq() + ")", &r
}

func (c *ctx) imageMap(m emap, no int, inputs []acc, w *lib.CaseWriter, toCoq bool) {
	mt := c.u.newMap(no, fmt.Sprintf("G%d", no), m.Rels, m.Identity)
	delete(c.u.maps, mt.ID()) // not needed for static conversion; keep the table small
	delete(c.u.mapNo, mt)
	ma := sema.NewEntitlementMapAccess(mt)
	var items, readable []string
	results := make([]*acc, len(inputs))
	for i, in := range inputs {
		x := c.u.toSema(in, c.mapTypes)
		var res sema.Access
		var err error
		cls, rec := lib.Catch(func() { res, err = ma.Image(nil, x, ast.EmptyRange) })
		c.sum.Evaluations++
		if cls != "" {
			c.f.fail("panic:Image", fmt.Sprintf("Image of %s through %s panicked: %v", in, m, rec), map[string]any{"map": m.String(), "input": in.String()})
			items = append(items, fmt.Sprintf("(%s, (Err Crash))", in.coq()))
			continue
		}
		s, r := obsImage(c, res, err)
		results[i] = r
		items = append(items, fmt.Sprintf("(%s, %s)", in.coq(), s))
		if r == nil {
			readable = append(readable, in.String()+" => unrepresentable")
		} else {
			readable = append(readable, in.String()+" => "+r.String())
		}
		if r == nil {
			c.sum.Count("Image: unrepresentable")
		} else if r.isUnauth() {
			c.sum.Count("Image: unauthorized")
		} else {
			c.sum.Count("Image: " + r.Kind)
		}
		if in.isSet() && len(in.Set) > 0 && len(m.Rels) > 0 {
			c.nontrivial("image " + m.String() + " " + in.String())
		}
		if r == nil || !in.wfAuthz() {
			continue
		}
		// soundness: a holder satisfying the source obtains, through the mapping, entitlements satisfying the result
		if !r.wfAuthz() {
			c.f.fail("image-ill-formed", fmt.Sprintf("Image of %s through %s = %s is not a well-formed authorization", in, m, r),
				map[string]any{"map": m.String(), "input": in.String(), "observed": r.String()})
			continue
		}
		for h := 0; h < 1<<NE; h++ {
			if sat(in, h) && !sat(*r, m.through(h)) {
				key := "sema-image:other"
				if disjMemberWithoutImage(m, in) && r.Kind == "disj" {
					key = "sema-image:disj-member-without-image"
				}
				c.f.fail(key,
					fmt.Sprintf("Image of %s through mapping %s is %s, but a holder of exactly %s satisfies the source and obtains only %s through the mapping, which does not satisfy the result",
						in, m, r, "{"+joinE(subset(h, NE), ",")+"}", "{"+joinE(subset(m.through(h), NE), ",")+"}"),
					map[string]any{"map": m.String(), "input": in.String(), "observed_image": r.String(),
						"holder": subset(h, NE), "holder_obtains": subset(m.through(h), NE), "via": "sema.(*EntitlementMapAccess).Image"})
				break
			}
		}
	}
	// upcasts: sub <: sup (every holder of sub satisfies sup); what is derived through sup must be derivable through sub
	for i, sup := range inputs {
		if !sup.wfAuthz() || results[i] == nil {
			continue
		}
		for j, sub := range inputs {
			if !sub.wfAuthz() || results[j] == nil || !stronger(sub, sup) {
				continue
			}
			if !stronger(*results[j], *results[i]) {
				key := "sema-image:other"
				if disjMemberWithoutImage(m, sup) && results[i].Kind == "disj" {
					key = "sema-image:disj-member-without-image"
				}
				c.f.fail(key,
					fmt.Sprintf("%s is a subtype authorization of %s, but through mapping %s the supertype yields %s and the subtype only %s",
						sub, sup, m, results[i], results[j]),
					map[string]any{"map": m.String(), "sub": sub.String(), "sup": sup.String(),
						"image_sub": results[j].String(), "image_sup": results[i].String(), "via": "sema.(*EntitlementMapAccess).Image"})
			}
		}
	}
	if toCoq {
		w.Add(fmt.Sprintf("(%s, %s, [%s])", m.coqRels(), boolCoq(m.Identity), strings.Join(items, "; ")),
			map[string]any{"fn": "sema.(*EntitlementMapAccess).Image", "map": m.String(), "observed": readable})
	}
}

func relsFromMask(mask, nin, nout int) [][2]int {
	var rels [][2]int
	for i := 0; i < nin; i++ {
		for j := 0; j < nout; j++ {
			if mask&(1<<(i*nout+j)) != 0 {
				rels = append(rels, [2]int{i + 1, j + 1})
			}
		}
	}
	return rels
}

func (c *ctx) sectionImage() {
	inputs := allAccesses()
	w := c.writer("image", "list (Z * Z) * bool * list (access * res access)", "check_image", 60)
	no := 1000
	// every mapping over E1..E3 (2^9 relations x identity flag), every input over E1..E4
	for mask := 0; mask < 1<<9; mask++ {
		for _, id := range []bool{false, true} {
			no++
			c.imageMap(emap{relsFromMask(mask, 3, 3), id}, no, inputs, w, true)
		}
	}
	// mappings over E1..E4: random sample to Coq; all of them through the oracle at the thorough tier
	n := 150
	if *tier == "thorough" {
		n = 1500
	}
	for i := 0; i < n; i++ {
		mask := c.rng.Intn(1 << 16)
		if c.rng.Chance(1, 3) { // sparse maps: many members without image
			mask &= c.rng.Intn(1 << 16)
		}
		rels := relsFromMask(mask, 4, 4)
		// relations in random order, possibly with a duplicate
		for k := len(rels) - 1; k > 0; k-- {
			j := c.rng.Intn(k + 1)
			rels[k], rels[j] = rels[j], rels[k]
		}
		if len(rels) > 0 && c.rng.Chance(1, 4) {
			rels = append(rels, rels[c.rng.Intn(len(rels))])
		}
		no++
		c.imageMap(emap{rels, c.rng.Bool()}, no, inputs, w, true)
	}
	if *tier == "thorough" {
		for mask := 0; mask < 1<<16; mask += 1 {
			if mask%4 != int(*seed%4) { // a quarter of all 4x4 relations per seed
				continue
			}
			no++
			c.imageMap(emap{relsFromMask(mask, 4, 4), mask&1 == 0}, no, inputs, nil, false)
		}
	}
	c.done(w)
}

// ---------------------------------------------------------------- D: nested references

type tyNode struct {
	Kind string // base ref opt var const dict
	N    int64
	A    acc
	X, Y *tyNode
}

func (t *tyNode) coq() string {
	switch t.Kind {
	case "base":
		return fmt.Sprintf("(TBase %d)", t.N)
	case "ref":
		return fmt.Sprintf("(TRef %s %s)", t.A.coq(), t.X.coq())
	case "opt":
		return fmt.Sprintf("(TOpt %s)", t.X.coq())
	case "var":
		return fmt.Sprintf("(TVar %s)", t.X.coq())
	case "const":
		return fmt.Sprintf("(TConst %s %d)", t.X.coq(), t.N)
	case "dict":
		return fmt.Sprintf("(TDict %s %s)", t.X.coq(), t.Y.coq())
	}
	panic("ty")
}

func (t *tyNode) String() string {
	switch t.Kind {
	case "base":
		return []string{"Int", "String"}[t.N]
	case "ref":
		return fmt.Sprintf("%s &%s", t.A, t.X)
	case "opt":
		return fmt.Sprintf("(%s)?", t.X)
	case "var":
		return fmt.Sprintf("[%s]", t.X)
	case "const":
		return fmt.Sprintf("[%s; %d]", t.X, t.N)
	case "dict":
		return fmt.Sprintf("{%s: %s}", t.X, t.Y)
	}
	return "?"
}

var baseTypes = []sema.Type{sema.IntType, sema.StringType}

func (c *ctx) tyToSema(t *tyNode) sema.Type {
	switch t.Kind {
	case "base":
		return baseTypes[t.N]
	case "ref":
		return sema.NewReferenceType(nil, c.u.toSema(t.A, c.mapTypes), c.tyToSema(t.X))
	case "opt":
		return sema.NewOptionalType(nil, c.tyToSema(t.X))
	case "var":
		return sema.NewVariableSizedType(nil, c.tyToSema(t.X))
	case "const":
		return sema.NewConstantSizedType(nil, c.tyToSema(t.X), t.N)
	case "dict":
		return sema.NewDictionaryType(nil, c.tyToSema(t.X), c.tyToSema(t.Y))
	}
	panic("ty")
}

func (c *ctx) tyFromSema(t sema.Type) *tyNode {
	switch t := t.(type) {
	case *sema.ReferenceType:
		return &tyNode{Kind: "ref", A: c.u.fromSema(t.Authorization), X: c.tyFromSema(t.Type)}
	case *sema.OptionalType:
		return &tyNode{Kind: "opt", X: c.tyFromSema(t.Type)}
	case *sema.VariableSizedType:
		return &tyNode{Kind: "var", X: c.tyFromSema(t.Type)}
	case *sema.ConstantSizedType:
		return &tyNode{Kind: "const", X: c.tyFromSema(t.Type), N: t.Size}
	case *sema.DictionaryType:
		return &tyNode{Kind: "dict", X: c.tyFromSema(t.KeyType), Y: c.tyFromSema(t.ValueType)}
	}
	for i, b := range baseTypes {
		if t == b {
			return &tyNode{Kind: "base", N: int64(i)}
		}
	}
	return &tyNode{Kind: "base", N: 99}
}

func (c *ctx) randAccess(all []acc) acc {
	switch c.rng.Intn(10) {
	case 0:
		return lib.Pick(c.rng, all) // anything, including primitive and mapping accesses
	case 1:
		return unauth()
	default:
		k := "conj"
		if c.rng.Chance(2, 5) {
			k = "disj"
		}
		m := c.rng.Intn(1 << NE)
		if c.rng.Chance(1, 2) { // larger sets intersect more often
			m |= c.rng.Intn(1 << NE)
		}
		return acc{Kind: k, Set: subset(m, NE)}
	}
}

func (c *ctx) randTy(depth int, all []acc) *tyNode {
	if depth == 0 {
		return &tyNode{Kind: "base", N: int64(c.rng.Intn(2))}
	}
	switch c.rng.Intn(8) {
	case 0:
		return &tyNode{Kind: "base", N: int64(c.rng.Intn(2))}
	case 1, 2, 3:
		return &tyNode{Kind: "ref", A: c.randAccess(all), X: c.randTy(depth-1, all)}
	case 4:
		return &tyNode{Kind: "opt", X: c.randTy(depth-1, all)}
	case 5:
		return &tyNode{Kind: "var", X: c.randTy(depth-1, all)}
	case 6:
		return &tyNode{Kind: "const", X: c.randTy(depth-1, all), N: int64(c.rng.Intn(4))}
	default:
		return &tyNode{Kind: "dict", X: c.randTy(depth-1, all), Y: c.randTy(depth-1, all)}
	}
}

func (t *tyNode) refAuths() []acc {
	if t == nil {
		return nil
	}
	var l []acc
	if t.Kind == "ref" {
		l = append(l, t.A)
	}
	l = append(l, t.X.refAuths()...)
	l = append(l, t.Y.refAuths()...)
	return l
}

func (c *ctx) sectionDescendant() {
	all := allAccesses()
	w := c.writer("descendant", "ty * access * access * ty", "check_descendant", 320)
	n := 2500
	if *tier == "thorough" {
		n = 15000
	}
	for i := 0; i < n; i++ {
		t := c.randTy(1+c.rng.Intn(4), all)
		au, outer := c.randAccess(all), c.randAccess(all)
		var res sema.Type
		cls, rec := lib.Catch(func() {
			res = sema.GetDescendantReferenceType(nil, c.tyToSema(t), c.u.toSema(au, c.mapTypes), c.u.toSema(outer, c.mapTypes))
		})
		c.sum.Evaluations++
		c.sum.Count("GetDescendantReferenceType")
		if cls != "" {
			c.f.fail("panic:GetDescendantReferenceType", fmt.Sprintf("GetDescendantReferenceType(%s, %s, %s) panicked: %v", t, au, outer, rec),
				map[string]any{"type": t.String(), "authorization": au.String(), "outer": outer.String()})
			continue
		}
		r := c.tyFromSema(res)
		w.Add(fmt.Sprintf("(%s, %s, %s, %s)", t.coq(), au.coq(), outer.coq(), r.coq()),
			map[string]any{"fn": "sema.GetDescendantReferenceType", "type": t.String(), "authorization": au.String(), "outer": outer.String(), "observed": r.String()})
		if len(t.refAuths()) > 0 && outer.isSet() {
			c.nontrivial("descendant " + t.String() + " " + outer.String())
		}
		// no escalation: with a well-formed outer authorization and well-formed inner ones, every reference
		// authorization of the result (except the wrapping one, chosen by the caller) is implied by the outer one
		ok := outer.wfAuthz()
		for _, a := range t.refAuths() {
			ok = ok && a.wfAuthz()
		}
		if !ok {
			continue
		}
		inner := r
		for inner.Kind == "opt" {
			inner = inner.X
		}
		auths := inner.refAuths()
		descIsRef := t
		for descIsRef.Kind == "opt" {
			descIsRef = descIsRef.X
		}
		if descIsRef.Kind != "ref" && len(auths) > 0 {
			auths = auths[1:]
		}
		for _, a := range auths {
			if !a.wfAuthz() || !stronger(outer, a) {
				c.f.fail("descendant-escalation",
					fmt.Sprintf("through an outer reference %s, descendant type %s becomes %s: inner authorization %s is not implied by the outer one", outer, t, r, a),
					map[string]any{"type": t.String(), "outer": outer.String(), "observed": r.String()})
				break
			}
		}
	}
	c.done(w)
}

// ---------------------------------------------------------------- E: least common authorization

func (c *ctx) sectionLCA() {
	var authz []acc
	for _, a := range allAccesses() {
		if a.wfAuthz() {
			authz = append(authz, a)
		}
	}
	w := c.writer("lca", "access * access * access", "check_lca", 500)
	for _, a := range authz {
		for _, b := range authz {
			ta := sema.NewReferenceType(nil, c.u.toSema(a, nil), sema.IntType)
			tb := sema.NewReferenceType(nil, c.u.toSema(b, nil), sema.IntType)
			var res sema.Type
			cls, rec := lib.Catch(func() { res = sema.LeastCommonSuperType(ta, tb) })
			c.sum.Evaluations++
			c.sum.Count("LeastCommonSuperType of references")
			if cls != "" {
				c.f.fail("panic:LeastCommonSuperType", fmt.Sprintf("LeastCommonSuperType(%s &Int, %s &Int) panicked: %v", a, b, rec), map[string]any{"a": a.String(), "b": b.String()})
				continue
			}
			rt, ok := res.(*sema.ReferenceType)
			if !ok {
				c.f.fail("lca-not-reference", fmt.Sprintf("LeastCommonSuperType(%s &Int, %s &Int) = %s: not a reference type (the computed authorization is not an upper bound)", a, b, res),
					map[string]any{"a": a.String(), "b": b.String(), "observed": fmt.Sprint(res)})
				continue
			}
			r := c.u.fromSema(rt.Authorization)
			w.Add(fmt.Sprintf("(%s, %s, %s)", a.coq(), b.coq(), r.coq()),
				map[string]any{"fn": "sema.LeastCommonSuperType", "a": a.String(), "b": b.String(), "observed": r.String()})
			if !(stronger(a, r) && stronger(b, r)) {
				c.f.fail("lca-not-upper-bound", fmt.Sprintf("least common authorization of %s and %s is %s, which one of them does not imply", a, b, r),
					map[string]any{"a": a.String(), "b": b.String(), "observed": r.String()})
			}
			if a.isSet() && b.isSet() {
				c.nontrivial("lca " + a.String() + " " + b.String())
			}
		}
	}
	c.done(w)
}

