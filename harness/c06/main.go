// Command c06: correspondence + direct-oracle harness for C06
// (entitlement authorization algebra is sound and upcasts never escalate).
//
// It drives the REAL sema functions (PermitsAccess, Equal, IntersectAccess, Image, include
// resolution, GetDescendantReferenceType, LeastCommonSuperType), the interpreter-side static
// authorizations (conversion, Equal, PermitsAccess, reference subtyping) and Cadence programs in
// both engines, compares them with a brute-force set-semantics oracle written here, and writes Coq
// case files (inputs + observed outputs) that are evaluated against the Coq model C06/Model.v.
package main

import (
	"flag"
	"fmt"
	"os"
	"sort"
	"strings"

	"cvh/lib"

	"github.com/onflow/cadence/ast"
	"github.com/onflow/cadence/common"
	"github.com/onflow/cadence/sema"
)

var (
	prop = flag.String("prop", "C06", "property id")
	seed = flag.Uint64("seed", 1, "seed")
	tier = flag.String("tier", "quick", "quick|thorough")
	dir  = flag.String("dir", ".", "output directory")
)

// ---------------------------------------------------------------- universe

const NE = 4 // entitlements E1..E4

var loc = common.StringLocation("c06")

type universe struct {
	ents  []*sema.EntitlementType // index 0 = E1
	index map[*sema.EntitlementType]int
	byID  map[common.TypeID]*sema.EntitlementType
	maps  map[common.TypeID]*sema.EntitlementMapType
	mapNo map[*sema.EntitlementMapType]int
}

func newUniverse() *universe {
	u := &universe{
		index: map[*sema.EntitlementType]int{},
		byID:  map[common.TypeID]*sema.EntitlementType{},
		maps:  map[common.TypeID]*sema.EntitlementMapType{},
		mapNo: map[*sema.EntitlementMapType]int{},
	}
	for i := 1; i <= NE; i++ {
		e := sema.NewEntitlementType(nil, loc, fmt.Sprintf("E%d", i))
		u.ents = append(u.ents, e)
		u.index[e] = i
		u.byID[e.ID()] = e
	}
	return u
}

// newMap registers an entitlement map type numbered no (the Coq model identifies a map access by this number).
func (u *universe) newMap(no int, name string, rels [][2]int, identity bool) *sema.EntitlementMapType {
	m := sema.NewEntitlementMapType(nil, loc, name)
	for _, r := range rels {
		m.Relations = append(m.Relations, sema.NewEntitlementRelation(nil, u.ents[r[0]-1], u.ents[r[1]-1]))
	}
	m.IncludesIdentity = identity
	u.maps[m.ID()] = m
	u.mapNo[m] = no
	return m
}

// ---------------------------------------------------------------- accesses (harness-side description)

// acc describes an access independently of sema: kind "prim" | "conj" | "disj" | "map".
type acc struct {
	Kind string
	Prim ast.PrimitiveAccess
	Set  []int // entitlement numbers, in the order given to the constructor
	Map  int
}

var primNames = map[ast.PrimitiveAccess]string{
	ast.AccessNotSpecified:      "PNotSpecified",
	ast.AccessNone:              "PNone",
	ast.AccessSelf:              "PSelf",
	ast.AccessContract:          "PContract",
	ast.AccessAccount:           "PAccount",
	ast.AccessAll:               "PAll",
	ast.AccessPubSettableLegacy: "PPubSettableLegacy",
}

var allPrims = []ast.PrimitiveAccess{
	ast.AccessNotSpecified, ast.AccessNone, ast.AccessSelf, ast.AccessContract,
	ast.AccessAccount, ast.AccessAll, ast.AccessPubSettableLegacy,
}

func unauth() acc { return acc{Kind: "prim", Prim: ast.AccessAll} }

func (a acc) isUnauth() bool { return a.Kind == "prim" && a.Prim == ast.AccessAll }
func (a acc) isSet() bool    { return a.Kind == "conj" || a.Kind == "disj" }
func (a acc) isAuthz() bool  { return a.isUnauth() || a.isSet() }
func (a acc) wfAuthz() bool  { return a.isUnauth() || (a.isSet() && len(a.Set) > 0) }

func zlist(xs []int) string {
	parts := make([]string, len(xs))
	for i, x := range xs {
		parts[i] = fmt.Sprint(x)
	}
	return "[" + strings.Join(parts, ";") + "]"
}

// coq renders the access as a term of C06.Model.access.
func (a acc) coq() string {
	switch a.Kind {
	case "prim":
		return "(APrim " + primNames[a.Prim] + ")"
	case "conj":
		return "(ASet Conj " + zlist(a.Set) + ")"
	case "disj":
		return "(ASet Disj " + zlist(a.Set) + ")"
	case "map":
		return fmt.Sprintf("(AMap %d)", a.Map)
	}
	panic("bad acc")
}

func (a acc) String() string {
	switch a.Kind {
	case "prim":
		if a.isUnauth() {
			return "unauthorized"
		}
		return "prim:" + primNames[a.Prim][1:]
	case "conj":
		return "auth(" + joinE(a.Set, ",") + ")"
	case "disj":
		return "auth(" + joinE(a.Set, "|") + ")"
	case "map":
		return fmt.Sprintf("mapping#%d", a.Map)
	}
	return "?"
}

func joinE(xs []int, sep string) string {
	parts := make([]string, len(xs))
	for i, x := range xs {
		parts[i] = fmt.Sprintf("E%d", x)
	}
	return strings.Join(parts, sep)
}

// toSema builds the real sema.Access with the real constructors.
func (u *universe) toSema(a acc, mapTypes map[int]*sema.EntitlementMapType) sema.Access {
	switch a.Kind {
	case "prim":
		return sema.PrimitiveAccess(a.Prim)
	case "conj", "disj":
		es := make([]*sema.EntitlementType, len(a.Set))
		for i, x := range a.Set {
			es[i] = u.ents[x-1]
		}
		k := sema.Conjunction
		if a.Kind == "disj" {
			k = sema.Disjunction
		}
		return sema.NewEntitlementSetAccess(es, k)
	case "map":
		return sema.NewEntitlementMapAccess(mapTypes[a.Map])
	}
	panic("bad acc")
}

// fromSema reads a real access back; sets are listed in the real iteration order.
func (u *universe) fromSema(x sema.Access) acc {
	switch x := x.(type) {
	case sema.PrimitiveAccess:
		return acc{Kind: "prim", Prim: ast.PrimitiveAccess(x)}
	case sema.EntitlementSetAccess:
		a := acc{Kind: "conj", Set: []int{}}
		if x.SetKind == sema.Disjunction {
			a.Kind = "disj"
		}
		x.Entitlements.Foreach(func(e *sema.EntitlementType, _ struct{}) {
			i, ok := u.index[e]
			if !ok {
				i = 1000 // foreign entitlement: never expected
			}
			a.Set = append(a.Set, i)
		})
		return a
	case *sema.EntitlementMapAccess:
		return acc{Kind: "map", Map: u.mapNo[x.Type]}
	}
	panic(fmt.Sprintf("unknown access %T", x))
}

// subsets of {1..n} as sorted lists, by mask
func subset(mask, n int) []int {
	s := []int{}
	for i := 0; i < n; i++ {
		if mask&(1<<i) != 0 {
			s = append(s, i+1)
		}
	}
	return s
}

// allAccesses: every primitive access, every conjunction and disjunction over E1..E4 (empty included),
// two distinct mapping accesses.
func allAccesses() []acc {
	var l []acc
	for _, p := range allPrims {
		l = append(l, acc{Kind: "prim", Prim: p})
	}
	for _, k := range []string{"conj", "disj"} {
		for m := 0; m < 1<<NE; m++ {
			l = append(l, acc{Kind: k, Set: subset(m, NE)})
		}
	}
	l = append(l, acc{Kind: "map", Map: 1}, acc{Kind: "map", Map: 2})
	return l
}

// ---------------------------------------------------------------- brute-force set semantics (independent oracle)

// holders are bit masks over E1..E4
func sat(a acc, h int) bool {
	switch a.Kind {
	case "prim":
		return a.Prim == ast.AccessAll
	case "conj":
		for _, x := range a.Set {
			if h&(1<<(x-1)) == 0 {
				return false
			}
		}
		return true
	case "disj":
		for _, x := range a.Set {
			if h&(1<<(x-1)) != 0 {
				return true
			}
		}
		return false
	}
	return false
}

// stronger: every holder satisfying a satisfies b
func stronger(a, b acc) bool {
	for h := 0; h < 1<<NE; h++ {
		if sat(a, h) && !sat(b, h) {
			return false
		}
	}
	return true
}

type emap struct {
	Rels     [][2]int
	Identity bool
}

func (m emap) coqRels() string {
	parts := make([]string, len(m.Rels))
	for i, r := range m.Rels {
		parts[i] = fmt.Sprintf("(%d,%d)", r[0], r[1])
	}
	return "[" + strings.Join(parts, ";") + "]"
}

func (m emap) coq() string {
	return fmt.Sprintf("{| rels := %s; incl_id := %v |}", m.coqRels(), m.Identity)
}

func (m emap) String() string {
	parts := []string{}
	for _, r := range m.Rels {
		parts = append(parts, fmt.Sprintf("E%d->E%d", r[0], r[1]))
	}
	if m.Identity {
		parts = append(parts, "include Identity")
	}
	return "{" + strings.Join(parts, " ") + "}"
}

// through: the entitlements a holder obtains through the mapping
func (m emap) through(h int) int {
	out := 0
	for _, r := range m.Rels {
		if h&(1<<(r[0]-1)) != 0 {
			out |= 1 << (r[1] - 1)
		}
	}
	if m.Identity {
		out |= h
	}
	return out
}

func (m emap) imageOf(x int) int { return m.through(1 << (x - 1)) }

// the defect class of the unchanged tree: the source is a disjunction, one of its members has no image,
// and a non-trivial authorization is derived nevertheless
func disjMemberWithoutImage(m emap, src acc) bool {
	if src.Kind != "disj" {
		return false
	}
	for _, x := range src.Set {
		if m.imageOf(x) == 0 {
			return true
		}
	}
	return false
}

func sorted(xs []int) []int {
	c := append([]int{}, xs...)
	sort.Ints(c)
	return c
}

func main() {
	flag.Parse()
	sum := &lib.Summary{}
	if *prop != "C06" {
		fmt.Fprintln(os.Stderr, "unknown prop", *prop)
		os.Exit(2)
	}
	run(sum)
	sum.Write(*dir)
}
