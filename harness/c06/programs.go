package main

import (
	"encoding/json"
	"flag"
	"fmt"
	"os"
	"path/filepath"
	"sort"
	"strings"

	"cvh/lib"

	"github.com/onflow/cadence"
	"github.com/onflow/cadence/ast"
	"github.com/onflow/cadence/parser"
	"github.com/onflow/cadence/sema"
)

var corpusDir = flag.String("corpus", "", "directory with hand-picked cases (run first)")

// ---------------------------------------------------------------- C: include chains

type mapDecl struct {
	Rels     [][2]int
	Identity bool
	Includes []int
}

func checkProgram(code string) (*sema.Checker, error) {
	program, err := parser.ParseProgram(nil, []byte(code), parser.Config{})
	if err != nil {
		return nil, err
	}
	checker, err := sema.NewChecker(program, loc, nil, &sema.Config{AccessCheckMode: sema.AccessCheckModeStrict})
	if err != nil {
		return nil, err
	}
	return checker, checker.Check()
}

const entDecls = "access(all) entitlement E1\naccess(all) entitlement E2\naccess(all) entitlement E3\naccess(all) entitlement E4\n"

func mappingSource(name string, d mapDecl) string {
	var sb strings.Builder
	fmt.Fprintf(&sb, "access(all) entitlement mapping %s {\n", name)
	for _, r := range d.Rels {
		fmt.Fprintf(&sb, "    E%d -> E%d\n", r[0], r[1])
	}
	if d.Identity {
		sb.WriteString("    include Identity\n")
	}
	for _, j := range d.Includes {
		fmt.Fprintf(&sb, "    include M%d\n", j)
	}
	sb.WriteString("}\n")
	return sb.String()
}

func (c *ctx) sectionResolve() {
	w := c.writer("resolve", "list (list (Z * Z) * bool * list nat) * nat * (list (Z * Z) * bool)", "check_resolve", 200)
	n := 120
	if *tier == "thorough" {
		n = 1200
	}
	for it := 0; it < n; it++ {
		nd := 1 + c.rng.Intn(5)
		// rank decides who may include whom (acyclic); declaration order is independent of it
		rank := make([]int, nd)
		for i := range rank {
			rank[i] = i
		}
		for i := nd - 1; i > 0; i-- {
			j := c.rng.Intn(i + 1)
			rank[i], rank[j] = rank[j], rank[i]
		}
		decls := make([]mapDecl, nd)
		for i := range decls {
			mask := c.rng.Intn(1<<16) & c.rng.Intn(1<<16)
			if c.rng.Chance(1, 3) {
				mask &= c.rng.Intn(1 << 16)
			}
			decls[i].Rels = relsFromMask(mask, 4, 4)
			decls[i].Identity = c.rng.Chance(1, 4)
			for j := 0; j < nd; j++ {
				if rank[j] < rank[i] && c.rng.Chance(1, 2) {
					decls[i].Includes = append(decls[i].Includes, j)
				}
			}
		}
		var sb strings.Builder
		sb.WriteString(entDecls)
		for i, d := range decls {
			sb.WriteString(mappingSource(fmt.Sprintf("M%d", i), d))
		}
		code := sb.String()
		var checker *sema.Checker
		var err error
		cls, rec := lib.Catch(func() { checker, err = checkProgram(code) })
		c.sum.Evaluations++
		c.sum.Count("include-chain program")
		if cls != "" || err != nil {
			c.f.fail("resolve-rejected", fmt.Sprintf("mapping declarations with acyclic includes rejected: %v %v", rec, err), map[string]any{"program": code})
			continue
		}
		var dparts []string
		for _, d := range decls {
			inc := make([]string, len(d.Includes))
			for k, j := range d.Includes {
				inc[k] = fmt.Sprintf("%d%%nat", j)
			}
			dparts = append(dparts, fmt.Sprintf("(%s, %s, [%s])", emap{Rels: d.Rels}.coqRels(), boolCoq(d.Identity), strings.Join(inc, ";")))
		}
		for i := range decls {
			v, ok := checker.Elaboration.GetGlobalType(fmt.Sprintf("M%d", i))
			mt, ok2 := (sema.Type)(nil), false
			if ok {
				mt, ok2 = v.Type.(*sema.EntitlementMapType)
			}
			if !ok || !ok2 {
				c.f.fail("resolve-missing", "mapping type not found in elaboration", map[string]any{"program": code})
				continue
			}
			m := mt.(*sema.EntitlementMapType)
			obs := emap{Identity: m.IncludesIdentity}
			for _, r := range m.Relations {
				var a, b int
				fmt.Sscanf(r.Input.Identifier, "E%d", &a)
				fmt.Sscanf(r.Output.Identifier, "E%d", &b)
				obs.Rels = append(obs.Rels, [2]int{a, b})
			}
			w.Add(fmt.Sprintf("([%s], %d%%nat, (%s, %s))", strings.Join(dparts, "; "), i, obs.coqRels(), boolCoq(obs.Identity)),
				map[string]any{"fn": "resolveEntitlementMappingInclusions", "program": code, "mapping": fmt.Sprintf("M%d", i), "observed": obs.String()})
			if len(decls[i].Includes) > 0 {
				c.nontrivial(fmt.Sprintf("resolve %d %d", it, i))
			}
		}
	}
	c.done(w)
}

// ---------------------------------------------------------------- F: programs, both engines

type member struct {
	Req *acc  // entitled function (or access(all)): nil if mapped
	Map *emap // mapped field
}

func (m member) coq() string {
	if m.Req != nil {
		return "(MEnt " + m.Req.coq() + ")"
	}
	return "(MMapped " + m.Map.coq() + ")"
}

func (m member) String() string {
	if m.Req != nil {
		return "fun with access " + m.Req.String()
	}
	return "field with access(mapping " + m.Map.String() + ")"
}

func authSyntax(a acc) string {
	switch a.Kind {
	case "prim":
		return ""
	case "conj":
		return "auth(" + joinE(a.Set, ", ") + ") "
	case "disj":
		s := a.Set
		if len(s) == 1 {
			s = []int{s[0], s[0]} // a one-element disjunction is written auth(E | E)
		}
		return "auth(" + joinE(s, " | ") + ") "
	}
	panic("auth syntax")
}

func accessSyntax(a acc) string {
	if a.isUnauth() {
		return "access(all)"
	}
	s := strings.TrimSpace(authSyntax(a))
	return "access" + s[len("auth"):]
}

var castTargets = []acc{
	{Kind: "conj", Set: []int{1}}, {Kind: "conj", Set: []int{2}}, {Kind: "conj", Set: []int{3}}, {Kind: "conj", Set: []int{4}},
	{Kind: "conj", Set: []int{1, 2}}, {Kind: "disj", Set: []int{1, 2}}, {Kind: "conj", Set: []int{3, 4}}, {Kind: "disj", Set: []int{3, 4}},
	{Kind: "disj", Set: []int{2, 3}},
}

func programSource(sub, sup acc, mb member) string {
	var sb strings.Builder
	sb.WriteString(entDecls)
	m := emap{}
	if mb.Map != nil {
		m = *mb.Map
	}
	sb.WriteString(mappingSource("M", mapDecl{Rels: m.Rels, Identity: m.Identity}))
	sb.WriteString("access(all) struct T {\n    access(all) let v: Int\n    init() { self.v = 1 }\n}\n")
	req := "access(all)"
	if mb.Req != nil {
		req = accessSyntax(*mb.Req)
	}
	fmt.Fprintf(&sb, "access(all) struct S {\n    %s fun f(): Int { return 1 }\n    access(mapping M) let t: T\n    init() { self.t = T() }\n}\n", req)
	sb.WriteString("access(all) fun main(): [Bool] {\n    let s = S()\n")
	fmt.Fprintf(&sb, "    let r = &s as %s&S\n", authSyntax(sub))
	fmt.Fprintf(&sb, "    let u: %s&S = r\n", authSyntax(sup))
	// NOTE: no detour through AnyStruct: assigning a reference to AnyStruct strips its authorization
	target := "S"
	if mb.Req != nil {
		sb.WriteString("    u.f()\n    let a = u\n")
	} else {
		sb.WriteString("    let a = u.t\n")
		target = "T"
	}
	sb.WriteString("    return [\n")
	for i, t := range castTargets {
		sep := ","
		if i == len(castTargets)-1 {
			sep = ""
		}
		fmt.Fprintf(&sb, "        (a as? %s&%s) != nil%s\n", authSyntax(t), target, sep)
	}
	sb.WriteString("    ]\n}\n")
	return sb.String()
}

// checkerErrorKinds returns the sorted distinct Go type names of the checker errors inside err.
func checkerErrorKinds(err error) []string {
	var kinds []string
	seen := map[string]bool{}
	var walk func(e error, depth int)
	walk = func(e error, depth int) {
		if e == nil || depth > 20 {
			return
		}
		var errs []error
		switch x := e.(type) {
		case *sema.CheckerError:
			errs = x.Errors
		case sema.CheckerError:
			errs = x.Errors
		}
		if errs != nil {
			for _, ce := range errs {
				n := fmt.Sprintf("%T", ce)
				if !seen[n] {
					seen[n] = true
					kinds = append(kinds, n)
				}
			}
			return
		}
		if u, ok := e.(interface{ Unwrap() error }); ok {
			walk(u.Unwrap(), depth+1)
		}
	}
	walk(err, 0)
	sort.Strings(kinds)
	return kinds
}

type progObs struct {
	Kind  string // upcast member ran other
	Casts []bool
	Note  string
}

func (o progObs) coq() string {
	switch o.Kind {
	case "upcast":
		return "ObsRejectedUpcast"
	case "member":
		return "ObsRejectedMember"
	case "ran":
		parts := make([]string, len(o.Casts))
		for i, b := range o.Casts {
			parts[i] = fmt.Sprintf("(%s, %s)", castTargets[i].coq(), boolCoq(b))
		}
		return "(ObsRan [" + strings.Join(parts, "; ") + "])"
	}
	return "ObsOther"
}

func (o progObs) String() string {
	if o.Kind == "ran" {
		var ok []string
		for i, b := range o.Casts {
			if b {
				ok = append(ok, castTargets[i].String())
			}
		}
		return "accepted; run-time casts succeeding: [" + strings.Join(ok, " ") + "]"
	}
	return o.Kind + " " + o.Note
}

func observe(h *lib.Host, src string, vm bool) progObs {
	out := h.RunScript(src, nil, vm)
	if out.Class == "" {
		arr, ok := out.Value.(cadence.Array)
		if !ok || len(arr.Values) != len(castTargets) {
			return progObs{Kind: "other", Note: fmt.Sprintf("unexpected result %v", out.Value)}
		}
		o := progObs{Kind: "ran"}
		for _, v := range arr.Values {
			o.Casts = append(o.Casts, bool(v.(cadence.Bool)))
		}
		return o
	}
	kinds := checkerErrorKinds(out.Err)
	if out.Class != "CheckerError" || len(kinds) == 0 {
		return progObs{Kind: "other", Note: fmt.Sprintf("%s: %v", out.Class, out.Err)}
	}
	hasMismatch, onlyKnown := false, true
	for _, k := range kinds {
		switch k {
		case "*sema.TypeMismatchError":
			hasMismatch = true
		case "*sema.InvalidAccessError", "*sema.UnrepresentableEntitlementMapOutputError":
		default:
			onlyKnown = false
		}
	}
	switch {
	case !onlyKnown:
		return progObs{Kind: "other", Note: strings.Join(kinds, ",")}
	case hasMismatch:
		return progObs{Kind: "upcast", Note: strings.Join(kinds, ",")}
	default:
		return progObs{Kind: "member", Note: strings.Join(kinds, ",")}
	}
}

func (c *ctx) runProgram(h *lib.Host, w *lib.CaseWriter, sub, sup acc, mb member) {
	src := programSource(sub, sup, mb)
	obs := observe(h, src, false)
	obsVM := observe(h, src, true)
	c.sum.Evaluations += 2
	c.sum.Count("program: " + obs.Kind)
	replay := map[string]any{"script": src, "sub": sub.String(), "sup": sup.String(), "member": mb.String(),
		"observed_interpreter": obs.String(), "observed_vm": obsVM.String()}
	if obs.coq() != obsVM.coq() {
		c.f.fail("engine-divergence", fmt.Sprintf("interpreter: %s; VM: %s", obs, obsVM), replay)
	}
	w.Add(fmt.Sprintf("(%s, %s, %s, %s)", sub.coq(), sup.coq(), mb.coq(), obs.coq()), replay)
	if obs.Kind == "other" {
		c.f.fail("program-unexpected", "unexpected outcome: "+obs.Note, replay)
		return
	}
	if obs.Kind != "ran" {
		return
	}
	c.nontrivial("program " + sub.String() + " " + sup.String() + " " + mb.String())
	c.sum.Sample(map[string]string{"sub": sub.String(), "sup": sup.String(), "member": mb.String(), "observed": obs.String()})
	// independent oracle: the reference was created with authorization sub, so only what EVERY holder
	// satisfying sub is entitled to may be granted, whatever upcasts happen on the way
	if !stronger(sub, sup) {
		c.f.fail("program-upcast-unsound", fmt.Sprintf("upcast from %s to %s accepted", sub, sup), replay)
	}
	if mb.Req != nil {
		if !stronger(sub, *mb.Req) {
			c.f.fail("program-member-escalation", fmt.Sprintf("a reference created as %s called a function requiring %s (through upcast %s)", sub, mb.Req, sup), replay)
		}
		for i, ok := range obs.Casts {
			if ok && !stronger(sub, castTargets[i]) {
				c.f.fail("program-cast-escalation", fmt.Sprintf("a reference created as %s, upcast to %s, was cast at run time to %s", sub, sup, castTargets[i]), replay)
			}
		}
		return
	}
	for i, ok := range obs.Casts {
		if !ok {
			continue
		}
		for hd := 0; hd < 1<<NE; hd++ {
			if sat(sub, hd) && !sat(castTargets[i], mb.Map.through(hd)) {
				key := "program-escalation:other"
				if disjMemberWithoutImage(*mb.Map, sup) {
					key = "program-escalation:disj-member-without-image"
				}
				replay["holder"] = subset(hd, NE)
				replay["holder_obtains"] = subset(mb.Map.through(hd), NE)
				replay["granted"] = castTargets[i].String()
				c.f.fail(key,
					fmt.Sprintf("a reference created with %s, upcast to %s, reaches the field mapped by %s with run-time authorization %s (both engines), although a holder of {%s} obtains only {%s} through the mapping",
						sub, sup, mb.Map, castTargets[i], joinE(subset(hd, NE), ","), joinE(subset(mb.Map.through(hd), NE), ",")),
					replay)
				break
			}
		}
	}
}

type corpusCase struct {
	Sub  acc   `json:"sub"`
	Sup  acc   `json:"sup"`
	Map  *emap `json:"map"`
	Req  *acc  `json:"req"`
	Note string `json:"note"`
}

func (c *ctx) sectionPrograms() {
	h := lib.NewHost()
	w := c.writer("prog", "access * access * member * prog_obs", "check_prog", 250)

	// hand-picked cases first
	if *corpusDir != "" {
		files, _ := filepath.Glob(filepath.Join(*corpusDir, "*.json"))
		sort.Strings(files)
		for _, f := range files {
			b, err := os.ReadFile(f)
			if err != nil {
				continue
			}
			var cases []corpusCase
			if err := json.Unmarshal(b, &cases); err != nil {
				c.f.fail("corpus-unreadable", fmt.Sprintf("%s: %v", f, err), map[string]any{"file": f})
				continue
			}
			for _, cc := range cases {
				c.sum.Count("corpus program")
				c.runProgram(h, w, cc.Sub, cc.Sup, member{Req: cc.Req, Map: cc.Map})
			}
		}
	}

	// authorizations over E1..E3: unauthorized, every non-empty conjunction and disjunction
	auths := []acc{unauth()}
	for _, k := range []string{"conj", "disj"} {
		for m := 1; m < 1<<3; m++ {
			auths = append(auths, acc{Kind: k, Set: subset(m, 3)})
		}
	}
	var members []member
	for i := range auths {
		a := auths[i]
		members = append(members, member{Req: &a})
	}
	nreq := len(members)
	fixed := []emap{
		{Rels: [][2]int{{2, 3}}},
		{},
		{Identity: true},
		{Rels: [][2]int{{1, 4}, {2, 4}}},
		{Rels: [][2]int{{1, 2}, {1, 3}}},
		{Rels: [][2]int{{1, 4}, {2, 4}, {3, 4}}},
		{Rels: [][2]int{{1, 1}, {3, 2}}, Identity: false},
		{Rels: [][2]int{{1, 2}}, Identity: true},
	}
	nrand := 6
	if *tier == "thorough" {
		nrand = 14
	}
	for i := 0; i < nrand; i++ {
		mask := c.rng.Intn(1 << 12)
		if c.rng.Bool() {
			mask &= c.rng.Intn(1 << 12)
		}
		fixed = append(fixed, emap{Rels: relsFromMask(mask, 3, 4), Identity: c.rng.Chance(1, 5)})
	}
	for i := range fixed {
		m := fixed[i]
		members = append(members, member{Map: &m})
	}
	nmap := len(members) - nreq
	perPairReq, perPairMap := 2, 4
	if *tier == "thorough" {
		perPairReq, perPairMap = nreq, nmap
	}
	rot := int(*seed)
	for i, sub := range auths {
		for j, sup := range auths {
			for k := 0; k < perPairReq; k++ {
				c.runProgram(h, w, sub, sup, members[(rot+i*7+j*3+k*5)%nreq])
			}
			for k := 0; k < perPairMap; k++ {
				c.runProgram(h, w, sub, sup, members[nreq+(rot+i*5+j*3+k)%nmap])
			}
		}
	}
	c.done(w)
}

// ---------------------------------------------------------------- driver

func run(sum *lib.Summary) {
	c := &ctx{
		u:        newUniverse(),
		sum:      sum,
		f:        &failures{sum: sum, count: map[string]int{}},
		rng:      lib.NewRng(*seed),
		distinct: map[string]bool{},
	}
	c.mapTypes = map[int]*sema.EntitlementMapType{
		1: c.u.newMap(1, "M1", [][2]int{{1, 2}}, false),
		2: c.u.newMap(2, "M2", nil, true),
	}
	sum.Rule = "exhaustive over E1..E4: all 41x41 pairs (7 primitive accesses, 32 conjunctions/disjunctions incl. empty, 2 mapping accesses) for " +
		"PermitsAccess, Equal, IntersectAccess, sema.IsSubType on reference types, plus the interpreter's static authorizations (conversion round trip, Equal, PermitsAccess, IsSubType); " +
		"Image for all 1024 mappings over E1..E3 (2^9 relations x identity flag) x all 41 inputs plus random mappings over E1..E4; " +
		"include-chain resolution on generated declarations through the real checker; GetDescendantReferenceType on random nested types; " +
		"LeastCommonSuperType on all pairs of reference authorizations; Cadence scripts (reference created with sub, upcast to sup, entitled function or mapped field reached, " +
		"9 run-time casts) in interpreter and VM. Every result is compared with a brute-force set-semantics oracle over all 16 holders and evaluated by the Coq model. " +
		"non-trivial = both operands are entitlement sets (pairs, intersect, lca), non-empty set input with non-empty relation (image), nested reference under a set outer authorization (descendant), " +
		"mapping with includes (resolve), program accepted by the checker; distinct = distinct inputs"
	c.sectionPrograms()
	c.sectionPairs()
	c.sectionImage()
	c.sectionResolve()
	c.sectionDescendant()
	c.sectionLCA()
	sum.CaseFiles = c.files
	sum.Extra = map[string]any{"failure_counts": c.f.count, "coq_witnesses_on_real_code": c.witnesses()}
}

// witnesses replays the witnesses of the Coq `_refuted` theorems on the real functions (evidence only; the same
// inputs are part of the exhaustive correspondence, where model and code must agree).
func (c *ctx) witnesses() map[string]string {
	u := c.u
	res := map[string]string{}
	conj := func(xs ...int) sema.Access { return u.toSema(acc{Kind: "conj", Set: xs}, nil) }
	disj := func(xs ...int) sema.Access { return u.toSema(acc{Kind: "disj", Set: xs}, nil) }
	res["C06_permits_sem_empty_conj_refuted: NewEntitlementSetAccess(nil, Conjunction).PermitsAccess(UnauthorizedAccess)"] =
		fmt.Sprint(conj().PermitsAccess(sema.UnauthorizedAccess))
	res["C06_permits_trans_internal_refuted: auth(E1).PermitsAccess(self), self.PermitsAccess(none), auth(E1).PermitsAccess(none)"] =
		fmt.Sprint(conj(1).PermitsAccess(sema.PrimitiveAccess(ast.AccessSelf)),
			sema.PrimitiveAccess(ast.AccessSelf).PermitsAccess(sema.PrimitiveAccess(ast.AccessNone)),
			conj(1).PermitsAccess(sema.PrimitiveAccess(ast.AccessNone)))
	ma := sema.NewEntitlementMapAccess(c.mapTypes[1])
	res["permits_refl_map_refuted: mapping.PermitsAccess(same mapping)"] = fmt.Sprint(ma.PermitsAccess(sema.NewEntitlementMapAccess(c.mapTypes[1])))
	res["equal_not_semantic: auth(E1).Equal(auth(E1 | E1))"] = fmt.Sprint(conj(1).Equal(disj(1)))
	m := sema.NewEntitlementMapAccess(u.newMap(900, "W", [][2]int{{2, 3}}, false))
	img, err := m.Image(nil, disj(1, 2), ast.EmptyRange)
	res["C06_image_sound_refuted / C06_upcast_refuted: Image(auth(E1 | E2)) through {E2 -> E3}"] = fmt.Sprint(u.fromSema(img), " err=", err)
	img2, err2 := m.Image(nil, conj(1), ast.EmptyRange)
	res["C06_upcast_refuted: Image(auth(E1)) through {E2 -> E3}; auth(E1 | E2).PermitsAccess(auth(E1))"] =
		fmt.Sprint(u.fromSema(img2), " err=", err2, " ", disj(1, 2).PermitsAccess(conj(1)))
	return res
}
