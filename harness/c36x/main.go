// c36x: translator step of C36.  Reads the Go source of onflow/cadence (go/parser, go/ast only; the
// packages are NOT linked) and extracts, for every package-level `var X = sync.Pool{New: ...}` in
// non-test code:
//   - the pooled type and, for a struct declared in the same package, its field list;
//   - the fields that are reset on every path from Pool.Get to the first use:
//       * assignments `v.f = ...`, `v.f.Clear()`, `v.f.Reset()`, `clear(v.f)` that are TOP-LEVEL statements
//         (not nested in if/for/switch) of the function containing the Get, after the Get;
//       * the same inside methods of the pooled type called there as top-level statements (`v.clear()`),
//         transitively (depth <= 3);
//       * if the function returns the object, what EVERY same-package caller does to it right after the call;
//       * whole-object resets `clear(v)` (maps) / `v.Reset()` (external types) count as field "*";
//   - the same for what EVERY function containing `X.Put(v)` does to v before the Put.
// Output: JSON on stdout.  Anything the extractor does not understand is a hard error (exit 2):
// the tie is then reported as broken rather than silently weakened.
package main

import (
	"encoding/json"
	"flag"
	"fmt"
	"go/ast"
	"go/parser"
	"go/token"
	"os"
	"path/filepath"
	"sort"
	"strings"
)

type Pool struct {
	Name    string   `json:"name"`    // <package dir>.<var>
	File    string   `json:"file"`    // file of the declaration
	Type    string   `json:"type"`    // pooled type as written
	Kind    string   `json:"kind"`    // "struct" | "whole"
	Fields  []string `json:"fields"`  // declared fields ("*" for whole-object pools)
	Reset   []string `json:"reset"`   // fields reset before the object can be used again
	GetIn   []string `json:"get_in"`  // functions containing X.Get()
	PutIn   []string `json:"put_in"`  // functions containing X.Put()
	ResetBy []string `json:"reset_by"` // human-readable provenance
}

type pkgInfo struct {
	dir     string
	fset    *token.FileSet
	files   map[string]*ast.File
	structs map[string]*ast.StructType
	aliases map[string]ast.Expr // type X = ... / type X map...
	funcs   map[string]*ast.FuncDecl            // plain functions by name
	methods map[string]map[string]*ast.FuncDecl // type -> method -> decl
}

func die(format string, a ...any) {
	fmt.Fprintf(os.Stderr, "c36x: "+format+"\n", a...)
	os.Exit(2)
}

func recvType(fd *ast.FuncDecl) (typ string, name string) {
	if fd.Recv == nil || len(fd.Recv.List) == 0 {
		return "", ""
	}
	f := fd.Recv.List[0]
	t := f.Type
	if s, ok := t.(*ast.StarExpr); ok {
		t = s.X
	}
	if ix, ok := t.(*ast.IndexExpr); ok {
		t = ix.X
	}
	id, ok := t.(*ast.Ident)
	if !ok {
		return "", ""
	}
	if len(f.Names) > 0 {
		name = f.Names[0].Name
	}
	return id.Name, name
}

func loadPkg(dir string) *pkgInfo {
	p := &pkgInfo{dir: dir, fset: token.NewFileSet(), files: map[string]*ast.File{},
		structs: map[string]*ast.StructType{}, aliases: map[string]ast.Expr{},
		funcs: map[string]*ast.FuncDecl{}, methods: map[string]map[string]*ast.FuncDecl{}}
	ents, err := os.ReadDir(dir)
	if err != nil {
		die("%v", err)
	}
	for _, e := range ents {
		n := e.Name()
		if e.IsDir() || !strings.HasSuffix(n, ".go") || strings.HasSuffix(n, "_test.go") {
			continue
		}
		f, err := parser.ParseFile(p.fset, filepath.Join(dir, n), nil, parser.SkipObjectResolution)
		if err != nil {
			die("parse %s: %v", filepath.Join(dir, n), err)
		}
		p.files[n] = f
		for _, d := range f.Decls {
			switch d := d.(type) {
			case *ast.GenDecl:
				if d.Tok != token.TYPE {
					continue
				}
				for _, s := range d.Specs {
					ts := s.(*ast.TypeSpec)
					if st, ok := ts.Type.(*ast.StructType); ok {
						p.structs[ts.Name.Name] = st
					} else {
						p.aliases[ts.Name.Name] = ts.Type
					}
				}
			case *ast.FuncDecl:
				if d.Recv == nil {
					p.funcs[d.Name.Name] = d
				} else if t, _ := recvType(d); t != "" {
					if p.methods[t] == nil {
						p.methods[t] = map[string]*ast.FuncDecl{}
					}
					p.methods[t][d.Name.Name] = d
				}
			}
		}
	}
	return p
}

func exprString(e ast.Expr) string {
	switch e := e.(type) {
	case *ast.Ident:
		return e.Name
	case *ast.SelectorExpr:
		return exprString(e.X) + "." + e.Sel.Name
	case *ast.StarExpr:
		return "*" + exprString(e.X)
	case *ast.MapType:
		return "map[" + exprString(e.Key) + "]" + exprString(e.Value)
	case *ast.StructType:
		return "struct{}"
	case *ast.IndexExpr:
		return exprString(e.X) + "[" + exprString(e.Index) + "]"
	}
	return fmt.Sprintf("%T", e)
}

// pooledType determines the type returned by the pool's New function.
func (p *pkgInfo) pooledType(newFn *ast.FuncLit) (typ string, kind string) {
	var ret ast.Expr
	for _, s := range newFn.Body.List {
		if r, ok := s.(*ast.ReturnStmt); ok && len(r.Results) == 1 {
			ret = r.Results[0]
		}
	}
	if ret == nil {
		die("%s: pool New function without a single-value return", p.dir)
	}
	// `e := new(T)` / `e := &T{}` followed by `return e`
	if id, ok := ret.(*ast.Ident); ok {
		for _, s := range newFn.Body.List {
			as, ok := s.(*ast.AssignStmt)
			if !ok || len(as.Lhs) != 1 || len(as.Rhs) != 1 {
				continue
			}
			if l, ok := as.Lhs[0].(*ast.Ident); ok && l.Name == id.Name {
				ret = as.Rhs[0]
			}
		}
	}
	classify := func(t ast.Expr) (string, string) {
		switch t := t.(type) {
		case *ast.Ident:
			if _, ok := p.structs[t.Name]; ok {
				return t.Name, "struct"
			}
			if al, ok := p.aliases[t.Name]; ok {
				if _, isMap := al.(*ast.MapType); isMap {
					return t.Name, "whole"
				}
			}
			die("%s: pooled type %s is neither a local struct nor a map type", p.dir, t.Name)
		case *ast.SelectorExpr:
			return exprString(t), "whole" // type of another package: only a whole-object reset can be recognised
		case *ast.MapType:
			return exprString(t), "whole"
		}
		die("%s: unsupported pooled type expression %s", p.dir, exprString(t))
		return "", ""
	}
	switch r := ret.(type) {
	case *ast.UnaryExpr: // &T{...}
		if cl, ok := r.X.(*ast.CompositeLit); ok && r.Op == token.AND {
			return classify(cl.Type)
		}
	case *ast.CompositeLit: // T{}
		return classify(r.Type)
	case *ast.CallExpr: // new(T)
		if id, ok := r.Fun.(*ast.Ident); ok && id.Name == "new" && len(r.Args) == 1 {
			return classify(r.Args[0])
		}
	}
	die("%s: unsupported pool New result %s", p.dir, exprString(ret))
	return "", ""
}

func fieldNames(st *ast.StructType) []string {
	var out []string
	for _, f := range st.Fields.List {
		if len(f.Names) == 0 { // embedded
			t := f.Type
			if s, ok := t.(*ast.StarExpr); ok {
				t = s.X
			}
			switch t := t.(type) {
			case *ast.Ident:
				out = append(out, t.Name)
			case *ast.SelectorExpr:
				out = append(out, t.Sel.Name)
			default:
				die("unsupported embedded field %s", exprString(f.Type))
			}
			continue
		}
		for _, n := range f.Names {
			out = append(out, n.Name)
		}
	}
	return out
}

type set map[string]bool

func (s set) addAll(o set) {
	for k := range o {
		s[k] = true
	}
}
func inter(a, b set) set {
	r := set{}
	for k := range a {
		if b[k] {
			r[k] = true
		}
	}
	return r
}
func (s set) sorted() []string {
	var out []string
	for k := range s {
		out = append(out, k)
	}
	sort.Strings(out)
	return out
}

// selField returns f when e is `v.f` for the identifier v.
func selField(e ast.Expr, v string) (string, bool) {
	se, ok := e.(*ast.SelectorExpr)
	if !ok {
		return "", false
	}
	id, ok := se.X.(*ast.Ident)
	if !ok || id.Name != v {
		return "", false
	}
	return se.Sel.Name, true
}

// resetsOn collects the fields of the object held in variable v that the given top-level statements reset.
// typ is the pooled struct type ("" for whole-object pools).
func (p *pkgInfo) resetsOn(stmts []ast.Stmt, v string, typ string, depth int) set {
	out := set{}
	for _, s := range stmts {
		switch s := s.(type) {
		case *ast.AssignStmt:
			if s.Tok != token.ASSIGN {
				continue
			}
			for _, l := range s.Lhs {
				if f, ok := selField(l, v); ok {
					out[f] = true
				}
			}
		case *ast.ExprStmt:
			call, ok := s.X.(*ast.CallExpr)
			if !ok {
				continue
			}
			// clear(v) / clear(v.f)
			if id, ok := call.Fun.(*ast.Ident); ok && id.Name == "clear" && len(call.Args) == 1 {
				if a, ok := call.Args[0].(*ast.Ident); ok && a.Name == v {
					out["*"] = true
				} else if f, ok := selField(call.Args[0], v); ok {
					out[f] = true
				}
				continue
			}
			se, ok := call.Fun.(*ast.SelectorExpr)
			if !ok {
				continue
			}
			// v.m(...)
			if id, ok := se.X.(*ast.Ident); ok && id.Name == v {
				if m := p.methods[typ][se.Sel.Name]; typ != "" && m != nil {
					if depth < 3 && m.Body != nil {
						_, recv := recvType(m)
						if recv != "" {
							out.addAll(p.resetsOn(m.Body.List, recv, typ, depth+1))
						}
					}
				} else if typ == "" && (se.Sel.Name == "Reset" || se.Sel.Name == "Clear") {
					out["*"] = true
				}
				continue
			}
			// v.f.Clear() / v.f.Reset()
			if f, ok := selField(se.X, v); ok && (se.Sel.Name == "Clear" || se.Sel.Name == "Reset") {
				out[f] = true
			}
		}
	}
	return out
}

// enclosing function declarations of all calls matching pred
func (p *pkgInfo) funcsCalling(pred func(*ast.CallExpr) bool) []*ast.FuncDecl {
	var out []*ast.FuncDecl
	var names []string
	for n := range p.files {
		names = append(names, n)
	}
	sort.Strings(names)
	for _, n := range names {
		for _, d := range p.files[n].Decls {
			fd, ok := d.(*ast.FuncDecl)
			if !ok || fd.Body == nil {
				continue
			}
			found := false
			ast.Inspect(fd.Body, func(x ast.Node) bool {
				if c, ok := x.(*ast.CallExpr); ok && pred(c) {
					found = true
				}
				return !found
			})
			if found {
				out = append(out, fd)
			}
		}
	}
	return out
}

func isPoolCall(c *ast.CallExpr, pool, method string) bool {
	se, ok := c.Fun.(*ast.SelectorExpr)
	if !ok || se.Sel.Name != method {
		return false
	}
	id, ok := se.X.(*ast.Ident)
	return ok && id.Name == pool
}

// containsCall reports whether expression e contains a call satisfying pred.
func containsCall(e ast.Node, pred func(*ast.CallExpr) bool) bool {
	found := false
	ast.Inspect(e, func(x ast.Node) bool {
		if c, ok := x.(*ast.CallExpr); ok && pred(c) {
			found = true
		}
		return !found
	})
	return found
}

func funcName(fd *ast.FuncDecl) string {
	if t, _ := recvType(fd); t != "" {
		return t + "." + fd.Name.Name
	}
	return fd.Name.Name
}

// afterBinding finds, among the top-level statements of fd, the one binding a variable to a call
// satisfying pred (`v := call` / `v, ok := call.(T)`), and returns the variable and the following statements.
// bound=false: the call occurs elsewhere (e.g. directly in a return statement).
func afterBinding(fd *ast.FuncDecl, pred func(*ast.CallExpr) bool) (v string, rest []ast.Stmt, bound bool, returned bool) {
	for i, s := range fd.Body.List {
		switch s := s.(type) {
		case *ast.AssignStmt:
			if len(s.Rhs) == 1 && containsCall(s.Rhs[0], pred) && len(s.Lhs) >= 1 {
				if id, ok := s.Lhs[0].(*ast.Ident); ok {
					v, rest, bound = id.Name, fd.Body.List[i+1:], true
				}
			}
		case *ast.ReturnStmt:
			if containsCall(s, pred) {
				returned = true
			}
		}
		if bound {
			break
		}
	}
	if bound {
		for _, s := range rest {
			if r, ok := s.(*ast.ReturnStmt); ok {
				for _, e := range r.Results {
					if id, ok := e.(*ast.Ident); ok && id.Name == v {
						returned = true
					}
				}
			}
		}
	}
	return
}

func (p *pkgInfo) analyse(poolVar string, file string, newFn *ast.FuncLit, rel string) Pool {
	typ, kind := p.pooledType(newFn)
	pool := Pool{Name: rel + "." + poolVar, File: filepath.Join(rel, file), Type: typ, Kind: kind}
	styp := ""
	if kind == "struct" {
		pool.Fields = fieldNames(p.structs[typ])
		styp = typ
	} else {
		pool.Fields = []string{"*"}
	}
	isGet := func(c *ast.CallExpr) bool { return isPoolCall(c, poolVar, "Get") }
	isPut := func(c *ast.CallExpr) bool { return isPoolCall(c, poolVar, "Put") }

	// ---- Get sites
	var getReset set
	getters := p.funcsCalling(isGet)
	if len(getters) == 0 {
		die("%s: no Get site for pool %s", p.dir, poolVar)
	}
	for _, g := range getters {
		pool.GetIn = append(pool.GetIn, funcName(g))
		site := set{}
		v, rest, bound, returned := afterBinding(g, isGet)
		if bound {
			site.addAll(p.resetsOn(rest, v, styp, 0))
		}
		if returned && g.Recv == nil {
			// what every same-package caller does right after the call
			gname := g.Name.Name
			isCallG := func(c *ast.CallExpr) bool {
				id, ok := c.Fun.(*ast.Ident)
				return ok && id.Name == gname
			}
			var callerReset set
			for _, h := range p.funcsCalling(isCallG) {
				w, rest2, bound2, _ := afterBinding(h, isCallG)
				r := set{}
				if bound2 {
					r = p.resetsOn(rest2, w, styp, 0)
				}
				if callerReset == nil {
					callerReset = r
				} else {
					callerReset = inter(callerReset, r)
				}
			}
			if callerReset != nil {
				site.addAll(callerReset)
				if len(callerReset) > 0 {
					pool.ResetBy = append(pool.ResetBy, fmt.Sprintf("callers of %s: %v", gname, callerReset.sorted()))
				}
			}
		}
		pool.ResetBy = append(pool.ResetBy, fmt.Sprintf("after Get in %s: %v", funcName(g), site.sorted()))
		if getReset == nil {
			getReset = site
		} else {
			getReset = inter(getReset, site)
		}
	}

	// ---- Put sites: statements BEFORE the Put in the same function, on the Put argument
	var putReset set
	for _, h := range p.funcsCalling(isPut) {
		pool.PutIn = append(pool.PutIn, funcName(h))
		site := set{}
		for i, s := range h.Body.List {
			es, ok := s.(*ast.ExprStmt)
			if !ok {
				continue
			}
			c, ok := es.X.(*ast.CallExpr)
			if !ok || !isPut(c) || len(c.Args) != 1 {
				continue
			}
			if id, ok := c.Args[0].(*ast.Ident); ok {
				site = p.resetsOn(h.Body.List[:i], id.Name, styp, 0)
			}
		}
		pool.ResetBy = append(pool.ResetBy, fmt.Sprintf("before Put in %s: %v", funcName(h), site.sorted()))
		if putReset == nil {
			putReset = site
		} else {
			putReset = inter(putReset, site)
		}
	}
	all := set{}
	all.addAll(getReset)
	if putReset != nil {
		all.addAll(putReset)
	}
	pool.Reset = all.sorted()
	if pool.Reset == nil {
		pool.Reset = []string{}
	}
	sort.Strings(pool.GetIn)
	sort.Strings(pool.PutIn)
	return pool
}

// MemoSite is a function that Stores into a lazily filled cache cell (struct field of type
// atomic.Pointer[...] or sync.Map).  LoadFirst reports whether the same function Loads the same cell
// before the Store (the Load / miss / compute / Store shape that the Coq model's [Memo] step has).
type MemoSite struct {
	Site      string `json:"site"` // <package dir>:<func>:<field>
	Kind      string `json:"kind"` // atomic.Pointer | sync.Map
	LoadFirst bool   `json:"load_first"`
	// Metered: the fill site can report to a gauge: the function has a parameter whose type mentions a gauge /
	// context, or its body (closures it merely constructs are ignored: they run later, at every use, not at
	// fill time) mentions an identifier containing "gauge" or calls common.UseMemory / common.UseComputation.
	// C31: cache fills must be UNMETERED, otherwise metering depends on what ran earlier in the process.
	Metered bool   `json:"metered"`
	MeteredBy string `json:"metered_by,omitempty"`
}

// meteredByDeep also follows calls of methods on the same receiver (c.new(...) in smallIntegerValueCache.Get).
func (p *pkgInfo) meteredByDeep(fd *ast.FuncDecl, depth int) string {
	if why := meteredBy(fd); why != "" {
		return why
	}
	typ, recv := recvType(fd)
	if typ == "" || recv == "" || depth >= 2 {
		return ""
	}
	why := ""
	ast.Inspect(fd.Body, func(n ast.Node) bool {
		if why != "" {
			return false
		}
		if _, ok := n.(*ast.FuncLit); ok {
			return false
		}
		c, ok := n.(*ast.CallExpr)
		if !ok {
			return true
		}
		se, ok := c.Fun.(*ast.SelectorExpr)
		if !ok {
			return true
		}
		if id, ok := se.X.(*ast.Ident); ok && id.Name == recv {
			if m := p.methods[typ][se.Sel.Name]; m != nil && m.Body != nil && m != fd {
				if w := p.meteredByDeep(m, depth+1); w != "" {
					why = "via " + funcName(m) + ": " + w
				}
			}
		}
		return true
	})
	return why
}

// meteredBy reports why a function could meter ("" if it cannot).
func meteredBy(fd *ast.FuncDecl) string {
	if fd.Type.Params != nil {
		for _, f := range fd.Type.Params.List {
			t := exprString(f.Type)
			lt := strings.ToLower(t)
			if strings.Contains(lt, "gauge") || strings.Contains(lt, "context") || strings.Contains(lt, "interpreter") {
				return "parameter of type " + t
			}
		}
	}
	why := ""
	var visit func(n ast.Node) bool
	visit = func(n ast.Node) bool {
		if why != "" {
			return false
		}
		switch x := n.(type) {
		case *ast.FuncLit:
			return false // constructed here, executed later
		case *ast.Ident:
			if strings.Contains(strings.ToLower(x.Name), "gauge") {
				why = "identifier " + x.Name
			}
		case *ast.SelectorExpr:
			if x.Sel.Name == "UseMemory" || x.Sel.Name == "UseComputation" || x.Sel.Name == "MeterMemory" || x.Sel.Name == "MeterComputation" {
				why = "call of " + exprString(x)
			}
		}
		return true
	}
	ast.Inspect(fd.Body, visit)
	return why
}

func memoSites(p *pkgInfo, rel string) []MemoSite {
	cells := map[string]string{} // field name -> kind
	for _, st := range p.structs {
		for _, f := range st.Fields.List {
			k := ""
			switch t := f.Type.(type) {
			case *ast.IndexExpr:
				if exprString(t.X) == "atomic.Pointer" {
					k = "atomic.Pointer"
				}
			case *ast.SelectorExpr:
				if exprString(t) == "sync.Map" {
					k = "sync.Map"
				}
			}
			if k != "" {
				for _, n := range f.Names {
					cells[n.Name] = k
				}
			}
		}
	}
	if len(cells) == 0 {
		return nil
	}
	var out []MemoSite
	var names []string
	for n := range p.files {
		names = append(names, n)
	}
	sort.Strings(names)
	for _, n := range names {
		for _, d := range p.files[n].Decls {
			fd, ok := d.(*ast.FuncDecl)
			if !ok || fd.Body == nil {
				continue
			}
			firstLoad := map[string]token.Pos{}
			firstStore := map[string]token.Pos{}
			ast.Inspect(fd.Body, func(x ast.Node) bool {
				c, ok := x.(*ast.CallExpr)
				if !ok {
					return true
				}
				se, ok := c.Fun.(*ast.SelectorExpr)
				if !ok {
					return true
				}
				inner, ok := se.X.(*ast.SelectorExpr)
				if !ok {
					return true
				}
				fld := inner.Sel.Name
				if _, ok := cells[fld]; !ok {
					return true
				}
				switch se.Sel.Name {
				case "Load", "LoadOrStore":
					if _, seen := firstLoad[fld]; !seen {
						firstLoad[fld] = c.Pos()
					}
				case "Store":
					if _, seen := firstStore[fld]; !seen {
						firstStore[fld] = c.Pos()
					}
				}
				return true
			})
			var flds []string
			for f := range firstStore {
				flds = append(flds, f)
			}
			sort.Strings(flds)
			for _, f := range flds {
				lp, ok := firstLoad[f]
				why := p.meteredByDeep(fd, 0)
				out = append(out, MemoSite{
					Site:      rel + ":" + funcName(fd) + ":" + f,
					Kind:      cells[f],
					LoadFirst: ok && lp < firstStore[f],
					Metered:   why != "",
					MeteredBy: why,
				})
			}
		}
	}
	return out
}

func main() {
	repo := flag.String("repo", "/repo", "root of onflow/cadence")
	flag.Parse()
	var pools []Pool
	var memos []MemoSite
	err := filepath.WalkDir(*repo, func(path string, d os.DirEntry, err error) error {
		if err != nil {
			return err
		}
		if !d.IsDir() {
			return nil
		}
		base := d.Name()
		if path != *repo && (strings.HasPrefix(base, ".") || base == "vendor" || base == "testdata" || base == "node_modules") {
			return filepath.SkipDir
		}
		// quick filter: does any non-test file of this directory mention sync.Pool?
		ents, _ := os.ReadDir(path)
		hit := false
		memoHit := false
		for _, e := range ents {
			n := e.Name()
			if e.IsDir() || !strings.HasSuffix(n, ".go") || strings.HasSuffix(n, "_test.go") {
				continue
			}
			b, err := os.ReadFile(filepath.Join(path, n))
			if err == nil && strings.Contains(string(b), "sync.Pool") {
				hit = true
			}
			if err == nil && (strings.Contains(string(b), "atomic.Pointer[") || strings.Contains(string(b), "sync.Map")) {
				memoHit = true
			}
		}
		if !hit && !memoHit {
			return nil
		}
		rel, _ := filepath.Rel(*repo, path)
		if strings.HasPrefix(rel, "test_utils") || strings.HasPrefix(rel, "tools") {
			return nil
		}
		p := loadPkg(path)
		memos = append(memos, memoSites(p, rel)...)
		if !hit {
			return nil
		}
		var names []string
		for n := range p.files {
			names = append(names, n)
		}
		sort.Strings(names)
		for _, n := range names {
			for _, dcl := range p.files[n].Decls {
				gd, ok := dcl.(*ast.GenDecl)
				if !ok || gd.Tok != token.VAR {
					continue
				}
				for _, s := range gd.Specs {
					vs := s.(*ast.ValueSpec)
					for i, val := range vs.Values {
						cl, ok := val.(*ast.CompositeLit)
						if !ok || exprString(cl.Type) != "sync.Pool" {
							continue
						}
						var newFn *ast.FuncLit
						for _, el := range cl.Elts {
							kv, ok := el.(*ast.KeyValueExpr)
							if ok && exprString(kv.Key) == "New" {
								newFn, _ = kv.Value.(*ast.FuncLit)
							}
						}
						if newFn == nil {
							die("%s/%s: sync.Pool without a New function literal", rel, n)
						}
						pools = append(pools, p.analyse(vs.Names[i].Name, n, newFn, rel))
					}
				}
			}
		}
		return nil
	})
	if err != nil {
		die("%v", err)
	}
	// any other mention of sync.Pool (field, local variable) is not understood: refuse
	sort.Slice(pools, func(i, j int) bool { return pools[i].Name < pools[j].Name })
	sort.Slice(memos, func(i, j int) bool { return memos[i].Site < memos[j].Site })
	out, _ := json.MarshalIndent(map[string]any{"pools": pools, "memo_sites": memos}, "", " ")
	fmt.Println(string(out))
}
