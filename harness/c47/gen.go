package main

import (
	"encoding/json"
	"fmt"
	"math/big"
	"os"
	"path/filepath"
	"sort"
	"sync"

	"cvh/lib"

	"github.com/onflow/cadence/interpreter"
	"github.com/onflow/cadence/stdlib"
)

func pow2(k int) *big.Int { return new(big.Int).Lsh(big.NewInt(1), uint(k)) }

// nBytes renders x as exactly n big-endian bytes (x < 256^n).
func nBytes(x *big.Int, n int) []byte {
	b := x.Bytes()
	out := make([]byte, n)
	copy(out[n-len(b):], b)
	return out
}

// ---------------------------------------------------------------- corpus
type corpusCase struct {
	Type   string   `json:"type"`
	Modulo *string  `json:"modulo"` // decimal; null = no modulo argument
	Blocks []string `json:"blocks"` // hex
}

func (h *H) corpus(ts []rtype) {
	bases := []string{"/verif/corpus/C47"}
	if exe, err := os.Executable(); err == nil {
		bases = append([]string{filepath.Join(filepath.Dir(exe), "..", "..", "corpus", "C47")}, bases...)
	}
	for _, base := range bases {
		files, _ := filepath.Glob(filepath.Join(base, "*.json"))
		if len(files) == 0 {
			continue
		}
		sort.Strings(files)
		for _, f := range files {
			b, err := os.ReadFile(f)
			if err != nil {
				continue
			}
			var cs []corpusCase
			if err := json.Unmarshal(b, &cs); err != nil {
				fmt.Fprintln(os.Stderr, "bad corpus file", f, err)
				os.Exit(2)
			}
			for _, c := range cs {
				for _, t := range ts {
					if t.Name != c.Type {
						continue
					}
					var m *big.Int
					if c.Modulo != nil {
						m, _ = new(big.Int).SetString(*c.Modulo, 10)
					}
					var blocks [][]byte
					for _, hx := range c.Blocks {
						var bb []byte
						fmt.Sscanf(hx, "%x", &bb)
						blocks = append(blocks, bb)
					}
					h.check(t, m, blocks, true, "corpus")
				}
			}
		}
		break
	}
}

// ---------------------------------------------------------------- exhaustive byte sources (8/16-bit types)

// countModulo runs the real function on every block of the required length and counts accepted
// draws per outcome. Returns a description of the first deviation ("" if none).
func countModulo(t rtype, m int) (evals int, bad string, replay map[string]any) {
	modulo := big.NewInt(int64(m))
	sp := specOf(modulo)
	nblocks := 1 << (8 * sp.n)
	counts := make([]int, 1<<16)
	mv := t.Make(modulo)
	src := &source{}
	buf := make([]byte, sp.n)
	one := [][]byte{buf}
	cls, rec := lib.Catch(func() {
		for x := 0; x < nblocks; x++ {
			for i := 0; i < sp.n; i++ {
				buf[sp.n-1-i] = byte(x >> (8 * i))
			}
			src.blocks, src.next, src.sizes, src.exhausted, src.badSize, src.extra = one, 0, src.sizes[:0], false, false, 0
			v := stdlib.RevertibleRandom(src, nil, t.Sema, mv)
			evals++
			var r uint64
			switch w := v.(type) {
			case interpreter.UInt8Value:
				r = uint64(w)
			case interpreter.UInt16Value:
				r = uint64(w)
			case interpreter.Word8Value:
				r = uint64(w)
			case interpreter.Word16Value:
				r = uint64(w)
			default:
				bad = fmt.Sprintf("result has type %T", v)
				return
			}
			if src.badSize || len(src.sizes) == 0 || src.sizes[0] != sp.n {
				bad = fmt.Sprintf("requested %v bytes per draw, required %d = ceil(bitlen(modulo-1)/8)", src.sizes, sp.n)
				replay = map[string]any{"type": t.Name, "modulo": m, "block_hex": fmt.Sprintf("%x", buf), "requested_sizes": append([]int{}, src.sizes...)}
				return
			}
			if r >= uint64(m) {
				bad = fmt.Sprintf("block %x gives %d, which is not below the modulo", buf, r)
				replay = map[string]any{"type": t.Name, "modulo": m, "block_hex": fmt.Sprintf("%x", buf), "observed": r}
				return
			}
			if !src.exhausted { // accepted on the first (scripted) block
				counts[r]++
			}
		}
	})
	if cls != "" {
		return evals, fmt.Sprintf("panicked on block %x: %s %v", buf, cls, rec), map[string]any{"type": t.Name, "modulo": m, "block_hex": fmt.Sprintf("%x", buf)}
	}
	if bad != "" {
		return
	}
	want := 1 << (8*sp.n - sp.k)
	for v := 0; v < 1<<16; v++ {
		w := 0
		if v < m {
			w = want
		}
		if counts[v] != w {
			return evals, fmt.Sprintf("of all %d blocks of %d byte(s), %d are accepted as %d; required %d (= 2^(8*%d-%d)) for every value below the modulo: the distribution is not uniform",
					nblocks, sp.n, counts[v], v, w, sp.n, sp.k),
				map[string]any{"type": t.Name, "modulo": m, "outcome": v, "accepted_blocks": counts[v], "required": w, "counts_of_0_1_2": counts[:3]}
		}
	}
	return
}

func (h *H) exhaustive(ts []rtype, rng *lib.Rng) {
	type job struct {
		t rtype
		m int
	}
	var jobs []job
	for _, t := range ts {
		switch t.Width {
		case 1:
			for m := 1; m <= 255; m++ {
				jobs = append(jobs, job{t, m})
			}
		case 2:
			for m := 1; m <= 256; m++ {
				jobs = append(jobs, job{t, m})
			}
			set := map[int]bool{}
			{
				for k := 9; k <= 16; k++ {
					for _, d := range []int{-1, 0, 1} {
						if m := (1 << k) + d; m > 256 && m <= 65535 {
							set[m] = true
						}
					}
				}
				for _, m := range []int{257, 258, 65534, 65535, 40000, 300} {
					set[m] = true
				}
				nr := 10
				if *tier == "thorough" {
					nr = 1200
				}
				for i := 0; i < nr; i++ {
					set[257+rng.Intn(65535-257+1)] = true
				}
			}
			var ms []int
			for m := range set {
				ms = append(ms, m)
			}
			sort.Ints(ms)
			for _, m := range ms {
				jobs = append(jobs, job{t, m})
			}
		}
	}
	// run (4 workers; results gathered in job order so that the output is deterministic)
	type res struct {
		evals  int
		bad    string
		replay map[string]any
	}
	out := make([]res, len(jobs))
	var wg sync.WaitGroup
	ch := make(chan int)
	for w := 0; w < 4; w++ {
		wg.Add(1)
		go func() {
			defer wg.Done()
			for i := range ch {
				e, b, r := countModulo(jobs[i].t, jobs[i].m)
				out[i] = res{e, b, r}
			}
		}()
	}
	for i := range jobs {
		ch <- i
	}
	close(ch)
	wg.Wait()
	for i, j := range jobs {
		h.sum.Evaluations += out[i].evals
		h.sum.Distribution = ensure(h.sum.Distribution)
		h.sum.Distribution["exhaustive moduli "+j.t.Name]++
		h.sum.Distribution["exhaustive draws "+j.t.Name] += out[i].evals
		if out[i].bad != "" {
			key := "random:uniform:" + j.t.Name
			h.sum.Fail(key, fmt.Sprintf("revertibleRandom<%s>(modulo: %d), every byte block tried: %s", j.t.Name, j.m, out[i].bad), out[i].replay)
		}
	}
	// a sample of the same (modulo, block) pairs also goes through the detailed check and to Coq
	for _, t := range ts {
		if t.Width > 2 {
			continue
		}
		top := 1 << (8 * t.Width)
		for m := 1; m < top; m++ {
			if t.Width == 2 && m > 300 && !rng.Chance(1, 120) {
				continue
			}
			modulo := big.NewInt(int64(m))
			sp := specOf(modulo)
			reps := 2
			if *tier != "thorough" && t.Width == 2 {
				reps = 1
			}
			for r := 0; r < reps; r++ {
				blocks := [][]byte{nBytes(rng.BigBits(8*sp.n), sp.n), nBytes(rng.BigBits(8*sp.n), sp.n), make([]byte, sp.n)}
				h.check(t, modulo, blocks, true, "8/16-bit sample")
			}
		}
		// no modulo: every block of Width bytes gives a different value, every value is hit
		seen := make([]bool, top)
		okAll := true
		for x := 0; x < top; x++ {
			b := nBytes(big.NewInt(int64(x)), t.Width)
			src := &source{blocks: [][]byte{b}}
			got := call(t, nil, src)
			h.sum.Evaluations++
			if got.cls != "" || !got.z.IsInt64() || got.z.Int64() < 0 || got.z.Int64() >= int64(top) || seen[got.z.Int64()] || len(src.sizes) != 1 || src.sizes[0] != t.Width {
				h.sum.Fail("random:nomod-bijection:"+t.Name, fmt.Sprintf("revertibleRandom<%s>() with bytes %x returned %s (requested sizes %v): values must be hit exactly once each", t.Name, b, got, src.sizes),
					map[string]any{"type": t.Name, "block_hex": fmt.Sprintf("%x", b), "observed": got.String()})
				okAll = false
				break
			}
			seen[got.z.Int64()] = true
		}
		if okAll {
			h.sum.Count("no-modulo bijection verified " + t.Name)
		}
		for i := 0; i < 20; i++ {
			h.check(t, nil, [][]byte{nBytes(rng.BigBits(8*t.Width), t.Width)}, true, "no modulo")
		}
		h.check(t, big.NewInt(0), nil, true, "zero modulo")
	}
}

func ensure(m map[string]int) map[string]int {
	if m == nil {
		return map[string]int{}
	}
	return m
}

// ---------------------------------------------------------------- wider types: boundary moduli, adversarial sources
func (h *H) wide(ts []rtype, rng *lib.Rng) {
	nrand := 12
	if *tier == "thorough" {
		nrand = 150
	}
	one := big.NewInt(1)
	for _, t := range ts {
		if t.Width < 4 {
			continue
		}
		bits := 8 * t.Width
		max := t.Max()
		set := map[string]*big.Int{}
		add := func(m *big.Int) {
			if m.Sign() > 0 && m.Cmp(max) <= 0 {
				set[m.String()] = m
			}
		}
		for _, m := range []int64{1, 2, 3, 4, 5, 7, 100, 255, 256, 257} {
			add(big.NewInt(m))
		}
		for k := 1; k <= bits; k++ {
			near := k%8 <= 1 || k%8 == 7 || k == bits-2
			if *tier != "thorough" {
				// quick tier: byte boundaries near the ends of the type and around 64/128 bits, a few others
				near = near && (k <= 25 || k >= bits-9 || (k >= 63 && k <= 65) || (k >= 127 && k <= 129))
			}
			if near || rng.Chance(1, 12) {
				add(new(big.Int).Sub(pow2(k), one))
				add(pow2(k))
				add(new(big.Int).Add(pow2(k), one))
			}
		}
		add(max)
		add(new(big.Int).Sub(max, one))
		for i := 0; i < nrand; i++ {
			add(rng.BigBetween(one, max))
		}
		var keys []string
		for k := range set {
			keys = append(keys, k)
		}
		sort.Slice(keys, func(i, j int) bool { return set[keys[i]].Cmp(set[keys[j]]) < 0 })
		for _, k := range keys {
			m := set[k]
			sp := specOf(m)
			n := sp.n
			zeros := make([]byte, n)
			ones := nBytes(new(big.Int).Sub(pow2(8*n), one), n)
			mm1 := new(big.Int).Sub(m, one)
			junk := func(v *big.Int) []byte { // v with random bits above the mask
				j := rng.BigBits(8*n - sp.k)
				if 8*n-sp.k > 0 && j.Sign() == 0 {
					j = big.NewInt(1)
				}
				return nBytes(new(big.Int).Add(new(big.Int).Lsh(j, uint(sp.k)), v), n)
			}
			fits := func(x *big.Int) bool { return x.Sign() >= 0 && x.Cmp(pow2(8*n)) < 0 }
			h.check(t, m, [][]byte{ones, zeros}, true, "wide: all ones first")
			if fits(m) {
				h.check(t, m, [][]byte{nBytes(m, n), nBytes(mm1, n)}, true, "wide: exactly the modulo, then modulo-1")
			}
			if mp := new(big.Int).Add(m, one); fits(mp) {
				h.check(t, m, [][]byte{nBytes(mp, n), ones, nBytes(mm1, n)}, true, "wide: modulo+1, ones, modulo-1")
			}
			h.check(t, m, [][]byte{junk(rng.BigBetween(big.NewInt(0), mm1))}, true, "wide: junk above the mask")
			h.check(t, m, [][]byte{nBytes(new(big.Int).Sub(sp.pow, one), n), junk(mm1)}, true, "wide: mask value, then junk|modulo-1")
			var seq [][]byte
			for i := 0; i < 6; i++ {
				seq = append(seq, nBytes(rng.BigBits(8*n), n))
			}
			h.check(t, m, append(seq, zeros), true, "wide: uniform blocks")
		}
		// no modulo, zero modulo
		h.check(t, nil, [][]byte{nBytes(max, t.Width)}, true, "no modulo")
		h.check(t, nil, [][]byte{make([]byte, t.Width)}, true, "no modulo")
		for i := 0; i < 10; i++ {
			h.check(t, nil, [][]byte{nBytes(rng.BigBits(bits), t.Width)}, true, "no modulo")
		}
		h.check(t, big.NewInt(0), nil, true, "zero modulo")
	}
}

// ---------------------------------------------------------------- through the runtime (both engines)
func (h *H) scripts(ts []rtype, rng *lib.Rng) {
	host := lib.NewHost()
	n := 40
	if *tier == "thorough" {
		n = 500
	}
	one := big.NewInt(1)
	for i := 0; i < n; i++ {
		t := lib.Pick(rng, ts)
		var m *big.Int
		switch rng.Intn(8) {
		case 0:
			m = nil
		case 1:
			m = big.NewInt(0)
		case 2:
			m = pow2(1 + rng.Intn(8*t.Width-1))
		case 3:
			m = new(big.Int).Add(pow2(1+rng.Intn(8*t.Width-1)), one)
		default:
			m = rng.BigBetween(one, t.Max())
		}
		var blocks [][]byte
		arg := ""
		if m == nil {
			blocks = [][]byte{nBytes(rng.BigBits(8*t.Width), t.Width)}
		} else {
			arg = fmt.Sprintf("modulo: %v", m)
			if m.Sign() > 0 {
				sp := specOf(m)
				blocks = [][]byte{nBytes(new(big.Int).Sub(pow2(8*sp.n), one), sp.n), nBytes(rng.BigBits(8*sp.n), sp.n), nBytes(rng.BigBits(8*sp.n), sp.n), make([]byte, sp.n)}
			}
		}
		direct := call(t, m, &source{blocks: blocks})
		src := fmt.Sprintf("access(all) fun main(): %s { return revertibleRandom<%s>(%s) }", t.Name, t.Name, arg)
		for _, vm := range []bool{false, true} {
			s := &source{blocks: blocks}
			host.Iface.OnReadRandom = s.ReadRandom
			out := host.RunScript(src, nil, vm)
			h.sum.Evaluations++
			h.sum.Count(fmt.Sprintf("script vm=%v", vm))
			var got outcome
			if out.Class != "" {
				got = outcome{cls: out.Class}
			} else {
				zz, ok := new(big.Int).SetString(out.Value.String(), 10)
				if !ok {
					got = outcome{cls: "Unparsable:" + out.Value.String()}
				} else {
					got = outcome{z: zz}
				}
			}
			same := got.cls == direct.cls && (got.cls != "" || got.z.Cmp(direct.z) == 0)
			if !same || (m != nil && m.Sign() > 0 && got.cls == "" && got.z.Cmp(m) >= 0) {
				h.sum.Fail(fmt.Sprintf("random:script:%s:vm=%v", t.Name, vm),
					fmt.Sprintf("script `%s` (vm=%v) with generator blocks %x gives %s; stdlib.RevertibleRandom gives %s (err: %v)", src, vm, blocks, got, direct, out.Err),
					map[string]any{"script": src, "vm": vm, "blocks_hex": fmt.Sprintf("%x", blocks), "observed": got.String(), "direct": direct.String()})
			}
		}
	}
	host.Iface.OnReadRandom = nil
}
