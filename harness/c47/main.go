// Command c47: correspondence + direct-oracle harness for C47 (revertibleRandom is bounded and
// exactly uniform). It calls the real stdlib.RevertibleRandom with an injected RandomGenerator that
// delivers chosen byte blocks, and also runs `revertibleRandom<T>(modulo: m)` scripts in both engines
// with OnReadRandom delivering chosen bytes.
package main

import (
	"flag"
	"fmt"
	"math/big"
	"os"
	"strings"
	"sync"

	"cvh/lib"

	"github.com/onflow/cadence/interpreter"
	"github.com/onflow/cadence/sema"
	"github.com/onflow/cadence/stdlib"
)

var (
	prop = flag.String("prop", "C47", "property id")
	seed = flag.Uint64("seed", 1, "seed")
	tier = flag.String("tier", "quick", "quick|thorough")
	dir  = flag.String("dir", ".", "output directory")
)

type rtype struct {
	lib.IntType
	Sema  sema.Type
	Width int // bytes
}

func types() []rtype {
	sm := map[string]sema.Type{
		"UInt8": sema.UInt8Type, "UInt16": sema.UInt16Type, "UInt32": sema.UInt32Type, "UInt64": sema.UInt64Type,
		"UInt128": sema.UInt128Type, "UInt256": sema.UInt256Type,
		"Word8": sema.Word8Type, "Word16": sema.Word16Type, "Word32": sema.Word32Type, "Word64": sema.Word64Type,
		"Word128": sema.Word128Type, "Word256": sema.Word256Type,
	}
	var out []rtype
	for _, t := range lib.IntTypes {
		if s, ok := sm[t.Name]; ok {
			out = append(out, rtype{t, s, t.Bits / 8})
		}
	}
	return out
}

// source is a scripted RandomGenerator: each ReadRandom call consumes the next block.
type source struct {
	blocks    [][]byte
	next      int
	sizes     []int // requested buffer sizes, in call order
	exhausted bool  // a call arrived after the script ended (zeros were delivered)
	badSize   bool  // a requested size differed from the scripted block's length
	extra     int   // calls after the script ended
}

type noTermination struct{}

func (noTermination) Error() string { return "rejection loop keeps drawing on all-zero blocks" }

var errNoTermination = noTermination{}

func (s *source) ReadRandom(buf []byte) error {
	s.sizes = append(s.sizes, len(buf))
	if s.next >= len(s.blocks) {
		s.exhausted = true
		s.extra++
		if s.extra > 100 {
			// after the script the generator delivers zeros, which every correct rejection loop accepts
			// (0 <= modulo-1): a loop still drawing after 100 of them does not terminate
			panic(errNoTermination)
		}
		for i := range buf {
			buf[i] = 0
		}
		return nil
	}
	b := s.blocks[s.next]
	s.next++
	if len(b) != len(buf) {
		s.badSize = true
	}
	for i := range buf {
		buf[i] = 0
	}
	// right-align (big-endian value preserved) when sizes differ
	for i := 0; i < len(b) && i < len(buf); i++ {
		buf[len(buf)-1-i] = b[len(b)-1-i]
	}
	return nil
}

type outcome struct {
	cls string
	z   *big.Int
}

func (o outcome) String() string {
	if o.cls != "" {
		return "Err " + o.cls
	}
	return o.z.String()
}

// call runs the real function once.
func call(t rtype, modulo *big.Int, src *source) (res outcome) {
	var mv interpreter.Value
	if modulo != nil {
		mv = t.Make(modulo)
	}
	cls, _ := lib.Catch(func() {
		v := stdlib.RevertibleRandom(src, nil, t.Sema, mv)
		res.z = lib.ValueToBig(v)
	})
	if cls != "" {
		res = outcome{cls: cls}
		if src.extra > 100 {
			res.cls = "NoTermination"
		}
	}
	return
}

func be(b []byte) *big.Int { return new(big.Int).SetBytes(b) }

// spec: the required behaviour, from first principles (math/big): with k = bitlen(m-1) and
// n = ceil(k/8), each block of n bytes is reduced mod 2^k and accepted iff below m.
type specT struct {
	k, n int
	pow  *big.Int
}

func specOf(m *big.Int) specT {
	k := new(big.Int).Sub(m, big.NewInt(1)).BitLen()
	return specT{k, (k + 7) / 8, new(big.Int).Lsh(big.NewInt(1), uint(k))}
}

func (s specT) accept(m *big.Int, block []byte) (*big.Int, bool) {
	x := new(big.Int).Mod(be(block), s.pow)
	return x, x.Cmp(m) < 0
}

func blocksTerm(bs [][]byte) string {
	parts := make([]string, len(bs))
	for i, b := range bs {
		parts[i] = lib.ZList(b)
	}
	return "[" + strings.Join(parts, ";") + "]"
}

func sizesTerm(xs []int) string {
	parts := make([]string, len(xs))
	for i, x := range xs {
		parts[i] = fmt.Sprint(x)
	}
	return "[" + strings.Join(parts, ";") + "]"
}

type H struct {
	sum      *lib.Summary
	cw       *lib.CaseWriter
	distinct map[string]bool
	mu       sync.Mutex
}

// check runs one scripted case, compares with the spec and optionally records it for Coq.
func (h *H) check(t rtype, modulo *big.Int, blocks [][]byte, toCoq bool, note string) {
	src := &source{blocks: blocks}
	got := call(t, modulo, src)
	h.sum.Evaluations++
	h.sum.Count(note)
	replay := map[string]any{"type": t.Name, "modulo": fmt.Sprint(modulo), "blocks_hex": fmt.Sprintf("%x", blocks), "observed": got.String(), "requested_sizes": src.sizes, "kind": note}
	fail := func(key, what string) {
		h.sum.Fail(key, fmt.Sprintf("revertibleRandom<%s>(modulo: %v) with generator blocks %x: %s", t.Name, modulo, blocks, what), replay)
	}
	modTerm := "None"
	switch {
	case modulo == nil:
		// uniform over T: exactly Width bytes are requested once and the result is their big-endian value
		if len(src.sizes) != 1 || src.sizes[0] != t.Width {
			fail("random:nomod-size:"+t.Name, fmt.Sprintf("requested buffer sizes %v, required one read of %d bytes", src.sizes, t.Width))
		}
		if got.cls != "" || (len(blocks) > 0 && len(blocks[0]) == t.Width && got.z.Cmp(be(blocks[0])) != 0) {
			fail("random:nomod-value:"+t.Name, fmt.Sprintf("returned %s, required the big-endian value of the %d bytes", got, t.Width))
		}
	case modulo.Sign() == 0:
		modTerm = "(Some 0)"
		if got.cls != lib.EUserOther {
			fail("random:zero-modulo:"+t.Name, fmt.Sprintf("returned %s, required a user error", got))
		}
		if len(src.sizes) != 0 {
			fail("random:zero-modulo-read:"+t.Name, "random bytes were consumed before failing")
		}
	default:
		modTerm = "(Some " + lib.Z(modulo) + ")"
		sp := specOf(modulo)
		// required result: value of the first accepted block; required reads: up to and including it
		var want *big.Int
		reads := 0
		for _, b := range blocks {
			reads++
			if x, ok := sp.accept(modulo, b); ok && len(b) == sp.n {
				want = x
				break
			}
		}
		key := fmt.Sprintf("%s %v %x", t.Name, modulo, blocks)
		nontrivial := reads >= 2 || (len(blocks) > 0 && sp.k%8 != 0 && new(big.Int).Rsh(be(blocks[reads-1]), uint(sp.k)).Sign() != 0)
		if nontrivial && !h.distinct[key] {
			h.distinct[key] = true
			h.sum.DistinctNontrivial++
			h.sum.Sample(map[string]string{"call": fmt.Sprintf("revertibleRandom<%s>(modulo: %v)", t.Name, modulo), "blocks": fmt.Sprintf("%x", blocks), "observed": got.String(), "reads": fmt.Sprint(src.sizes)})
		}
		if got.cls != "" {
			fail("random:error:"+t.Name, fmt.Sprintf("failed with %s", got))
		} else {
			if got.z.Sign() < 0 || got.z.Cmp(modulo) >= 0 {
				fail("random:bound:"+t.Name, fmt.Sprintf("returned %s, which is not below the modulo", got))
			}
			if want != nil && got.z.Cmp(want) != 0 {
				fail("random:value:"+t.Name, fmt.Sprintf("returned %s, required %s (first block whose low %d bits are below the modulo)", got, want, sp.k))
			}
		}
		for _, s := range src.sizes {
			if s != sp.n {
				fail("random:byte-size:"+t.Name, fmt.Sprintf("requested %v bytes per draw, required %d = ceil(bitlen(modulo-1)/8)", src.sizes, sp.n))
				break
			}
		}
		if want != nil && len(src.sizes) != reads {
			fail("random:reads:"+t.Name, fmt.Sprintf("made %d draws, required %d", len(src.sizes), reads))
		}
	}
	if toCoq {
		h.cw.Add(fmt.Sprintf("(%d, %s, %s, %s, %s)", t.Width, modTerm, blocksTerm(blocks), lib.ResZ(got.cls, got.z), sizesTerm(src.sizes)), replay)
	}
}

func main() {
	flag.Parse()
	sum := &lib.Summary{}
	if *prop != "C47" {
		fmt.Fprintln(os.Stderr, "unknown prop", *prop)
		os.Exit(2)
	}
	h := &H{sum: sum, distinct: map[string]bool{}, cw: &lib.CaseWriter{
		Dir: *dir, Prefix: "cases_C47", Header: "From CV Require Import C47.Cases.",
		ElemType: "Z * option Z * list (list Z) * res Z * list Z", CheckFn: "check_random", PerFile: 700,
	}}
	sum.Rule = "stdlib.RevertibleRandom with an injected generator delivering scripted byte blocks: (a) 8-bit types: every modulo 1..255 x every byte, " +
		"16-bit types: every modulo <= 256 x every byte and boundary and random (quick 10, thorough 1200 per type) moduli > 256 x all 65536 two-byte blocks, accepted draws counted per outcome " +
		"(must be 2^(8*byteSize-bitSize) each, 0 above the modulo); no-modulo: all blocks of 8/16-bit types hit every value exactly once; " +
		"(b) 32..256-bit types: boundary moduli (1,2,3, 2^k-1, 2^k, 2^k+1 around byte boundaries, max, max-1) and random moduli with adversarial block sequences " +
		"(all ones, exactly the modulo, modulo-1, modulo+1, junk above the mask, zeros, several rejections first); (c) the same through scripts in interpreter and VM with OnReadRandom. " +
		"Each case is compared with a math/big specification (value, bound, bytes requested per draw, number of draws); a sample plus all of (b) goes to the Coq model. " +
		"non-trivial = at least one rejected draw, or bits above the mask set in the accepted block; distinct = distinct (type, modulo, blocks)"
	rng := lib.NewRng(lib.NewRng(*seed).U64() ^ 0xC47C47)
	ts := types()
	h.corpus(ts)
	h.exhaustive(ts, rng)
	h.wide(ts, rng)
	h.cw.Close()
	sum.CaseFiles = h.cw.Files
	h.scripts(ts, rng)
	sum.Write(*dir)
}
