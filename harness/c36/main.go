// C36 observation leg: concurrent checking and execution vs. sequential runs, under the race detector.
//
//	-mode seq   : every task (lex / check / execute with both engines / encode) once, one after the other,
//	              in this (fresh) process; writes ref.json   (the "sequential run")
//	-mode conc  : rounds of 2..16 goroutines executing random task lists on SHARED caches (runtime program
//	              cache, imported elaborations, sema types, parsed ASTs, pools), random start order, GOMAXPROCS
//	              varied per round; every result must equal ref.json.  The binary is built with -race: the
//	              driver treats any race report on stderr as a violation.
//
// All choices derive from -seed (the goroutine interleaving itself is of course up to the Go scheduler).
package main

import (
	"crypto/sha256"
	"encoding/hex"
	"encoding/json"
	"flag"
	"fmt"
	"os"
	"path/filepath"
	"runtime"
	"sort"
	"strings"
	"sync"
	"sync/atomic"

	"cvh/lib"

	"github.com/onflow/cadence"
	"github.com/onflow/cadence/ast"
	"github.com/onflow/cadence/common"
	"github.com/onflow/cadence/encoding/ccf"
	"github.com/onflow/cadence/interpreter"
	cjson "github.com/onflow/cadence/encoding/json"
	oldlexer "github.com/onflow/cadence/old_parser/lexer"
	"github.com/onflow/cadence/parser"
	"github.com/onflow/cadence/parser/lexer"
	crt "github.com/onflow/cadence/runtime"
	"github.com/onflow/cadence/sema"
	"github.com/onflow/cadence/stdlib"
	ru "github.com/onflow/cadence/test_utils/runtime_utils"
)

var (
	flagProp = flag.String("prop", "C36", "")
	flagSeed = flag.Uint64("seed", 1, "")
	flagTier = flag.String("tier", "quick", "")
	flagDir  = flag.String("dir", ".", "")
	flagMode = flag.String("mode", "seq", "seq | conc | vmprobe")
	flagRun  = flag.Int("run", 0, "index of this concurrent process (varies the task schedule)")
)

var addr1 = common.MustBytesToAddress([]byte{1})

// ---------------------------------------------------------------- world

type World struct {
	codes     map[common.AddressLocation][]byte
	stored    map[string][]byte
	indices   map[string]uint64
	programs  []lib.C36Program
	lexInputs []string
	values    []cadence.Value
}

func buildWorld(seed uint64, nProg, nLex int) *World {
	r := lib.NewRng(seed)
	w := &World{}
	h := lib.NewHost()
	for _, c := range []struct{ name, code string }{{"Base", lib.C36BaseContract(r)}, {"Lib", lib.C36LibContract(r)}, {"Col", lib.C36ColContract(r)}} {
		o := h.Deploy(addr1, c.name, c.code, false)
		if o.Err != nil || o.Panic != nil {
			fmt.Fprintf(os.Stderr, "deploying %s failed: %v %v\n%s\n", c.name, o.Err, o.Panic, c.code)
			os.Exit(3)
		}
	}
	w.codes = map[common.AddressLocation][]byte{}
	for k, v := range h.Codes {
		w.codes[k] = v
	}
	w.stored = h.Ledger.StoredValues
	w.indices = h.Ledger.StorageIndices
	for i := 0; i < nProg; i++ {
		w.programs = append(w.programs, lib.C36GenProgram(r, i, false))
	}
	for i := 0; i < nLex; i++ {
		src := w.programs[r.Intn(len(w.programs))].Src
		if i%3 != 0 {
			src = lib.C36MutateSource(r, src)
		}
		w.lexInputs = append(w.lexInputs, src)
	}
	// exported values / types with lazily computed caches (types.go: entitlement set, intersection set)
	auth := cadence.NewEntitlementSetAuthorization(nil, []common.TypeID{"A.0000000000000001.Base.E1", "A.0000000000000001.Base.E2"}, cadence.Conjunction)
	refT := cadence.NewReferenceType(auth, cadence.IntType)
	structT := cadence.NewStructType(common.AddressLocation{Address: addr1, Name: "Base"}, "Base.Sq",
		[]cadence.Field{{Identifier: "s", Type: cadence.IntType}}, nil)
	ifaceT := cadence.NewStructInterfaceType(common.AddressLocation{Address: addr1, Name: "Base"}, "Base.Shape", nil, nil)
	interT := cadence.NewIntersectionType([]cadence.Type{ifaceT})
	for i := 0; i < 12; i++ {
		var elems []cadence.Value
		for j := 0; j <= i%5; j++ {
			elems = append(elems, cadence.NewStruct([]cadence.Value{cadence.NewInt(r.Intn(1000))}).WithType(structT))
		}
		w.values = append(w.values,
			cadence.NewArray(elems).WithType(cadence.NewVariableSizedArrayType(structT)),
			cadence.NewTypeValue(refT),
			cadence.NewTypeValue(interT),
			cadence.NewOptional(cadence.String(strings.Repeat("x", r.Intn(200)))),
			cadence.NewTypeValue(cadence.NewVariableSizedArrayType(interT)),
		)
	}
	return w
}

// ---------------------------------------------------------------- shared caches

type Shared struct {
	rt       crt.Runtime
	programs atomic.Pointer[sync.Map] // runtime.Location -> *runtime.Program (embedder's program cache)
	elabs    atomic.Pointer[sync.Map] // common.Location -> *sema.Elaboration (imports of the stand-alone checker)
	asts     atomic.Pointer[sync.Map] // program id -> *ast.Program (shared parsed programs)
}

func newShared() *Shared {
	s := &Shared{rt: crt.NewRuntime(crt.Config{AtreeValidationEnabled: true})}
	s.reset()
	return s
}

func (s *Shared) reset() {
	s.programs.Store(&sync.Map{})
	s.elabs.Store(&sync.Map{})
	s.asts.Store(&sync.Map{})
}

// ---------------------------------------------------------------- tasks

type Task struct {
	Stage string // lex | oldlex | check | checkshared | exec | execvm | ccf
	Item  int
}

func (t Task) Key() string {
	st := t.Stage
	if st == "checkshared" {
		st = "check" // same observable required whether the AST is shared or private
	}
	return fmt.Sprintf("%s:%d", st, t.Item)
}

func digest(s string) string {
	h := sha256.Sum256([]byte(s))
	return hex.EncodeToString(h[:8])
}

func errList(err error) string {
	if err == nil {
		return ""
	}
	var parts []string
	var walk func(e error)
	walk = func(e error) {
		switch x := e.(type) {
		case *sema.CheckerError:
			for _, c := range x.Errors {
				walk(c)
			}
		case parser.Error:
			for _, c := range x.Errors {
				walk(c)
			}
		default:
			s := fmt.Sprintf("%T", e)
			if hp, ok := e.(ast.HasPosition); ok {
				s += fmt.Sprintf("@%d-%d", hp.StartPosition().Offset, hp.EndPosition(nil).Offset)
			}
			parts = append(parts, s)
		}
	}
	walk(err)
	return strings.Join(parts, ",")
}

func lexTask(src string) (obs string) {
	defer func() {
		if r := recover(); r != nil {
			obs = fmt.Sprintf("PANIC %v", r)
		}
	}()
	ts, err := lexer.Lex([]byte(src), nil)
	var sb strings.Builder
	n := 0
	for {
		tok := ts.Next()
		fmt.Fprintf(&sb, "%d@%d-%d;", tok.Type, tok.StartPos.Offset, tok.EndPos.Offset)
		n++
		if tok.Type == lexer.TokenEOF || n > 1<<20 {
			break
		}
	}
	ts.Reclaim()
	return fmt.Sprintf("n=%d err=%v %s", n, err != nil, digest(sb.String()))
}

func oldLexTask(src string) (obs string) {
	defer func() {
		if r := recover(); r != nil {
			obs = fmt.Sprintf("PANIC %v", r)
		}
	}()
	ts := oldlexer.Lex([]byte(src), nil)
	var sb strings.Builder
	n := 0
	for {
		tok := ts.Next()
		fmt.Fprintf(&sb, "%d@%d-%d;", tok.Type, tok.StartPos.Offset, tok.EndPos.Offset)
		n++
		if tok.Type == oldlexer.TokenEOF || n > 1<<20 {
			break
		}
	}
	ts.Reclaim()
	return fmt.Sprintf("n=%d %s", n, digest(sb.String()))
}

var baseValueActivation = func() *sema.VariableActivation {
	a := sema.NewVariableActivation(sema.BaseValueActivation)
	a.DeclareValue(stdlib.InterpreterPanicFunction)
	a.DeclareValue(stdlib.InterpreterAssertFunction)
	a.DeclareValue(stdlib.NewInterpreterLogFunction(nil))
	a.DeclareValue(stdlib.InterpreterInclusiveRangeConstructor)
	return a
}()

func (w *World) checkerConfig(sh *Shared) *sema.Config {
	var cfg *sema.Config
	cfg = &sema.Config{
		AccessCheckMode:            sema.AccessCheckModeStrict,
		ExtendedElaborationEnabled: true,
		BaseValueActivationHandler: func(common.Location) *sema.VariableActivation { return baseValueActivation },
		LocationHandler: func(identifiers []ast.Identifier, location common.Location) ([]sema.ResolvedLocation, error) {
			a, ok := location.(common.AddressLocation)
			if !ok || len(identifiers) == 0 {
				return []sema.ResolvedLocation{{Location: location, Identifiers: identifiers}}, nil
			}
			var res []sema.ResolvedLocation
			for _, id := range identifiers {
				res = append(res, sema.ResolvedLocation{
					Location:    common.AddressLocation{Address: a.Address, Name: id.Identifier},
					Identifiers: []ast.Identifier{id},
				})
			}
			return res, nil
		},
		ImportHandler: func(_ *sema.Checker, loc common.Location, _ ast.Range) (sema.Import, error) {
			elabs := sh.elabs.Load()
			if e, ok := elabs.Load(loc); ok {
				return sema.ElaborationImport{Elaboration: e.(*sema.Elaboration)}, nil
			}
			a, ok := loc.(common.AddressLocation)
			if !ok {
				return nil, fmt.Errorf("unknown import %v", loc)
			}
			code, ok := w.codes[a]
			if !ok {
				return nil, fmt.Errorf("unknown import %v", loc)
			}
			prog, err := parser.ParseProgram(nil, code, parser.Config{})
			if err != nil {
				return nil, err
			}
			ch, err := sema.NewChecker(prog, loc, nil, cfg)
			if err != nil {
				return nil, err
			}
			if err := ch.Check(); err != nil {
				if os.Getenv("C36_DEBUG") != "" {
					fmt.Fprintf(os.Stderr, "import %v: %v\n", loc, err)
					if ce, ok := err.(*sema.CheckerError); ok {
						for _, e := range ce.Errors {
							fmt.Fprintf(os.Stderr, "   %T %v\n", e, e)
						}
					}
				}
				return nil, err
			}
			// first stored elaboration wins, so that every checker sees ONE elaboration per location
			// (sema compares entitlement / interface sets by pointer identity of the declared types)
			actual, _ := elabs.LoadOrStore(loc, ch.Elaboration)
			return sema.ElaborationImport{Elaboration: actual.(*sema.Elaboration)}, nil
		},
	}
	return cfg
}

func elabProjection(el *sema.Elaboration) string {
	var sb strings.Builder
	el.ForEachGlobalValue(func(name string, v *sema.Variable) {
		fmt.Fprintf(&sb, "%s:%s;", name, v.Type.QualifiedString())
	})
	type row struct {
		s, e int
		t    string
	}
	var rows []row
	for ex, ty := range el.AllExpressionTypes() { // map order irrelevant: sorted below
		t := "<nil>"
		if ty.ActualType != nil {
			t = string(ty.ActualType.ID())
		}
		if ty.ExpectedType != nil {
			t += "<=" + string(ty.ExpectedType.ID())
		}
		rows = append(rows, row{ex.StartPosition().Offset, ex.EndPosition(nil).Offset, fmt.Sprintf("%T:%s", ex, t)})
	}
	sort.Slice(rows, func(i, j int) bool {
		if rows[i].s != rows[j].s {
			return rows[i].s < rows[j].s
		}
		if rows[i].e != rows[j].e {
			return rows[i].e < rows[j].e
		}
		return rows[i].t < rows[j].t
	})
	for _, r := range rows {
		fmt.Fprintf(&sb, "%d-%d:%s;", r.s, r.e, r.t)
	}
	return fmt.Sprintf("exprs=%d %s", len(rows), digest(sb.String()))
}

func (w *World) checkTask(sh *Shared, p lib.C36Program, sharedAST bool) (obs string) {
	defer func() {
		if r := recover(); r != nil {
			obs = fmt.Sprintf("PANIC %v", r)
		}
	}()
	var prog *ast.Program
	var err error
	if sharedAST {
		asts := sh.asts.Load()
		if a, ok := asts.Load(p.ID); ok {
			prog = a.(*ast.Program)
		}
	}
	if prog == nil {
		prog, err = parser.ParseProgram(nil, []byte(p.Src), parser.Config{})
		if err != nil {
			return "parse-error:" + errList(err)
		}
		if sharedAST {
			actual, _ := sh.asts.Load().LoadOrStore(p.ID, prog)
			prog = actual.(*ast.Program)
		}
	}
	ch, err := sema.NewChecker(prog, common.StringLocation(p.ID), nil, w.checkerConfig(sh))
	if err != nil {
		return "checker-init-error"
	}
	err = ch.Check()
	return "errors=[" + errList(err) + "] " + elabProjection(ch.Elaboration)
}

func progLocation(p lib.C36Program) common.Location {
	var id [32]byte
	copy(id[:], p.ID)
	if p.Kind == "tx" {
		return common.TransactionLocation(id)
	}
	return common.ScriptLocation(id)
}

func (w *World) execTask(sh *Shared, p lib.C36Program, vm bool, args ...cadence.Value) (obs string) {
	stored := make(map[string][]byte, len(w.stored))
	for k, v := range w.stored {
		stored[k] = v
	}
	indices := make(map[string]uint64, len(w.indices))
	for k, v := range w.indices {
		indices[k] = v
	}
	var logs []string
	var events []string
	uuid := uint64(1000)
	iface := &ru.TestRuntimeInterface{
		Storage:              ru.NewTestLedgerWithData(nil, nil, stored, indices),
		OnGetSigningAccounts: func() ([]crt.Address, error) { return []crt.Address{addr1}, nil },
		OnResolveLocation: func(identifiers []crt.Identifier, location crt.Location) ([]crt.ResolvedLocation, error) {
			a, ok := location.(common.AddressLocation)
			if !ok || len(identifiers) == 0 {
				return []crt.ResolvedLocation{{Location: location, Identifiers: identifiers}}, nil
			}
			var res []crt.ResolvedLocation
			for _, id := range identifiers {
				res = append(res, crt.ResolvedLocation{
					Location:    common.AddressLocation{Address: a.Address, Name: id.Identifier},
					Identifiers: []crt.Identifier{id},
				})
			}
			return res, nil
		},
		OnGetAccountContractCode: func(location common.AddressLocation) ([]byte, error) { return w.codes[location], nil },
		OnGetOrLoadProgram: func(location crt.Location, load func() (*crt.Program, error)) (*crt.Program, error) {
			// the embedder's program cache (shape of the repository's own TestRuntimeConcurrentImport), with
			// first-writer-wins so that all goroutines observe ONE program per location: a cache that lets two
			// different checked programs of the same contract circulate makes the checker report
			// "expected T, got T" (declared types are compared by pointer in entitlement / interface sets);
			// keeping the view consistent is the embedder's job (flow-go: one program per location per block view)
			programs := sh.programs.Load()
			if item, ok := programs.Load(location); ok {
				return item.(*crt.Program), nil
			}
			program, err := load()
			if err != nil || program == nil {
				return program, err
			}
			actual, _ := programs.LoadOrStore(location, program)
			return actual.(*crt.Program), nil
		},
		OnProgramLog: func(s string) { logs = append(logs, s) },
		OnEmitEvent: func(e cadence.Event) error {
			events = append(events, e.String())
			return nil
		},
		OnGenerateUUID:   func() (uint64, error) { uuid++; return uuid, nil },
		OnDecodeArgument: func(b []byte, t cadence.Type) (cadence.Value, error) { return cjson.Decode(nil, b) },
	}
	ctx := crt.Context{Interface: iface, Location: progLocation(p), UseVM: vm}
	res := ""
	func() {
		defer func() {
			if r := recover(); r != nil {
				res = fmt.Sprintf("PANIC %v", r)
			}
		}()
		var err error
		if p.Kind == "tx" {
			err = sh.rt.ExecuteTransaction(crt.Script{Source: []byte(p.Src)}, ctx)
			if err == nil {
				res = "ok"
			}
		} else {
			var v cadence.Value
			var enc [][]byte
			for _, a := range args {
				enc = append(enc, cjson.MustEncode(a))
			}
			v, err = sh.rt.ExecuteScript(crt.Script{Source: []byte(p.Src), Arguments: enc}, ctx)
			if err == nil {
				res = "ok:" + v.String()
			}
		}
		if err != nil {
			res = "err:" + lib.ClassifyRuntimeError(err)
			if os.Getenv("C36_DEBUG") != "" {
				fmt.Fprintf(os.Stderr, "exec %s vm=%v: %v\n", p.ID, vm, err)
			}
			// the message of a failed pre/post-condition is chosen by the program: it tells WHICH condition failed first
			for e, i := err, 0; e != nil && i < 40; i++ {
				if ce, ok := e.(*interpreter.ConditionError); ok {
					res += "{" + ce.Message + "}"
					break
				}
				u, ok := e.(interface{ Unwrap() error })
				if !ok {
					break
				}
				e = u.Unwrap()
			}
			var pe *crt.ParsingCheckingError
			if asErr(err, &pe) {
				res += "[" + errList(pe.Err) + "]"
			}
		}
	}()
	return res + " logs=" + strings.Join(logs, "|") + " events=" + strings.Join(events, "|")
}

func asErr(err error, target **crt.ParsingCheckingError) bool {
	for i := 0; err != nil && i < 30; i++ {
		if x, ok := err.(*crt.ParsingCheckingError); ok {
			*target = x
			return true
		}
		u, ok := err.(interface{ Unwrap() error })
		if !ok {
			return false
		}
		err = u.Unwrap()
	}
	return false
}

func ccfTask(v cadence.Value) (obs string) {
	defer func() {
		if r := recover(); r != nil {
			obs = fmt.Sprintf("PANIC %v", r)
		}
	}()
	b, err := ccf.Encode(v)
	j, err2 := cjson.Encode(v)
	id := ""
	if v.Type() != nil {
		id = v.Type().ID()
	}
	if tv, ok := v.(cadence.TypeValue); ok && tv.StaticType != nil {
		id += "/" + tv.StaticType.ID()
		if rt, ok := tv.StaticType.(*cadence.ReferenceType); ok {
			id += fmt.Sprint(rt.Authorization.Equal(rt.Authorization))
		}
	}
	return fmt.Sprintf("ccf=%s(%v) json=%s(%v) type=%s", digest(string(b)), err != nil, digest(string(j)), err2 != nil, id)
}

func (w *World) runTask(sh *Shared, t Task) string {
	switch t.Stage {
	case "lex":
		return lexTask(w.lexInputs[t.Item])
	case "oldlex":
		return oldLexTask(w.lexInputs[t.Item])
	case "check":
		return w.checkTask(sh, w.programs[t.Item], false)
	case "checkshared":
		return w.checkTask(sh, w.programs[t.Item], true)
	case "exec":
		return w.execTask(sh, w.programs[t.Item], false)
	case "execvm":
		return w.execTask(sh, w.programs[t.Item], true)
	case "ccf":
		return ccfTask(w.values[t.Item])
	}
	panic("unknown stage " + t.Stage)
}

func hasForm(p lib.C36Program, form string) bool {
	for _, f := range p.Forms {
		if f == form {
			return true
		}
	}
	return false
}

func (w *World) allTasks() []Task {
	var ts []Task
	for i := range w.lexInputs {
		ts = append(ts, Task{"lex", i}, Task{"oldlex", i})
	}
	for i := range w.programs {
		ts = append(ts, Task{"check", i}, Task{"exec", i}, Task{"execvm", i})
	}
	for i := range w.values {
		ts = append(ts, Task{"ccf", i})
	}
	return ts
}

func (w *World) describe(t Task) any {
	switch t.Stage {
	case "lex", "oldlex":
		return map[string]any{"stage": t.Stage, "input": w.lexInputs[t.Item]}
	case "ccf":
		return map[string]any{"stage": t.Stage, "value": w.values[t.Item].String()}
	}
	p := w.programs[t.Item]
	return map[string]any{"stage": t.Stage, "program": p.ID, "kind": p.Kind, "forms": p.Forms, "source": p.Src}
}

// vmProbe deterministically exercises the known findings about concurrent VM execution on shared programs:
//  (1) 8 goroutines execute, with the VM and an EMPTY shared program cache, scripts importing the shared
//      contracts: runtime.(*vmEnvironment).loadProgram compiles a cached program lazily
//      (`if program.compiledProgram == nil { program.compiledProgram = compile(...) }`) without synchronisation,
//      so goroutines race on the field and read compiled code published without a happens-before edge;
//  (2) the same with a contract that declares an enum: bbq/compiler.newEnumLookup ->
//      DesugaredElaboration.SetIntegerExpressionType writes into the map sema.Elaboration.integerExpressionTypes
//      of the SHARED checked program while other goroutines read it (Go may abort: concurrent map read/write);
//  (3) 8 goroutines execute a PRE-COMPILED script whose string constant's length has not been taken yet: the
//      constant is one *interpreter.StringValue in the shared compiled program, and StringValue.Length caches its
//      result (and iterates through state) inside the value.
// The process may be killed by the Go runtime in (2); results are written after each part.
func vmProbe(w *World) {
	sum := &lib.Summary{Distribution: map[string]int{}}
	write := func() {
		b, _ := json.MarshalIndent(sum, "", " ")
		_ = os.WriteFile(filepath.Join(*flagDir, "summary_probe.json"), b, 0o644)
	}
	sh := newShared()
	runAll := func(part string, progs []lib.C36Program, rounds int, cold bool, warm func(p lib.C36Program), args ...cadence.Value) {
		want := map[string]string{}
		for _, p := range progs {
			want[p.ID] = w.execTask(sh, p, true, args...)
		}
		for round := 0; round < rounds; round++ {
			if cold {
				sh.reset()
			}
			if warm != nil {
				sh.reset()
				for _, p := range progs {
					warm(p)
				}
			}
			const G = 8
			res := make([]string, G)
			start := make(chan struct{})
			var wg sync.WaitGroup
			for g := 0; g < G; g++ {
				g := g
				wg.Add(1)
				go func() {
					defer wg.Done()
					<-start
					res[g] = w.execTask(sh, progs[g%len(progs)], true, args...)
				}()
			}
			close(start)
			wg.Wait()
			for g := 0; g < G; g++ {
				sum.Evaluations++
				sum.Count("probe " + part)
				if res[g] != want[progs[g%len(progs)].ID] {
					sum.Fail("conc-mismatch:vmprobe:"+part, fmt.Sprintf("%s: concurrent %q, sequential %q", part, res[g], want[progs[g%len(progs)].ID]),
						map[string]any{"program": progs[g%len(progs)].Src, "part": part})
				}
			}
		}
		write()
	}
	// (3) first: it needs a process in which the constant's length is still uncomputed
	strProg := lib.C36Program{ID: "strconst", Kind: "script", Src: `
access(all) fun main(n: Int): Int {
 if n == 0 { return 0 }
 return "h\u{e9}llo w\u{f6}rld, shared constant".length + "another shared constant".slice(from: n, upTo: 9).length
}`}
	runAll("string-constant-length", []lib.C36Program{strProg}, 4, false,
		func(p lib.C36Program) { w.execTask(sh, p, true, cadence.NewInt(0)) }, cadence.NewInt(1))
	// (1)
	var plain []lib.C36Program
	for i := 0; i < 3; i++ {
		plain = append(plain, lib.C36Program{ID: fmt.Sprintf("plain%d", i), Kind: "script", Src: fmt.Sprintf(`
import Base from 0x1
import Lib from 0x1
access(all) fun main(): [String] {
 return [Base.sumRange(1, %d).toString(), Lib.total(Base.shapes()).toString()]
}`, 3+i)})
	}
	runAll("cold-vm-compile", plain, 4, true, nil)
	// (2)
	var enums []lib.C36Program
	for i := 0; i < 3; i++ {
		enums = append(enums, lib.C36Program{ID: fmt.Sprintf("enum%d", i), Kind: "script", HasEnum: true, Src: fmt.Sprintf(`
import Col from 0x1
access(all) fun main(): [String] {
 return [Col.pick(%d).rawValue.toString(), (Col.Color(rawValue: %d)?.rawValue ?? 9).toString()]
}`, i, i)})
	}
	runAll("cold-vm-compile-enum", enums, 16, true, nil)
}

// ---------------------------------------------------------------- main

func main() {
	flag.Parse()
	nProg, nLex, rounds, perG := 36, 45, 5, 5
	if *flagTier == "thorough" {
		nProg, nLex, rounds, perG = 120, 150, 14, 8
	}
	w := buildWorld(*flagSeed, nProg, nLex)
	refPath := filepath.Join(*flagDir, "ref.json")

	if *flagMode == "seq" {
		sh := newShared()
		ref := map[string]string{}
		sum := &lib.Summary{Distribution: map[string]int{}}
		nontrivial := map[string]bool{}
		for _, t := range w.allTasks() {
			obs := w.runTask(sh, t)
			ref[t.Key()] = obs
			sum.Evaluations++
			sum.Count("seq stage " + t.Stage)
			if strings.HasPrefix(obs, "PANIC") {
				sum.Fail("seq-panic:"+t.Stage, "sequential run panicked: "+obs, w.describe(t))
			}
			switch t.Stage {
			case "exec", "execvm":
				cls := "ok"
				if i := strings.Index(obs, "err:"); i == 0 {
					cls = strings.SplitN(obs[4:], " ", 2)[0]
					if j := strings.Index(cls, "["); j > 0 {
						cls = cls[:j]
					}
				}
				sum.Count("seq " + t.Stage + " outcome " + cls)
				nontrivial[obs] = true
			case "check":
				if strings.HasPrefix(obs, "errors=[]") {
					sum.Count("seq check accepted")
				} else {
					sum.Count("seq check rejected")
				}
				nontrivial[obs] = true
			}
		}
		// repeated sequential execution on the warm shared caches: every program twice more, each observable must
		// equal its FIRST sequential run (an execution that mutates shared checked programs shows up here even
		// without any concurrency; two consecutive repeats so that a state that flips per execution cannot hide)
		for rep := 0; rep < 2; rep++ {
			for i := range w.programs {
				for _, st := range []string{"exec", "execvm"} {
					t := Task{st, i}
					obs := w.runTask(sh, t)
					sum.Evaluations++
					sum.Count("seq repeat " + st)
					if obs != ref[t.Key()] {
						sum.Fail("seq-repeat-mismatch:"+st, fmt.Sprintf("task %s: repeated sequential run %d in the same process gave %q; the first sequential run gave %q",
							t.Key(), rep+2, obs, ref[t.Key()]), map[string]any{"task": w.describe(t), "repeat": obs, "first": ref[t.Key()], "seed": *flagSeed})
					}
				}
			}
		}
		for _, p := range w.programs {
			for _, f := range p.Forms {
				sum.Count("form " + strings.SplitN(f, ":", 2)[0])
			}
		}
		// both engines must agree with each other on the sequential run only as far as the property
		// says nothing about it: not compared here (C34's subject).
		b, _ := json.Marshal(ref)
		if err := os.WriteFile(refPath, b, 0o644); err != nil {
			panic(err)
		}
		sum.DistinctNontrivial = len(nontrivial)
		sum.Rule = "distinct observables (value/error class/logs/events, or checker error list + elaboration digest) among check/exec tasks of the sequential run"
		for i := 0; i < 3 && i < len(w.programs); i++ {
			sum.Sample(map[string]any{"program": w.programs[i].Src, "sequential exec": ref[Task{"exec", i}.Key()], "sequential check": ref[Task{"check", i}.Key()]})
		}
		sum.Write(*flagDir)
		return
	}

	if *flagMode == "vmprobe" {
		vmProbe(w)
		return
	}

	// ---- concurrent mode
	b, err := os.ReadFile(refPath)
	if err != nil {
		panic(err)
	}
	ref := map[string]string{}
	if err := json.Unmarshal(b, &ref); err != nil {
		panic(err)
	}
	sum := &lib.Summary{Distribution: map[string]int{}}
	r := lib.NewRng(*flagSeed*1000003 + uint64(*flagRun)*7919 + 17)
	sh := newShared()
	stages := []string{"lex", "oldlex", "check", "checkshared", "exec", "execvm", "ccf"}
	weights := []int{2, 1, 4, 3, 5, 5, 1}
	pickStage := func() string {
		tot := 0
		for _, x := range weights {
			tot += x
		}
		k := r.Intn(tot)
		for i, x := range weights {
			if k < x {
				return stages[i]
			}
			k -= x
		}
		return stages[0]
	}
	distinct := map[string]bool{}
	for round := 0; round < rounds; round++ {
		G := 2 + r.Intn(15)
		gmp := lib.Pick(r, []int{1, 2, 3, 4, 8, 16})
		runtime.GOMAXPROCS(gmp)
		fresh := round == 0 || r.Chance(1, 2)
		if fresh {
			sh.reset()
		}
		// Round type A (even rounds): no VM tasks; parsing, checking and interpreting start from whatever the
		// shared caches hold (empty when fresh).  Round type B (odd rounds): VM tasks allowed; every program run
		// with the VM in this round is first executed once sequentially, so that its lazily compiled code (and
		// that of its imports) is published before the goroutines start: the unsynchronised lazy compilation of
		// cached programs is a known finding exercised by -mode vmprobe and must not mask other defects here.
		vmRound := round%2 == 1
		// a "hot set" of few items per round makes goroutines collide on the same programs
		hot := make([]int, 3+r.Intn(4))
		for i := range hot {
			hot[i] = r.Intn(1 << 20)
		}
		lists := make([][]Task, G)
		for g := range lists {
			for k := 0; k < perG; k++ {
				st := pickStage()
				n := len(w.programs)
				switch st {
				case "lex", "oldlex":
					n = len(w.lexInputs)
				case "ccf":
					n = len(w.values)
				}
				item := r.Intn(n)
				if r.Chance(2, 3) {
					item = hot[r.Intn(len(hot))] % n
				}
				if st == "execvm" && !vmRound {
					st = "exec"
				}
				if st == "execvm" && hasForm(w.programs[item], "string") {
					// grapheme operations (`.slice`, first `.length`) on a string LITERAL mutate iteration state kept
					// inside the constant shared by all VMs running the compiled program (known finding, vmprobe)
					st = "exec"
				}
				if st == "execvm" && w.programs[item].HasEnum {
					// VM compilation of a program that declares an enum writes into the shared elaboration
					// (known finding, exercised by -mode enumprobe): keep it out of the main workload so that
					// one defect cannot mask others (the Go runtime may abort the process on it)
					st = "exec"
				}
				lists[g] = append(lists[g], Task{st, item})
			}
		}
		if vmRound {
			warmed := map[int]bool{}
			for g := range lists {
				for _, t := range lists[g] {
					if t.Stage == "execvm" && !warmed[t.Item] {
						warmed[t.Item] = true
						w.runTask(sh, t)
						sum.Count("sequential VM warm-ups")
					}
				}
			}
		}
		spins := make([]int, G)
		order := make([]int, G)
		for g := range order {
			order[g] = g
			spins[g] = r.Intn(50)
		}
		for i := G - 1; i > 0; i-- {
			j := r.Intn(i + 1)
			order[i], order[j] = order[j], order[i]
		}
		results := make([][]string, G)
		start := make(chan struct{})
		var wg sync.WaitGroup
		for _, g := range order {
			g := g
			wg.Add(1)
			go func() {
				defer wg.Done()
				<-start
				for i := 0; i < spins[g]; i++ {
					runtime.Gosched()
				}
				for _, t := range lists[g] {
					results[g] = append(results[g], w.runTask(sh, t))
				}
			}()
		}
		close(start)
		wg.Wait()
		sum.Count(fmt.Sprintf("rounds with GOMAXPROCS=%d", gmp))
		sum.Count(fmt.Sprintf("rounds with %d-%d goroutines", (G/4)*4, (G/4)*4+3))
		if fresh {
			sum.Count("rounds starting with empty shared caches")
		}
		if vmRound {
			sum.Count("rounds with VM tasks (pre-compiled)")
		}
		for g := range lists {
			for k, t := range lists[g] {
				sum.Evaluations++
				sum.Count("conc stage " + t.Stage)
				got, want := results[g][k], ref[t.Key()]
				distinct[t.Key()] = true
				if got != want {
					what := fmt.Sprintf("task %s run by goroutine %d of %d (GOMAXPROCS=%d, round %d, fresh caches=%v) gave %q; its sequential run gave %q",
						t.Key(), g, G, gmp, round, fresh, got, want)
					key := "conc-mismatch:" + t.Stage
					if strings.HasPrefix(got, "PANIC") {
						key = "conc-panic:" + t.Stage
					}
					sum.Fail(key, what, map[string]any{"task": w.describe(t), "concurrent": got, "sequential": want,
						"goroutines": G, "gomaxprocs": gmp, "round": round, "run": *flagRun, "seed": *flagSeed})
				}
			}
		}
	}
	sum.DistinctNontrivial = len(distinct)
	sum.Rule = "distinct (stage, item) tasks executed concurrently and compared with the sequential run"
	b2, _ := json.MarshalIndent(sum, "", " ")
	if err := os.WriteFile(filepath.Join(*flagDir, fmt.Sprintf("summary_conc_%d.json", *flagRun)), b2, 0o644); err != nil {
		panic(err)
	}
}
