// C31: metering is deterministic and independent of execution history.
//
// Every generated program (scripts and transactions importing generated contracts; integer-heavy: InclusiveRange of
// every integer type = the only user of the interpreter's small-integer cache, big integers, conversions; member
// access on many types; entitlement mappings; strings; containers) is run, per engine,
//   (a) ALONE in a FRESH OS process (this binary re-executed with -child), and
//   (b) in the shared parent process after everything that ran before plus a random prefix of other programs,
//   (c) once more right after (b),
// each time on a freshly built chain state (same contracts deployed, empty embedder program cache) with recording
// memory and computation gauges.  The recorded sequences of (gauge, kind, amount) must be identical.
package main

import (
	"crypto/sha256"
	"encoding/hex"
	"encoding/json"
	"flag"
	"fmt"
	"os"
	"os/exec"
	"path/filepath"
	"strings"
	"sync"

	"cvh/lib"

	"github.com/onflow/cadence/common"
)

var (
	flagProp   = flag.String("prop", "C31", "")
	flagSeed   = flag.Uint64("seed", 1, "")
	flagTier   = flag.String("tier", "quick", "")
	flagDir    = flag.String("dir", ".", "")
	flagChild  = flag.Int("child", -1, "run program <n> alone in this fresh process and print its trace")
	flagEngine = flag.String("engine", "int", "int | vm (child mode)")
	flagCorpus = flag.String("corpus", "", "unused")
)

var addr1 = common.MustBytesToAddress([]byte{1})

// Ev is one gauge call: G = 'M' (MeterMemory) or 'C' (MeterComputation).
type Ev struct {
	G string `json:"g"`
	K uint   `json:"k"`
	A uint64 `json:"a"`
}

type recorder struct{ evs []Ev }

type memGauge struct{ r *recorder }
type compGauge struct{ r *recorder }

func (g memGauge) MeterMemory(u common.MemoryUsage) error {
	g.r.evs = append(g.r.evs, Ev{"M", uint(u.Kind), u.Amount})
	return nil
}

func (g compGauge) MeterComputation(u common.ComputationUsage) error {
	g.r.evs = append(g.r.evs, Ev{"C", uint(u.Kind), u.Intensity})
	return nil
}

type World struct {
	contracts [][2]string
	programs  []lib.C36Program
}

func buildWorld(seed uint64, n int) *World {
	r := lib.NewRng(seed)
	w := &World{}
	w.contracts = [][2]string{{"Base", lib.C36BaseContract(r)}, {"Lib", lib.C36LibContract(r)}, {"Col", lib.C36ColContract(r)}}
	for i := 0; i < n; i++ {
		w.programs = append(w.programs, lib.C36GenProgram(r, i, true))
	}
	return w
}

// newState builds the chain state every measured run starts from: the contracts deployed (unmetered),
// nothing cached by the embedder.
func (w *World) newState() *lib.Host {
	h := lib.NewHost()
	for _, c := range w.contracts {
		o := h.Deploy(addr1, c[0], c[1], false)
		if o.Err != nil || o.Panic != nil {
			fmt.Fprintf(os.Stderr, "deploying %s failed: %v %v\n%s\n", c[0], o.Err, o.Panic, c[1])
			os.Exit(3)
		}
	}
	h.Iface.Programs = nil
	h.Logs, h.Events = nil, nil
	return h
}

type Trace struct {
	Events  []Ev   `json:"events"`
	Outcome string `json:"outcome"`
}

// measure runs program p on a fresh state with recording gauges (record=false: without gauges, as history only).
func (w *World) measure(p lib.C36Program, vm bool, record bool) Trace {
	h := w.newState()
	rec := &recorder{}
	if record {
		h.MemGauge = memGauge{rec}
		h.CompGauge = compGauge{rec}
	}
	var o lib.Outcome
	if p.Kind == "tx" {
		o = h.RunTx(p.Src, nil, []common.Address{addr1}, vm)
	} else {
		o = h.RunScript(p.Src, nil, vm)
	}
	out := "ok"
	if o.Panic != nil {
		out = fmt.Sprintf("PANIC %v", o.Panic)
	} else if o.Err != nil {
		out = "err:" + o.Class
	} else if o.Value != nil {
		out = "ok:" + o.Value.String()
	}
	return Trace{Events: rec.evs, Outcome: out + " logs=" + strings.Join(o.Logs, "|")}
}

func digest(t Trace) string {
	b, _ := json.Marshal(t)
	h := sha256.Sum256(b)
	return hex.EncodeToString(h[:8])
}

func kindName(e Ev) string {
	if e.G == "M" {
		return "memory:" + common.MemoryKind(e.K).String()
	}
	return "computation:" + common.ComputationKind(e.K).String()
}

// diff describes the first difference of two traces ("" if equal).
func diff(a, b Trace) (string, string) {
	n := len(a.Events)
	if len(b.Events) < n {
		n = len(b.Events)
	}
	for i := 0; i < n; i++ {
		if a.Events[i] != b.Events[i] {
			return fmt.Sprintf("event %d: %s amount %d  vs  %s amount %d (lengths %d / %d)", i,
				kindName(a.Events[i]), a.Events[i].A, kindName(b.Events[i]), b.Events[i].A, len(a.Events), len(b.Events)), kindName(a.Events[i])
		}
	}
	if len(a.Events) != len(b.Events) {
		var extra Ev
		if len(a.Events) > n {
			extra = a.Events[n]
		} else {
			extra = b.Events[n]
		}
		return fmt.Sprintf("lengths differ: %d vs %d; first extra event %s amount %d", len(a.Events), len(b.Events), kindName(extra), extra.A), kindName(extra)
	}
	if a.Outcome != b.Outcome {
		return fmt.Sprintf("same usages but outcome %q vs %q", a.Outcome, b.Outcome), "outcome"
	}
	return "", ""
}

func main() {
	flag.Parse()
	nProg := 22
	if *flagTier == "thorough" {
		nProg = 140
	}
	w := buildWorld(*flagSeed, nProg)

	if *flagChild >= 0 {
		t := w.measure(w.programs[*flagChild], *flagEngine == "vm", true)
		b, _ := json.Marshal(t)
		os.Stdout.Write(b)
		return
	}

	sum := &lib.Summary{Distribution: map[string]int{}}
	self, err := os.Executable()
	if err != nil {
		panic(err)
	}
	// ---- (a) alone, in fresh processes (4 at a time)
	type job struct {
		i  int
		vm bool
	}
	alone := map[job]Trace{}
	aloneErr := map[job]string{}
	var mu sync.Mutex
	jobs := make(chan job)
	var wg sync.WaitGroup
	for k := 0; k < 4; k++ {
		wg.Add(1)
		go func() {
			defer wg.Done()
			for j := range jobs {
				eng := "int"
				if j.vm {
					eng = "vm"
				}
				cmd := exec.Command(self, "-seed", fmt.Sprint(*flagSeed), "-tier", *flagTier, "-child", fmt.Sprint(j.i), "-engine", eng)
				cmd.Stderr = nil
				out, err := cmd.Output()
				var t Trace
				mu.Lock()
				if err != nil {
					aloneErr[j] = fmt.Sprintf("child process failed: %v", err)
				} else if e := json.Unmarshal(out, &t); e != nil {
					aloneErr[j] = fmt.Sprintf("child output unreadable: %v", e)
				} else {
					alone[j] = t
				}
				mu.Unlock()
			}
		}()
	}
	for i := range w.programs {
		jobs <- job{i, false}
		jobs <- job{i, true}
	}
	close(jobs)
	wg.Wait()

	// ---- (b), (c) in this process, after growing history
	r := lib.NewRng(*flagSeed*7919 + 5)
	order := make([]int, len(w.programs))
	for i := range order {
		order[i] = i
	}
	for i := len(order) - 1; i > 0; i-- {
		j := r.Intn(i + 1)
		order[i], order[j] = order[j], order[i]
	}
	distinct := map[string]bool{}
	history := 0
	for _, i := range order {
		p := w.programs[i]
		for _, vm := range []bool{false, true} {
			eng := "interpreter"
			if vm {
				eng = "vm"
			}
			// random prefix of other programs (any engine, with or without gauges)
			var prefix []string
			for k := r.Intn(4); k > 0; k-- {
				q := w.programs[r.Intn(len(w.programs))]
				qvm := r.Bool()
				w.measure(q, qvm, r.Bool())
				history++
				prefix = append(prefix, fmt.Sprintf("%s/%v", q.ID, qvm))
			}
			b := w.measure(p, vm, true)
			c := w.measure(p, vm, true)
			history += 2
			sum.Evaluations += 2
			sum.Count("engine " + eng)
			sum.Count(fmt.Sprintf("trace length < %d", bucket(len(b.Events))))
			cls := strings.SplitN(b.Outcome, " ", 2)[0]
			if strings.HasPrefix(cls, "ok") {
				cls = "ok"
			}
			sum.Count("outcome " + cls)
			distinct[digest(b)] = true
			replay := func(x, y Trace, what string) map[string]any {
				return map[string]any{"program": p.Src, "kind": p.Kind, "forms": p.Forms, "engine": eng, "comparison": what,
					"prefix": prefix, "runs_before_in_process": history, "seed": *flagSeed,
					"first_events_a": head(x.Events), "first_events_b": head(y.Events)}
			}
			j := job{i, vm}
			if msg, ok := aloneErr[j]; ok {
				sum.Fail("child-failed", msg, map[string]any{"program": p.Src, "engine": eng})
			} else {
				a := alone[j]
				if d, k := diff(a, b); d != "" {
					sum.Fail("history-dependent:"+eng+":"+k, fmt.Sprintf("program %s (%s): alone in a fresh process vs after %d earlier runs in a shared process: %s",
						p.ID, eng, history, d), replay(a, b, "fresh process vs shared process"))
				}
			}
			if d, k := diff(b, c); d != "" {
				sum.Fail("not-repeatable:"+eng+":"+k, fmt.Sprintf("program %s (%s): two consecutive runs in the same process differ: %s", p.ID, eng, d),
					replay(b, c, "consecutive runs"))
			}
			if len(sum.Samples) < 3 {
				sum.Sample(map[string]any{"program": p.Src, "engine": eng, "events": len(b.Events), "outcome": b.Outcome, "first events": head(b.Events)})
			}
		}
	}
	for _, p := range w.programs {
		for _, f := range p.Forms {
			sum.Count("form " + strings.SplitN(f, ":", 3)[0] + ":" + second(f))
		}
	}
	sum.Distribution["fresh child processes"] = len(alone)
	sum.Distribution["runs in the shared process"] = history
	sum.DistinctNontrivial = len(distinct)
	sum.Rule = "distinct (usage sequence, outcome) pairs among the measured runs; every one has a non-empty usage sequence"
	sum.Write(*flagDir)
	_ = filepath.Join
}

func second(f string) string {
	parts := strings.Split(f, ":")
	if parts[0] == "num" && len(parts) > 1 {
		return parts[1]
	}
	return ""
}

func bucket(n int) int {
	b := 100
	for b < n {
		b *= 4
	}
	return b
}

func head(evs []Ev) []string {
	var out []string
	for i, e := range evs {
		if i >= 12 {
			break
		}
		out = append(out, fmt.Sprintf("%s=%d", kindName(e), e.A))
	}
	return out
}
