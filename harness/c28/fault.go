package main

import (
	"fmt"
	goruntime "runtime"
	"time"

	"github.com/onflow/atree"
	"go.opentelemetry.io/otel/attribute"

	"github.com/onflow/cadence"
	"github.com/onflow/cadence/ast"
	"github.com/onflow/cadence/common"
	"github.com/onflow/cadence/interpreter"
	"github.com/onflow/cadence/runtime"
	"github.com/onflow/cadence/sema"
)

// Fault modes.
const (
	ModeErr      = 0 // the callback returns an error
	ModePanicErr = 1 // the callback panics with an error value
	ModePanicVal = 2 // the callback panics with a non-error value
)

var modeNames = []string{"err", "panic-err", "panic-val"}

// injected is the sentinel carried by an injected failure; identity is the pointer.
type injected struct {
	ID    int
	Kind  string
	Index int
	Mode  int
}

func (e *injected) Error() string {
	return fmt.Sprintf("INJECTED#%d(%s,%d,%s)", e.ID, e.Kind, e.Index, modeNames[e.Mode])
}

// injectedVal is the non-error panic payload (ModePanicVal).
type injectedVal struct{ S *injected }

type fault struct {
	Kind  string `json:"kind"`
	Index int    `json:"index"` // per-kind call index (0-based) within the run
	Mode  int    `json:"mode"`
}

type event struct {
	Kind  string
	Index int
	Fired *injected // non-nil when a fault was injected at this call
	Stack []string  // function names of the Go call stack (only when stacks are recorded)
}

// faultIface forwards every runtime.Interface (and runtime.Metrics) call to `inner`,
// counting calls per kind, recording the global call trace and injecting the planned faults.
type faultIface struct {
	inner   runtime.Interface
	counts  map[string]int
	trace   []event
	plan    []fault
	stacks  bool // record the Go call stack of every host call
	down    bool // after the first fired fault every later fallible call fails too ("host is down")
	downMod int
	fired   []*injected
	nextID  int
}

func newFaultIface(inner runtime.Interface, plan []fault) *faultIface {
	return &faultIface{inner: inner, counts: map[string]int{}, plan: plan}
}

// hit registers one call of `kind`. It returns the error to return (ModeErr) or panics
// (panic modes). hasErr=false: the callback has no error result, ModeErr faults degrade to no fault
// (the enumeration never plans them).
func (f *faultIface) hit(kind string, hasErr bool) error {
	idx := f.counts[kind]
	f.counts[kind] = idx + 1
	ev := event{Kind: kind, Index: idx}
	if f.stacks {
		pcs := make([]uintptr, 400)
		n := goruntime.Callers(2, pcs)
		frames := goruntime.CallersFrames(pcs[:n])
		for {
			fr, more := frames.Next()
			ev.Stack = append(ev.Stack, fr.Function)
			if !more {
				break
			}
		}
	}
	mode := -1
	for _, p := range f.plan {
		if p.Kind == kind && p.Index == idx {
			mode = p.Mode
		}
	}
	if mode < 0 && f.down && len(f.fired) > 0 {
		mode = f.downMod
	}
	if mode == ModeErr && !hasErr {
		mode = -1
	}
	if mode < 0 {
		f.trace = append(f.trace, ev)
		return nil
	}
	f.nextID++
	s := &injected{ID: f.nextID, Kind: kind, Index: idx, Mode: mode}
	ev.Fired = s
	f.fired = append(f.fired, s)
	f.trace = append(f.trace, ev)
	switch mode {
	case ModeErr:
		return s
	case ModePanicErr:
		panic(s)
	default:
		panic(injectedVal{s})
	}
}

var _ runtime.Interface = &faultIface{}
var _ runtime.Metrics = &faultIface{}

// callbackKinds lists every callback with whether it has an error result.
var callbackKinds = []struct {
	Name   string
	HasErr bool
}{
	{"ResolveLocation", true}, {"GetCode", true}, {"GetOrLoadProgram", true},
	{"GetValue", true}, {"SetValue", true}, {"ValueExists", true}, {"AllocateSlabIndex", true},
	{"CreateAccount", true}, {"AddAccountKey", true}, {"GetAccountKey", true}, {"AccountKeysCount", true},
	{"RevokeAccountKey", true}, {"UpdateAccountContractCode", true}, {"GetAccountContractCode", true},
	{"RemoveAccountContractCode", true}, {"GetSigningAccounts", true}, {"ProgramLog", true},
	{"EmitEvent", true}, {"GenerateUUID", true}, {"DecodeArgument", true}, {"GetCurrentBlockHeight", true},
	{"GetBlockAtHeight", true}, {"ReadRandom", true}, {"VerifySignature", true}, {"Hash", true},
	{"GetAccountBalance", true}, {"GetAccountAvailableBalance", true}, {"GetStorageUsed", true},
	{"GetStorageCapacity", true}, {"ImplementationDebugLog", true}, {"ValidatePublicKey", true},
	{"GetAccountContractNames", true}, {"RecordTrace", false}, {"BLSVerifyPOP", true},
	{"BLSAggregateSignatures", true}, {"BLSAggregatePublicKeys", true}, {"ResourceOwnerChanged", false},
	{"GenerateAccountID", true}, {"RecoverProgram", true}, {"ValidateAccountCapabilitiesGet", true},
	{"ValidateAccountCapabilitiesPublish", true}, {"MinimumRequiredVersion", true},
	{"ProgramParsed", false}, {"ProgramChecked", false}, {"ProgramInterpreted", false},
}

func kindHasErr(kind string) bool {
	for _, k := range callbackKinds {
		if k.Name == kind {
			return k.HasErr
		}
	}
	panic("unknown callback kind " + kind)
}

func (f *faultIface) ResolveLocation(identifiers []runtime.Identifier, location runtime.Location) ([]runtime.ResolvedLocation, error) {
	if err := f.hit("ResolveLocation", true); err != nil {
		return nil, err
	}
	return f.inner.ResolveLocation(identifiers, location)
}

func (f *faultIface) GetCode(location runtime.Location) ([]byte, error) {
	if err := f.hit("GetCode", true); err != nil {
		return nil, err
	}
	return f.inner.GetCode(location)
}

func (f *faultIface) GetOrLoadProgram(location runtime.Location, load func() (*runtime.Program, error)) (*runtime.Program, error) {
	if err := f.hit("GetOrLoadProgram", true); err != nil {
		return nil, err
	}
	return f.inner.GetOrLoadProgram(location, load)
}

func (f *faultIface) GetValue(owner, key []byte) ([]byte, error) {
	if err := f.hit("GetValue", true); err != nil {
		return nil, err
	}
	return f.inner.GetValue(owner, key)
}

func (f *faultIface) SetValue(owner, key, value []byte) error {
	if err := f.hit("SetValue", true); err != nil {
		return err
	}
	return f.inner.SetValue(owner, key, value)
}

func (f *faultIface) ValueExists(owner, key []byte) (bool, error) {
	if err := f.hit("ValueExists", true); err != nil {
		return false, err
	}
	return f.inner.ValueExists(owner, key)
}

func (f *faultIface) AllocateSlabIndex(owner []byte) (atree.SlabIndex, error) {
	if err := f.hit("AllocateSlabIndex", true); err != nil {
		return atree.SlabIndex{}, err
	}
	return f.inner.AllocateSlabIndex(owner)
}

func (f *faultIface) CreateAccount(payer runtime.Address, context interpreter.InvocationContext) (runtime.Address, error) {
	if err := f.hit("CreateAccount", true); err != nil {
		return runtime.Address{}, err
	}
	return f.inner.CreateAccount(payer, context)
}

func (f *faultIface) AddAccountKey(address runtime.Address, publicKey *runtime.PublicKey, hashAlgo runtime.HashAlgorithm, weight int) (*runtime.AccountKey, error) {
	if err := f.hit("AddAccountKey", true); err != nil {
		return nil, err
	}
	return f.inner.AddAccountKey(address, publicKey, hashAlgo, weight)
}

func (f *faultIface) GetAccountKey(address runtime.Address, index uint32) (*runtime.AccountKey, error) {
	if err := f.hit("GetAccountKey", true); err != nil {
		return nil, err
	}
	return f.inner.GetAccountKey(address, index)
}

func (f *faultIface) AccountKeysCount(address runtime.Address) (uint32, error) {
	if err := f.hit("AccountKeysCount", true); err != nil {
		return 0, err
	}
	return f.inner.AccountKeysCount(address)
}

func (f *faultIface) RevokeAccountKey(address runtime.Address, index uint32) (*runtime.AccountKey, error) {
	if err := f.hit("RevokeAccountKey", true); err != nil {
		return nil, err
	}
	return f.inner.RevokeAccountKey(address, index)
}

func (f *faultIface) UpdateAccountContractCode(location common.AddressLocation, code []byte) error {
	if err := f.hit("UpdateAccountContractCode", true); err != nil {
		return err
	}
	return f.inner.UpdateAccountContractCode(location, code)
}

func (f *faultIface) GetAccountContractCode(location common.AddressLocation) ([]byte, error) {
	if err := f.hit("GetAccountContractCode", true); err != nil {
		return nil, err
	}
	return f.inner.GetAccountContractCode(location)
}

func (f *faultIface) RemoveAccountContractCode(location common.AddressLocation) error {
	if err := f.hit("RemoveAccountContractCode", true); err != nil {
		return err
	}
	return f.inner.RemoveAccountContractCode(location)
}

func (f *faultIface) GetSigningAccounts() ([]runtime.Address, error) {
	if err := f.hit("GetSigningAccounts", true); err != nil {
		return nil, err
	}
	return f.inner.GetSigningAccounts()
}

func (f *faultIface) ProgramLog(s string) error {
	if err := f.hit("ProgramLog", true); err != nil {
		return err
	}
	return f.inner.ProgramLog(s)
}

func (f *faultIface) EmitEvent(e cadence.Event) error {
	if err := f.hit("EmitEvent", true); err != nil {
		return err
	}
	return f.inner.EmitEvent(e)
}

func (f *faultIface) GenerateUUID() (uint64, error) {
	if err := f.hit("GenerateUUID", true); err != nil {
		return 0, err
	}
	return f.inner.GenerateUUID()
}

func (f *faultIface) DecodeArgument(argument []byte, argumentType cadence.Type) (cadence.Value, error) {
	if err := f.hit("DecodeArgument", true); err != nil {
		return nil, err
	}
	return f.inner.DecodeArgument(argument, argumentType)
}

func (f *faultIface) GetCurrentBlockHeight() (uint64, error) {
	if err := f.hit("GetCurrentBlockHeight", true); err != nil {
		return 0, err
	}
	return f.inner.GetCurrentBlockHeight()
}

func (f *faultIface) GetBlockAtHeight(height uint64) (runtime.Block, bool, error) {
	if err := f.hit("GetBlockAtHeight", true); err != nil {
		return runtime.Block{}, false, err
	}
	return f.inner.GetBlockAtHeight(height)
}

func (f *faultIface) ReadRandom(b []byte) error {
	if err := f.hit("ReadRandom", true); err != nil {
		return err
	}
	return f.inner.ReadRandom(b)
}

func (f *faultIface) VerifySignature(signature []byte, tag string, signedData []byte, publicKey []byte, signatureAlgorithm runtime.SignatureAlgorithm, hashAlgorithm runtime.HashAlgorithm) (bool, error) {
	if err := f.hit("VerifySignature", true); err != nil {
		return false, err
	}
	return f.inner.VerifySignature(signature, tag, signedData, publicKey, signatureAlgorithm, hashAlgorithm)
}

func (f *faultIface) Hash(data []byte, tag string, hashAlgorithm runtime.HashAlgorithm) ([]byte, error) {
	if err := f.hit("Hash", true); err != nil {
		return nil, err
	}
	return f.inner.Hash(data, tag, hashAlgorithm)
}

func (f *faultIface) GetAccountBalance(address common.Address) (uint64, error) {
	if err := f.hit("GetAccountBalance", true); err != nil {
		return 0, err
	}
	return f.inner.GetAccountBalance(address)
}

func (f *faultIface) GetAccountAvailableBalance(address common.Address) (uint64, error) {
	if err := f.hit("GetAccountAvailableBalance", true); err != nil {
		return 0, err
	}
	return f.inner.GetAccountAvailableBalance(address)
}

func (f *faultIface) GetStorageUsed(address runtime.Address) (uint64, error) {
	if err := f.hit("GetStorageUsed", true); err != nil {
		return 0, err
	}
	return f.inner.GetStorageUsed(address)
}

func (f *faultIface) GetStorageCapacity(address runtime.Address) (uint64, error) {
	if err := f.hit("GetStorageCapacity", true); err != nil {
		return 0, err
	}
	return f.inner.GetStorageCapacity(address)
}

func (f *faultIface) ImplementationDebugLog(message string) error {
	if err := f.hit("ImplementationDebugLog", true); err != nil {
		return err
	}
	return f.inner.ImplementationDebugLog(message)
}

func (f *faultIface) ValidatePublicKey(key *runtime.PublicKey) error {
	if err := f.hit("ValidatePublicKey", true); err != nil {
		return err
	}
	return f.inner.ValidatePublicKey(key)
}

func (f *faultIface) GetAccountContractNames(address runtime.Address) ([]string, error) {
	if err := f.hit("GetAccountContractNames", true); err != nil {
		return nil, err
	}
	return f.inner.GetAccountContractNames(address)
}

func (f *faultIface) RecordTrace(operation string, duration time.Duration, attrs []attribute.KeyValue) {
	_ = f.hit("RecordTrace", false)
	f.inner.RecordTrace(operation, duration, attrs)
}

func (f *faultIface) BLSVerifyPOP(publicKey *runtime.PublicKey, signature []byte) (bool, error) {
	if err := f.hit("BLSVerifyPOP", true); err != nil {
		return false, err
	}
	return f.inner.BLSVerifyPOP(publicKey, signature)
}

func (f *faultIface) BLSAggregateSignatures(signatures [][]byte) ([]byte, error) {
	if err := f.hit("BLSAggregateSignatures", true); err != nil {
		return nil, err
	}
	return f.inner.BLSAggregateSignatures(signatures)
}

func (f *faultIface) BLSAggregatePublicKeys(publicKeys []*runtime.PublicKey) (*runtime.PublicKey, error) {
	if err := f.hit("BLSAggregatePublicKeys", true); err != nil {
		return nil, err
	}
	return f.inner.BLSAggregatePublicKeys(publicKeys)
}

func (f *faultIface) ResourceOwnerChanged(inter *interpreter.Interpreter, resource *interpreter.CompositeValue, oldOwner common.Address, newOwner common.Address) {
	_ = f.hit("ResourceOwnerChanged", false)
	f.inner.ResourceOwnerChanged(inter, resource, oldOwner, newOwner)
}

func (f *faultIface) GenerateAccountID(address common.Address) (uint64, error) {
	if err := f.hit("GenerateAccountID", true); err != nil {
		return 0, err
	}
	return f.inner.GenerateAccountID(address)
}

func (f *faultIface) RecoverProgram(program *ast.Program, location common.Location) ([]byte, error) {
	if err := f.hit("RecoverProgram", true); err != nil {
		return nil, err
	}
	return f.inner.RecoverProgram(program, location)
}

func (f *faultIface) ValidateAccountCapabilitiesGet(context interpreter.AccountCapabilityGetValidationContext, address interpreter.AddressValue, path interpreter.PathValue, wantedBorrowType *sema.ReferenceType, capabilityBorrowType *sema.ReferenceType) (bool, error) {
	if err := f.hit("ValidateAccountCapabilitiesGet", true); err != nil {
		return false, err
	}
	return f.inner.ValidateAccountCapabilitiesGet(context, address, path, wantedBorrowType, capabilityBorrowType)
}

func (f *faultIface) ValidateAccountCapabilitiesPublish(context interpreter.AccountCapabilityPublishValidationContext, address interpreter.AddressValue, path interpreter.PathValue, capabilityBorrowType *interpreter.ReferenceStaticType) (bool, error) {
	if err := f.hit("ValidateAccountCapabilitiesPublish", true); err != nil {
		return false, err
	}
	return f.inner.ValidateAccountCapabilitiesPublish(context, address, path, capabilityBorrowType)
}

func (f *faultIface) MinimumRequiredVersion() (string, error) {
	if err := f.hit("MinimumRequiredVersion", true); err != nil {
		return "", err
	}
	return f.inner.MinimumRequiredVersion()
}

func (f *faultIface) ProgramParsed(location runtime.Location, duration time.Duration) {
	_ = f.hit("ProgramParsed", false)
	if m, ok := f.inner.(runtime.Metrics); ok {
		m.ProgramParsed(location, duration)
	}
}

func (f *faultIface) ProgramChecked(location runtime.Location, duration time.Duration) {
	_ = f.hit("ProgramChecked", false)
	if m, ok := f.inner.(runtime.Metrics); ok {
		m.ProgramChecked(location, duration)
	}
}

func (f *faultIface) ProgramInterpreted(location runtime.Location, duration time.Duration) {
	_ = f.hit("ProgramInterpreted", false)
	if m, ok := f.inner.(runtime.Metrics); ok {
		m.ProgramInterpreted(location, duration)
	}
}
