package main

import (
	"bytes"
	"fmt"
	"sort"

	"cvh/lib"

	"github.com/onflow/cadence"
	"github.com/onflow/cadence/ast"
	"github.com/onflow/cadence/common"
	"github.com/onflow/cadence/encoding/json"
	"github.com/onflow/cadence/interpreter"
	"github.com/onflow/cadence/runtime"
	"github.com/onflow/cadence/stdlib"
	ru "github.com/onflow/cadence/test_utils/runtime_utils"
)

// world is a snapshot of a chain state from which identical fresh hosts are created for every
// (scenario, fault plan) run.
type world struct {
	stored  map[string][]byte
	indices map[string]uint64
	codes   map[common.AddressLocation][]byte
	uuid    uint64
}

const contractC = `
access(all) contract C {
    access(all) event E(x: Int)
    access(all) resource R {
        access(all) event ResourceDestroyed(v: Int = self.v)
        access(all) var v: Int
        init(v: Int) { self.v = v }
    }
    access(all) struct S {
        access(all) let a: Int
        init(a: Int) { self.a = a }
    }
    access(all) var counter: Int
    access(all) fun makeR(v: Int): @R { return <- create R(v: v) }
    access(all) fun bump(): Int {
        self.counter = self.counter + 1
        emit E(x: self.counter)
        return self.counter
    }
    init() { self.counter = 0 }
}
`

const contractD = `
import C from 0x1
access(all) contract D {
    access(all) struct T {
        access(all) let s: C.S
        init() { self.s = C.S(a: 1) }
    }
    access(all) fun twice(): Int { C.bump(); return C.bump() }
    init() {}
}
`

// contractD2 is a valid update of D (adds a function).
const contractD2 = `
import C from 0x1
access(all) contract D {
    access(all) struct T {
        access(all) let s: C.S
        init() { self.s = C.S(a: 1) }
    }
    access(all) fun twice(): Int { C.bump(); return C.bump() }
    access(all) fun thrice(): Int { C.bump(); C.bump(); return C.bump() }
    init() {}
}
`

const contractN = `
access(all) contract N {
    access(all) var x: Int
    access(all) event Made(x: Int)
    init() { self.x = 5; emit Made(x: 5) }
}
`

// old-syntax program that only the recovery path can make sense of
const brokenB = `pub contract B { pub fun f(): Int { return 1 } }`
const recoveredB = `access(all) contract B { access(all) fun f(): Int { return 1 } }`

const setupTx = `
import C from 0x1
import D from 0x1
transaction {
    prepare(signer: auth(Storage, Capabilities) &Account) {
        signer.storage.save(42, to: /storage/i)
        signer.storage.save(<- C.makeR(v: 7), to: /storage/r)
        var arr: [Int] = []
        var k = 0
        while k < 400 { arr.append(k * 1000003); k = k + 1 }
        signer.storage.save(arr, to: /storage/arr)
        signer.storage.save(D.T(), to: /storage/t)
        signer.storage.save(C.S(a: 3), to: /storage/s)
        let cap = signer.capabilities.storage.issue<&Int>(/storage/i)
        signer.capabilities.publish(cap, at: /public/i)
        signer.storage.save(cap, to: /storage/cap)
    }
}
`

// second account: large (multi-slab) stored containers and many paths, read back lazily by later executions
const setupBulkTx = `
import C from 0x1
transaction {
    prepare(signer: auth(Storage, Capabilities) &Account) {
        var d: {Int: String} = {}
        var a: [String] = []
        var k = 0
        while k < 400 {
            d[k] = "value-".concat(k.toString()).concat("-0123456789abcdef")
            k = k + 1
        }
        k = 0
        while k < 300 {
            a.append("element-".concat(k.toString()).concat("-0123456789abcdef0123456789"))
            k = k + 1
        }
        signer.storage.save(d, to: /storage/bigDict)
        signer.storage.save(a, to: /storage/bigArr)
        var n: {String: [Int]} = {}
        k = 0
        while k < 60 {
            n["k".concat(k.toString())] = [k, k + 1, k + 2, k + 3, k + 4, k + 5, k + 6, k + 7, k + 8, k + 9]
            k = k + 1
        }
        signer.storage.save(n, to: /storage/nested)
        var rs: @{Int: C.R} <- {}
        k = 0
        while k < 40 {
            rs[k] <-! C.makeR(v: k)
            k = k + 1
        }
        signer.storage.save(<-rs, to: /storage/resDict)
        k = 0
        while k < 60 {
            signer.storage.save(k, to: StoragePath(identifier: "p".concat(k.toString()))!)
            k = k + 1
        }
        k = 0
        while k < 30 {
            let cap = signer.capabilities.storage.issue<&Int>(StoragePath(identifier: "p".concat(k.toString()))!)
            signer.capabilities.publish(cap, at: PublicPath(identifier: "q".concat(k.toString()))!)
            k = k + 1
        }
    }
}
`

var addr4 = common.MustBytesToAddress([]byte{4})
var addr1 = common.MustBytesToAddress([]byte{1})
var addr2 = common.MustBytesToAddress([]byte{2})
var addr3 = common.MustBytesToAddress([]byte{3})

func buildWorld() (*world, error) {
	h := newHost(nil)
	for _, c := range []struct{ name, code string }{{"C", contractC}, {"D", contractD}} {
		o := h.Deploy(addr1, c.name, c.code, false)
		if o.Err != nil || o.Panic != nil {
			return nil, fmt.Errorf("deploy %s: %v %v", c.name, o.Err, o.Panic)
		}
	}
	o := h.RunTx(setupTx, nil, []common.Address{addr1}, false)
	if o.Err != nil || o.Panic != nil {
		return nil, fmt.Errorf("setup: %v %v", o.Err, o.Panic)
	}
	o = h.RunTx(setupBulkTx, nil, []common.Address{addr4}, false)
	if o.Err != nil || o.Panic != nil {
		return nil, fmt.Errorf("bulk setup: %v %v", o.Err, o.Panic)
	}
	// broken (old-syntax) code planted directly; only RecoverProgram can make it loadable
	h.Codes[common.AddressLocation{Address: addr1, Name: "B"}] = []byte(brokenB)
	w := &world{
		stored:  map[string][]byte{},
		indices: map[string]uint64{},
		codes:   map[common.AddressLocation][]byte{},
		uuid:    h.UUID,
	}
	for k, v := range h.Ledger.StoredValues {
		w.stored[k] = append([]byte{}, v...)
	}
	for k, v := range h.Ledger.StorageIndices {
		w.indices[k] = v
	}
	for k, v := range h.Codes {
		w.codes[k] = append([]byte{}, v...)
	}
	return w, nil
}

// newHost builds a host with every optional callback of the test interface defined; state is
// cloned from w (nil: empty chain).
func newHost(w *world) *lib.Host {
	h := lib.NewHost()
	h.RT = runtime.NewRuntime(runtime.Config{
		AtreeValidationEnabled:            false,
		ResourceOwnerChangeHandlerEnabled: true,
	})
	if w != nil {
		for k, v := range w.stored {
			h.Ledger.StoredValues[k] = append([]byte{}, v...)
		}
		for k, v := range w.indices {
			h.Ledger.StorageIndices[k] = v
		}
		for k, v := range w.codes {
			h.Codes[k] = append([]byte{}, v...)
		}
		h.UUID = w.uuid
	}
	nextAccount := byte(0x40)
	keys := map[common.Address][]*stdlib.AccountKey{
		addr1: {{
			PublicKey: &stdlib.PublicKey{PublicKey: []byte{9, 9, 9}, SignAlgo: 1},
			KeyIndex:  0, Weight: 1000, HashAlgo: 3,
		}},
	}
	i := h.Iface
	i.OnCreateAccount = func(payer runtime.Address, _ interpreter.InvocationContext) (runtime.Address, error) {
		nextAccount++
		return common.MustBytesToAddress([]byte{nextAccount}), nil
	}
	i.OnAddAccountKey = func(address runtime.Address, publicKey *stdlib.PublicKey, hashAlgo runtime.HashAlgorithm, weight int) (*stdlib.AccountKey, error) {
		k := &stdlib.AccountKey{PublicKey: publicKey, KeyIndex: uint32(len(keys[address])), Weight: weight, HashAlgo: hashAlgo}
		keys[address] = append(keys[address], k)
		return k, nil
	}
	i.OnGetAccountKey = func(address runtime.Address, index uint32) (*stdlib.AccountKey, error) {
		if int(index) >= len(keys[address]) {
			return nil, nil
		}
		return keys[address][index], nil
	}
	i.OnRemoveAccountKey = func(address runtime.Address, index uint32) (*stdlib.AccountKey, error) {
		if int(index) >= len(keys[address]) {
			return nil, nil
		}
		k := keys[address][index]
		k.IsRevoked = true
		return k, nil
	}
	i.OnAccountKeysCount = func(address runtime.Address) (uint32, error) {
		return uint32(len(keys[address])), nil
	}
	i.OnGetAccountBalance = func(runtime.Address) (uint64, error) { return 1000, nil }
	i.OnGetAccountAvailableBalance = func(runtime.Address) (uint64, error) { return 900, nil }
	i.OnGetStorageUsed = func(runtime.Address) (uint64, error) { return 123, nil }
	i.OnGetStorageCapacity = func(runtime.Address) (uint64, error) { return 100000, nil }
	i.OnValidatePublicKey = func(*stdlib.PublicKey) error { return nil }
	i.OnVerifySignature = func([]byte, string, []byte, []byte, runtime.SignatureAlgorithm, runtime.HashAlgorithm) (bool, error) {
		return true, nil
	}
	i.OnHash = func(data []byte, tag string, _ runtime.HashAlgorithm) ([]byte, error) {
		out := make([]byte, 32)
		copy(out, data)
		return out, nil
	}
	i.OnBLSVerifyPOP = func(*stdlib.PublicKey, []byte) (bool, error) { return true, nil }
	i.OnBLSAggregateSignatures = func(sigs [][]byte) ([]byte, error) { return bytes.Join(sigs, nil), nil }
	i.OnBLSAggregatePublicKeys = func(ks []*stdlib.PublicKey) (*stdlib.PublicKey, error) { return ks[0], nil }
	i.OnReadRandom = func(b []byte) error {
		for j := range b {
			b[j] = byte(7*j + 3)
		}
		return nil
	}
	i.OnGetCode = func(location runtime.Location) ([]byte, error) {
		if s, ok := location.(common.StringLocation); ok && s == "helper" {
			return []byte(`access(all) fun helper(): Int { return 3 }`), nil
		}
		return nil, nil
	}
	i.OnRecoverProgram = func(_ *ast.Program, location common.Location) ([]byte, error) {
		if a, ok := location.(common.AddressLocation); ok && a.Name == "B" {
			return []byte(recoveredB), nil
		}
		return nil, nil
	}
	// GetOrLoadProgram as the interface contract demands: return exactly what load returned before,
	// program AND error (the stock test interface forgets the error of a failed load).
	type loaded struct {
		p   *runtime.Program
		err error
	}
	programs := map[runtime.Location]loaded{}
	i.OnGetOrLoadProgram = func(location runtime.Location, load func() (*runtime.Program, error)) (*runtime.Program, error) {
		if l, ok := programs[location]; ok {
			return l.p, l.err
		}
		p, err := load()
		programs[location] = loaded{p, err}
		return p, err
	}
	accountIDs := map[common.Address]uint64{}
	i.OnGenerateAccountID = func(address common.Address) (uint64, error) {
		accountIDs[address]++
		if w == nil {
			return accountIDs[address], nil
		}
		return 1000 + accountIDs[address], nil
	}
	i.OnDecodeArgument = func(b []byte, _ cadence.Type) (cadence.Value, error) { return json.Decode(nil, b) }
	return h
}

func ledgerKeysSorted(m map[string][]byte) []string {
	var ks []string
	for k := range m {
		ks = append(ks, k)
	}
	sort.Strings(ks)
	return ks
}

// ledgerDiff returns the keys whose value differs between the snapshot and the host's ledger.
func (w *world) ledgerDiff(h *lib.Host) []string {
	var d []string
	for k, v := range h.Ledger.StoredValues {
		if !bytes.Equal(w.stored[k], v) {
			d = append(d, fmt.Sprintf("%x", k))
		}
	}
	for k, v := range w.stored {
		if _, ok := h.Ledger.StoredValues[k]; !ok && len(v) > 0 {
			d = append(d, fmt.Sprintf("%x", k))
		}
	}
	sort.Strings(d)
	return d
}

var _ = ru.NewTestLedger
