// Command c28: fault-injection harness for C28 "host failures are never swallowed".
//
//	-mode table : extract from <repo>/runtime/external.go the wrapper table of every runtime.Interface
//	              method (and the recover() sites of runtime/interpreter/bbq/stdlib) and write them as Coq/JSON.
//	-mode run   : enumerate (callback kind, call index) x {error, panic(error), panic(value)} over a corpus of
//	              scripts and transactions on the real runtime, both engines, plus pairs of failures.
//	-mode probe : print the baseline host-call traces (development aid).
package main

import (
	"flag"
	"fmt"
	"os"
	"strings"

	"cvh/lib"
)

var (
	prop  = flag.String("prop", "C28", "property id")
	seed  = flag.Uint64("seed", 1, "seed")
	tier  = flag.String("tier", "quick", "quick|thorough")
	dir   = flag.String("dir", ".", "output directory")
	mode  = flag.String("mode", "run", "run|table|probe")
	repo  = flag.String("repo", "/repo", "repository root (table mode)")
	only  = flag.String("only", "", "probe/run: only this scenario")
	vmOpt = flag.String("engines", "interp,vm", "engines to run")
)

func main() {
	flag.Parse()
	switch *mode {
	case "table":
		if err := tableMode(*repo, *dir); err != nil {
			fmt.Fprintln(os.Stderr, "table:", err)
			os.Exit(1)
		}
	case "probe":
		probe()
	case "run":
		sum := &lib.Summary{}
		runMode(sum)
		sum.Write(*dir)
	default:
		fmt.Fprintln(os.Stderr, "unknown mode", *mode)
		os.Exit(2)
	}
}

func engines() []bool {
	var out []bool
	for _, e := range strings.Split(*vmOpt, ",") {
		switch e {
		case "interp":
			out = append(out, false)
		case "vm":
			out = append(out, true)
		}
	}
	return out
}

func engineName(vm bool) string {
	if vm {
		return "vm"
	}
	return "interp"
}

func traceString(tr []event) string {
	var b strings.Builder
	last, n := "", 0
	flush := func() {
		if n == 0 {
			return
		}
		if n > 1 {
			fmt.Fprintf(&b, "%s*%d ", last, n)
		} else {
			fmt.Fprintf(&b, "%s ", last)
		}
	}
	for _, e := range tr {
		k := e.Kind
		if e.Fired != nil {
			k += "!"
		}
		if k == last {
			n++
			continue
		}
		flush()
		last, n = k, 1
	}
	flush()
	return b.String()
}

func probe() {
	w, err := buildWorld()
	if err != nil {
		fmt.Println("world:", err)
		os.Exit(1)
	}
	for _, sc := range scenarios {
		if *only != "" && sc.Name != *only {
			continue
		}
		for _, vm := range engines() {
			var plan []fault
			if ps := os.Getenv("C28_PLAN"); ps != "" {
				for _, one := range strings.Split(ps, "+") {
					var f fault
					var m string
					one = strings.NewReplacer("#", " ", ":", " ").Replace(one)
					fmt.Sscanf(one, "%s %d %s", &f.Kind, &f.Index, &m)
					for i, n := range modeNames {
						if n == m {
							f.Mode = i
						}
					}
					plan = append(plan, f)
				}
			}
			recordStacks = os.Getenv("C28_STACK") != ""
			r := w.run(sc, vm, plan, false, 0)
			if recordStacks {
				for _, e := range r.Trace {
					if strings.Contains(os.Getenv("C28_STACK"), e.Kind) {
						fmt.Printf("STACK %s#%d:\n", e.Kind, e.Index)
						for _, fn := range e.Stack {
							if strings.Contains(fn, "cadence") {
								fmt.Println("     ", fn)
							}
						}
					}
				}
			}
			fmt.Printf("== %s [%s] calls=%d err=%v escaped=%v value=%.60s diff=%d set=%d logs=%v\n   %s\n",
				sc.Name, engineName(vm), len(r.Trace), r.Err != nil, r.Escaped, fmt.Sprint(r.Value), len(r.LedgerDiff), r.SetCalls, r.Logs, traceString(r.Trace))
			if r.Err != nil {
				fmt.Printf("   ERR: %.2500s\n", r.Err.Error())
				fmt.Printf("   INFO: %+v\n", analyse(r.Err))
			}
		}
	}
}
