package main

import (
	"bytes"
	"crypto/sha256"
	"encoding/hex"
	"encoding/json"
	"fmt"
	"go/ast"
	"go/parser"
	"go/printer"
	"go/token"
	"os"
	"path/filepath"
	"sort"
	"strings"
)

// methodRow describes how ExternalInterface wraps one method of runtime.Interface / runtime.Metrics.
type methodRow struct {
	Name        string `json:"name"`
	HasErr      bool   `json:"has_err"`       // the interface method has an `error` result
	Defined     bool   `json:"defined"`       // ExternalInterface defines the method
	InWrapPanic bool   `json:"in_wrappanic"`  // the forwarded call e.Interface.M(...) happens inside errors.WrapPanic(func(){...})
	CallsOther  bool   `json:"calls_outside"` // a forwarded call to the embedded interface also occurs outside WrapPanic
	ErrWrapped  bool   `json:"err_wrapped"`   // `if err != nil { err = interpreter.WrappedExternalError(err) }` after the call, and the named result err is what is returned
	Metrics     bool   `json:"metrics"`
}

type recoverSite struct {
	File     string `json:"file"`
	Func     string `json:"func"`
	Ordinal  int    `json:"ordinal"`  // n-th recover() in that function
	Repanics string `json:"repanics"` // "some" | "never": does the recovering function body contain panic(...)
	Hash     string `json:"hash"`     // sha256 (12 hex digits) of the printed source of the recovering function body
}

func parseFile(fset *token.FileSet, path string) (*ast.File, error) {
	return parser.ParseFile(fset, path, nil, parser.SkipObjectResolution)
}

// interfaceMethods returns the method names of interface type `name` in file f, with whether
// the last result is `error`.
func interfaceMethods(f *ast.File, name string) (names []string, hasErr map[string]bool) {
	hasErr = map[string]bool{}
	ast.Inspect(f, func(n ast.Node) bool {
		ts, ok := n.(*ast.TypeSpec)
		if !ok || ts.Name.Name != name {
			return true
		}
		it, ok := ts.Type.(*ast.InterfaceType)
		if !ok {
			return true
		}
		for _, m := range it.Methods.List {
			ft, ok := m.Type.(*ast.FuncType)
			if !ok || len(m.Names) == 0 {
				continue
			}
			n := m.Names[0].Name
			names = append(names, n)
			if ft.Results != nil && len(ft.Results.List) > 0 {
				last := ft.Results.List[len(ft.Results.List)-1]
				if id, ok := last.Type.(*ast.Ident); ok && id.Name == "error" {
					hasErr[n] = true
				}
			}
		}
		return false
	})
	return
}

func isSel(e ast.Expr, x, sel string) bool {
	s, ok := e.(*ast.SelectorExpr)
	if !ok || s.Sel.Name != sel {
		return false
	}
	id, ok := s.X.(*ast.Ident)
	return ok && id.Name == x
}

// isForwardCall: e.Interface.<method>(...) or metrics.<method>(...)
func isForwardCall(c *ast.CallExpr, method string) bool {
	s, ok := c.Fun.(*ast.SelectorExpr)
	if !ok || s.Sel.Name != method {
		return false
	}
	if isSel(s.X, "e", "Interface") {
		return true
	}
	if id, ok := s.X.(*ast.Ident); ok && id.Name == "metrics" {
		return true
	}
	return false
}

func analyseWrapper(fd *ast.FuncDecl, row *methodRow) {
	row.Defined = true
	method := fd.Name.Name
	// named error result?
	errName := ""
	if fd.Type.Results != nil {
		for _, r := range fd.Type.Results.List {
			if id, ok := r.Type.(*ast.Ident); ok && id.Name == "error" && len(r.Names) == 1 {
				errName = r.Names[0].Name
			}
		}
	}
	inside, outside := 0, 0
	assignedErrInside := false
	var visit func(n ast.Node, inWrap bool)
	visit = func(n ast.Node, inWrap bool) {
		ast.Inspect(n, func(m ast.Node) bool {
			c, ok := m.(*ast.CallExpr)
			if !ok {
				return true
			}
			if isSel(c.Fun, "errors", "WrapPanic") && len(c.Args) == 1 {
				if fl, ok := c.Args[0].(*ast.FuncLit); ok {
					// inside the wrapped closure: find the forward call and the assignment of err
					ast.Inspect(fl.Body, func(k ast.Node) bool {
						switch x := k.(type) {
						case *ast.AssignStmt:
							if len(x.Rhs) == 1 {
								if cc, ok := x.Rhs[0].(*ast.CallExpr); ok && isForwardCall(cc, method) {
									if id, ok := x.Lhs[len(x.Lhs)-1].(*ast.Ident); ok && id.Name == errName && errName != "" && x.Tok == token.ASSIGN {
										assignedErrInside = true
									}
								}
							}
						case *ast.CallExpr:
							if isForwardCall(x, method) {
								inside++
							}
						}
						return true
					})
					return false
				}
			}
			if isForwardCall(c, method) {
				outside++
			}
			return true
		})
	}
	visit(fd.Body, false)
	row.InWrapPanic = inside == 1
	row.CallsOther = outside > 0
	if !row.HasErr {
		return
	}
	// err wrapping: a top-level statement `if err != nil { err = interpreter.WrappedExternalError(err) }`
	// positioned after the WrapPanic statement, followed only by a bare `return`.
	stmts := fd.Body.List
	wrapIdx, ifIdx := -1, -1
	for i, s := range stmts {
		if es, ok := s.(*ast.ExprStmt); ok {
			if c, ok := es.X.(*ast.CallExpr); ok && isSel(c.Fun, "errors", "WrapPanic") {
				wrapIdx = i
			}
		}
		if is, ok := s.(*ast.IfStmt); ok && is.Init == nil && is.Else == nil {
			be, ok := is.Cond.(*ast.BinaryExpr)
			if !ok || be.Op != token.NEQ {
				continue
			}
			x, ok1 := be.X.(*ast.Ident)
			y, ok2 := be.Y.(*ast.Ident)
			if !ok1 || !ok2 || x.Name != errName || y.Name != "nil" || len(is.Body.List) != 1 {
				continue
			}
			as, ok := is.Body.List[0].(*ast.AssignStmt)
			if !ok || as.Tok != token.ASSIGN || len(as.Lhs) != 1 || len(as.Rhs) != 1 {
				continue
			}
			l, ok := as.Lhs[0].(*ast.Ident)
			if !ok || l.Name != errName {
				continue
			}
			c, ok := as.Rhs[0].(*ast.CallExpr)
			if !ok || !isSel(c.Fun, "interpreter", "WrappedExternalError") || len(c.Args) != 1 {
				continue
			}
			a, ok := c.Args[0].(*ast.Ident)
			if ok && a.Name == errName {
				ifIdx = i
			}
		}
	}
	bareReturnLast := false
	if len(stmts) > 0 {
		if rs, ok := stmts[len(stmts)-1].(*ast.ReturnStmt); ok && len(rs.Results) == 0 {
			bareReturnLast = true
		}
	}
	// nothing but the wrap statement, the if statement and the return may follow the call
	onlyExpected := wrapIdx >= 0 && ifIdx == wrapIdx+1 && ifIdx == len(stmts)-2
	row.ErrWrapped = errName != "" && assignedErrInside && onlyExpected && bareReturnLast
}

func extractTable(repoRoot string) ([]methodRow, error) {
	fset := token.NewFileSet()
	ifile, err := parseFile(fset, filepath.Join(repoRoot, "runtime", "interface.go"))
	if err != nil {
		return nil, err
	}
	efile, err := parseFile(fset, filepath.Join(repoRoot, "runtime", "external.go"))
	if err != nil {
		return nil, err
	}
	names, hasErr := interfaceMethods(ifile, "Interface")
	mnames, _ := interfaceMethods(ifile, "Metrics")
	rows := map[string]*methodRow{}
	var order []string
	for _, n := range names {
		rows[n] = &methodRow{Name: n, HasErr: hasErr[n]}
		order = append(order, n)
	}
	for _, n := range mnames {
		rows[n] = &methodRow{Name: n, Metrics: true}
		order = append(order, n)
	}
	if len(names) == 0 {
		return nil, fmt.Errorf("no methods found in runtime.Interface")
	}
	for _, d := range efile.Decls {
		fd, ok := d.(*ast.FuncDecl)
		if !ok || fd.Recv == nil || len(fd.Recv.List) != 1 || fd.Body == nil {
			continue
		}
		rt := fd.Recv.List[0].Type
		if st, ok := rt.(*ast.StarExpr); ok {
			rt = st.X
		}
		if id, ok := rt.(*ast.Ident); !ok || id.Name != "ExternalInterface" {
			continue
		}
		row, ok := rows[fd.Name.Name]
		if !ok {
			continue // helper method that is not part of the interface
		}
		analyseWrapper(fd, row)
	}
	var out []methodRow
	for _, n := range order {
		out = append(out, *rows[n])
	}
	return out, nil
}

// recover sites -----------------------------------------------------------------------------

func containsPanic(n ast.Node) (always bool, any bool) {
	// `any`: a panic(...) call occurs somewhere in n; `always`: n's statement list unconditionally ends in panic
	ast.Inspect(n, func(m ast.Node) bool {
		if c, ok := m.(*ast.CallExpr); ok {
			if id, ok := c.Fun.(*ast.Ident); ok && id.Name == "panic" {
				any = true
			}
		}
		return true
	})
	return false, any
}

func extractRecoverSites(repoRoot string) ([]recoverSite, error) {
	var sites []recoverSite
	fset := token.NewFileSet()
	for _, top := range []string{"runtime", "interpreter", "bbq", "stdlib", "errors"} {
		root := filepath.Join(repoRoot, top)
		err := filepath.Walk(root, func(path string, info os.FileInfo, err error) error {
			if err != nil {
				return err
			}
			if info.IsDir() {
				base := info.Name()
				if base == "test" || base == "testdata" || base == "test_utils" || strings.HasPrefix(base, ".") {
					return filepath.SkipDir
				}
				return nil
			}
			if !strings.HasSuffix(path, ".go") || strings.HasSuffix(path, "_test.go") {
				return nil
			}
			f, err := parseFile(fset, path)
			if err != nil {
				return err
			}
			rel, _ := filepath.Rel(repoRoot, path)
			for _, d := range f.Decls {
				fd, ok := d.(*ast.FuncDecl)
				if !ok || fd.Body == nil {
					continue
				}
				fname := fd.Name.Name
				if fd.Recv != nil && len(fd.Recv.List) == 1 {
					t := fd.Recv.List[0].Type
					if st, ok := t.(*ast.StarExpr); ok {
						t = st.X
					}
					if ix, ok := t.(*ast.IndexExpr); ok {
						t = ix.X
					}
					if id, ok := t.(*ast.Ident); ok {
						fname = id.Name + "." + fname
					}
				}
				ord := 0
				// find innermost function body containing each recover()
				var walkBody func(body *ast.BlockStmt)
				walkBody = func(body *ast.BlockStmt) {
					has := false
					ast.Inspect(body, func(m ast.Node) bool {
						if fl, ok := m.(*ast.FuncLit); ok {
							walkBody(fl.Body)
							return false
						}
						if c, ok := m.(*ast.CallExpr); ok {
							if id, ok := c.Fun.(*ast.Ident); ok && id.Name == "recover" && len(c.Args) == 0 {
								has = true
							}
						}
						return true
					})
					if !has {
						return
					}
					_, anyPanic := containsPanic(body)
					// classification of the handler: does every path re-panic?
					rep := "never"
					if anyPanic {
						rep = "some"
					}
					var buf bytes.Buffer
					_ = printer.Fprint(&buf, token.NewFileSet(), body)
					sum := sha256.Sum256(buf.Bytes())
					sites = append(sites, recoverSite{File: rel, Func: fname, Ordinal: ord, Repanics: rep, Hash: hex.EncodeToString(sum[:6])})
					ord++
				}
				walkBody(fd.Body)
			}
			return nil
		})
		if err != nil {
			return nil, err
		}
	}
	sort.Slice(sites, func(i, j int) bool {
		a, b := sites[i], sites[j]
		if a.File != b.File {
			return a.File < b.File
		}
		if a.Func != b.Func {
			return a.Func < b.Func
		}
		return a.Ordinal < b.Ordinal
	})
	return sites, nil
}

func coqBool(b bool) string {
	if b {
		return "true"
	}
	return "false"
}

func tableMode(repoRoot, outDir string) error {
	rows, err := extractTable(repoRoot)
	if err != nil {
		return err
	}
	sites, err := extractRecoverSites(repoRoot)
	if err != nil {
		return err
	}
	var b strings.Builder
	b.WriteString("(* GENERATED by harness/c28 -mode table from runtime/interface.go and runtime/external.go. Do not edit. *)\n")
	b.WriteString("From CV Require Import C28.Model.\n\n")
	b.WriteString("(* (method, has error result, defined by ExternalInterface, forwarded call inside errors.WrapPanic only,\n    returned err passed through interpreter.WrappedExternalError) *)\n")
	b.WriteString("Definition Interface_methods : list method_row := [\n")
	for i, r := range rows {
		sep := ";"
		if i == len(rows)-1 {
			sep = ""
		}
		fmt.Fprintf(&b, "  mk_row %s %s %s %s %s%s\n", "cb_"+r.Name, coqBool(r.HasErr), coqBool(r.Defined),
			coqBool(r.InWrapPanic && !r.CallsOther), coqBool(r.ErrWrapped), sep)
	}
	b.WriteString("].\n")
	if err := os.WriteFile(filepath.Join(outDir, "GenC28Table.v"), []byte(b.String()), 0o644); err != nil {
		return err
	}
	tracked, err := trackedFunctions(repoRoot)
	if err != nil {
		return err
	}
	js, _ := json.MarshalIndent(map[string]any{"methods": rows, "recover_sites": sites, "tracked_functions": tracked}, "", " ")
	return os.WriteFile(filepath.Join(outDir, "c28_table.json"), js, 0o644)
}

// trackedFunctions hashes the functions that decide how a host failure is wrapped and reported, so that any
// edit to them is flagged for review against corpus/C28/expected_sites.json.
func trackedFunctions(repoRoot string) ([]recoverSite, error) {
	want := []struct{ file, fn string }{
		{"interpreter/errors.go", "WrappedExternalError"},
		{"runtime/recover.go", "GetWrappedError"},
		{"runtime/recover.go", "Recover"},
		{"runtime/runtime.go", "reportMetric"},
		{"runtime/storage.go", "Storage.commit"},
		{"runtime/storage.go", "CommitStorage"},
		{"runtime/account_storage.go", "AccountStorage.commit"},
		{"runtime/slabindex.go", "writeSlabIndexToRegister"},
	}
	var out []recoverSite
	fset := token.NewFileSet()
	for _, w := range want {
		f, err := parseFile(fset, filepath.Join(repoRoot, w.file))
		if err != nil {
			return nil, err
		}
		found := false
		for _, d := range f.Decls {
			fd, ok := d.(*ast.FuncDecl)
			if !ok || fd.Body == nil {
				continue
			}
			name := fd.Name.Name
			if fd.Recv != nil && len(fd.Recv.List) == 1 {
				t := fd.Recv.List[0].Type
				if st, ok := t.(*ast.StarExpr); ok {
					t = st.X
				}
				if id, ok := t.(*ast.Ident); ok {
					name = id.Name + "." + name
				}
			}
			if name != w.fn {
				continue
			}
			var buf bytes.Buffer
			_ = printer.Fprint(&buf, token.NewFileSet(), fd.Body)
			sum := sha256.Sum256(buf.Bytes())
			out = append(out, recoverSite{File: w.file, Func: w.fn, Hash: hex.EncodeToString(sum[:6])})
			found = true
		}
		if !found {
			out = append(out, recoverSite{File: w.file, Func: w.fn, Hash: "missing"})
		}
	}
	return out, nil
}
