package main

import (
	"github.com/onflow/cadence"
	"github.com/onflow/cadence/common"
)

// scenario = one script or transaction of the corpus. Markers: a scenario using the documented
// exception `contracts.tryUpdate` logs "begin"/"end" around the call so that the harness knows which host
// calls happen inside the update.
type scenario struct {
	Name    string
	Tx      bool
	Src     string
	Args    []cadence.Value
	Signers []common.Address
	Try     bool // has a tryUpdate block delimited by log("begin") / log("end")
	Bulk    bool // many lazy ledger reads/writes: every one is failed in turn; the Coq model is compared on a sample
}

func str(s string) cadence.Value {
	v, err := cadence.NewString(s)
	if err != nil {
		panic(err)
	}
	return v
}

var scenarios = []scenario{
	{
		Name: "import_call",
		Src: `
import C from 0x1
import D from 0x1
access(all) fun main(a: Int, s: String): Int {
    log(s)
    let r <- C.makeR(v: a)
    let v = r.v
    destroy r
    let t = D.T()
    return v + C.counter + t.s.a
}`,
		Args: []cadence.Value{cadence.NewInt(5), str("hello")},
	},
	{
		Name: "host_queries",
		Src: `
import C from 0x1
access(all) fun main(): [AnyStruct] {
    let b = getCurrentBlock()
    let b2 = getBlock(at: 1)
    let rnd = revertibleRandom<UInt64>()
    let h = HashAlgorithm.SHA3_256.hash([1, 2, 3])
    let h2 = HashAlgorithm.SHA2_256.hashWithTag([1, 2, 3], tag: "t")
    let acct = getAccount(0x1)
    let bal = acct.balance
    let ab = acct.availableBalance
    let su = acct.storage.used
    let sc = acct.storage.capacity
    let k = acct.keys.get(keyIndex: 0)
    let n = acct.keys.count
    acct.keys.forEach(fun (key: AccountKey): Bool { return true })
    let names = acct.contracts.names
    let c = acct.contracts.get(name: "C")
    let bc = acct.contracts.borrow<&C>(name: "C")
    log(names.length)
    return [b.height, b2?.height, rnd >= 0, h.length, h2.length, bal, ab, su, sc, n, names.length, c?.name]
}`,
	},
	{
		Name: "crypto",
		Src: `
access(all) fun main(): Bool {
    let pk = PublicKey(publicKey: [1, 2, 3], signatureAlgorithm: SignatureAlgorithm.ECDSA_P256)
    let ok = pk.verify(signature: [1], signedData: [2], domainSeparationTag: "x", hashAlgorithm: HashAlgorithm.SHA3_256)
    let bls = PublicKey(publicKey: [4, 5], signatureAlgorithm: SignatureAlgorithm.BLS_BLS12_381)
    let pop = bls.verifyPoP([1, 2])
    let agg = BLS.aggregateSignatures([[1], [2]])
    let apk = BLS.aggregatePublicKeys([bls, bls])
    return ok && pop
}`,
	},
	{
		Name: "storage_tx",
		Tx:   true,
		Src: `
import C from 0x1
transaction(n: Int) {
    prepare(signer: auth(Storage) &Account) {
        let r <- C.makeR(v: n)
        signer.storage.save(<-r, to: /storage/r2)
        let old = signer.storage.load<Int>(from: /storage/i)!
        signer.storage.save(old + n, to: /storage/i)
        let ref = signer.storage.borrow<&C.R>(from: /storage/r)!
        log(ref.v)
        let arr = signer.storage.borrow<auth(Mutate) &[Int]>(from: /storage/arr)!
        arr.append(n)
        let x <- signer.storage.load<@C.R>(from: /storage/r)!
        destroy x
        C.bump()
        let t = signer.storage.check<Int>(from: /storage/i)
    }
    execute { log("exec") }
}`,
		Args:    []cadence.Value{cadence.NewInt(11)},
		Signers: []common.Address{addr1},
	},
	{
		Name: "account_tx",
		Tx:   true,
		Src: `
transaction {
    prepare(signer: auth(BorrowValue, Storage) &Account) {
        let acct = Account(payer: signer)
        let key = PublicKey(publicKey: [1, 2, 3], signatureAlgorithm: SignatureAlgorithm.ECDSA_P256)
        let k = acct.keys.add(publicKey: key, hashAlgorithm: HashAlgorithm.SHA3_256, weight: 100.0)
        let k2 = acct.keys.revoke(keyIndex: 0)
        acct.storage.save(1, to: /storage/a)
    }
}`,
		Signers: []common.Address{addr1},
	},
	{
		Name: "contract_tx",
		Tx:   true,
		Src: `
transaction(codeN: String, codeD2: String) {
    prepare(signer: auth(Contracts) &Account) {
        signer.contracts.add(name: "N", code: codeN.utf8)
        signer.contracts.update(name: "D", code: codeD2.utf8)
        signer.contracts.remove(name: "B")
    }
}`,
		Args:    []cadence.Value{str(contractN), str(contractD2)},
		Signers: []common.Address{addr1},
	},
	{
		Name: "tryupdate_tx",
		Tx:   true,
		Try:  true,
		Src: `
transaction(codeD2: String) {
    prepare(signer: auth(UpdateContract) &Account) {
        log("begin")
        let res = signer.contracts.tryUpdate(name: "D", code: codeD2.utf8)
        log("end")
        log(res.deployedContract == nil)
    }
}`,
		Args:    []cadence.Value{str(contractD2)},
		Signers: []common.Address{addr1},
	},
	{
		Name: "caps_tx",
		Tx:   true,
		Src: `
transaction {
    prepare(signer: auth(Capabilities, Storage) &Account) {
        let cap = signer.capabilities.storage.issue<&Int>(/storage/i)
        signer.capabilities.publish(cap, at: /public/i2)
        let c2 = signer.capabilities.get<&Int>(/public/i)
        let v = c2.borrow()!
        log(*v)
        let un = signer.capabilities.unpublish(/public/i2)
        let ac = signer.capabilities.account.issue<&Account>()
        signer.capabilities.storage.forEachController(forPath: /storage/i, fun (c: &StorageCapabilityController): Bool { return true })
    }
}`,
		Signers: []common.Address{addr1},
	},
	{
		Name: "iterate",
		Src: `
access(all) fun main(): Int {
    var n = 0
    getAuthAccount<auth(Storage) &Account>(0x1).storage.forEachStored(fun (p: StoragePath, t: Type): Bool { n = n + 1; return true })
    getAccount(0x1).storage.forEachPublic(fun (p: PublicPath, t: Type): Bool { n = n + 1; return true })
    return n
}`,
	},
	{
		Name: "recovered_import",
		Src: `
import B from 0x1
access(all) fun main(): Int { return 1 }`,
	},
	{
		Name: "two_accounts_tx",
		Tx:   true,
		Src: `
transaction {
    prepare(a: auth(Storage) &Account, b: auth(Storage) &Account) {
        a.storage.save("x", to: /storage/s1)
        b.storage.save([1, 2, 3], to: /storage/s2)
    }
}`,
		Signers: []common.Address{addr2, addr3},
	},
	{
		Name: "string_import",
		Src: `
import helper from "helper"
access(all) fun main(): Int { return helper() }`,
	},
	{
		Name: "export_big",
		Src: `
access(all) fun main(): [Int] {
    return getAuthAccount<auth(Storage) &Account>(0x1).storage.copy<[Int]>(from: /storage/arr)!
}`,
	},
}

const bulkAcct = "let acct = getAuthAccount<auth(Storage) &Account>(0x4)\n"

// large stored containers (multi-slab) and accounts with many paths, accessed in a later execution: the slabs are
// read from the ledger lazily, in the middle of the operations
var bulkScenarios = []scenario{
	{Name: "bulk_dict_keys", Bulk: true, Src: `
access(all) fun main(): Int {
    ` + bulkAcct + `    let r = acct.storage.borrow<&{Int: String}>(from: /storage/bigDict)!
    return r.keys.length
}`},
	{Name: "bulk_dict_values_lookup", Bulk: true, Src: `
access(all) fun main(): Int {
    ` + bulkAcct + `    let r = acct.storage.borrow<&{Int: String}>(from: /storage/bigDict)!
    var n = r.values.length
    r.forEachKey(fun (k: Int): Bool { n = n + 1; return true })
    if r.containsKey(399) { n = n + 1 }
    n = n + r[200]!.length + r.length
    return n
}`},
	{Name: "bulk_array_ops", Bulk: true, Src: `
access(all) fun main(): Int {
    ` + bulkAcct + `    let r = acct.storage.borrow<&[String]>(from: /storage/bigArr)!
    var n = 0
    for x in r { n = n + x.length }
    n = n + r.slice(from: 100, upTo: 250).length + r.concat(["z"]).length
    if r.contains("nope") { n = n + 1 }
    n = n + r.map(fun (s: String): Int { return s.length }).length
    n = n + r.filter(view fun (s: String): Bool { return s.length > 5 }).length
    n = n + (r.firstIndex(of: "nope") ?? 0) + r[250].length
    return n
}`},
	{Name: "bulk_copy", Bulk: true, Src: `
access(all) fun main(): Int {
    ` + bulkAcct + `    return acct.storage.copy<{Int: String}>(from: /storage/bigDict)!.length
        + acct.storage.copy<[String]>(from: /storage/bigArr)!.length
}`},
	{Name: "bulk_paths", Bulk: true, Src: `
access(all) fun main(): Int {
    ` + bulkAcct + `    var n = acct.storage.storagePaths.length + acct.storage.publicPaths.length
    acct.storage.forEachStored(fun (p: StoragePath, t: Type): Bool { n = n + 1; return true })
    acct.storage.forEachPublic(fun (p: PublicPath, t: Type): Bool { n = n + 1; return true })
    return n
}`},
	{Name: "bulk_nested", Bulk: true, Src: `
access(all) fun main(): Int {
    ` + bulkAcct + `    let r = acct.storage.borrow<&{String: [Int]}>(from: /storage/nested)!
    var n = 0
    for k in r.keys { n = n + r[k]!.length }
    return n
}`},
	{Name: "bulk_export", Bulk: true, Src: `
access(all) fun main(): {String: [Int]} {
    ` + bulkAcct + `    return acct.storage.copy<{String: [Int]}>(from: /storage/nested)!
}`},
	{Name: "bulk_mutate_tx", Tx: true, Bulk: true, Signers: []common.Address{addr4}, Src: `
import C from 0x1
transaction {
    prepare(signer: auth(Storage) &Account) {
        let d = signer.storage.borrow<auth(Mutate) &{Int: String}>(from: /storage/bigDict)!
        d[1000] = "new"
        d.remove(key: 3)
        let a = signer.storage.borrow<auth(Mutate) &[String]>(from: /storage/bigArr)!
        a.append("x")
        a.remove(at: 0)
        a.insert(at: 5, "y")
        let rs = signer.storage.borrow<auth(Mutate) &{Int: C.R}>(from: /storage/resDict)!
        let x <- rs.remove(key: 7)!
        destroy x
        rs[100] <-! C.makeR(v: 1)
    }
}`},
	{Name: "bulk_load_save_tx", Tx: true, Bulk: true, Signers: []common.Address{addr4}, Src: `
transaction {
    prepare(signer: auth(Storage) &Account) {
        let d = signer.storage.load<{Int: String}>(from: /storage/bigDict)!
        signer.storage.save(d, to: /storage/bigDict2)
        let a = signer.storage.load<[String]>(from: /storage/bigArr)!
        signer.storage.save(a.concat(a), to: /storage/bigArr2)
    }
}`},
}

func init() { scenarios = append(scenarios, bulkScenarios...) }
