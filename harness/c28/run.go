package main

import (
	"fmt"
	goruntime "runtime"

	"github.com/onflow/cadence"
	"github.com/onflow/cadence/common"
	"github.com/onflow/cadence/encoding/json"
	"github.com/onflow/cadence/errors"
	"github.com/onflow/cadence/runtime"
	ru "github.com/onflow/cadence/test_utils/runtime_utils"
)

type runResult struct {
	Value      cadence.Value
	Err        error
	Escaped    any // Go panic that crossed ExecuteScript/ExecuteTransaction
	Trace      []event
	Fired      []*injected
	LedgerDiff []string // ledger keys changed w.r.t. the snapshot
	SetCalls   int
	Logs       []string
}

var nextTx = ru.NewTransactionLocationGenerator()
var nextScr = ru.NewScriptLocationGenerator()

func encodeArgs(args []cadence.Value) [][]byte {
	var out [][]byte
	for _, a := range args {
		out = append(out, json.MustEncode(a))
	}
	return out
}

var recordStacks bool

func (w *world) run(sc scenario, vm bool, plan []fault, down bool, downMode int) (r runResult) {
	h := newHost(w)
	h.Signers = sc.Signers
	fi := newFaultIface(h.Iface, plan)
	fi.stacks = recordStacks
	fi.down = down
	fi.downMod = downMode
	func() {
		defer func() {
			if x := recover(); x != nil {
				r.Escaped = x
			}
		}()
		script := runtime.Script{Source: []byte(sc.Src), Arguments: encodeArgs(sc.Args)}
		if sc.Tx {
			r.Err = h.RT.ExecuteTransaction(script, runtime.Context{Interface: fi, Location: nextTx(), UseVM: vm})
		} else {
			r.Value, r.Err = h.RT.ExecuteScript(script, runtime.Context{Interface: fi, Location: nextScr(), UseVM: vm})
		}
	}()
	r.Trace = fi.trace
	r.Fired = fi.fired
	r.LedgerDiff = w.ledgerDiff(h)
	r.SetCalls = fi.counts["SetValue"]
	r.Logs = h.Logs
	return
}

// errInfo is the projection of a returned error that the property constrains.
type errInfo struct {
	Class     string    // "", HostFail, UserOther, Internal, Crash
	Carried   *injected // injected failure found in the error chain (first in depth-first order)
	External  bool      // an errors.ExternalError / ExternalNonError wraps the carried failure
	UserAbove string    // type of a user error wrapping the carried failure ("" if none)
	Types     []string
}

// walk visits the error tree: Unwrap() error, Unwrap() []error, ChildErrors() []error.
func walk(err error, depth int, path []error, f func(e error, path []error)) {
	if err == nil || depth > 60 {
		return
	}
	f(err, path)
	p2 := append(append([]error{}, path...), err)
	if ext, ok := err.(errors.ExternalNonError); ok {
		if v, ok := ext.Recovered.(injectedVal); ok {
			f(v.S, p2)
		}
	}
	switch x := err.(type) {
	case interface{ Unwrap() error }:
		walk(x.Unwrap(), depth+1, p2, f)
	case interface{ Unwrap() []error }:
		for _, c := range x.Unwrap() {
			walk(c, depth+1, p2, f)
		}
	}
	if c, ok := err.(interface{ ChildErrors() []error }); ok {
		if _, isUnwrap := err.(interface{ Unwrap() error }); !isUnwrap {
			for _, ce := range c.ChildErrors() {
				walk(ce, depth+1, p2, f)
			}
		}
	}
}

func analyse(err error) (info errInfo) {
	if err == nil {
		return
	}
	walk(err, 0, nil, func(e error, path []error) {
		if len(info.Types) < 12 {
			info.Types = append(info.Types, fmt.Sprintf("%T", e))
		}
		s, ok := e.(*injected)
		if !ok || info.Carried != nil {
			return
		}
		info.Carried = s
		for _, p := range path {
			switch p.(type) {
			case errors.ExternalError, errors.ExternalNonError:
				info.External = true
			}
			if _, ok := p.(errors.UserError); ok && info.UserAbove == "" {
				info.UserAbove = fmt.Sprintf("%T", p)
			}
		}
	})
	// class of the whole error, by the runtime's own classification
	switch {
	case isGoRuntimeError(err):
		info.Class = "Crash"
	case errors.IsInternalError(err):
		info.Class = "Internal"
	case errors.IsUserError(err):
		info.Class = "UserOther"
	case hasExternal(err):
		info.Class = "HostFail"
	default:
		info.Class = "Internal"
	}
	return
}

func hasExternal(err error) bool {
	found := false
	walk(err, 0, nil, func(e error, _ []error) {
		switch e.(type) {
		case errors.ExternalError, errors.ExternalNonError:
			found = true
		}
	})
	return found
}

func isGoRuntimeError(err error) bool {
	found := false
	walk(err, 0, nil, func(e error, _ []error) {
		if _, ok := e.(goruntime.Error); ok {
			found = true
		}
	})
	return found
}

var _ = common.ZeroAddress
