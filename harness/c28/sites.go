package main

import (
	"fmt"
	"regexp"
	"strings"
)

// The Go-level places where a failure coming from a host call may be handled on its way up, identified by
// the function on the call stack of the host call. This list is the tie between the model's [handler]
// constructors (coq/theories/C28/Model.v) and the code; it is read off the real stack of every host call of
// the baseline run, never from the outcome of a faulted run.
var sites = []struct {
	Pattern string // substring of the (closure-stripped) Go function name
	Tag     string // Coq handler constructor, or "Interp" for runtime.(*InterpreterEnvironment).Interpret (reportMetric)
	Doc     bool   // documented exception of the property
}{
	{"stdlib.nativeAccountContractsTryUpdateFunction", "HTry", true},
	{"nativeAccountContractsTryUpdateFunction", "HTry", true},
	{"newPublicKeyValidationHandler", "HKeyVal", true},
	{"interpreter.checkValue", "HIter", false},
	{"runtime.(*vmEnvironment).loadCompositeType", "HDropErr", false},
	{"runtime.(*vmEnvironment).loadInterfaceType", "HDropErr", false},
	{"runtime.(*CheckingEnvironment).recoverProgram", "HDropErr", false},
	{"stdlib.BLSAggregateSignatures", "HNilOnErr", false},
	{"stdlib.BLSAggregatePublicKeys", "HNilOnErr", false},
	{"runtime.(*InterpreterEnvironment).Interpret", "Interp", false},
}

var closureSuffix = regexp.MustCompile(`(\.func\d+)+(\.\d+)*$`)

// tagPath returns the handler tags of a call stack from outermost to innermost.
// stack[0] is the innermost frame. Consecutive frames of one function (closures of it) count once.
func tagPath(stack []string) []string {
	var path []string
	prevFn := ""
	for i := len(stack) - 1; i >= 0; i-- {
		// a second errors.WrapPanic around the host call (checking_environment.go getProgram / recoverProgram):
		// frame order (outer to inner): getProgram, errors.WrapPanic, getProgram.funcN
		if i+1 < len(stack) && strings.HasSuffix(stack[i+1], "cadence/errors.WrapPanic") &&
			(strings.Contains(stack[i], "CheckingEnvironment).getProgram.func") ||
				strings.Contains(stack[i], "CheckingEnvironment).recoverProgram.func")) {
			path = append(path, "HRewrap@r")
		}
		// runtime.UserPanicToError turns a non-error external panic into an UnexpectedError, which the
		// enclosing WrapPanic calls leave alone
		if strings.HasSuffix(stack[i], "cadence/runtime.UserPanicToError") {
			var kept []string
			for _, t := range path {
				if tagName(t) != "HRewrap" {
					kept = append(kept, t)
				}
			}
			path = kept
		}
		fn := closureSuffix.ReplaceAllString(stack[i], "")
		if fn == prevFn {
			continue
		}
		prevFn = fn
		for si, s := range sites {
			if strings.Contains(fn, s.Pattern) {
				// the site index keeps adjacent instances of different functions apart
				path = append(path, fmt.Sprintf("%s@%d", s.Tag, si))
				break
			}
		}
	}
	return path
}

// tagName strips the site index of a path element.
func tagName(t string) string {
	if i := strings.IndexByte(t, '@'); i >= 0 {
		return t[:i]
	}
	return t
}

// handlerTags returns the handler names of a call stack (outermost first), without site indices.
func handlerTags(stack []string) []string {
	var out []string
	for _, t := range tagPath(stack) {
		out = append(out, tagName(t))
	}
	return out
}

func inCommit(stack []string) bool {
	for _, fn := range stack {
		if strings.Contains(fn, "runtime.(*Storage).commit") {
			return true
		}
	}
	return false
}

// node of the program tree derived from a baseline trace
type node struct {
	Tag      string // "" leaf call, "Write" commit-phase SetValue, else handler tag / "Interp"
	Kind     string // leaf: callback kind
	Pos      int    // leaf: position in the baseline trace
	Children []*node
}

// buildProgram groups the baseline events by their tag paths (longest common prefix nesting).
// An "Interp" group is closed by its ProgramInterpreted report.
func buildProgram(tr []event) (*node, error) {
	root := &node{Tag: "root"}
	stack := []*node{root}
	var open []string
	closeTo := func(n int) {
		stack = stack[:n+1]
		open = open[:n]
	}
	for pos, e := range tr {
		if e.Kind == "SetValue" && inCommit(e.Stack) {
			closeTo(0)
			root.Children = append(root.Children, &node{Tag: "Write", Kind: "SetValue", Pos: pos})
			continue
		}
		path := tagPath(e.Stack)
		// common prefix with the open groups
		n := 0
		for n < len(open) && n < len(path) && open[n] == path[n] {
			n++
		}
		closeTo(n)
		for _, t := range path[n:] {
			g := &node{Tag: t}
			top := stack[len(stack)-1]
			top.Children = append(top.Children, g)
			stack = append(stack, g)
			open = append(open, t)
		}
		top := stack[len(stack)-1]
		top.Children = append(top.Children, &node{Kind: e.Kind, Pos: pos})
		// the metrics report of Interpret closes its group (a following Interpret is a new instance)
		if e.Kind == "ProgramInterpreted" && len(open) > 0 && tagName(open[len(open)-1]) == "Interp" {
			closeTo(len(open) - 1)
		}
		// handlers around a single host call: the next call is a new instance
		for len(open) > 0 {
			t := tagName(open[len(open)-1])
			if (t == "HKeyVal" && e.Kind == "ValidatePublicKey") || t == "HNilOnErr" {
				closeTo(len(open) - 1)
				continue
			}
			break
		}
	}
	// commit-phase writes must be the last events
	seenWrite := false
	for _, c := range root.Children {
		if c.Tag == "Write" {
			seenWrite = true
		} else if seenWrite {
			return root, fmt.Errorf("host calls after the commit phase started")
		}
	}
	return root, nil
}

func seqOf(parts []string) string {
	if len(parts) == 0 {
		return "Skip"
	}
	if len(parts) == 1 {
		return parts[0]
	}
	return "(Seq " + parts[0] + " " + seqOf(parts[1:]) + ")"
}

// coqCmd renders a node as a Coq [cmd] term.
func coqCmd(n *node) string {
	switch tagName(n.Tag) {
	case "":
		return "(Call cb_" + n.Kind + ")"
	case "Write":
		return fmt.Sprintf("(Write %d)", n.Pos)
	}
	children := n.Children
	metered := ""
	if tagName(n.Tag) == "Interp" && len(children) > 0 {
		last := children[len(children)-1]
		if last.Tag == "" && last.Kind == "ProgramInterpreted" {
			metered = last.Kind
			children = children[:len(children)-1]
		}
	}
	var parts []string
	for _, c := range children {
		parts = append(parts, coqCmd(c))
	}
	body := seqOf(parts)
	switch tagName(n.Tag) {
	case "root":
		return body
	case "Interp":
		if metered != "" {
			return "(Metered cb_" + metered + " " + body + ")"
		}
		return body
	default:
		return "(Handle " + tagName(n.Tag) + " " + body + ")"
	}
}

// regionOf returns the innermost handler tag (not "Interp") enclosing baseline position pos, "" if none,
// and whether pos is inside an Interp group.
func regionOf(root *node, pos int) (handler string, found bool) {
	var rec func(n *node, cur string) bool
	rec = func(n *node, cur string) bool {
		if n.Tag == "" || n.Tag == "Write" {
			if n.Pos == pos {
				handler = cur
				return true
			}
			return false
		}
		c := cur
		if t := tagName(n.Tag); t != "root" && t != "Interp" && t != "HRewrap" {
			c = t
		}
		for _, ch := range n.Children {
			if rec(ch, c) {
				return true
			}
		}
		return false
	}
	found = rec(root, "")
	return
}
