package main

import (
	"fmt"
	"os"
	"strings"

	"cvh/lib"

	"github.com/onflow/cadence/errors"
)

// observation = projected observables of one faulted run.
type observation struct {
	Scenario string   `json:"scenario"`
	Engine   string   `json:"engine"`
	Plan     []fault  `json:"plan"`
	Down     string   `json:"host_down_after_first,omitempty"`
	Obs      string   `json:"observed"`          // Coq obs term
	Carried  string   `json:"carried,omitempty"` // kind,index,mode of the injected failure found in the returned error
	External bool     `json:"external"`
	Fired    []string `json:"fired"` // injected failures that actually happened, in order
	Sites    []string `json:"handler_sites,omitempty"`
	After    int      `json:"calls_after_first_failure"`
	Escaped  string   `json:"escaped,omitempty"`
	Diff     int      `json:"ledger_keys_changed"`
	Types    []string `json:"error_types,omitempty"`
	Value    string   `json:"returned_value,omitempty"` // what a run that reported success returned
}

func sentinelString(s *injected) string {
	if s == nil {
		return ""
	}
	return fmt.Sprintf("%s,%d,%s", s.Kind, s.Index, modeNames[s.Mode])
}

var coqModes = []string{"MErr", "MPanicErr", "MPanicVal"}

func coqFault(kind string, index, mode int) string {
	return fmt.Sprintf("cb_%s %d%%nat %s", kind, index, coqModes[mode])
}

// coqObs projects a real outcome to the model's [obs].
func coqObs(r runResult, info errInfo) string {
	switch {
	case r.Escaped != nil:
		return "OInternal"
	case r.Err == nil:
		return "ONorm"
	case info.Carried != nil && strings.Contains(info.UserAbove, "InvalidPublicKeyError"):
		return "(OUserCarry " + coqFault(info.Carried.Kind, info.Carried.Index, info.Carried.Mode) + ")"
	case info.Carried != nil && info.External:
		return "(OHost " + coqFault(info.Carried.Kind, info.Carried.Index, info.Carried.Mode) + ")"
	case info.Carried == nil && errors.IsUserError(r.Err):
		return "OUserNone"
	default:
		return "OInternal"
	}
}

func contains(xs []string, x string) bool {
	for _, y := range xs {
		if y == x {
			return true
		}
	}
	return false
}

// undocumentedSite returns the innermost handler on the stack of an event that is not a documented
// exception of the property ("" if none).
func undocumentedSite(e event) string {
	var found []string
	for _, t := range handlerTags(e.Stack) {
		switch t {
		case "HIter", "HDropErr", "HNilOnErr":
			if !contains(found, t) {
				found = append(found, t)
			}
		}
	}
	return strings.Join(found, "+")
}

// excusedEvent: the documented exceptions, decided from the call stack of the failing call itself.
func excusedEvent(e event) bool {
	path := handlerTags(e.Stack)
	if contains(path, "HTry") {
		return true
	}
	return e.Kind == "ValidatePublicKey" && e.Fired != nil && e.Fired.Mode == ModeErr && contains(path, "HKeyVal")
}

func isMetricKind(k string) bool {
	return k == "ProgramParsed" || k == "ProgramChecked" || k == "ProgramInterpreted"
}

func inChecker(e event) bool {
	for _, fn := range e.Stack {
		if strings.Contains(fn, "sema.(*Checker)") {
			return true
		}
	}
	return false
}

type checker struct {
	sum     *lib.Summary
	w       *world
	cases   *lib.CaseWriter
	nontr   map[string]bool
	dev     bool
	firstOK int
	multi   int
	seenKey map[string]bool
}

func planString(plan []fault) string {
	var parts []string
	for _, p := range plan {
		parts = append(parts, fmt.Sprintf("%s#%d:%s", p.Kind, p.Index, modeNames[p.Mode]))
	}
	return strings.Join(parts, "+")
}

func coqPlan(plan []fault) string {
	var parts []string
	for _, p := range plan {
		parts = append(parts, fmt.Sprintf("(cb_%s, %d%%nat, %s)", p.Kind, p.Index, coqModes[p.Mode]))
	}
	return "[" + strings.Join(parts, "; ") + "]"
}

// judge applies the property directly to one faulted run and returns the observation and the violations.
func (c *checker) judge(sc scenario, vm bool, plan []fault, down string, r runResult) (observation, []string, errInfo) {
	info := analyse(r.Err)
	o := observation{
		Scenario: sc.Name, Engine: engineName(vm), Plan: plan, Down: down,
		Obs: coqObs(r, info), Carried: sentinelString(info.Carried), External: info.External,
		Diff: len(r.LedgerDiff), Types: info.Types,
	}
	if r.Err == nil && r.Value != nil {
		o.Value = fmt.Sprintf("%.120v", r.Value)
	}
	var bad []string
	if r.Escaped != nil {
		o.Escaped = fmt.Sprintf("%T: %.200v", r.Escaped, r.Escaped)
		bad = append(bad, "panic-escaped")
	}
	// unexcused failures, in order
	var unex []event
	var unexPos []int
	defect := false
	for i, e := range r.Trace {
		if e.Fired == nil {
			continue
		}
		o.Fired = append(o.Fired, sentinelString(e.Fired))
		if s := undocumentedSite(e); s != "" {
			defect = true
			o.Sites = append(o.Sites, s)
		}
		if excusedEvent(e) {
			continue
		}
		unex = append(unex, e)
		unexPos = append(unexPos, i)
	}
	if len(unex) == 0 || r.Escaped != nil {
		return o, bad, info
	}
	if len(o.Fired) > 1 && defect {
		// multi-fault run touching a handler that is reported by the single-fault enumeration already
		c.sum.Count("multi:skipped-undocumented-handler")
		return o, bad, info
	}
	first := unex[0].Fired
	firstPos := unexPos[0]
	o.After = len(r.Trace) - 1 - firstPos
	if r.Err == nil {
		bad = append(bad, "success-after-host-failure")
		return o, bad, info
	}
	invalidKey := first.Kind == "ValidatePublicKey" && first.Mode == ModeErr
	// the failure carried must be the first unexcused one; only a metrics callback (reported after a phase
	// even when the phase failed) may fail later and take its place
	// ... and, while a program is being checked, the checker collects returned errors and goes on: a later
	// PANIC ends the checking and is what the run reports (the collected errors are dropped with it).
	carriedOK := info.Carried == first
	collecting := first.Mode == ModeErr && inChecker(unex[0])
	for _, e := range unex[1:] {
		if info.Carried != e.Fired {
			continue
		}
		if isMetricKind(e.Kind) || (collecting && e.Fired.Mode != ModeErr) {
			carriedOK = true
		}
	}
	switch {
	case info.Carried == nil:
		bad = append(bad, "failure-not-carried")
	case !carriedOK:
		bad = append(bad, "different-failure-carried")
	case invalidKey:
		if !strings.Contains(info.UserAbove, "InvalidPublicKeyError") {
			bad = append(bad, "invalid-key-not-user-error")
		}
	case !info.External:
		bad = append(bad, "not-external-error")
	}
	if len(o.Fired) > 1 {
		c.multi++
		if info.Carried == first {
			c.firstOK++
		} else if c.dev {
			fmt.Printf("NOTFIRST %s [%s] %s%s fired=%v carried=%s\n   %s\n", sc.Name, o.Engine, planString(plan), down, o.Fired, o.Carried, traceString(r.Trace))
		}
	}
	// ledger: a failure before the commit phase must leave the ledger untouched; inside the commit
	// nothing may be written after the failed write.
	setBefore := 0
	for _, e := range r.Trace[:firstPos] {
		if e.Kind == "SetValue" {
			setBefore++
		}
	}
	if !(first.Kind == "SetValue") && setBefore == 0 && len(r.LedgerDiff) > 0 {
		bad = append(bad, "ledger-written")
	}
	if first.Kind == "SetValue" && len(r.LedgerDiff) > setBefore {
		bad = append(bad, "ledger-written")
	}
	for _, e := range r.Trace[firstPos+1:] {
		if e.Kind == "SetValue" && e.Fired == nil {
			bad = append(bad, "write-after-failure")
			break
		}
	}
	return o, bad, info
}

func (c *checker) report(sc scenario, o observation, bad []string, r runResult) {
	for _, b := range bad {
		site, kind, mode := "-", "-", "-"
		for _, e := range r.Trace {
			if e.Fired != nil && !excusedEvent(e) {
				kind, mode = e.Kind, modeNames[e.Fired.Mode]
				if s := undocumentedSite(e); s != "" {
					site = s
				}
				break
			}
		}
		key := fmt.Sprintf("%s:%s:%s:%s", b, site, kind, mode)
		what := fmt.Sprintf("%s [%s] fault %s%s: %s (observed=%s carried=%q external=%v fired=%v calls-after=%d error-types=%v)",
			sc.Name, o.Engine, planString(o.Plan), o.Down, b, o.Obs, o.Carried, o.External, o.Fired, o.After, o.Types)
		if c.dev {
			fmt.Println("DEV", key, "|", what)
		}
		c.sum.Count("violation:" + key)
		if c.seenKey[key] {
			continue
		}
		c.seenKey[key] = true
		c.sum.Fail(key, what, map[string]any{"observation": o, "source": sc.Src, "violated": b,
			"how": "harness/c28: run the scenario on the snapshot world with the plan injected (C28_PLAN=... -mode probe -only " + sc.Name + ")"})
	}
}

// comparablePair: may the model (built from the baseline trace) be compared on this two-fault plan?
func comparablePair(root *node, base []event, p1, p2 int, m1 int) bool {
	if p1 >= p2 {
		return false
	}
	h1, _ := regionOf(root, p1)
	h2, _ := regionOf(root, p2)
	if base[p2].Kind == "ProgramInterpreted" && h2 == "" {
		// (anything, the metrics report that follows): the run reaches the report after a failure
		return !(inChecker(base[p1]) && m1 == ModeErr) && (h1 == "" || h1 == "HKeyVal")
	}
	// first fault swallowed by tryUpdate / BLS nil-on-error, second one after that region
	if (h1 == "HTry" || h1 == "HNilOnErr") && h2 == "" {
		return !inChecker(base[p2]) || true
	}
	return false
}

func runMode(sum *lib.Summary) {
	recordStacks = true
	w, err := buildWorld()
	if err != nil {
		fmt.Fprintln(os.Stderr, "world:", err)
		os.Exit(1)
	}
	rng := lib.NewRng(*seed)
	c := &checker{sum: sum, w: w, nontr: map[string]bool{}, dev: os.Getenv("C28_DEV") != "", seenKey: map[string]bool{}}
	nPairs, nDown := 25, 6
	if *tier == "thorough" {
		nPairs, nDown = 400, 40
	}

	type prog struct {
		name string
		term string
	}
	var progs []prog
	type pending struct {
		prog string
		plan []fault
		obs  observation
	}
	var cases []pending

	for _, sc := range scenarios {
		if *only != "" && sc.Name != *only {
			continue
		}
		for _, vm := range engines() {
			base := w.run(sc, vm, nil, false, 0)
			if base.Err != nil || base.Escaped != nil {
				sum.Fail("baseline:"+sc.Name+":"+engineName(vm), fmt.Sprintf("baseline run of corpus scenario fails: %v %v", base.Err, base.Escaped),
					map[string]any{"scenario": sc.Name, "engine": engineName(vm), "source": sc.Src})
				continue
			}
			sum.Count("scenario:" + sc.Name + ":" + engineName(vm))
			root, perr := buildProgram(base.Trace)
			pname := "prog_" + sc.Name + "_" + engineName(vm)
			modelOK := perr == nil
			if modelOK {
				progs = append(progs, prog{pname, coqCmd(root)})
			} else {
				sum.Count("model-program-unavailable:" + sc.Name)
			}
			if c.dev {
				fmt.Printf("PROG %s := %s\n", pname, coqCmd(root))
			}
			one := func(plan []fault, down bool, downMode int, compare bool) (observation, runResult) {
				r := w.run(sc, vm, plan, down, downMode)
				sum.Evaluations++
				ds := ""
				if down {
					ds = "+host-down:" + modeNames[downMode]
				}
				o, bad, _ := c.judge(sc, vm, plan, ds, r)
				c.nontr[sc.Name+"|"+engineName(vm)+"|"+planString(plan)+ds] = len(r.Fired) == len(plan) || down
				if len(r.Fired) == 0 {
					bad = append(bad, "fault-not-reached")
				}
				c.report(sc, o, bad, r)
				sum.Count("observed:" + strings.Fields(strings.Trim(o.Obs, "()"))[0])
				if compare && modelOK {
					// bulk scenarios: all runs are judged directly; the model is compared on every 4th ledger access
					sample := !sc.Bulk
					if sc.Bulk {
						for _, p := range plan {
							if (p.Kind != "GetValue" && p.Kind != "SetValue") || p.Index%4 == 0 {
								sample = true
							}
						}
					}
					if sample {
						cases = append(cases, pending{pname, plan, o})
					}
				}
				if len(sum.Samples) < 6 && len(r.Fired) > 0 && (sum.Evaluations%97 == 0) {
					sum.Sample(o)
				}
				return o, r
			}
			// every (kind, index) x {error, panic(error), panic(value)}
			for _, e := range base.Trace {
				modes := []int{ModeErr, ModePanicErr, ModePanicVal}
				if !kindHasErr(e.Kind) {
					modes = []int{ModePanicErr, ModePanicVal}
				}
				for _, m := range modes {
					one([]fault{{e.Kind, e.Index, m}}, false, 0, true)
					sum.Count("kind:" + e.Kind)
					sum.Count("mode:" + modeNames[m])
				}
			}
			// pairs of failures: all structurally interesting ones + random ones
			n := len(base.Trace)
			modeFor := func(e event) int {
				if kindHasErr(e.Kind) {
					return rng.Intn(3)
				}
				return 1 + rng.Intn(2)
			}
			for p1 := 0; p1 < n; p1++ {
				h1, _ := regionOf(root, p1)
				if h1 != "HTry" && h1 != "HNilOnErr" && h1 != "HIter" {
					continue
				}
				// a swallowed failure followed by a failure after the region
				for tries := 0; tries < 3; tries++ {
					p2 := p1 + 1 + rng.Intn(n-p1)
					if p2 >= n {
						continue
					}
					m1, m2 := modeFor(base.Trace[p1]), modeFor(base.Trace[p2])
					plan := []fault{{base.Trace[p1].Kind, base.Trace[p1].Index, m1}, {base.Trace[p2].Kind, base.Trace[p2].Index, m2}}
					one(plan, false, 0, comparablePair(root, base.Trace, p1, p2, m1))
					sum.Count("pairs:swallowed-then-later")
				}
			}
			for i := 0; i < nPairs; i++ {
				p1 := rng.Intn(n)
				p2 := rng.Intn(n)
				if p1 == p2 {
					continue
				}
				if p1 > p2 {
					p1, p2 = p2, p1
				}
				if i%5 == 0 {
					// bias: the metrics report that follows
					for q := p1 + 1; q < n; q++ {
						if base.Trace[q].Kind == "ProgramInterpreted" {
							p2 = q
							break
						}
					}
				}
				m1, m2 := modeFor(base.Trace[p1]), modeFor(base.Trace[p2])
				plan := []fault{{base.Trace[p1].Kind, base.Trace[p1].Index, m1}, {base.Trace[p2].Kind, base.Trace[p2].Index, m2}}
				one(plan, false, 0, comparablePair(root, base.Trace, p1, p2, m1))
				sum.Count("pairs:random")
			}
			// the host goes down: everything after the first failure fails too
			for i := 0; i < nDown; i++ {
				p1 := rng.Intn(n)
				m1 := modeFor(base.Trace[p1])
				one([]fault{{base.Trace[p1].Kind, base.Trace[p1].Index, m1}}, true, rng.Intn(3), false)
				sum.Count("host-down-runs")
			}
		}
	}

	// Coq case files: the programs (from the baseline call stacks) are definitions in the header
	var hdr strings.Builder
	hdr.WriteString("From CV Require Import C28.Cases.\n")
	for _, p := range progs {
		fmt.Fprintf(&hdr, "Definition %s : cmd := %s.\n", p.name, p.term)
	}
	cw := &lib.CaseWriter{
		Dir: *dir, Prefix: "cases_C28", Header: hdr.String(),
		ElemType: "cmd * plan * obs", CheckFn: "check_case", PerFile: 180,
	}
	for _, pc := range cases {
		cw.Add(fmt.Sprintf("(%s, %s, %s)", pc.prog, coqPlan(pc.plan), pc.obs.Obs), pc.obs)
	}
	cw.Close()
	sum.CaseFiles = cw.Files

	nn := 0
	for _, v := range c.nontr {
		if v {
			nn++
		}
	}
	sum.DistinctNontrivial = nn
	sum.Rule = "a run is non-trivial when every planned fault was actually reached (the injected failure fired) in it"
	sum.Extra = map[string]any{
		"model_cases":                         len(cases),
		"multi_fault_runs_judged":             c.multi,
		"multi_fault_runs_carrying_the_first": c.firstOK,
		"model_programs":                      len(progs),
	}
}
