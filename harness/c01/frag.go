package main

import "cvh/lib"

// RunFragment generates programs of the modelled fragment (see main.go). STUB - to be implemented.
func RunFragment(rng *lib.Rng, tier string, dir string, sum *lib.Summary) {}
