// Harness of property C01 (checker-accepted programs never fail with internal errors).
//
//	direct*.go : the direct monitor - a rich generator of checker-accepted Cadence programs, run in both
//	             engines; any internal error / unexpected error / Go panic is a finding (independent of the model)
//	frag/*.go  : the modelled fragment (package cvh/c01/frag) - typed mini-Cadence programs emitted as Cadence source and as Coq terms,
//	             run in both engines and written to Coq case files (verdict + outcome correspondence)
//	probe.go   : development aid (-probe file)
package main

import (
	"flag"
	"fmt"
	"os"

	"cvh/c01/frag"
	"cvh/lib"
)

func main() {
	prop := flag.String("prop", "C01", "property id")
	seed := flag.Uint64("seed", 1, "seed")
	tier := flag.String("tier", "quick", "tier")
	dir := flag.String("dir", ".", "work dir")
	probe := flag.String("probe", "", "run the scripts of this file and print outcomes")
	only := flag.String("only", "", "run only one leg: direct | frag")
	flag.Parse()
	if *probe != "" {
		probeMode(*probe)
		return
	}
	if *prop != "C01" {
		fmt.Fprintln(os.Stderr, "unknown property", *prop)
		os.Exit(2)
	}
	sum := &lib.Summary{Distribution: map[string]int{}, Extra: map[string]any{}}
	if *only == "" || *only == "direct" {
		// independent streams: the direct monitor and the fragment generator do not share random state
		RunDirect(lib.NewRng(*seed*2+1), *tier, sum)
	}
	if *only == "" || *only == "frag" {
		frag.RunFragment(lib.NewRng(*seed*2), *tier, *dir, sum)
	}
	sum.Rule = "a generated program counts as non-trivial when the real checker accepts it and it executes at least one " +
		"statement beyond `return <literal>` in both engines; distinct = distinct program texts"
	sum.Write(*dir)
}
