package main

// Direct monitor of C01: every program the real checker accepts is executed by the interpreter and by
// the VM; an internal / unexpected / defensive error or a Go panic is a finding, reported with the
// shrunk program as replay. Independent of the Coq model.
//
//	direct.go           orchestration, statistics, reporting
//	direct_classify.go  outcome classes, failure keys (syntactic detectors on the shrunk program)
//	direct_scenario.go  scenarios, execution, corpus, shrinker
//	direct_types.go     type universe of the generator
//	direct_gen*.go      type-directed generators (scripts, resources, contracts/transactions)
//	direct_mutate.go    mutation operators on accepted programs

import (
	"fmt"
	"hash/fnv"
	"os"
	"sort"
	"strings"

	"cvh/lib"
)

type dmDirect struct {
	rng  *lib.Rng
	sum  *lib.Summary
	seen map[uint64]bool

	generated, accepted, rejected int
	mutTried, mutAccepted         int
	executions                    int
	perKey                        map[string]int
	reportedIndep                 map[string]bool
	samples                       int
	debug                         bool
	rejectReasons                 map[string]int
	externals                     map[string]int
	externalSamples               []any
}

func dmHashText(s string) uint64 {
	h := fnv.New64a()
	h.Write([]byte(s))
	return h.Sum64()
}

// RunDirect is the direct no-internal-error monitor (see main.go).
func RunDirect(rng *lib.Rng, tier string, sum *lib.Summary) {
	d := &dmDirect{rng: rng, sum: sum, seen: map[uint64]bool{}, perKey: map[string]int{},
		reportedIndep: map[string]bool{}, rejectReasons: map[string]int{}, externals: map[string]int{},
		debug: os.Getenv("C01_DEBUG") != ""}
	if sum.Distribution == nil {
		sum.Distribution = map[string]int{}
	}
	// atree's validation dumps slabs to stdout when a check fails; keep the harness output clean
	if devnull, err := os.OpenFile(os.DevNull, os.O_WRONLY, 0); err == nil {
		saved := os.Stdout
		os.Stdout = devnull
		defer func() { os.Stdout = saved; devnull.Close() }()
	}
	d.runCorpus()
	if os.Getenv("C01_CORPUS_ONLY") != "" {
		return // development aid
	}

	nScripts, nScen, mutPer := 260, 45, 3
	if tier == "thorough" {
		nScripts, nScen = nScripts*15, nScen*15
	}
	for i := 0; i < nScripts; i++ {
		g := dmNewGen(lib.NewRng(rng.U64()))
		sc := dmSafeGen(sum, g.script)
		if sc == nil {
			continue
		}
		d.generated++
		ok := d.process(sc)
		if !ok {
			continue
		}
		// mutants of accepted programs: kept when the real checker still accepts them
		mr := lib.NewRng(rng.U64())
		for m := 0; m < mutPer; m++ {
			ms := dmMutate(mr, sc)
			if ms == nil {
				continue
			}
			d.mutTried++
			if d.process(ms) {
				d.mutAccepted++
			}
		}
	}
	for i := 0; i < nScen; i++ {
		g := dmNewGen(lib.NewRng(rng.U64()))
		sc := dmSafeGen(sum, g.scenario)
		if sc == nil {
			continue
		}
		d.generated++
		ok := d.process(sc)
		if !ok {
			continue
		}
		mr := lib.NewRng(rng.U64())
		for m := 0; m < 2; m++ {
			ms := dmMutate(mr, sc)
			if ms == nil {
				continue
			}
			d.mutTried++
			if d.process(ms) {
				d.mutAccepted++
			}
		}
	}

	// attachment operations on values of every kind (see direct_attachkinds.go)
	nAK := 60
	if tier == "thorough" {
		nAK = 600
	}
	for _, sc := range dmAttachmentKindScripts(lib.NewRng(rng.U64()), nAK) {
		d.mutTried++
		if d.process(sc) {
			d.mutAccepted++
			sum.Count("direct:attachment-kinds:accepted")
		} else {
			sum.Count("direct:attachment-kinds:rejected-or-duplicate")
		}
	}

	// guard / if-let / loop / switch control-flow shapes (see direct_guardshapes.go), exhaustive
	for _, sc := range dmGuardShapeScripts() {
		d.mutTried++
		if d.process(sc) {
			d.mutAccepted++
			sum.Count("direct:guard-shapes:accepted")
		} else {
			sum.Count("direct:guard-shapes:rejected-or-duplicate")
		}
	}

	sum.Evaluations += d.executions
	sum.DistinctNontrivial += d.accepted
	ratio := 0.0
	if d.generated > 0 {
		ratio = float64(d.accepted-d.mutAccepted) / float64(d.generated)
	}
	mratio := 0.0
	if d.mutTried > 0 {
		mratio = float64(d.mutAccepted) / float64(d.mutTried)
	}
	if sum.Extra == nil {
		sum.Extra = map[string]any{}
	}
	sum.Extra["direct"] = map[string]any{
		"generated":                 d.generated,
		"accepted_generated":        d.accepted - d.mutAccepted,
		"acceptance_ratio":          fmt.Sprintf("%.3f", ratio),
		"mutants_tried":             d.mutTried,
		"mutants_accepted":          d.mutAccepted,
		"mutant_acceptance_ratio":   fmt.Sprintf("%.3f", mratio),
		"accepted_distinct_total":   d.accepted,
		"executions":                d.executions,
		"failures_per_key":          d.perKey,
		"checker_rejection_reasons": dmTopN(d.rejectReasons, 12),
		"external_error_outcomes":   d.externals,
		"external_error_samples":    d.externalSamples,
	}
}

// dmSafeGen: a defect of the generator itself must not take the check down; it is counted instead.
func dmSafeGen(sum *lib.Summary, f func() *dmScenario) (sc *dmScenario) {
	defer func() {
		if r := recover(); r != nil {
			sum.Count("direct:generator-panic")
			sc = nil
		}
	}()
	return f()
}

func dmTopN(m map[string]int, n int) map[string]int {
	type kv struct {
		k string
		v int
	}
	var xs []kv
	for k, v := range m {
		xs = append(xs, kv{k, v})
	}
	sort.Slice(xs, func(i, j int) bool {
		if xs[i].v != xs[j].v {
			return xs[i].v > xs[j].v
		}
		return xs[i].k < xs[j].k
	})
	out := map[string]int{}
	for i, x := range xs {
		if i >= n {
			break
		}
		out[x.k] = x.v
	}
	return out
}

// runCorpus replays the minimized past failing cases first, so that known findings are reported on
// every run independently of the seed.
func (d *dmDirect) runCorpus() {
	scs, names := dmLoadCorpus()
	for i, sc := range scs {
		i0 := i
		d.sum.Count("direct:corpus:files")
		engines := []bool{false, true}
		switch sc.Engine {
		case "interpreter":
			engines = []bool{false}
		case "vm":
			engines = []bool{true}
		}
		reproduced := false
		for _, vm := range engines {
			res, f := dmRunScenario(sc, vm)
			d.executions += len(res)
			if d.debug {
				for i, r := range res {
					fmt.Fprintf(os.Stderr, "corpus %s vm=%v step %d: class=%q %s\n", names[i0], vm, i, r.V.Class, dmTrimTo(r.Err, 300))
				}
			}
			if f < 0 {
				continue
			}
			v := res[f].V
			key := dmFailureKey(v, dmEngineName(vm), sc, f)
			if key == sc.Key {
				reproduced = true
			}
			d.report(key, v, vm, sc, sc, f, res[f].Err, "corpus/C01/"+names[i])
		}
		if reproduced {
			d.sum.Count("direct:corpus:reproduced")
		} else {
			d.sum.Count("direct:corpus:not-reproduced")
		}
	}
}

// report records one failure (engine-independent keys once per run and program).
func (d *dmDirect) report(key string, v dmVerdict, vm bool, shrunk, orig *dmScenario, failing int, errText string, origin string) {
	if dmEngineIndependent(key) {
		id := key + "|" + fmt.Sprint(dmHashText(orig.programText()))
		if d.reportedIndep[id] {
			return
		}
		d.reportedIndep[id] = true
	}
	d.perKey[key]++
	d.sum.Count("direct:failure:" + v.Class)
	if len(errText) > 600 {
		errText = errText[:600]
	}
	replay := map[string]any{
		"engine": dmEngineName(vm),
		"error":  errText,
		"origin": origin,
	}
	if len(shrunk.Steps) == 1 && shrunk.Steps[0].Kind == "script" {
		replay["program"] = shrunk.Steps[0].Code
	} else {
		replay["program"] = shrunk.Steps
	}
	if len(orig.Steps) == 1 && orig.Steps[0].Kind == "script" {
		replay["original"] = orig.Steps[0].Code
	} else {
		replay["original"] = orig.Steps
	}
	if orig.Mutant != "" {
		replay["mutation"] = orig.Mutant
	}
	what := fmt.Sprintf("checker-accepted program fails in the %s with %s (%s): %s", dmEngineName(vm), v.Class, v.GoType, v.Msg)
	if v.Frame != "" {
		what += " [raised in " + v.Frame + "]"
	}
	d.sum.Fail(key, what, replay)
}

// process runs one generated program / scenario in both engines; returns whether the real checker
// accepted it (all steps).
func (d *dmDirect) process(sc *dmScenario) bool {
	text := sc.programText()
	h := dmHashText(text)
	if d.seen[h] {
		d.sum.Count("direct:duplicate")
		return false
	}
	d.seen[h] = true

	resI, fI := dmRunScenario(sc, false)
	d.executions += len(resI)
	acceptedAll := true
	for _, r := range resI {
		if r.V.Class == "checker" || r.V.Class == "parse" {
			acceptedAll = false
			if d.debug {
				fmt.Fprintf(os.Stderr, "---- REJECTED (%s) mutant=%q\n%s\n%s\n", r.V.Class, sc.Mutant, text, dmTrimTo(r.Err, 1500))
			}
			if sc.Mutant == "" {
				d.rejectReasons[dmRejectionReason(r.Err)]++
			}
		}
	}
	// a rejected single program is not in the property's domain (unless the checker itself crashed)
	if !acceptedAll && fI < 0 && (len(sc.Steps) == 1 || sc.Mutant != "") {
		d.rejected++
		if sc.Mutant == "" {
			d.sum.Count("direct:rejected:generated")
		} else {
			d.sum.Count("direct:rejected:mutant")
		}
		return false
	}
	resV, fV := dmRunScenario(sc, true)
	d.executions += len(resV)

	if acceptedAll {
		d.accepted++
		dmKind := "script"
		if len(sc.Steps) > 1 {
			dmKind = "scenario"
		}
		if sc.Mutant != "" {
			d.sum.Count("direct:accepted:mutant:" + dmKind)
			for _, m := range strings.Split(sc.Mutant, "+") {
				d.sum.Count("direct:mutation:" + m)
			}
		} else {
			d.sum.Count("direct:accepted:generated:" + dmKind)
		}
		for _, f := range sc.Features {
			d.sum.Count("direct:feature:" + f)
		}
	} else {
		d.rejected++
		d.sum.Count("direct:rejected:scenario-step")
	}
	for _, x := range []struct {
		res []dmStepResult
		vm  bool
	}{{resI, false}, {resV, true}} {
		for i, r := range x.res {
			cls := r.V.Class
			if cls == "" {
				cls = "ok"
			}
			d.sum.Count("direct:outcome:" + cls + ":" + dmEngineName(x.vm))
			if cls == "user" {
				d.sum.Count("direct:usererror:" + r.V.GoType)
			}
			if d.debug && x.vm && i < len(resI) && (cls == "checker") != (resI[i].V.Class == "checker") {
				fmt.Fprintf(os.Stderr, "---- ENGINES DISAGREE ON REJECTION step %d: interpreter=%q vm=%q\n%s\n%s\n", i, resI[i].V.Class, cls, sc.Steps[i].Code, dmTrimTo(r.Err, 1500))
			}
			if d.debug && (cls == "external" || cls == "internal" || cls == "crash" || (cls == "user" && os.Getenv("C01_DEBUG") == "2")) {
				fmt.Fprintf(os.Stderr, "---- OUTCOME %s engine=%s step %d detail=%s\n%s\n%s\n", cls, dmEngineName(x.vm), i, r.V.Detail(), sc.Steps[i].Code, dmTrimTo(r.Err, 1200))
			}
		}
	}
	if d.samples < 3 && acceptedAll && (d.samples == 0 || (d.samples == 1 && sc.Mutant != "") || (d.samples == 2 && len(sc.Steps) > 1)) {
		d.samples++
		d.sum.Sample(map[string]any{"leg": "direct", "steps": sc.Steps, "mutation": sc.Mutant,
			"interpreter": dmLastClass(resI), "vm": dmLastClass(resV)})
	}
	// host-class ("external") errors are not failures of the property, but none is expected: the
	// harness host never fails. They are reported as observations (shrunk) in extra.direct.
	for _, x := range []struct {
		res []dmStepResult
		vm  bool
	}{{resI, false}, {resV, true}} {
		for i, r := range x.res {
			if r.V.Class == "external" {
				d.observeExternal(sc, x.vm, r, i)
				break
			}
		}
	}
	if fI >= 0 {
		d.fail(sc, false, resI, fI)
	}
	if fV >= 0 {
		d.fail(sc, true, resV, fV)
	}
	return acceptedAll
}

func dmLastClass(res []dmStepResult) string {
	if len(res) == 0 {
		return ""
	}
	c := res[len(res)-1].V.Class
	if c == "" {
		return "ok"
	}
	return c
}

func dmTrimTo(s string, n int) string {
	if len(s) > n {
		return s[:n]
	}
	return s
}

// rejectionReason extracts the first checker error message line (statistics on generator quality).
func dmRejectionReason(errText string) string {
	for _, l := range strings.Split(errText, "\n") {
		l = strings.TrimSpace(l)
		if strings.HasPrefix(l, "error:") {
			return dmTrimTo(dmNormMsg(strings.TrimPrefix(l, "error:")), 70)
		}
	}
	return "?"
}

// observeExternal records (at most 3 per message, shrunk) programs ending in an ExternalError.
func (d *dmDirect) observeExternal(sc *dmScenario, vm bool, r dmStepResult, step int) {
	key := dmEngineName(vm) + ":" + r.V.GoType + ":" + dmNormMsg(r.V.Msg)
	d.externals[key]++
	if d.externals[key] > 1 || len(d.externalSamples) >= 6 {
		return
	}
	shrunk, runs := dmShrinkScenario(sc, vm, r.V, step, 200)
	d.executions += runs
	var prog any = shrunk.Steps
	if len(shrunk.Steps) == 1 {
		prog = shrunk.Steps[0].Code
	}
	d.externalSamples = append(d.externalSamples, map[string]any{"what": key, "engine": dmEngineName(vm),
		"error": dmTrimTo(r.Err, 400), "program": prog})
}

// fail shrinks a failing program and reports it under its narrow key.
func (d *dmDirect) fail(sc *dmScenario, vm bool, res []dmStepResult, f int) {
	v := res[f].V
	budget := 250
	preKey := dmFailureKey(v, dmEngineName(vm), sc, f)
	if d.perKey[preKey] >= 4 {
		budget = 60
	}
	shrunk, runs := dmShrinkScenario(sc, vm, v, f, budget)
	d.executions += runs
	fs := len(shrunk.Steps) - 1
	key := dmFailureKey(v, dmEngineName(vm), shrunk, fs)
	origin := "generated"
	if sc.Mutant != "" {
		origin = "mutant:" + sc.Mutant
	}
	d.report(key, v, vm, shrunk, sc, fs, res[f].Err, origin)
}
