package main

import "cvh/lib"

// RunDirect is the direct no-internal-error monitor (see main.go). STUB - to be implemented.
func RunDirect(rng *lib.Rng, tier string, sum *lib.Summary) {}
