package main

// Type universe of the direct monitor's program generator.

import (
	"strings"
)

type kind int

const (
	kInt kind = iota // every number type (name = Int, Int8, UInt64, Word8, UFix64, Fix64, ...)
	kBool
	kString
	kAddress
	kChar
	kOpt
	kArr
	kCArr
	kDict
	kStruct
	kRes
	kEnum
	kRef
	kFun
	kAnyStruct
	kAnyRes
	kIface // intersection {I}
	kRange // InclusiveRange<Int>
	kVoid
)

// qualCtx: how types declared in a contract are named: unqualified inside the contract,
// with the contract prefix outside.
type qualCtx struct {
	prefix  string
	outside bool
}

func (q *qualCtx) name(n string) string {
	if q != nil && q.outside {
		return q.prefix + n
	}
	return n
}

type ty struct {
	q      *qualCtx
	k      kind
	name   string
	elem   *ty
	key    *ty
	n      int
	params []*ty
	ret    *ty
	auth   string
	comp   *comp
	iface  *iface
}

var (
	tInt       = &ty{k: kInt, name: "Int"}
	tInt8      = &ty{k: kInt, name: "Int8"}
	tInt64     = &ty{k: kInt, name: "Int64"}
	tUInt8     = &ty{k: kInt, name: "UInt8"}
	tUInt64    = &ty{k: kInt, name: "UInt64"}
	tWord8     = &ty{k: kInt, name: "Word8"}
	tUFix64    = &ty{k: kInt, name: "UFix64"}
	tFix64     = &ty{k: kInt, name: "Fix64"}
	tInt256    = &ty{k: kInt, name: "Int256"}
	tUInt      = &ty{k: kInt, name: "UInt"}
	tBool      = &ty{k: kBool, name: "Bool"}
	tString    = &ty{k: kString, name: "String"}
	tAddress   = &ty{k: kAddress, name: "Address"}
	tChar      = &ty{k: kChar, name: "Character"}
	tAnyStruct = &ty{k: kAnyStruct, name: "AnyStruct"}
	tAnyRes    = &ty{k: kAnyRes, name: "AnyResource"}
	tVoid      = &ty{k: kVoid, name: "Void"}
	tRange     = &ty{k: kRange, name: "InclusiveRange<Int>"}

	numTypes = []*ty{tInt, tInt, tInt, tInt8, tInt64, tUInt8, tUInt64, tWord8, tUFix64, tFix64, tInt256, tUInt}
)

func opt(t *ty) *ty         { return &ty{k: kOpt, elem: t} }
func arr(t *ty) *ty         { return &ty{k: kArr, elem: t} }
func carr(t *ty, n int) *ty { return &ty{k: kCArr, elem: t, n: n} }
func dict(k, v *ty) *ty     { return &ty{k: kDict, key: k, elem: v} }
func ref(t *ty) *ty         { return &ty{k: kRef, elem: t} }
func aref(auth string, t *ty) *ty {
	return &ty{k: kRef, elem: t, auth: auth}
}
func fun(ret *ty, params ...*ty) *ty { return &ty{k: kFun, params: params, ret: ret} }

func (t *ty) isRes() bool {
	switch t.k {
	case kRes, kAnyRes:
		return true
	case kIface:
		return t.iface.isRes
	case kOpt, kArr, kCArr, kDict:
		return t.elem.isRes()
	}
	return false
}

func (t *ty) isSigned() bool {
	return t.k == kInt && (strings.HasPrefix(t.name, "Int") || t.name == "Fix64")
}
func (t *ty) isFix() bool  { return t.k == kInt && strings.HasSuffix(t.name, "Fix64") }
func (t *ty) isWord() bool { return t.k == kInt && strings.HasPrefix(t.name, "Word") }

// String renders the type without the resource marker.
func (t *ty) String() string {
	switch t.k {
	case kOpt:
		if t.elem.k == kRef || t.elem.k == kFun {
			return "(" + t.elem.String() + ")?"
		}
		return t.elem.String() + "?"
	case kArr:
		return "[" + t.elem.String() + "]"
	case kCArr:
		return "[" + t.elem.String() + "; " + itoa(t.n) + "]"
	case kDict:
		return "{" + t.key.String() + ": " + t.elem.String() + "}"
	case kRef:
		if t.auth != "" {
			return "auth(" + t.auth + ") &" + t.elem.String()
		}
		return "&" + t.elem.String()
	case kFun:
		var ps []string
		for _, p := range t.params {
			ps = append(ps, p.anno())
		}
		return "fun(" + strings.Join(ps, ", ") + "): " + t.ret.anno()
	case kIface:
		return "{" + t.q.name(t.name) + "}"
	case kStruct, kRes, kEnum:
		return t.q.name(t.name)
	}
	return t.name
}

// anno renders the type as an annotation (with @ for resources).
func (t *ty) anno() string {
	if t.isRes() {
		return "@" + t.String()
	}
	return t.String()
}

func (t *ty) eq(u *ty) bool { return t.String() == u.String() }

func itoa(n int) string {
	if n == 0 {
		return "0"
	}
	neg := n < 0
	if neg {
		n = -n
	}
	var b []byte
	for n > 0 {
		b = append([]byte{byte('0' + n%10)}, b...)
		n /= 10
	}
	if neg {
		return "-" + string(b)
	}
	return string(b)
}

// sub: static subtyping as far as the generator relies on it (sound, not complete).
func sub(a, b *ty) bool {
	if a.eq(b) {
		return true
	}
	switch b.k {
	case kAnyStruct:
		return !a.isRes()
	case kAnyRes:
		return a.isRes()
	case kOpt:
		if a.k == kOpt {
			return sub(a.elem, b.elem)
		}
		return sub(a, b.elem)
	case kArr:
		return a.k == kArr && sub(a.elem, b.elem)
	case kCArr:
		return a.k == kCArr && a.n == b.n && sub(a.elem, b.elem)
	case kDict:
		return a.k == kDict && a.key.eq(b.key) && sub(a.elem, b.elem)
	case kIface:
		if (a.k == kStruct || a.k == kRes) && a.comp != nil {
			return a.comp.conforms(b.iface)
		}
	case kRef:
		if a.k != kRef {
			return false
		}
		if b.auth != "" && a.auth != b.auth {
			return false
		}
		if a.elem.eq(b.elem) {
			return true
		}
		// &S <: &{I}, &S <: &AnyStruct
		switch b.elem.k {
		case kAnyStruct, kAnyRes, kIface:
			return sub(a.elem, b.elem)
		}
	}
	return false
}

// ------------------------------------------------------------------ declarations

type param struct {
	label string // "_" : no label; "" : label = name
	name  string
	t     *ty
}

type fnDecl struct {
	q        *qualCtx
	name     string
	params   []param
	ret      *ty
	qual     string // prefix for calls from outside ("C." for contract functions)
	view     bool
	access   string // entitlement required through references ("" = access(all))
	mutating bool   // changes self
}

func (f *fnDecl) ftype() *ty {
	var ps []*ty
	for _, p := range f.params {
		ps = append(ps, p.t)
	}
	return fun(f.ret, ps...)
}

type field struct {
	name   string
	t      *ty
	mut    bool
	access string // "all" | "self" | entitlement name | "mapping M"
}

type iface struct {
	q       *qualCtx
	name    string
	isRes   bool
	methods []*fnDecl
	fields  []field
	parents []*iface
	qual    string
}

func (i *iface) ref() string { return i.q.name(i.name) }

func (i *iface) ty() *ty { return &ty{k: kIface, name: i.name, iface: i, q: i.q} }

func (i *iface) allMethods() []*fnDecl {
	out := append([]*fnDecl{}, i.methods...)
	for _, p := range i.parents {
		out = append(out, p.allMethods()...)
	}
	return out
}

func (i *iface) extends(j *iface) bool {
	if i == j {
		return true
	}
	for _, p := range i.parents {
		if p.extends(j) {
			return true
		}
	}
	return false
}

type comp struct {
	name    string
	isRes   bool
	fields  []field
	methods []*fnDecl
	conf    []*iface
	qual    string
	t       *ty
	atts    []*attachment
}

func (c *comp) conforms(i *iface) bool {
	for _, j := range c.conf {
		if j.extends(i) {
			return true
		}
	}
	return false
}

func (c *comp) allMethods() []*fnDecl {
	out := append([]*fnDecl{}, c.methods...)
	for _, i := range c.conf {
		for _, m := range i.allMethods() {
			dup := false
			for _, o := range out {
				if o.name == m.name {
					dup = true
				}
			}
			if !dup {
				out = append(out, m)
			}
		}
	}
	return out
}

func (c *comp) field(name string) *field {
	for i := range c.fields {
		if c.fields[i].name == name {
			return &c.fields[i]
		}
	}
	return nil
}

type attachment struct {
	q       *qualCtx
	name    string
	base    *comp
	methods []*fnDecl
}

type enumDecl struct {
	name  string
	cases []string
	t     *ty
}
