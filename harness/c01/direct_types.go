package main

// Type universe of the direct monitor's program generator.

import (
	"strings"
)

type dmKind int

const (
	dmKInt dmKind = iota // every number type (name = Int, Int8, UInt64, Word8, UFix64, Fix64, ...)
	dmKBool
	dmKString
	dmKAddress
	dmKChar
	dmKOpt
	dmKArr
	dmKCArr
	dmKDict
	dmKStruct
	dmKRes
	dmKEnum
	dmKRef
	dmKFun
	dmKAnyStruct
	dmKAnyRes
	dmKIface // intersection {I}
	dmKRange // InclusiveRange<Int>
	dmKVoid
)

// qualCtx: how types declared in a contract are named: unqualified inside the contract,
// with the contract prefix outside.
type dmQualCtx struct {
	prefix  string
	outside bool
}

func (q *dmQualCtx) name(n string) string {
	if q != nil && q.outside {
		return q.prefix + n
	}
	return n
}

type dmTy struct {
	q      *dmQualCtx
	k      dmKind
	name   string
	elem   *dmTy
	key    *dmTy
	n      int
	params []*dmTy
	ret    *dmTy
	auth   string
	comp   *dmComp
	iface  *dmIface
}

var (
	dmTInt       = &dmTy{k: dmKInt, name: "Int"}
	dmTInt8      = &dmTy{k: dmKInt, name: "Int8"}
	dmTInt64     = &dmTy{k: dmKInt, name: "Int64"}
	dmTUInt8     = &dmTy{k: dmKInt, name: "UInt8"}
	dmTUInt64    = &dmTy{k: dmKInt, name: "UInt64"}
	dmTWord8     = &dmTy{k: dmKInt, name: "Word8"}
	dmTUFix64    = &dmTy{k: dmKInt, name: "UFix64"}
	dmTFix64     = &dmTy{k: dmKInt, name: "Fix64"}
	dmTInt256    = &dmTy{k: dmKInt, name: "Int256"}
	dmTUInt      = &dmTy{k: dmKInt, name: "UInt"}
	dmTBool      = &dmTy{k: dmKBool, name: "Bool"}
	dmTString    = &dmTy{k: dmKString, name: "String"}
	dmTAddress   = &dmTy{k: dmKAddress, name: "Address"}
	dmTChar      = &dmTy{k: dmKChar, name: "Character"}
	dmTAnyStruct = &dmTy{k: dmKAnyStruct, name: "AnyStruct"}
	dmTAnyRes    = &dmTy{k: dmKAnyRes, name: "AnyResource"}
	dmTVoid      = &dmTy{k: dmKVoid, name: "Void"}
	dmTRange     = &dmTy{k: dmKRange, name: "InclusiveRange<Int>"}

	dmNumTypes = []*dmTy{dmTInt, dmTInt, dmTInt, dmTInt8, dmTInt64, dmTUInt8, dmTUInt64, dmTWord8, dmTUFix64, dmTFix64, dmTInt256, dmTUInt,
		{k: dmKInt, name: "Int16"}, {k: dmKInt, name: "UInt16"}, {k: dmKInt, name: "Int128"}, {k: dmKInt, name: "UInt128"}, {k: dmKInt, name: "UInt256"},
		{k: dmKInt, name: "Word16"}, {k: dmKInt, name: "Word64"}, {k: dmKInt, name: "Word128"}, {k: dmKInt, name: "Word256"},
		{k: dmKInt, name: "Fix128"}, {k: dmKInt, name: "UFix128"}, {k: dmKInt, name: "Int32"}, {k: dmKInt, name: "UInt32"}}
)

func dmOpt(t *dmTy) *dmTy         { return &dmTy{k: dmKOpt, elem: t} }
func dmArr(t *dmTy) *dmTy         { return &dmTy{k: dmKArr, elem: t} }
func dmCarr(t *dmTy, n int) *dmTy { return &dmTy{k: dmKCArr, elem: t, n: n} }
func dmDict(k, v *dmTy) *dmTy     { return &dmTy{k: dmKDict, key: k, elem: v} }
func dmRef(t *dmTy) *dmTy         { return &dmTy{k: dmKRef, elem: t} }
func dmAref(auth string, t *dmTy) *dmTy {
	return &dmTy{k: dmKRef, elem: t, auth: auth}
}
func dmFun(ret *dmTy, params ...*dmTy) *dmTy { return &dmTy{k: dmKFun, params: params, ret: ret} }

func (t *dmTy) isRes() bool {
	switch t.k {
	case dmKRes, dmKAnyRes:
		return true
	case dmKIface:
		return t.iface.isRes
	case dmKOpt, dmKArr, dmKCArr, dmKDict:
		return t.elem.isRes()
	}
	return false
}

func (t *dmTy) isSigned() bool {
	return t.k == dmKInt && (strings.HasPrefix(t.name, "Int") || t.name == "Fix64" || t.name == "Fix128")
}
func (t *dmTy) isFix() bool {
	return t.k == dmKInt && (strings.HasSuffix(t.name, "Fix64") || strings.HasSuffix(t.name, "Fix128"))
}
func (t *dmTy) isWord() bool { return t.k == dmKInt && strings.HasPrefix(t.name, "Word") }

// String renders the type without the resource marker.
func (t *dmTy) String() string {
	switch t.k {
	case dmKOpt:
		if t.elem.k == dmKRef || t.elem.k == dmKFun {
			return "(" + t.elem.String() + ")?"
		}
		return t.elem.String() + "?"
	case dmKArr:
		return "[" + t.elem.String() + "]"
	case dmKCArr:
		return "[" + t.elem.String() + "; " + dmItoa(t.n) + "]"
	case dmKDict:
		return "{" + t.key.String() + ": " + t.elem.String() + "}"
	case dmKRef:
		if t.auth != "" {
			return "auth(" + t.auth + ") &" + t.elem.String()
		}
		return "&" + t.elem.String()
	case dmKFun:
		var ps []string
		for _, p := range t.params {
			ps = append(ps, p.anno())
		}
		return "fun(" + strings.Join(ps, ", ") + "): " + t.ret.anno()
	case dmKIface:
		return "{" + t.q.name(t.name) + "}"
	case dmKStruct, dmKRes, dmKEnum:
		return t.q.name(t.name)
	}
	return t.name
}

// anno renders the type as an annotation (with @ for resources).
func (t *dmTy) anno() string {
	if t.isRes() {
		return "@" + t.String()
	}
	return t.String()
}

func (t *dmTy) eq(u *dmTy) bool { return t.String() == u.String() }

func dmItoa(n int) string {
	if n == 0 {
		return "0"
	}
	neg := n < 0
	if neg {
		n = -n
	}
	var b []byte
	for n > 0 {
		b = append([]byte{byte('0' + n%10)}, b...)
		n /= 10
	}
	if neg {
		return "-" + string(b)
	}
	return string(b)
}

// sub: static subtyping as far as the generator relies on it (sound, not complete).
func dmSub(a, b *dmTy) bool {
	if a.eq(b) {
		return true
	}
	switch b.k {
	case dmKAnyStruct:
		return !a.isRes()
	case dmKAnyRes:
		return a.isRes()
	case dmKOpt:
		if a.k == dmKOpt {
			return dmSub(a.elem, b.elem)
		}
		return dmSub(a, b.elem)
	case dmKArr:
		return a.k == dmKArr && dmSub(a.elem, b.elem)
	case dmKCArr:
		return a.k == dmKCArr && a.n == b.n && dmSub(a.elem, b.elem)
	case dmKDict:
		return a.k == dmKDict && a.key.eq(b.key) && dmSub(a.elem, b.elem)
	case dmKIface:
		if (a.k == dmKStruct || a.k == dmKRes) && a.comp != nil {
			return a.comp.conforms(b.iface)
		}
	case dmKRef:
		if a.k != dmKRef {
			return false
		}
		if b.auth != "" && a.auth != b.auth {
			return false
		}
		if a.elem.eq(b.elem) {
			return true
		}
		// &S <: &{I}, &S <: &AnyStruct
		switch b.elem.k {
		case dmKAnyStruct, dmKAnyRes, dmKIface:
			return dmSub(a.elem, b.elem)
		}
	}
	return false
}

// ------------------------------------------------------------------ declarations

type dmParam struct {
	label string // "_" : no label; "" : label = name
	name  string
	t     *dmTy
}

type dmFnDecl struct {
	q        *dmQualCtx
	name     string
	params   []dmParam
	ret      *dmTy
	qual     string // prefix for calls from outside ("C." for contract functions)
	view     bool
	access   string // entitlement required through references ("" = access(all))
	mutating bool   // changes self
}

func (f *dmFnDecl) ftype() *dmTy {
	var ps []*dmTy
	for _, p := range f.params {
		ps = append(ps, p.t)
	}
	return dmFun(f.ret, ps...)
}

type dmField struct {
	name   string
	t      *dmTy
	mut    bool
	access string // "all" | "self" | entitlement name | "mapping M"
}

type dmIface struct {
	q       *dmQualCtx
	name    string
	isRes   bool
	methods []*dmFnDecl
	fields  []dmField
	parents []*dmIface
	qual    string
}

func (i *dmIface) ref() string { return i.q.name(i.name) }

func (i *dmIface) ty() *dmTy { return &dmTy{k: dmKIface, name: i.name, iface: i, q: i.q} }

func (i *dmIface) allMethods() []*dmFnDecl {
	out := append([]*dmFnDecl{}, i.methods...)
	for _, p := range i.parents {
		out = append(out, p.allMethods()...)
	}
	return out
}

func (i *dmIface) extends(j *dmIface) bool {
	if i == j {
		return true
	}
	for _, p := range i.parents {
		if p.extends(j) {
			return true
		}
	}
	return false
}

type dmComp struct {
	name    string
	isRes   bool
	fields  []dmField
	methods []*dmFnDecl
	conf    []*dmIface
	qual    string
	t       *dmTy
	atts    []*dmAttachment
}

func (c *dmComp) conforms(i *dmIface) bool {
	for _, j := range c.conf {
		if j.extends(i) {
			return true
		}
	}
	return false
}

func (c *dmComp) allMethods() []*dmFnDecl {
	out := append([]*dmFnDecl{}, c.methods...)
	for _, i := range c.conf {
		for _, m := range i.allMethods() {
			dup := false
			for _, o := range out {
				if o.name == m.name {
					dup = true
				}
			}
			if !dup {
				out = append(out, m)
			}
		}
	}
	return out
}

func (c *dmComp) field(name string) *dmField {
	for i := range c.fields {
		if c.fields[i].name == name {
			return &c.fields[i]
		}
	}
	return nil
}

type dmAttachment struct {
	q       *dmQualCtx
	name    string
	base    *dmComp
	methods []*dmFnDecl
}

type dmEnumDecl struct {
	name  string
	cases []string
	t     *dmTy
}
