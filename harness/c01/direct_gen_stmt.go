package main

// Statement generation for non-resource code.

import (
	"fmt"
	"strings"
)

// declare emits a variable declaration of type t and registers the variable.
func (g *dmGen) declare(b *dmBlk, s *dmScope, t *dmTy, d int) *dmVr {
	name := g.fresh("v")
	mut := g.chance(1, 2)
	kw := "let"
	if mut {
		kw = "var"
	}
	v := &dmVr{name: name, t: t, mut: mut, live: true}
	var e string
	form := g.r.Intn(10)
	if (t.k == dmKAnyStruct || t.k == dmKIface) && g.chance(3, 4) {
		// value of a known concrete type behind a wider static type
		var u *dmTy
		if t.k == dmKIface {
			for _, c := range g.shuffledStructs() {
				if c.conforms(t.iface) {
					u = c.t
					break
				}
			}
		} else {
			u = g.valueType(1)
			if u.k == dmKAnyStruct || u.k == dmKIface {
				u = dmTInt
			}
		}
		if u != nil {
			e = g.exact(s, u, d-1)
			b.add("%s %s: %s = %s", kw, name, t.String(), e)
			if !mut {
				v.dyn = u
			}
			g.feat("upcast")
			s.add(v)
			return v
		}
	}
	switch {
	case t.k == dmKRef:
		e = g.expr(s, t, d)
		if g.chance(1, 2) {
			b.add("%s %s = %s", kw, name, e)
		} else {
			b.add("%s %s: %s = %s", kw, name, t.String(), e)
		}
		s.add(v)
		return v
	case form < 2 && t.k != dmKOpt && t.k != dmKAnyStruct && t.k != dmKIface && t.k != dmKArr && t.k != dmKDict && t.k != dmKCArr:
		// inferred type
		e = g.exact(s, t, d)
		b.add("%s %s = %s", kw, name, e)
	case form < 3 && t.k != dmKFun:
		e = g.expr(s, t, d)
		g.feat("static-cast")
		b.add("%s %s = %s as %s", kw, name, e, t.String())
	default:
		e = g.expr(s, t, d)
		b.add("%s %s: %s = %s", kw, name, t.String(), e)
	}
	g.noteValue(v, e)
	s.add(v)
	return v
}

// noteValue records what is statically known about the value an immutable variable was initialized with.
func (g *dmGen) noteValue(v *dmVr, e string) {
	t := v.t
	switch t.k {
	case dmKOpt:
		if !v.mut && e != "nil" && !strings.Contains(e, "nil") && !strings.Contains(e, "?") && !strings.Contains(e, "[") &&
			!strings.Contains(e, "(") {
			// a plain literal or variable of the element type
			if _, isNum := dmParseSmall(e); isNum || strings.HasPrefix(e, `"`) || e == "true" || e == "false" {
				v.nonNil = true
			}
		}
	case dmKArr:
		if strings.HasPrefix(e, "[") && strings.HasSuffix(e, "]") {
			v.minLen = dmTopLevelCommas(e[1:len(e)-1]) + 1
			if strings.TrimSpace(e[1:len(e)-1]) == "" {
				v.minLen = 0
			}
		}
	case dmKDict:
		if strings.HasPrefix(e, "{") && strings.HasSuffix(e, "}") {
			n := dmTopLevelCommas(e[1:len(e)-1]) + 1
			for i := 0; i < n; i++ {
				v.keys = append(v.keys, g.keyLit(t.key, i))
			}
		}
	}
}

func dmParseSmall(e string) (int, bool) {
	if e == "" {
		return 0, false
	}
	n := 0
	for _, c := range e {
		if c < '0' || c > '9' {
			return 0, false
		}
		n = n*10 + int(c-'0')
	}
	return n, true
}

func dmTopLevelCommas(s string) int {
	depth, n := 0, 0
	inStr := false
	for i := 0; i < len(s); i++ {
		c := s[i]
		if inStr {
			if c == '\\' {
				i++
			} else if c == '"' {
				inStr = false
			}
			continue
		}
		switch c {
		case '"':
			inStr = true
		case '(', '[', '{':
			depth++
		case ')', ']', '}':
			depth--
		case ',':
			if depth == 0 {
				n++
			}
		}
	}
	return n
}

// stmts emits n statements into b.
func (g *dmGen) stmts(b *dmBlk, s *dmScope, n int, d int) {
	for i := 0; i < n; i++ {
		g.stmt(b, s, d)
	}
}

func (g *dmGen) stmt(b *dmBlk, s *dmScope, d int) {
	if s.ctx.view {
		// view context: declarations only
		g.declare(b, s, g.valueType(1), 1)
		return
	}
	if s.depth > 3 || d <= 0 {
		if g.chance(1, 2) {
			g.assign(b, s, 1)
		} else {
			g.declare(b, s, g.valueType(1), 1)
		}
		return
	}
	roll := g.r.Intn(100)
	switch {
	case roll < 26:
		g.declare(b, s, g.valueType(2), d)
	case roll < 38:
		g.assign(b, s, d)
	case roll < 46:
		g.containerOp(b, s, d)
	case roll < 54:
		g.ifStmt(b, s, d)
	case roll < 60:
		g.ifLet(b, s, d)
	case roll < 65:
		g.whileStmt(b, s, d)
	case roll < 73:
		g.forStmt(b, s, d)
	case roll < 77:
		g.switchStmt(b, s, d)
	case roll < 80:
		g.swapStmt(b, s, d)
	case roll < 84:
		g.nestedFun(b, s, d)
	case roll < 88:
		g.callStmt(b, s, d)
	case roll < 91:
		g.feat("log")
		b.add("log(%s)", g.expr(s, g.valueType(1), d-1))
	case roll < 93:
		g.feat("assert")
		if g.chance(4, 5) {
			b.add("assert(%s || true, message: %s)", g.boolExpr(s, d-1), g.strLit())
		} else {
			b.add("assert(%s, message: %s)", g.boolExpr(s, d-1), g.strLit())
		}
	case roll < 95:
		g.emitStmt(b, s, d)
	case roll < 97:
		g.refStmt(b, s, d)
	default:
		if s.inLoop && g.chance(1, 2) {
			b.open("if %s {", g.boolExpr(s, d-1))
			b.add(dmPick(g, []string{"break", "continue"}))
			b.close()
			g.feat("break-continue")
		} else if s.ctx.ret != nil && !s.ctx.noReturn && s.depth > 0 && g.chance(1, 2) {
			b.open("if %s {", g.boolExpr(s, d-1))
			g.returnStmt(b, s, d)
			b.close()
			g.feat("early-return")
		} else {
			g.declare(b, s, g.valueType(2), d)
		}
	}
}

func (g *dmGen) returnStmt(b *dmBlk, s *dmScope, d int) {
	if s.ctx.ret == nil || s.ctx.ret.k == dmKVoid {
		b.add("return")
		return
	}
	b.add("return %s", g.expr(s, s.ctx.ret, d-1))
}

func (g *dmGen) assign(b *dmBlk, s *dmScope, d int) {
	mv := s.find(func(v *dmVr) bool { return v.mut && !v.t.isRes() && v.t.k != dmKRef })
	if len(mv) == 0 {
		g.declare(b, s, g.valueType(1), d)
		return
	}
	v := dmPick(g, mv)
	g.feat("assignment")
	b.add("%s = %s", v.name, g.expr(s, v.t, d))
	v.minLen = 0
	v.keys = nil
	v.nonNil = false
	v.dyn = nil
}

// containerOp: mutation of arrays and dictionaries (locals, fields of local structs).
func (g *dmGen) containerOp(b *dmBlk, s *dmScope, d int) {
	cs := s.find(func(v *dmVr) bool {
		return (v.t.k == dmKArr || v.t.k == dmKDict) && !v.t.isRes() && (!v.field || !s.ctx.view)
	})
	// containers in fields of struct variables
	type target struct {
		e string
		t *dmTy
		v *dmVr
	}
	var ts []target
	for _, v := range cs {
		ts = append(ts, target{v.name, v.t, v})
	}
	for _, v := range s.varsKind(dmKStruct) {
		for _, f := range v.t.comp.fields {
			if (f.t.k == dmKArr || f.t.k == dmKDict) && !f.t.isRes() && f.access == "all" {
				ts = append(ts, target{v.name + "." + f.name, f.t, nil})
			}
		}
	}
	if len(ts) == 0 {
		g.declare(b, s, dmArr(g.primType()), d)
		return
	}
	t := dmPick(g, ts)
	if t.t.k == dmKArr {
		g.feat("array-mutation")
		switch g.r.Intn(8) {
		case 0, 1, 2:
			b.add("%s.append(%s)", t.e, g.expr(s, t.t.elem, d-1))
			g.grow(s, t.v)
		case 3:
			b.add("%s.insert(at: 0, %s)", t.e, g.expr(s, t.t.elem, d-1))
			g.grow(s, t.v)
		case 4:
			if t.v != nil && t.v.minLen > 0 {
				b.add("%s[%d] = %s", t.e, g.r.Intn(t.v.minLen), g.expr(s, t.t.elem, d-1))
			} else {
				b.open("if %s.length > 0 {", t.e)
				b.add("%s[0] = %s", t.e, g.expr(s, t.t.elem, d-1))
				b.close()
			}
		case 5:
			if t.v != nil && t.v.minLen > 0 {
				b.add("let %s = %s.%s", g.fresh("rm"), t.e, dmPick(g, []string{"removeFirst()", "removeLast()", "remove(at: 0)"}))
				g.shrinkLen(s, t.v)
			} else {
				b.open("if %s.length > 0 {", t.e)
				b.add("%s.removeLast()", t.e)
				b.close()
				if t.v != nil {
					t.v.minLen = 0
				}
			}
		case 6:
			b.add("%s.appendAll(%s)", t.e, g.expr(s, t.t, d-1))
		default:
			if t.v != nil && t.v.minLen > 1 {
				b.add("%s[0] <-> %s[1]", t.e, t.e)
				g.feat("swap")
			} else {
				b.add("%s.append(%s)", t.e, g.expr(s, t.t.elem, d-1))
			}
		}
		return
	}
	g.feat("dict-mutation")
	k := g.keyLit(t.t.key, g.r.Intn(4))
	switch g.r.Intn(6) {
	case 0, 1:
		b.add("%s[%s] = %s", t.e, k, g.expr(s, t.t.elem, d-1))
		if t.v != nil {
			t.v.keys = append(t.v.keys, k)
		}
	case 2:
		b.add("let %s = %s.insert(key: %s, %s)", g.fresh("old"), t.e, k, g.expr(s, t.t.elem, d-1))
		if t.v != nil {
			t.v.keys = append(t.v.keys, k)
		}
	case 3:
		b.add("let %s = %s.remove(key: %s)", g.fresh("rm"), t.e, k)
		if t.v != nil {
			t.v.keys = nil
		}
	case 4:
		if !s.ctx.view && t.t.key.k != dmKBool {
			cnt := s.find(func(v *dmVr) bool { return v.mut && v.t.eq(dmTInt) && !v.field })
			body := "return true"
			if len(cnt) > 0 {
				c := dmPick(g, cnt)
				body = fmt.Sprintf("%s = %s + 1; return %s < 3", c.name, c.name, c.name)
			}
			kn := g.fresh("k")
			b.add("%s.forEachKey(fun (%s: %s): Bool { %s })", t.e, kn, t.t.key.String(), body)
			g.feat("dict-forEachKey")
			return
		}
		fallthrough
	default:
		b.add("%s[%s] = %s", t.e, k, g.expr(s, t.t.elem, d-1))
	}
}

func (g *dmGen) ifStmt(b *dmBlk, s *dmScope, d int) {
	g.feat("if")
	b.open("if %s {", g.boolExpr(s, d-1))
	g.stmts(b, s.child(), 1+g.r.Intn(2), d-1)
	if g.chance(1, 2) {
		if g.chance(1, 4) {
			b.closeOpen("} else if %s {", g.boolExpr(s, d-1))
			g.stmts(b, s.child(), 1, d-1)
		}
		b.closeOpen("} else {")
		g.stmts(b, s.child(), 1+g.r.Intn(2), d-1)
	}
	b.close()
}

func (g *dmGen) ifLet(b *dmBlk, s *dmScope, d int) {
	g.feat("if-let")
	var t *dmTy
	var e string
	ovs := s.find(func(v *dmVr) bool { return v.t.k == dmKOpt && !v.t.isRes() && !v.field })
	dynv := s.find(func(v *dmVr) bool { return v.dyn != nil && !v.t.isRes() && v.dyn.k != dmKFun })
	switch {
	case len(dynv) > 0 && g.chance(1, 2):
		v := dmPick(g, dynv)
		t = v.dyn
		if g.chance(1, 4) {
			t = g.primType()
		}
		e = v.name + " as? " + t.String()
		g.feat("if-let-cast")
	case len(ovs) > 0 && g.chance(2, 3):
		v := dmPick(g, ovs)
		t = v.t.elem
		e = v.name
	default:
		t = g.valueType(1)
		if t.k == dmKFun {
			t = dmTInt
		}
		e = g.optOperand(s, dmOpt(t), d-1)
	}
	name := g.fresh("u")
	kw := dmPick(g, []string{"let", "let", "var"})
	b.open("if %s %s = %s {", kw, name, e)
	cs := s.child()
	cs.add(&dmVr{name: name, t: t, mut: kw == "var", live: true})
	g.stmts(b, cs, 1+g.r.Intn(2), d-1)
	if g.chance(1, 2) {
		b.closeOpen("} else {")
		g.stmts(b, s.child(), 1, d-1)
	}
	b.close()
}

func (g *dmGen) whileStmt(b *dmBlk, s *dmScope, d int) {
	g.feat("while")
	i := g.fresh("i")
	b.add("var %s = 0", i)
	s.add(&dmVr{name: i, t: dmTInt, live: true}) // not assignable by generated code
	b.open("while %s < %d {", i, 1+g.r.Intn(4))
	b.add("%s = %s + 1", i, i)
	cs := s.child()
	cs.inLoop = true
	g.stmts(b, cs, 1+g.r.Intn(3), d-1)
	b.close()
}

func (g *dmGen) forStmt(b *dmBlk, s *dmScope, d int) {
	x := g.fresh("x")
	cs := s.child()
	cs.inLoop = true
	as := s.find(func(v *dmVr) bool { return (v.t.k == dmKArr || v.t.k == dmKCArr) && !v.t.isRes() })
	ds := s.find(func(v *dmVr) bool { return v.t.k == dmKDict && !v.t.isRes() })
	switch g.r.Intn(7) {
	case 0, 1:
		if len(as) > 0 {
			a := dmPick(g, as)
			g.feat("for-in-array")
			if g.chance(1, 3) {
				i := g.fresh("i")
				b.open("for %s, %s in %s {", i, x, a.name)
				cs.add(&dmVr{name: i, t: dmTInt, live: true})
			} else {
				b.open("for %s in %s {", x, a.name)
			}
			cs.add(&dmVr{name: x, t: a.t.elem, live: true})
			break
		}
		fallthrough
	case 2:
		if len(ds) > 0 {
			dv := dmPick(g, ds)
			g.feat("for-in-dict-keys")
			b.open("for %s in %s.keys {", x, dv.name)
			cs.add(&dmVr{name: x, t: dv.t.key, live: true})
			if dv.t.elem.k != dmKOpt {
				y := g.fresh("y")
				b.add("let %s = %s[%s]!", y, dv.name, x)
				cs.add(&dmVr{name: y, t: dv.t.elem, live: true})
			}
			break
		}
		fallthrough
	case 3:
		g.feat("for-in-string")
		b.open("for %s in %s {", x, g.expr(s, dmTString, 1))
		cs.add(&dmVr{name: x, t: dmTChar, live: true})
	case 4, 5:
		g.feat("for-in-range")
		if g.chance(1, 3) {
			// ranges of other integer types, also near the bounds of the type
			t := dmPick(g, []*dmTy{dmTInt8, dmTUInt8, dmTInt64, dmTUInt64, dmTWord8, dmTInt256})
			lo, hi := g.r.Intn(4), 4+g.r.Intn(4)
			if g.chance(1, 4) {
				switch t.name {
				case "Int8":
					lo, hi = 120, 126
				case "UInt8", "Word8":
					lo, hi = 249, 254
				}
			}
			step := ""
			if g.chance(1, 3) {
				step = fmt.Sprintf(", step: %s(%d)", t.name, 1+g.r.Intn(3))
			}
			b.open("for %s in InclusiveRange(%s(%d), %s(%d)%s) {", x, t.name, lo, t.name, hi, step)
			cs.add(&dmVr{name: x, t: t, live: true})
			g.feat("for-in-typed-range")
			break
		}
		b.open("for %s in %s {", x, g.rangeExpr(s, 1))
		cs.add(&dmVr{name: x, t: dmTInt, live: true})
	default:
		t := dmArr(g.primType())
		g.feat("for-in-array")
		b.open("for %s in %s {", x, g.exact(s, t, 2))
		cs.add(&dmVr{name: x, t: t.elem, live: true})
	}
	g.stmts(b, cs, 1+g.r.Intn(3), d-1)
	b.close()
}

func (g *dmGen) switchStmt(b *dmBlk, s *dmScope, d int) {
	g.feat("switch")
	t := dmPick(g, []*dmTy{dmTInt, dmTString, dmTInt8, dmTBool})
	if len(g.enums) > 0 && g.chance(1, 2) {
		t = dmPick(g, g.enums).t
	}
	b.open("switch %s {", g.atom(s, t))
	n := 1 + g.r.Intn(3)
	for i := 0; i < n; i++ {
		var c string
		switch t.k {
		case dmKEnum:
			e := g.enumOf(t)
			c = t.String() + "." + e.cases[i%len(e.cases)]
		case dmKString:
			c = `"` + dmStrPool[i] + `"`
		case dmKBool:
			c = dmPick(g, []string{"true", "false"})
		default:
			c = g.numLit(t, false)
		}
		b.add("case %s:", c)
		b.ind++
		cs := s.child()
		g.stmts(b, cs, 1, d-1)
		if g.chance(1, 4) {
			b.add("break")
		}
		b.ind--
	}
	if g.chance(3, 4) {
		b.add("default:")
		b.ind++
		g.stmts(b, s.child(), 1, d-1)
		b.ind--
	}
	b.close()
}

func (g *dmGen) swapStmt(b *dmBlk, s *dmScope, d int) {
	mv := s.find(func(v *dmVr) bool { return v.mut && !v.t.isRes() && v.t.k != dmKRef && !v.field })
	for _, v := range mv {
		for _, w := range mv {
			if v != w && v.t.eq(w.t) {
				g.feat("swap")
				b.add("%s <-> %s", v.name, w.name)
				v.minLen, w.minLen = 0, 0
				v.keys, w.keys = nil, nil
				v.dyn, w.dyn = nil, nil
				return
			}
		}
	}
	g.assign(b, s, d)
}

func (g *dmGen) nestedFun(b *dmBlk, s *dmScope, d int) {
	g.feat("nested-function")
	name := g.fresh("nf")
	pt := g.valueType(1)
	rt := g.valueType(1)
	if rt.k == dmKFun {
		rt = dmTInt
	}
	p := g.fresh("a")
	b.open("fun %s(_ %s: %s): %s {", name, p, pt.String(), rt.String())
	cs := &dmScope{parent: s, ctx: &dmFctx{ret: rt, contract: s.ctx.contract}, depth: s.depth + 1}
	cs.add(&dmVr{name: p, t: pt, live: true})
	if g.chance(1, 2) {
		g.stmts(b, cs, 1, d-1)
	}
	g.returnStmt(b, cs, d)
	b.close()
	s.add(&dmVr{name: name, t: dmFun(rt, pt), live: true})
}

func (g *dmGen) callStmt(b *dmBlk, s *dmScope, d int) {
	// call a void / any function or method for its effect
	type cand struct {
		recv string
		f    *dmFnDecl
	}
	var cs []cand
	for _, f := range g.funcs {
		if g.argsOK(f) && (f.ret == nil || !f.ret.isRes()) {
			cs = append(cs, cand{"", f})
		}
	}
	for _, v := range s.all() {
		if c := dmCompOf(v.t); c != nil && (!v.t.isRes() || v.live) {
			for _, m := range c.allMethods() {
				if !g.argsOK(m) || (m.ret != nil && m.ret.isRes()) {
					continue
				}
				if v.t.k == dmKRef && m.access != "" && !strings.Contains(v.t.auth, m.access) {
					continue
				}
				cs = append(cs, cand{v.name, m})
			}
		}
	}
	if len(cs) == 0 {
		g.declare(b, s, g.valueType(1), d)
		return
	}
	c := dmPick(g, cs)
	g.feat("call")
	b.add("%s", g.call(s, c.recv, c.f, d))
}

func (g *dmGen) emitStmt(b *dmBlk, s *dmScope, d int) {
	if !s.ctx.contract || len(g.events) == 0 {
		g.declare(b, s, g.valueType(1), d)
		return
	}
	ev := dmPick(g, g.events)
	g.feat("emit")
	b.add("emit %s", g.call(s, "", ev, d))
}

// refStmt: references to local values, reads and (authorized) mutation through them.
func (g *dmGen) refStmt(b *dmBlk, s *dmScope, d int) {
	vs := s.find(func(v *dmVr) bool {
		return !v.t.isRes() && !v.field && (v.t.k == dmKStruct || v.t.k == dmKArr || v.t.k == dmKDict || v.t.k == dmKInt || v.t.k == dmKString)
	})
	if len(vs) == 0 {
		g.declare(b, s, g.valueType(1), d)
		return
	}
	v := dmPick(g, vs)
	g.feat("reference")
	name := g.fresh("r")
	switch {
	case v.t.k == dmKArr && g.chance(1, 2):
		b.add("let %s = &%s as auth(Mutate) &%s", name, v.name, v.t.String())
		b.add("%s.append(%s)", name, g.expr(s, v.t.elem, d-1))
		g.feat("auth-reference")
		s.add(&dmVr{name: name, t: dmAref("Mutate", v.t), live: true})
	case v.t.k == dmKDict && g.chance(1, 2):
		b.add("let %s = &%s as auth(Mutate) &%s", name, v.name, v.t.String())
		b.add("let %s = %s.remove(key: %s)", g.fresh("rm"), name, g.dictKey(s, v))
		v.keys = nil
		g.feat("auth-reference")
	case v.t.k == dmKStruct && g.chance(1, 3):
		// reference to an optional: `&o as &S?` is an optional reference
		o := g.fresh("v")
		b.add("var %s: %s? = %s", o, v.t.String(), v.name)
		b.add("let %s = &%s as &%s?", name, o, v.t.String())
		s.add(&dmVr{name: o, t: dmOpt(v.t), mut: true, live: true})
		s.add(&dmVr{name: name, t: dmOpt(dmRef(v.t)), live: true})
		g.feat("reference-to-optional")
	default:
		b.add("let %s = &%s as &%s", name, v.name, v.t.String())
		s.add(&dmVr{name: name, t: dmRef(v.t), live: true})
		if v.t.k == dmKArr && v.t.elem.k == dmKStruct && v.minLen > 0 {
			// reference to an element through the container reference
			b.add("let %s = %s[0]", g.fresh("er"), name)
		}
	}
}

// grow / shrinkLen keep the known minimal length of an array variable sound: growth only counts when
// the statement is in the variable's own scope (it certainly executes once), shrinking inside a loop or
// nested scope forgets the length.
func (g *dmGen) grow(s *dmScope, v *dmVr) {
	if v == nil {
		return
	}
	for _, w := range s.vars {
		if w == v {
			v.minLen++
			return
		}
	}
}

func (g *dmGen) shrinkLen(s *dmScope, v *dmVr) {
	if v == nil {
		return
	}
	for _, w := range s.vars {
		if w == v && !s.inLoop {
			v.minLen--
			return
		}
	}
	v.minLen = 0
}
