package main

import (
	"fmt"
	"os"
	"strings"

	"cvh/lib"
)

// probeMode runs the scripts of a file (separated by lines of "-----") in both engines and prints
// the outcome; a development aid, not used by the check.
func probeMode(path string) {
	b, err := os.ReadFile(path)
	if err != nil {
		panic(err)
	}
	for _, src := range strings.Split(string(b), "\n-----\n") {
		src = strings.TrimSpace(src)
		if src == "" {
			continue
		}
		fmt.Println("=== " + strings.ReplaceAll(src, "\n", "\n    "))
		for _, vm := range []bool{false, true} {
			h := lib.NewHost()
			o := h.RunScript(src, nil, vm)
			fmt.Printf("  vm=%v => value=%v class=%q logs=%v\n", vm, o.Value, o.Class, o.Logs)
			if o.Panic != nil {
				fmt.Printf("     PANIC %v\n", o.Panic)
			}
			if o.Err != nil {
				e := o.Err.Error()
				if len(e) > 600 {
					e = e[:600]
				}
				fmt.Println("     " + strings.ReplaceAll(e, "\n", "\n     "))
			}
		}
	}
}
