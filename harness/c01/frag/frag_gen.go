package frag

// Type-directed generator of programs of the modelled fragment, and AST-level mutations.

import (
	"math/big"

	"cvh/lib"
)

type fgen struct {
	r *lib.Rng
	p *Prog
	// helper kinds per function: "" pure, "consume" (has a resource parameter it destroys), "make" (returns a resource)
	kind []string
}

type fctx struct {
	g      *fgen
	fi     int
	vars   []*Ty
	dead   map[int]bool // moved resource variables
	prot   map[int]bool // variables that must not be assigned/mutated
	inLoop bool
	nested int // block nesting depth inside the function body
	ret    *Ty
}

func (fc *fctx) liveRes() []int {
	var out []int
	for i, t := range fc.vars {
		if t.isRes() && !fc.dead[i] {
			out = append(out, i)
		}
	}
	return out
}

func lit8(v int64) *Expr { return &Expr{Op: "lit8", Z: big.NewInt(v), Typ: tInt8} }
func litInt(z *big.Int) *Expr {
	return &Expr{Op: "int", Z: z, Typ: tInt}
}
func evar(x int, t *Ty) *Expr { return &Expr{Op: "var", X: x, Typ: t} }

var i8Lattice = []int64{0, 1, -1, 2, 3, 5, 7, 10, 63, 64, 100, 126, 127, -2, -64, -127, -128}

func (g *fgen) int8Lit() *Expr { return lit8(lib.Pick(g.r, i8Lattice)) }

func (g *fgen) intLit() *Expr {
	switch g.r.Intn(6) {
	case 0:
		return litInt(new(big.Int).Lsh(big.NewInt(1), uint(60+g.r.Intn(10))))
	case 1:
		return litInt(big.NewInt(int64(-g.r.Intn(1000))))
	default:
		return litInt(big.NewInt(int64(g.r.Intn(12))))
	}
}

var strPool = []string{"", "a", "b", "k", "ab", "key", "x1"}

func (g *fgen) strLit() *Expr { return &Expr{Op: "str", S: lib.Pick(g.r, strPool), Typ: tStr} }

// struct-kinded type pool
func (g *fgen) randType(d int) *Ty {
	base := []*Ty{tInt8, tInt8, tInt, tBool, tStr}
	if d <= 0 {
		return lib.Pick(g.r, base)
	}
	switch g.r.Intn(14) {
	case 0, 1:
		return tOpt(g.randType(d - 1))
	case 2:
		return tArr(g.randType(d - 1))
	case 3:
		return tDict(lib.Pick(g.r, []*Ty{tStr, tInt8, tInt, tBool}), g.randType(d-1))
	case 4:
		if ss := g.structs(); len(ss) > 0 {
			return tStruct(lib.Pick(g.r, ss))
		}
	case 5:
		return tAnyS
	case 6:
		return tOpt(tInt8)
	case 7:
		return tArr(tInt8)
	}
	return lib.Pick(g.r, base)
}

func (g *fgen) structs() []int {
	var out []int
	for i, d := range g.p.Decls {
		if !d.Res {
			out = append(out, i)
		}
	}
	return out
}

func (g *fgen) resources() []int {
	var out []int
	for i, d := range g.p.Decls {
		if d.Res {
			out = append(out, i)
		}
	}
	return out
}

func equatable(t *Ty) bool {
	switch t.K {
	case kInt8, kInt, kBool, kStr, kNever:
		return true
	case kOpt:
		return equatable(t.A)
	}
	return false
}

// ---------------------------------------------------------------- expressions

// genSub: an expression whose static type is a subtype of t (used in transfer positions)
func (fc *fctx) genSub(t *Ty, d int) *Expr {
	g := fc.g
	if g.r.Chance(6, 10) || d <= 0 {
		return fc.genExact(t, d)
	}
	switch t.K {
	case kOpt:
		switch g.r.Intn(4) {
		case 0:
			return &Expr{Op: "nil", Typ: tOpt(tNever)}
		case 1:
			return fc.genSub(t.A, d-1)
		default:
			return fc.genExact(t.A, d-1)
		}
	case kAnyS:
		return fc.genExact(g.randType(1), d-1)
	case kArr:
		if t.A.K == kOpt {
			return fc.genExact(tArr(t.A.A), d-1)
		}
		if t.A.K == kAnyS {
			return fc.genExact(tArr(g.randType(0)), d-1)
		}
	case kDict:
		if t.B.K == kOpt {
			return fc.genExact(tDict(t.A, t.B.A), d-1)
		}
	}
	return fc.genExact(t, d)
}

// genExact: an expression of static type exactly t
func (fc *fctx) genExact(t *Ty, d int) *Expr {
	g := fc.g
	var cands []func() *Expr
	add := func(w int, f func() *Expr) {
		for i := 0; i < w; i++ {
			cands = append(cands, f)
		}
	}
	// variables
	for i, vt := range fc.vars {
		if vt.eq(t) && !vt.isRes() {
			i, vt := i, vt
			add(4, func() *Expr { return evar(i, vt) })
		}
	}
	// literals / constructors
	switch t.K {
	case kInt8:
		add(3, func() *Expr { return g.int8Lit() })
	case kInt:
		add(3, func() *Expr { return g.intLit() })
	case kBool:
		add(2, func() *Expr { return &Expr{Op: "bool", B: g.r.Bool(), Typ: tBool} })
	case kStr:
		add(3, func() *Expr { return g.strLit() })
	case kOpt:
		add(2, func() *Expr { return &Expr{Op: "cast", K: "as", A: &Expr{Op: "nil", Typ: tOpt(tNever)}, T: t, Typ: t} })
		add(2, func() *Expr { return &Expr{Op: "cast", K: "as", A: fc.genExact(t.A, d-1), T: t, Typ: t} })
	case kAnyS:
		add(3, func() *Expr { return &Expr{Op: "cast", K: "as", A: fc.genExact(g.randType(1), d-1), T: t, Typ: t} })
	case kArr:
		add(3, func() *Expr {
			n := g.r.Intn(4)
			es := make([]*Expr, n)
			for i := range es {
				es[i] = fc.genSub(t.A, d-1)
			}
			return &Expr{Op: "arr", Es: es, T: t.A, Typ: t}
		})
	case kDict:
		add(3, func() *Expr {
			n := g.r.Intn(3)
			var es []*Expr
			for i := 0; i < n; i++ {
				es = append(es, fc.genExact(t.A, 0), fc.genSub(t.B, d-1))
			}
			return &Expr{Op: "dict", Es: es, T: t.A, T2: t.B, Typ: t}
		})
	case kStruct:
		add(3, func() *Expr {
			dcl := g.p.Decls[t.N]
			es := make([]*Expr, len(dcl.Fields))
			for i, ft := range dcl.Fields {
				es[i] = fc.genSub(ft, d-1)
			}
			return &Expr{Op: "ctor", X: t.N, Es: es, Typ: t}
		})
	}
	if d > 0 {
		switch t.K {
		case kInt8, kInt:
			add(4, func() *Expr {
				op := lib.Pick(g.r, []string{"+", "+", "-", "*", "/", "%"})
				return &Expr{Op: "bin", Bop: op, A: fc.genExact(t, d-1), Bx: fc.genExact(t, d-1), Typ: t}
			})
			if t.K == kInt {
				add(1, func() *Expr { return &Expr{Op: "len", A: fc.genExact(tArr(g.randType(0)), d-1), Typ: tInt} })
			}
		case kBool:
			add(3, func() *Expr {
				ot := lib.Pick(g.r, []*Ty{tInt8, tInt})
				op := lib.Pick(g.r, []string{"<", "<=", ">", ">="})
				return &Expr{Op: "bin", Bop: op, A: fc.genExact(ot, d-1), Bx: fc.genExact(ot, d-1), Typ: tBool}
			})
			add(3, func() *Expr {
				ot := lib.Pick(g.r, []*Ty{tInt8, tStr, tBool, tOpt(tInt8), tOpt(tOpt(tInt8)), tInt})
				a := fc.genExact(ot, d-1)
				var b *Expr
				if ot.K == kOpt && g.r.Chance(1, 3) {
					b = &Expr{Op: "nil", Typ: tOpt(tNever)}
				} else if ot.K == kOpt && g.r.Chance(1, 3) {
					b = fc.genExact(ot.A, d-1)
				} else {
					b = fc.genExact(ot, d-1)
				}
				return &Expr{Op: "eq", B: g.r.Bool(), A: a, Bx: b, Typ: tBool}
			})
			add(2, func() *Expr {
				op := lib.Pick(g.r, []string{"and", "or"})
				return &Expr{Op: op, A: fc.genExact(tBool, d-1), Bx: fc.genExact(tBool, d-1), Typ: tBool}
			})
			add(1, func() *Expr { return &Expr{Op: "not", A: fc.genExact(tBool, d-1), Typ: tBool} })
		}
		if t.kind() == 0 && t.K != kVoid {
			// conditional with both branches of type t
			add(2, func() *Expr {
				return &Expr{Op: "cond", C: fc.genExact(tBool, d-1), A: fc.genExact(t, d-1), Bx: fc.genExact(t, d-1), Typ: t}
			})
			// a ?? b
			add(2, func() *Expr {
				return &Expr{Op: "coal", A: fc.genExact(tOpt(t), d-1), Bx: fc.genExact(t, d-1), Typ: t}
			})
			// a!
			add(1, func() *Expr {
				if g.r.Chance(3, 4) { // mostly a Some
					some := &Expr{Op: "cast", K: "as", A: fc.genExact(t, d-1), T: tOpt(t), Typ: tOpt(t)}
					return &Expr{Op: "force", A: some, Typ: t}
				}
				return &Expr{Op: "force", A: fc.genExact(tOpt(t), d-1), Typ: t}
			})
			// index
			add(2, func() *Expr {
				var idx *Expr
				if g.r.Chance(5, 6) {
					idx = litInt(big.NewInt(int64(g.r.Intn(2))))
				} else {
					it := lib.Pick(g.r, []*Ty{tInt, tInt8})
					idx = &Expr{Op: "cast", K: "as", A: fc.genExact(it, d-1), T: it, Typ: it}
				}
				return &Expr{Op: "idx", A: fc.nonEmptyArr(tArr(t), d-1), Bx: idx, Typ: t}
			})
			// force cast from AnyStruct
			add(1, func() *Expr {
				src := t
				if g.r.Chance(1, 4) {
					src = g.randType(1)
				}
				any := &Expr{Op: "cast", K: "as", A: fc.genExact(src, d-1), T: tAnyS, Typ: tAnyS}
				return &Expr{Op: "cast", K: "as!", A: any, T: t, Typ: t}
			})
			// member of a struct / live resource variable
			for n, dcl := range g.p.Decls {
				for f, ft := range dcl.Fields {
					if !ft.eq(t) {
						continue
					}
					n, f := n, f
					if !dcl.Res {
						add(2, func() *Expr { return &Expr{Op: "mem", A: fc.genExact(tStruct(n), d-1), X: f, Typ: t} })
					} else {
						for _, rv := range fc.liveRes() {
							if fc.vars[rv].K == kRes && fc.vars[rv].N == n {
								rv := rv
								add(3, func() *Expr { return &Expr{Op: "mem", A: evar(rv, fc.vars[rv]), X: f, Typ: t} })
							}
						}
					}
				}
			}
			// calls of pure helpers
			for j := fc.fi + 1; j < len(g.p.Funs); j++ {
				if g.kind[j] == "" && g.p.Funs[j].Ret.eq(t) {
					j := j
					add(3, func() *Expr {
						fn := g.p.Funs[j]
						es := make([]*Expr, len(fn.Params))
						for i, pt := range fn.Params {
							es[i] = fc.genSub(pt, d-1)
						}
						return &Expr{Op: "call", X: j, Es: es, Typ: t}
					})
				}
			}
		}
		if t.K == kOpt && t.kind() == 0 {
			u := t.A
			// THE interesting shapes: conditional with one non-optional branch, optional chaining, failable casts
			add(3, func() *Expr {
				nilE := &Expr{Op: "nil", Typ: tOpt(tNever)}
				if g.r.Bool() {
					return &Expr{Op: "cond", C: fc.genExact(tBool, d-1), A: fc.genExact(u, d-1), Bx: nilE, Typ: t}
				}
				return &Expr{Op: "cond", C: fc.genExact(tBool, d-1), A: nilE, Bx: fc.genExact(u, d-1), Typ: t}
			})
			add(1, func() *Expr {
				return &Expr{Op: "cond", C: fc.genExact(tBool, d-1), A: fc.genExact(u, d-1), Bx: fc.genExact(t, d-1), Typ: t}
			})
			add(2, func() *Expr {
				return &Expr{Op: "coal", A: fc.genExact(tOpt(t), d-1), Bx: fc.genExact(t, d-1), Typ: t}
			})
			if u.K != kOpt {
				add(2, func() *Expr {
					src := u
					if g.r.Chance(1, 3) {
						src = g.randType(1)
					}
					any := &Expr{Op: "cast", K: "as", A: fc.genExact(src, d-1), T: tAnyS, Typ: tAnyS}
					return &Expr{Op: "cast", K: "as?", A: any, T: u, Typ: t}
				})
				add(1, func() *Expr {
					return &Expr{Op: "cast", K: "as?", A: fc.genExact(tOpt(u), d-1), T: u, Typ: t}
				})
			}
			// dictionary lookup
			add(2, func() *Expr {
				kt := lib.Pick(g.r, []*Ty{tStr, tInt8})
				return &Expr{Op: "idx", A: fc.genExact(tDict(kt, u), d-1), Bx: fc.genExact(kt, 0), Typ: t}
			})
			// optional chaining: field of type u (non-optional) or of type t (optional)
			for n, dcl := range g.p.Decls {
				if dcl.Res {
					continue
				}
				for f, ft := range dcl.Fields {
					if (ft.eq(u) && u.K != kOpt) || (ft.eq(t)) {
						n, f := n, f
						add(4, func() *Expr {
							return &Expr{Op: "optmem", A: fc.genExact(tOpt(tStruct(n)), d-1), X: f, Typ: t}
						})
					}
				}
			}
		}
	}
	if len(cands) == 0 {
		// no way to build a value of this type here (should not happen for pool types)
		return &Expr{Op: "panic", Typ: tNever}
	}
	return cands[g.r.Intn(len(cands))]()
}

// an array expression that is usually non-empty (so that most index expressions succeed)
func (fc *fctx) nonEmptyArr(t *Ty, d int) *Expr {
	if fc.g.r.Chance(1, 5) {
		return fc.genExact(t, d)
	}
	n := 2 + fc.g.r.Intn(2)
	es := make([]*Expr, n)
	for i := range es {
		es[i] = fc.genSub(t.A, d-1)
	}
	return &Expr{Op: "arr", Es: es, T: t.A, Typ: t}
}

// ---------------------------------------------------------------- statements

func (fc *fctx) push(t *Ty) int {
	fc.vars = append(fc.vars, t)
	return len(fc.vars) - 1
}

func (fc *fctx) pop(n int) {
	for i := n; i < len(fc.vars); i++ {
		delete(fc.dead, i)
		delete(fc.prot, i)
	}
	fc.vars = fc.vars[:n]
}

func (fc *fctx) mutableVars(pred func(*Ty) bool) []int {
	var out []int
	for i, t := range fc.vars {
		if !fc.prot[i] && !t.isRes() && pred(t) {
			out = append(out, i)
		}
	}
	return out
}

// a random assignable target rooted at a mutable variable, with its static type
func (fc *fctx) genTarget() (*Target, *Ty) {
	g := fc.g
	roots := fc.mutableVars(func(*Ty) bool { return true })
	if len(roots) == 0 {
		return nil, nil
	}
	x := lib.Pick(g.r, roots)
	tg, t := &Target{Op: "var", X: x}, fc.vars[x]
	for steps := 0; steps < 3; steps++ {
		switch {
		case t.K == kArr && g.r.Chance(2, 3):
			var idx *Expr
			if g.r.Chance(5, 6) {
				idx = litInt(big.NewInt(int64(g.r.Intn(3))))
			} else {
				idx = &Expr{Op: "cast", K: "as", A: fc.genExact(tInt8, 1), T: tInt8, Typ: tInt8}
			}
			tg, t = &Target{Op: "idx", G: tg, I: idx}, t.A
		case t.K == kDict && g.r.Chance(2, 3):
			return &Target{Op: "idx", G: tg, I: fc.genExact(t.A, 0)}, tOpt(t.B)
		case t.K == kStruct && tg.Op == "var" && g.r.Chance(2, 3) && len(g.p.Decls[t.N].Fields) > 0:
			f := g.r.Intn(len(g.p.Decls[t.N].Fields))
			return &Target{Op: "mem", G: tg, X: f}, g.p.Decls[t.N].Fields[f]
		default:
			return tg, t
		}
	}
	return tg, t
}

// genStmts generates about n statements; returns whether the block ended with a jump/return
func (fc *fctx) genStmts(n int) ([]*Stmt, bool) {
	g := fc.g
	var out []*Stmt
	for k := 0; k < n; k++ {
		noJump := len(fc.liveRes()) > 0
		switch c := g.r.Intn(100); {
		case g.r.Chance(1, 11): // guard / guard let with an else block that exits
			els := fc.exitBlock(noJump)
			if els == nil {
				continue
			}
			if g.r.Bool() {
				cond := fc.genExact(tBool, 2)
				if g.r.Chance(1, 3) {
					cond = &Expr{Op: "bool", B: false, Typ: tBool}
				}
				out = append(out, &Stmt{Op: "guard", E: cond, B1: els})
			} else {
				u := g.randType(1)
				var e *Expr
				if g.r.Chance(1, 2) { // the nil branch must be reached at run time
					e = &Expr{Op: "cast", K: "as", A: &Expr{Op: "nil", Typ: tOpt(tNever)}, T: tOpt(u), Typ: tOpt(u)}
				} else {
					e = fc.genExact(tOpt(u), 2)
				}
				v := fc.push(u)
				fc.prot[v] = true
				out = append(out, &Stmt{Op: "guardlet", E: e, V: v, B1: els})
			}
		case c < 26: // let
			t := g.randType(2)
			var ann *Ty
			var e *Expr
			switch g.r.Intn(4) {
			case 0: // inferred
				e = fc.genExact(t, 3)
			case 1: // annotated with the same type
				e, ann = fc.genExact(t, 3), t
			default: // annotated with a supertype
				e, ann = fc.genSub(t, 3), t
			}
			vt := t
			if ann == nil {
				vt = e.Typ
			}
			if vt.K == kNever || vt.K == kVoid || (vt.K == kOpt && vt.A.K == kNever) {
				e, ann, vt = fc.genExact(tInt8, 1), tInt8, tInt8
			}
			v := fc.push(vt)
			out = append(out, &Stmt{Op: "let", Ann: ann, E: e, V: v})
		case c < 42: // assignment
			tg, t := fc.genTarget()
			if tg == nil {
				continue
			}
			out = append(out, &Stmt{Op: "assign", G: tg, E: fc.genSub(t, 3)})
		case c < 46: // swap
			vs := fc.mutableVars(func(*Ty) bool { return true })
			if len(vs) < 2 {
				continue
			}
			x := lib.Pick(g.r, vs)
			var ys []int
			for _, y := range vs {
				if y != x && fc.vars[y].eq(fc.vars[x]) {
					ys = append(ys, y)
				}
			}
			if len(ys) == 0 {
				continue
			}
			out = append(out, &Stmt{Op: "swap", X: x, Y: lib.Pick(g.r, ys)})
		case c < 53: // append
			tg, t := fc.genTarget()
			if tg == nil || t.K != kArr {
				continue
			}
			out = append(out, &Stmt{Op: "append", G: tg, E: fc.genSub(t.A, 2)})
		case c < 65 && fc.nested < 2: // if
			cond := fc.genExact(tBool, 2)
			b1, j1 := fc.sub(1+g.r.Intn(3), nil, fc.inLoop)
			var b2 []*Stmt
			j2 := false
			if g.r.Bool() {
				b2, j2 = fc.sub(1+g.r.Intn(2), nil, fc.inLoop)
			}
			out = append(out, &Stmt{Op: "if", E: cond, B1: b1, B2: b2})
			if j1 && j2 {
				return out, true
			}
		case c < 73 && fc.nested < 2: // if let
			u := g.randType(1)
			e := fc.genExact(tOpt(u), 3)
			v := len(fc.vars)
			b1, j1 := fc.sub(1+g.r.Intn(3), u, fc.inLoop)
			var b2 []*Stmt
			j2 := false
			if g.r.Bool() {
				b2, j2 = fc.sub(1+g.r.Intn(2), nil, fc.inLoop)
			}
			out = append(out, &Stmt{Op: "iflet", E: e, V: v, B1: b1, B2: b2})
			if j1 && j2 {
				return out, true
			}
		case c < 79 && fc.nested < 2: // bounded while
			cnt := fc.push(tInt)
			fc.prot[cnt] = true
			out = append(out, &Stmt{Op: "let", Ann: tInt, E: litInt(big.NewInt(0)), V: cnt})
			bound := int64(1 + g.r.Intn(3))
			inc := &Stmt{Op: "assign", G: &Target{Op: "var", X: cnt},
				E: &Expr{Op: "bin", Bop: "+", A: evar(cnt, tInt), Bx: litInt(big.NewInt(1)), Typ: tInt}}
			body, _ := fc.sub(1+g.r.Intn(3), nil, true)
			body = append([]*Stmt{inc}, body...)
			cond := &Expr{Op: "bin", Bop: "<", A: evar(cnt, tInt), Bx: litInt(big.NewInt(bound)), Typ: tBool}
			out = append(out, &Stmt{Op: "while", E: cond, B1: body})
		case c < 85 && fc.nested < 2: // for-in
			et := g.randType(1)
			e := fc.genExact(tArr(et), 2)
			var protd []int
			if e.Op == "var" && !fc.prot[e.X] {
				fc.prot[e.X] = true
				protd = append(protd, e.X)
			}
			v := len(fc.vars)
			body, _ := fc.sub(1+g.r.Intn(3), et, true)
			for _, x := range protd {
				delete(fc.prot, x)
			}
			out = append(out, &Stmt{Op: "for", E: e, V: v, B1: body})
		case c < 88 && fc.nested > 0 && !noJump: // early exit inside a nested block
			if fc.inLoop && g.r.Bool() {
				out = append(out, &Stmt{Op: lib.Pick(g.r, []string{"break", "continue"})})
			} else if fc.ret.K == kVoid {
				out = append(out, &Stmt{Op: "return"})
			} else {
				out = append(out, &Stmt{Op: "return", E: fc.genSub(fc.ret, 2)})
			}
			return out, true
		case c < 89 && fc.nested > 0 && !noJump:
			out = append(out, &Stmt{Op: "expr", E: &Expr{Op: "panic", Typ: tNever}})
			return out, true
		case c < 94 && fc.nested == 0: // resource life cycle at the top level of the function body
			out = append(out, fc.genResourceStmt()...)
		default: // call statement / variable initialised by a call
			for j := fc.fi + 1; j < len(g.p.Funs); j++ {
				if g.kind[j] == "" && g.r.Chance(2, 3) {
					fn := g.p.Funs[j]
					es := make([]*Expr, len(fn.Params))
					for i, pt := range fn.Params {
						es[i] = fc.genSub(pt, 2)
					}
					call := &Expr{Op: "call", X: j, Es: es, Typ: fn.Ret}
					if fn.Ret.K != kVoid && g.r.Chance(2, 3) {
						v := fc.push(fn.Ret)
						out = append(out, &Stmt{Op: "let", E: call, V: v})
					} else {
						out = append(out, &Stmt{Op: "expr", E: call})
					}
					break
				}
			}
		}
	}
	return out, false
}

// exitBlock: a block that definitely exits (for the else of a guard): a few statements followed by
// return / break / continue / panic, or an if/else whose branches both exit
func (fc *fctx) exitBlock(noJump bool) []*Stmt {
	g := fc.g
	exit := func() []*Stmt {
		var kinds []string
		kinds = append(kinds, "panic")
		if !noJump {
			kinds = append(kinds, "return", "return")
			if fc.inLoop {
				kinds = append(kinds, "break", "continue", "break", "continue")
			}
		}
		switch lib.Pick(g.r, kinds) {
		case "panic":
			return []*Stmt{{Op: "expr", E: &Expr{Op: "panic", Typ: tNever}}}
		case "break":
			return []*Stmt{{Op: "break"}}
		case "continue":
			return []*Stmt{{Op: "continue"}}
		default:
			if fc.ret.K == kVoid {
				return []*Stmt{{Op: "return"}}
			}
			return []*Stmt{{Op: "return", E: fc.genSub(fc.ret, 1)}}
		}
	}
	mark := len(fc.vars)
	fc.nested++
	defer func() { fc.nested--; fc.pop(mark) }()
	if g.r.Chance(1, 4) {
		return []*Stmt{{Op: "if", E: fc.genExact(tBool, 1), B1: exit(), B2: exit()}}
	}
	return exit()
}

// sub generates a nested block (optionally binding a new constant variable of type bind first)
func (fc *fctx) sub(n int, bind *Ty, inLoop bool) ([]*Stmt, bool) {
	mark := len(fc.vars)
	if bind != nil {
		v := fc.push(bind)
		fc.prot[v] = true
	}
	oldLoop := fc.inLoop
	fc.inLoop = inLoop
	fc.nested++
	b, j := fc.genStmts(n)
	fc.nested--
	fc.inLoop = oldLoop
	fc.pop(mark)
	return b, j
}

func (fc *fctx) newResource(n int) *Expr {
	dcl := fc.g.p.Decls[n]
	es := make([]*Expr, len(dcl.Fields))
	for i, ft := range dcl.Fields {
		es[i] = fc.genSub(ft, 1)
	}
	return &Expr{Op: "ctor", X: n, Es: es, Typ: tRes(n), IsRC: true}
}

// create / consume resources (only at the top level of a function body)
func (fc *fctx) genResourceStmt() []*Stmt {
	g := fc.g
	live := fc.liveRes()
	rs := g.resources()
	if len(rs) == 0 {
		return nil
	}
	if len(live) == 0 || (len(live) < 2 && g.r.Chance(1, 3)) {
		n := lib.Pick(g.r, rs)
		var e *Expr
		e = fc.newResource(n)
		for j := fc.fi + 1; j < len(g.p.Funs); j++ {
			if g.kind[j] == "make" && g.p.Funs[j].Ret.N == n && g.r.Bool() {
				fn := g.p.Funs[j]
				es := make([]*Expr, len(fn.Params))
				for i, pt := range fn.Params {
					es[i] = fc.genSub(pt, 1)
				}
				e = &Expr{Op: "call", X: j, Es: es, Typ: fn.Ret}
			}
		}
		v := fc.push(tRes(n))
		var ann *Ty
		if g.r.Bool() {
			ann = tRes(n)
		}
		return []*Stmt{{Op: "let", Ann: ann, E: e, V: v}}
	}
	x := lib.Pick(g.r, live)
	return []*Stmt{fc.consume(x)}
}

func (fc *fctx) consume(x int) *Stmt {
	g := fc.g
	t := fc.vars[x]
	fc.dead[x] = true
	mv := &Expr{Op: "move", X: x, Typ: t}
	// pass to a consuming helper
	for j := fc.fi + 1; j < len(g.p.Funs); j++ {
		if g.kind[j] == "consume" && g.r.Bool() {
			fn := g.p.Funs[j]
			ok := false
			es := make([]*Expr, len(fn.Params))
			for i, pt := range fn.Params {
				if pt.isRes() {
					if pt.eq(t) {
						es[i], ok = mv, true
					}
				} else {
					es[i] = fc.genSub(pt, 1)
				}
			}
			if ok {
				call := &Expr{Op: "call", X: j, Es: es, Typ: fn.Ret}
				if fn.Ret.K == kVoid || g.r.Bool() {
					return &Stmt{Op: "expr", E: call}
				}
				v := fc.push(fn.Ret)
				return &Stmt{Op: "let", E: call, V: v}
			}
		}
	}
	if g.r.Chance(1, 4) {
		v := fc.push(t)
		return &Stmt{Op: "let", E: mv, V: v}
	}
	return &Stmt{Op: "destroy", E: mv}
}

// genFunBody fills in the body of function fi
func (g *fgen) genFunBody(fi int) {
	fn := g.p.Funs[fi]
	fc := &fctx{g: g, fi: fi, dead: map[int]bool{}, prot: map[int]bool{}, ret: fn.Ret}
	for i, t := range fn.Params {
		fc.vars = append(fc.vars, t)
		fc.prot[i] = true
	}
	n := 3 + g.r.Intn(6)
	if fi > 0 {
		n = 1 + g.r.Intn(4)
	}
	body, jumped := fc.genStmts(n)
	if jumped {
		fn.Body = body
		return
	}
	if g.kind[fi] == "make" {
		// consume everything else, return a fresh resource
		for _, x := range fc.liveRes() {
			body = append(body, fc.consume(x))
		}
		for _, x := range fc.liveRes() {
			fc.dead[x] = true
			body = append(body, &Stmt{Op: "destroy", E: &Expr{Op: "move", X: x, Typ: fc.vars[x]}})
		}
		body = append(body, &Stmt{Op: "return", E: fc.newResource(fn.Ret.N)})
		fn.Body = body
		return
	}
	for len(fc.liveRes()) > 0 {
		body = append(body, fc.consume(fc.liveRes()[0]))
	}
	if fn.Ret.K != kVoid {
		body = append(body, &Stmt{Op: "return", E: fc.genSub(fn.Ret, 3)})
	}
	fn.Body = body
}

// genProgram generates a whole program
func genProgram(r *lib.Rng) *Prog {
	g := &fgen{r: r, p: &Prog{}}
	// composites: fields of earlier structs allowed (no recursion)
	nd := 1 + r.Intn(3)
	for i := 0; i < nd; i++ {
		res := i > 0 && r.Chance(1, 2)
		nf := 1 + r.Intn(3)
		d := &Decl{Res: res}
		for j := 0; j < nf; j++ {
			if res {
				d.Fields = append(d.Fields, lib.Pick(r, []*Ty{tInt8, tInt, tStr, tOpt(tInt8), tBool}))
			} else {
				d.Fields = append(d.Fields, g.randType(1))
			}
		}
		g.p.Decls = append(g.p.Decls, d)
	}
	// functions: main and helpers
	nf := 1 + r.Intn(3)
	mainParamPool := []*Ty{tInt8, tInt, tBool, tStr, tOpt(tInt8), tArr(tInt8), tArr(tOpt(tInt8)), tDict(tStr, tInt8), tOpt(tOpt(tInt8))}
	for i := 0; i < nf; i++ {
		fn := &Fun{}
		kind := ""
		np := r.Intn(3)
		for j := 0; j < np; j++ {
			if i == 0 {
				fn.Params = append(fn.Params, lib.Pick(r, mainParamPool))
			} else if r.Chance(2, 5) {
				// optional parameters: the argument transfer has to box
				fn.Params = append(fn.Params, tOpt(g.randType(0)))
			} else {
				fn.Params = append(fn.Params, g.randType(1))
			}
		}
		fn.Ret = g.randType(1)
		if i > 0 {
			rs := g.resources()
			switch {
			case len(rs) > 0 && r.Chance(1, 3):
				kind = "consume"
				fn.Params = append(fn.Params, tRes(lib.Pick(r, rs)))
				if r.Chance(1, 3) {
					fn.Ret = tVoid
				}
			case len(rs) > 0 && r.Chance(1, 4):
				kind = "make"
				fn.Ret = tRes(lib.Pick(r, rs))
			case r.Chance(1, 6):
				fn.Ret = tVoid
			}
		}
		g.p.Funs = append(g.p.Funs, fn)
		g.kind = append(g.kind, kind)
	}
	for i := len(g.p.Funs) - 1; i >= 0; i-- {
		g.genFunBody(i)
	}
	return g.p
}
