package frag

// AST of the modelled fragment (mirrors coq/theories/C01/Syntax.v) with two printers:
// Cadence source and Coq term.

import (
	"fmt"
	"math/big"
	"strings"
)

// ---------------------------------------------------------------- types

const (
	kInt8 = iota
	kInt
	kBool
	kStr
	kVoid
	kNever
	kAnyS
	kAnyR
	kOpt
	kArr
	kDict
	kStruct
	kRes
)

type Ty struct {
	K    int
	A, B *Ty // Opt/Arr: A; Dict: A=key, B=value
	N    int // composite number
}

var (
	tInt8  = &Ty{K: kInt8}
	tInt   = &Ty{K: kInt}
	tBool  = &Ty{K: kBool}
	tStr   = &Ty{K: kStr}
	tVoid  = &Ty{K: kVoid}
	tNever = &Ty{K: kNever}
	tAnyS  = &Ty{K: kAnyS}
	tAnyR  = &Ty{K: kAnyR}
)

func tOpt(t *Ty) *Ty     { return &Ty{K: kOpt, A: t} }
func tArr(t *Ty) *Ty     { return &Ty{K: kArr, A: t} }
func tDict(k, v *Ty) *Ty { return &Ty{K: kDict, A: k, B: v} }
func tStruct(n int) *Ty  { return &Ty{K: kStruct, N: n} }
func tRes(n int) *Ty     { return &Ty{K: kRes, N: n} }

func (t *Ty) eq(u *Ty) bool {
	if t.K != u.K {
		return false
	}
	switch t.K {
	case kOpt, kArr:
		return t.A.eq(u.A)
	case kDict:
		return t.A.eq(u.A) && t.B.eq(u.B)
	case kStruct, kRes:
		return t.N == u.N
	}
	return true
}

// kind: 0 struct-kinded, 1 resource-kinded, 2 never-like
func (t *Ty) kind() int {
	switch t.K {
	case kNever:
		return 2
	case kRes, kAnyR:
		return 1
	case kOpt, kArr:
		return t.A.kind()
	case kDict:
		return t.B.kind()
	}
	return 0
}
func (t *Ty) isRes() bool { return t.kind() == 1 }

func kle(a, b int) bool { return a == 2 || a == b }

// subtype mirrors C01.Syntax.subtype (used by the generator only; the verdicts are compared in Coq)
func subtype(a, b *Ty) bool {
	if a.eq(b) {
		return true
	}
	if a.K == kNever {
		return true
	}
	switch b.K {
	case kAnyS:
		return kle(a.kind(), 0)
	case kAnyR:
		return kle(a.kind(), 1)
	case kOpt:
		if a.K == kOpt {
			return subtype(a.A, b.A)
		}
		return subtype(a, b.A)
	case kArr:
		return a.K == kArr && subtype(a.A, b.A)
	case kDict:
		return a.K == kDict && subtype(a.A, b.A) && subtype(a.B, b.B)
	}
	return false
}

// core of the Cadence type syntax (without the resource annotation)
func (t *Ty) cdcCore() string {
	switch t.K {
	case kInt8:
		return "Int8"
	case kInt:
		return "Int"
	case kBool:
		return "Bool"
	case kStr:
		return "String"
	case kVoid:
		return "Void"
	case kNever:
		return "Never"
	case kAnyS:
		return "AnyStruct"
	case kAnyR:
		return "AnyResource"
	case kOpt:
		if t.A.K == kOpt {
			return "(" + t.A.cdcCore() + ")?"
		}
		return t.A.cdcCore() + "?"
	case kArr:
		return "[" + t.A.cdcCore() + "]"
	case kDict:
		return "{" + t.A.cdcCore() + ": " + t.B.cdcCore() + "}"
	case kStruct:
		return fmt.Sprintf("S%d", t.N)
	case kRes:
		return fmt.Sprintf("R%d", t.N)
	}
	return "?"
}

func (t *Ty) Cdc() string {
	if t.isRes() {
		return "@" + t.cdcCore()
	}
	return t.cdcCore()
}

func (t *Ty) Coq() string {
	switch t.K {
	case kInt8:
		return "TInt8"
	case kInt:
		return "TInt"
	case kBool:
		return "TBool"
	case kStr:
		return "TStr"
	case kVoid:
		return "TVoid"
	case kNever:
		return "TNever"
	case kAnyS:
		return "TAnyS"
	case kAnyR:
		return "TAnyR"
	case kOpt:
		return "(TOpt " + t.A.Coq() + ")"
	case kArr:
		return "(TArr " + t.A.Coq() + ")"
	case kDict:
		return "(TDict " + t.A.Coq() + " " + t.B.Coq() + ")"
	case kStruct:
		return fmt.Sprintf("(TStruct %d)", t.N)
	case kRes:
		return fmt.Sprintf("(TRes %d)", t.N)
	}
	return "?"
}

// ---------------------------------------------------------------- expressions

type Expr struct {
	Op   string // lit8 int bool str nil var move bin eq and or not coal cond force mem optmem cast arr dict idx len call ctor panic
	Z    *big.Int
	B    bool
	S    string
	X    int    // variable / field / function / composite number
	Bop  string // binary operator (Cadence token)
	K    string // cast kind: as as? as!
	T    *Ty    // cast target / array element type / dict key type
	T2   *Ty    // dict value type
	A    *Expr
	Bx   *Expr
	C    *Expr
	Es   []*Expr
	Typ  *Ty  // static type as the generator believes it to be
	IsRC bool // ctor of a resource (create)
}

func zCoq(z *big.Int) string {
	if z.Sign() < 0 {
		return "(" + z.String() + ")"
	}
	return z.String()
}

func strCoq(s string) string {
	parts := make([]string, 0, len(s))
	for _, c := range s {
		parts = append(parts, fmt.Sprint(int(c)))
	}
	return "[" + strings.Join(parts, ";") + "]"
}

var coqBin = map[string]string{"+": "BAdd", "-": "BSub", "*": "BMul", "/": "BDiv", "%": "BMod",
	"<": "BLt", "<=": "BLe", ">": "BGt", ">=": "BGe"}

func exprsCoq(es []*Expr) string {
	s := "ENone"
	for i := len(es) - 1; i >= 0; i-- {
		s = "(EMore " + es[i].Coq() + " V " + s + ")"
	}
	return s
}

// Coq term; V = TVoid fills the elaboration slots
func (e *Expr) Coq() string {
	switch e.Op {
	case "lit8":
		return "(ELit8 " + zCoq(e.Z) + ")"
	case "int":
		return "(ELitInt " + zCoq(e.Z) + ")"
	case "bool":
		if e.B {
			return "(EBool true)"
		}
		return "(EBool false)"
	case "str":
		return "(EStr " + strCoq(e.S) + ")"
	case "nil":
		return "ENil"
	case "var":
		return fmt.Sprintf("(EVar %d)", e.X)
	case "move":
		return fmt.Sprintf("(EMove %d)", e.X)
	case "bin":
		return "(EBin " + coqBin[e.Bop] + " " + e.A.Coq() + " " + e.Bx.Coq() + ")"
	case "eq":
		neg := "false"
		if e.B {
			neg = "true"
		}
		return "(EEq " + neg + " " + e.A.Coq() + " " + e.Bx.Coq() + ")"
	case "and":
		return "(EAnd " + e.A.Coq() + " " + e.Bx.Coq() + ")"
	case "or":
		return "(EOr " + e.A.Coq() + " " + e.Bx.Coq() + ")"
	case "not":
		return "(ENot " + e.A.Coq() + ")"
	case "coal":
		return "(ECoalesce " + e.A.Coq() + " " + e.Bx.Coq() + " V V V)"
	case "cond":
		return "(ECond " + e.C.Coq() + " " + e.A.Coq() + " " + e.Bx.Coq() + " V V V)"
	case "force":
		return "(EForce " + e.A.Coq() + ")"
	case "mem":
		return fmt.Sprintf("(EMember %s %d V)", e.A.Coq(), e.X)
	case "optmem":
		return fmt.Sprintf("(EOptMember %s %d V)", e.A.Coq(), e.X)
	case "cast":
		k := map[string]string{"as": "CStatic", "as?": "CFailable", "as!": "CForce"}[e.K]
		return "(ECast " + k + " " + e.A.Coq() + " V " + e.T.Coq() + ")"
	case "arr":
		return "(EArr " + exprsCoq(e.Es) + " " + e.T.Coq() + ")"
	case "dict":
		return "(EDict " + exprsCoq(e.Es) + " " + e.T.Coq() + " " + e.T2.Coq() + ")"
	case "idx":
		return "(EIndex " + e.A.Coq() + " " + e.Bx.Coq() + " V V V)"
	case "len":
		return "(ELen " + e.A.Coq() + ")"
	case "call":
		return fmt.Sprintf("(ECall %d %s)", e.X, exprsCoq(e.Es))
	case "ctor":
		return fmt.Sprintf("(ECtor %d %s)", e.X, exprsCoq(e.Es))
	case "panic":
		return "EPanic"
	}
	panic("expr op " + e.Op)
}

// Cadence source of an expression in a transfer position: resource-kinded values are moved
func (e *Expr) cdcMove() string {
	if e.Typ != nil && e.Typ.isRes() {
		return "<- " + e.Cdc()
	}
	return e.Cdc()
}

func (e *Expr) Cdc() string {
	switch e.Op {
	case "lit8":
		return "(" + e.Z.String() + " as Int8)"
	case "int":
		return "(" + e.Z.String() + " as Int)"
	case "bool":
		if e.B {
			return "true"
		}
		return "false"
	case "str":
		return "\"" + e.S + "\""
	case "nil":
		return "nil"
	case "var", "move":
		return fmt.Sprintf("v%d", e.X)
	case "bin":
		return "(" + e.A.Cdc() + " " + e.Bop + " " + e.Bx.Cdc() + ")"
	case "eq":
		op := "=="
		if e.B {
			op = "!="
		}
		return "(" + e.A.Cdc() + " " + op + " " + e.Bx.Cdc() + ")"
	case "and":
		return "(" + e.A.Cdc() + " && " + e.Bx.Cdc() + ")"
	case "or":
		return "(" + e.A.Cdc() + " || " + e.Bx.Cdc() + ")"
	case "not":
		return "(!" + e.A.Cdc() + ")"
	case "coal":
		return "(" + e.A.Cdc() + " ?? " + e.Bx.Cdc() + ")"
	case "cond":
		return "(" + e.C.Cdc() + " ? " + e.A.Cdc() + " : " + e.Bx.Cdc() + ")"
	case "force":
		return "(" + e.A.Cdc() + "!)"
	case "mem":
		return fmt.Sprintf("%s.f%d", e.A.Cdc(), e.X)
	case "optmem":
		return fmt.Sprintf("%s?.f%d", e.A.Cdc(), e.X)
	case "cast":
		return "(" + e.A.Cdc() + " " + e.K + " " + e.T.Cdc() + ")"
	case "arr":
		parts := make([]string, len(e.Es))
		for i, x := range e.Es {
			parts[i] = x.cdcMove()
		}
		pre := ""
		if e.T.isRes() {
			pre = "<- "
		}
		return "(" + pre + "[" + strings.Join(parts, ", ") + "] as " + tArr(e.T).Cdc() + ")"
	case "dict":
		parts := []string{}
		for i := 0; i+1 < len(e.Es); i += 2 {
			parts = append(parts, e.Es[i].Cdc()+": "+e.Es[i+1].cdcMove())
		}
		return "({" + strings.Join(parts, ", ") + "} as " + tDict(e.T, e.T2).Cdc() + ")"
	case "idx":
		return e.A.Cdc() + "[" + e.Bx.Cdc() + "]"
	case "len":
		return e.A.Cdc() + ".length"
	case "call":
		parts := make([]string, len(e.Es))
		for i, x := range e.Es {
			parts[i] = x.cdcMove()
		}
		return fmt.Sprintf("f%d(%s)", e.X, strings.Join(parts, ", "))
	case "ctor":
		parts := make([]string, len(e.Es))
		for i, x := range e.Es {
			parts[i] = x.cdcMove()
		}
		if e.IsRC {
			return fmt.Sprintf("create R%d(%s)", e.X, strings.Join(parts, ", "))
		}
		return fmt.Sprintf("S%d(%s)", e.X, strings.Join(parts, ", "))
	case "panic":
		return "panic(\"p\")"
	}
	panic("expr op " + e.Op)
}

// ---------------------------------------------------------------- targets, statements

type Target struct {
	Op string // var idx mem
	X  int
	G  *Target
	I  *Expr
}

func (g *Target) Coq() string {
	switch g.Op {
	case "var":
		return fmt.Sprintf("(TgVar %d)", g.X)
	case "idx":
		return "(TgIndex " + g.G.Coq() + " " + g.I.Coq() + ")"
	default:
		return fmt.Sprintf("(TgMember %s %d)", g.G.Coq(), g.X)
	}
}

func (g *Target) Cdc() string {
	switch g.Op {
	case "var":
		return fmt.Sprintf("v%d", g.X)
	case "idx":
		return g.G.Cdc() + "[" + g.I.Cdc() + "]"
	default:
		return fmt.Sprintf("%s.f%d", g.G.Cdc(), g.X)
	}
}

type Stmt struct {
	Op     string // let assign swap append if iflet while for return break continue expr destroy guard guardlet
	Ann    *Ty    // let annotation (nil = inferred)
	E      *Expr
	G      *Target
	X, Y   int
	B1, B2 []*Stmt
	V      int // variable number introduced (let / iflet / for)
}

func blockCoq(b []*Stmt) string {
	// `guard let x = e else {..}` scopes x over the REST of the block: in the Coq syntax the rest is
	// nested inside the statement
	for i, st := range b {
		if st.Op == "guardlet" {
			s := "(BCons (SGuardLet " + st.E.Coq() + " V " + blockCoq(st.B1) + " " + blockCoq(b[i+1:]) + ") BNil)"
			for j := i - 1; j >= 0; j-- {
				s = "(BCons " + b[j].Coq() + " " + s + ")"
			}
			return s
		}
	}
	s := "BNil"
	for i := len(b) - 1; i >= 0; i-- {
		s = "(BCons " + b[i].Coq() + " " + s + ")"
	}
	return s
}

func (s *Stmt) Coq() string {
	switch s.Op {
	case "let":
		ann := "None"
		if s.Ann != nil {
			ann = "(Some " + s.Ann.Coq() + ")"
		}
		return "(SLet " + ann + " " + s.E.Coq() + " V V)"
	case "assign":
		return "(SAssign " + s.G.Coq() + " " + s.E.Coq() + " V V)"
	case "swap":
		return fmt.Sprintf("(SSwap %d %d)", s.X, s.Y)
	case "append":
		return "(SAppend " + s.G.Coq() + " " + s.E.Coq() + " V V)"
	case "if":
		return "(SIf " + s.E.Coq() + " " + blockCoq(s.B1) + " " + blockCoq(s.B2) + ")"
	case "iflet":
		return "(SIfLet " + s.E.Coq() + " V " + blockCoq(s.B1) + " " + blockCoq(s.B2) + ")"
	case "while":
		return "(SWhile " + s.E.Coq() + " " + blockCoq(s.B1) + ")"
	case "for":
		return "(SFor " + s.E.Coq() + " V " + blockCoq(s.B1) + ")"
	case "return":
		if s.E == nil {
			return "(SReturn None V V)"
		}
		return "(SReturn (Some " + s.E.Coq() + ") V V)"
	case "break":
		return "SBreak"
	case "continue":
		return "SContinue"
	case "expr":
		return "(SExpr " + s.E.Coq() + ")"
	case "destroy":
		return "(SDestroy " + s.E.Coq() + ")"
	case "guard":
		return "(SGuard " + s.E.Coq() + " " + blockCoq(s.B1) + ")"
	}
	panic("stmt op " + s.Op)
}

func blockCdc(b []*Stmt, ind string) string {
	var sb strings.Builder
	for _, s := range b {
		sb.WriteString(s.Cdc(ind))
	}
	return sb.String()
}

func (s *Stmt) Cdc(ind string) string {
	in2 := ind + "  "
	switch s.Op {
	case "let":
		op := "="
		if s.E.Typ != nil && s.E.Typ.isRes() || s.Ann != nil && s.Ann.isRes() {
			op = "<-"
		}
		ann := ""
		if s.Ann != nil {
			ann = ": " + s.Ann.Cdc()
		}
		return fmt.Sprintf("%svar v%d%s %s %s\n", ind, s.V, ann, op, s.E.Cdc())
	case "assign":
		if s.G.Op == "mem" {
			// fields cannot be assigned from outside the composite: use the generated setter
			return fmt.Sprintf("%s%s.setF%d(%s)\n", ind, s.G.G.Cdc(), s.G.X, s.E.Cdc())
		}
		return fmt.Sprintf("%s%s = %s\n", ind, s.G.Cdc(), s.E.Cdc())
	case "swap":
		return fmt.Sprintf("%sv%d <-> v%d\n", ind, s.X, s.Y)
	case "append":
		return fmt.Sprintf("%s%s.append(%s)\n", ind, s.G.Cdc(), s.E.cdcMove())
	case "if":
		r := fmt.Sprintf("%sif %s {\n%s%s}", ind, s.E.Cdc(), blockCdc(s.B1, in2), ind)
		if len(s.B2) > 0 {
			r += fmt.Sprintf(" else {\n%s%s}", blockCdc(s.B2, in2), ind)
		}
		return r + "\n"
	case "iflet":
		op := "="
		if s.E.Typ != nil && s.E.Typ.isRes() {
			op = "<-"
		}
		r := fmt.Sprintf("%sif let v%d %s %s {\n%s%s}", ind, s.V, op, s.E.Cdc(), blockCdc(s.B1, in2), ind)
		if len(s.B2) > 0 {
			r += fmt.Sprintf(" else {\n%s%s}", blockCdc(s.B2, in2), ind)
		}
		return r + "\n"
	case "while":
		return fmt.Sprintf("%swhile %s {\n%s%s}\n", ind, s.E.Cdc(), blockCdc(s.B1, in2), ind)
	case "for":
		return fmt.Sprintf("%sfor v%d in %s {\n%s%s}\n", ind, s.V, s.E.Cdc(), blockCdc(s.B1, in2), ind)
	case "return":
		if s.E == nil {
			return ind + "return\n"
		}
		return fmt.Sprintf("%sreturn %s\n", ind, s.E.cdcMove())
	case "break":
		return ind + "break\n"
	case "continue":
		return ind + "continue\n"
	case "expr":
		return ind + s.E.Cdc() + "\n"
	case "destroy":
		return ind + "destroy " + s.E.Cdc() + "\n"
	case "guard":
		return fmt.Sprintf("%sguard %s else {\n%s%s}\n", ind, s.E.Cdc(), blockCdc(s.B1, in2), ind)
	case "guardlet":
		return fmt.Sprintf("%sguard let v%d = %s else {\n%s%s}\n", ind, s.V, s.E.Cdc(), blockCdc(s.B1, in2), ind)
	}
	panic("stmt op " + s.Op)
}

// ---------------------------------------------------------------- programs

type Decl struct {
	Res    bool
	Fields []*Ty
}

type Fun struct {
	Params []*Ty
	Ret    *Ty
	Body   []*Stmt
}

type Prog struct {
	Decls []*Decl
	Funs  []*Fun
}

func (p *Prog) Coq() string {
	ds := make([]string, len(p.Decls))
	for i, d := range p.Decls {
		fs := make([]string, len(d.Fields))
		for j, f := range d.Fields {
			fs[j] = f.Coq()
		}
		r := "false"
		if d.Res {
			r = "true"
		}
		ds[i] = "(" + r + ", [" + strings.Join(fs, "; ") + "])"
	}
	fs := make([]string, len(p.Funs))
	for i, f := range p.Funs {
		ps := make([]string, len(f.Params))
		for j, t := range f.Params {
			ps[j] = t.Coq()
		}
		fs[i] = "(mkFun [" + strings.Join(ps, "; ") + "] " + f.Ret.Coq() + " " + blockCoq(f.Body) + ")"
	}
	return "(mkProg [" + strings.Join(ds, "; ") + "] [" + strings.Join(fs, ";\n  ") + "])"
}

func (p *Prog) Cdc() string {
	var sb strings.Builder
	for i, d := range p.Decls {
		kw, name := "struct", fmt.Sprintf("S%d", i)
		if d.Res {
			kw, name = "resource", fmt.Sprintf("R%d", i)
		}
		fmt.Fprintf(&sb, "access(all) %s %s {\n", kw, name)
		ps := []string{}
		for j, f := range d.Fields {
			fmt.Fprintf(&sb, "  access(all) var f%d: %s\n", j, f.Cdc())
			ps = append(ps, fmt.Sprintf("_ a%d: %s", j, f.Cdc()))
		}
		fmt.Fprintf(&sb, "  init(%s) {\n", strings.Join(ps, ", "))
		for j, f := range d.Fields {
			op := "="
			if f.isRes() {
				op = "<-"
			}
			fmt.Fprintf(&sb, "    self.f%d %s a%d\n", j, op, j)
		}
		sb.WriteString("  }\n")
		if !d.Res {
			for j, f := range d.Fields {
				fmt.Fprintf(&sb, "  access(all) fun setF%d(_ x: %s) { self.f%d = x }\n", j, f.Cdc(), j)
			}
		}
		sb.WriteString("}\n")
	}
	for i, f := range p.Funs {
		ps := make([]string, len(f.Params))
		for j, t := range f.Params {
			if i == 0 {
				ps[j] = fmt.Sprintf("v%d: %s", j, t.Cdc())
			} else {
				ps[j] = fmt.Sprintf("_ v%d: %s", j, t.Cdc())
			}
		}
		name := fmt.Sprintf("f%d", i)
		if i == 0 {
			name = "main"
		}
		ret := ""
		if f.Ret.K != kVoid {
			ret = ": " + f.Ret.Cdc()
		}
		fmt.Fprintf(&sb, "access(all) fun %s(%s)%s {\n%s}\n", name, strings.Join(ps, ", "), ret, blockCdc(f.Body, "  "))
	}
	return sb.String()
}
