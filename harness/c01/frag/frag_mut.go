package frag

// AST-level mutations of fragment programs. A mutant is judged by the real checker and by the model's
// checker; what matters for C01 is that the real checker never accepts a program the (proved sound)
// model checker rejects, and that accepted mutants still run without internal errors.

import (
	"math/big"

	"cvh/lib"
)

type slots struct {
	exprs  []**Expr
	blocks []*[]*Stmt
	lets   []*Stmt
}

func (s *slots) expr(e **Expr) {
	if *e == nil {
		return
	}
	s.exprs = append(s.exprs, e)
	x := *e
	s.expr(&x.A)
	s.expr(&x.Bx)
	s.expr(&x.C)
	for i := range x.Es {
		s.expr(&x.Es[i])
	}
}

func (s *slots) target(g *Target) {
	if g == nil {
		return
	}
	s.target(g.G)
	if g.I != nil {
		s.expr(&g.I)
	}
}

func (s *slots) block(b *[]*Stmt) {
	s.blocks = append(s.blocks, b)
	for _, st := range *b {
		if st.Op == "let" {
			s.lets = append(s.lets, st)
		}
		if st.E != nil {
			s.expr(&st.E)
		}
		s.target(st.G)
		if st.B1 != nil {
			s.block(&st.B1)
		}
		if st.B2 != nil {
			s.block(&st.B2)
		}
	}
}

func collect(p *Prog) *slots {
	s := &slots{}
	for _, f := range p.Funs {
		s.block(&f.Body)
	}
	return s
}

// mutate applies one random mutation in place and returns its name ("" if none applied)
func mutate(r *lib.Rng, p *Prog) string {
	s := collect(p)
	for try := 0; try < 12; try++ {
		pick := r.Intn(19)
		if pick >= 16 {
			pick = 4 // resource programs are rare: favour the use-after-move mutation
		} else if pick == 15 {
			pick = 13
		}
		switch pick {
		case 0: // change / add a let annotation to a related type
			if len(s.lets) == 0 {
				continue
			}
			st := lib.Pick(r, s.lets)
			base := st.Ann
			if base == nil {
				base = st.E.Typ
			}
			if base == nil || base.isRes() {
				continue
			}
			var nt *Ty
			switch r.Intn(5) {
			case 0:
				if base.K == kOpt {
					nt = base.A // T? -> T
				} else {
					nt = tOpt(base)
				}
			case 1:
				nt = tAnyS
			case 2:
				if base.K == kArr {
					nt = tArr(tOpt(base.A))
				} else {
					nt = tArr(base)
				}
			case 3:
				nt = lib.Pick(r, []*Ty{tInt8, tInt, tBool, tStr})
			default:
				if base.K == kArr && base.A.K == kOpt {
					nt = tArr(base.A.A) // [T?] -> [T]
				} else {
					nt = tOpt(tOpt(base))
				}
			}
			st.Ann = nt
			return "retype-let"
		case 1: // replace an expression by a literal / nil of another type
			if len(s.exprs) == 0 {
				continue
			}
			e := lib.Pick(r, s.exprs)
			if (*e).Typ != nil && (*e).Typ.isRes() {
				continue
			}
			switch r.Intn(4) {
			case 0:
				*e = &Expr{Op: "nil", Typ: tOpt(tNever)}
			case 1:
				*e = lit8(int64(r.Intn(5)))
			case 2:
				*e = &Expr{Op: "str", S: "m", Typ: tStr}
			default:
				*e = litInt(big.NewInt(int64(r.Intn(5))))
			}
			return "replace-expr"
		case 2: // drop an unwrapping: (a ?? b) -> a ; a! -> a
			var cs []**Expr
			for _, e := range s.exprs {
				if (*e).Op == "coal" || (*e).Op == "force" {
					cs = append(cs, e)
				}
			}
			if len(cs) == 0 {
				continue
			}
			e := lib.Pick(r, cs)
			*e = (*e).A
			return "drop-unwrap"
		case 3: // drop a return statement
			var cs []*[]*Stmt
			for _, b := range s.blocks {
				if n := len(*b); n > 0 && (*b)[n-1].Op == "return" {
					cs = append(cs, b)
				}
			}
			if len(cs) == 0 {
				continue
			}
			b := lib.Pick(r, cs)
			*b = (*b)[:len(*b)-1]
			return "drop-return"
		case 4: // use a resource after it was moved: duplicate a statement that moves
			var cs [][2]int
			for bi, b := range s.blocks {
				for si, st := range *b {
					if st.Op == "destroy" || (st.Op == "expr" && hasMove(st.E)) || (st.Op == "let" && st.E.Op == "call" && hasMove(st.E)) {
						cs = append(cs, [2]int{bi, si})
					}
				}
			}
			if len(cs) == 0 {
				continue
			}
			c := lib.Pick(r, cs)
			b := s.blocks[c[0]]
			dup := (*b)[c[1]]
			if mv := firstMove(dup.E); mv != nil && r.Bool() {
				// ... or destroy the moved variable once more
				dup = &Stmt{Op: "destroy", E: &Expr{Op: "move", X: mv.X, Typ: mv.Typ}}
			}
			nb := append([]*Stmt{}, (*b)[:c[1]+1]...)
			nb = append(nb, dup)
			nb = append(nb, (*b)[c[1]+1:]...)
			*b = nb
			return "double-move"
		case 5: // optional chaining / member access on the wrong optionality
			var cs []**Expr
			for _, e := range s.exprs {
				if (*e).Op == "optmem" || (*e).Op == "mem" {
					cs = append(cs, e)
				}
			}
			if len(cs) == 0 {
				continue
			}
			e := lib.Pick(r, cs)
			if (*e).Op == "optmem" {
				(*e).Op = "mem"
			} else {
				(*e).Op = "optmem"
			}
			return "flip-optchain"
		case 6: // change a cast
			var cs []**Expr
			for _, e := range s.exprs {
				if (*e).Op == "cast" {
					cs = append(cs, e)
				}
			}
			if len(cs) == 0 {
				continue
			}
			e := lib.Pick(r, cs)
			(*e).K = lib.Pick(r, []string{"as", "as?", "as!"})
			return "change-cast"
		case 7: // drop a statement
			var cs []*[]*Stmt
			for _, b := range s.blocks {
				if len(*b) > 1 {
					cs = append(cs, b)
				}
			}
			if len(cs) == 0 {
				continue
			}
			b := lib.Pick(r, cs)
			i := r.Intn(len(*b))
			if (*b)[i].Op == "let" || (*b)[i].Op == "iflet" || (*b)[i].Op == "for" || (*b)[i].Op == "guardlet" {
				continue // would renumber variables
			}
			nb := append([]*Stmt{}, (*b)[:i]...)
			*b = append(nb, (*b)[i+1:]...)
			return "drop-stmt"
		case 11, 12: // wrap the final return of a function into a branch shape (valid or not)
			var fs []*Fun
			for _, f := range p.Funs {
				if n := len(f.Body); n > 0 && f.Body[n-1].Op == "return" && f.Body[n-1].E != nil &&
					(f.Body[n-1].E.Typ == nil || !f.Body[n-1].E.Typ.isRes()) {
					fs = append(fs, f)
				}
			}
			if len(fs) == 0 {
				continue
			}
			f := lib.Pick(r, fs)
			n := len(f.Body)
			ret := f.Body[n-1]
			cond := func() *Expr { return &Expr{Op: "bool", B: r.Bool(), Typ: tBool} }
			retS := func() []*Stmt { return []*Stmt{{Op: "return", E: ret.E}} }
			pan := []*Stmt{{Op: "expr", E: &Expr{Op: "panic", Typ: tNever}}}
			var st *Stmt
			shape := r.Intn(8)
			switch shape {
			case 0: // if c { return } else { if d { return } }
				st = &Stmt{Op: "if", E: cond(), B1: retS(), B2: []*Stmt{{Op: "if", E: cond(), B1: retS()}}}
			case 1: // if c { return }
				st = &Stmt{Op: "if", E: cond(), B1: retS()}
			case 2: // if c { return } else { panic }   (valid)
				st = &Stmt{Op: "if", E: cond(), B1: retS(), B2: pan}
			case 3: // if c { if d { return } else { return } } else { return }   (valid)
				st = &Stmt{Op: "if", E: cond(), B1: []*Stmt{{Op: "if", E: cond(), B1: retS(), B2: retS()}}, B2: retS()}
			case 4: // if c { if d { return } } else { return }
				st = &Stmt{Op: "if", E: cond(), B1: []*Stmt{{Op: "if", E: cond(), B1: retS()}}, B2: retS()}
			case 5: // while c { return }
				st = &Stmt{Op: "while", E: cond(), B1: retS()}
			case 6: // if c { return } else { if d { return } else { } }
				st = &Stmt{Op: "if", E: cond(), B1: retS(), B2: []*Stmt{{Op: "if", E: cond(), B1: retS(), B2: []*Stmt{}}}}
			default: // if c { panic } else { if d { return } }
				st = &Stmt{Op: "if", E: cond(), B1: pan, B2: []*Stmt{{Op: "if", E: cond(), B1: retS()}}}
			}
			f.Body[n-1] = st
			return "return-shape"
		case 13, 14: // replace the else block of a guard by a shape that may not exit; maybe a jump before it
			var cs [][2]int
			for bi, b := range s.blocks {
				for si, st := range *b {
					if st.Op == "guard" || st.Op == "guardlet" {
						cs = append(cs, [2]int{bi, si})
					}
				}
			}
			if len(cs) == 0 {
				continue
			}
			c := lib.Pick(r, cs)
			b := s.blocks[c[0]]
			gd := (*b)[c[1]]
			no := func() *Expr { return &Expr{Op: "bool", B: false, Typ: tBool} }
			jmp := func() *Stmt { return &Stmt{Op: lib.Pick(r, []string{"break", "continue"})} }
			pan := func() []*Stmt { return []*Stmt{{Op: "expr", E: &Expr{Op: "panic", Typ: tNever}}} }
			switch r.Intn(7) {
			case 0:
				gd.B1 = []*Stmt{}
			case 1:
				gd.B1 = []*Stmt{{Op: "if", E: no(), B1: []*Stmt{jmp()}}}
			case 2:
				gd.B1 = []*Stmt{{Op: "if", E: no(), B1: []*Stmt{jmp()}, B2: []*Stmt{jmp()}}}
			case 3:
				gd.B1 = []*Stmt{{Op: "if", E: no(), B1: pan()}}
			case 4:
				gd.B1 = []*Stmt{{Op: "if", E: no(), B1: pan(), B2: []*Stmt{jmp()}}}
			case 5:
				gd.B1 = []*Stmt{jmp()}
			default:
				gd.B1 = []*Stmt{{Op: "if", E: no(), B1: []*Stmt{jmp()}, B2: []*Stmt{}}}
			}
			if r.Chance(1, 2) { // a conditional jump earlier in the same block
				pre := &Stmt{Op: "if", E: no(), B1: []*Stmt{jmp()}}
				nb := append([]*Stmt{}, (*b)[:c[1]]...)
				nb = append(nb, pre)
				nb = append(nb, (*b)[c[1]:]...)
				*b = nb
			}
			// make the guard fail at run time
			if gd.Op == "guard" {
				gd.E = no()
			} else if gd.E.Typ != nil {
				gd.E = &Expr{Op: "cast", K: "as", A: &Expr{Op: "nil", Typ: tOpt(tNever)}, T: gd.E.Typ, Typ: gd.E.Typ}
			}
			return "guard-else-shape"
		case 9, 10: // use another (earlier declared) variable
			var cs []**Expr
			for _, e := range s.exprs {
				if (*e).Op == "var" && (*e).X > 0 {
					cs = append(cs, e)
				}
			}
			if len(cs) == 0 {
				continue
			}
			e := lib.Pick(r, cs)
			*e = &Expr{Op: "var", X: r.Intn((*e).X), Typ: (*e).Typ}
			return "other-var"
		case 8: // swap the branches of a conditional expression
			var cs []**Expr
			for _, e := range s.exprs {
				if (*e).Op == "cond" {
					cs = append(cs, e)
				}
			}
			if len(cs) == 0 {
				continue
			}
			e := lib.Pick(r, cs)
			(*e).A, (*e).Bx = (*e).Bx, (*e).A
			return "swap-branches"
		}
	}
	return ""
}

func firstMove(e *Expr) *Expr {
	if e == nil {
		return nil
	}
	if e.Op == "move" {
		return e
	}
	for _, x := range append([]*Expr{e.A, e.Bx, e.C}, e.Es...) {
		if m := firstMove(x); m != nil {
			return m
		}
	}
	return nil
}

func hasMove(e *Expr) bool {
	if e == nil {
		return false
	}
	if e.Op == "move" {
		return true
	}
	if hasMove(e.A) || hasMove(e.Bx) || hasMove(e.C) {
		return true
	}
	for _, x := range e.Es {
		if hasMove(x) {
			return true
		}
	}
	return false
}
