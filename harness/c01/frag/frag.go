package frag

// The fragment leg: programs of the modelled mini-Cadence are generated (and mutated), run through the
// real checker and both real engines, and written as Coq cases (program term, arguments, real verdict,
// real outcomes) for the correspondence evaluation by coq/theories/C01/Cases.v.

import (
	"fmt"
	"math/big"
	"os"
	"path/filepath"
	"sort"
	"strings"

	"github.com/onflow/cadence"
	"github.com/onflow/cadence/common"
	"github.com/onflow/cadence/errors"

	"cvh/lib"
)

// ---------------------------------------------------------------- values

type argVal struct {
	v   cadence.Value
	coq string
}

func genArg(r *lib.Rng, t *Ty) argVal {
	switch t.K {
	case kInt8:
		x := lib.Pick(r, i8Lattice)
		return argVal{cadence.NewInt8(int8(x)), "(VI8 " + zCoq(big.NewInt(x)) + ")"}
	case kInt:
		z := big.NewInt(int64(r.Intn(9) - 2))
		if r.Chance(1, 5) {
			z = new(big.Int).Lsh(big.NewInt(1), 70)
		}
		return argVal{cadence.NewIntFromBig(z), "(VInt " + zCoq(z) + ")"}
	case kBool:
		b := r.Bool()
		s := "false"
		if b {
			s = "true"
		}
		return argVal{cadence.NewBool(b), "(VBool " + s + ")"}
	case kStr:
		s := lib.Pick(r, strPool)
		cs, _ := cadence.NewString(s)
		return argVal{cs, "(VStr " + strCoq(s) + ")"}
	case kOpt:
		if r.Chance(1, 3) {
			return argVal{cadence.NewOptional(nil), "VNil"}
		}
		a := genArg(r, t.A)
		return argVal{cadence.NewOptional(a.v), "(VSome " + a.coq + ")"}
	case kArr:
		n := r.Intn(4)
		vs := make([]cadence.Value, n)
		cs := make([]string, n)
		for i := 0; i < n; i++ {
			a := genArg(r, t.A)
			vs[i], cs[i] = a.v, a.coq
		}
		return argVal{cadence.NewArray(vs), "(VArr " + t.A.Coq() + " [" + strings.Join(cs, "; ") + "])"}
	case kDict:
		keys := []string{"a", "k", "key"}
		n := r.Intn(3)
		var ps []cadence.KeyValuePair
		var cs []string
		for i := 0; i < n; i++ {
			ks, _ := cadence.NewString(keys[i])
			a := genArg(r, t.B)
			ps = append(ps, cadence.KeyValuePair{Key: ks, Value: a.v})
			cs = append(cs, "((VStr "+strCoq(keys[i])+"), "+a.coq+")")
		}
		return argVal{cadence.NewDictionary(ps), "(VDict " + t.A.Coq() + " " + t.B.Coq() + " [" + strings.Join(cs, "; ") + "])"}
	}
	panic("genArg: unsupported type " + t.Cdc())
}

// exported cadence.Value -> Coq oval
func ovalCoq(v cadence.Value) string {
	switch x := v.(type) {
	case cadence.Int8:
		return "(OI8 " + zCoq(big.NewInt(int64(x))) + ")"
	case cadence.Int:
		return "(OInt " + zCoq(x.Big()) + ")"
	case cadence.Bool:
		if bool(x) {
			return "(OBool true)"
		}
		return "(OBool false)"
	case cadence.String:
		return "(OStr " + strCoq(string(x)) + ")"
	case cadence.Void:
		return "OVoid"
	case cadence.Optional:
		if x.Value == nil {
			return "ONil"
		}
		return "(OSome " + ovalCoq(x.Value) + ")"
	case cadence.Array:
		cs := make([]string, len(x.Values))
		for i, e := range x.Values {
			cs[i] = ovalCoq(e)
		}
		return "(OArr [" + strings.Join(cs, "; ") + "])"
	case cadence.Dictionary:
		cs := make([]string, len(x.Pairs))
		for i, p := range x.Pairs {
			cs[i] = "(" + ovalCoq(p.Key) + ", " + ovalCoq(p.Value) + ")"
		}
		return "(ODict [" + strings.Join(cs, "; ") + "])"
	case cadence.Struct:
		n := 0
		fmt.Sscanf(x.StructType.QualifiedIdentifier, "S%d", &n)
		fm := x.FieldsMappedByName()
		names := make([]string, 0, len(fm))
		for k := range fm {
			names = append(names, k)
		}
		sort.Slice(names, func(i, j int) bool {
			var a, b int
			fmt.Sscanf(names[i], "f%d", &a)
			fmt.Sscanf(names[j], "f%d", &b)
			return a < b
		})
		cs := make([]string, len(names))
		for i, k := range names {
			cs[i] = ovalCoq(fm[k])
		}
		return fmt.Sprintf("(OComp %d [%s])", n, strings.Join(cs, "; "))
	}
	return "OOpaque"
}

// error class of a run, as a constructor of Prelude.err ("" = success);
// "CheckerError"/"ParseError" for rejected programs
func fragClass(o lib.Outcome) string {
	if o.Panic != nil {
		return lib.ECrash
	}
	if o.Err == nil {
		return ""
	}
	cls := ""
	var walk func(err error, depth int)
	walk = func(err error, depth int) {
		if err == nil || depth > 60 || cls != "" {
			return
		}
		name := fmt.Sprintf("%T", err)
		switch {
		case strings.HasSuffix(name, "sema.CheckerError"):
			cls = "CheckerError"
		case strings.Contains(name, "parser."):
			// e.g. ExpressionDepthLimitReachedError: the program is rejected before checking
			cls = "ParseError"
		case strings.HasSuffix(name, ".OverflowError"):
			cls = lib.EOverflow
		case strings.HasSuffix(name, ".UnderflowError"):
			cls = lib.EUnderflow
		case strings.HasSuffix(name, ".DivisionByZeroError"):
			cls = lib.EDivZero
		case strings.HasSuffix(name, ".ArrayIndexOutOfBoundsError"):
			cls = lib.EIndexOOB
		case strings.HasSuffix(name, ".ForceNilError"), strings.HasSuffix(name, ".ForceCastTypeMismatchError"):
			cls = lib.ETypeMism
		case strings.HasSuffix(name, ".PanicError"):
			cls = lib.EUserOther
		}
		if cls != "" {
			return
		}
		switch u := err.(type) {
		case interface{ Unwrap() error }:
			walk(u.Unwrap(), depth+1)
		case interface{ Unwrap() []error }:
			for _, e := range u.Unwrap() {
				walk(e, depth+1)
			}
		}
	}
	walk(o.Err, 0)
	if cls != "" {
		return cls
	}
	if strings.Contains(o.Err.Error(), "Parsing failed") || strings.Contains(o.Err.Error(), "expression too deeply nested") {
		return "ParseError"
	}
	if errors.IsInternalError(o.Err) {
		return lib.EInternal
	}
	if errors.IsUserError(o.Err) {
		return lib.EUserOther
	}
	var unexpected errors.UnexpectedError
	if asErr(o.Err, &unexpected) {
		return lib.EInternal
	}
	return lib.ECrash
}

func asErr(err error, target *errors.UnexpectedError) bool {
	for i := 0; err != nil && i < 60; i++ {
		if u, ok := err.(errors.UnexpectedError); ok {
			*target = u
			return true
		}
		w, ok := err.(interface{ Unwrap() error })
		if !ok {
			return false
		}
		err = w.Unwrap()
	}
	return false
}

func resCoq(o lib.Outcome, cls string) string {
	if cls == "" {
		return "(Ok " + ovalCoq(o.Value) + ")"
	}
	return "(Err " + cls + ")"
}

// a mutant may loop forever (e.g. a dropped loop-counter increment): every run is metered;
// a run that hits the limit is not a case (the model would report OutOfFuel)
type limitGauge struct{ used, max uint64 }

type limitError struct{}

func (limitError) Error() string { return "computation limit of the harness exceeded" }

func (g *limitGauge) MeterComputation(u common.ComputationUsage) error {
	g.used += u.Intensity
	if g.used > g.max {
		return limitError{}
	}
	return nil
}

// ---------------------------------------------------------------- the leg

type fragCase struct {
	Key      string   `json:"key"`
	Origin   string   `json:"origin"`
	Accepted bool     `json:"accepted"`
	Interp   string   `json:"interpreter"`
	VM       string   `json:"vm"`
	Args     []string `json:"args"`
	Program  string   `json:"program"`
}

const fragHeader = "From CV Require Import C01.Cases.\nDefinition V := TVoid."

// shapes on which the real interpreter is known to deviate from the VM and the model because the
// conditional expression's value is not boxed; the narrow keys are listed in known_findings/C01.json
func knownCondShape(p *Prog) string {
	found := ""
	// a conditional that can yield a value not boxed to its (optional) static type: exactly one
	// branch has an optional type, or a branch is itself such a conditional
	var raw func(e *Expr) bool
	raw = func(e *Expr) bool {
		if e == nil || e.Op != "cond" || e.A.Typ == nil || e.Bx.Typ == nil {
			return false
		}
		return (e.A.Typ.K == kOpt) != (e.Bx.Typ.K == kOpt) || raw(e.A) || raw(e.Bx)
	}
	// the value passes unchanged through a force-unwrap of a non-Some value
	var through func(e *Expr) bool
	through = func(e *Expr) bool {
		if raw(e) {
			return true
		}
		return e != nil && e.Op == "force" && through(e.A)
	}
	s := collect(p)
	for _, e := range s.exprs {
		x := *e
		if x.Op == "optmem" && through(x.A) {
			found = "cond-unboxed:optmem"
		}
	}
	return found
}

func RunFragment(rng *lib.Rng, tier string, dir string, sum *lib.Summary) {
	nProg, nMut := 170, 2
	if tier == "thorough" {
		nProg, nMut = 900, 2
	}
	cw := &lib.CaseWriter{Dir: dir, Prefix: "c01frag", Header: fragHeader, ElemType: "case",
		CheckFn: "check_case", PerFile: 120}
	host := lib.NewHost()
	seen := map[string]bool{}
	base := rng.U64()
	accepted, rejected := 0, 0

	runOne := func(p *Prog, origin string, ar *lib.Rng) {
		src := p.Cdc()
		progCoq := p.Coq() // before any shrinking mutates p
		if seen[src] {
			return
		}
		if origin != "gen" && (strings.Contains(src, "(nil!)") || strings.Contains(src, "panic(\"p\") ")) {
			// a mutation produced an operand of type Never (`nil!`): the model's operators are not
			// defined on Never operands - outside the fragment
			return
		}
		seen[src] = true
		main := p.Funs[0]
		args := make([]cadence.Value, len(main.Params))
		argsCoq := make([]string, len(main.Params))
		argsTxt := make([]string, len(main.Params))
		for i, t := range main.Params {
			a := genArg(ar, t)
			args[i], argsCoq[i], argsTxt[i] = a.v, a.coq, a.v.String()
		}
		host.CompGauge = &limitGauge{max: 20000}
		oi := host.RunScript(src, args, false)
		host.CompGauge = &limitGauge{max: 20000}
		ov := host.RunScript(src, args, true)
		ci, cv := fragClass(oi), fragClass(ov)
		sum.Evaluations += 2
		limited := func(o lib.Outcome) bool {
			return o.Err != nil && strings.Contains(o.Err.Error(), "computation limit of the harness exceeded")
		}
		if limited(oi) || limited(ov) {
			sum.Count("frag:skipped:computation-limit")
			return
		}
		isRej := func(c string) bool { return c == "CheckerError" || c == "ParseError" }
		if isRej(ci) != isRej(cv) {
			sum.Fail("frag:verdict-differs-between-engines", "checker verdict differs between engines: "+ci+" / "+cv,
				map[string]any{"program": src, "interpreter": ci, "vm": cv})
			return
		}
		acc := !isRej(ci)
		sum.Count("frag:origin:" + origin)
		if !acc {
			rejected++
			sum.Count("frag:rejected:" + ci)
			if origin == "gen" && os.Getenv("C01_SHOW_REJECTED") != "" {
				fmt.Fprintln(os.Stderr, "REJECTED generated program:\n"+src+"\n"+oi.Err.Error())
			}
		} else {
			accepted++
			sum.DistinctNontrivial++
			sum.Count("frag:accepted:" + strings.SplitN(origin, ":", 2)[0])
			sum.Count("frag:outcome:interpreter:" + orOk(ci))
			sum.Count("frag:outcome:vm:" + orOk(cv))
		}
		key := "frag:model-mismatch:" + strings.SplitN(origin, ":", 2)[0]
		sigOf := func(o lib.Outcome) string {
			if o.Err == nil {
				return ""
			}
			return internalSignature(o.Err.Error(), src)
		}
		sg := sigOf(oi)
		if sg == "" {
			sg = sigOf(ov)
		}
		if sg != "" && (ci == lib.EInternal || cv == lib.EInternal) {
			key = "frag" + sg
		}
		for _, eo := range []struct {
			eng string
			cls string
			o   lib.Outcome
		}{{"interpreter", ci, oi}, {"vm", cv, ov}} {
			if !acc || !(eo.cls == lib.EInternal || eo.cls == lib.ECrash) {
				continue
			}
			eng, o := eo.eng, eo.o
			msg := ""
			if o.Err != nil {
				msg = o.Err.Error()
			} else {
				msg = fmt.Sprint(o.Panic)
			}
			k := "frag:internal:" + eng
			if ks := knownCondShape(p); ks != "" && strings.Contains(msg, "invalid member access") {
				k = "frag:internal:" + eng + ":" + ks
			} else if sg := internalSignature(msg, src); sg != "" {
				k = "frag:internal:" + eng + sg
			}
			if len(msg) > 500 {
				msg = msg[:500]
			}
			shrunk := src
			if !knownKeys[k] {
				// delta-debug: drop statements while the same engine still fails with an internal error
				vm := eng == "vm"
				shrunk = shrinkProg(p, func(q *Prog) bool {
					host.CompGauge = &limitGauge{max: 20000}
					c := fragClass(host.RunScript(q.Cdc(), args, vm))
					return c == lib.EInternal || c == lib.ECrash
				})
			}
			sum.Fail(k, "checker-accepted fragment program fails with an internal error in the "+eng+": "+firstLine(msg),
				map[string]any{"program": shrunk, "original": src, "args": argsTxt, "engine": eng, "error": msg})
		}
		accS := "false"
		if acc {
			accS = "true"
		}
		ri, rv := "(Err Crash)", "(Err Crash)"
		if acc {
			ri, rv = resCoq(oi, ci), resCoq(ov, cv)
		}
		genS := "false"
		if origin == "gen" || origin == "corpus" || origin == "mut:double-move" || origin == "mut:return-shape" || origin == "mut:guard-else-shape" {
			// these mutations only add a statement / control flow: the mutant stays in the fragment,
			// so the real checker must not accept what the model's checker rejects
			genS = "true"
		}
		term := "(" + progCoq + ",\n [" + strings.Join(argsCoq, "; ") + "], " + accS + ", " + ri + ", " + rv + ", " + genS + ")"
		cw.Add(term, fragCase{Key: key, Origin: origin, Accepted: acc, Interp: orOk(ci), VM: orOk(cv), Args: argsTxt, Program: src})
		if acc {
			sum.Sample(map[string]any{"fragment_program": src, "args": argsTxt, "interpreter": orOk(ci), "vm": orOk(cv)})
		}
	}

	// corpus of hand-written fragment programs first (Coq terms are generated from the same AST)
	for _, p := range fragCorpus() {
		runOne(p, "corpus", lib.NewRng(7))
	}
	for i := 0; i < nProg; i++ {
		seed := base + uint64(i)*7919
		p := genProgram(lib.NewRng(seed))
		runOne(p, "gen", lib.NewRng(seed+1))
		for m := 0; m < nMut; m++ {
			q := genProgram(lib.NewRng(seed))
			mr := lib.NewRng(seed + 100 + uint64(m))
			name := mutate(mr, q)
			if name == "" {
				continue
			}
			if mr.Chance(1, 4) {
				if second := mutate(mr, q); second != "" && second != name {
					name = "multi" // two different mutations: may have left the fragment
				}
			}
			runOne(q, "mut:"+name, lib.NewRng(seed+1))
		}
	}
	cw.Close()
	sum.CaseFiles = append(sum.CaseFiles, cw.Files...)
	sum.Distribution["frag:accepted"] = accepted
	sum.Distribution["frag:rejected"] = rejected
	sum.Extra["fragment"] = map[string]any{"programs": accepted + rejected, "accepted_by_real_checker": accepted,
		"rejected_by_real_checker": rejected, "case_files": len(cw.Files)}
	_ = filepath.Join
}

// narrow signatures of known internal errors (matched on the error text AND the program shape)
func internalSignature(msg, src string) string {
	if strings.Contains(src, ".append(") &&
		(strings.Contains(msg, "unexpected: unreachable") || strings.Contains(msg, "can't convert")) {
		return ":covariant-append-number-convert"
	}
	return ""
}

// keys of this leg that are listed in known_findings/C01.json (no shrinking effort is spent on them)
var knownKeys = map[string]bool{
	"frag:internal:interpreter:cond-unboxed:optmem":             true,
	"frag:internal:interpreter:covariant-append-number-convert": true,
	"frag:internal:vm:covariant-append-number-convert":          true,
}

// shrinkProg removes statements (never declarations, which would renumber variables) while the
// failure persists; at most 80 re-executions. Returns the Cadence source of the shrunk program.
func shrinkProg(p *Prog, fails func(*Prog) bool) string {
	budget := 80
	changed := true
	for changed && budget > 0 {
		changed = false
		for _, b := range collect(p).blocks {
			for i := len(*b) - 1; i >= 0 && budget > 0; i-- {
				st := (*b)[i]
				if st.Op == "let" || st.Op == "iflet" || st.Op == "for" || st.Op == "guardlet" {
					continue
				}
				old := *b
				nb := append([]*Stmt{}, old[:i]...)
				nb = append(nb, old[i+1:]...)
				*b = nb
				budget--
				if fails(p) {
					changed = true
				} else {
					*b = old
				}
			}
		}
	}
	return p.Cdc()
}

func orOk(c string) string {
	if c == "" {
		return "ok"
	}
	return c
}

func firstLine(s string) string {
	for _, l := range strings.Split(s, "\n") {
		l = strings.TrimSpace(l)
		if l != "" && l != "Execution failed:" {
			return l
		}
	}
	return s
}

// hand-written fragment programs that are always run (deterministic KNOWN-FINDING reproduction)
func fragCorpus() []*Prog {
	s0 := &Decl{Fields: []*Ty{tInt8}}
	nilE := func() *Expr { return &Expr{Op: "nil", Typ: tOpt(tNever)} }
	tru := func() *Expr { return &Expr{Op: "bool", B: true, Typ: tBool} }
	// struct S0 { f0: Int8 }  fun main(): Int8? { var v0 = S0(3); return (true ? v0 : nil)?.f0 }
	optchain := &Prog{Decls: []*Decl{s0}, Funs: []*Fun{{Ret: tOpt(tInt8), Body: []*Stmt{
		{Op: "let", E: &Expr{Op: "ctor", X: 0, Es: []*Expr{lit8(3)}, Typ: tStruct(0)}, V: 0},
		{Op: "return", E: &Expr{Op: "optmem", X: 0, Typ: tOpt(tInt8),
			A: &Expr{Op: "cond", C: tru(), A: evar(0, tStruct(0)), Bx: nilE(), Typ: tOpt(tStruct(0))}}},
	}}}}
	// fun main(): Int8 { var v0: Int8 = 5; return (true ? v0 : nil) ?? 9 }
	coal := &Prog{Funs: []*Fun{{Ret: tInt8, Body: []*Stmt{
		{Op: "let", Ann: tInt8, E: lit8(5), V: 0},
		{Op: "return", E: &Expr{Op: "coal", Typ: tInt8, Bx: lit8(9),
			A: &Expr{Op: "cond", C: tru(), A: evar(0, tInt8), Bx: nilE(), Typ: tOpt(tInt8)}}},
	}}}}
	// fun main(): Int8 { var v0: [Int8] = [1]; var v1: [AnyStruct] = v0; v1.append("x"); return 1 }
	covar := &Prog{Funs: []*Fun{{Ret: tInt8, Body: []*Stmt{
		{Op: "let", Ann: tArr(tInt8), E: &Expr{Op: "arr", Es: []*Expr{lit8(1)}, T: tInt8, Typ: tArr(tInt8)}, V: 0},
		{Op: "let", Ann: tArr(tAnyS), E: evar(0, tArr(tInt8)), V: 1},
		{Op: "append", G: &Target{Op: "var", X: 1}, E: &Expr{Op: "str", S: "x", Typ: tStr}},
		{Op: "return", E: lit8(1)},
	}}}}
	return []*Prog{optchain, coal, covar}
}
