package main

// Scenarios (sequences of deployments, transactions and scripts on one chain state), their
// execution in either engine, the corpus of past failing cases, and the shrinker.

import (
	"encoding/json"
	"os"
	"path/filepath"
	"regexp"
	"sort"
	"strings"

	"github.com/onflow/cadence/common"

	"cvh/lib"
)

const dmCorpusDir = "/verif/corpus/C01"

// Step of a scenario.
type dmStep struct {
	Kind string `json:"kind"`           // deploy | tx | script
	Addr string `json:"addr,omitempty"` // account: deploy target / transaction signer (hex, e.g. 0x1)
	Name string `json:"name,omitempty"` // contract name (deploy)
	Code string `json:"code"`
}

// Scenario is a program (single script) or a history of steps run on one Host.
type dmScenario struct {
	Key      string   `json:"key,omitempty"`
	Kind     string   `json:"kind"`             // script | scenario
	Engine   string   `json:"engine,omitempty"` // corpus: interpreter | vm | both
	Steps    []dmStep `json:"steps"`
	Features []string `json:"-"`
	Mutant   string   `json:"-"` // name of the mutation operator that produced it ("" = generated)
}

func dmScriptScenario(src string) *dmScenario {
	return &dmScenario{Kind: "script", Steps: []dmStep{{Kind: "script", Code: src}}}
}

func (sc *dmScenario) clone() *dmScenario {
	c := *sc
	c.Steps = append([]dmStep{}, sc.Steps...)
	return &c
}

func dmParseAddr(s string) common.Address {
	a, err := common.HexToAddress(strings.TrimPrefix(s, "0x"))
	if err != nil {
		return common.Address{0, 0, 0, 0, 0, 0, 0, 1}
	}
	return a
}

var dmRePrepare = regexp.MustCompile(`prepare\s*\(([^()]*(\([^()]*\)[^()]*)*)\)`)

// signersOf: one signer (the step's account) per `&Account` parameter of the prepare block.
func dmSignersOf(st dmStep) []common.Address {
	m := dmRePrepare.FindStringSubmatch(st.Code)
	if m == nil {
		return nil
	}
	n := strings.Count(m[1], "&Account")
	var out []common.Address
	for i := 0; i < n; i++ {
		out = append(out, dmParseAddr(st.Addr))
	}
	return out
}

// stepResult is the classified outcome of one step.
type dmStepResult struct {
	V   dmVerdict
	Err string
}

// limits: a mutant may loop forever or grow values exponentially; metering errors are user errors.
type dmLimitGauge struct {
	comp, mem       uint64
	compMax, memMax uint64
}

type dmLimitError struct{ what string }

func (e dmLimitError) Error() string { return e.what + " limit of the harness exceeded" }

func (g *dmLimitGauge) MeterComputation(u common.ComputationUsage) error {
	g.comp += u.Intensity
	if g.comp > g.compMax {
		return dmLimitError{"computation"}
	}
	return nil
}

func (g *dmLimitGauge) MeterMemory(u common.MemoryUsage) error {
	g.mem += u.Amount
	if g.mem > g.memMax {
		return dmLimitError{"memory"}
	}
	return nil
}

// runScenario executes all steps on a fresh Host with the given engine. It stops at the first
// internal/crash outcome and returns its index (-1 if none) together with all verdicts so far.
func dmRunScenario(sc *dmScenario, vm bool) (res []dmStepResult, failing int) {
	return dmRunScenarioUntil(sc, vm, func(v dmVerdict) bool { return v.Class == "internal" || v.Class == "crash" })
}

// dmRunScenarioUntil stops at the first step whose verdict satisfies stop.
func dmRunScenarioUntil(sc *dmScenario, vm bool, stop func(dmVerdict) bool) (res []dmStepResult, failing int) {
	h := lib.NewHost()
	failing = -1
	for i, st := range sc.Steps {
		var o lib.Outcome
		lg := &dmLimitGauge{compMax: 150000, memMax: 300000000}
		h.CompGauge, h.MemGauge = lg, lg
		switch st.Kind {
		case "deploy":
			o = h.Deploy(dmParseAddr(st.Addr), st.Name, st.Code, vm)
		case "tx":
			o = h.RunTx(st.Code, nil, dmSignersOf(st), vm)
		default:
			o = h.RunScript(st.Code, nil, vm)
		}
		// programs cached by the test interface must not survive contract updates/removals
		h.Iface.Programs = nil
		v := dmClassify(o.Err, o.Panic)
		r := dmStepResult{V: v}
		if o.Err != nil {
			r.Err = o.Err.Error()
			// the Go stack of an UnexpectedError is not part of the replay (addresses, paths)
			if i := strings.Index(r.Err, "\ngoroutine "); i >= 0 {
				r.Err = r.Err[:i]
			}
		} else if o.Panic != nil {
			r.Err = "panic: " + dmToStr(o.Panic)
		}
		res = append(res, r)
		if stop(v) {
			failing = i
			return
		}
	}
	return
}

func dmToStr(x any) string {
	if e, ok := x.(error); ok {
		return e.Error()
	}
	b, _ := json.Marshal(x)
	if len(b) > 0 && string(b) != "{}" {
		return string(b)
	}
	return "non-error panic value"
}

func dmEngineName(vm bool) string {
	if vm {
		return "vm"
	}
	return "interpreter"
}

// ------------------------------------------------------------------ corpus

func dmLoadCorpus() (out []*dmScenario, names []string) {
	dir := dmCorpusDir
	if d := os.Getenv("C01_CORPUS"); d != "" {
		dir = d // development aid: replay scenario files of another directory
	}
	files, _ := filepath.Glob(filepath.Join(dir, "*.json"))
	sort.Strings(files)
	for _, f := range files {
		b, err := os.ReadFile(f)
		if err != nil {
			continue
		}
		var sc dmScenario
		if json.Unmarshal(b, &sc) != nil || len(sc.Steps) == 0 {
			continue
		}
		out = append(out, &sc)
		names = append(names, filepath.Base(f))
	}
	return
}

// ------------------------------------------------------------------ shrinking

type dmShrinker struct {
	vm     bool
	want   dmVerdict
	budget int
	runs   int
}

// holds reports whether the candidate still fails with the same class and detail in the same engine.
func (s *dmShrinker) holds(c *dmScenario) (bool, int) {
	if s.runs >= s.budget {
		return false, -1
	}
	s.runs++
	res, f := dmRunScenarioUntil(c, s.vm, func(v dmVerdict) bool { return v.Class == s.want.Class })
	if f < 0 {
		return false, -1
	}
	return res[f].V.sameFailure(s.want), f
}

// blockEnd returns the index of the line closing the block opened on line i (by brace counting),
// or -1 when line i opens no block or the block is unbalanced.
func dmBlockEnd(lines []string, i int) int {
	depth := 0
	opened := false
	for j := i; j < len(lines); j++ {
		for _, ch := range lines[j] {
			switch ch {
			case '{':
				depth++
				opened = true
			case '}':
				depth--
			}
		}
		if !opened {
			return -1
		}
		if depth <= 0 {
			if j == i {
				return -1 // single-line block: treated as a plain line
			}
			return j
		}
	}
	return -1
}

var dmReVarDecl = regexp.MustCompile(`^\s*(?:let|var) (\w+)\b`)

type dmCut struct {
	from, to int
	unwrap   bool
}

// cuts enumerates removal candidates of a source text: whole blocks (largest first), block
// unwrapping (drop the opening and closing lines), single lines.
func dmCuts(lines []string) []dmCut {
	var cs []dmCut
	for i := range lines {
		t := strings.TrimSpace(lines[i])
		if t == "" {
			continue
		}
		if e := dmBlockEnd(lines, i); e > i {
			cs = append(cs, dmCut{i, e, false})
			// suffixes of the block's statement list (with and without its last statement): removes
			// chains of dependent statements (resource creation ... destruction) in one step
			ind := len(lines[i]) - len(strings.TrimLeft(lines[i], " "))
			var kids []int
			for j := i + 1; j < e; j++ {
				tj := strings.TrimSpace(lines[j])
				if tj != "" && len(lines[j])-len(strings.TrimLeft(lines[j], " ")) == ind+4 && !strings.HasPrefix(tj, "}") {
					kids = append(kids, j)
				}
			}
			if len(kids) > 2 {
				last := kids[len(kids)-1]
				for _, k := range kids[:len(kids)-1] {
					if e-1 > k {
						cs = append(cs, dmCut{k, e - 1, false})
					}
					if last-1 > k {
						cs = append(cs, dmCut{k, last - 1, false})
					}
				}
				// prefixes of the statement list
				for _, k := range kids[2:] {
					cs = append(cs, dmCut{kids[0], k - 1, false})
				}
				// ddmin-style chunks of the statement list (2, 4, 8 parts)
				for _, parts := range []int{2, 4, 8} {
					if len(kids) < parts*2 {
						break
					}
					for c := 0; c < parts; c++ {
						from := kids[c*len(kids)/parts]
						hi := (c + 1) * len(kids) / parts
						to := e - 1
						if hi < len(kids) {
							to = kids[hi] - 1
						}
						if to > from {
							cs = append(cs, dmCut{from, to, false})
						}
					}
				}
			}
			if !strings.HasPrefix(t, "access(") && !strings.HasPrefix(t, "transaction") && !strings.HasPrefix(t, "prepare") {
				cs = append(cs, dmCut{i, e, true})
			}
		} else if t != "}" {
			cs = append(cs, dmCut{i, i, false})
		}
	}
	sort.SliceStable(cs, func(a, b int) bool {
		return (cs[a].to - cs[a].from) > (cs[b].to - cs[b].from)
	})
	return cs
}

func dmApplyCut(lines []string, c dmCut) []string {
	var out []string
	for i, l := range lines {
		if c.unwrap {
			if i == c.from || i == c.to {
				continue
			}
		} else if i >= c.from && i <= c.to {
			continue
		}
		out = append(out, l)
	}
	return out
}

// textual simplifications of expressions tried after line removal
var dmSimplifiers = []struct {
	re   *regexp.Regexp
	repl string
}{
	{regexp.MustCompile(`\s+(pre|post)\s*\{[^{}]*\}`), ""},
	{regexp.MustCompile(`: [A-Za-z0-9_]+(, [A-Za-z0-9_.]+)* \{`), " {"}, // drop conformances
}

// shrink minimizes a failing scenario while the same failure persists (bounded effort).
func dmShrinkScenario(sc *dmScenario, vm bool, want dmVerdict, failing int, budget int) (*dmScenario, int) {
	s := &dmShrinker{vm: vm, want: want, budget: budget}
	cur := sc.clone()
	// steps after the failing one never ran
	if failing >= 0 && failing+1 < len(cur.Steps) {
		cur.Steps = cur.Steps[:failing+1]
	}
	// remove earlier steps
	for i := len(cur.Steps) - 2; i >= 0 && s.runs < s.budget; i-- {
		c := cur.clone()
		c.Steps = append(append([]dmStep{}, cur.Steps[:i]...), cur.Steps[i+1:]...)
		if ok, f := s.holds(c); ok {
			c.Steps = c.Steps[:f+1]
			cur = c
			if i > len(cur.Steps)-1 {
				i = len(cur.Steps) - 1
			}
		}
	}
	// line-based reduction of each step, failing step first
	order := []int{}
	for i := len(cur.Steps) - 1; i >= 0; i-- {
		order = append(order, i)
	}
	for _, si := range order {
		// passes over the removal candidates, outermost blocks first; lines carry stable ids so that
		// one pass tries every candidate at most once
		type idLine struct {
			id   int
			text string
		}
		var cl []idLine
		for i, l := range strings.Split(cur.Steps[si].Code, "\n") {
			cl = append(cl, idLine{i, l})
		}
		for pass := 0; pass < 3 && s.runs < s.budget; pass++ {
			texts := make([]string, len(cl))
			for i, l := range cl {
				texts[i] = l.text
			}
			type idCut struct {
				ids    map[int]bool
				indent int
				size   int
			}
			var cands []idCut
			for _, c := range dmCuts(texts) {
				ic := idCut{ids: map[int]bool{}, indent: len(texts[c.from]) - len(strings.TrimLeft(texts[c.from], " "))}
				if c.unwrap {
					ic.ids[cl[c.from].id] = true
					ic.ids[cl[c.to].id] = true
				} else {
					for k := c.from; k <= c.to; k++ {
						ic.ids[cl[k].id] = true
					}
				}
				ic.size = len(ic.ids)
				cands = append(cands, ic)
			}
			// all (single-line) statements mentioning one declared variable: removes creation / use /
			// destruction of a resource in one step
			for _, l := range texts {
				m := dmReVarDecl.FindStringSubmatch(l)
				if m == nil {
					continue
				}
				re := regexp.MustCompile(`\b` + m[1] + `\b`)
				ic := idCut{ids: map[int]bool{}, indent: len(l) - len(strings.TrimLeft(l, " "))}
				ok := true
				for k, t := range texts {
					if re.MatchString(t) {
						tt := strings.TrimSpace(t)
						if strings.HasSuffix(tt, "{") || strings.HasPrefix(tt, "}") || strings.HasPrefix(tt, "return") {
							ok = false
							break
						}
						ic.ids[cl[k].id] = true
					}
				}
				ic.size = len(ic.ids)
				if ok && ic.size > 1 {
					cands = append(cands, ic)
				}
			}
			sort.SliceStable(cands, func(a, b int) bool {
				if cands[a].indent != cands[b].indent {
					return cands[a].indent < cands[b].indent
				}
				return cands[a].size > cands[b].size
			})
			progress := false
			for _, c := range cands {
				if s.runs >= s.budget {
					break
				}
				present := 0
				for _, l := range cl {
					if c.ids[l.id] {
						present++
					}
				}
				if present != c.size {
					continue // overlaps a cut already applied
				}
				var nl []idLine
				var nt []string
				for _, l := range cl {
					if !c.ids[l.id] {
						nl = append(nl, l)
						nt = append(nt, l.text)
					}
				}
				cand := cur.clone()
				cand.Steps[si].Code = strings.Join(nt, "\n")
				if ok, f := s.holds(cand); ok && f == len(cand.Steps)-1 {
					cur = cand
					cl = nl
					progress = true
				}
			}
			if !progress {
				break
			}
		}
		for _, sp := range dmSimplifiers {
			if s.runs >= s.budget {
				break
			}
			code := cur.Steps[si].Code
			nc := sp.re.ReplaceAllString(code, sp.repl)
			if nc == code {
				continue
			}
			cand := cur.clone()
			cand.Steps[si].Code = nc
			if ok, f := s.holds(cand); ok && f == len(cand.Steps)-1 {
				cur = cand
			}
		}
	}
	return cur, s.runs
}
