package main

// Attachment operations on values of EVERY kind: attachments declared for the top types
// AnyStruct / AnyResource (and for a concrete struct / resource) are attached to, removed from and
// accessed on enums, structs, interface-typed values, optionals, references, AnyStruct/AnyResource
// typed values, primitives, containers and function values. Most of these mini-programs are rejected
// by the checker (and then only cost a check); whatever it accepts must run without an internal error
// (the engines re-check the target of attach/remove defensively: InvalidAttachmentOperationTargetError).

import (
	"fmt"
	"strings"

	"cvh/lib"
)

const dmAttachKindsDecls = `access(all) enum E: UInt8 {
    access(all) case a
    access(all) case b
}
access(all) struct interface SI {}
access(all) struct S: SI {
    access(all) var x: Int
    init() { self.x = 1 }
}
access(all) struct T {
    access(all) var s: S
    init() { self.s = S() }
}
access(all) resource interface RI {}
access(all) resource R: RI {
    access(all) var x: Int
    init() { self.x = 2 }
}
access(all) attachment TA for AnyStruct {
    access(all) var k: Int
    init(k: Int) { self.k = k }
    access(all) fun f(): Int { return self.k }
}
access(all) attachment SA for S {
    access(all) var k: Int
    init(k: Int) { self.k = k }
    access(all) fun f(): Int { return self.k + base.x }
}
access(all) attachment IA for SI {
    access(all) var k: Int
    init(k: Int) { self.k = k }
}
access(all) attachment RA for AnyResource {
    access(all) var k: Int
    init(k: Int) { self.k = k }
}
access(all) attachment QA for R {
    access(all) var k: Int
    init(k: Int) { self.k = k }
    access(all) fun f(): Int { return self.k + base.x }
}
`

type dmAKValue struct {
	name string // kind name (feature)
	decl string // declaration of variable v (may use helper variables)
	res  bool   // v is resource-kinded (must be destroyed / moved)
	tail string // statements needed after the operation (cleanup of helpers)
}

var dmAKValues = []dmAKValue{
	{"enum", "var v = E.b", false, ""},
	{"enum-optional", "var v: E? = E.a", false, ""},
	{"struct", "var v = S()", false, ""},
	{"struct-with-attachment", "var v = attach SA(k: 3) to S()", false, ""},
	{"struct-nested", "var v = T()", false, ""},
	{"struct-interface-typed", "var v: {SI} = S()", false, ""},
	{"struct-optional", "var v: S? = S()", false, ""},
	{"struct-nil", "var v: S? = nil", false, ""},
	{"struct-reference", "var s0 = S()\n    var v = &s0 as &S", false, ""},
	{"struct-interface-reference", "var s0 = S()\n    var v = &s0 as &{SI}", false, ""},
	{"anystruct", "var v: AnyStruct = S()", false, ""},
	{"anystruct-enum", "var v: AnyStruct = E.a", false, ""},
	{"anystruct-int", "var v: AnyStruct = 5", false, ""},
	{"int", "var v = 5", false, ""},
	{"string", "var v = \"s\"", false, ""},
	{"bool", "var v = true", false, ""},
	{"array", "var v = [S()]", false, ""},
	{"dictionary", "var v = {\"a\": S()}", false, ""},
	{"function", "var v = fun (): Int { return 1 }", false, ""},
	{"type", "var v = Type<S>()", false, ""},
	{"resource", "var v <- create R()", true, ""},
	{"resource-with-attachment", "var v <- attach QA(k: 4) to <- create R()", true, ""},
	{"resource-interface-typed", "var v: @{RI} <- create R()", true, ""},
	{"resource-optional", "var v: @R? <- create R()", true, ""},
	{"anyresource", "var v: @AnyResource <- create R()", true, ""},
	{"resource-array", "var v: @[R] <- [<- create R()]", true, ""},
	{"resource-reference", "var r0 <- create R()\n    var v = &r0 as &R", false, "destroy r0"},
	{"anyresource-reference", "var r0: @AnyResource <- create R()\n    var v = &r0 as &AnyResource", false, "destroy r0"},
}

var dmAKDistinctAttachments = []string{"TA", "SA", "IA", "RA", "QA"}

func dmAKOp(op int, att, cur string, res bool, j int, k int) (stmt string, next string, name string) {
	switch op {
	case 0:
		return fmt.Sprintf("remove %s from %s", att, cur), cur, "remove"
	case 1:
		w := fmt.Sprintf("w%d", j)
		if res {
			return fmt.Sprintf("var %s <- attach %s(k: %d) to <- %s", w, att, k, cur), w, "attach"
		}
		return fmt.Sprintf("var %s = attach %s(k: %d) to %s", w, att, k, cur), w, "attach"
	case 2:
		return fmt.Sprintf("let k%d = %s[%s]?.k ?? 0", j, cur, att), cur, "access"
	default:
		return fmt.Sprintf("let k%d = %s[%s] == nil", j, cur, att), cur, "access-nil-test"
	}
}

func dmAKProgram(val dmAKValue, body []string, cur string) string {
	if val.res {
		body = append(body, "destroy "+cur)
	}
	if val.tail != "" {
		body = append(body, val.tail)
	}
	return dmAttachKindsDecls + "access(all) fun main(): Int {\n    " + strings.Join(body, "\n    ") + "\n    return 1\n}\n"
}

// dmAttachmentKindScripts: EVERY combination (value kind, attachment, single operation) - a small
// domain, enumerated exhaustively on every run - plus n random two-operation programs.
func dmAttachmentKindScripts(r *lib.Rng, n int) []*dmScenario {
	var out []*dmScenario
	emit := func(val dmAKValue, src string, ops []string, att string) {
		sc := dmScriptScenario(src)
		sc.Mutant = "attachment-kinds"
		sc.Features = []string{"attachment-kinds:" + val.name, "attachment-kinds:" + strings.Join(ops, "+") + ":" + att}
		out = append(out, sc)
	}
	for _, val := range dmAKValues {
		for _, att := range dmAKDistinctAttachments {
			for op := 0; op < 3; op++ {
				stmt, cur, name := dmAKOp(op, att, "v", val.res, 0, 1)
				emit(val, dmAKProgram(val, []string{val.decl, stmt}, cur), []string{name}, att)
			}
		}
	}
	for i := 0; i < n; i++ {
		val := lib.Pick(r, dmAKValues)
		att := lib.Pick(r, dmAKDistinctAttachments)
		body := []string{val.decl}
		cur := "v"
		var ops []string
		for j := 0; j < 2; j++ {
			a := att
			if r.Chance(1, 3) {
				a = lib.Pick(r, dmAKDistinctAttachments)
			}
			stmt, next, name := dmAKOp(r.Intn(4), a, cur, val.res, j, r.Intn(4))
			body = append(body, stmt)
			cur = next
			ops = append(ops, name)
		}
		emit(val, dmAKProgram(val, body, cur), ops, att)
	}
	return out
}
