package main

// Core of the type-directed program generator: scopes, expressions, statements.
// Everything is derived from the generator's Rng; programs are printed one statement per line
// (the shrinker and the mutator work on lines).

import (
	"fmt"
	"sort"
	"strings"

	"cvh/lib"
)

type vr struct {
	name   string
	t      *ty
	mut    bool
	live   bool     // resources: not yet moved / destroyed
	nonNil bool     // optional known to be non-nil (immutable, initialized from a value)
	minLen int      // arrays: known minimal length
	keys   []string // dictionaries: key literals known to be present
	dyn    *ty      // AnyStruct / interface typed: known dynamic type
	field  bool     // `self.f` pseudo variable
}

type fctx struct {
	ret      *ty // nil: no return value
	self     *comp
	view     bool
	noReturn bool // inside a resource phase: no early return
	contract bool // body runs inside a contract (emit allowed)
}

type scope struct {
	vars   []*vr
	parent *scope
	ctx    *fctx
	inLoop bool
	depth  int
}

func (s *scope) child() *scope {
	return &scope{parent: s, ctx: s.ctx, inLoop: s.inLoop, depth: s.depth + 1}
}

func (s *scope) add(v *vr) *vr { s.vars = append(s.vars, v); return v }

// all visible variables, innermost first (shadowing is avoided by unique names)
func (s *scope) all() []*vr {
	var out []*vr
	for c := s; c != nil; c = c.parent {
		for i := len(c.vars) - 1; i >= 0; i-- {
			out = append(out, c.vars[i])
		}
	}
	return out
}

func (s *scope) find(pred func(*vr) bool) []*vr {
	var out []*vr
	for _, v := range s.all() {
		if pred(v) {
			out = append(out, v)
		}
	}
	return out
}

// varsSub: non-resource variables whose static type is a subtype of t.
func (s *scope) varsSub(t *ty) []*vr {
	return s.find(func(v *vr) bool { return !v.t.isRes() && sub(v.t, t) })
}

func (s *scope) varsExact(t *ty) []*vr {
	return s.find(func(v *vr) bool { return !v.t.isRes() && v.t.eq(t) })
}

func (s *scope) varsKind(k kind) []*vr {
	return s.find(func(v *vr) bool { return v.t.k == k && !v.t.isRes() })
}

func (s *scope) mutVars() []*vr {
	return s.find(func(v *vr) bool { return v.mut && !v.t.isRes() })
}

// blk accumulates lines of a body.
type blk struct {
	lines []string
	ind   int
}

func (b *blk) add(format string, args ...any) {
	s := format
	if len(args) > 0 {
		s = fmt.Sprintf(format, args...)
	}
	for _, l := range strings.Split(s, "\n") {
		b.lines = append(b.lines, strings.Repeat("    ", b.ind)+l)
	}
}

func (b *blk) open(format string, args ...any)   { b.add(format, args...); b.ind++ }
func (b *blk) close()                            { b.ind--; b.add("}") }
func (b *blk) closeOpen(format string, a ...any) { b.ind--; b.add(format, a...); b.ind++ }
func (b *blk) String() string                    { return strings.Join(b.lines, "\n") }

type gen struct {
	r     *lib.Rng
	feats map[string]bool
	n     int

	structs   []*comp
	resources []*comp
	leafs     []*comp // leaf resources
	conts     []*comp // container resources
	sifaces   []*iface
	rifaces   []*iface
	enums     []*enumDecl
	funcs     []*fnDecl
	ents      []string
	decls     []string
	events    []*fnDecl // events (contract only): name + params

	qc         *qualCtx
	res        *resInfo
	entFamily  *entInfo
	outside    bool   // code is generated outside the contract declaring the types (use factories)
	inContract string // name of the contract being generated ("" for scripts)
	rareKnown  bool   // this program may contain shapes of known defects
}

func newGen(r *lib.Rng) *gen {
	return &gen{r: r, feats: map[string]bool{}, qc: &qualCtx{}}
}

func (g *gen) feat(f string) { g.feats[f] = true }

func (g *gen) features() []string {
	var out []string
	for f := range g.feats {
		out = append(out, f)
	}
	sort.Strings(out)
	return out
}

func (g *gen) fresh(prefix string) string {
	g.n++
	return fmt.Sprintf("%s%d", prefix, g.n)
}

func (g *gen) chance(num, den int) bool { return g.r.Chance(num, den) }

func pick[T any](g *gen, xs []T) T { return xs[g.r.Intn(len(xs))] }

// ------------------------------------------------------------------ random types

func (g *gen) primType() *ty {
	switch g.r.Intn(10) {
	case 0, 1, 2, 3:
		return tInt
	case 4:
		return pick(g, numTypes)
	case 5, 6:
		return tString
	case 7:
		return tBool
	case 8:
		if len(g.enums) > 0 {
			return pick(g, g.enums).t
		}
		return tInt8
	default:
		return pick(g, []*ty{tInt8, tUInt8, tUFix64, tAddress, tInt64, tWord8})
	}
}

func (g *gen) keyType() *ty {
	return pick(g, []*ty{tString, tInt, tString, tInt8, tBool, tAddress})
}

// valueType: a random non-resource type.
func (g *gen) valueType(d int) *ty {
	if d <= 0 {
		return g.primType()
	}
	switch g.r.Intn(20) {
	case 0, 1, 2, 3, 4, 5:
		return g.primType()
	case 6, 7:
		return opt(g.valueType(d - 1))
	case 8, 9, 10:
		return arr(g.valueType(d - 1))
	case 11, 12:
		return dict(g.keyType(), g.valueType(d-1))
	case 13, 14, 15:
		if len(g.structs) > 0 {
			return pick(g, g.structs).t
		}
		return g.primType()
	case 16:
		return tAnyStruct
	case 17:
		if is := g.implementedIfaces(); len(is) > 0 {
			i := pick(g, is)
			return i.ty()
		}
		return opt(g.primType())
	case 18:
		return carr(g.primType(), 2+g.r.Intn(2))
	default:
		return fun(g.primType(), g.primType())
	}
}

// implementedIfaces: struct interfaces some declared struct conforms to.
func (g *gen) implementedIfaces() []*iface {
	var out []*iface
	for _, i := range g.sifaces {
		for _, c := range g.structs {
			if c.conforms(i) {
				out = append(out, i)
				break
			}
		}
	}
	return out
}

// ------------------------------------------------------------------ literals and atoms

func (g *gen) smallInt() int {
	if g.chance(1, 30) {
		return pick(g, []int{127, 128, 255, 256, 0, 1})
	}
	return g.r.Intn(10)
}

// numLit renders a literal of a number type; typed=false wraps it in the conversion function
// so that it has the type without an expected type.
func (g *gen) numLit(t *ty, typed bool) string {
	n := g.smallInt()
	switch t.name {
	case "Int8":
		if n > 127 {
			n = 127
		}
	case "UInt8", "Word8":
		if n > 255 {
			n = 255
		}
	}
	var s string
	if t.isFix() {
		s = fmt.Sprintf("%d.%d", n%50, g.r.Intn(100))
	} else {
		s = itoa(n)
	}
	if t.name == "Int" && !t.isFix() {
		return s
	}
	if t.name == "UFix64" {
		return s
	}
	if typed && !g.chance(1, 4) {
		return s
	}
	return t.name + "(" + s + ")"
}

var strPool = []string{"", "a", "abc", "Hello", "x y", "k1", "k2", "flow", "0", "12"}

func (g *gen) strLit() string { return `"` + pick(g, strPool) + `"` }

func (g *gen) keyLit(t *ty, i int) string {
	switch t.k {
	case kString:
		return fmt.Sprintf(`"k%d"`, i)
	case kBool:
		if i%2 == 0 {
			return "true"
		}
		return "false"
	case kAddress:
		return fmt.Sprintf("Address(0x%d)", i+1)
	case kInt:
		if t.name == "Int" {
			return itoa(i)
		}
		return fmt.Sprintf("%s(%d)", t.name, i)
	}
	return itoa(i)
}

// lit: a literal-like expression of type t valid where t is the expected type.
func (g *gen) lit(s *scope, t *ty, d int) string {
	switch t.k {
	case kInt:
		return g.numLit(t, true)
	case kBool:
		return pick(g, []string{"true", "false"})
	case kString:
		return g.strLit()
	case kAddress:
		return fmt.Sprintf("0x%d", 1+g.r.Intn(3))
	case kChar:
		return pick(g, []string{`"a"`, `"b"`, `"z"`})
	case kOpt:
		if g.chance(1, 3) {
			return "nil"
		}
		return g.lit(s, t.elem, d)
	case kArr:
		n := g.r.Intn(3)
		if g.chance(3, 4) {
			n = 2 + g.r.Intn(2)
		}
		var xs []string
		for i := 0; i < n; i++ {
			xs = append(xs, g.expr(s, t.elem, d-1))
		}
		return "[" + strings.Join(xs, ", ") + "]"
	case kCArr:
		var xs []string
		for i := 0; i < t.n; i++ {
			xs = append(xs, g.expr(s, t.elem, d-1))
		}
		return "[" + strings.Join(xs, ", ") + "]"
	case kDict:
		n := 1 + g.r.Intn(3)
		if t.key.k == kBool && n > 2 {
			n = 2
		}
		var xs []string
		for i := 0; i < n; i++ {
			xs = append(xs, g.keyLit(t.key, i)+": "+g.expr(s, t.elem, d-1))
		}
		return "{" + strings.Join(xs, ", ") + "}"
	case kStruct:
		return g.construct(s, t.comp, d)
	case kEnum:
		e := g.enumOf(t)
		return t.String() + "." + pick(g, e.cases)
	case kAnyStruct:
		return g.expr(s, g.primType(), d-1)
	case kIface:
		for _, c := range g.shuffledStructs() {
			if c.conforms(t.iface) {
				return g.construct(s, c, d)
			}
		}
		panic("no struct conforms to " + t.name)
	case kFun:
		return g.closure(s, t, d)
	case kRange:
		return g.rangeExpr(s, d)
	case kRef:
		return g.refExpr(s, t, d)
	}
	panic("lit: unsupported type " + t.String())
}

func (g *gen) shuffledStructs() []*comp {
	out := append([]*comp{}, g.structs...)
	for i := len(out) - 1; i > 0; i-- {
		j := g.r.Intn(i + 1)
		out[i], out[j] = out[j], out[i]
	}
	return out
}

func (g *gen) enumOf(t *ty) *enumDecl {
	for _, e := range g.enums {
		if e.t.eq(t) || e.name == t.name {
			return e
		}
	}
	panic("unknown enum " + t.name)
}

func (g *gen) construct(s *scope, c *comp, d int) string {
	var args []string
	for _, f := range c.fields {
		args = append(args, f.name+": "+g.expr(s, f.t, d-1))
	}
	return c.t.String() + "(" + strings.Join(args, ", ") + ")"
}

func (g *gen) rangeExpr(s *scope, d int) string {
	lo := g.r.Intn(3)
	hi := lo + g.r.Intn(5)
	if g.chance(1, 3) {
		return fmt.Sprintf("InclusiveRange(%d, %d, step: %d)", lo, hi, 1+g.r.Intn(2))
	}
	if g.chance(1, 6) {
		return fmt.Sprintf("InclusiveRange(%d, %d, step: -1)", hi, lo)
	}
	return fmt.Sprintf("InclusiveRange(%d, %d)", lo, hi)
}

// exact: an expression whose static type is exactly t without an expected type.
func (g *gen) exact(s *scope, t *ty, d int) string {
	if vs := s.varsExact(t); len(vs) > 0 && g.chance(1, 2) {
		return pick(g, vs).name
	}
	switch t.k {
	case kInt:
		if t.name == "Int" || t.name == "UFix64" {
			return g.numLit(t, false)
		}
		return g.numLit(t, false)
	case kBool:
		return pick(g, []string{"true", "false"})
	case kString:
		return g.strLit()
	case kStruct:
		return g.construct(s, t.comp, d)
	case kEnum:
		return g.lit(s, t, d)
	case kFun:
		return g.closure(s, t, d)
	case kRange:
		return g.rangeExpr(s, d)
	}
	return "(" + g.expr(s, t, d) + " as " + t.String() + ")"
}

// atom: operand of a binary expression (exact type, simple).
func (g *gen) atom(s *scope, t *ty) string {
	vs := s.varsExact(t)
	if len(vs) > 0 && g.chance(3, 4) {
		return pick(g, vs).name
	}
	switch t.k {
	case kInt:
		return g.numLit(t, false)
	case kBool, kString:
		return g.exact(s, t, 0)
	}
	return g.exact(s, t, 0)
}

// ------------------------------------------------------------------ expressions

func (g *gen) boolExpr(s *scope, d int) string { return g.expr(s, tBool, d) }

// expr: an expression assignable to t where t is the expected type. Never a resource type.
func (g *gen) expr(s *scope, t *ty, d int) string {
	if t.isRes() {
		panic("expr on resource type " + t.String())
	}
	cands := s.varsSub(t)
	if d <= 0 {
		if len(cands) > 0 && g.chance(2, 3) {
			return pick(g, cands).name
		}
		if t.k == kRef || t.k == kFun {
			return g.lit(s, t, 1)
		}
		return g.lit(s, t, 0)
	}
	if t.k == kRef || t.k == kFun || t.k == kRange {
		if len(cands) > 0 && g.chance(1, 2) {
			return pick(g, cands).name
		}
		return g.lit(s, t, d)
	}
	roll := g.r.Intn(100)
	switch {
	case roll < 22:
		if len(cands) > 0 {
			return pick(g, cands).name
		}
	case roll < 28:
		g.feat("conditional-expr")
		return "(" + g.boolExpr(s, d-1) + " ? " + g.expr(s, t, d-1) + " : " + g.expr(s, t, d-1) + ")"
	case roll < 33:
		if t.k != kOpt {
			g.feat("nil-coalescing")
			return "(" + g.optOperand(s, opt(t), d-1) + " ?? " + g.rhs(s, t, d-1) + ")"
		}
	case roll < 38:
		// force unwrap
		ovs := s.find(func(v *vr) bool { return v.t.k == kOpt && !v.t.isRes() && sub(v.t.elem, t) && v.t.elem.k != kOpt })
		var safe []*vr
		for _, v := range ovs {
			if v.nonNil {
				safe = append(safe, v)
			}
		}
		if len(safe) > 0 {
			g.feat("force-unwrap")
			return pick(g, safe).name + "!"
		}
		if len(ovs) > 0 && g.chance(1, 4) {
			g.feat("force-unwrap")
			return pick(g, ovs).name + "!"
		}
		if t.k != kOpt && g.chance(1, 3) {
			g.feat("force-unwrap")
			return "(" + g.optOperand(s, opt(t), d-1) + ")!"
		}
	case roll < 42:
		if t.k != kAnyStruct {
			g.feat("static-cast")
			return "(" + g.expr(s, t, d-1) + " as " + t.String() + ")"
		}
	case roll < 46:
		if t.k != kAnyStruct && t.k != kIface {
			g.feat("force-cast")
			return "((" + g.exact(s, t, d-1) + " as AnyStruct) as! " + t.String() + ")"
		}
	case roll < 49:
		// downcast of an AnyStruct / interface variable with known dynamic type
		vs := s.find(func(v *vr) bool { return v.dyn != nil && sub(v.dyn, t) && !v.dyn.isRes() && v.dyn.k != kFun })
		if len(vs) > 0 {
			v := pick(g, vs)
			g.feat("force-cast")
			if g.chance(1, 2) {
				return "(" + v.name + " as! " + v.dyn.String() + ")"
			}
			if v.dyn.eq(t) {
				return "((" + v.name + " as? " + v.dyn.String() + ") ?? " + g.rhs(s, t, d-1) + ")"
			}
			return "(" + v.name + " as! " + v.dyn.String() + ")"
		}
	case roll < 57:
		if c := g.callReturning(s, t, d); c != "" {
			return c
		}
	case roll < 63:
		if e := g.indexInto(s, t, d); e != "" {
			return e
		}
	case roll < 68:
		if e := g.fieldOf(s, t); e != "" {
			return e
		}
	case roll < 70:
		// call of a function value
		fs := s.find(func(v *vr) bool { return v.t.k == kFun && sub(v.t.ret, t) && !v.t.ret.isRes() })
		if len(fs) > 0 {
			f := pick(g, fs)
			g.feat("function-value-call")
			var args []string
			for _, p := range f.t.params {
				args = append(args, g.expr(s, p, d-1))
			}
			return f.name + "(" + strings.Join(args, ", ") + ")"
		}
	}
	return g.kindExpr(s, t, d)
}

// rhs: right operand of ?? whose static type must be exactly t (the result type of ?? is the least
// common supertype of both sides).
func (g *gen) rhs(s *scope, t *ty, d int) string {
	switch t.k {
	case kInt, kBool, kString, kStruct, kEnum, kAddress:
		if t.k == kInt && t.name != "Int" {
			return g.atom(s, t)
		}
		if t.k == kStruct {
			return g.exact(s, t, d)
		}
		return g.expr(s, t, d)
	}
	return "(" + g.expr(s, t, d) + " as " + t.String() + ")"
}

// optOperand: an expression of static type exactly optional (operand of ??, !, ?.).
func (g *gen) optOperand(s *scope, t *ty, d int) string {
	vs := s.varsExact(t)
	if len(vs) > 0 && g.chance(2, 3) {
		return pick(g, vs).name
	}
	// dictionary lookup
	ds := s.find(func(v *vr) bool { return v.t.k == kDict && !v.t.isRes() && v.t.elem.eq(t.elem) })
	if len(ds) > 0 && g.chance(1, 2) {
		dv := pick(g, ds)
		g.feat("dict-lookup")
		return dv.name + "[" + g.dictKey(s, dv) + "]"
	}
	if g.chance(1, 12) && g.rareKnown {
		// known defect shape (interpreter: conditional with a non-optional branch is not boxed)
		return "(" + g.boolExpr(s, 0) + " ? " + g.atom(s, t.elem) + " : nil)"
	}
	if g.chance(1, 2) {
		if c := g.callReturningX(s, t, d, true); c != "" {
			return c
		}
	}
	return "(" + g.expr(s, t, d) + " as " + t.String() + ")"
}

func (g *gen) dictKey(s *scope, dv *vr) string {
	if len(dv.keys) > 0 && g.chance(3, 4) {
		return pick(g, dv.keys)
	}
	return g.keyLit(dv.t.key, g.r.Intn(4))
}

// indexInto: a[i] / d[k]! / (d[k] ?? e) of type <: t.
func (g *gen) indexInto(s *scope, t *ty, d int) string {
	as := s.find(func(v *vr) bool {
		return (v.t.k == kArr || v.t.k == kCArr) && !v.t.isRes() && sub(v.t.elem, t)
	})
	ds := s.find(func(v *vr) bool { return v.t.k == kDict && !v.t.isRes() && sub(v.t.elem, t) && v.t.elem.k != kOpt })
	if len(as) > 0 && (len(ds) == 0 || g.chance(1, 2)) {
		a := pick(g, as)
		g.feat("array-index")
		n := a.minLen
		if a.t.k == kCArr {
			n = a.t.n
		}
		if n > 0 {
			return fmt.Sprintf("%s[%d]", a.name, g.r.Intn(n))
		}
		if g.chance(1, 5) {
			return a.name + "[0]"
		}
		return fmt.Sprintf("(%s.length > 0 ? %s[%s.length - 1] : %s)", a.name, a.name, a.name, g.expr(s, t, d-1))
	}
	if len(ds) > 0 {
		dv := pick(g, ds)
		g.feat("dict-lookup")
		k := g.dictKey(s, dv)
		if len(dv.keys) > 0 && !dv.mut && g.chance(1, 2) {
			return dv.name + "[" + pick(g, dv.keys) + "]!"
		}
		if !dv.t.elem.eq(t) {
			return "(" + dv.name + "[" + k + "] ?? (" + g.expr(s, dv.t.elem, d-1) + " as " + dv.t.elem.String() + "))"
		}
		return "(" + dv.name + "[" + k + "] ?? " + g.rhs(s, t, d-1) + ")"
	}
	return ""
}

// fieldOf: v.f of type <: t for a struct-typed (or reference-to-struct) variable.
func (g *gen) fieldOf(s *scope, t *ty) string {
	type cand struct{ e string }
	var cs []cand
	for _, v := range s.all() {
		c := compOf(v.t)
		if c == nil || (v.t.isRes() && !v.live) {
			continue
		}
		viaRef := v.t.k == kRef
		for _, f := range c.fields {
			if f.access != "all" || f.t.isRes() {
				continue
			}
			if viaRef && !(f.t.k == kInt || f.t.k == kBool || f.t.k == kString || f.t.k == kEnum) {
				continue
			}
			if sub(f.t, t) {
				cs = append(cs, cand{v.name + "." + f.name})
			}
		}
	}
	if len(cs) == 0 {
		return ""
	}
	g.feat("field-access")
	return pick(g, cs).e
}

func compOf(t *ty) *comp {
	switch t.k {
	case kStruct, kRes:
		return t.comp
	case kRef:
		if t.elem.k == kStruct || t.elem.k == kRes {
			return t.elem.comp
		}
	}
	return nil
}

// callReturning: a call of a global function or a method whose result is <: t.
func (g *gen) callReturning(s *scope, t *ty, d int) string {
	return g.callReturningX(s, t, d, false)
}

// callReturningX: with exact, the declared result type must be exactly t.
func (g *gen) callReturningX(s *scope, t *ty, d int, exact bool) string {
	type cand struct {
		recv string
		f    *fnDecl
	}
	var cs []cand
	if !s.ctx.view {
		for _, f := range g.funcs {
			if f.ret != nil && !f.ret.isRes() && sub(f.ret, t) && g.argsOK(f) && (!exact || f.ret.eq(t)) {
				cs = append(cs, cand{"", f})
			}
		}
	}
	for _, v := range s.all() {
		if v.field && s.ctx.view {
			continue
		}
		var ms []*fnDecl
		switch v.t.k {
		case kStruct, kRes:
			if v.t.isRes() && !v.live {
				continue
			}
			ms = v.t.comp.allMethods()
		case kIface:
			if v.t.isRes() && !v.live {
				continue
			}
			ms = v.t.iface.allMethods()
		case kRef:
			if c := compOf(v.t); c != nil {
				for _, m := range c.allMethods() {
					if m.access == "" || strings.Contains(v.t.auth, m.access) {
						ms = append(ms, m)
					}
				}
			} else if v.t.elem.k == kIface {
				for _, m := range v.t.elem.iface.allMethods() {
					if m.access == "" {
						ms = append(ms, m)
					}
				}
			}
		}
		for _, m := range ms {
			if m.ret == nil || m.ret.isRes() || !sub(m.ret, t) || !g.argsOK(m) || (exact && !m.ret.eq(t)) {
				continue
			}
			if s.ctx.view && !m.view {
				continue
			}
			if m.mutating && !v.mut && v.t.k == kStruct && !v.field {
				// calling a mutating method on a `let` struct is allowed; keep it
			}
			cs = append(cs, cand{v.name, m})
		}
	}
	if len(cs) == 0 {
		return ""
	}
	c := cs[g.r.Intn(len(cs))]
	g.feat("call")
	return g.call(s, c.recv, c.f, d)
}

func (g *gen) argsOK(f *fnDecl) bool {
	for _, p := range f.params {
		if p.t.isRes() {
			return false
		}
	}
	return true
}

func (g *gen) call(s *scope, recv string, f *fnDecl, d int) string {
	var args []string
	for _, p := range f.params {
		a := g.expr(s, p.t, d-1)
		switch p.label {
		case "_":
			args = append(args, a)
		case "":
			args = append(args, p.name+": "+a)
		default:
			args = append(args, p.label+": "+a)
		}
	}
	name := f.q.name(f.name)
	if recv != "" {
		name = recv + "." + f.name
	}
	return name + "(" + strings.Join(args, ", ") + ")"
}

// kindExpr: type-specific expression forms.
func (g *gen) kindExpr(s *scope, t *ty, d int) string {
	switch t.k {
	case kInt:
		return g.intExpr(s, t, d)
	case kBool:
		return g.boolKind(s, d)
	case kString:
		return g.stringExpr(s, d)
	case kOpt:
		return g.optExpr(s, t, d)
	case kArr:
		return g.arrExpr(s, t, d)
	case kAnyStruct:
		u := g.valueType(1)
		if u.k == kFun || u.k == kAnyStruct {
			u = tInt
		}
		return g.expr(s, u, d-1)
	}
	return g.lit(s, t, d)
}

func (g *gen) intExpr(s *scope, t *ty, d int) string {
	a, b := g.atom(s, t), g.atom(s, t)
	roll := g.r.Intn(24)
	if t.name == "Int" {
		switch roll {
		case 0:
			if vs := s.find(func(v *vr) bool {
				return (v.t.k == kArr || v.t.k == kString || v.t.k == kDict || v.t.k == kCArr) && (!v.t.isRes() || v.live)
			}); len(vs) > 0 {
				g.feat("length")
				return pick(g, vs).name + ".length"
			}
		case 1:
			if vs := s.find(func(v *vr) bool { return v.t.k == kInt && !v.t.isFix() && v.t.name != "Int" }); len(vs) > 0 {
				g.feat("number-conversion")
				return "Int(" + pick(g, vs).name + ")"
			}
		case 2:
			if vs := s.varsKind(kRange); len(vs) > 0 {
				g.feat("inclusive-range")
				return pick(g, vs).name + "." + pick(g, []string{"start", "end", "step"})
			}
		case 3:
			g.feat("string-functions")
			return "(Int.fromString(" + g.expr(s, tString, d-1) + ") ?? " + itoa(g.smallInt()) + ")"
		case 4:
			if vs := s.find(func(v *vr) bool { return v.t.k == kArr && v.t.elem.eq(tInt) }); len(vs) > 0 {
				g.feat("array-functions")
				return "(" + pick(g, vs).name + ".firstIndex(of: " + a + ") ?? -1)"
			}
		}
	} else if roll == 0 && !t.isFix() {
		// checked conversion from Int (may overflow: user error)
		g.feat("number-conversion")
		if t.isSigned() || g.chance(1, 6) {
			return t.name + "(" + g.atom(s, tInt) + ")"
		}
		return t.name + "(" + itoa(g.r.Intn(100)) + ")"
	} else if roll == 1 && len(g.enums) > 0 && t.name == "UInt8" {
		if vs := s.varsKind(kEnum); len(vs) > 0 {
			g.feat("enum")
			return pick(g, vs).name + ".rawValue"
		}
	}
	g.feat("arithmetic")
	switch roll % 12 {
	case 0, 1, 2:
		return "(" + a + " + " + b + ")"
	case 3:
		if t.isSigned() || t.isWord() {
			return "(" + a + " - " + b + ")"
		}
		if !t.isFix() && t.name != "UInt" {
			return a + ".saturatingSubtract(" + b + ")"
		}
		return "(" + a + " + " + b + ")"
	case 4:
		return "(" + a + " * " + g.numLit(t, false) + ")"
	case 5:
		if g.chance(1, 8) {
			return "(" + a + " / " + b + ")"
		}
		return "(" + a + " / " + t.name + "(" + itoa(1+g.r.Intn(5)) + "))"
	case 6:
		if g.chance(1, 8) {
			return "(" + a + " % " + b + ")"
		}
		return "(" + a + " % " + t.name + "(" + itoa(1+g.r.Intn(5)) + "))"
	case 7:
		if !t.isFix() {
			return "(" + a + " " + pick(g, []string{"&", "|", "^"}) + " " + b + ")"
		}
	case 8:
		if !t.isFix() {
			return "(" + a + " " + pick(g, []string{"<<", ">>"}) + " " + t.name + "(" + itoa(g.r.Intn(4)) + "))"
		}
	case 9:
		if t.isSigned() {
			return "(-" + a + ")"
		}
	case 10:
		if !t.isFix() && !t.isWord() && t.name != "Int" && t.name != "UInt" {
			return a + "." + pick(g, []string{"saturatingAdd", "saturatingMultiply"}) + "(" + b + ")"
		}
	}
	return "(" + a + " + " + g.expr(s, t, d-1) + ")"
}

func equatable(t *ty) bool {
	switch t.k {
	case kInt, kBool, kString, kAddress, kEnum, kChar:
		return true
	case kOpt:
		return equatable(t.elem)
	case kArr:
		return equatable(t.elem)
	}
	return false
}

func (g *gen) boolKind(s *scope, d int) string {
	switch g.r.Intn(14) {
	case 0, 1, 2:
		t := pick(g, numTypes)
		if vs := s.varsKind(kInt); len(vs) > 0 && g.chance(3, 4) {
			t = pick(g, vs).t
		}
		g.feat("comparison")
		return "(" + g.atom(s, t) + " " + pick(g, []string{"<", "<=", ">", ">=", "==", "!="}) + " " + g.atom(s, t) + ")"
	case 3:
		if vs := s.find(func(v *vr) bool { return equatable(v.t) && !v.t.isRes() }); len(vs) > 0 {
			v := pick(g, vs)
			g.feat("equality")
			return "(" + v.name + " " + pick(g, []string{"==", "!="}) + " " + g.expr(s, v.t, d-1) + ")"
		}
	case 4:
		return "!" + g.atom(s, tBool)
	case 5:
		return "(" + g.boolExpr(s, d-1) + " && " + g.boolExpr(s, d-1) + ")"
	case 6:
		return "(" + g.boolExpr(s, d-1) + " || " + g.boolExpr(s, d-1) + ")"
	case 7:
		if vs := s.find(func(v *vr) bool { return v.t.k == kArr && equatable(v.t.elem) && v.t.elem.k != kArr && !v.t.isRes() }); len(vs) > 0 {
			v := pick(g, vs)
			g.feat("array-functions")
			return v.name + ".contains(" + g.expr(s, v.t.elem, d-1) + ")"
		}
	case 8:
		if vs := s.find(func(v *vr) bool { return v.t.k == kDict && (!v.t.isRes() || v.live) }); len(vs) > 0 {
			v := pick(g, vs)
			g.feat("dict-functions")
			return v.name + ".containsKey(" + g.dictKey(s, v) + ")"
		}
	case 9:
		if vs := s.find(func(v *vr) bool { return v.t.k == kOpt && (!v.t.isRes() || v.live) && !v.field }); len(vs) > 0 {
			g.feat("nil-comparison")
			return "(" + pick(g, vs).name + " " + pick(g, []string{"==", "!="}) + " nil)"
		}
	case 10:
		if vs := s.find(func(v *vr) bool { return (v.t.k == kAnyStruct || v.t.k == kIface) && !v.t.isRes() }); len(vs) > 0 {
			v := pick(g, vs)
			u := g.primType()
			if v.dyn != nil && g.chance(1, 2) {
				u = v.dyn
			}
			if u.k != kFun {
				g.feat("is-type")
				if g.chance(1, 2) {
					return v.name + ".isInstance(Type<" + u.String() + ">())"
				}
				return "(" + v.name + ".getType() == Type<" + u.String() + ">())"
			}
		}
	case 11:
		if vs := s.varsKind(kRange); len(vs) > 0 {
			g.feat("inclusive-range")
			return pick(g, vs).name + ".contains(" + g.expr(s, tInt, d-1) + ")"
		}
	case 12:
		g.feat("string-functions")
		return g.atom(s, tString) + ".contains(" + g.strLit() + ")"
	}
	return pick(g, []string{"true", "false", "true"})
}

func (g *gen) stringExpr(s *scope, d int) string {
	switch g.r.Intn(12) {
	case 0, 1:
		g.feat("string-functions")
		return g.atom(s, tString) + ".concat(" + g.expr(s, tString, d-1) + ")"
	case 2, 3:
		// string template
		var parts []string
		n := 1 + g.r.Intn(2)
		for i := 0; i < n; i++ {
			vs := s.find(func(v *vr) bool {
				return (v.t.k == kInt || v.t.k == kString || v.t.k == kBool || v.t.k == kAddress) && !v.field
			})
			if len(vs) > 0 {
				parts = append(parts, pick(g, []string{"", "a", " x="})+`\(`+pick(g, vs).name+`)`)
			} else {
				parts = append(parts, `\(`+itoa(g.r.Intn(9))+`)`)
			}
		}
		g.feat("string-template")
		return `"` + strings.Join(parts, pick(g, []string{"", "-", " "})) + pick(g, []string{"", "z"}) + `"`
	case 4:
		if vs := s.varsKind(kInt); len(vs) > 0 {
			g.feat("string-functions")
			return pick(g, vs).name + ".toString()"
		}
	case 5:
		g.feat("string-functions")
		return g.atom(s, tString) + "." + pick(g, []string{"toLower()", "utf8.length.toString()", `replaceAll(of: "a", with: "b")`})
	case 6:
		if vs := s.find(func(v *vr) bool { return v.t.k == kArr && v.t.elem.eq(tString) }); len(vs) > 0 {
			g.feat("string-functions")
			return "String.join(" + pick(g, vs).name + `, separator: ",")`
		}
	case 7:
		g.feat("string-functions")
		return `"hello".slice(from: ` + itoa(g.r.Intn(3)) + ", upTo: " + itoa(3+g.r.Intn(3)) + ")"
	case 8:
		if vs := s.find(func(v *vr) bool { return v.t.k == kArr && v.t.elem.eq(tUInt8) }); len(vs) > 0 {
			g.feat("string-functions")
			return "String.encodeHex(" + pick(g, vs).name + ")"
		}
	}
	return g.strLit()
}

func (g *gen) optExpr(s *scope, t *ty, d int) string {
	e := t.elem
	switch g.r.Intn(16) {
	case 0, 1:
		return "nil"
	case 2:
		if g.rareKnown && g.chance(1, 2) {
			return "(" + g.boolExpr(s, d-1) + " ? " + g.expr(s, e, d-1) + " : nil)"
		}
		g.feat("conditional-expr")
		return "(" + g.boolExpr(s, d-1) + " ? " + g.optOperand(s, t, d-1) + " : nil)"
	case 3, 4:
		// failable cast
		if e.k != kFun && e.k != kAnyStruct {
			g.feat("failable-cast")
			vs := s.find(func(v *vr) bool { return (v.t.k == kAnyStruct || v.t.k == kIface) && !v.t.isRes() })
			if len(vs) > 0 && g.chance(2, 3) {
				return "(" + pick(g, vs).name + " as? " + e.String() + ")"
			}
			u := e
			if g.chance(1, 3) {
				u = g.primType()
			}
			return "((" + g.exact(s, u, d-1) + " as AnyStruct) as? " + e.String() + ")"
		}
	case 5, 6:
		// optional chaining on an optional struct / reference / string / array
		if x := g.optChain(s, t, d); x != "" {
			return x
		}
	case 7:
		ds := s.find(func(v *vr) bool { return v.t.k == kDict && !v.t.isRes() && sub(v.t.elem, e) && v.t.elem.k != kOpt })
		if len(ds) > 0 {
			dv := pick(g, ds)
			g.feat("dict-lookup")
			return dv.name + "[" + g.dictKey(s, dv) + "]"
		}
	case 8:
		if e.eq(tInt) {
			if vs := s.find(func(v *vr) bool { return v.t.k == kArr && equatable(v.t.elem) && v.t.elem.k != kArr && !v.t.isRes() }); len(vs) > 0 {
				v := pick(g, vs)
				g.feat("array-functions")
				return v.name + ".firstIndex(of: " + g.expr(s, v.t.elem, d-1) + ")"
			}
			g.feat("string-functions")
			return "Int.fromString(" + g.expr(s, tString, d-1) + ")"
		}
	case 9:
		// optional map
		ovs := s.find(func(v *vr) bool {
			return v.t.k == kOpt && !v.t.isRes() && v.t.elem.k != kOpt && v.t.elem.k != kRef && !v.field
		})
		if len(ovs) > 0 && e.k != kOpt && !s.ctx.view {
			v := pick(g, ovs)
			g.feat("optional-map")
			return v.name + ".map(" + g.closure(s, fun(e, v.t.elem), d-1) + ")"
		}
	case 10:
		if e.k == kEnum {
			g.feat("enum")
			return e.String() + "(rawValue: " + itoa(g.r.Intn(4)) + ")"
		}
	}
	return g.expr(s, e, d-1)
}

// optChain: `o?.f`, `o?.m(...)`, `(x as? S)?.f` of type <: t (t optional).
func (g *gen) optChain(s *scope, t *ty, d int) string {
	type cand struct{ e string }
	var cs []cand
	flat := func(ft *ty) *ty {
		if ft.k == kOpt {
			return ft
		}
		return opt(ft)
	}
	for _, v := range s.all() {
		if v.t.k != kOpt || v.field {
			continue
		}
		inner := v.t.elem
		if inner.isRes() && !v.live {
			continue
		}
		c := compOf(inner)
		if c != nil {
			for _, f := range c.fields {
				if f.access == "all" && !f.t.isRes() && sub(flat(f.t), t) {
					if inner.k == kRef && !(f.t.k == kInt || f.t.k == kBool || f.t.k == kString) {
						continue
					}
					cs = append(cs, cand{v.name + "?." + f.name})
				}
			}
			for _, m := range c.allMethods() {
				if m.ret != nil && !m.ret.isRes() && sub(flat(m.ret), t) && g.argsOK(m) && (m.access == "" || inner.k != kRef) && (!s.ctx.view || m.view) {
					cs = append(cs, cand{g.call(s, v.name+"?", m, d)})
				}
			}
		}
		if inner.k == kString && sub(opt(tInt), t) {
			cs = append(cs, cand{v.name + "?.length"})
		}
		if inner.k == kArr && !inner.isRes() && sub(opt(tInt), t) {
			cs = append(cs, cand{v.name + "?.length"})
		}
		if inner.k == kString && sub(opt(tString), t) {
			cs = append(cs, cand{v.name + "?.toLower()"})
		}
	}
	// failable cast followed by optional chaining
	for _, v := range s.all() {
		if v.dyn != nil && v.dyn.k == kStruct && !v.t.isRes() {
			for _, f := range v.dyn.comp.fields {
				if f.access == "all" && !f.t.isRes() && sub(flat(f.t), t) {
					cs = append(cs, cand{"(" + v.name + " as? " + v.dyn.String() + ")?." + f.name})
				}
			}
		}
	}
	if len(cs) == 0 {
		return ""
	}
	g.feat("optional-chaining")
	return pick(g, cs).e
}

func (g *gen) arrExpr(s *scope, t *ty, d int) string {
	e := t.elem
	src := s.find(func(v *vr) bool { return v.t.k == kArr && !v.t.isRes() && sub(v.t, t) })
	switch g.r.Intn(14) {
	case 0, 1:
		if len(src) > 0 {
			g.feat("array-functions")
			return pick(g, src).name + ".concat(" + g.expr(s, pick(g, src).t, d-1) + ")"
		}
	case 2:
		if len(src) > 0 {
			g.feat("array-functions")
			return pick(g, src).name + ".reverse()"
		}
	case 3:
		if len(src) > 0 {
			v := pick(g, src)
			g.feat("array-functions")
			if v.minLen >= 1 {
				return fmt.Sprintf("%s.slice(from: 0, upTo: %d)", v.name, 1+g.r.Intn(v.minLen))
			}
			return v.name + ".slice(from: 0, upTo: " + v.name + ".length)"
		}
	case 4, 5:
		// map from any array of primitives
		as := s.find(func(v *vr) bool { return v.t.k == kArr && !v.t.isRes() && v.t.elem.k != kFun && v.t.elem.k != kRef })
		if len(as) > 0 && !s.ctx.view {
			v := pick(g, as)
			g.feat("array-map")
			return v.name + ".map(" + g.closure(s, fun(e, v.t.elem), d-1) + ")"
		}
	case 6:
		if len(src) > 0 {
			v := pick(g, src)
			if v.t.elem.k != kFun && v.t.elem.k != kRef {
				g.feat("array-filter")
				return v.name + ".filter(" + g.viewPredicate(s, v.t.elem, d-1) + ")"
			}
		}
	case 7:
		ds := s.find(func(v *vr) bool {
			return v.t.k == kDict && (sub(arr(v.t.key), t) || (sub(arr(v.t.elem), t) && !v.t.isRes())) && (!v.t.isRes() || v.live)
		})
		if len(ds) > 0 {
			v := pick(g, ds)
			g.feat("dict-functions")
			if sub(arr(v.t.key), t) {
				return v.name + ".keys"
			}
			return v.name + ".values"
		}
	case 8:
		cs := s.find(func(v *vr) bool { return v.t.k == kCArr && sub(arr(v.t.elem), t) })
		if len(cs) > 0 {
			g.feat("const-array")
			return pick(g, cs).name + ".toVariableSized()"
		}
	case 9:
		if e.eq(tUInt8) {
			g.feat("string-functions")
			return g.atom(s, tString) + ".utf8"
		}
		if e.eq(tString) {
			g.feat("string-functions")
			return g.atom(s, tString) + `.split(separator: " ")`
		}
	}
	return g.lit(s, t, d)
}

// viewPredicate: `view fun (x: T): Bool { return ... }`
func (g *gen) viewPredicate(s *scope, e *ty, d int) string {
	x := g.fresh("p")
	body := "true"
	switch e.k {
	case kInt:
		body = "x " + pick(g, []string{">", "<", "!=", ">="}) + " " + g.numLit(e, false)
	case kString:
		body = "x.length " + pick(g, []string{">", "<"}) + " " + itoa(g.r.Intn(4))
	case kBool:
		body = "x"
	case kOpt:
		body = "x != nil"
	}
	body = strings.ReplaceAll(body, "x", x)
	return "view fun (" + x + ": " + e.String() + "): Bool { return " + body + " }"
}

// closure: a function expression of type t capturing the enclosing scope.
func (g *gen) closure(s *scope, t *ty, d int) string {
	g.feat("closure")
	cs := &scope{parent: s, ctx: &fctx{ret: t.ret, contract: s.ctx.contract}, depth: s.depth + 1}
	var ps []string
	for _, p := range t.params {
		n := g.fresh("a")
		cs.add(&vr{name: n, t: p, live: true})
		ps = append(ps, n+": "+p.anno())
	}
	b := &blk{ind: 0}
	// capture: sometimes mutate an outer variable
	if g.chance(1, 3) && d > 0 && !s.ctx.view {
		if mv := s.find(func(v *vr) bool { return v.mut && !v.field && (v.t.k == kInt || v.t.k == kString || v.t.k == kBool) }); len(mv) > 0 {
			v := pick(g, mv)
			b.add("%s = %s", v.name, g.expr(cs, v.t, 1))
			g.feat("closure-captures-var")
		}
	}
	if d > 1 && g.chance(1, 3) {
		g.stmts(b, cs, 1, d-1)
	}
	if t.ret.k == kVoid {
		if len(b.lines) == 0 {
			return "fun (" + strings.Join(ps, ", ") + ") { }"
		}
		return "fun (" + strings.Join(ps, ", ") + ") { " + strings.Join(b.lines, "; ") + " }"
	}
	ret := g.expr(cs, t.ret, imin(d-1, 2))
	if len(b.lines) == 0 {
		return "fun (" + strings.Join(ps, ", ") + "): " + t.ret.anno() + " { return " + ret + " }"
	}
	for _, l := range b.lines {
		if strings.Contains(l, "{") || strings.Contains(l, "}") {
			// multi-line body
			return "fun (" + strings.Join(ps, ", ") + "): " + t.ret.anno() + " {\n" + strings.Join(b.lines, "\n") + "\nreturn " + ret + "\n}"
		}
	}
	return "fun (" + strings.Join(ps, ", ") + "): " + t.ret.anno() + " { " + strings.Join(b.lines, "; ") + "; return " + ret + " }"
}

// refExpr: an expression of reference type t.
func (g *gen) refExpr(s *scope, t *ty, d int) string {
	g.feat("reference")
	// referenced variables: exact type or subtype for interface / Any targets
	vs := s.find(func(v *vr) bool {
		if v.t.k == kRef || v.t.k == kOpt || v.field {
			return false
		}
		if v.t.isRes() && !v.live {
			return false
		}
		if t.elem.isRes() != v.t.isRes() {
			return false
		}
		return v.t.eq(t.elem) || ((t.elem.k == kIface || t.elem.k == kAnyStruct) && sub(v.t, t.elem))
	})
	if len(vs) > 0 {
		return "&" + pick(g, vs).name + " as " + t.String()
	}
	if t.elem.isRes() {
		panic("refExpr: no live resource of type " + t.elem.String())
	}
	// no variable: reference to a fresh value is not possible; declare nothing, use an array element
	return "&([" + g.expr(s, t.elem, d-1) + "] as [" + t.elem.String() + "])[0] as " + t.String()
}

func imin(a, b int) int {
	if a < b {
		return a
	}
	return b
}
