package main

// Core of the type-directed program generator: scopes, expressions, statements.
// Everything is derived from the generator's Rng; programs are printed one statement per line
// (the shrinker and the mutator work on lines).

import (
	"fmt"
	"sort"
	"strings"

	"cvh/lib"
)

type dmVr struct {
	name   string
	t      *dmTy
	mut    bool
	live   bool     // resources: not yet moved / destroyed
	nonNil bool     // optional known to be non-nil (immutable, initialized from a value)
	minLen int      // arrays: known minimal length
	keys   []string // dictionaries: key literals known to be present
	dyn    *dmTy    // AnyStruct / interface typed: known dynamic type
	field  bool     // `self.f` pseudo variable
}

type dmFctx struct {
	ret      *dmTy // nil: no return value
	self     *dmComp
	view     bool
	noReturn bool // inside a resource phase: no early return
	contract bool // body runs inside a contract (emit allowed)
}

type dmScope struct {
	vars   []*dmVr
	parent *dmScope
	ctx    *dmFctx
	inLoop bool
	depth  int
}

func (s *dmScope) child() *dmScope {
	return &dmScope{parent: s, ctx: s.ctx, inLoop: s.inLoop, depth: s.depth + 1}
}

func (s *dmScope) add(v *dmVr) *dmVr { s.vars = append(s.vars, v); return v }

// all visible variables, innermost first (shadowing is avoided by unique names)
func (s *dmScope) all() []*dmVr {
	var out []*dmVr
	for c := s; c != nil; c = c.parent {
		for i := len(c.vars) - 1; i >= 0; i-- {
			out = append(out, c.vars[i])
		}
	}
	return out
}

func (s *dmScope) find(pred func(*dmVr) bool) []*dmVr {
	var out []*dmVr
	for _, v := range s.all() {
		if pred(v) {
			out = append(out, v)
		}
	}
	return out
}

// varsSub: non-resource variables whose static type is a subtype of t.
func (s *dmScope) varsSub(t *dmTy) []*dmVr {
	return s.find(func(v *dmVr) bool { return !v.t.isRes() && dmSub(v.t, t) })
}

func (s *dmScope) varsExact(t *dmTy) []*dmVr {
	return s.find(func(v *dmVr) bool { return !v.t.isRes() && v.t.eq(t) })
}

func (s *dmScope) varsKind(k dmKind) []*dmVr {
	return s.find(func(v *dmVr) bool { return v.t.k == k && !v.t.isRes() })
}

func (s *dmScope) mutVars() []*dmVr {
	return s.find(func(v *dmVr) bool { return v.mut && !v.t.isRes() })
}

// blk accumulates lines of a body.
type dmBlk struct {
	lines []string
	ind   int
}

func (b *dmBlk) add(format string, args ...any) {
	s := format
	if len(args) > 0 {
		s = fmt.Sprintf(format, args...)
	}
	for _, l := range strings.Split(s, "\n") {
		b.lines = append(b.lines, strings.Repeat("    ", b.ind)+l)
	}
}

func (b *dmBlk) open(format string, args ...any)   { b.add(format, args...); b.ind++ }
func (b *dmBlk) close()                            { b.ind--; b.add("}") }
func (b *dmBlk) closeOpen(format string, a ...any) { b.ind--; b.add(format, a...); b.ind++ }
func (b *dmBlk) String() string                    { return strings.Join(b.lines, "\n") }

type dmGen struct {
	r     *lib.Rng
	feats map[string]bool
	n     int

	structs   []*dmComp
	resources []*dmComp
	leafs     []*dmComp // leaf resources
	conts     []*dmComp // container resources
	sifaces   []*dmIface
	rifaces   []*dmIface
	enums     []*dmEnumDecl
	funcs     []*dmFnDecl
	ents      []string
	decls     []string
	events    []*dmFnDecl // events (contract only): name + params

	qc         *dmQualCtx
	res        *dmResInfo
	entFamily  *dmEntInfo
	sAtt       *dmAttachment
	outside    bool   // code is generated outside the contract declaring the types (use factories)
	inContract string // name of the contract being generated ("" for scripts)
	rareKnown  bool   // this program may contain shapes of known defects
}

func dmNewGen(r *lib.Rng) *dmGen {
	return &dmGen{r: r, feats: map[string]bool{}, qc: &dmQualCtx{}}
}

func (g *dmGen) feat(f string) { g.feats[f] = true }

func (g *dmGen) features() []string {
	var out []string
	for f := range g.feats {
		out = append(out, f)
	}
	sort.Strings(out)
	return out
}

func (g *dmGen) fresh(prefix string) string {
	g.n++
	return fmt.Sprintf("%s%d", prefix, g.n)
}

func (g *dmGen) chance(num, den int) bool { return g.r.Chance(num, den) }

func dmPick[T any](g *dmGen, xs []T) T { return xs[g.r.Intn(len(xs))] }

// ------------------------------------------------------------------ random types

func (g *dmGen) primType() *dmTy {
	switch g.r.Intn(10) {
	case 0, 1, 2, 3:
		return dmTInt
	case 4:
		return dmPick(g, dmNumTypes)
	case 5, 6:
		return dmTString
	case 7:
		return dmTBool
	case 8:
		if len(g.enums) > 0 {
			return dmPick(g, g.enums).t
		}
		return dmTInt8
	default:
		return dmPick(g, []*dmTy{dmTInt8, dmTUInt8, dmTUFix64, dmTAddress, dmTInt64, dmTWord8})
	}
}

func (g *dmGen) keyType() *dmTy {
	if len(g.enums) > 0 && g.chance(1, 6) {
		return dmPick(g, g.enums).t
	}
	return dmPick(g, []*dmTy{dmTString, dmTInt, dmTString, dmTInt8, dmTBool, dmTAddress, dmTUInt64})
}

// valueType: a random non-resource type.
func (g *dmGen) valueType(d int) *dmTy {
	if d <= 0 {
		return g.primType()
	}
	switch g.r.Intn(20) {
	case 0, 1, 2, 3, 4, 5:
		return g.primType()
	case 6, 7:
		return dmOpt(g.valueType(d - 1))
	case 8, 9, 10:
		return dmArr(g.valueType(d - 1))
	case 11, 12:
		return dmDict(g.keyType(), g.valueType(d-1))
	case 13, 14, 15:
		if len(g.structs) > 0 {
			return dmPick(g, g.structs).t
		}
		return g.primType()
	case 16:
		return dmTAnyStruct
	case 17:
		if is := g.implementedIfaces(); len(is) > 0 {
			i := dmPick(g, is)
			return i.ty()
		}
		return dmOpt(g.primType())
	case 18:
		return dmCarr(g.primType(), 2+g.r.Intn(2))
	default:
		return dmFun(g.primType(), g.primType())
	}
}

// implementedIfaces: struct interfaces some declared struct conforms to.
func (g *dmGen) implementedIfaces() []*dmIface {
	var out []*dmIface
	for _, i := range g.sifaces {
		for _, c := range g.structs {
			if c.conforms(i) {
				out = append(out, i)
				break
			}
		}
	}
	return out
}

// ------------------------------------------------------------------ literals and atoms

func (g *dmGen) smallInt() int {
	if g.chance(1, 30) {
		return dmPick(g, []int{127, 128, 255, 256, 0, 1})
	}
	return g.r.Intn(10)
}

// numLit renders a literal of a number type; typed=false wraps it in the conversion function
// so that it has the type without an expected type.
func (g *dmGen) numLit(t *dmTy, typed bool) string {
	n := g.smallInt()
	switch t.name {
	case "Int8":
		if n > 127 {
			n = 127
		}
	case "UInt8", "Word8":
		if n > 255 {
			n = 255
		}
	}
	var s string
	if t.isFix() {
		s = fmt.Sprintf("%d.%d", n%50, g.r.Intn(100))
	} else {
		s = dmItoa(n)
	}
	if t.name == "Int" && !t.isFix() {
		return s
	}
	if t.name == "UFix64" {
		return s
	}
	if typed && !g.chance(1, 4) {
		return s
	}
	return t.name + "(" + s + ")"
}

var dmStrPool = []string{"", "a", "abc", "Hello", "x y", "k1", "k2", "flow", "0", "12"}

func (g *dmGen) strLit() string { return `"` + dmPick(g, dmStrPool) + `"` }

func (g *dmGen) keyLit(t *dmTy, i int) string {
	switch t.k {
	case dmKString:
		return fmt.Sprintf(`"k%d"`, i)
	case dmKBool:
		if i%2 == 0 {
			return "true"
		}
		return "false"
	case dmKAddress:
		return fmt.Sprintf("Address(0x%d)", i+1)
	case dmKEnum:
		e := g.enumOf(t)
		return t.String() + "." + e.cases[i%len(e.cases)]
	case dmKInt:
		if t.name == "Int" {
			return dmItoa(i)
		}
		return fmt.Sprintf("%s(%d)", t.name, i)
	}
	return dmItoa(i)
}

// lit: a literal-like expression of type t valid where t is the expected type.
func (g *dmGen) lit(s *dmScope, t *dmTy, d int) string {
	switch t.k {
	case dmKInt:
		return g.numLit(t, true)
	case dmKBool:
		return dmPick(g, []string{"true", "false"})
	case dmKString:
		return g.strLit()
	case dmKAddress:
		return fmt.Sprintf("0x%d", 1+g.r.Intn(3))
	case dmKChar:
		return dmPick(g, []string{`"a"`, `"b"`, `"z"`})
	case dmKOpt:
		if g.chance(1, 3) {
			return "nil"
		}
		return g.lit(s, t.elem, d)
	case dmKArr:
		n := g.r.Intn(3)
		if g.chance(3, 4) {
			n = 2 + g.r.Intn(2)
		}
		var xs []string
		for i := 0; i < n; i++ {
			xs = append(xs, g.expr(s, t.elem, d-1))
		}
		return "[" + strings.Join(xs, ", ") + "]"
	case dmKCArr:
		var xs []string
		for i := 0; i < t.n; i++ {
			xs = append(xs, g.expr(s, t.elem, d-1))
		}
		return "[" + strings.Join(xs, ", ") + "]"
	case dmKDict:
		n := 1 + g.r.Intn(3)
		if t.key.k == dmKBool && n > 2 {
			n = 2
		}
		var xs []string
		for i := 0; i < n; i++ {
			xs = append(xs, g.keyLit(t.key, i)+": "+g.expr(s, t.elem, d-1))
		}
		return "{" + strings.Join(xs, ", ") + "}"
	case dmKStruct:
		return g.construct(s, t.comp, d)
	case dmKEnum:
		e := g.enumOf(t)
		return t.String() + "." + dmPick(g, e.cases)
	case dmKAnyStruct:
		return g.expr(s, g.primType(), d-1)
	case dmKIface:
		for _, c := range g.shuffledStructs() {
			if c.conforms(t.iface) {
				return g.construct(s, c, d)
			}
		}
		panic("no struct conforms to " + t.name)
	case dmKFun:
		return g.closure(s, t, d)
	case dmKRange:
		return g.rangeExpr(s, d)
	case dmKRef:
		return g.refExpr(s, t, d)
	}
	panic("lit: unsupported type " + t.String())
}

func (g *dmGen) shuffledStructs() []*dmComp {
	out := append([]*dmComp{}, g.structs...)
	for i := len(out) - 1; i > 0; i-- {
		j := g.r.Intn(i + 1)
		out[i], out[j] = out[j], out[i]
	}
	return out
}

func (g *dmGen) enumOf(t *dmTy) *dmEnumDecl {
	for _, e := range g.enums {
		if e.t.eq(t) || e.name == t.name {
			return e
		}
	}
	panic("unknown enum " + t.name)
}

func (g *dmGen) construct(s *dmScope, c *dmComp, d int) string {
	var args []string
	for _, f := range c.fields {
		args = append(args, f.name+": "+g.expr(s, f.t, d-1))
	}
	return c.t.String() + "(" + strings.Join(args, ", ") + ")"
}

func (g *dmGen) rangeExpr(s *dmScope, d int) string {
	lo := g.r.Intn(3)
	hi := lo + g.r.Intn(5)
	if g.chance(1, 3) {
		return fmt.Sprintf("InclusiveRange(%d, %d, step: %d)", lo, hi, 1+g.r.Intn(2))
	}
	if g.chance(1, 6) {
		return fmt.Sprintf("InclusiveRange(%d, %d, step: -1)", hi, lo)
	}
	return fmt.Sprintf("InclusiveRange(%d, %d)", lo, hi)
}

// exact: an expression whose static type is exactly t without an expected type.
func (g *dmGen) exact(s *dmScope, t *dmTy, d int) string {
	if vs := s.varsExact(t); len(vs) > 0 && g.chance(1, 2) {
		return dmPick(g, vs).name
	}
	switch t.k {
	case dmKInt:
		if t.name == "Int" || t.name == "UFix64" {
			return g.numLit(t, false)
		}
		return g.numLit(t, false)
	case dmKBool:
		return dmPick(g, []string{"true", "false"})
	case dmKString:
		return g.strLit()
	case dmKStruct:
		return g.construct(s, t.comp, d)
	case dmKEnum:
		return g.lit(s, t, d)
	case dmKFun:
		return g.closure(s, t, d)
	case dmKRange:
		return g.rangeExpr(s, d)
	}
	return "(" + g.expr(s, t, d) + " as " + t.String() + ")"
}

// atom: operand of a binary expression (exact type, simple).
func (g *dmGen) atom(s *dmScope, t *dmTy) string {
	vs := s.varsExact(t)
	if len(vs) > 0 && g.chance(3, 4) {
		return dmPick(g, vs).name
	}
	switch t.k {
	case dmKInt:
		return g.numLit(t, false)
	case dmKBool, dmKString:
		return g.exact(s, t, 0)
	}
	return g.exact(s, t, 0)
}

// ------------------------------------------------------------------ expressions

func (g *dmGen) boolExpr(s *dmScope, d int) string { return g.expr(s, dmTBool, d) }

// expr: an expression assignable to t where t is the expected type. Never a resource type.
func (g *dmGen) expr(s *dmScope, t *dmTy, d int) string {
	if t.isRes() {
		panic("expr on resource type " + t.String())
	}
	cands := s.varsSub(t)
	if d <= 0 {
		if len(cands) > 0 && g.chance(2, 3) {
			return dmPick(g, cands).name
		}
		if t.k == dmKRef || t.k == dmKFun {
			return g.lit(s, t, 1)
		}
		return g.lit(s, t, 0)
	}
	if t.k == dmKRef || t.k == dmKFun || t.k == dmKRange {
		if len(cands) > 0 && g.chance(1, 2) {
			return dmPick(g, cands).name
		}
		return g.lit(s, t, d)
	}
	roll := g.r.Intn(100)
	switch {
	case roll < 22:
		if len(cands) > 0 {
			return dmPick(g, cands).name
		}
	case roll < 28:
		g.feat("conditional-expr")
		return "(" + g.boolExpr(s, d-1) + " ? " + g.expr(s, t, d-1) + " : " + g.expr(s, t, d-1) + ")"
	case roll < 33:
		if t.k != dmKOpt {
			g.feat("nil-coalescing")
			return "(" + g.optOperand(s, dmOpt(t), d-1) + " ?? " + g.rhs(s, t, d-1) + ")"
		}
	case roll < 38:
		// force unwrap
		ovs := s.find(func(v *dmVr) bool {
			return v.t.k == dmKOpt && !v.t.isRes() && dmSub(v.t.elem, t) && v.t.elem.k != dmKOpt
		})
		var safe []*dmVr
		for _, v := range ovs {
			if v.nonNil {
				safe = append(safe, v)
			}
		}
		if len(safe) > 0 {
			g.feat("force-unwrap")
			return dmPick(g, safe).name + "!"
		}
		if len(ovs) > 0 && g.chance(1, 4) {
			g.feat("force-unwrap")
			return dmPick(g, ovs).name + "!"
		}
		if t.k != dmKOpt && g.chance(1, 3) {
			g.feat("force-unwrap")
			return "(" + g.optOperand(s, dmOpt(t), d-1) + ")!"
		}
	case roll < 42:
		if t.k != dmKAnyStruct {
			g.feat("static-cast")
			return "(" + g.expr(s, t, d-1) + " as " + t.String() + ")"
		}
	case roll < 46:
		if t.k != dmKAnyStruct && t.k != dmKIface {
			g.feat("force-cast")
			return "((" + g.exact(s, t, d-1) + " as AnyStruct) as! " + t.String() + ")"
		}
	case roll < 49:
		// downcast of an AnyStruct / interface variable with known dynamic type
		vs := s.find(func(v *dmVr) bool { return v.dyn != nil && dmSub(v.dyn, t) && !v.dyn.isRes() && v.dyn.k != dmKFun })
		if len(vs) > 0 {
			v := dmPick(g, vs)
			g.feat("force-cast")
			if g.chance(1, 2) {
				return "(" + v.name + " as! " + v.dyn.String() + ")"
			}
			if v.dyn.eq(t) {
				return "((" + v.name + " as? " + v.dyn.String() + ") ?? " + g.rhs(s, t, d-1) + ")"
			}
			return "(" + v.name + " as! " + v.dyn.String() + ")"
		}
	case roll < 57:
		if c := g.callReturning(s, t, d); c != "" {
			return c
		}
	case roll < 63:
		if e := g.indexInto(s, t, d); e != "" {
			return e
		}
	case roll < 68:
		if e := g.fieldOf(s, t); e != "" {
			return e
		}
	case roll < 70:
		// call of a function value
		fs := s.find(func(v *dmVr) bool { return v.t.k == dmKFun && dmSub(v.t.ret, t) && !v.t.ret.isRes() })
		if len(fs) > 0 {
			f := dmPick(g, fs)
			g.feat("function-value-call")
			var args []string
			for _, p := range f.t.params {
				args = append(args, g.expr(s, p, d-1))
			}
			return f.name + "(" + strings.Join(args, ", ") + ")"
		}
	}
	return g.kindExpr(s, t, d)
}

// rhs: right operand of ?? whose static type must be exactly t (the result type of ?? is the least
// common supertype of both sides).
func (g *dmGen) rhs(s *dmScope, t *dmTy, d int) string {
	switch t.k {
	case dmKInt, dmKBool, dmKString, dmKStruct, dmKEnum, dmKAddress:
		if t.k == dmKInt && t.name != "Int" {
			return g.atom(s, t)
		}
		if t.k == dmKStruct {
			return g.exact(s, t, d)
		}
		return g.expr(s, t, d)
	}
	return "(" + g.expr(s, t, d) + " as " + t.String() + ")"
}

// optOperand: an expression of static type exactly optional (operand of ??, !, ?.).
func (g *dmGen) optOperand(s *dmScope, t *dmTy, d int) string {
	vs := s.varsExact(t)
	if len(vs) > 0 && g.chance(2, 3) {
		return dmPick(g, vs).name
	}
	// dictionary lookup
	ds := s.find(func(v *dmVr) bool { return v.t.k == dmKDict && !v.t.isRes() && v.t.elem.eq(t.elem) })
	if len(ds) > 0 && g.chance(1, 2) {
		dv := dmPick(g, ds)
		g.feat("dict-lookup")
		return dv.name + "[" + g.dictKey(s, dv) + "]"
	}
	if g.chance(1, 12) && g.rareKnown {
		// known defect shape (interpreter: conditional with a non-optional branch is not boxed)
		return "(" + g.boolExpr(s, 0) + " ? " + g.atom(s, t.elem) + " : nil)"
	}
	if g.chance(1, 2) {
		if c := g.callReturningX(s, t, d, true); c != "" {
			return c
		}
	}
	return "(" + g.expr(s, t, d) + " as " + t.String() + ")"
}

func (g *dmGen) dictKey(s *dmScope, dv *dmVr) string {
	if len(dv.keys) > 0 && g.chance(3, 4) {
		return dmPick(g, dv.keys)
	}
	return g.keyLit(dv.t.key, g.r.Intn(4))
}

// indexInto: a[i] / d[k]! / (d[k] ?? e) of type <: t.
func (g *dmGen) indexInto(s *dmScope, t *dmTy, d int) string {
	as := s.find(func(v *dmVr) bool {
		return (v.t.k == dmKArr || v.t.k == dmKCArr) && !v.t.isRes() && dmSub(v.t.elem, t)
	})
	ds := s.find(func(v *dmVr) bool {
		return v.t.k == dmKDict && !v.t.isRes() && dmSub(v.t.elem, t) && v.t.elem.k != dmKOpt
	})
	if len(as) > 0 && (len(ds) == 0 || g.chance(1, 2)) {
		a := dmPick(g, as)
		g.feat("array-index")
		n := a.minLen
		if a.t.k == dmKCArr {
			n = a.t.n
		}
		if n > 0 {
			return fmt.Sprintf("%s[%d]", a.name, g.r.Intn(n))
		}
		if g.chance(1, 5) {
			return a.name + "[0]"
		}
		return fmt.Sprintf("(%s.length > 0 ? %s[%s.length - 1] : %s)", a.name, a.name, a.name, g.expr(s, t, d-1))
	}
	if len(ds) > 0 {
		dv := dmPick(g, ds)
		g.feat("dict-lookup")
		k := g.dictKey(s, dv)
		if len(dv.keys) > 0 && !dv.mut && g.chance(1, 2) {
			return dv.name + "[" + dmPick(g, dv.keys) + "]!"
		}
		if !dv.t.elem.eq(t) {
			return "(" + dv.name + "[" + k + "] ?? (" + g.expr(s, dv.t.elem, d-1) + " as " + dv.t.elem.String() + "))"
		}
		return "(" + dv.name + "[" + k + "] ?? " + g.rhs(s, t, d-1) + ")"
	}
	return ""
}

// fieldOf: v.f of type <: t for a struct-typed (or reference-to-struct) variable.
func (g *dmGen) fieldOf(s *dmScope, t *dmTy) string {
	type cand struct{ e string }
	var cs []cand
	for _, v := range s.all() {
		c := dmCompOf(v.t)
		if c == nil || (v.t.isRes() && !v.live) {
			continue
		}
		viaRef := v.t.k == dmKRef
		for _, f := range c.fields {
			if f.access != "all" || f.t.isRes() {
				continue
			}
			if viaRef && !(f.t.k == dmKInt || f.t.k == dmKBool || f.t.k == dmKString || f.t.k == dmKEnum) {
				continue
			}
			if dmSub(f.t, t) {
				cs = append(cs, cand{v.name + "." + f.name})
			}
		}
	}
	if len(cs) == 0 {
		return ""
	}
	g.feat("field-access")
	return dmPick(g, cs).e
}

func dmCompOf(t *dmTy) *dmComp {
	switch t.k {
	case dmKStruct, dmKRes:
		return t.comp
	case dmKRef:
		if t.elem.k == dmKStruct || t.elem.k == dmKRes {
			return t.elem.comp
		}
	}
	return nil
}

// callReturning: a call of a global function or a method whose result is <: t.
func (g *dmGen) callReturning(s *dmScope, t *dmTy, d int) string {
	return g.callReturningX(s, t, d, false)
}

// callReturningX: with exact, the declared result type must be exactly t.
func (g *dmGen) callReturningX(s *dmScope, t *dmTy, d int, exact bool) string {
	type cand struct {
		recv string
		f    *dmFnDecl
	}
	var cs []cand
	if !s.ctx.view {
		for _, f := range g.funcs {
			if f.ret != nil && !f.ret.isRes() && dmSub(f.ret, t) && g.argsOK(f) && (!exact || f.ret.eq(t)) {
				cs = append(cs, cand{"", f})
			}
		}
	}
	for _, v := range s.all() {
		if v.field && s.ctx.view {
			continue
		}
		var ms []*dmFnDecl
		switch v.t.k {
		case dmKStruct, dmKRes:
			if v.t.isRes() && !v.live {
				continue
			}
			ms = v.t.comp.allMethods()
		case dmKIface:
			if v.t.isRes() && !v.live {
				continue
			}
			ms = v.t.iface.allMethods()
		case dmKRef:
			if c := dmCompOf(v.t); c != nil {
				for _, m := range c.allMethods() {
					if m.access == "" || strings.Contains(v.t.auth, m.access) {
						ms = append(ms, m)
					}
				}
			} else if v.t.elem.k == dmKIface {
				for _, m := range v.t.elem.iface.allMethods() {
					if m.access == "" {
						ms = append(ms, m)
					}
				}
			}
		}
		for _, m := range ms {
			if m.ret == nil || m.ret.isRes() || !dmSub(m.ret, t) || !g.argsOK(m) || (exact && !m.ret.eq(t)) {
				continue
			}
			if s.ctx.view && !m.view {
				continue
			}
			if m.mutating && !v.mut && v.t.k == dmKStruct && !v.field {
				// calling a mutating method on a `let` struct is allowed; keep it
			}
			cs = append(cs, cand{v.name, m})
		}
	}
	if len(cs) == 0 {
		return ""
	}
	c := cs[g.r.Intn(len(cs))]
	g.feat("call")
	return g.call(s, c.recv, c.f, d)
}

func (g *dmGen) argsOK(f *dmFnDecl) bool {
	for _, p := range f.params {
		if p.t.isRes() {
			return false
		}
	}
	return true
}

func (g *dmGen) call(s *dmScope, recv string, f *dmFnDecl, d int) string {
	var args []string
	for _, p := range f.params {
		a := g.expr(s, p.t, d-1)
		switch p.label {
		case "_":
			args = append(args, a)
		case "":
			args = append(args, p.name+": "+a)
		default:
			args = append(args, p.label+": "+a)
		}
	}
	name := f.q.name(f.name)
	if recv != "" {
		name = recv + "." + f.name
	}
	return name + "(" + strings.Join(args, ", ") + ")"
}

// kindExpr: type-specific expression forms.
func (g *dmGen) kindExpr(s *dmScope, t *dmTy, d int) string {
	switch t.k {
	case dmKInt:
		return g.intExpr(s, t, d)
	case dmKBool:
		return g.boolKind(s, d)
	case dmKString:
		return g.stringExpr(s, d)
	case dmKOpt:
		return g.optExpr(s, t, d)
	case dmKArr:
		return g.arrExpr(s, t, d)
	case dmKAnyStruct:
		u := g.valueType(1)
		if u.k == dmKFun || u.k == dmKAnyStruct {
			u = dmTInt
		}
		return g.expr(s, u, d-1)
	}
	return g.lit(s, t, d)
}

func (g *dmGen) intExpr(s *dmScope, t *dmTy, d int) string {
	a, b := g.atom(s, t), g.atom(s, t)
	roll := g.r.Intn(24)
	if t.name == "Int" {
		switch roll {
		case 0:
			if vs := s.find(func(v *dmVr) bool {
				return (v.t.k == dmKArr || v.t.k == dmKString || v.t.k == dmKDict || v.t.k == dmKCArr) && (!v.t.isRes() || v.live)
			}); len(vs) > 0 {
				g.feat("length")
				return dmPick(g, vs).name + ".length"
			}
		case 1:
			if vs := s.find(func(v *dmVr) bool { return v.t.k == dmKInt && !v.t.isFix() && v.t.name != "Int" }); len(vs) > 0 {
				g.feat("number-conversion")
				return "Int(" + dmPick(g, vs).name + ")"
			}
		case 2:
			if vs := s.varsKind(dmKRange); len(vs) > 0 {
				g.feat("inclusive-range")
				return dmPick(g, vs).name + "." + dmPick(g, []string{"start", "end", "step"})
			}
		case 3:
			g.feat("string-functions")
			return "(Int.fromString(" + g.expr(s, dmTString, d-1) + ") ?? " + dmItoa(g.smallInt()) + ")"
		case 4:
			if vs := s.find(func(v *dmVr) bool { return v.t.k == dmKArr && v.t.elem.eq(dmTInt) }); len(vs) > 0 {
				g.feat("array-functions")
				return "(" + dmPick(g, vs).name + ".firstIndex(of: " + a + ") ?? -1)"
			}
		}
	} else if roll == 0 && !t.isFix() {
		// checked conversion from Int (may overflow: user error)
		g.feat("number-conversion")
		if t.isSigned() || g.chance(1, 6) {
			return t.name + "(" + g.atom(s, dmTInt) + ")"
		}
		return t.name + "(" + dmItoa(g.r.Intn(100)) + ")"
	} else if roll == 1 && len(g.enums) > 0 && t.name == "UInt8" {
		if vs := s.varsKind(dmKEnum); len(vs) > 0 {
			g.feat("enum")
			return dmPick(g, vs).name + ".rawValue"
		}
	}
	g.feat("arithmetic")
	switch roll % 12 {
	case 0, 1, 2:
		return "(" + a + " + " + b + ")"
	case 3:
		if t.isSigned() || t.isWord() {
			return "(" + a + " - " + b + ")"
		}
		if !t.isFix() && t.name != "UInt" {
			return a + ".saturatingSubtract(" + b + ")"
		}
		return "(" + a + " + " + b + ")"
	case 4:
		return "(" + a + " * " + g.numLit(t, false) + ")"
	case 5:
		if g.chance(1, 8) {
			return "(" + a + " / " + b + ")"
		}
		return "(" + a + " / " + t.name + "(" + dmItoa(1+g.r.Intn(5)) + "))"
	case 6:
		if g.chance(1, 8) {
			return "(" + a + " % " + b + ")"
		}
		return "(" + a + " % " + t.name + "(" + dmItoa(1+g.r.Intn(5)) + "))"
	case 7:
		if !t.isFix() {
			return "(" + a + " " + dmPick(g, []string{"&", "|", "^"}) + " " + b + ")"
		}
	case 8:
		if !t.isFix() {
			return "(" + a + " " + dmPick(g, []string{"<<", ">>"}) + " " + t.name + "(" + dmItoa(g.r.Intn(4)) + "))"
		}
	case 9:
		if t.isSigned() {
			return "(-" + a + ")"
		}
	case 10:
		if !t.isFix() && !t.isWord() && t.name != "Int" && t.name != "UInt" {
			return a + "." + dmPick(g, []string{"saturatingAdd", "saturatingMultiply"}) + "(" + b + ")"
		}
	}
	return "(" + a + " + " + g.expr(s, t, d-1) + ")"
}

func dmEquatable(t *dmTy) bool {
	switch t.k {
	case dmKInt, dmKBool, dmKString, dmKAddress, dmKEnum, dmKChar:
		return true
	case dmKOpt:
		return dmEquatable(t.elem)
	case dmKArr:
		return dmEquatable(t.elem)
	}
	return false
}

func (g *dmGen) boolKind(s *dmScope, d int) string {
	switch g.r.Intn(15) {
	case 0, 1, 2:
		t := dmPick(g, dmNumTypes)
		if vs := s.varsKind(dmKInt); len(vs) > 0 && g.chance(3, 4) {
			t = dmPick(g, vs).t
		}
		g.feat("comparison")
		return "(" + g.atom(s, t) + " " + dmPick(g, []string{"<", "<=", ">", ">=", "==", "!="}) + " " + g.atom(s, t) + ")"
	case 3:
		if vs := s.find(func(v *dmVr) bool { return dmEquatable(v.t) && !v.t.isRes() }); len(vs) > 0 {
			v := dmPick(g, vs)
			g.feat("equality")
			return "(" + v.name + " " + dmPick(g, []string{"==", "!="}) + " " + g.expr(s, v.t, d-1) + ")"
		}
	case 4:
		return "!" + g.atom(s, dmTBool)
	case 5:
		return "(" + g.boolExpr(s, d-1) + " && " + g.boolExpr(s, d-1) + ")"
	case 6:
		return "(" + g.boolExpr(s, d-1) + " || " + g.boolExpr(s, d-1) + ")"
	case 7:
		if vs := s.find(func(v *dmVr) bool {
			return v.t.k == dmKArr && dmEquatable(v.t.elem) && v.t.elem.k != dmKArr && !v.t.isRes()
		}); len(vs) > 0 {
			v := dmPick(g, vs)
			g.feat("array-functions")
			return v.name + ".contains(" + g.expr(s, v.t.elem, d-1) + ")"
		}
	case 8:
		if vs := s.find(func(v *dmVr) bool { return v.t.k == dmKDict && (!v.t.isRes() || v.live) }); len(vs) > 0 {
			v := dmPick(g, vs)
			g.feat("dict-functions")
			return v.name + ".containsKey(" + g.dictKey(s, v) + ")"
		}
	case 9:
		if vs := s.find(func(v *dmVr) bool { return v.t.k == dmKOpt && (!v.t.isRes() || v.live) && !v.field }); len(vs) > 0 {
			g.feat("nil-comparison")
			return "(" + dmPick(g, vs).name + " " + dmPick(g, []string{"==", "!="}) + " nil)"
		}
	case 10:
		if vs := s.find(func(v *dmVr) bool { return (v.t.k == dmKAnyStruct || v.t.k == dmKIface) && !v.t.isRes() }); len(vs) > 0 {
			v := dmPick(g, vs)
			u := g.primType()
			if v.dyn != nil && g.chance(1, 2) {
				u = v.dyn
			}
			if u.k != dmKFun {
				g.feat("is-type")
				if g.chance(1, 2) {
					return v.name + ".isInstance(Type<" + u.String() + ">())"
				}
				return "(" + v.name + ".getType() == Type<" + u.String() + ">())"
			}
		}
	case 11:
		if vs := s.varsKind(dmKRange); len(vs) > 0 {
			g.feat("inclusive-range")
			return dmPick(g, vs).name + ".contains(" + g.expr(s, dmTInt, d-1) + ")"
		}
	case 12:
		g.feat("string-functions")
		return g.atom(s, dmTString) + ".contains(" + g.strLit() + ")"
	case 13:
		// run-time types
		t := g.valueType(1)
		u := g.valueType(1)
		if t.k == dmKFun || u.k == dmKFun {
			break
		}
		g.feat("metatype")
		switch g.r.Intn(4) {
		case 0:
			return "(Type<" + t.String() + ">() == Type<" + u.String() + ">())"
		case 1:
			return "Type<" + t.String() + ">().isSubtype(of: Type<" + u.String() + ">())"
		case 2:
			return "(OptionalType(Type<" + t.String() + ">()) == Type<" + t.String() + "?>())"
		default:
			return "(" + g.exact(s, t, d-1) + ").isInstance(Type<" + u.String() + ">())"
		}
	}
	return dmPick(g, []string{"true", "false", "true"})
}

func (g *dmGen) stringExpr(s *dmScope, d int) string {
	switch g.r.Intn(12) {
	case 0, 1:
		g.feat("string-functions")
		return g.atom(s, dmTString) + ".concat(" + g.expr(s, dmTString, d-1) + ")"
	case 2, 3:
		// string template
		var parts []string
		n := 1 + g.r.Intn(2)
		for i := 0; i < n; i++ {
			vs := s.find(func(v *dmVr) bool {
				return (v.t.k == dmKInt || v.t.k == dmKString || v.t.k == dmKBool || v.t.k == dmKAddress) && !v.field
			})
			if len(vs) > 0 {
				parts = append(parts, dmPick(g, []string{"", "a", " x="})+`\(`+dmPick(g, vs).name+`)`)
			} else {
				parts = append(parts, `\(`+dmItoa(g.r.Intn(9))+`)`)
			}
		}
		g.feat("string-template")
		return `"` + strings.Join(parts, dmPick(g, []string{"", "-", " "})) + dmPick(g, []string{"", "z"}) + `"`
	case 4:
		if vs := s.varsKind(dmKInt); len(vs) > 0 {
			g.feat("string-functions")
			return dmPick(g, vs).name + ".toString()"
		}
	case 5:
		g.feat("string-functions")
		return g.atom(s, dmTString) + "." + dmPick(g, []string{"toLower()", "utf8.length.toString()", `replaceAll(of: "a", with: "b")`})
	case 6:
		if vs := s.find(func(v *dmVr) bool { return v.t.k == dmKArr && v.t.elem.eq(dmTString) }); len(vs) > 0 {
			g.feat("string-functions")
			return "String.join(" + dmPick(g, vs).name + `, separator: ",")`
		}
	case 7:
		g.feat("string-functions")
		return `"hello".slice(from: ` + dmItoa(g.r.Intn(3)) + ", upTo: " + dmItoa(3+g.r.Intn(3)) + ")"
	case 8:
		if vs := s.find(func(v *dmVr) bool { return v.t.k == dmKArr && v.t.elem.eq(dmTUInt8) }); len(vs) > 0 {
			g.feat("string-functions")
			return "String.encodeHex(" + dmPick(g, vs).name + ")"
		}
	}
	return g.strLit()
}

func (g *dmGen) optExpr(s *dmScope, t *dmTy, d int) string {
	e := t.elem
	switch g.r.Intn(16) {
	case 0, 1:
		return "nil"
	case 2:
		if g.rareKnown && g.chance(1, 2) {
			return "(" + g.boolExpr(s, d-1) + " ? " + g.expr(s, e, d-1) + " : nil)"
		}
		g.feat("conditional-expr")
		return "(" + g.boolExpr(s, d-1) + " ? " + g.optOperand(s, t, d-1) + " : nil)"
	case 3, 4:
		// failable cast
		if e.k == dmKFun && g.chance(1, 2) {
			// dynamic function subtyping
			g.feat("function-cast")
			u := e
			if g.chance(1, 2) {
				u = dmFun(g.primType(), g.primType())
			}
			return "((" + g.closure(s, u, 1) + " as AnyStruct) as? " + e.String() + ")"
		}
		if e.k != dmKFun && e.k != dmKAnyStruct {
			g.feat("failable-cast")
			vs := s.find(func(v *dmVr) bool { return (v.t.k == dmKAnyStruct || v.t.k == dmKIface) && !v.t.isRes() })
			if len(vs) > 0 && g.chance(2, 3) {
				return "(" + dmPick(g, vs).name + " as? " + e.String() + ")"
			}
			u := e
			if g.chance(1, 3) {
				u = g.primType()
			}
			return "((" + g.exact(s, u, d-1) + " as AnyStruct) as? " + e.String() + ")"
		}
	case 5, 6:
		// optional chaining on an optional struct / reference / string / array
		if x := g.optChain(s, t, d); x != "" {
			return x
		}
	case 7:
		ds := s.find(func(v *dmVr) bool {
			return v.t.k == dmKDict && !v.t.isRes() && dmSub(v.t.elem, e) && v.t.elem.k != dmKOpt
		})
		if len(ds) > 0 {
			dv := dmPick(g, ds)
			g.feat("dict-lookup")
			return dv.name + "[" + g.dictKey(s, dv) + "]"
		}
	case 8:
		if e.eq(dmTInt) {
			if vs := s.find(func(v *dmVr) bool {
				return v.t.k == dmKArr && dmEquatable(v.t.elem) && v.t.elem.k != dmKArr && !v.t.isRes()
			}); len(vs) > 0 {
				v := dmPick(g, vs)
				g.feat("array-functions")
				return v.name + ".firstIndex(of: " + g.expr(s, v.t.elem, d-1) + ")"
			}
			g.feat("string-functions")
			return "Int.fromString(" + g.expr(s, dmTString, d-1) + ")"
		}
	case 9:
		// optional map
		ovs := s.find(func(v *dmVr) bool {
			return v.t.k == dmKOpt && !v.t.isRes() && v.t.elem.k != dmKOpt && v.t.elem.k != dmKRef && !v.field
		})
		if len(ovs) > 0 && e.k != dmKOpt && !s.ctx.view {
			v := dmPick(g, ovs)
			g.feat("optional-map")
			return v.name + ".map(" + g.closure(s, dmFun(e, v.t.elem), d-1) + ")"
		}
	case 10:
		if e.k == dmKEnum {
			g.feat("enum")
			return e.String() + "(rawValue: " + dmItoa(g.r.Intn(4)) + ")"
		}
	}
	return g.expr(s, e, d-1)
}

// optChain: `o?.f`, `o?.m(...)`, `(x as? S)?.f` of type <: t (t optional).
func (g *dmGen) optChain(s *dmScope, t *dmTy, d int) string {
	type cand struct{ e string }
	var cs []cand
	flat := func(ft *dmTy) *dmTy {
		if ft.k == dmKOpt {
			return ft
		}
		return dmOpt(ft)
	}
	for _, v := range s.all() {
		if v.t.k != dmKOpt || v.field {
			continue
		}
		inner := v.t.elem
		if inner.isRes() && !v.live {
			continue
		}
		c := dmCompOf(inner)
		if c != nil {
			for _, f := range c.fields {
				if f.access == "all" && !f.t.isRes() && dmSub(flat(f.t), t) {
					if inner.k == dmKRef && !(f.t.k == dmKInt || f.t.k == dmKBool || f.t.k == dmKString) {
						continue
					}
					cs = append(cs, cand{v.name + "?." + f.name})
				}
			}
			for _, m := range c.allMethods() {
				if m.ret != nil && !m.ret.isRes() && dmSub(dmOpt(m.ret), t) && g.argsOK(m) && (m.access == "" || inner.k != dmKRef) && (!s.ctx.view || m.view) {
					cs = append(cs, cand{g.call(s, v.name+"?", m, d)})
				}
			}
		}
		if inner.k == dmKString && dmSub(dmOpt(dmTInt), t) {
			cs = append(cs, cand{v.name + "?.length"})
		}
		if inner.k == dmKArr && !inner.isRes() && dmSub(dmOpt(dmTInt), t) {
			cs = append(cs, cand{v.name + "?.length"})
		}
		if inner.k == dmKString && dmSub(dmOpt(dmTString), t) {
			cs = append(cs, cand{v.name + "?.toLower()"})
		}
	}
	// failable cast followed by optional chaining
	for _, v := range s.all() {
		if v.dyn != nil && v.dyn.k == dmKStruct && !v.t.isRes() {
			for _, f := range v.dyn.comp.fields {
				if f.access == "all" && !f.t.isRes() && dmSub(flat(f.t), t) {
					cs = append(cs, cand{"(" + v.name + " as? " + v.dyn.String() + ")?." + f.name})
				}
			}
		}
	}
	if len(cs) == 0 {
		return ""
	}
	g.feat("optional-chaining")
	return dmPick(g, cs).e
}

func (g *dmGen) arrExpr(s *dmScope, t *dmTy, d int) string {
	e := t.elem
	src := s.find(func(v *dmVr) bool { return v.t.k == dmKArr && !v.t.isRes() && dmSub(v.t, t) })
	switch g.r.Intn(14) {
	case 0, 1:
		if len(src) > 0 {
			g.feat("array-functions")
			return dmPick(g, src).name + ".concat(" + g.expr(s, dmPick(g, src).t, d-1) + ")"
		}
	case 2:
		if len(src) > 0 {
			g.feat("array-functions")
			return dmPick(g, src).name + ".reverse()"
		}
	case 3:
		if len(src) > 0 {
			v := dmPick(g, src)
			g.feat("array-functions")
			if v.minLen >= 1 {
				return fmt.Sprintf("%s.slice(from: 0, upTo: %d)", v.name, 1+g.r.Intn(v.minLen))
			}
			return v.name + ".slice(from: 0, upTo: " + v.name + ".length)"
		}
	case 4, 5:
		// map from any array of primitives
		as := s.find(func(v *dmVr) bool {
			return v.t.k == dmKArr && !v.t.isRes() && v.t.elem.k != dmKFun && v.t.elem.k != dmKRef
		})
		if len(as) > 0 && !s.ctx.view {
			v := dmPick(g, as)
			g.feat("array-map")
			return v.name + ".map(" + g.closure(s, dmFun(e, v.t.elem), d-1) + ")"
		}
	case 6:
		if len(src) > 0 {
			v := dmPick(g, src)
			if v.t.elem.k != dmKFun && v.t.elem.k != dmKRef {
				g.feat("array-filter")
				return v.name + ".filter(" + g.viewPredicate(s, v.t.elem, d-1) + ")"
			}
		}
	case 7:
		ds := s.find(func(v *dmVr) bool {
			return v.t.k == dmKDict && (dmSub(dmArr(v.t.key), t) || (dmSub(dmArr(v.t.elem), t) && !v.t.isRes())) && (!v.t.isRes() || v.live)
		})
		if len(ds) > 0 {
			v := dmPick(g, ds)
			g.feat("dict-functions")
			if dmSub(dmArr(v.t.key), t) {
				return v.name + ".keys"
			}
			return v.name + ".values"
		}
	case 8:
		cs := s.find(func(v *dmVr) bool { return v.t.k == dmKCArr && dmSub(dmArr(v.t.elem), t) })
		if len(cs) > 0 {
			g.feat("const-array")
			return dmPick(g, cs).name + ".toVariableSized()"
		}
	case 9:
		if e.eq(dmTUInt8) {
			g.feat("string-functions")
			return g.atom(s, dmTString) + ".utf8"
		}
		if e.eq(dmTString) {
			g.feat("string-functions")
			return g.atom(s, dmTString) + `.split(separator: " ")`
		}
	}
	return g.lit(s, t, d)
}

// viewPredicate: `view fun (x: T): Bool { return ... }`
func (g *dmGen) viewPredicate(s *dmScope, e *dmTy, d int) string {
	x := g.fresh("p")
	body := "true"
	switch e.k {
	case dmKInt:
		body = "x " + dmPick(g, []string{">", "<", "!=", ">="}) + " " + g.numLit(e, false)
	case dmKString:
		body = "x.length " + dmPick(g, []string{">", "<"}) + " " + dmItoa(g.r.Intn(4))
	case dmKBool:
		body = "x"
	case dmKOpt:
		body = "x != nil"
	}
	body = strings.ReplaceAll(body, "x", x)
	return "view fun (" + x + ": " + e.String() + "): Bool { return " + body + " }"
}

// closure: a function expression of type t capturing the enclosing scope.
func (g *dmGen) closure(s *dmScope, t *dmTy, d int) string {
	g.feat("closure")
	cs := &dmScope{parent: s, ctx: &dmFctx{ret: t.ret, contract: s.ctx.contract}, depth: s.depth + 1}
	var ps []string
	for _, p := range t.params {
		n := g.fresh("a")
		cs.add(&dmVr{name: n, t: p, live: true})
		ps = append(ps, n+": "+p.anno())
	}
	b := &dmBlk{ind: 0}
	// capture: sometimes mutate an outer variable
	if g.chance(1, 3) && d > 0 && !s.ctx.view {
		if mv := s.find(func(v *dmVr) bool {
			return v.mut && !v.field && (v.t.k == dmKInt || v.t.k == dmKString || v.t.k == dmKBool)
		}); len(mv) > 0 {
			v := dmPick(g, mv)
			b.add("%s = %s", v.name, g.expr(cs, v.t, 1))
			g.feat("closure-captures-var")
		}
	}
	if d > 1 && g.chance(1, 3) {
		g.stmts(b, cs, 1, d-1)
	}
	if t.ret.k == dmKVoid {
		if len(b.lines) == 0 {
			return "fun (" + strings.Join(ps, ", ") + ") { }"
		}
		return "fun (" + strings.Join(ps, ", ") + ") { " + strings.Join(b.lines, "; ") + " }"
	}
	ret := g.expr(cs, t.ret, dmImin(d-1, 2))
	if len(b.lines) == 0 {
		return "fun (" + strings.Join(ps, ", ") + "): " + t.ret.anno() + " { return " + ret + " }"
	}
	for _, l := range b.lines {
		if strings.Contains(l, "{") || strings.Contains(l, "}") {
			// multi-line body
			return "fun (" + strings.Join(ps, ", ") + "): " + t.ret.anno() + " {\n" + strings.Join(b.lines, "\n") + "\nreturn " + ret + "\n}"
		}
	}
	return "fun (" + strings.Join(ps, ", ") + "): " + t.ret.anno() + " { " + strings.Join(b.lines, "; ") + "; return " + ret + " }"
}

// refExpr: an expression of reference type t.
func (g *dmGen) refExpr(s *dmScope, t *dmTy, d int) string {
	g.feat("reference")
	// referenced variables: exact type or subtype for interface / Any targets
	vs := s.find(func(v *dmVr) bool {
		if v.t.k == dmKRef || v.t.k == dmKOpt || v.field {
			return false
		}
		if v.t.isRes() && !v.live {
			return false
		}
		if t.elem.isRes() != v.t.isRes() {
			return false
		}
		return v.t.eq(t.elem) || ((t.elem.k == dmKIface || t.elem.k == dmKAnyStruct) && dmSub(v.t, t.elem))
	})
	if len(vs) > 0 {
		return "&" + dmPick(g, vs).name + " as " + t.String()
	}
	if t.elem.isRes() {
		panic("refExpr: no live resource of type " + t.elem.String())
	}
	// no variable: reference to a fresh value is not possible; declare nothing, use an array element
	return "&([" + g.expr(s, t.elem, d-1) + "] as [" + t.elem.String() + "])[0] as " + t.String()
}

func dmImin(a, b int) int {
	if a < b {
		return a
	}
	return b
}
