package main

// Resources: declarations (leaf / container resources, resource interfaces, attachments), linear
// resource phases (moves, swaps, second-value assignments, optional resources, casts, references,
// attachments, destruction) and the entitlement family.

import (
	"fmt"
	"strings"
)

// resInfo describes the generated resource declarations of a program.
type dmResInfo struct {
	leaf    *dmComp // R: var n: Int
	riface  *dmIface
	cont    *dmComp // Q
	att     *dmAttachment
	mk      string // name of the factory function (qualified)
	mkQ     string // factory of the container
	pass    string // pass-through function
	hasArr  bool
	hasDict bool
	hasOpt  bool
	hasOne  bool
	known   bool // container has the methods with the known swap defect shape
	dictKey *dmTy
}

func (g *dmGen) leafT() *dmTy { return g.res.leaf.t }

// fq: name of a top-level declaration as seen from the code being generated.
func (g *dmGen) fq(n string) string { return g.qc.name(n) }

// genResourceDecls declares the resource types of the program.
func (g *dmGen) genResourceDecls() {
	ri := &dmResInfo{}
	g.res = ri
	// optional resource interface
	if g.chance(1, 2) {
		name := g.fresh("RI")
		i := &dmIface{name: name, isRes: true, q: g.qc}
		get := &dmFnDecl{name: "get", ret: dmTInt, view: true}
		twice := &dmFnDecl{name: "twice", ret: dmTInt}
		i.methods = []*dmFnDecl{get, twice}
		b := &dmBlk{}
		b.open("access(all) resource interface %s {", name)
		b.open("access(all) view fun get(): Int {")
		b.open("post {")
		b.add("result > -100000: \"get\"")
		b.close()
		b.close()
		b.open("access(all) fun twice(): Int {")
		b.add("return self.get() * 2")
		b.close()
		b.close()
		g.addDecl(b)
		g.rifaces = append(g.rifaces, i)
		ri.riface = i
		g.feat("resource-interface")
	}
	// leaf
	{
		name := g.fresh("R")
		c := &dmComp{name: name, isRes: true}
		c.t = &dmTy{k: dmKRes, name: name, comp: c, q: g.qc}
		c.fields = []dmField{{name: "n", t: dmTInt, mut: true, access: "all"}}
		hdr := "access(all) resource " + name
		if ri.riface != nil {
			hdr += ": " + ri.riface.ref()
			c.conf = append(c.conf, ri.riface)
		}
		b := &dmBlk{}
		b.open(hdr + " {")
		if g.chance(1, 3) {
			b.add("access(all) event ResourceDestroyed(n: Int = self.n)")
			g.feat("default-destroy-event")
		}
		b.add("access(all) var n: Int")
		if g.chance(1, 3) {
			c.fields = append(c.fields, dmField{name: "tag", t: dmOpt(dmTString), mut: false, access: "all"})
			b.add("access(all) let tag: String?")
			b.open("init(_ n: Int) {")
			b.add("self.n = n")
			b.add("self.tag = n > 2 ? \"big\" : nil")
			b.close()
		} else {
			b.open("init(_ n: Int) {")
			b.add("self.n = n")
			b.close()
		}
		b.open("access(all) view fun get(): Int {")
		b.add("return self.n")
		b.close()
		b.open("access(all) fun bump() {")
		b.add("self.n = self.n + 1")
		b.close()
		b.close()
		c.methods = []*dmFnDecl{{name: "get", ret: dmTInt, view: true}, {name: "bump", mutating: true}}
		g.addDecl(b)
		g.resources = append(g.resources, c)
		ri.leaf = c
		g.feat("resource")
	}
	R := ri.leaf.t.String()
	// container
	{
		name := g.fresh("Q")
		c := &dmComp{name: name, isRes: true}
		c.t = &dmTy{k: dmKRes, name: name, comp: c, q: g.qc}
		ri.hasArr = g.chance(4, 5)
		ri.hasDict = g.chance(1, 2)
		ri.hasOpt = g.chance(1, 2)
		ri.hasOne = g.chance(1, 2)
		if !ri.hasArr && !ri.hasDict && !ri.hasOpt && !ri.hasOne {
			ri.hasArr = true
		}
		ri.dictKey = dmPick(g, []*dmTy{dmTString, dmTInt})
		ri.known = g.rareKnown
		b := &dmBlk{}
		b.open("access(all) resource %s {", name)
		var inits []string
		if ri.hasArr {
			b.add("access(all) var arr: @[%s]", R)
			c.fields = append(c.fields, dmField{name: "arr", t: dmArr(ri.leaf.t), mut: true, access: "all"})
			inits = append(inits, "self.arr <- []")
		}
		if ri.hasDict {
			b.add("access(all) var dict: @{%s: %s}", ri.dictKey.String(), R)
			c.fields = append(c.fields, dmField{name: "dict", t: dmDict(ri.dictKey, ri.leaf.t), mut: true, access: "all"})
			inits = append(inits, "self.dict <- {}")
		}
		if ri.hasOpt {
			b.add("access(all) var opt: @%s?", R)
			c.fields = append(c.fields, dmField{name: "opt", t: dmOpt(ri.leaf.t), mut: true, access: "all"})
			inits = append(inits, "self.opt <- nil")
		}
		if ri.hasOne {
			b.add("access(all) var one: @%s", R)
			c.fields = append(c.fields, dmField{name: "one", t: ri.leaf.t, mut: true, access: "all"})
			inits = append(inits, fmt.Sprintf("self.one <- create %s(%d)", R, g.r.Intn(5)))
		}
		b.add("access(all) var cnt: Int")
		c.fields = append(c.fields, dmField{name: "cnt", t: dmTInt, mut: true, access: "all"})
		b.open("init() {")
		for _, l := range inits {
			b.add(l)
		}
		b.add("self.cnt = 0")
		b.close()
		add := func(m *dmFnDecl, body ...string) {
			b.open(g.sig(m) + " {")
			for _, l := range body {
				b.add(l)
			}
			b.close()
			c.methods = append(c.methods, m)
		}
		rp := func(n string, t *dmTy) dmParam { return dmParam{"_", n, t} }
		if ri.hasArr {
			add(&dmFnDecl{name: "put", params: []dmParam{rp("r", ri.leaf.t)}, mutating: true}, "self.arr.append(<-r)", "self.cnt = self.cnt + 1")
			add(&dmFnDecl{name: "take", ret: ri.leaf.t, mutating: true}, "pre {", "    self.arr.length > 0: \"empty\"", "}", "return <- self.arr.removeFirst()")
			add(&dmFnDecl{name: "borrowAt", params: []dmParam{rp("i", dmTInt)}, ret: dmRef(ri.leaf.t)}, "return &self.arr[i]")
			add(&dmFnDecl{name: "sum", ret: dmTInt},
				"var t = 0", "for r in &self.arr as &["+R+"] {", "    t = t + r.n", "}", "return t")
			if ri.known {
				add(&dmFnDecl{name: "swapIdx", params: []dmParam{rp("i", dmTInt), rp("r", ri.leaf.t)}, ret: ri.leaf.t, mutating: true},
					"var t <- r", "self.arr[i] <-> t", "return <- t")
			}
		}
		if ri.hasDict {
			add(&dmFnDecl{name: "putKey", params: []dmParam{rp("k", ri.dictKey), rp("r", ri.leaf.t)}, ret: dmOpt(ri.leaf.t), mutating: true},
				dmPick(g, []string{"let old <- self.dict[k] <- r", "let old <- self.dict.insert(key: k, <-r)"}), "return <- old")
			add(&dmFnDecl{name: "takeKey", params: []dmParam{rp("k", ri.dictKey)}, ret: dmOpt(ri.leaf.t), mutating: true},
				"return <- self.dict.remove(key: k)")
			if ri.known {
				add(&dmFnDecl{name: "swapKey", params: []dmParam{rp("k", ri.dictKey), rp("r", dmOpt(ri.leaf.t))}, ret: dmOpt(ri.leaf.t), mutating: true},
					"var t <- r", "self.dict[k] <-> t", "return <- t")
			}
		}
		if ri.hasOpt {
			add(&dmFnDecl{name: "setOpt", params: []dmParam{rp("r", dmOpt(ri.leaf.t))}, ret: dmOpt(ri.leaf.t), mutating: true},
				"let old <- self.opt <- r", "return <- old")
			add(&dmFnDecl{name: "optN", ret: dmOpt(dmTInt)}, "return self.opt?.n")
		}
		if ri.hasOne {
			add(&dmFnDecl{name: "swapOne", params: []dmParam{rp("r", ri.leaf.t)}, ret: ri.leaf.t, mutating: true},
				"var t <- r", "self.one <-> t", "return <- t")
			add(&dmFnDecl{name: "borrowOne", ret: dmRef(ri.leaf.t)}, "return &self.one")
		}
		b.close()
		g.addDecl(b)
		g.resources = append(g.resources, c)
		ri.cont = c
		g.feat("nested-resource")
	}
	// attachment
	if g.chance(2, 5) {
		name := g.fresh("A")
		a := &dmAttachment{name: name, base: ri.leaf, q: g.qc}
		b := &dmBlk{}
		b.open("access(all) attachment %s for %s {", name, R)
		b.add("access(all) let k: Int")
		b.open("init(k: Int) {")
		b.add("self.k = k")
		b.close()
		b.open("access(all) fun f(): Int {")
		b.add("return base.n + self.k")
		b.close()
		b.close()
		g.addDecl(b)
		ri.att = a
		g.feat("attachment")
	}
	// factory and pass-through functions
	{
		mk := g.fresh("mk")
		b := &dmBlk{}
		b.open("access(all) fun %s(_ n: Int): @%s {", mk, R)
		b.add("return <- create %s(n)", R)
		b.close()
		g.addDecl(b)
		ri.mk = mk
		mq := g.fresh("mkq")
		b = &dmBlk{}
		b.open("access(all) fun %s(): @%s {", mq, ri.cont.t.String())
		b.add("return <- create %s()", ri.cont.t.String())
		b.close()
		g.addDecl(b)
		ri.mkQ = mq
		ps := g.fresh("pass")
		b = &dmBlk{}
		b.open("access(all) fun %s(_ r: @%s, _ c: Bool): @%s {", ps, R, R)
		b.open("if c {")
		b.add("r.bump()")
		b.close()
		b.add("return <- r")
		b.close()
		g.addDecl(b)
		ri.pass = ps
	}
}

// rs is the state of a resource phase: live resource variables.
type dmRstate struct {
	g     *dmGen
	b     *dmBlk
	s     *dmScope
	leafs []*dmVr // live leaf resources
	conts []*dmVr // live containers
	opts  []*dmVr // live optional leaf resources (vars)
	arrs  []*dmVr // live local @[R]
	dicts []*dmVr // live local @{K: R}
	anys  []*dmVr // live @AnyResource / @{RI} holding a leaf
	acc   string
	// per container: lower bound of arr length, whether opt is known set
	arrLen map[*dmVr]int
	keys   map[*dmVr][]string
}

func (rs *dmRstate) newLeafExpr() string {
	g := rs.g
	if g.chance(1, 2) && !g.outside {
		return fmt.Sprintf("<- create %s(%d)", g.leafT().String(), g.r.Intn(9))
	}
	return fmt.Sprintf("<- %s(%s)", g.fq(g.res.mk), g.expr(rs.s, dmTInt, 1))
}

func (rs *dmRstate) takeLeaf() *dmVr {
	g := rs.g
	if len(rs.leafs) == 0 || g.chance(1, 4) {
		rs.mkLeaf()
	}
	i := g.r.Intn(len(rs.leafs))
	v := rs.leafs[i]
	rs.leafs = append(rs.leafs[:i], rs.leafs[i+1:]...)
	v.live = false
	return v
}

func (rs *dmRstate) mkLeaf() *dmVr {
	g := rs.g
	n := g.fresh("r")
	kw := dmPick(g, []string{"let", "var"})
	if g.chance(1, 4) {
		rs.b.add("%s %s: @%s %s", kw, n, g.leafT().String(), rs.newLeafExpr())
	} else {
		rs.b.add("%s %s %s", kw, n, rs.newLeafExpr())
	}
	v := &dmVr{name: n, t: g.leafT(), mut: kw == "var", live: true}
	rs.s.add(v)
	rs.leafs = append(rs.leafs, v)
	return v
}

func (rs *dmRstate) addLeaf(name string, mut bool) *dmVr {
	v := &dmVr{name: name, t: rs.g.leafT(), mut: mut, live: true}
	rs.s.add(v)
	rs.leafs = append(rs.leafs, v)
	return v
}

func (rs *dmRstate) cont() *dmVr {
	g := rs.g
	if len(rs.conts) == 0 || g.chance(1, 8) {
		n := g.fresh("q")
		if g.outside || g.chance(1, 3) {
			rs.b.add("let %s <- %s()", n, g.fq(g.res.mkQ))
		} else {
			rs.b.add("let %s <- create %s()", n, g.res.cont.t.String())
		}
		v := &dmVr{name: n, t: g.res.cont.t, live: true}
		rs.s.add(v)
		rs.conts = append(rs.conts, v)
	}
	return dmPick(g, rs.conts)
}

func (rs *dmRstate) key() string {
	return rs.g.keyLit(rs.g.res.dictKey, rs.g.r.Intn(3))
}

// consumeOpt emits code that consumes an optional resource expression held in variable o.
func (rs *dmRstate) consumeOpt(o string) {
	g := rs.g
	switch g.r.Intn(3) {
	case 0:
		rs.b.add("destroy %s", o)
	case 1:
		z := g.fresh("z")
		rs.b.open("if let %s <- %s {", z, o)
		rs.b.add("%s = %s + %s.n", rs.acc, rs.acc, z)
		rs.b.add("destroy %s", z)
		rs.b.close()
		g.feat("if-let-resource")
	default:
		z := g.fresh("z")
		rs.b.open("if let %s <- %s {", z, o)
		rs.b.add("destroy %s", z)
		rs.b.closeOpen("} else {")
		rs.b.add("%s = %s + 1", rs.acc, rs.acc)
		rs.b.close()
		g.feat("if-let-resource")
	}
}

// resPhase emits a straight-line phase of resource operations; every resource created in the
// phase is destroyed (or stored in a container that is destroyed) at its end.
func (g *dmGen) resPhase(b *dmBlk, s *dmScope) {
	ri := g.res
	acc := g.fresh("acc")
	b.add("var %s = 0", acc)
	s.add(&dmVr{name: acc, t: dmTInt, live: true})
	rs := &dmRstate{g: g, b: b, s: s, acc: acc, arrLen: map[*dmVr]int{}, keys: map[*dmVr][]string{}}
	saveNoRet := s.ctx.noReturn
	s.ctx.noReturn = true
	n := 3 + g.r.Intn(8)
	for i := 0; i < n; i++ {
		rs.op()
	}
	// epilogue: destroy everything still alive
	for _, v := range rs.leafs {
		switch g.r.Intn(4) {
		case 0:
			if ri.hasArr && len(rs.conts) > 0 {
				b.add("%s.put(<-%s)", rs.conts[0].name, v.name)
			} else {
				b.add("destroy %s", v.name)
			}
		default:
			b.add("destroy %s", v.name)
		}
		v.live = false
	}
	for _, group := range [][]*dmVr{rs.opts, rs.arrs, rs.dicts, rs.anys, rs.conts} {
		for _, v := range group {
			b.add("destroy %s", v.name)
			v.live = false
		}
	}
	g.feat("destroy")
	s.ctx.noReturn = saveNoRet
}

func (rs *dmRstate) op() {
	g, b, ri := rs.g, rs.b, rs.g.res
	R := g.leafT().String()
	roll := g.r.Intn(100)
	switch {
	case roll < 8:
		rs.mkLeaf()
	case roll < 12:
		// move to a new variable
		v := rs.takeLeaf()
		n := g.fresh("r")
		kw := dmPick(g, []string{"let", "var"})
		b.add("%s %s <- %s", kw, n, v.name)
		rs.addLeaf(n, kw == "var")
		g.feat("resource-move")
	case roll < 24:
		// into a container
		q := rs.cont()
		v := rs.takeLeaf()
		switch {
		case ri.hasArr && g.chance(1, 2):
			switch g.r.Intn(3) {
			case 0:
				b.add("%s.arr.append(<-%s)", q.name, v.name)
			case 1:
				b.add("%s.arr.insert(at: 0, <-%s)", q.name, v.name)
			default:
				b.add("%s.put(<-%s)", q.name, v.name)
			}
			rs.arrLen[q]++
			g.feat("resource-array-field")
		case ri.hasDict && g.chance(1, 2):
			k := rs.key()
			o := g.fresh("old")
			switch g.r.Intn(3) {
			case 0:
				b.add("let %s <- %s.dict.insert(key: %s, <-%s)", o, q.name, k, v.name)
			case 1:
				b.add("let %s <- %s.dict[%s] <- %s", o, q.name, k, v.name)
				g.feat("second-value-assignment")
			default:
				b.add("let %s <- %s.putKey(%s, <-%s)", o, q.name, k, v.name)
			}
			rs.consumeOpt(o)
			rs.keys[q] = append(rs.keys[q], k)
			g.feat("resource-dict-field")
		case ri.hasOpt:
			o := g.fresh("old")
			b.add("let %s <- %s.setOpt(<-%s)", o, q.name, v.name)
			rs.consumeOpt(o)
			g.feat("optional-resource-field")
		case ri.hasOne:
			n := g.fresh("r")
			b.add("let %s <- %s.swapOne(<-%s)", n, q.name, v.name)
			rs.addLeaf(n, false)
			g.feat("swap-resource-field")
		case ri.hasArr:
			b.add("%s.put(<-%s)", q.name, v.name)
			rs.arrLen[q]++
		default:
			o := g.fresh("old")
			b.add("let %s <- %s.putKey(%s, <-%s)", o, q.name, rs.key(), v.name)
			rs.consumeOpt(o)
		}
	case roll < 32:
		// out of a container
		q := rs.cont()
		switch {
		case ri.hasArr && rs.arrLen[q] > 0:
			n := g.fresh("r")
			switch g.r.Intn(4) {
			case 0:
				b.add("let %s <- %s.arr.remove(at: %d)", n, q.name, g.r.Intn(rs.arrLen[q]))
			case 1:
				b.add("let %s <- %s.arr.removeFirst()", n, q.name)
			case 2:
				b.add("let %s <- %s.arr.removeLast()", n, q.name)
			default:
				b.add("let %s <- %s.take()", n, q.name)
			}
			rs.arrLen[q]--
			rs.addLeaf(n, false)
			g.feat("resource-array-field")
		case ri.hasDict:
			o := g.fresh("o")
			k := rs.key()
			if len(rs.keys[q]) > 0 && g.chance(2, 3) {
				k = dmPick(g, rs.keys[q])
			}
			if g.chance(1, 2) {
				b.add("let %s <- %s.dict.remove(key: %s)", o, q.name, k)
			} else {
				b.add("let %s <- %s.takeKey(%s)", o, q.name, k)
			}
			rs.keys[q] = nil
			rs.consumeOpt(o)
			g.feat("resource-dict-field")
		case ri.hasOpt:
			o := g.fresh("o")
			b.add("let %s <- %s.setOpt(nil)", o, q.name)
			rs.consumeOpt(o)
		default:
			rs.mkLeaf()
		}
	case roll < 38:
		// reads through the owner and through references
		q := rs.cont()
		switch {
		case ri.hasArr && rs.arrLen[q] > 0 && g.chance(1, 2):
			i := g.r.Intn(rs.arrLen[q])
			switch g.r.Intn(4) {
			case 0:
				b.add("%s = %s + %s.arr[%d].n", rs.acc, rs.acc, q.name, i)
			case 1:
				r := g.fresh("ref")
				b.add("let %s = &%s.arr[%d] as &%s", r, q.name, i, R)
				b.add("%s.bump()", r)
				b.add("%s = %s + %s.get()", rs.acc, rs.acc, r)
				g.feat("reference-to-nested-resource")
			case 2:
				r := g.fresh("ref")
				b.add("let %s = &%s.arr as &[%s]", r, q.name, R)
				b.add("%s = %s + %s.length + %s[%d].n", rs.acc, rs.acc, r, r, i)
				g.feat("reference-to-resource-array")
			default:
				b.add("%s = %s + %s.borrowAt(%d).n + %s.sum()", rs.acc, rs.acc, q.name, i, q.name)
			}
		case ri.hasOpt && g.chance(1, 2):
			b.add("%s = %s + (%s.opt?.n ?? 0) + (%s.optN() ?? 1)", rs.acc, rs.acc, q.name, q.name)
			g.feat("optional-chaining-resource")
		case ri.hasOne:
			b.add("%s = %s + %s.one.n + %s.borrowOne().get()", rs.acc, rs.acc, q.name, q.name)
		case ri.hasDict:
			k := rs.key()
			b.add("%s = %s + (%s.dict[%s]?.n ?? 0) + %s.dict.length + %s.dict.keys.length", rs.acc, rs.acc, q.name, k, q.name, q.name)
			g.feat("optional-chaining-resource")
		default:
			b.add("%s = %s + %s.cnt", rs.acc, rs.acc, q.name)
		}
	case roll < 44:
		// local leaf: reference, method calls
		if len(rs.leafs) == 0 {
			rs.mkLeaf()
		}
		v := dmPick(g, rs.leafs)
		switch g.r.Intn(4) {
		case 0:
			b.add("%s.bump()", v.name)
		case 1:
			r := g.fresh("ref")
			b.add("let %s = &%s as &%s", r, v.name, R)
			b.add("%s = %s + %s.n", rs.acc, rs.acc, r)
			g.feat("reference-to-resource")
		case 2:
			if ri.riface != nil {
				r := g.fresh("ref")
				b.add("let %s = &%s as &{%s}", r, v.name, ri.riface.ref())
				b.add("%s = %s + %s.twice()", rs.acc, rs.acc, r)
				g.feat("reference-to-resource")
			} else {
				b.add("%s = %s + %s.get()", rs.acc, rs.acc, v.name)
			}
		default:
			b.add("%s = %s + %s.n", rs.acc, rs.acc, v.name)
		}
	case roll < 50:
		// pass through a function / conditional consume
		v := rs.takeLeaf()
		if g.chance(2, 3) {
			n := g.fresh("r")
			b.add("let %s <- %s(<-%s, %s)", n, g.fq(ri.pass), v.name, g.boolExpr(rs.s, 1))
			rs.addLeaf(n, false)
			g.feat("resource-through-function")
		} else {
			q := rs.cont()
			b.open("if %s {", g.boolExpr(rs.s, 1))
			b.add("destroy %s", v.name)
			b.closeOpen("} else {")
			if ri.hasArr {
				b.add("%s.put(<-%s)", q.name, v.name)
			} else {
				b.add("destroy %s", v.name)
			}
			b.close()
			rs.arrLen[q] += 0
			g.feat("resource-move-in-branches")
		}
	case roll < 58:
		// optional resource variable
		if len(rs.opts) > 0 && g.chance(1, 2) {
			i := g.r.Intn(len(rs.opts))
			o := rs.opts[i]
			switch g.r.Intn(4) {
			case 0:
				b.add("%s = %s + (%s?.n ?? 0)", rs.acc, rs.acc, o.name)
				g.feat("optional-chaining-resource")
			case 1:
				// take out with second-value assignment
				z := g.fresh("z")
				b.add("let %s <- %s <- nil", z, o.name)
				rs.consumeOpt(z)
				g.feat("second-value-assignment")
			case 2:
				v := rs.takeLeaf()
				z := g.fresh("z")
				b.add("let %s <- %s <- %s", z, o.name, v.name)
				rs.consumeOpt(z)
				g.feat("second-value-assignment")
			default:
				rs.opts = append(rs.opts[:i], rs.opts[i+1:]...)
				o.live = false
				rs.consumeOpt(o.name)
			}
		} else {
			v := rs.takeLeaf()
			n := g.fresh("o")
			if g.chance(1, 4) {
				b.add("var %s: @%s? <- nil", n, R)
				rs.leafs = append(rs.leafs, v)
				v.live = true
			} else {
				b.add("var %s: @%s? <- %s", n, R, v.name)
			}
			o := &dmVr{name: n, t: dmOpt(g.leafT()), mut: true, live: true}
			rs.s.add(o)
			rs.opts = append(rs.opts, o)
			g.feat("optional-resource")
		}
	case roll < 66:
		// local arrays of resources
		if len(rs.arrs) > 0 && g.chance(2, 3) {
			a := dmPick(g, rs.arrs)
			switch g.r.Intn(6) {
			case 0:
				v := rs.takeLeaf()
				b.add("%s.append(<-%s)", a.name, v.name)
				a.minLen++
			case 1:
				if a.minLen > 0 {
					n := g.fresh("r")
					b.add("let %s <- %s.remove(at: %d)", n, a.name, g.r.Intn(a.minLen))
					a.minLen--
					rs.addLeaf(n, false)
				}
			case 2:
				if a.minLen > 0 {
					v := rs.takeLeaf()
					n := g.fresh("r")
					b.add("var %s <- %s", n, v.name)
					b.add("%s[%d] <-> %s", a.name, g.r.Intn(a.minLen), n)
					rs.addLeaf(n, true)
					g.feat("swap-resource-array-element")
				}
			case 3:
				if a.minLen > 1 {
					b.add("%s[0] <-> %s[%d]", a.name, a.name, a.minLen-1)
					g.feat("swap-resource-array-element")
				}
			case 4:
				if a.minLen > 0 {
					v := rs.takeLeaf()
					n := g.fresh("r")
					b.add("let %s <- %s[%d] <- %s", n, a.name, g.r.Intn(a.minLen), v.name)
					rs.addLeaf(n, false)
					g.feat("second-value-assignment")
				}
			default:
				if a.minLen > 0 {
					r := g.fresh("ref")
					b.add("let %s = &%s[%d] as &%s", r, a.name, g.r.Intn(a.minLen), R)
					b.add("%s = %s + %s.n", rs.acc, rs.acc, r)
					x := g.fresh("x")
					b.open("for %s in &%s as &[%s] {", x, a.name, R)
					b.add("%s.bump()", x)
					b.close()
					g.feat("for-in-resource-array-reference")
				}
			}
		} else {
			n := g.fresh("rs")
			k := g.r.Intn(3)
			var xs []string
			for i := 0; i < k; i++ {
				if len(rs.leafs) > 0 && g.chance(1, 2) {
					v := rs.takeLeaf()
					xs = append(xs, "<-"+v.name)
				} else {
					xs = append(xs, rs.newLeafExpr())
				}
			}
			b.add("let %s: @[%s] <- [%s]", n, R, strings.Join(xs, ", "))
			a := &dmVr{name: n, t: dmArr(g.leafT()), live: true, minLen: k}
			rs.s.add(a)
			rs.arrs = append(rs.arrs, a)
			g.feat("resource-array")
		}
	case roll < 71:
		// local dictionaries of resources
		if len(rs.dicts) > 0 && g.chance(2, 3) {
			dv := dmPick(g, rs.dicts)
			k := g.keyLit(dmTString, g.r.Intn(3))
			switch g.r.Intn(3) {
			case 0:
				v := rs.takeLeaf()
				o := g.fresh("old")
				b.add("let %s <- %s[%s] <- %s", o, dv.name, k, v.name)
				rs.consumeOpt(o)
				g.feat("second-value-assignment")
			case 1:
				o := g.fresh("o")
				b.add("let %s <- %s.remove(key: %s)", o, dv.name, k)
				rs.consumeOpt(o)
			default:
				v := rs.takeLeaf()
				n := g.fresh("o")
				b.add("var %s: @%s? <- %s", n, R, v.name)
				b.add("%s[%s] <-> %s", dv.name, k, n)
				ov := &dmVr{name: n, t: dmOpt(g.leafT()), mut: true, live: true}
				rs.s.add(ov)
				rs.opts = append(rs.opts, ov)
				g.feat("swap-resource-dict-element")
			}
		} else {
			n := g.fresh("rd")
			b.add("let %s: @{String: %s} <- {\"k0\": %s}", n, R, rs.newLeafExpr())
			dv := &dmVr{name: n, t: dmDict(dmTString, g.leafT()), live: true}
			rs.s.add(dv)
			rs.dicts = append(rs.dicts, dv)
			g.feat("resource-dict")
		}
	case roll < 78:
		// casts through AnyResource / interface
		if len(rs.anys) > 0 && g.chance(2, 3) {
			i := g.r.Intn(len(rs.anys))
			a := rs.anys[i]
			rs.anys = append(rs.anys[:i], rs.anys[i+1:]...)
			a.live = false
			n := g.fresh("r")
			if g.chance(1, 2) {
				b.add("let %s <- %s as! @%s", n, a.name, R)
				rs.addLeaf(n, false)
				g.feat("force-cast-resource")
			} else {
				b.open("if let %s <- %s as? @%s {", n, a.name, R)
				b.add("%s = %s + %s.n", rs.acc, rs.acc, n)
				b.add("destroy %s", n)
				b.closeOpen("} else {")
				b.add("destroy %s", a.name)
				b.close()
				g.feat("failable-cast-resource")
			}
		} else {
			v := rs.takeLeaf()
			n := g.fresh("any")
			t := dmTAnyRes
			if ri.riface != nil && g.chance(1, 2) {
				t = ri.riface.ty()
				b.add("let %s: @{%s} <- %s", n, ri.riface.ref(), v.name)
				b.add("%s = %s + %s.twice()", rs.acc, rs.acc, n)
			} else {
				b.add("let %s: @AnyResource <- %s", n, v.name)
			}
			a := &dmVr{name: n, t: t, live: true}
			rs.s.add(a)
			rs.anys = append(rs.anys, a)
			g.feat("upcast-resource")
		}
	case roll < 84:
		// attachments
		if ri.att == nil {
			rs.mkLeaf()
			return
		}
		A := g.fq(ri.att.name)
		v := rs.takeLeaf()
		n := g.fresh("r")
		b.add("var %s <- attach %s(k: %d) to <-%s", n, A, g.r.Intn(5), v.name)
		rs.addLeaf(n, true)
		b.add("%s = %s + (%s[%s]?.f() ?? 0)", rs.acc, rs.acc, n, A)
		if g.chance(1, 3) {
			cnt := g.fresh("ac")
			b.add("var %s = 0", cnt)
			b.open("%s.forEachAttachment(fun (a: &AnyResourceAttachment) {", n)
			b.add("%s = %s + 1", cnt, cnt)
			b.open("if let aa = a as? &%s {", A)
			b.add("%s = %s + aa.f()", cnt, cnt)
			b.close()
			b.ind--
			b.add("})")
			b.add("%s = %s + %s", rs.acc, rs.acc, cnt)
			g.feat("forEachAttachment")
		}
		if g.chance(1, 2) {
			b.add("remove %s from %s", A, n)
			b.add("%s = %s + (%s[%s] == nil ? 1 : 0)", rs.acc, rs.acc, n, A)
		}
		g.feat("attachment-ops")
	case roll < 88:
		// reference that outlives a move: must end in a user error, never an internal one
		q := rs.cont()
		if ri.hasArr && rs.arrLen[q] > 0 && g.chance(1, 2) {
			r := g.fresh("ref")
			n := g.fresh("r")
			b.add("let %s = &%s.arr[0] as &%s", r, q.name, R)
			b.add("let %s <- %s.arr.remove(at: 0)", n, q.name)
			rs.arrLen[q]--
			rs.addLeaf(n, false)
			if g.chance(1, 3) {
				b.add("%s = %s + %s.n", rs.acc, rs.acc, r)
				g.feat("stale-reference-use")
			}
		} else {
			v := rs.takeLeaf()
			rfs := g.fresh("refs")
			n := g.fresh("r")
			b.add("let %s = [&%s as &%s]", rfs, v.name, R)
			b.add("let %s <- %s", n, v.name)
			rs.addLeaf(n, false)
			if g.chance(1, 3) {
				b.add("%s = %s + %s[0].n", rs.acc, rs.acc, rfs)
				g.feat("stale-reference-use")
			}
		}
	case roll < 91:
		// known defect shapes (rare): swap with an index expression on a resource-typed field
		if ri.known {
			q := rs.cont()
			if ri.hasArr && rs.arrLen[q] > 0 {
				v := rs.takeLeaf()
				n := g.fresh("r")
				b.add("var %s <- %s", n, v.name)
				if g.chance(1, 2) {
					b.add("%s.arr[0] <-> %s", q.name, n)
					rs.addLeaf(n, true)
				} else {
					m := g.fresh("r")
					b.add("let %s <- %s.swapIdx(0, <-%s)", m, q.name, n)
					rs.addLeaf(m, false)
				}
				g.feat("swap-index-on-resource-field")
				return
			}
		}
		rs.mkLeaf()
	case roll < 95:
		// swap two local resources
		var vs []*dmVr
		for _, v := range rs.leafs {
			if v.mut {
				vs = append(vs, v)
			}
		}
		if len(vs) >= 2 {
			b.add("%s <-> %s", vs[0].name, vs[1].name)
			g.feat("swap-resources")
		} else {
			v := rs.takeLeaf()
			n := g.fresh("r")
			b.add("var %s <- %s", n, v.name)
			rs.addLeaf(n, true)
		}
	default:
		// nested containers: array of arrays / dictionary of arrays
		n := g.fresh("nn")
		if g.chance(1, 2) {
			b.add("let %s: @[[%s]] <- [<- [%s], <- []]", n, R, rs.newLeafExpr())
			b.add("%s[1].append(%s)", n, rs.newLeafExpr())
			x := g.fresh("r")
			b.add("let %s <- %s[0].remove(at: 0)", x, n)
			rs.addLeaf(x, false)
		} else {
			b.add("let %s: @{Int: [%s]} <- {1: <- [%s]}", n, R, rs.newLeafExpr())
			o := g.fresh("old")
			b.add("let %s <- %s[2] <- [%s]", o, n, rs.newLeafExpr())
			b.add("destroy %s", o)
			b.add("%s = %s + (%s[1]?.length ?? 0)", rs.acc, rs.acc, n)
		}
		b.add("destroy %s", n)
		g.feat("nested-resource-containers")
	}
}

// ------------------------------------------------------------------ struct attachments

// genStructAttachment declares an attachment for a declared struct.
func (g *dmGen) genStructAttachment() {
	if len(g.structs) == 0 {
		return
	}
	c := dmPick(g, g.structs)
	name := g.fresh("SA")
	b := &dmBlk{}
	b.open("access(all) attachment %s for %s {", name, c.t.String())
	b.add("access(all) var k: Int")
	b.open("init(k: Int) {")
	b.add("self.k = k")
	b.close()
	b.open("access(all) fun f(): Int {")
	intField := ""
	for _, f := range c.fields {
		if f.t.eq(dmTInt) {
			intField = f.name
		}
	}
	if intField != "" {
		b.add("return base.%s + self.k", intField)
	} else {
		b.add("return self.k")
	}
	b.close()
	b.close()
	g.addDecl(b)
	g.sAtt = &dmAttachment{name: name, base: c, q: g.qc}
	g.feat("struct-attachment")
}

func (g *dmGen) structAttachmentPhase(b *dmBlk, s *dmScope) {
	a := g.sAtt
	A := g.fq(a.name)
	v := g.fresh("sa")
	w := g.fresh("sa")
	b.add("var %s = attach %s(k: %d) to %s", v, A, g.r.Intn(5), g.construct(s, a.base, 2))
	b.add("let %s = %s", w, v)
	s.add(&dmVr{name: v, t: a.base.t, mut: true, live: true})
	s.add(&dmVr{name: w, t: a.base.t, live: true})
	acc := g.fresh("sn")
	b.add("var %s = (%s[%s]?.f() ?? 0)", acc, v, A)
	s.add(&dmVr{name: acc, t: dmTInt, mut: true, live: true})
	if g.chance(1, 2) {
		b.add("remove %s from %s", A, v)
		b.add("%s = %s + (%s[%s] == nil ? 1 : 0) + (%s[%s]?.k ?? 0)", acc, acc, v, A, w, A)
	}
	if g.chance(1, 2) {
		r := g.fresh("sr")
		b.add("let %s = &%s as &%s", r, w, a.base.t.String())
		b.add("%s = %s + (%s[%s]?.f() ?? 0)", acc, acc, r, A)
	}
	if g.chance(1, 3) {
		x := g.fresh("any")
		b.add("let %s: AnyStruct = %s", x, w)
		b.add("%s = %s + ((%s as? %s)?.getType()?.identifier?.length ?? 0)", acc, acc, x, a.base.t.String())
	}
}

// ------------------------------------------------------------------ entitlements

type dmEntInfo struct {
	outer   *dmComp
	isRes   bool
	mapped  bool
	optIn   bool
	e, f, m string
}

// genEntitlementFamily declares entitlements, a mapping, and a composite with entitled members and
// a mapped field.
func (g *dmGen) genEntitlementFamily() {
	ei := &dmEntInfo{}
	g.entFamily = ei
	ei.e, ei.f, ei.m = g.fresh("En"), g.fresh("En"), g.fresh("Mp")
	q := func(n string) string { return g.qualName(n) }
	b := &dmBlk{}
	b.add("access(all) entitlement %s", ei.e)
	b.add("access(all) entitlement %s", ei.f)
	b.open("access(all) entitlement mapping %s {", ei.m)
	b.add("%s -> %s", q(ei.e), q(ei.f))
	if g.chance(1, 3) {
		b.add("%s -> %s", q(ei.f), q(ei.f))
	}
	b.close()
	inner := g.fresh("In")
	b.open("access(all) struct %s {", inner)
	b.add("access(all) var v: Int")
	b.open("init() {")
	b.add("self.v = %d", g.r.Intn(5))
	b.close()
	b.open("access(%s) fun g(): Int {", q(ei.f))
	b.add("self.v = self.v + 1")
	b.add("return self.v")
	b.close()
	b.open("access(all) view fun h(): Int {")
	b.add("return self.v")
	b.close()
	b.close()
	ei.isRes = g.chance(1, 2) && g.inContract == ""
	ei.optIn = g.chance(1, 3)
	outer := g.fresh("Out")
	dmKind := "struct"
	if ei.isRes {
		dmKind = "resource"
	}
	c := &dmComp{name: outer, isRes: ei.isRes}
	k := dmKStruct
	if ei.isRes {
		k = dmKRes
	}
	c.t = &dmTy{k: k, name: outer, comp: c, q: g.qc}
	ei.outer = c
	b.open("access(all) %s %s {", dmKind, outer)
	it := q(inner)
	if ei.optIn {
		it += "?"
	}
	b.add("access(mapping %s) var inner: %s", q(ei.m), it)
	b.add("access(all) var plain: %s", q(inner))
	b.add("access(%s) var guarded: [Int]", q(ei.e))
	b.open("init() {")
	b.add("self.inner = %s()", q(inner))
	b.add("self.plain = %s()", q(inner))
	b.add("self.guarded = [1, 2]")
	b.close()
	b.open("access(%s) fun secured(): Int {", q(ei.e))
	b.add("return 7")
	b.close()
	b.open("access(%s | %s) fun either(): Int {", q(ei.e), q(ei.f))
	b.add("return 3")
	b.close()
	b.open("access(all) fun open(): Int {")
	if ei.optIn {
		b.add("return (self.inner?.g() ?? 0) + self.plain.g()")
	} else {
		b.add("return self.inner.g() + self.plain.g()")
	}
	b.close()
	b.close()
	g.addDecl(b)
	g.feat("entitlements")
	g.feat("entitlement-mapping")
}

func (g *dmGen) entPhase(b *dmBlk, s *dmScope) {
	ei := g.entFamily
	q := func(n string) string { return g.qualName(n) }
	o := g.fresh("ent")
	T := ei.outer.t.String()
	if ei.isRes {
		b.add("let %s <- create %s()", o, T)
	} else {
		b.add("var %s = %s()", o, T)
	}
	e, f := q(ei.e), q(ei.f)
	acc := g.fresh("ea")
	b.add("var %s = 0", acc)
	s.add(&dmVr{name: acc, t: dmTInt, live: true})
	ra, rp := g.fresh("ra"), g.fresh("rp")
	b.add("let %s = &%s as auth(%s) &%s", ra, o, e, T)
	b.add("let %s = &%s as &%s", rp, o, T)
	chain := "."
	if ei.optIn {
		chain = "?."
	}
	unw := func(x string) string {
		if ei.optIn {
			return "(" + x + " ?? 0)"
		}
		return x
	}
	n := 2 + g.r.Intn(5)
	for i := 0; i < n; i++ {
		switch g.r.Intn(10) {
		case 0:
			b.add("%s = %s + %s.secured() + %s.either()", acc, acc, ra, ra)
		case 1:
			b.add("%s = %s + %s", acc, acc, unw(ra+".inner"+chain+"g()"))
		case 2:
			b.add("%s = %s + %s + %s.open()", acc, acc, unw(rp+".inner"+chain+"h()"), rp)
		case 3:
			b.add("%s = %s + %s", acc, acc, unw(o+".inner"+chain+"g()"))
		case 4:
			x := g.fresh("dc")
			b.open("if let %s = %s as? auth(%s) &%s {", x, rp, e, T)
			b.add("%s = %s + %s.secured()", acc, acc, x)
			b.close()
			g.feat("reference-downcast-entitlement")
		case 5:
			x := g.fresh("ir")
			if ei.optIn {
				b.open("if let %s = %s.inner {", x, ra)
				b.add("%s = %s + %s.g()", acc, acc, x)
				b.close()
			} else {
				b.add("let %s = %s.inner", x, ra)
				b.add("%s = %s + %s.g()", acc, acc, x)
			}
		case 6:
			b.add("%s = %s + %s.guarded.length + %s.guarded[0] + %s.plain.h()", acc, acc, ra, ra, rp)
		case 7:
			x := g.fresh("any")
			b.add("let %s: AnyStruct = %s", x, ra)
			b.add("%s = %s + ((%s as? auth(%s, %s) &%s)?.secured() ?? 1)", acc, acc, x, e, f, T)
			b.add("%s = %s + ((%s as? &%s)?.open() ?? 2)", acc, acc, x, T)
			g.feat("reference-downcast-entitlement")
		case 8:
			x := g.fresh("ra2")
			b.add("let %s = &%s as auth(%s, %s) &%s", x, o, e, f, T)
			b.add("%s = %s + %s.either() + %s", acc, acc, x, unw(x+".inner"+chain+"g()"))
		default:
			x := g.fresh("up")
			b.add("let %s = %s as &%s", x, ra, T)
			b.add("%s = %s + %s.open()", acc, acc, x)
		}
	}
	if ei.isRes {
		b.add("destroy %s", o)
	}
}
