package main

// Scenarios: contracts deployed on a Host and used from several transactions and scripts - account
// storage, capabilities, contract updates / removal, contracts importing contracts.

import (
	"encoding/hex"
	"fmt"
	"strings"
)

func dmIndent(s string, n int) string {
	pad := strings.Repeat("    ", n)
	ls := strings.Split(s, "\n")
	for i, l := range ls {
		if l != "" {
			ls[i] = pad + l
		}
	}
	return strings.Join(ls, "\n")
}

const dmAcctAuth = "auth(Storage, Capabilities, Contracts) &Account"

type dmScenState struct {
	g       *dmGen
	c       string            // contract name
	paths   map[string]string // storage path -> kind ("Q", "R", "S", "Int", "Arr")
	pub     map[string]string // public path -> kind of published capability
	structT *dmTy             // a struct type of the contract without function fields (storable), or nil
	steps   []dmStep
	hasExt  bool // the contract has the updated function
	foreign bool // values of the second contract's types may be in storage
}

func dmStorableStruct(c *dmComp) bool {
	var ok func(t *dmTy) bool
	ok = func(t *dmTy) bool {
		switch t.k {
		case dmKFun, dmKRef, dmKAnyStruct, dmKIface, dmKRange:
			return false
		case dmKOpt, dmKArr, dmKCArr:
			return ok(t.elem)
		case dmKDict:
			return ok(t.key) && ok(t.elem)
		case dmKStruct:
			return dmStorableStruct(t.comp)
		}
		return true
	}
	for _, f := range c.fields {
		if !ok(f.t) {
			return false
		}
	}
	return true
}

// contractCode assembles the contract from the declarations generated so far.
func (g *dmGen) contractCode(name string, imports string, extra string, withStore bool) string {
	var sb strings.Builder
	sb.WriteString(imports)
	sb.WriteString("access(all) contract " + name + " {\n")
	for _, d := range g.decls {
		sb.WriteString(dmIndent(d, 1))
		sb.WriteString("\n")
	}
	sb.WriteString("    access(all) var total: Int\n")
	if withStore {
		R := g.leafT().String()
		sb.WriteString("    access(all) var store: @{String: " + R + "}\n")
		sb.WriteString("    access(all) fun deposit(_ k: String, _ r: @" + R + ") {\n")
		sb.WriteString("        let old <- self.store[k] <- r\n")
		sb.WriteString("        self.total = self.total + 1\n")
		sb.WriteString("        destroy old\n")
		sb.WriteString("    }\n")
		sb.WriteString("    access(all) fun withdraw(_ k: String): @" + R + "? {\n")
		sb.WriteString("        return <- self.store.remove(key: k)\n")
		sb.WriteString("    }\n")
	}
	if extra != "" {
		sb.WriteString(dmIndent(extra, 1) + "\n")
	}
	sb.WriteString("    init() {\n")
	sb.WriteString("        self.total = 0\n")
	if withStore {
		sb.WriteString("        self.store <- {}\n")
	}
	sb.WriteString("    }\n")
	sb.WriteString("}")
	return sb.String()
}

func (g *dmGen) genEvent() {
	name := g.fresh("Ev")
	ev := &dmFnDecl{name: name}
	n := 1 + g.r.Intn(2)
	var ps []string
	for i := 0; i < n; i++ {
		t := dmPick(g, []*dmTy{dmTInt, dmTString, dmOpt(dmTInt), dmTBool, dmArr(dmTInt)})
		p := dmParam{label: "", name: fmt.Sprintf("e%d", i), t: t}
		ev.params = append(ev.params, p)
		ps = append(ps, p.name+": "+t.String())
	}
	g.events = append(g.events, ev)
	g.decls = append(g.decls, fmt.Sprintf("access(all) event %s(%s)", name, strings.Join(ps, ", ")))
	g.feat("event")
}

// scenario generates a multi-step history.
func (g *dmGen) scenario() *dmScenario {
	g.rareKnown = g.chance(1, 40)
	C := "C1"
	g.inContract = C
	g.qc.prefix = C + "."
	for i, n := 0, 1+g.r.Intn(2); i < n; i++ {
		g.genEvent()
	}
	if g.chance(1, 2) {
		g.genEnum()
	}
	for i, n := 0, 1+g.r.Intn(2); i < n; i++ {
		g.genStructIface()
	}
	for i, n := 0, 1+g.r.Intn(2); i < n; i++ {
		g.genStruct()
	}
	g.genResourceDecls()
	if g.chance(1, 3) {
		g.genEntitlementFamily()
	}
	for i, n := 0, 1+g.r.Intn(3); i < n; i++ {
		g.genFunc()
	}
	st := &dmScenState{g: g, c: C, paths: map[string]string{}, pub: map[string]string{}}
	for _, c := range g.structs {
		if dmStorableStruct(c) {
			st.structT = c.t
		}
	}
	withStore := g.chance(1, 2)
	code := g.contractCode(C, "", "", withStore)
	st.steps = append(st.steps, dmStep{Kind: "deploy", Addr: "0x1", Name: C, Code: code})
	g.feat("contract")
	g.inContract = ""
	g.outside = true
	g.qc.outside = true

	// second contract importing the first
	second := g.chance(1, 2)
	if second {
		st.steps = append(st.steps, dmStep{Kind: "deploy", Addr: "0x2", Name: "D1", Code: g.secondContract(C)})
		g.feat("contract-imports-contract")
	}
	imports := "import " + C + " from 0x1\n"
	if second {
		imports += "import D1 from 0x2\n"
	}
	n := 3 + g.r.Intn(5)
	for i := 0; i < n; i++ {
		switch g.r.Intn(12) {
		case 0, 1, 2, 3, 4, 5:
			st.steps = append(st.steps, dmStep{Kind: "tx", Addr: dmPick(g, []string{"0x1", "0x1", "0x3"}), Code: g.txCode(st, imports, second, withStore)})
		case 6, 7, 8:
			st.steps = append(st.steps, dmStep{Kind: "script", Code: g.scriptCode(st, imports, second)})
		case 9:
			// contract update (valid: adds a function; or invalid: removes a field -> user error)
			g.feat("contract-update")
			extra := "access(all) fun added(): Int {\n    return 42\n}"
			g.inContract = C
			g.qc.outside = false
			var newCode string
			if g.chance(4, 5) {
				newCode = g.contractCode(C, "", extra, withStore)
				st.hasExt = true
			} else {
				newCode = strings.Replace(code, "    access(all) var total: Int\n", "    access(all) var total: Int\n    access(all) var more: Int\n", 1)
				newCode = strings.Replace(newCode, "        self.total = 0\n", "        self.total = 0\n        self.more = 0\n", 1)
			}
			g.inContract = ""
			g.qc.outside = true
			tx := fmt.Sprintf("transaction {\n    prepare(s: %s) {\n        s.contracts.update(name: %q, code: \"%s\".decodeHex())\n    }\n}",
				dmAcctAuth, C, hex.EncodeToString([]byte(newCode)))
			st.steps = append(st.steps, dmStep{Kind: "tx", Addr: "0x1", Code: tx})
		case 10:
			st.steps = append(st.steps, dmStep{Kind: "tx", Addr: "0x3", Code: g.contractOpsTx(st)})
		default:
			if second && g.chance(1, 2) {
				g.feat("contract-removal")
				tx := fmt.Sprintf("transaction {\n    prepare(s: %s) {\n        let removed = s.contracts.remove(name: \"D1\")\n        log(removed?.name)\n    }\n}", dmAcctAuth)
				st.steps = append(st.steps, dmStep{Kind: "tx", Addr: "0x2", Code: tx})
				second = false
				imports = "import " + C + " from 0x1\n"
				if st.foreign || g.chance(1, 3) {
					st.steps = append(st.steps, g.orphanSteps(st, imports)...)
				}
			} else {
				st.steps = append(st.steps, dmStep{Kind: "script", Code: g.scriptCode(st, imports, second)})
			}
		}
	}
	sc := &dmScenario{Kind: "scenario", Steps: st.steps}
	sc.Features = g.features()
	return sc
}

// orphanSteps: operations on stored values whose declaring contract was removed.
func (g *dmGen) orphanSteps(st *dmScenState, imports string) []dmStep {
	g.feat("stored-value-of-removed-contract")
	var out []dmStep
	for _, acct := range []string{"0x1", "0x3"} {
		b := &dmBlk{}
		for _, l := range strings.Split(strings.TrimSpace(imports), "\n") {
			b.add(l)
		}
		b.open("transaction {")
		b.open("prepare(s: %s) {", dmAcctAuth)
		p := fmt.Sprintf("/storage/dr%d", g.r.Intn(2))
		n := 2 + g.r.Intn(4)
		for i := 0; i < n; i++ {
			switch g.r.Intn(7) {
			case 0:
				b.add("log(s.storage.type(at: %s))", p)
			case 1:
				b.add("log(s.storage.check<@AnyResource>(from: %s))", p)
			case 2:
				r := g.fresh("br")
				b.open("if let %s = s.storage.borrow<&AnyResource>(from: %s) {", r, p)
				b.add("log(%s.getType().identifier)", r)
				b.close()
			case 3:
				x := g.fresh("ld")
				b.open("if let %s <- s.storage.load<@AnyResource>(from: %s) {", x, p)
				if g.chance(1, 2) {
					b.add("destroy %s", x)
				} else {
					b.add("s.storage.save(<-%s, to: /storage/dr9)", x)
				}
				b.close()
			case 4:
				b.open("s.storage.forEachStored(fun (path: StoragePath, ty: Type): Bool {")
				b.add("log(ty.identifier)")
				b.add("return true")
				b.ind--
				b.add("})")
			case 5:
				if g.res.riface != nil {
					r := g.fresh("br")
					b.open("if let %s = s.storage.borrow<&{%s}>(from: %s) {", r, g.res.riface.ref(), p)
					b.add("log(%s.twice())", r)
					b.close()
				}
			default:
				b.add("log(s.storage.storagePaths)")
			}
		}
		b.close()
		b.close()
		out = append(out, dmStep{Kind: "tx", Addr: acct, Code: b.String()})
	}
	return out
}

// secondContract: a contract importing C with composites implementing C's interfaces.
func (g *dmGen) secondContract(C string) string {
	b := &dmBlk{}
	b.add("import %s from 0x1", C)
	b.open("access(all) contract D1 {")
	b.add("access(all) event Made(n: Int)")
	if len(g.sifaces) > 0 {
		i := dmPick(g, g.sifaces)
		b.open("access(all) struct DS: %s {", i.ref())
		b.add("access(all) var w: Int")
		b.open("init() {")
		b.add("self.w = %d", g.r.Intn(5))
		b.close()
		for _, m := range i.allMethods() {
			if strings.HasPrefix(m.name, "req") {
				b.open("access(all) fun %s(_ x: Int): Int {", m.name)
				b.add("self.w = self.w + x")
				b.add("return self.w")
				b.close()
			}
		}
		b.close()
		b.open("access(all) fun makeDS(): {%s} {", i.ref())
		b.add("emit Made(n: 1)")
		b.add("return DS()")
		b.close()
		g.feat("foreign-interface-implementation")
	}
	if g.res.riface != nil {
		b.open("access(all) resource DR: %s {", g.res.riface.ref())
		b.add("access(all) var m: Int")
		b.open("init() {")
		b.add("self.m = 5")
		b.close()
		b.open("access(all) view fun get(): Int {")
		b.add("return self.m")
		b.close()
		b.close()
		b.open("access(all) fun makeDR(): @{%s} {", g.res.riface.ref())
		b.add("return <- create DR()")
		b.close()
	}
	b.open("access(all) fun useC(_ n: Int): Int {")
	b.add("let r <- %s(n)", g.fq(g.res.mk))
	b.add("let q <- %s()", g.fq(g.res.mkQ))
	b.add("let m = r.n + q.cnt")
	b.add("destroy r")
	b.add("destroy q")
	b.add("return m + %s.total", C)
	b.close()
	b.open("init() {")
	b.close()
	b.close()
	return b.String()
}

func (st *dmScenState) freePath() string {
	for i := 0; i < 4; i++ {
		p := fmt.Sprintf("/storage/p%d", i)
		if st.paths[p] == "" {
			return p
		}
	}
	return ""
}

func (st *dmScenState) pathOf(dmKind string) string {
	for i := 0; i < 4; i++ {
		p := fmt.Sprintf("/storage/p%d", i)
		if st.paths[p] == dmKind {
			return p
		}
	}
	return ""
}

// txCode: a transaction with storage / capability operations, resource phases and general statements.
func (g *dmGen) txCode(st *dmScenState, imports string, second bool, withStore bool) string {
	b := &dmBlk{}
	for _, l := range strings.Split(strings.TrimSpace(imports), "\n") {
		b.add(l)
	}
	b.open("transaction {")
	txField := g.chance(1, 3)
	if txField {
		b.add("let cnt: Int")
		b.add("var note: String?")
		g.feat("transaction-fields")
	}
	b.open("prepare(s: %s) {", dmAcctAuth)
	if txField {
		b.add("self.cnt = %s.total", st.c)
		b.add("self.note = nil")
	}
	s := &dmScope{ctx: &dmFctx{}}
	Q := g.res.cont.t.String()
	R := g.leafT().String()
	n := 2 + g.r.Intn(5)
	for i := 0; i < n; i++ {
		switch g.r.Intn(16) {
		case 0, 1:
			g.stmts(b, s, 1+g.r.Intn(2), 2)
		case 2:
			g.resPhase(b, s)
		case 3, 4:
			// save
			p := st.freePath()
			if p == "" || g.chance(1, 10) {
				p = "/storage/p0"
			}
			free := st.paths[p] == ""
			switch g.r.Intn(5) {
			case 0, 1:
				b.add("s.storage.save(<- %s(), to: %s)", g.fq(g.res.mkQ), p)
				if free {
					st.paths[p] = "Q"
				}
			case 2:
				b.add("s.storage.save(<- %s(%d), to: %s)", g.fq(g.res.mk), g.r.Intn(9), p)
				if free {
					st.paths[p] = "R"
				}
			case 3:
				if st.structT != nil {
					b.add("s.storage.save(%s, to: %s)", g.construct(s, st.structT.comp, 2), p)
					if free {
						st.paths[p] = "S"
					}
				} else {
					b.add("s.storage.save(%s, to: %s)", g.exact(s, dmTInt, 1), p)
					if free {
						st.paths[p] = "Int"
					}
				}
			default:
				b.add("s.storage.save(%s, to: %s)", g.exact(s, dmArr(dmTInt), 1), p)
				if free {
					st.paths[p] = "Arr"
				}
			}
			g.feat("storage-save")
		case 5, 6:
			// borrow a stored container and operate through the reference
			p := st.pathOf("Q")
			if p == "" {
				p = "/storage/p1"
			}
			r := g.fresh("qr")
			b.open("if let %s = s.storage.borrow<&%s>(from: %s) {", r, Q, p)
			if g.res.hasArr {
				b.add("%s.put(<- %s(%d))", r, g.fq(g.res.mk), g.r.Intn(9))
				if g.chance(1, 2) {
					x := g.fresh("t")
					b.add("let %s <- %s.take()", x, r)
					b.add("log(%s.n)", x)
					b.add("destroy %s", x)
				}
				b.add("log(%s.sum())", r)
				if g.chance(1, 3) {
					b.add("log(%s.arr.length)", r)
					b.add("log(%s.arr[0].n)", r)
				}
			}
			if g.res.hasOpt {
				x := g.fresh("o")
				b.add("let %s <- %s.setOpt(<- %s(2))", x, r, g.fq(g.res.mk))
				b.add("destroy %s", x)
				b.add("log(%s.opt?.n)", r)
			}
			if g.res.hasOne {
				x := g.fresh("t")
				b.add("let %s <- %s.swapOne(<- %s(3))", x, r, g.fq(g.res.mk))
				b.add("destroy %s", x)
			}
			if g.res.hasDict {
				x := g.fresh("o")
				b.add("let %s <- %s.putKey(%s, <- %s(4))", x, r, g.keyLit(g.res.dictKey, g.r.Intn(3)), g.fq(g.res.mk))
				b.add("destroy %s", x)
			}
			b.add("log(%s.cnt)", r)
			b.close()
			g.feat("storage-borrow")
		case 7:
			// load
			kinds := []string{"Q", "R", "S", "Int", "Arr"}
			k := dmPick(g, kinds)
			p := st.pathOf(k)
			if p == "" {
				p = fmt.Sprintf("/storage/p%d", g.r.Intn(4))
			}
			x := g.fresh("ld")
			switch k {
			case "Q", "R":
				T := Q
				if k == "R" {
					T = R
				}
				b.open("if let %s <- s.storage.load<@%s>(from: %s) {", x, T, p)
				if g.chance(1, 2) {
					b.add("s.storage.save(<-%s, to: /storage/moved%d)", x, g.r.Intn(2))
				} else {
					b.add("destroy %s", x)
				}
				b.close()
				if st.paths[p] == k {
					st.paths[p] = ""
				}
			case "S":
				if st.structT != nil {
					b.add("let %s = s.storage.load<%s>(from: %s)", x, st.structT.String(), p)
					s.add(&dmVr{name: x, t: dmOpt(st.structT), live: true})
					if st.paths[p] == k {
						st.paths[p] = ""
					}
				}
			case "Int":
				b.add("let %s = s.storage.load<Int>(from: %s) ?? 0", x, p)
				s.add(&dmVr{name: x, t: dmTInt, live: true})
				if st.paths[p] == k {
					st.paths[p] = ""
				}
			default:
				b.add("let %s = s.storage.copy<[Int]>(from: %s) ?? []", x, p)
				s.add(&dmVr{name: x, t: dmArr(dmTInt), live: true})
				g.feat("storage-copy")
			}
			g.feat("storage-load")
		case 8:
			p := fmt.Sprintf("/storage/p%d", g.r.Intn(4))
			b.add("log(s.storage.type(at: %s))", p)
			b.add("log(s.storage.check<@%s>(from: %s))", Q, p)
			if st.structT != nil {
				b.add("log(s.storage.check<%s>(from: %s))", st.structT.String(), p)
			}
			g.feat("storage-type-check")
		case 9:
			cnt := g.fresh("cnt")
			b.add("var %s = 0", cnt)
			b.open("s.storage.forEachStored(fun (path: StoragePath, ty: Type): Bool {")
			b.add("%s = %s + 1", cnt, cnt)
			b.add("log(ty.identifier)")
			b.add("return %s < %d", cnt, 2+g.r.Intn(4))
			b.ind--
			b.add("})")
			g.feat("storage-iteration")
		case 10, 11:
			// capabilities
			p := st.pathOf("Q")
			if p == "" {
				p = "/storage/p1"
			}
			pp := fmt.Sprintf("/public/c%d", g.r.Intn(2))
			cap := g.fresh("cap")
			b.add("let %s = s.capabilities.storage.issue<&%s>(%s)", cap, Q, p)
			if st.pub[pp] == "" || g.chance(1, 8) {
				b.add("s.capabilities.publish(%s, at: %s)", cap, pp)
				st.pub[pp] = "Q"
			}
			b.add("log(%s.check())", cap)
			b.add("log(%s.borrow()?.cnt)", cap)
			b.add("log(%s.id)", cap)
			g.feat("capability-issue-publish")
		case 12:
			pp := fmt.Sprintf("/public/c%d", g.r.Intn(2))
			switch g.r.Intn(3) {
			case 0:
				b.add("let %s = s.capabilities.unpublish(%s)", g.fresh("un"), pp)
				st.pub[pp] = ""
				g.feat("capability-unpublish")
			case 1:
				b.add("log(s.capabilities.borrow<&%s>(%s)?.cnt)", Q, pp)
				b.add("log(s.capabilities.get<&%s>(%s).check())", Q, pp)
				b.add("log(s.capabilities.exists(%s))", pp)
				g.feat("capability-borrow")
			default:
				p := fmt.Sprintf("/storage/p%d", g.r.Intn(3))
				cs := g.fresh("ctl")
				b.add("let %s = s.capabilities.storage.getControllers(forPath: %s)", cs, p)
				c := g.fresh("c")
				b.open("for %s in %s {", c, cs)
				b.add("log(%s.capabilityID)", c)
				b.add("log(%s.borrowType)", c)
				if g.chance(1, 3) {
					b.add("%s.delete()", c)
				} else if g.chance(1, 2) {
					b.add("%s.retarget(/storage/p%d)", c, g.r.Intn(3))
				} else {
					b.add("%s.setTag(\"t\")", c)
				}
				b.close()
				g.feat("capability-controllers")
			}
		case 13:
			if withStore {
				k := g.keyLit(dmTString, g.r.Intn(3))
				if g.chance(1, 2) {
					b.add("%s.deposit(%s, <- %s(%d))", st.c, k, g.fq(g.res.mk), g.r.Intn(9))
				} else {
					x := g.fresh("w")
					b.add("let %s <- %s.withdraw(%s)", x, st.c, k)
					b.add("log(%s?.n)", x)
					b.add("destroy %s", x)
				}
				b.add("log(%s.total)", st.c)
				g.feat("contract-resource-field")
			} else {
				b.add("log(%s.total)", st.c)
			}
		case 14:
			if second {
				b.add("log(D1.useC(%d))", g.r.Intn(5))
				if len(g.sifaces) > 0 {
					x := g.fresh("ds")
					b.add("let %s = D1.makeDS()", x)
					for _, m := range g.sifaces[len(g.sifaces)-1].allMethods() {
						_ = m
					}
					b.add("log(%s.getType().identifier)", x)
				}
				if g.res.riface != nil {
					x := g.fresh("dr")
					b.add("let %s <- D1.makeDR()", x)
					b.add("log(%s.twice())", x)
					if g.chance(1, 2) {
						b.add("s.storage.save(<-%s, to: /storage/dr%d)", x, g.r.Intn(2))
						st.foreign = true
						g.feat("store-foreign-contract-value")
					} else {
						b.add("destroy %s", x)
					}
				}
				g.feat("use-importing-contract")
			} else {
				g.stmts(b, s, 1, 2)
			}
		default:
			if st.hasExt {
				b.add("log(%s.added())", st.c)
			} else {
				g.stmts(b, s, 1, 2)
			}
		}
	}
	b.close()
	if txField {
		b.open("pre {")
		b.add("self.cnt >= 0: \"cnt\"")
		b.close()
		b.open("execute {")
		b.add("self.note = self.cnt.toString()")
		b.add("log(self.note)")
		b.close()
		b.open("post {")
		b.add("%s.total >= self.cnt: \"total\"", st.c)
		b.close()
	} else if g.chance(1, 3) {
		b.open("execute {")
		b.add("log(%s.total)", st.c)
		b.close()
	}
	b.close()
	return b.String()
}

// scriptCode: a script reading public state and running general code against the contract types.
func (g *dmGen) scriptCode(st *dmScenState, imports string, second bool) string {
	b := &dmBlk{}
	for _, l := range strings.Split(strings.TrimSpace(imports), "\n") {
		b.add(l)
	}
	Q := g.res.cont.t.String()
	ret := g.valueType(1)
	if ret.k == dmKFun {
		ret = dmTInt
	}
	s := &dmScope{ctx: &dmFctx{ret: ret}}
	b.open("access(all) fun main(): %s {", ret.String())
	n := 1 + g.r.Intn(4)
	for i := 0; i < n; i++ {
		switch g.r.Intn(8) {
		case 0, 1, 2:
			g.stmts(b, s, 1+g.r.Intn(2), 3)
		case 3:
			g.resPhase(b, s)
		case 4:
			if g.entFamily != nil {
				g.entPhase(b, s)
			} else {
				g.stmts(b, s, 1, 2)
			}
		case 5:
			acct := dmPick(g, []string{"0x1", "0x3"})
			pp := fmt.Sprintf("/public/c%d", g.r.Intn(2))
			r := g.fresh("pr")
			b.open("if let %s = getAccount(%s).capabilities.borrow<&%s>(%s) {", r, acct, Q, pp)
			b.add("log(%s.cnt)", r)
			if g.res.hasArr {
				b.add("log(%s.sum())", r)
				b.add("log(%s.arr.length)", r)
			}
			if g.res.hasOpt {
				b.add("log(%s.optN())", r)
			}
			if g.res.hasOne {
				b.add("log(%s.borrowOne().n)", r)
			}
			b.close()
			g.feat("script-capability-borrow")
		case 6:
			acct := dmPick(g, []string{"0x1", "0x3"})
			a := g.fresh("aa")
			b.add("let %s = getAuthAccount<auth(Storage) &Account>(%s)", a, acct)
			p := fmt.Sprintf("/storage/p%d", g.r.Intn(4))
			b.add("log(%s.storage.type(at: %s))", a, p)
			r := g.fresh("sr")
			b.open("if let %s = %s.storage.borrow<&%s>(from: %s) {", r, a, Q, p)
			b.add("log(%s.cnt)", r)
			b.close()
			b.add("log(%s.storage.storagePaths.length)", a)
			g.feat("script-auth-account")
		default:
			b.add("log(%s.total)", st.c)
			if st.hasExt {
				b.add("log(%s.added())", st.c)
			}
			if second {
				b.add("log(D1.useC(%d))", g.r.Intn(4))
			}
		}
	}
	g.returnStmt(b, s, 2)
	b.close()
	return b.String()
}

// contractOpsTx: contracts.add / get / borrow / names / remove inside one transaction.
func (g *dmGen) contractOpsTx(st *dmScenState) string {
	name := g.fresh("T")
	code := fmt.Sprintf("access(all) contract %s {\n    access(all) var x: Int\n    access(all) fun f(): Int { return self.x }\n    init() { self.x = %d }\n}", name, g.r.Intn(9))
	b := &dmBlk{}
	b.open("transaction {")
	b.open("prepare(s: %s) {", dmAcctAuth)
	b.add("let c = s.contracts.add(name: %q, code: \"%s\".decodeHex())", name, hex.EncodeToString([]byte(code)))
	b.add("log(c.name)")
	b.add("log(s.contracts.names)")
	b.add("log(s.contracts.get(name: %q)?.name)", name)
	if g.rareKnown && g.chance(1, 2) {
		b.add("log(s.contracts.borrow<&AnyStruct>(name: %q) == nil)", name)
		g.feat("contracts-borrow-after-add")
	}
	if g.rareKnown && g.chance(1, 2) {
		b.add("let r = s.contracts.remove(name: %q)", name)
		g.feat("contracts-add-then-remove")
	}
	b.add("log(s.contracts.borrow<&AnyStruct>(name: \"Nope\") == nil)")
	b.close()
	b.close()
	g.feat("contracts-add-get-names")
	return b.String()
}
