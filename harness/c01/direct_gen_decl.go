package main

// Declarations: enums, struct interfaces, structs, global functions, and the assembly of scripts.

import (
	"fmt"
	"strings"
)

func (g *gen) acc() string { return "access(all)" }

func (g *gen) addDecl(b *blk) { g.decls = append(g.decls, b.String()) }

func (g *gen) genEnum() {
	name := g.fresh("E")
	raw := pick(g, []string{"UInt8", "UInt8", "Int", "UInt16"})
	n := 2 + g.r.Intn(3)
	e := &enumDecl{name: name}
	e.t = &ty{k: kEnum, name: name, q: g.qc}
	b := &blk{}
	b.open("access(all) enum %s: %s {", name, raw)
	for i := 0; i < n; i++ {
		c := fmt.Sprintf("c%d", i)
		e.cases = append(e.cases, c)
		b.add("access(all) case %s", c)
	}
	b.close()
	g.enums = append(g.enums, e)
	g.addDecl(b)
	g.feat("enum")
}

// qualName: how a top-level declared type is referred to (qualified inside/outside contracts:
// the qualified name is valid in both places).
func (g *gen) qualName(name string) string { return g.qc.name(name) }

func (g *gen) condition(s *scope, post bool, f *fnDecl) string {
	// conditions must be view: simple comparisons on parameters / self fields / result / before
	var terms []string
	for _, p := range f.params {
		if p.t.eq(tInt) {
			terms = append(terms, p.name)
		}
	}
	if s.ctx.self != nil {
		for _, fl := range s.ctx.self.fields {
			if fl.t.eq(tInt) {
				terms = append(terms, "self."+fl.name)
			}
		}
	}
	if post && f.ret != nil && f.ret.eq(tInt) {
		terms = append(terms, "result")
		if g.chance(1, 2) {
			for _, x := range terms {
				if strings.HasPrefix(x, "self.") {
					g.feat("before")
					return fmt.Sprintf("result %s before(%s) - 1000 || true: %s", pick(g, []string{">=", ">"}), x, g.strLit())
				}
			}
		}
	}
	if len(terms) == 0 {
		return "true: " + g.strLit()
	}
	t := pick(g, terms)
	if g.chance(1, 12) {
		// a condition that can fail
		return fmt.Sprintf("%s %s %d: %s", t, pick(g, []string{">=", "<"}), g.r.Intn(5), g.strLit())
	}
	if post && g.chance(1, 3) && f.ret != nil && f.ret.k == kOpt {
		return "result == nil || true: " + g.strLit()
	}
	return fmt.Sprintf("%s > -1000 || %s <= 0: %s", t, t, g.strLit())
}

func (g *gen) conditions(b *blk, s *scope, f *fnDecl, emitOK bool) {
	if g.chance(1, 2) {
		g.feat("pre-condition")
		b.open("pre {")
		b.add("%s", g.condition(s, false, f))
		if emitOK && len(g.events) > 0 && g.chance(1, 2) {
			ev := pick(g, g.events)
			vs := &scope{ctx: &fctx{view: true}}
			b.add("emit %s", g.call(vs, "", ev, 1))
			g.feat("emit-in-condition")
		}
		b.close()
	}
	if g.chance(1, 2) {
		g.feat("post-condition")
		b.open("post {")
		b.add("%s", g.condition(s, true, f))
		b.close()
	}
}

func (g *gen) paramList(ps []param) string {
	var xs []string
	for _, p := range ps {
		switch p.label {
		case "":
			xs = append(xs, p.name+": "+p.t.anno())
		default:
			xs = append(xs, p.label+" "+p.name+": "+p.t.anno())
		}
	}
	return strings.Join(xs, ", ")
}

func (g *gen) sig(f *fnDecl) string {
	v := ""
	if f.view {
		v = "view "
	}
	acc := "access(all)"
	if f.access != "" {
		acc = "access(" + f.access + ")"
	}
	s := fmt.Sprintf("%s %sfun %s(%s)", acc, v, f.name, g.paramList(f.params))
	if f.ret != nil {
		s += ": " + f.ret.anno()
	}
	return s
}

func (g *gen) genStructIface() *iface {
	name := g.fresh("SI")
	i := &iface{name: name, q: g.qc}
	b := &blk{}
	hdr := "access(all) struct interface " + name
	if len(g.sifaces) > 0 && g.chance(1, 2) {
		p := pick(g, g.sifaces)
		i.parents = append(i.parents, p)
		hdr += ": " + p.ref()
		g.feat("interface-inheritance")
	}
	b.open(hdr + " {")
	// required function with conditions
	req := &fnDecl{name: g.fresh("req"), params: []param{{"_", "x", tInt}}, ret: tInt}
	cs := &scope{ctx: &fctx{view: true}}
	cb := &blk{}
	g.conditions(cb, cs, req, g.inContract != "")
	if len(cb.lines) == 0 {
		b.add("%s", g.sig(req))
	} else {
		b.open(g.sig(req) + " {")
		for _, l := range cb.lines {
			b.add("%s", l)
		}
		b.close()
	}
	i.methods = append(i.methods, req)
	// default function
	df := &fnDecl{name: g.fresh("dflt"), params: []param{{"_", "y", g.primType()}}, ret: pick(g, []*ty{tInt, tString, opt(tInt)})}
	ds := &scope{ctx: &fctx{ret: df.ret, contract: g.inContract != ""}}
	ds.add(&vr{name: "y", t: df.params[0].t, live: true})
	b.open(g.sig(df) + " {")
	if g.chance(1, 2) {
		b.add("let q = self.%s(%d)", req.name, g.r.Intn(5))
		ds.add(&vr{name: "q", t: tInt, live: true})
	}
	g.returnStmt(b, ds, 2)
	b.close()
	i.methods = append(i.methods, df)
	b.close()
	g.sifaces = append(g.sifaces, i)
	g.addDecl(b)
	g.feat("struct-interface")
	return i
}

func (g *gen) fieldType() *ty {
	switch g.r.Intn(16) {
	case 0, 1, 2, 3:
		return g.primType()
	case 4, 5:
		return opt(g.primType())
	case 6:
		return opt(opt(g.primType()))
	case 7, 8:
		return arr(g.primType())
	case 9:
		return dict(g.keyType(), g.primType())
	case 10, 11:
		if len(g.structs) > 0 {
			c := pick(g, g.structs)
			if g.chance(1, 2) {
				return opt(c.t)
			}
			return c.t
		}
		return tInt
	case 12:
		if len(g.structs) > 0 {
			return arr(pick(g, g.structs).t)
		}
		return arr(opt(tInt))
	case 13:
		return fun(tInt, tInt)
	case 14:
		return tAnyStruct
	default:
		return tInt
	}
}

func (g *gen) genStruct() *comp {
	name := g.fresh("S")
	c := &comp{name: name}
	c.t = &ty{k: kStruct, name: name, comp: c, q: g.qc}
	n := 1 + g.r.Intn(4)
	hasInt := false
	for i := 0; i < n; i++ {
		t := g.fieldType()
		if i == 0 && g.chance(2, 3) {
			t = tInt
		}
		if t.eq(tInt) {
			hasInt = true
		}
		c.fields = append(c.fields, field{name: fmt.Sprintf("f%d", i), t: t, mut: g.chance(2, 3), access: "all"})
	}
	_ = hasInt
	hdr := "access(all) struct " + name
	if len(g.sifaces) > 0 && g.chance(1, 2) {
		i := pick(g, g.sifaces)
		c.conf = append(c.conf, i)
		hdr += ": " + i.ref()
	}
	b := &blk{}
	b.open(hdr + " {")
	var ps []string
	for _, f := range c.fields {
		kw := "let"
		if f.mut {
			kw = "var"
		}
		b.add("access(all) %s %s: %s", kw, f.name, f.t.String())
		ps = append(ps, f.name+": "+f.t.String())
	}
	b.open("init(%s) {", strings.Join(ps, ", "))
	for _, f := range c.fields {
		b.add("self.%s = %s", f.name, f.name)
	}
	b.close()
	selfScope := func(ctx *fctx) *scope {
		ctx.self = c
		s := &scope{ctx: ctx}
		for _, f := range c.fields {
			s.add(&vr{name: "self." + f.name, t: f.t, mut: f.mut && !ctx.view, field: true, live: true})
		}
		return s
	}
	// required interface functions
	for _, i := range c.conf {
		for _, m := range i.allMethods() {
			if !strings.HasPrefix(m.name, "req") {
				continue
			}
			impl := &fnDecl{name: m.name, params: m.params, ret: m.ret, mutating: true}
			s := selfScope(&fctx{ret: m.ret, contract: g.inContract != ""})
			s.add(&vr{name: "x", t: tInt, live: true})
			b.open(g.sig(impl) + " {")
			g.stmts(b, s, g.r.Intn(2), 2)
			g.returnStmt(b, s, 2)
			b.close()
			c.methods = append(c.methods, impl)
		}
	}
	// setters / getters
	for _, f := range c.fields {
		if f.mut && g.chance(1, 2) {
			m := &fnDecl{name: "set" + strings.ToUpper(f.name), params: []param{{"_", "v", f.t}}, mutating: true}
			b.open(g.sig(m) + " {")
			b.add("self.%s = v", f.name)
			b.close()
			c.methods = append(c.methods, m)
		}
		if g.chance(1, 3) && f.t.k != kFun {
			m := &fnDecl{name: "get" + strings.ToUpper(f.name), ret: f.t, view: true}
			b.open(g.sig(m) + " {")
			b.add("return self.%s", f.name)
			b.close()
			c.methods = append(c.methods, m)
		}
	}
	// a computing method with conditions and a body
	if g.chance(3, 4) {
		m := &fnDecl{name: g.fresh("m"), params: []param{{"_", "x", tInt}, {"", "o", opt(g.primType())}}, ret: g.valueType(1), mutating: true}
		if m.ret.k == kFun {
			m.ret = tInt
		}
		s := selfScope(&fctx{ret: m.ret, contract: g.inContract != ""})
		s.add(&vr{name: "x", t: tInt, live: true})
		s.add(&vr{name: "o", t: m.params[1].t, live: true})
		b.open(g.sig(m) + " {")
		g.conditions(b, &scope{ctx: &fctx{view: true, self: c}}, m, false)
		g.stmts(b, s, 1+g.r.Intn(2), 2)
		g.fnEnd(b, s, 2)
		b.close()
		c.methods = append(c.methods, m)
	}
	b.close()
	g.structs = append(g.structs, c)
	g.addDecl(b)
	g.feat("struct")
	return c
}

// fnEnd ends a function body that returns a value: a plain return or an if/else returning in both
// branches without a trailing return.
func (g *gen) fnEnd(b *blk, s *scope, d int) {
	if s.ctx.ret == nil {
		return
	}
	if g.chance(1, 3) {
		g.feat("return-in-both-branches")
		b.open("if %s {", g.boolExpr(s, d-1))
		g.returnStmt(b, s.child(), d)
		b.closeOpen("} else {")
		g.returnStmt(b, s.child(), d)
		b.close()
		return
	}
	g.returnStmt(b, s, d)
}

func (g *gen) paramType() *ty {
	switch g.r.Intn(14) {
	case 0, 1, 2:
		return g.primType()
	case 3, 4, 5:
		// optional parameters: arguments are boxed at the call
		t := g.valueType(1)
		if t.k == kFun || t.k == kOpt {
			t = tString
		}
		return opt(t)
	case 6:
		if len(g.structs) > 0 {
			return ref(pick(g, g.structs).t)
		}
	case 7:
		return aref("Mutate", arr(g.primType()))
	case 8:
		return fun(g.primType(), tInt)
	case 9:
		return tAnyStruct
	case 10:
		if len(g.structs) > 0 {
			return opt(pick(g, g.structs).t)
		}
	}
	return g.valueType(1)
}

func (g *gen) genFunc() *fnDecl {
	f := &fnDecl{name: g.fresh("f")}
	if g.inContract != "" {
		// contract functions are always called through the contract (`C.f(...)`), also inside it
		f.q = &qualCtx{prefix: g.inContract + ".", outside: true}
	}
	n := 1 + g.r.Intn(3)
	s := &scope{ctx: &fctx{contract: g.inContract != ""}}
	for i := 0; i < n; i++ {
		p := param{label: pick(g, []string{"_", "_", "", "with"}), name: fmt.Sprintf("p%d", i), t: g.paramType()}
		if p.label == "with" {
			p.label = fmt.Sprintf("l%d", i)
		}
		f.params = append(f.params, p)
		s.add(&vr{name: p.name, t: p.t, live: true})
	}
	if g.chance(5, 6) {
		f.ret = g.valueType(1)
		if f.ret.k == kFun && g.chance(1, 2) {
			f.ret = tInt
		}
	}
	s.ctx.ret = f.ret
	b := &blk{}
	b.open(g.sig(f) + " {")
	if g.chance(1, 3) {
		g.conditions(b, &scope{ctx: &fctx{view: true}}, f, false)
	}
	g.stmts(b, s, 1+g.r.Intn(3), 3)
	g.fnEnd(b, s, 3)
	b.close()
	g.funcs = append(g.funcs, f)
	g.addDecl(b)
	return f
}

// script assembles a complete script program.
func (g *gen) script() *Scenario {
	g.rareKnown = g.chance(1, 40)
	if g.chance(2, 3) {
		g.genEnum()
	}
	if g.chance(1, 2) {
		g.genFunc()
	}
	for i, n := 0, g.r.Intn(3); i < n; i++ {
		g.genStructIface()
	}
	for i, n := 0, 1+g.r.Intn(3); i < n; i++ {
		g.genStruct()
	}
	for i, n := 0, 1+g.r.Intn(3); i < n; i++ {
		g.genFunc()
	}
	withRes := g.chance(3, 5)
	if withRes {
		g.genResourceDecls()
	}
	if g.chance(1, 4) {
		g.genEntitlementFamily()
	}
	ret := g.valueType(1)
	if ret.k == kFun && g.chance(3, 4) {
		ret = tInt
	}
	b := &blk{}
	s := &scope{ctx: &fctx{ret: ret}}
	b.open("access(all) fun main(): %s {", ret.String())
	g.stmts(b, s, 2+g.r.Intn(4), 3)
	if withRes {
		g.resPhase(b, s)
		if g.chance(1, 2) {
			g.stmts(b, s, 1+g.r.Intn(2), 2)
		}
	}
	if g.entFamily != nil && g.chance(4, 5) {
		g.entPhase(b, s)
	}
	g.returnStmt(b, s, 2)
	b.close()
	g.addDecl(b)
	sc := scriptScenario(strings.Join(g.decls, "\n"))
	sc.Features = g.features()
	return sc
}
