package main

// Declarations: enums, struct interfaces, structs, global functions, and the assembly of scripts.

import (
	"fmt"
	"strings"
)

func (g *dmGen) acc() string { return "access(all)" }

func (g *dmGen) addDecl(b *dmBlk) { g.decls = append(g.decls, b.String()) }

func (g *dmGen) genEnum() {
	name := g.fresh("E")
	raw := dmPick(g, []string{"UInt8", "UInt8", "Int", "UInt16"})
	n := 2 + g.r.Intn(3)
	e := &dmEnumDecl{name: name}
	e.t = &dmTy{k: dmKEnum, name: name, q: g.qc}
	b := &dmBlk{}
	b.open("access(all) enum %s: %s {", name, raw)
	for i := 0; i < n; i++ {
		c := fmt.Sprintf("c%d", i)
		e.cases = append(e.cases, c)
		b.add("access(all) case %s", c)
	}
	b.close()
	g.enums = append(g.enums, e)
	g.addDecl(b)
	g.feat("enum")
}

// qualName: how a top-level declared type is referred to (qualified inside/outside contracts:
// the qualified name is valid in both places).
func (g *dmGen) qualName(name string) string { return g.qc.name(name) }

func (g *dmGen) condition(s *dmScope, post bool, f *dmFnDecl) string {
	// conditions must be view: simple comparisons on parameters / self fields / result / before
	var terms []string
	for _, p := range f.params {
		if p.t.eq(dmTInt) {
			terms = append(terms, p.name)
		}
	}
	if s.ctx.self != nil {
		for _, fl := range s.ctx.self.fields {
			if fl.t.eq(dmTInt) {
				terms = append(terms, "self."+fl.name)
			}
		}
	}
	if post && f.ret != nil && f.ret.eq(dmTInt) {
		terms = append(terms, "result")
		if g.chance(1, 2) {
			for _, x := range terms {
				if strings.HasPrefix(x, "self.") {
					g.feat("before")
					return fmt.Sprintf("result %s before(%s) - 1000 || true: %s", dmPick(g, []string{">=", ">"}), x, g.strLit())
				}
			}
		}
	}
	if len(terms) == 0 {
		return "true: " + g.strLit()
	}
	t := dmPick(g, terms)
	if g.chance(1, 12) {
		// a condition that can fail
		return fmt.Sprintf("%s %s %d: %s", t, dmPick(g, []string{">=", "<"}), g.r.Intn(5), g.strLit())
	}
	if post && g.chance(1, 3) && f.ret != nil && f.ret.k == dmKOpt {
		return "result == nil || true: " + g.strLit()
	}
	return fmt.Sprintf("%s > -1000 || %s <= 0: %s", t, t, g.strLit())
}

func (g *dmGen) conditions(b *dmBlk, s *dmScope, f *dmFnDecl, emitOK bool) {
	if g.chance(1, 2) {
		g.feat("pre-condition")
		b.open("pre {")
		b.add("%s", g.condition(s, false, f))
		if emitOK && len(g.events) > 0 && g.chance(1, 2) {
			ev := dmPick(g, g.events)
			vs := &dmScope{ctx: &dmFctx{view: true}}
			b.add("emit %s", g.call(vs, "", ev, 1))
			g.feat("emit-in-condition")
		}
		b.close()
	}
	if g.chance(1, 2) {
		g.feat("post-condition")
		b.open("post {")
		b.add("%s", g.condition(s, true, f))
		b.close()
	}
}

func (g *dmGen) paramList(ps []dmParam) string {
	var xs []string
	for _, p := range ps {
		switch p.label {
		case "":
			xs = append(xs, p.name+": "+p.t.anno())
		default:
			xs = append(xs, p.label+" "+p.name+": "+p.t.anno())
		}
	}
	return strings.Join(xs, ", ")
}

func (g *dmGen) sig(f *dmFnDecl) string {
	v := ""
	if f.view {
		v = "view "
	}
	acc := "access(all)"
	if f.access != "" {
		acc = "access(" + f.access + ")"
	}
	s := fmt.Sprintf("%s %sfun %s(%s)", acc, v, f.name, g.paramList(f.params))
	if f.ret != nil {
		s += ": " + f.ret.anno()
	}
	return s
}

func (g *dmGen) genStructIface() *dmIface {
	name := g.fresh("SI")
	i := &dmIface{name: name, q: g.qc}
	b := &dmBlk{}
	hdr := "access(all) struct interface " + name
	if len(g.sifaces) > 0 && g.chance(1, 2) {
		p := dmPick(g, g.sifaces)
		i.parents = append(i.parents, p)
		hdr += ": " + p.ref()
		g.feat("interface-inheritance")
	}
	b.open(hdr + " {")
	// required function with conditions
	req := &dmFnDecl{name: g.fresh("req"), params: []dmParam{{"_", "x", dmTInt}}, ret: dmTInt}
	cs := &dmScope{ctx: &dmFctx{view: true}}
	cb := &dmBlk{}
	g.conditions(cb, cs, req, g.inContract != "")
	if len(cb.lines) == 0 {
		b.add("%s", g.sig(req))
	} else {
		b.open(g.sig(req) + " {")
		for _, l := range cb.lines {
			b.add("%s", l)
		}
		b.close()
	}
	i.methods = append(i.methods, req)
	// default function
	df := &dmFnDecl{name: g.fresh("dflt"), params: []dmParam{{"_", "y", g.primType()}}, ret: dmPick(g, []*dmTy{dmTInt, dmTString, dmOpt(dmTInt)})}
	ds := &dmScope{ctx: &dmFctx{ret: df.ret, contract: g.inContract != ""}}
	ds.add(&dmVr{name: "y", t: df.params[0].t, live: true})
	b.open(g.sig(df) + " {")
	if g.chance(1, 2) {
		b.add("let q = self.%s(%d)", req.name, g.r.Intn(5))
		ds.add(&dmVr{name: "q", t: dmTInt, live: true})
	}
	g.returnStmt(b, ds, 2)
	b.close()
	i.methods = append(i.methods, df)
	b.close()
	g.sifaces = append(g.sifaces, i)
	g.addDecl(b)
	g.feat("struct-interface")
	return i
}

func (g *dmGen) fieldType() *dmTy {
	switch g.r.Intn(16) {
	case 0, 1, 2, 3:
		return g.primType()
	case 4, 5:
		return dmOpt(g.primType())
	case 6:
		return dmOpt(dmOpt(g.primType()))
	case 7, 8:
		return dmArr(g.primType())
	case 9:
		return dmDict(g.keyType(), g.primType())
	case 10, 11:
		if len(g.structs) > 0 {
			c := dmPick(g, g.structs)
			if g.chance(1, 2) {
				return dmOpt(c.t)
			}
			return c.t
		}
		return dmTInt
	case 12:
		if len(g.structs) > 0 {
			return dmArr(dmPick(g, g.structs).t)
		}
		return dmArr(dmOpt(dmTInt))
	case 13:
		return dmFun(dmTInt, dmTInt)
	case 14:
		return dmTAnyStruct
	default:
		return dmTInt
	}
}

func (g *dmGen) genStruct() *dmComp {
	name := g.fresh("S")
	c := &dmComp{name: name}
	c.t = &dmTy{k: dmKStruct, name: name, comp: c, q: g.qc}
	n := 1 + g.r.Intn(4)
	hasInt := false
	for i := 0; i < n; i++ {
		t := g.fieldType()
		if i == 0 && g.chance(2, 3) {
			t = dmTInt
		}
		if t.eq(dmTInt) {
			hasInt = true
		}
		c.fields = append(c.fields, dmField{name: fmt.Sprintf("f%d", i), t: t, mut: g.chance(2, 3), access: "all"})
	}
	_ = hasInt
	hdr := "access(all) struct " + name
	if len(g.sifaces) > 0 && g.chance(1, 2) {
		i := dmPick(g, g.sifaces)
		c.conf = append(c.conf, i)
		hdr += ": " + i.ref()
	}
	b := &dmBlk{}
	b.open(hdr + " {")
	var ps []string
	for _, f := range c.fields {
		kw := "let"
		if f.mut {
			kw = "var"
		}
		b.add("access(all) %s %s: %s", kw, f.name, f.t.String())
		ps = append(ps, f.name+": "+f.t.String())
	}
	b.open("init(%s) {", strings.Join(ps, ", "))
	for _, f := range c.fields {
		b.add("self.%s = %s", f.name, f.name)
	}
	b.close()
	selfScope := func(ctx *dmFctx) *dmScope {
		ctx.self = c
		s := &dmScope{ctx: ctx}
		for _, f := range c.fields {
			s.add(&dmVr{name: "self." + f.name, t: f.t, mut: f.mut && !ctx.view, field: true, live: true})
		}
		return s
	}
	// required interface functions
	for _, i := range c.conf {
		for _, m := range i.allMethods() {
			if !strings.HasPrefix(m.name, "req") {
				continue
			}
			impl := &dmFnDecl{name: m.name, params: m.params, ret: m.ret, mutating: true}
			s := selfScope(&dmFctx{ret: m.ret, contract: g.inContract != ""})
			s.add(&dmVr{name: "x", t: dmTInt, live: true})
			b.open(g.sig(impl) + " {")
			g.stmts(b, s, g.r.Intn(2), 2)
			g.returnStmt(b, s, 2)
			b.close()
			c.methods = append(c.methods, impl)
		}
	}
	// setters / getters
	for _, f := range c.fields {
		if f.mut && g.chance(1, 2) {
			m := &dmFnDecl{name: "set" + strings.ToUpper(f.name), params: []dmParam{{"_", "v", f.t}}, mutating: true}
			b.open(g.sig(m) + " {")
			b.add("self.%s = v", f.name)
			b.close()
			c.methods = append(c.methods, m)
		}
		if g.chance(1, 3) && f.t.k != dmKFun {
			m := &dmFnDecl{name: "get" + strings.ToUpper(f.name), ret: f.t, view: true}
			b.open(g.sig(m) + " {")
			b.add("return self.%s", f.name)
			b.close()
			c.methods = append(c.methods, m)
		}
	}
	// a computing method with conditions and a body
	if g.chance(3, 4) {
		m := &dmFnDecl{name: g.fresh("m"), params: []dmParam{{"_", "x", dmTInt}, {"", "o", dmOpt(g.primType())}}, ret: g.valueType(1), mutating: true}
		if m.ret.k == dmKFun {
			m.ret = dmTInt
		}
		s := selfScope(&dmFctx{ret: m.ret, contract: g.inContract != ""})
		s.add(&dmVr{name: "x", t: dmTInt, live: true})
		s.add(&dmVr{name: "o", t: m.params[1].t, live: true})
		b.open(g.sig(m) + " {")
		g.conditions(b, &dmScope{ctx: &dmFctx{view: true, self: c}}, m, false)
		g.stmts(b, s, 1+g.r.Intn(2), 2)
		g.fnEnd(b, s, 2)
		b.close()
		c.methods = append(c.methods, m)
	}
	b.close()
	g.structs = append(g.structs, c)
	g.addDecl(b)
	g.feat("struct")
	return c
}

// fnEnd ends a function body that returns a value: a plain return or an if/else returning in both
// branches without a trailing return.
func (g *dmGen) fnEnd(b *dmBlk, s *dmScope, d int) {
	if s.ctx.ret == nil {
		return
	}
	if g.chance(1, 3) {
		g.feat("return-in-both-branches")
		b.open("if %s {", g.boolExpr(s, d-1))
		g.returnStmt(b, s.child(), d)
		b.closeOpen("} else {")
		g.returnStmt(b, s.child(), d)
		b.close()
		return
	}
	g.returnStmt(b, s, d)
}

func (g *dmGen) paramType() *dmTy {
	switch g.r.Intn(14) {
	case 0, 1, 2:
		return g.primType()
	case 3, 4, 5:
		// optional parameters: arguments are boxed at the call
		t := g.valueType(1)
		if t.k == dmKFun || t.k == dmKOpt {
			t = dmTString
		}
		return dmOpt(t)
	case 6:
		if len(g.structs) > 0 {
			return dmRef(dmPick(g, g.structs).t)
		}
	case 7:
		return dmAref("Mutate", dmArr(g.primType()))
	case 8:
		return dmFun(g.primType(), dmTInt)
	case 9:
		return dmTAnyStruct
	case 10:
		if len(g.structs) > 0 {
			return dmOpt(dmPick(g, g.structs).t)
		}
	}
	return g.valueType(1)
}

func (g *dmGen) genFunc() *dmFnDecl {
	f := &dmFnDecl{name: g.fresh("f")}
	if g.inContract != "" {
		// contract functions are always called through the contract (`C.f(...)`), also inside it
		f.q = &dmQualCtx{prefix: g.inContract + ".", outside: true}
	}
	n := 1 + g.r.Intn(3)
	s := &dmScope{ctx: &dmFctx{contract: g.inContract != ""}}
	for i := 0; i < n; i++ {
		p := dmParam{label: dmPick(g, []string{"_", "_", "", "with"}), name: fmt.Sprintf("p%d", i), t: g.paramType()}
		if p.label == "with" {
			p.label = fmt.Sprintf("l%d", i)
		}
		f.params = append(f.params, p)
		s.add(&dmVr{name: p.name, t: p.t, live: true})
	}
	if g.chance(5, 6) {
		f.ret = g.valueType(1)
		if f.ret.k == dmKFun && g.chance(1, 2) {
			f.ret = dmTInt
		}
	}
	s.ctx.ret = f.ret
	b := &dmBlk{}
	b.open(g.sig(f) + " {")
	if g.chance(1, 3) {
		g.conditions(b, &dmScope{ctx: &dmFctx{view: true}}, f, false)
	}
	g.stmts(b, s, 1+g.r.Intn(3), 3)
	g.fnEnd(b, s, 3)
	b.close()
	g.funcs = append(g.funcs, f)
	g.addDecl(b)
	return f
}

// script assembles a complete script program.
func (g *dmGen) script() *dmScenario {
	g.rareKnown = g.chance(1, 40)
	if g.chance(2, 3) {
		g.genEnum()
	}
	if g.chance(1, 2) {
		g.genFunc()
	}
	for i, n := 0, g.r.Intn(3); i < n; i++ {
		g.genStructIface()
	}
	for i, n := 0, 1+g.r.Intn(3); i < n; i++ {
		g.genStruct()
	}
	for i, n := 0, 1+g.r.Intn(3); i < n; i++ {
		g.genFunc()
	}
	withRes := g.chance(3, 5)
	if withRes {
		g.genResourceDecls()
	}
	if g.chance(1, 4) {
		g.genEntitlementFamily()
	}
	if g.chance(1, 5) {
		g.genStructAttachment()
	}
	ret := g.valueType(1)
	if ret.k == dmKFun && g.chance(3, 4) {
		ret = dmTInt
	}
	b := &dmBlk{}
	s := &dmScope{ctx: &dmFctx{ret: ret}}
	b.open("access(all) fun main(): %s {", ret.String())
	g.stmts(b, s, 2+g.r.Intn(4), 3)
	if withRes {
		g.resPhase(b, s)
		if g.chance(1, 2) {
			g.stmts(b, s, 1+g.r.Intn(2), 2)
		}
	}
	if g.entFamily != nil && g.chance(4, 5) {
		g.entPhase(b, s)
	}
	if g.sAtt != nil {
		g.structAttachmentPhase(b, s)
	}
	g.returnStmt(b, s, 2)
	b.close()
	g.addDecl(b)
	sc := dmScriptScenario(strings.Join(g.decls, "\n"))
	sc.Features = g.features()
	return sc
}
