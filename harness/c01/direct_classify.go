package main

// Classification of execution outcomes for the direct monitor of C01 and derivation of the
// narrow failure keys used for known-finding matching.

import (
	"fmt"
	"reflect"
	"regexp"
	goruntime "runtime"
	"strings"

	"github.com/onflow/cadence/errors"
	"github.com/onflow/cadence/parser"
	"github.com/onflow/cadence/sema"
)

// walkErr visits every error reachable through Unwrap() error, Unwrap() []error and ChildErrors().
// f is called with the depth of the error; the walk is pre-order and complete (f cannot stop it).
func dmWalkErr(err error, depth int, f func(e error, depth int)) {
	if err == nil || depth > 80 {
		return
	}
	// typed nil pointers implementing error
	if v := reflect.ValueOf(err); v.Kind() == reflect.Ptr && v.IsNil() {
		return
	}
	f(err, depth)
	seen := false
	if u, ok := err.(interface{ Unwrap() error }); ok {
		dmWalkErr(u.Unwrap(), depth+1, f)
		seen = true
	}
	if u, ok := err.(interface{ Unwrap() []error }); ok {
		for _, e := range u.Unwrap() {
			dmWalkErr(e, depth+1, f)
		}
		seen = true
	}
	if !seen {
		if p, ok := err.(errors.ParentError); ok {
			for _, e := range p.ChildErrors() {
				dmWalkErr(e, depth+1, f)
			}
		}
	}
}

// verdict is the classified outcome of one execution.
type dmVerdict struct {
	Class  string // "" (success) | internal | crash | checker | parse | user | external
	GoType string // Go type of the innermost internal error (without package / pointer)
	Msg    string // first line of its message
	Frame  string // for UnexpectedError / Go panics: the function that raised it (pkg.Func)
	Phase  string // "checker" | "parser" when raised while checking / parsing (from the stack), else ""
	Stack  string // all onflow frames after the panic, space separated (for the detectors)
}

// Detail is the stable part of a failure: type, normalized message and raising function.
func (v dmVerdict) Detail() string {
	d := v.GoType + ": " + v.Msg
	if v.Frame != "" {
		d += " @" + v.Frame
	}
	return d
}

// sameFailure is the predicate preserved by the shrinker.
func (v dmVerdict) sameFailure(w dmVerdict) bool {
	return v.Class == w.Class && v.GoType == w.GoType && dmNormMsg(v.Msg) == dmNormMsg(w.Msg) && v.Frame == w.Frame
}

func dmTypeName(e any) string {
	n := fmt.Sprintf("%T", e)
	n = strings.TrimLeft(n, "*")
	if i := strings.LastIndex(n, "."); i >= 0 {
		n = n[i+1:]
	}
	return n
}

func dmFirstLine(s string) string {
	s = strings.TrimSpace(s)
	if i := strings.IndexByte(s, '\n'); i >= 0 {
		s = s[:i]
	}
	if len(s) > 240 {
		s = s[:240]
	}
	return s
}

// classifyC01 maps the result of an execution (returned error, escaped Go panic) to the classes of
// the property: "internal" when an errors.InternalError (UnexpectedError, defensive errors, storage
// health errors, ...) or a Go runtime error is anywhere in the error chain; "crash" for a Go panic that
// escaped the runtime; "checker"/"parse" for rejected programs; "external" for host errors; "user"
// for everything else. Classification is by Go type, never by message text.
func dmClassifyC01(err error, pnc any) (class string, detail string) {
	v := dmClassify(err, pnc)
	return v.Class, v.Detail()
}

func dmClassify(err error, pnc any) dmVerdict {
	if pnc != nil {
		v := dmVerdict{Class: "crash", GoType: dmTypeName(pnc), Msg: dmFirstLine(fmt.Sprint(pnc))}
		if e, ok := pnc.(error); ok {
			// a panic that escaped the runtime; it may carry an internal error with a stack
			w := dmClassify(e, nil)
			if w.Class == "internal" {
				w.Class = "crash"
				return w
			}
		}
		return v
	}
	if err == nil {
		return dmVerdict{}
	}
	var (
		internal      error
		internalDepth = -1
		goErr         error
		goDepth       = -1
		checker       bool
		parse         bool
		external      bool
	)
	dmWalkErr(err, 0, func(e error, d int) {
		switch e.(type) {
		case *sema.CheckerError, sema.CheckerError:
			checker = true
		case parser.Error, *parser.Error:
			parse = true
		case errors.ExternalError, *errors.ExternalError, errors.ExternalNonError:
			external = true
		}
		if _, ok := e.(errors.InternalError); ok && d >= internalDepth {
			internal, internalDepth = e, d
		}
		if _, ok := e.(goruntime.Error); ok && d >= goDepth {
			goErr, goDepth = e, d
		}
	})
	if internal != nil || goErr != nil {
		v := dmVerdict{Class: "internal"}
		if internal != nil {
			v.GoType = dmTypeName(internal)
			if ue, ok := internal.(errors.UnexpectedError); ok {
				v.Msg = dmFirstLine(ue.Err.Error())
				v.Frame, v.Phase, v.Stack = dmRaisingFrame(string(ue.Stack))
			} else {
				v.Msg = dmFirstLine(internal.Error())
			}
			v.Msg = strings.TrimSpace(strings.TrimPrefix(v.Msg, errors.InternalErrorMessagePrefix))
		} else {
			v.GoType = "GoRuntimeError"
			v.Msg = dmFirstLine(goErr.Error())
		}
		if goErr != nil && v.GoType == "UnexpectedError" {
			v.GoType = "UnexpectedError(GoRuntimeError)"
		}
		return v
	}
	switch {
	case parse:
		return dmVerdict{Class: "parse"}
	case checker:
		return dmVerdict{Class: "checker"}
	case external:
		// describe the innermost error of the chain
		var deepest error
		deepestDepth := -1
		dmWalkErr(err, 0, func(e error, d int) {
			if d >= deepestDepth {
				deepest, deepestDepth = e, d
			}
		})
		return dmVerdict{Class: "external", GoType: dmTypeName(deepest), Msg: dmFirstLine(deepest.Error())}
	}
	// innermost error type, for the distribution only
	var inner error
	dmWalkErr(err, 0, func(e error, d int) {
		if _, ok := e.(errors.UserError); ok {
			inner = e
		}
	})
	v := dmVerdict{Class: "user"}
	if inner != nil {
		v.GoType = dmTypeName(inner)
	} else {
		// neither user nor internal nor external: the runtime wraps such errors in UnexpectedError,
		// so this is unexpected; treat as internal to be safe (never observed on the pinned tree)
		v.Class = "internal"
		v.GoType = dmTypeName(err)
		v.Msg = dmFirstLine(err.Error())
	}
	return v
}

var dmFrameRe = regexp.MustCompile(`^github\.com/onflow/(cadence|atree)/([A-Za-z0-9_/\-]+)\.(.+?)(\(.*)?$`)

// raisingFrame extracts from a debug.Stack() dump the function that raised the error and the phase
// in which it happened: the frames considered are the onflow frames after the last `panic(` line
// (recovered Go panic), else all onflow frames, without the errors package and the panic-conversion
// helpers. phase = "checker" / "parser" when the stack runs through the checker / parser and not through
// an execution engine; then the reported function is the first frame of that package.
func dmRaisingFrame(stack string) (fn string, phase string, all string) {
	if stack == "" {
		return "", "", ""
	}
	lines := strings.Split(stack, "\n")
	start := 0
	for i, l := range lines {
		if strings.HasPrefix(l, "panic(") {
			start = i + 1
		}
	}
	type fr struct{ pkg, fn string }
	var frames []fr
	for _, l := range lines[start:] {
		if strings.HasPrefix(l, "\t") || l == "" {
			continue
		}
		m := dmFrameRe.FindStringSubmatch(l)
		if m == nil {
			continue
		}
		p, f := m[2], m[3]
		if m[1] == "atree" {
			p = "atree"
		}
		if p == "errors" || strings.HasSuffix(p, "/errors") {
			continue
		}
		// strip closure suffixes and receiver decoration
		f = dmReClosure.ReplaceAllString(f, "")
		f = strings.NewReplacer("(*", "", ")", "", "[...]", "").Replace(f)
		if p == "runtime" && (strings.HasPrefix(f, "UserPanicToError") || strings.HasPrefix(f, "Recover") || strings.HasPrefix(f, "GetWrappedError")) {
			continue
		}
		if i := strings.LastIndex(p, "/"); i >= 0 {
			p = p[i+1:]
		}
		frames = append(frames, fr{p, f})
	}
	if len(frames) == 0 {
		return "", "", ""
	}
	var names []string
	for _, x := range frames {
		names = append(names, x.pkg+"."+x.fn)
	}
	all = strings.Join(names, " ")
	has := func(pkg, prefix string) bool {
		for _, x := range frames {
			if x.pkg == pkg && strings.HasPrefix(x.fn, prefix) {
				return true
			}
		}
		return false
	}
	executing := has("interpreter", "Interpreter.") || has("vm", "") || has("compiler", "") || has("interpreter", "FunctionValue")
	switch {
	case !executing && has("sema", "Checker."):
		phase = "checker"
		for _, x := range frames {
			if x.pkg == "sema" {
				return "sema." + x.fn, phase, all
			}
		}
	case !executing && (has("parser", "") || has("lexer", "")):
		phase = "parser"
		for _, x := range frames {
			if x.pkg == "parser" || x.pkg == "lexer" {
				return x.pkg + "." + x.fn, phase, all
			}
		}
	}
	return frames[0].pkg + "." + frames[0].fn, phase, all
}

var dmReClosure = regexp.MustCompile(`\.func\d+(\.\d+)*$`)

var (
	dmReBacktick = regexp.MustCompile("`[^`]*`")
	dmReQuoted   = regexp.MustCompile(`"[^"]*"|'[^']*'`)
	dmReHex      = regexp.MustCompile(`0x[0-9a-fA-F]+`)
	dmReNum      = regexp.MustCompile(`[0-9]+`)
	dmReSpace    = regexp.MustCompile(`\s+`)
)

// normMsg strips identifiers in quotes, types in backticks, numbers and addresses from a message.
func dmNormMsg(s string) string {
	s = dmReBacktick.ReplaceAllString(s, "_")
	s = dmReQuoted.ReplaceAllString(s, "_")
	s = dmReHex.ReplaceAllString(s, "N")
	s = dmReNum.ReplaceAllString(s, "N")
	s = dmReSpace.ReplaceAllString(strings.TrimSpace(s), " ")
	if len(s) > 100 {
		s = s[:100]
	}
	return s
}

// ------------------------------------------------------------------ failure keys

// programText is the concatenated source of a scenario (all steps), used by the syntactic detectors.
func (sc *dmScenario) programText() string {
	var sb strings.Builder
	for _, st := range sc.Steps {
		sb.WriteString(st.Code)
		sb.WriteString("\n")
	}
	return sb.String()
}

var (
	// `x.f[i] <-> y`, `y <-> self.f[k]`: swap with an index expression on a member as one operand
	dmReSwapMemberIndex = regexp.MustCompile(`[A-Za-z_][A-Za-z0-9_]*(\.[A-Za-z_][A-Za-z0-9_]*)+\[[^\]\n]*\]\s*<->|<->\s*[A-Za-z_][A-Za-z0-9_]*(\.[A-Za-z_][A-Za-z0-9_]*)+\[[^\]\n]*\]`)
	// `(c ? a : b)?.` optional chaining directly on a parenthesized conditional
	// a conditional expression with a `nil` branch: `c ? x : nil`, `c ? nil : x`
	dmReCondNil         = regexp.MustCompile(`\?[^?:\n]*:\s*nil\b|\?\s*nil\s*:`)
	dmReOptChainCond    = regexp.MustCompile(`\([^()\n]*(\([^()\n]*\)[^()\n]*)*\?[^()\n]*(\([^()\n]*\)[^()\n]*)*:[^()\n]*(\([^()\n]*\)[^()\n]*)*\)\s*\?\.`)
	dmReAdd             = regexp.MustCompile(`\.contracts\.add\(`)
	dmReRemove          = regexp.MustCompile(`\.contracts\.remove\(`)
	dmReBorrowC         = regexp.MustCompile(`\.contracts\.borrow<`)
	dmReEmitCond        = regexp.MustCompile(`(?s)(pre|post)\s*\{[^}]*emit\s`)
	dmReImport          = regexp.MustCompile(`(?m)^\s*import\s`)
	dmReRangeArity      = regexp.MustCompile(`InclusiveRange<[^<>]*,`)
	dmReContainerInsert = regexp.MustCompile(`\.(append|insert)\b`)
	dmReDestroyEvent    = regexp.MustCompile(`event\s+ResourceDestroyed`)
	dmReOptChainCall    = regexp.MustCompile(`\?\.\w+\(`)
	dmReForceCastOptRes = regexp.MustCompile(`as!\s*@[^\n;]*\?`)
	dmReRefToArray      = regexp.MustCompile(`as\s+(auth\([^)]*\)\s*)?&\[`)
	dmReArrayCopyFn     = regexp.MustCompile(`\.(slice|concat|filter|map|reverse|toVariableSized|toConstantSized)\(`)
)

// featureSignature names the known defect shape a (shrunk) failing program exhibits, from the Go type
// of the error, the raising function and a few syntactic detectors; "" when none matches.
// Every signature requires BOTH the specific error and the specific syntax, so that a new defect
// cannot be absorbed by a known key.
func dmFeatureSignature(v dmVerdict, engine string, text string, failingStepKind string) string {
	msg := dmNormMsg(v.Msg)
	switch {
	case v.GoType == "InvalidatedResourceError" && engine == "interpreter" && dmReSwapMemberIndex.MatchString(text):
		return "swap-index-on-resource-field"
	case v.GoType == "MemberAccessTypeError" && engine == "interpreter" && strings.Contains(text, "?.") &&
		(dmReOptChainCond.MatchString(text) || dmReCondNil.MatchString(text)):
		// optional chaining on the (unboxed) value of a conditional with a nil branch
		return "optchain-on-conditional"
	case strings.HasPrefix(v.GoType, "UnexpectedError") && engine == "interpreter" &&
		strings.Contains(v.Msg, "nil pointer dereference") && strings.HasSuffix(v.Frame, "CompositeValue.SetNestedVariables") &&
		dmReAdd.MatchString(text) && dmReBorrowC.MatchString(text):
		return "contracts-borrow-after-add"
	case v.GoType == "UnreferencedRootSlabsError" && dmReAdd.MatchString(text) && dmReRemove.MatchString(text):
		return "contracts-add-then-remove"
	case v.GoType == "UnexpectedError" && (strings.HasPrefix(v.Frame, "interpreter.Convert") || strings.HasPrefix(v.Frame, "interpreter.convert.") ||
		strings.HasPrefix(msg, "can_t convert to") || strings.HasPrefix(v.Msg, "can't convert to")) && dmReContainerInsert.MatchString(text):
		// a value inserted through a covariant alias ([AnyStruct] of a [Int8]) is converted to the number
		// element type before its type is checked
		return "covariant-container-insert-number-convert"
	case v.GoType == "UnreachableInstructionError" && dmReOptChainCall.MatchString(text) && strings.Contains(text, "): Never"):
		// `s?.halt()` with halt(): Never is counted as a definite halt by the checker (no missing-return
		// error), the function then falls off its end
		return "optchain-never-call-definite-halt"
	case v.GoType == "InvalidatedResourceError" && engine == "interpreter" && dmReForceCastOptRes.MatchString(text):
		// `<- r as! @R?` followed by a use of the result
		return "force-cast-resource-to-optional"
	case v.GoType == "ValueTransferTypeError" && dmReRefToArray.MatchString(text) && dmReArrayCopyFn.MatchString(text):
		// slice/concat/... through a reference whose element type is wider than the array's
		return "array-copy-through-wider-reference"
	case strings.HasPrefix(v.GoType, "UnexpectedError") && engine == "interpreter" &&
		strings.Contains(v.Msg, "nil pointer dereference") && strings.HasSuffix(v.Frame, "EphemeralReferenceValue.StaticType"):
		// plain copy of a reference whose resource was moved/destroyed (known_findings/C04.json)
		return "copy-invalidated-reference"
	case strings.HasPrefix(v.GoType, "UnexpectedError") && engine == "vm" && strings.HasPrefix(msg, "cannot find global declaration") &&
		dmReEmitCond.MatchString(text) && dmReImport.MatchString(text):
		return "vm-inherited-emit-condition-foreign-type"
	}
	return ""
}

// failureKey builds the key of a failure from its verdict, engine and (shrunk) program.
func dmFailureKey(v dmVerdict, engine string, sc *dmScenario, failingStep int) string {
	text := sc.programText()
	dmKind := ""
	if failingStep >= 0 && failingStep < len(sc.Steps) {
		dmKind = sc.Steps[failingStep].Kind
	}
	// crashes of the checker / parser: engine independent
	if v.Phase != "" {
		sig := v.Frame
		switch {
		case strings.Contains(v.Stack, "Checker.checkDefaultDestroyEvent") && dmReDestroyEvent.MatchString(text):
			sig = "checkDefaultDestroyEvent"
		case strings.Contains(v.Stack, "InclusiveRangeType") && dmReRangeArity.MatchString(text):
			sig = "InclusiveRangeType-wrong-arity"
		default:
			sig = v.Frame + ":" + dmNormMsg(v.Msg)
		}
		return v.Phase + "-crash:" + sig
	}
	sig := dmFeatureSignature(v, engine, text, dmKind)
	if sig == "" {
		sig = "other:" + dmNormMsg(v.Msg)
		if v.Frame != "" {
			sig += "@" + v.Frame
		}
	}
	cls := v.Class
	return cls + ":" + engine + ":" + v.GoType + ":" + sig
}

// engineIndependent reports whether a key carries no engine (checker / parser crashes).
func dmEngineIndependent(key string) bool {
	return strings.HasPrefix(key, "checker-crash:") || strings.HasPrefix(key, "parser-crash:")
}
