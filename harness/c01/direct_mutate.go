package main

// Mutation of accepted programs: small textual edits that keep the program syntactically valid and
// often type-correct (the real checker decides; rejected mutants are simply not counted). The mutants
// exercise near-miss programs: a checker that wrongly accepts one of them exposes the runtime to values
// it does not expect, which the monitor sees as an internal error.

import (
	"regexp"
	"strings"

	"cvh/lib"
)

var (
	dmReDeclOpt     = regexp.MustCompile(`^(\s*(?:let|var) \w+): ([^=]+?)\? = (.+)$`)
	dmReDeclAny     = regexp.MustCompile(`^(\s*(?:let|var) \w+): ([^=@]+?) = (.+)$`)
	dmReDeclNoAnno  = regexp.MustCompile(`^(\s*)(let|var) (\w+) (=|<-) (.+)$`)
	dmReLetVar      = regexp.MustCompile(`^(\s*)(let|var) `)
	dmReIdent       = regexp.MustCompile(`\b(?:v|p|u|r|x|y|a|i|acc|o|q|old|z|rs|rd|ref|any|nf|rm)\d+\b`)
	dmReSmallInt    = regexp.MustCompile(`\b\d\b`)
	dmReForce       = regexp.MustCompile(`([\w\)\]])!`)
	dmReOptParam    = regexp.MustCompile(`(\w+: [A-Za-z0-9_.\[\]{}: ]+?)\?([,)])`)
	dmReFieldOpt    = regexp.MustCompile(`^(\s*access\(all\) (?:let|var) \w+: .+?)\?$`)
	dmReCoalesce    = regexp.MustCompile(` \?\? `)
	dmReRetType     = regexp.MustCompile(`\): ([A-Za-z0-9_.]+)\? \{$`)
	dmReArrAnno     = regexp.MustCompile(`: \[([A-Za-z0-9_.]+)\] = `)
	dmReStmtLine    = regexp.MustCompile(`^\s+\S`)
	dmReIfCond      = regexp.MustCompile(`^(\s*)if (.+) \{$`)
	dmReReturn      = regexp.MustCompile(`^\s*return\b`)
	dmReOptChainDot = regexp.MustCompile(`\?\.`)
)

type dmMutOp struct {
	name string
	f    func(r *lib.Rng, lines []string) ([]string, bool)
}

// pickLine returns the index of a random line satisfying pred, or -1.
func dmPickLine(r *lib.Rng, lines []string, pred func(string) bool) int {
	var idx []int
	for i, l := range lines {
		if pred(l) {
			idx = append(idx, i)
		}
	}
	if len(idx) == 0 {
		return -1
	}
	return idx[r.Intn(len(idx))]
}

func dmReplaceNth(re *regexp.Regexp, s string, n int, repl func(m []string) string) string {
	locs := re.FindAllStringSubmatchIndex(s, -1)
	if n >= len(locs) {
		return s
	}
	loc := locs[n]
	var m []string
	for i := 0; i < len(loc); i += 2 {
		if loc[i] < 0 {
			m = append(m, "")
		} else {
			m = append(m, s[loc[i]:loc[i+1]])
		}
	}
	return s[:loc[0]] + repl(m) + s[loc[1]:]
}

func dmIsPlainStmt(l string) bool {
	t := strings.TrimSpace(l)
	if t == "" || t == "}" || strings.HasSuffix(t, "{") || strings.HasPrefix(t, "}") || strings.HasPrefix(t, "access(") ||
		strings.HasPrefix(t, "case ") || t == "default:" || strings.HasPrefix(t, "import ") || strings.HasPrefix(t, "init(") ||
		strings.HasPrefix(t, "pre ") || strings.HasPrefix(t, "post ") || strings.HasPrefix(t, "})") {
		return false
	}
	return dmReStmtLine.MatchString(l)
}

func dmLineMut(re *regexp.Regexp, repl func(r *lib.Rng, m []string) string) func(r *lib.Rng, lines []string) ([]string, bool) {
	return func(r *lib.Rng, lines []string) ([]string, bool) {
		i := dmPickLine(r, lines, func(l string) bool { return re.MatchString(l) && !strings.Contains(l, "decodeHex") })
		if i < 0 {
			return nil, false
		}
		out := append([]string{}, lines...)
		n := len(re.FindAllStringIndex(lines[i], -1))
		k := r.Intn(n)
		out[i] = dmReplaceNth(re, lines[i], k, func(m []string) string { return repl(r, m) })
		return out, out[i] != lines[i]
	}
}

var dmMutOps = []dmMutOp{
	{"annot-add-optional", dmLineMut(dmReDeclAny, func(r *lib.Rng, m []string) string {
		if strings.HasSuffix(m[2], "?") {
			return m[0]
		}
		t := m[2]
		if strings.HasPrefix(t, "&") || strings.HasPrefix(t, "auth") || strings.HasPrefix(t, "fun") {
			t = "(" + t + ")"
		}
		return m[1] + ": " + t + "? = " + m[3]
	})},
	{"annot-drop-optional", dmLineMut(dmReDeclOpt, func(r *lib.Rng, m []string) string {
		return m[1] + ": " + m[2] + " = " + m[3]
	})},
	{"annot-to-anystruct", dmLineMut(dmReDeclAny, func(r *lib.Rng, m []string) string {
		return m[1] + ": AnyStruct = " + m[3]
	})},
	{"annot-drop", dmLineMut(dmReDeclAny, func(r *lib.Rng, m []string) string {
		return m[1] + " = " + m[3]
	})},
	{"let-var", dmLineMut(dmReLetVar, func(r *lib.Rng, m []string) string {
		if m[2] == "let" {
			return m[1] + "var "
		}
		return m[1] + "let "
	})},
	{"wrap-conditional-nil", dmLineMut(dmReDeclOpt, func(r *lib.Rng, m []string) string {
		c := []string{"true", "false", "(1 < 2)"}[r.Intn(3)]
		return m[1] + ": " + m[2] + "? = (" + c + " ? " + m[3] + " : nil)"
	})},
	{"wrap-conditional-same", dmLineMut(dmReDeclAny, func(r *lib.Rng, m []string) string {
		c := []string{"true", "false"}[r.Intn(2)]
		return m[1] + ": " + m[2] + " = (" + c + " ? " + m[3] + " : " + m[3] + ")"
	})},
	{"cast-through-anystruct", dmLineMut(dmReDeclAny, func(r *lib.Rng, m []string) string {
		if strings.Contains(m[2], "&") || strings.Contains(m[2], "fun") {
			return m[0]
		}
		op := []string{"as!", "as?"}[r.Intn(2)]
		if op == "as?" {
			return m[1] + ": " + m[2] + "? = ((" + m[3] + ") as AnyStruct) as? " + m[2]
		}
		return m[1] + ": " + m[2] + " = ((" + m[3] + ") as AnyStruct) as! " + m[2]
	})},
	{"drop-force-unwrap", dmLineMut(dmReForce, func(r *lib.Rng, m []string) string { return m[1] })},
	{"drop-coalescing", func(r *lib.Rng, lines []string) ([]string, bool) {
		// `(a ?? b)` -> `(a)` : cut from ` ?? ` to the matching close parenthesis
		i := dmPickLine(r, lines, func(l string) bool { return dmReCoalesce.MatchString(l) && !strings.Contains(l, "decodeHex") })
		if i < 0 {
			return nil, false
		}
		l := lines[i]
		locs := dmReCoalesce.FindAllStringIndex(l, -1)
		loc := locs[r.Intn(len(locs))]
		depth := 0
		end := -1
		inStr := false
		for j := loc[1]; j < len(l); j++ {
			c := l[j]
			if inStr {
				if c == '\\' {
					j++
				} else if c == '"' {
					inStr = false
				}
				continue
			}
			switch c {
			case '"':
				inStr = true
			case '(', '[', '{':
				depth++
			case ')', ']', '}':
				if depth == 0 {
					end = j
				}
				depth--
			}
			if end >= 0 {
				break
			}
		}
		if end < 0 {
			end = len(l)
		}
		out := append([]string{}, lines...)
		out[i] = l[:loc[0]] + l[end:]
		return out, true
	}},
	{"optchain-to-member", dmLineMut(dmReOptChainDot, func(r *lib.Rng, m []string) string { return "." })},
	{"cast-kind", dmLineMut(regexp.MustCompile(` as[!?]? `), func(r *lib.Rng, m []string) string {
		return []string{" as ", " as! ", " as? "}[r.Intn(3)]
	})},
	{"param-drop-optional", dmLineMut(dmReOptParam, func(r *lib.Rng, m []string) string { return m[1] + m[2] })},
	{"field-drop-optional", dmLineMut(dmReFieldOpt, func(r *lib.Rng, m []string) string { return m[1] })},
	{"return-type-drop-optional", dmLineMut(dmReRetType, func(r *lib.Rng, m []string) string { return "): " + m[1] + " {" })},
	{"array-annot-optional-elements", dmLineMut(dmReArrAnno, func(r *lib.Rng, m []string) string { return ": [" + m[1] + "?] = " })},
	{"replace-variable", func(r *lib.Rng, lines []string) ([]string, bool) {
		i := dmPickLine(r, lines, func(l string) bool { return dmReIdent.MatchString(l) && !strings.Contains(l, "decodeHex") })
		if i < 0 {
			return nil, false
		}
		// identifiers seen up to this line
		seen := map[string]bool{}
		var ids []string
		for _, l := range lines[:i+1] {
			for _, id := range dmReIdent.FindAllString(l, -1) {
				if !seen[id] {
					seen[id] = true
					ids = append(ids, id)
				}
			}
		}
		if len(ids) < 2 {
			return nil, false
		}
		locs := dmReIdent.FindAllStringIndex(lines[i], -1)
		loc := locs[r.Intn(len(locs))]
		old := lines[i][loc[0]:loc[1]]
		// prefer an identifier with the same prefix (same kind of variable)
		pre := strings.TrimRight(old, "0123456789")
		var same []string
		for _, id := range ids {
			if id != old && strings.TrimRight(id, "0123456789") == pre {
				same = append(same, id)
			}
		}
		pool := ids
		if len(same) > 0 && r.Chance(3, 4) {
			pool = same
		}
		nw := pool[r.Intn(len(pool))]
		if nw == old {
			return nil, false
		}
		out := append([]string{}, lines...)
		out[i] = lines[i][:loc[0]] + nw + lines[i][loc[1]:]
		return out, true
	}},
	{"move-nested-resource", func(r *lib.Rng, lines []string) ([]string, bool) {
		// `<- r5` -> `<- q3.one` / `<- q3.arr[0]` / `<- q3.opt`: move out of a nested position
		re := regexp.MustCompile(`<-\s*r\d+\b`)
		i := dmPickLine(r, lines, func(l string) bool { return re.MatchString(l) })
		if i < 0 {
			return nil, false
		}
		var qs []string
		seen := map[string]bool{}
		for _, l := range lines[:i] {
			for _, id := range regexp.MustCompile(`\b(?:q|rs|qr)\d+\b`).FindAllString(l, -1) {
				if !seen[id] {
					seen[id] = true
					qs = append(qs, id)
				}
			}
		}
		if len(qs) == 0 {
			return nil, false
		}
		q := qs[r.Intn(len(qs))]
		path := q + []string{".one", ".arr[0]", ".opt"}[r.Intn(3)]
		if strings.HasPrefix(q, "rs") {
			path = q + "[0]"
		}
		out := append([]string{}, lines...)
		out[i] = dmReplaceNth(re, lines[i], 0, func(m []string) string { return "<- " + path })
		return out, true
	}},
	{"drop-statement", func(r *lib.Rng, lines []string) ([]string, bool) {
		i := dmPickLine(r, lines, dmIsPlainStmt)
		if i < 0 {
			return nil, false
		}
		out := append(append([]string{}, lines[:i]...), lines[i+1:]...)
		return out, true
	}},
	{"drop-return", func(r *lib.Rng, lines []string) ([]string, bool) {
		i := dmPickLine(r, lines, func(l string) bool { return dmReReturn.MatchString(l) })
		if i < 0 {
			return nil, false
		}
		out := append(append([]string{}, lines[:i]...), lines[i+1:]...)
		return out, true
	}},
	{"drop-block", func(r *lib.Rng, lines []string) ([]string, bool) {
		i := dmPickLine(r, lines, func(l string) bool {
			t := strings.TrimSpace(l)
			return strings.HasSuffix(t, "{") && (strings.HasPrefix(t, "if ") || strings.HasPrefix(t, "while ") || strings.HasPrefix(t, "for ") || strings.HasPrefix(t, "} else"))
		})
		if i < 0 {
			return nil, false
		}
		e := dmBlockEndFrom(lines, i)
		if e <= i {
			return nil, false
		}
		t := strings.TrimSpace(lines[i])
		out := append([]string{}, lines[:i]...)
		if strings.HasPrefix(t, "} else") {
			// keep the closing brace of the preceding branch
			out = append(out, strings.Repeat(" ", len(lines[i])-len(strings.TrimLeft(lines[i], " ")))+"}")
		}
		if strings.HasPrefix(strings.TrimSpace(lines[e]), "} else") {
			return nil, false
		}
		out = append(out, lines[e+1:]...)
		return out, true
	}},
	{"swap-statements", func(r *lib.Rng, lines []string) ([]string, bool) {
		i := dmPickLine(r, lines[:dmImax(len(lines)-1, 0)], dmIsPlainStmt)
		if i < 0 || i+1 >= len(lines) || !dmIsPlainStmt(lines[i+1]) {
			return nil, false
		}
		out := append([]string{}, lines...)
		out[i], out[i+1] = out[i+1], out[i]
		return out, true
	}},
	{"duplicate-statement", func(r *lib.Rng, lines []string) ([]string, bool) {
		i := dmPickLine(r, lines, func(l string) bool {
			t := strings.TrimSpace(l)
			return dmIsPlainStmt(l) && !strings.HasPrefix(t, "let ") && !strings.HasPrefix(t, "var ") && !strings.HasPrefix(t, "return") && !strings.HasPrefix(t, "fun ")
		})
		if i < 0 {
			return nil, false
		}
		out := append([]string{}, lines[:i+1]...)
		out = append(out, lines[i])
		out = append(out, lines[i+1:]...)
		return out, true
	}},
	{"duplicate-resource-statement", func(r *lib.Rng, lines []string) ([]string, bool) {
		// use after invalidation: a statement that moves or destroys a resource is repeated
		i := dmPickLine(r, lines, func(l string) bool {
			t := strings.TrimSpace(l)
			return dmIsPlainStmt(l) && (strings.HasPrefix(t, "destroy ") || (strings.Contains(t, "<-") && !strings.HasPrefix(t, "let ") && !strings.HasPrefix(t, "var ") && !strings.HasPrefix(t, "return")))
		})
		if i < 0 {
			return nil, false
		}
		out := append([]string{}, lines[:i+1]...)
		out = append(out, lines[i])
		out = append(out, lines[i+1:]...)
		return out, true
	}},
	{"destroy-earlier", func(r *lib.Rng, lines []string) ([]string, bool) {
		// move a `destroy x` up by one or two statements (before a use of x)
		i := dmPickLine(r, lines, func(l string) bool { return strings.HasPrefix(strings.TrimSpace(l), "destroy ") })
		if i < 1 {
			return nil, false
		}
		j := i - 1 - r.Intn(2)
		if j < 0 || !dmIsPlainStmt(lines[j]) || !dmIsPlainStmt(lines[i-1]) {
			return nil, false
		}
		out := append([]string{}, lines[:j]...)
		out = append(out, lines[i])
		out = append(out, lines[j:i]...)
		out = append(out, lines[i+1:]...)
		return out, true
	}},
	{"move-statement-later", func(r *lib.Rng, lines []string) ([]string, bool) {
		// move a plain statement a few lines down within the same block (same indentation, no braces crossed)
		i := dmPickLine(r, lines, dmIsPlainStmt)
		if i < 0 {
			return nil, false
		}
		ind := len(lines[i]) - len(strings.TrimLeft(lines[i], " "))
		j := i
		for j+1 < len(lines) && dmIsPlainStmt(lines[j+1]) && len(lines[j+1])-len(strings.TrimLeft(lines[j+1], " ")) == ind && j-i < 4 {
			j++
		}
		if j == i {
			return nil, false
		}
		k := i + 1 + r.Intn(j-i)
		out := append([]string{}, lines[:i]...)
		out = append(out, lines[i+1:k+1]...)
		out = append(out, lines[i])
		out = append(out, lines[k+1:]...)
		return out, true
	}},
	{"literal-change", dmLineMut(dmReSmallInt, func(r *lib.Rng, m []string) string {
		return []string{"0", "1", "2", "5", "9", "100", "127", "128", "255", "256"}[r.Intn(10)]
	})},
	{"negate-condition", dmLineMut(dmReIfCond, func(r *lib.Rng, m []string) string {
		if strings.HasPrefix(m[2], "let ") || strings.HasPrefix(m[2], "var ") {
			return m[0]
		}
		return m[1] + "if !(" + m[2] + ") {"
	})},
	{"nil-argument", dmLineMut(regexp.MustCompile(`\(([a-z]\w*): [^,()]+([,)])`), func(r *lib.Rng, m []string) string {
		return "(" + m[1] + ": nil" + m[2]
	})},
}

func dmImax(a, b int) int {
	if a > b {
		return a
	}
	return b
}

func dmBlockEndFrom(lines []string, i int) int {
	depth := 0
	for j := i; j < len(lines); j++ {
		t := lines[j]
		for k, ch := range t {
			switch ch {
			case '{':
				depth++
			case '}':
				// the leading `}` of `} else {` closes the previous block
				if j == i && k <= strings.Index(t, "}") {
					continue
				}
				depth--
			}
		}
		if j > i && depth <= 0 {
			return j
		}
	}
	return -1
}

// mutate derives a mutant of an accepted program (1 or 2 edits in one step), or nil.
func dmMutate(r *lib.Rng, sc *dmScenario) *dmScenario {
	out := sc.clone()
	out.Mutant = ""
	out.Key = ""
	// choose the step: scripts / transactions preferred over contract code
	si := 0
	if len(out.Steps) > 1 {
		var cand []int
		for i, st := range out.Steps {
			if strings.Contains(st.Code, "decodeHex") && !strings.Contains(st.Code, "log(") {
				continue // contract update transactions
			}
			cand = append(cand, i)
			if st.Kind != "deploy" {
				cand = append(cand, i, i)
			}
		}
		if len(cand) == 0 {
			return nil
		}
		si = cand[r.Intn(len(cand))]
	}
	lines := strings.Split(out.Steps[si].Code, "\n")
	n := 1
	if r.Chance(1, 4) {
		n = 2
	}
	var names []string
	for k := 0; k < n; k++ {
		done := false
		for try := 0; try < 6 && !done; try++ {
			op := dmMutOps[r.Intn(len(dmMutOps))]
			nl, ok := op.f(r, lines)
			if ok {
				lines = nl
				names = append(names, op.name)
				done = true
			}
		}
	}
	if len(names) == 0 {
		return nil
	}
	out.Steps[si].Code = strings.Join(lines, "\n")
	out.Mutant = strings.Join(names, "+")
	return out
}
