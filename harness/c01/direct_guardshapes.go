package main

// Control-flow shapes around `guard`: both forms (`guard <bool> else {}` and `guard let x = <opt> else {}`)
// at function level, inside while / for-in loops and inside switch cases, with else blocks that do or do
// not definitely exit (return, break, continue, panic, conditional break/continue, nested if/else,
// mixed exits, empty), optionally preceded by a conditional break/continue in the same loop body, and
// the analogous `if let` / plain-if endings of non-Void functions. The domain is small and is
// enumerated exhaustively on every run. The inputs make the guard FAIL at run time (nil / false) and
// make every conditional jump in the else block fall through, so that an else block the checker
// wrongly accepted is actually left at its end (UnreachableInstructionError in both engines).
// Most programs are (rightly) rejected by the checker and then only cost a check.

import (
	"fmt"
	"strings"
)

type dmGSElse struct {
	name string
	body string // statements of the else block; %J = the jump usable in the context (break/continue/return)
	jump bool   // needs a loop or switch context
}

var dmGSElses = []dmGSElse{
	{"return", "return 10", false},
	{"panic", "panic(\"p\")", false},
	{"empty", "", false},
	{"log-only", "n = n + 1", false},
	{"if-return", "if never { return 11 }", false},
	{"if-return-else-panic", "if never { return 12 } else { panic(\"q\") }", false},
	{"if-return-else-empty", "if never { return 13 } else { }", false},
	{"nested-all-exit", "if never { if never { return 14 } else { panic(\"r\") } } else { return 15 }", false},
	{"nested-one-falls", "if never { if never { return 16 } } else { return 17 }", false},
	{"break", "break", true},
	{"continue", "continue", true},
	{"if-break", "if never { break }", true},
	{"if-continue", "if never { continue }", true},
	{"if-break-else-continue", "if never { break } else { continue }", true},
	{"if-break-else-return", "if never { break } else { return 18 }", true},
	{"if-break-else-empty", "if never { break } else { }", true},
	{"if-return-else-break-falls", "if never { return 19 } else { if never { break } }", true},
	{"while-break", "while never { break }", false},
}

// dmGuardShapeScripts enumerates the programs.
func dmGuardShapeScripts() []*dmScenario {
	var out []*dmScenario
	emit := func(src string, feats ...string) {
		sc := dmScriptScenario(src)
		sc.Mutant = "guard-shapes"
		for _, f := range feats {
			sc.Features = append(sc.Features, "guard-shapes:"+f)
		}
		out = append(out, sc)
	}
	header := "access(all) fun test(_ opt: Int?, _ flag: Bool, _ never: Bool): Int {\n    var n = 0\n"
	footer := "    return n\n}\naccess(all) fun main(): Int {\n    return test(nil, false, false)\n}\n"
	guards := []struct{ name, open, use string }{
		{"guard-bool", "guard flag else {", "n = n + 1"},
		{"guard-let", "guard let x = opt else {", "n = n + x"},
		{"guard-let-shadow", "guard let opt = opt else {", "n = n + opt"},
	}
	contexts := []struct {
		name, open, close string
		jumps             bool
	}{
		{"function", "", "", false},
		{"while", "    var i = 0\n    while i < 2 {\n        i = i + 1\n", "    }\n", true},
		{"for", "    for i in [1, 2] {\n", "    }\n", true},
		{"switch", "    switch n {\n    case 0:\n", "    default:\n        n = n + 100\n    }\n", true},
	}
	pres := []struct {
		name, stmt string
		jump       bool
	}{
		{"none", "", false},
		{"earlier-if-continue", "if never { continue }", true},
		{"earlier-if-break", "if never { break }", true},
		{"earlier-if-return", "if never { return 20 }", false},
	}
	for _, cx := range contexts {
		ind := "    "
		if cx.name != "function" {
			ind = "        "
		}
		if cx.name == "while-switch" {
			ind = "            "
		}
		for _, gd := range guards {
			for _, el := range dmGSElses {
				if el.jump && !cx.jumps {
					continue
				}
				for _, pre := range pres {
					if pre.jump && !cx.jumps {
						continue
					}
					if pre.name == "earlier-if-continue" && (cx.name == "switch") {
						continue // continue needs a loop
					}
					if strings.Contains(el.body, "continue") && cx.name == "switch" {
						continue
					}
					var sb strings.Builder
					sb.WriteString(header)
					sb.WriteString(cx.open)
					if pre.stmt != "" {
						sb.WriteString(ind + pre.stmt + "\n")
					}
					sb.WriteString(ind + gd.open + "\n")
					if el.body != "" {
						sb.WriteString(ind + "    " + el.body + "\n")
					}
					sb.WriteString(ind + "}\n")
					sb.WriteString(ind + strings.ReplaceAll(gd.use, "%S", ind) + "\n")
					sb.WriteString(cx.close)
					sb.WriteString(footer)
					emit(sb.String(), cx.name, gd.name, "else:"+el.name, "pre:"+pre.name)
				}
			}
		}
	}
	// endings of non-Void functions: `if let` / if-else shapes that do or do not return on every path
	endings := []string{
		"if let x = opt { return x }",
		"if let x = opt { return x } else { return 1 }",
		"if let x = opt { return x } else { panic(\"p\") }",
		"if let x = opt { return x } else { if never { return 2 } }",
		"if let x = opt { return x } else { if never { return 2 } else { return 3 } }",
		"if flag { return 1 } else { if never { return 2 } }",
		"if flag { return 1 } else { while never { return 2 } }",
		"while !flag { if never { break }\n        return 4 }",
		"while !flag { if never { continue }\n        break }",
		"for i in [1, 2] { if never { continue }\n        return i }",
		"switch n { case 0: if never { break }\n        return 5\n    default: return 6 }",
		"switch n { case 0: if never { return 5 }\n    default: return 6 }",
		"switch n { case 0: return 5\n    default: return 6 }",
		"switch n { case 1: return 5 }",
		"guard let x = opt else { return 7 }\n    return x",
		"guard flag else { panic(\"p\") }",
	}
	for i, e := range endings {
		src := "access(all) fun test(_ opt: Int?, _ flag: Bool, _ never: Bool): Int {\n    var n = 0\n    " + e +
			"\n}\naccess(all) fun main(): Int {\n    return test(nil, false, false)\n}\n"
		emit(src, fmt.Sprintf("ending-%d", i))
	}
	return out
}
