// Command c05: correspondence harness for C05 (non-resource values have copy semantics).
// Generated programs build nested struct / array / dictionary values, copy them by every
// transfer form (declaration, assignment, argument + return, field / element write, container
// insert, container literal, storage save / load / copy across transactions, loop variable),
// mutate one side directly at any depth or through references, and log both sides.  The real
// implementation (interpreter, VM, alternating) is compared with a pointer-based Go oracle and
// every logged value is written into a Coq case evaluated by the proved model (C05/Model.v).
package main

import (
	"flag"
	"fmt"
	"os"
	"strings"

	"cvh/lib"

	"github.com/onflow/cadence/common"
)

var (
	prop = flag.String("prop", "C05", "property id")
	seed = flag.Uint64("seed", 1, "seed")
	tier = flag.String("tier", "quick", "quick|thorough")
	dir  = flag.String("dir", ".", "output directory")
)

var addr = common.MustBytesToAddress([]byte{1})

type engine struct {
	name string
	vm   func(i int) bool
}

var engines = []engine{
	{"interpreter", func(int) bool { return false }},
	{"vm", func(int) bool { return true }},
	{"alternating", func(i int) bool { return i%2 == 1 }},
}

type program struct {
	label string
	txs   []*txn
}

func genProgram(rng *lib.Rng, label string, nTx, nStmts int, big bool, counts map[string]int) *program {
	g := &gen{rng: rng, big: big, counts: counts, hugeLeft: 3}
	p := &program{label: label}
	for i := 0; i < nTx; i++ {
		p.txs = append(p.txs, g.transaction(nStmts/2+rng.Intn(nStmts)))
	}
	return p
}

func runProgram(p *program, sum *lib.Summary, cw *lib.CaseWriter, seen map[string]bool) {
	var stmts []string
	for _, t := range p.txs {
		stmts = append(stmts, t.stmts...)
	}
	progTerm := "[" + strings.Join(stmts, ";\n  ") + "]"
	var terms []string
	for _, eng := range engines {
		host := lib.NewHost()
		if o := host.Deploy(addr, "C05", contract, eng.vm(0)); o.Err != nil {
			sum.Fail("setup", "cannot deploy helper contract: "+o.Err.Error(), nil)
			return
		}
		var observed []string
		ok := true
		for ti, t := range p.txs {
			src := t.source()
			o := host.RunTx(src, nil, []common.Address{addr}, eng.vm(ti+1))
			sum.Evaluations++
			if !seen[src] {
				seen[src] = true
				sum.DistinctNontrivial++
				if len(src) < 2500 {
					sum.Sample(map[string]any{"program": p.label, "engine": eng.name, "transaction_index": ti, "transaction": src, "logged": o.Logs})
				}
			}
			replay := map[string]any{"program": p.label, "engine": eng.name, "transaction_index": ti, "transaction": src}
			if o.Err != nil || o.Panic != nil {
				sum.Fail("c05:transaction-failed", fmt.Sprintf("program %s, engine %s, transaction %d failed although the model accepts it: %v %v",
					p.label, eng.name, ti, o.Err, o.Panic), replay)
				ok = false
				break
			}
			if len(o.Logs) != len(t.expect) {
				sum.Fail("c05:log-count", fmt.Sprintf("program %s, engine %s, transaction %d: %d values logged, %d expected",
					p.label, eng.name, ti, len(o.Logs), len(t.expect)), replay)
				ok = false
				break
			}
			for i, line := range o.Logs {
				want := t.expect[i]
				var got *val
				n, err := lib.ParseLogValue(line)
				if err == nil {
					got, err = fromLog(want.t, n)
				}
				if err != nil {
					sum.Fail("c05:unreadable", fmt.Sprintf("program %s, engine %s, transaction %d, log %d: %v", p.label, eng.name, ti, i, err), replay)
					ok = false
					break
				}
				observed = append(observed, got.coq())
				if got.canon() != want.v.canon() && ok {
					replay["log_index"] = i
					replay["expected"] = trunc(want.v.canon(), 1500)
					replay["observed"] = trunc(got.canon(), 1500)
					sum.Fail("c05:copy-not-independent", fmt.Sprintf("program %s, engine %s, transaction %d, logged value %d (%s) differs from copy semantics: expected %s, observed %s",
						p.label, eng.name, ti, i, want.t.cad(), trunc(want.v.canon(), 300), trunc(got.canon(), 300)), replay)
					ok = false
					// keep collecting this transaction's observations for the Coq case
				}
			}
			if !ok {
				break
			}
		}
		term := "(" + progTerm + ",\n [" + strings.Join(observed, ";\n  ") + "])"
		dup := false
		for _, x := range terms {
			if x == term {
				dup = true
			}
		}
		if !dup {
			terms = append(terms, term)
			cw.Add(term, map[string]any{"program": p.label, "engine": eng.name, "transactions": len(p.txs), "statements": len(stmts), "complete": ok})
		}
	}
}

func trunc(s string, n int) string {
	if len(s) > n {
		return s[:n] + "..."
	}
	return s
}

func main() {
	flag.Parse()
	if *prop != "C05" {
		fmt.Fprintln(os.Stderr, "unknown prop", *prop)
		os.Exit(2)
	}
	sum := &lib.Summary{}
	cw := &lib.CaseWriter{Dir: *dir, Prefix: "cases_C05", Header: "From CV Require Import C05.Cases.",
		ElemType: "list stmt * list tv", CheckFn: "check_prog", PerFile: 9}
	sum.Rule = "a case = one generated program of 2-4 transactions (10-40 statements each) over nested struct/array/dictionary values " +
		"(struct S with Int, [Int], [[Int]], {Int: [Int]}, nested struct, [struct] fields; [S]; {Int: S}; optionals of containers at every position: " +
		"[Int]?, Inner?, [[Int]?], {Int: [Int]?}, [Int]??, {Int: [Int]}?, struct P with optional container fields, P?, [P]; some arrays of 40-200 elements and some Int leaves of 2^600..2^7000 (non-inlinable scalars inside small containers) so that " +
		"containers are not inlined): copies by declaration, assignment, argument+return, setter/element/dictionary write, append/insert, container " +
		"literal / constructor, storage save/load/copy (also across transactions), callee parameter, loop variable, method result (return self.f), " +
		"dictionary lookup result, implicit optional wrapping, force-unwrap, nil-coalescing, if-let binding; in-place mutation through optional chaining, casts, " +
		"conditionals and closures capturing the variable; mutations directly at depth 0-4 " +
		"and through ephemeral and storage references; every variable and storage slot is logged at the end of each transaction and at random points; " +
		"executed once per engine configuration (interpreter, VM, alternating); compared with a pointer-based Go oracle and by the Coq model. " +
		"evaluations = transactions executed; non-trivial = distinct transaction texts (each contains at least one copy and one mutation)"
	counts := map[string]int{}
	seen := map[string]bool{}
	rng := lib.NewRng(*seed)
	fixed := lib.NewRng(11)
	nProg := 75
	if *tier == "thorough" {
		nProg = 240
	}
	for _, p := range loadCorpus(sum) {
		counts["corpus-program"]++
		runProgram(p, sum, cw, seen)
	}
	for i := 0; i < 6; i++ {
		runProgram(genProgram(fixed, fmt.Sprintf("fixed-%d", i), 2+i%2, 24, i%2 == 1, counts), sum, cw, seen)
	}
	for i := 0; i < nProg; i++ {
		runProgram(genProgram(rng, fmt.Sprintf("prog-%d", i), 2+rng.Intn(3), 16+rng.Intn(20), i%3 == 0, counts), sum, cw, seen)
	}
	cw.Close()
	sum.CaseFiles = cw.Files
	sum.Distribution = counts
	sum.Write(*dir)
}
