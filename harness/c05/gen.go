package main

// Program generator for C05.  A program is a list of transactions; every statement is produced
// three times: as Cadence source, as a term of the Coq model (C05/Model.v: stmt), and as an
// update of the pointer-based Go oracle, which also yields the expected logged values.

import (
	"fmt"
	"math/big"
	"strings"

	"cvh/lib"
)

type gvar struct {
	idx int
	t   *ty
	v   *val
}

type gslot struct {
	idx int
	t   *ty
	v   *val // nil: empty
}

type gref struct {
	idx    int
	t      *ty
	target *val
	owner  *gvar  // ephemeral reference into a variable
	slot   *gslot // storage reference (re-read at every use)
}

type expect struct {
	t *ty
	v *val // expected logged value
}

type txn struct {
	lines  []string // Cadence statements
	stmts  []string // Coq statements
	expect []expect
}

type gen struct {
	rng      *lib.Rng
	big      bool
	vars     []*gvar
	slots    []*gslot
	refs     []*gref
	nvar     int
	nref     int
	nslot    int
	cur      *txn
	counts   map[string]int
	nextLeaf int64
	noAssign bool // the receiver being rendered is not an assignment target (temporary, cast, ...)
	noNil    bool // the value being generated must not be nil (dictionary values, payload of a double optional)
	hugeLeft int // how many more non-inlinable Int leaves this program may introduce
}

var hugeExps = []uint{600, 2100, 3900, 4100, 4500, 6400, 7000}

func (g *gen) count(k string) { g.counts[k]++ }

func (g *gen) leaf() int64 {
	g.nextLeaf++
	if g.rng.Chance(1, 12) {
		return -g.nextLeaf
	}
	return g.nextLeaf
}

func (g *gen) arrLen() int {
	if g.big {
		switch g.rng.Intn(14) {
		case 0:
			return 40 + g.rng.Intn(30)
		case 1:
			return 150 + g.rng.Intn(60)
		}
	}
	return g.rng.Intn(4)
}

func (g *gen) lit(t *ty, depth int) *val {
	v := &val{t: t}
	switch t.k {
	case "int":
		v.n = g.leaf()
		if g.hugeLeft > 0 && g.rng.Chance(1, 25) {
			g.hugeLeft--
			v.h = new(big.Int).Lsh(big.NewInt(1), hugeExps[g.rng.Intn(len(hugeExps))])
			v.h.Add(v.h, big.NewInt(v.n))
			g.count("huge-int-leaf")
		}
	case "arr":
		n := g.rng.Intn(3)
		if t.elem.k == "int" {
			n = g.arrLen()
		} else if g.rng.Chance(1, 6) {
			n = 3 + g.rng.Intn(3)
		}
		for i := 0; i < n; i++ {
			v.kids = append(v.kids, g.lit(t.elem, depth+1))
		}
	case "dict":
		n := g.rng.Intn(3)
		for i := 0; i < n; i++ {
			v.dictSet(int64(g.rng.Intn(6)), g.litSome(t.elem, depth+1))
		}
	case "opt":
		// nil, or Some(payload); Some(nil) is never generated (log() cannot tell it from nil)
		if g.noNil || !g.rng.Chance(1, 4) {
			v.kids = []*val{g.litSome(t.elem, depth+1)}
		}
	case "struct":
		for _, f := range t.fields {
			v.kids = append(v.kids, g.lit(f.t, depth+1))
		}
	}
	return v
}

// litSome: a literal that is not nil (for an optional type)
func (g *gen) litSome(t *ty, depth int) *val {
	old := g.noNil
	g.noNil = true
	v := g.lit(t, depth)
	g.noNil = old
	return v
}

// ---------------------------------------------------------------- expressions

type gexpr struct {
	cad  string
	coq  string // expr
	part string // part (only for reads and literals)
	v    *val   // fresh value
}

type readSrc struct {
	v   *gvar
	loc loc
}

func (g *gen) reads(t *ty) []readSrc {
	var out []readSrc
	for _, v := range g.vars {
		for _, l := range locs(v.v, 4) {
			if l.v.t == t {
				out = append(out, readSrc{v, l})
			}
		}
	}
	return out
}

func isNil(v *val) bool { return v.t.k == "opt" && len(v.kids) == 0 }

func (g *gen) readOrLit(t *ty) gexpr {
	if rs := g.reads(t); len(rs) > 0 && g.rng.Chance(3, 5) {
		r := rs[g.rng.Intn(len(rs))]
		if !(g.noNil && isNil(r.loc.v)) {
			p := fmt.Sprintf("PRead (RKey (KVar %d)) %s", r.v.idx, coqPath(r.loc.steps))
			cad := fmt.Sprintf("v%d%s", r.v.idx, r.loc.suffix)
			if strings.HasSuffix(cad, "!") && t.k != "int" && t.k != "opt" && g.rng.Chance(1, 3) {
				// payload of an optional through nil-coalescing instead of force-unwrap
				cad = "(" + strings.TrimSuffix(cad, "!") + " ?? " + g.litSome(t, 2).cad() + ")"
				g.count("expr:nil-coalescing")
			}
			return gexpr{cad: cad, coq: "EPart (" + p + ")", part: p, v: r.loc.v.clone()}
		}
	}
	l := g.lit(t, 1)
	p := "PLit (" + l.coq() + ")"
	return gexpr{cad: l.cad(), coq: "EPart (" + p + ")", part: p, v: l}
}

// expr builds an expression of type t: a read (a transfer out of a variable), a literal, the
// result of passing a read through a function, or a container literal / constructor of reads.
func (g *gen) expr(t *ty) gexpr {
	r := g.rng.Intn(10)
	if t.k == "opt" && r < 5 {
		if e, ok := g.optFromPayload(t); ok {
			return e
		}
	}
	switch {
	case r < 6 || t.k == "int":
		return g.readOrLit(t)
	case r < 8 && t.idFun != "":
		return g.callExpr(t)
	}
	return g.wrapExpr(t)
}

// An optional built from a non-optional read: the result of a dictionary lookup d[k] (always an
// optional), or a value of type T used where T? is expected (implicit wrapping).
func (g *gen) optFromPayload(t *ty) (gexpr, bool) {
	type cand struct {
		x    *gvar
		l    loc
		dict bool
	}
	var cands []cand
	for _, x := range g.vars {
		for _, l := range locs(x.v, 4) {
			if l.v.t != t.elem || isNil(l.v) {
				continue
			}
			cands = append(cands, cand{x, l, false})
			if l.parent != nil && l.parent.t.k == "dict" {
				cands = append(cands, cand{x, l, true}, cand{x, l, true})
			}
		}
	}
	if len(cands) == 0 {
		return gexpr{}, false
	}
	c := cands[g.rng.Intn(len(cands))]
	cad := fmt.Sprintf("v%d%s", c.x.idx, c.l.suffix)
	if c.dict {
		cad = strings.TrimSuffix(cad, "!") // d[k]: the lookup result itself
		g.count("expr:dictionary-lookup")
	} else {
		g.count("expr:implicit-wrap")
	}
	p := fmt.Sprintf("PRead (RKey (KVar %d)) %s", c.x.idx, coqPath(c.l.steps))
	return gexpr{cad: cad, coq: "EWrap KOpt [(0, " + p + ")]", v: &val{t: t, kids: []*val{c.l.v.clone()}}}, true
}

// id(read): argument passing + return
func (g *gen) callExpr(t *ty) gexpr {
	e := g.readOrLit(t)
	g.count("expr:call")
	return gexpr{cad: "C05." + t.idFun + "(" + e.cad + ")", coq: "ECallId (" + e.part + ")", v: e.v}
}

// container literal / struct constructor whose parts are reads or literals
func (g *gen) wrapExpr(t *ty) gexpr {
	g.count("expr:wrap-" + t.k)
	v := &val{t: t}
	var cads, parts []string
	switch t.k {
	case "opt":
		old := g.noNil
		g.noNil = true
		e := g.readOrLit(t.elem)
		g.noNil = old
		v.kids = []*val{e.v}
		return gexpr{cad: e.cad, coq: "EWrap KOpt [(0, " + e.part + ")]", v: v}
	case "arr":
		n := 1 + g.rng.Intn(3)
		for i := 0; i < n; i++ {
			e := g.readOrLit(t.elem)
			v.kids = append(v.kids, e.v)
			cads = append(cads, e.cad)
			parts = append(parts, "(0, "+e.part+")")
		}
		return gexpr{cad: "[" + strings.Join(cads, ", ") + "]", coq: "EWrap KArr [" + strings.Join(parts, "; ") + "]", v: v}
	case "dict":
		n := 1 + g.rng.Intn(3)
		key := int64(g.rng.Intn(3))
		for i := 0; i < n; i++ {
			old := g.noNil
			g.noNil = true
			e := g.readOrLit(t.elem)
			g.noNil = old
			v.dictSet(key, e.v)
			cads = append(cads, fmt.Sprintf("%d: %s", key, e.cad))
			parts = append(parts, fmt.Sprintf("(%d, %s)", key, e.part))
			key += 1 + int64(g.rng.Intn(3))
		}
		return gexpr{cad: "{" + strings.Join(cads, ", ") + "}", coq: "EWrap KDict [" + strings.Join(parts, "; ") + "]", v: v}
	}
	for i, f := range t.fields {
		e := g.readOrLit(f.t)
		v.kids = append(v.kids, e.v)
		cads = append(cads, f.name+": "+e.cad)
		parts = append(parts, fmt.Sprintf("(%d, %s)", i, e.part))
	}
	return gexpr{cad: "C05." + t.name + "(" + strings.Join(cads, ", ") + ")",
		coq: fmt.Sprintf("EWrap (KStruct %d) [%s]", t.tag, strings.Join(parts, "; ")), v: v}
}

// ---------------------------------------------------------------- statements

func (g *gen) emit(cad, coq string) {
	g.cur.lines = append(g.cur.lines, cad)
	if coq != "" {
		g.cur.stmts = append(g.cur.stmts, coq)
	}
}

func (g *gen) newVar(t *ty, v *val) *gvar {
	x := &gvar{idx: g.nvar, t: t, v: v}
	g.nvar++
	g.vars = append(g.vars, x)
	return x
}

// references die when their target is no longer part of the owner's value
func (g *gen) pruneRefs() {
	var keep []*gref
	for _, r := range g.refs {
		switch {
		case r.slot != nil:
			if r.slot.v != nil && r.slot.v == r.target {
				keep = append(keep, r)
			}
		case reachable(r.owner.v, r.target):
			keep = append(keep, r)
		}
	}
	g.refs = keep
}

func (g *gen) stDeclare() {
	t := universe[g.rng.Intn(len(universe))]
	e := g.expr(t)
	x := g.newVar(t, e.v)
	g.emit(fmt.Sprintf("var v%d: %s = %s", x.idx, t.cad(), e.cad), fmt.Sprintf("SAssign (KVar %d) (%s)", x.idx, e.coq))
	g.count("stmt:declare")
}

// var y = x.path   (any container-typed part of an existing variable)
func (g *gen) stCopyOut() bool {
	if len(g.vars) == 0 {
		return false
	}
	src := g.vars[g.rng.Intn(len(g.vars))]
	var cands []loc
	for _, l := range locs(src.v, 4) {
		if l.v.t.container() {
			cands = append(cands, l)
		}
	}
	l := cands[g.rng.Intn(len(cands))]
	if g.rng.Chance(1, 2) {
		l = cands[0] // the whole variable
	}
	p := fmt.Sprintf("PRead (RKey (KVar %d)) %s", src.idx, coqPath(l.steps))
	cad := fmt.Sprintf("v%d%s", src.idx, l.suffix)
	coq := "EPart (" + p + ")"
	getter := map[string]string{".oxs": ".getOxs()", ".oin": ".getOin()", ".ooxs": ".getOoxs()"}
	if l.v.t.idFun != "" && g.rng.Chance(1, 4) {
		cad = "C05." + l.v.t.idFun + "(" + cad + ")"
		coq = "ECallId (" + p + ")"
	} else if i := strings.LastIndex(cad, "."); i >= 0 && getter[cad[i:]] != "" && g.rng.Chance(2, 3) {
		// method result: `return self.f`
		cad = cad[:i] + getter[cad[i:]]
		coq = "ECallId (" + p + ")"
		g.count("expr:method-return")
	}
	x := g.newVar(l.v.t, l.v.clone())
	g.emit(fmt.Sprintf("var v%d = %s", x.idx, cad), fmt.Sprintf("SAssign (KVar %d) (%s)", x.idx, coq))
	g.count("stmt:copy-out")
	return true
}

// y = e   (re-assignment of an existing variable)
func (g *gen) stReassign() bool {
	if len(g.vars) == 0 {
		return false
	}
	x := g.vars[g.rng.Intn(len(g.vars))]
	e := g.expr(x.t)
	x.v = e.v
	g.emit(fmt.Sprintf("v%d = %s", x.idx, e.cad), fmt.Sprintf("SAssign (KVar %d) (%s)", x.idx, e.coq))
	g.pruneRefs()
	g.count("stmt:reassign")
	return true
}

// applyOp mutates the oracle container c; returns Cadence call suffix and Coq mope.
// recv is the Cadence expression denoting the container.
func (g *gen) containerOp(recv string, c *val) (cad, coq string, ok bool) {
	switch c.t.k {
	case "arr":
		n := len(c.kids)
		w := g.rng.Intn(10)
		if (g.noAssign || strings.Contains(recv, "!")) && w >= 4 && w < 7 {
			w = 0 // an element of a force-unwrapped dictionary value is not an assignment target
		}
		switch {
		case w < 4 || n == 0:
			e := g.expr(c.t.elem)
			c.kids = append(c.kids, e.v)
			g.count("op:append")
			return recv + ".append(" + e.cad + ")", "EAppend (" + e.coq + ")", true
		case w < 7:
			i := g.rng.Intn(n)
			e := g.expr(c.t.elem)
			c.kids[i] = e.v
			g.count("op:set-element")
			return fmt.Sprintf("%s[%d] = %s", recv, i, e.cad), fmt.Sprintf("ESet %d (%s)", i, e.coq), true
		case w < 8:
			i := g.rng.Intn(n + 1)
			e := g.expr(c.t.elem)
			c.kids = append(c.kids, nil)
			copy(c.kids[i+1:], c.kids[i:])
			c.kids[i] = e.v
			g.count("op:insert")
			return fmt.Sprintf("%s.insert(at: %d, %s)", recv, i, e.cad), fmt.Sprintf("EInsert %d (%s)", i, e.coq), true
		default:
			i := g.rng.Intn(n)
			c.kids = append(c.kids[:i], c.kids[i+1:]...)
			g.count("op:remove")
			return fmt.Sprintf("%s.remove(at: %d)", recv, i), fmt.Sprintf("ERemove %d", i), true
		}
	case "dict":
		if len(c.keys) > 0 && g.rng.Chance(1, 4) {
			k := c.keys[g.rng.Intn(len(c.keys))]
			c.dictRemove(k)
			g.count("op:dict-remove")
			return fmt.Sprintf("%s.remove(key: %d)", recv, k), fmt.Sprintf("ERemove %s", zc(k)), true
		}
		k := int64(g.rng.Intn(7))
		old := g.noNil
		g.noNil = true
		e := g.expr(c.t.elem)
		g.noNil = old
		c.dictSet(k, e.v)
		g.count("op:dict-set")
		if g.noAssign || strings.Contains(recv, "!") || g.rng.Chance(1, 3) {
			return fmt.Sprintf("%s.insert(key: %d, %s)", recv, k, e.cad), fmt.Sprintf("ESet %d (%s)", k, e.coq), true
		}
		return fmt.Sprintf("%s[%d] = %s", recv, k, e.cad), fmt.Sprintf("ESet %d (%s)", k, e.coq), true
	case "struct":
		i := g.rng.Intn(len(c.t.fields))
		f := c.t.fields[i]
		e := g.expr(f.t)
		c.kids[i] = e.v
		g.count("op:set-field")
		return fmt.Sprintf("%s.%s(%s)", recv, f.setter, e.cad), fmt.Sprintf("ESet %d (%s)", i, e.coq), true
	}
	return "", "", false
}

// mutation of a container reached from a variable, at any depth
func (g *gen) stMutateVar() bool {
	if len(g.vars) == 0 {
		return false
	}
	x := g.vars[g.rng.Intn(len(g.vars))]
	var cands []loc
	for _, l := range locs(x.v, 4) {
		if l.v.t.mutable() {
			cands = append(cands, l)
		}
	}
	if len(cands) == 0 {
		return false
	}
	l := cands[g.rng.Intn(len(cands))]
	recv := fmt.Sprintf("v%d%s", x.idx, l.suffix)
	if strings.HasSuffix(recv, "!") && g.rng.Chance(1, 3) {
		// optional chaining instead of force-unwrap: x?.append(..) acts on the payload in place
		recv = strings.TrimSuffix(recv, "!") + "?"
		g.noAssign = true
		g.count("receiver:optional-chaining")
	}
	chained := strings.HasSuffix(recv, "?")
	// expressions that pass the container through WITHOUT a transfer (static cast, conditional):
	// the mutation still acts on the variable's own container
	pick := g.rng.Intn(12)
	if chained {
		pick = 11
	}
	switch pick {
	case 0:
		recv = "(" + recv + " as " + l.v.t.cad() + ")"
		g.noAssign = true
		g.count("receiver:cast")
	case 1:
		recv = "(true ? " + recv + " : " + recv + ")"
		g.noAssign = true
		g.count("receiver:conditional")
	}
	cad, op, ok := g.containerOp(recv, l.v)
	g.noAssign = false
	if !ok {
		return false
	}
	if g.rng.Chance(1, 12) {
		// the same mutation performed inside a closure: variables are captured by reference
		f := fmt.Sprintf("f%d", g.nref)
		g.nref++
		cad = fmt.Sprintf("let %s = fun () { %s }; %s()", f, cad, f)
		g.count("receiver:closure-capture")
	}
	g.emit(cad, fmt.Sprintf("SMutate (RKey (KVar %d)) %s (%s)", x.idx, coqPath(l.steps), op))
	g.pruneRefs()
	g.count(fmt.Sprintf("stmt:mutate-var-depth%d", len(l.steps)))
	return true
}

// r = &x.path
func (g *gen) stTakeRef() bool {
	if len(g.vars) == 0 {
		return false
	}
	x := g.vars[g.rng.Intn(len(g.vars))]
	var cands []loc
	for _, l := range locs(x.v, 4) {
		if l.v.t.mutable() {
			cands = append(cands, l)
		}
	}
	if len(cands) == 0 {
		return false
	}
	l := cands[g.rng.Intn(len(cands))]
	r := &gref{idx: g.nref, t: l.v.t, target: l.v, owner: x}
	g.nref++
	refType := "auth(Mutate) &" + l.v.t.cad()
	if l.v.t.k == "struct" {
		refType = "&" + l.v.t.cad()
	}
	target := fmt.Sprintf("v%d%s", x.idx, l.suffix)
	var cad string
	if strings.HasSuffix(target, "!") {
		cad = fmt.Sprintf("let r%d = (&%s as %s?)!", r.idx, strings.TrimSuffix(target, "!"), refType)
	} else {
		cad = fmt.Sprintf("let r%d = &%s as %s", r.idx, target, refType)
	}
	g.refs = append(g.refs, r)
	g.emit(cad, fmt.Sprintf("STakeRef %d (RKey (KVar %d)) %s", r.idx, x.idx, coqPath(l.steps)))
	g.count("stmt:take-ref")
	return true
}

// r = storage borrow
func (g *gen) stBorrow() bool {
	var full []*gslot
	for _, s := range g.slots {
		if s.v != nil {
			full = append(full, s)
		}
	}
	if len(full) == 0 {
		return false
	}
	s := full[g.rng.Intn(len(full))]
	r := &gref{idx: g.nref, t: s.t, target: s.v, slot: s}
	g.nref++
	refType := "auth(Mutate) &" + s.t.cad()
	if s.t.k == "struct" {
		refType = "&" + s.t.cad()
	}
	g.refs = append(g.refs, r)
	g.emit(fmt.Sprintf("let r%d = acct.storage.borrow<%s>(from: /storage/s%d)!", r.idx, refType, s.idx), "")
	g.count("stmt:borrow")
	return true
}

// mutation through a reference
func (g *gen) stMutateRef() bool {
	if len(g.refs) == 0 {
		return false
	}
	return g.mutateThrough(g.refs[g.rng.Intn(len(g.refs))])
}

func (g *gen) mutateThrough(r *gref) bool {
	root := fmt.Sprintf("RRef %d", r.idx)
	if r.slot != nil {
		root = fmt.Sprintf("RKey (KSlot %d)", r.slot.idx)
	}
	recv := fmt.Sprintf("r%d", r.idx)
	c := r.target
	if (c.t == tInner || c.t == tS) && g.rng.Chance(1, 2) {
		// nested mutation through a method of the referenced struct
		x := g.leaf()
		switch {
		case c.t == tInner:
			c.kids[1].kids = append(c.kids[1].kids, &val{t: tInt, n: x})
			g.emit(fmt.Sprintf("%s.appendYs(%d)", recv, x), fmt.Sprintf("SMutate (%s) [1] (EAppend (EPart (PLit (TPrim %s))))", root, zc(x)))
		case g.rng.Bool():
			c.kids[1].kids = append(c.kids[1].kids, &val{t: tInt, n: x})
			g.emit(fmt.Sprintf("%s.appendXs(%d)", recv, x), fmt.Sprintf("SMutate (%s) [1] (EAppend (EPart (PLit (TPrim %s))))", root, zc(x)))
		default:
			in := c.kids[4]
			in.kids[1].kids = append(in.kids[1].kids, &val{t: tInt, n: x})
			g.emit(fmt.Sprintf("%s.innerAppendYs(%d)", recv, x), fmt.Sprintf("SMutate (%s) [4; 1] (EAppend (EPart (PLit (TPrim %s))))", root, zc(x)))
		}
		g.count("stmt:mutate-ref-method")
		g.pruneRefs()
		return true
	}
	cad, op, ok := g.containerOp(recv, c)
	if !ok {
		return false
	}
	g.emit(cad, fmt.Sprintf("SMutate (%s) [] (%s)", root, op))
	g.pruneRefs()
	if r.slot != nil {
		g.count("stmt:mutate-storage-ref")
	} else {
		g.count("stmt:mutate-ref")
	}
	return true
}

// A transfer result used as an unbound TEMPORARY: the expression (storage.copy, a function
// result, a container literal / constructor of variables) is mutated in place, at some depth, by
// a method call on the expression itself, or through a reference taken directly to it.  In the
// model the temporary is an anonymous place (a hidden variable that no program text can read);
// nothing else may change - in particular not the stored value or the variables it was built from.
func (g *gen) stTempMutate() bool {
	var e gexpr
	form := ""
	switch w := g.rng.Intn(10); {
	case w < 5:
		var full []*gslot
		for _, s := range g.slots {
			if s.v != nil {
				full = append(full, s)
			}
		}
		if len(full) == 0 {
			return false
		}
		s := full[g.rng.Intn(len(full))]
		e = gexpr{cad: fmt.Sprintf("acct.storage.copy<%s>(from: /storage/s%d)!", s.t.cad(), s.idx),
			coq: fmt.Sprintf("EPart (PRead (RKey (KSlot %d)) [])", s.idx), v: s.v.clone()}
		form = "storage-copy"
	case w < 8:
		if len(g.vars) == 0 {
			return false
		}
		x := g.vars[g.rng.Intn(len(g.vars))]
		var cands []loc
		for _, l := range locs(x.v, 3) {
			if l.v.t.container() && l.v.t.idFun != "" {
				cands = append(cands, l)
			}
		}
		l := cands[g.rng.Intn(len(cands))]
		e = gexpr{cad: fmt.Sprintf("C05.%s(v%d%s)", l.v.t.idFun, x.idx, l.suffix),
			coq: fmt.Sprintf("ECallId (PRead (RKey (KVar %d)) %s)", x.idx, coqPath(l.steps)), v: l.v.clone()}
		form = "call-result"
	default:
		wt := universe[g.rng.Intn(len(universe))]
		for wt.k == "opt" { // (x as T?) would box x without a transfer: not a copy
			wt = universe[g.rng.Intn(len(universe))]
		}
		e = g.wrapExpr(wt)
		if e.v.t.k != "struct" {
			// a statement must not start with [ or {, and empty literals need a type
			e.cad = "(" + e.cad + " as " + e.v.t.cad() + ")"
		}
		form = "literal"
	}
	var cands []loc
	for _, l := range locs(e.v, 3) {
		if l.v.t.mutable() {
			cands = append(cands, l)
		}
	}
	if len(cands) == 0 {
		return false // e.g. a nil optional
	}
	hidden := &gvar{idx: g.nvar, t: e.v.t, v: e.v} // not in g.vars: never read, never logged
	g.nvar++
	g.cur.stmts = append(g.cur.stmts, fmt.Sprintf("SAssign (KVar %d) (%s)", hidden.idx, e.coq))
	l := cands[g.rng.Intn(len(cands))]
	if g.rng.Chance(1, 3) {
		// reference taken directly to the temporary, then mutations through it
		if strings.Contains(l.suffix, "!") {
			l = cands[0]
		}
		if strings.Contains(l.suffix, "!") {
			return g.tempDirect(e, hidden, l, form)
		}
		r := &gref{idx: g.nref, t: l.v.t, target: l.v, owner: hidden}
		g.nref++
		refType := "auth(Mutate) &" + l.v.t.cad()
		if l.v.t.k == "struct" {
			refType = "&" + l.v.t.cad()
		}
		g.refs = append(g.refs, r)
		g.emit(fmt.Sprintf("let r%d = &%s%s as %s", r.idx, e.cad, l.suffix, refType),
			fmt.Sprintf("STakeRef %d (RKey (KVar %d)) %s", r.idx, hidden.idx, coqPath(l.steps)))
		g.count("stmt:temporary-ref:" + form)
		return g.mutateThrough(r)
	}
	return g.tempDirect(e, hidden, l, form)
}

func (g *gen) tempDirect(e gexpr, hidden *gvar, l loc, form string) bool {
	g.noAssign = true
	cad, op, ok := g.containerOp(e.cad+l.suffix, l.v)
	g.noAssign = false
	if !ok {
		return false
	}
	g.emit(cad, fmt.Sprintf("SMutate (RKey (KVar %d)) %s (%s)", hidden.idx, coqPath(l.steps), op))
	g.pruneRefs()
	g.count("stmt:temporary-mutated:" + form)
	return true
}

func (g *gen) stSave() bool {
	if len(g.vars) == 0 {
		return false
	}
	x := g.vars[g.rng.Intn(len(g.vars))]
	var cands []loc
	for _, l := range locs(x.v, 3) {
		if l.v.t.mutable() {
			cands = append(cands, l)
		}
	}
	if len(cands) == 0 {
		return false
	}
	l := cands[g.rng.Intn(len(cands))]
	if g.rng.Chance(1, 2) {
		l = cands[0]
	}
	s := &gslot{idx: g.nslot, t: l.v.t, v: l.v.clone()}
	g.nslot++
	g.slots = append(g.slots, s)
	g.emit(fmt.Sprintf("acct.storage.save(v%d%s, to: /storage/s%d)", x.idx, l.suffix, s.idx),
		fmt.Sprintf("SAssign (KSlot %d) (EPart (PRead (RKey (KVar %d)) %s))", s.idx, x.idx, coqPath(l.steps)))
	g.count("stmt:save")
	return true
}

func (g *gen) stLoadOrCopy() bool {
	var full []*gslot
	for _, s := range g.slots {
		if s.v != nil {
			full = append(full, s)
		}
	}
	if len(full) == 0 {
		return false
	}
	s := full[g.rng.Intn(len(full))]
	if g.rng.Chance(1, 3) {
		x := g.newVar(s.t, s.v)
		s.v = nil
		g.emit(fmt.Sprintf("var v%d = acct.storage.load<%s>(from: /storage/s%d)!", x.idx, s.t.cad(), s.idx),
			fmt.Sprintf("SMove (KVar %d) (KSlot %d)", x.idx, s.idx))
		g.pruneRefs()
		g.count("stmt:load")
		return true
	}
	x := g.newVar(s.t, s.v.clone())
	g.emit(fmt.Sprintf("var v%d = acct.storage.copy<%s>(from: /storage/s%d)!", x.idx, s.t.cad(), s.idx),
		fmt.Sprintf("SAssign (KVar %d) (EPart (PRead (RKey (KSlot %d)) []))", x.idx, s.idx))
	g.count("stmt:storage-copy")
	return true
}

// f(x.path) where f mutates its parameter and logs it; for e in x.path { mutate e; log(e) }
func (g *gen) stCallMut() bool {
	if len(g.vars) == 0 {
		return false
	}
	x := g.vars[g.rng.Intn(len(g.vars))]
	type cand struct {
		l    loc
		kind string
	}
	var cands []cand
	for _, l := range locs(x.v, 3) {
		switch l.v.t {
		case tArrInt, tGrid, tMap, tInner, tS:
			cands = append(cands, cand{l, "call"})
		}
		if (l.v.t == tArrInner || l.v.t == tArrS) && len(l.v.kids) > 0 {
			cands = append(cands, cand{l, "loop"})
		}
		if l.v.t == tArrOptArrInt && len(l.v.kids) > 0 {
			cands = append(cands, cand{l, "loop-opt"}, cand{l, "loop-opt"})
		}
		if l.parent != nil && l.parent.t.k == "opt" && (l.v.t == tArrInt || l.v.t == tInner) {
			cands = append(cands, cand{l, "if-let"}, cand{l, "if-let"})
		}
	}
	if len(cands) == 0 {
		return false
	}
	c := cands[g.rng.Intn(len(cands))]
	src := fmt.Sprintf("v%d%s", x.idx, c.l.suffix)
	root := fmt.Sprintf("(RKey (KVar %d))", x.idx)
	if c.kind == "if-let" {
		// optional binding: y is a copy of the payload
		m := c.l.v.clone()
		q, call := "[]", "y.append(93)"
		if m.t == tInner {
			q, call = "[1]", "y.appendYs(93)"
			m.kids[1].kids = append(m.kids[1].kids, &val{t: tInt, n: 93})
		} else {
			m.kids = append(m.kids, &val{t: tInt, n: 93})
		}
		g.cur.lines = append(g.cur.lines, fmt.Sprintf("if let y = %s { %s; log(y) }", strings.TrimSuffix(src, "!"), call))
		g.cur.stmts = append(g.cur.stmts, fmt.Sprintf("SCopyMutObs %s %s %s (EAppend (EPart (PLit (TPrim 93))))", root, coqPath(c.l.steps), q))
		g.cur.expect = append(g.cur.expect, expect{m.t, m})
		g.count("stmt:if-let-copy")
		return true
	}
	if c.kind == "loop-opt" {
		// loop variable of optional type: e?.append acts on the copy held by the loop variable
		g.cur.lines = append(g.cur.lines, fmt.Sprintf("for e in %s { e?.append(7); log(e) }", src))
		for i, k := range c.l.v.kids {
			path := coqPath(append(append([]int64{}, c.l.steps...), int64(i)))
			m := k.clone()
			if isNil(m) {
				g.cur.stmts = append(g.cur.stmts, fmt.Sprintf("SObs %s %s", root, path))
			} else {
				m.kids[0].kids = append(m.kids[0].kids, &val{t: tInt, n: 7})
				g.cur.stmts = append(g.cur.stmts, fmt.Sprintf("SCopyMutObs %s %s [0] (EAppend (EPart (PLit (TPrim 7))))", root, path))
			}
			g.cur.expect = append(g.cur.expect, expect{m.t, m})
		}
		g.count("stmt:loop-copy-optional")
		return true
	}
	if c.kind == "loop" {
		method := "appendYs"
		if c.l.v.t == tArrS {
			method = "appendXs"
		}
		g.cur.lines = append(g.cur.lines, fmt.Sprintf("for e in %s { e.%s(7); log(e) }", src, method))
		for i, k := range c.l.v.kids {
			m := k.clone()
			m.kids[1].kids = append(m.kids[1].kids, &val{t: tInt, n: 7})
			g.cur.expect = append(g.cur.expect, expect{m.t, m})
			g.cur.stmts = append(g.cur.stmts, fmt.Sprintf("SCopyMutObs %s %s [1] (EAppend (EPart (PLit (TPrim 7))))",
				root, coqPath(append(append([]int64{}, c.l.steps...), int64(i)))))
		}
		g.count("stmt:loop-copy")
		return true
	}
	m := c.l.v.clone()
	var fn, q, op string
	switch m.t {
	case tArrInt:
		fn, q, op = "mutArrInt", "[]", "EAppend (EPart (PLit (TPrim 97)))"
		m.kids = append(m.kids, &val{t: tInt, n: 97})
	case tGrid:
		fn, q, op = "mutGrid", "[]", "EAppend (EPart (PLit (ints [96])))"
		m.kids = append(m.kids, &val{t: tArrInt, kids: []*val{{t: tInt, n: 96}}})
	case tMap:
		fn, q, op = "mutMap", "[]", "ESet 95 (EPart (PLit (ints [95])))"
		m.dictSet(95, &val{t: tArrInt, kids: []*val{{t: tInt, n: 95}}})
	case tInner:
		fn, q, op = "mutInner", "[1]", "EAppend (EPart (PLit (TPrim 98)))"
		m.kids[1].kids = append(m.kids[1].kids, &val{t: tInt, n: 98})
	case tS:
		fn, q, op = "mutS", "[1]", "EAppend (EPart (PLit (TPrim 99)))"
		m.kids[1].kids = append(m.kids[1].kids, &val{t: tInt, n: 99})
	}
	g.cur.lines = append(g.cur.lines, fmt.Sprintf("C05.%s(%s)", fn, src))
	g.cur.stmts = append(g.cur.stmts, fmt.Sprintf("SCopyMutObs %s %s %s (%s)", root, coqPath(c.l.steps), q, op))
	g.cur.expect = append(g.cur.expect, expect{m.t, m})
	g.count("stmt:call-mutating-callee")
	return true
}

func (g *gen) obsVar(x *gvar) {
	g.cur.lines = append(g.cur.lines, fmt.Sprintf("log(v%d)", x.idx))
	g.cur.stmts = append(g.cur.stmts, fmt.Sprintf("SObs (RKey (KVar %d)) []", x.idx))
	g.cur.expect = append(g.cur.expect, expect{x.t, x.v.clone()})
}

func (g *gen) obsSlot(s *gslot) {
	g.cur.lines = append(g.cur.lines, fmt.Sprintf("log(acct.storage.copy<%s>(from: /storage/s%d)!)", s.t.cad(), s.idx))
	g.cur.stmts = append(g.cur.stmts, fmt.Sprintf("SObs (RKey (KSlot %d)) []", s.idx))
	g.cur.expect = append(g.cur.expect, expect{s.t, s.v.clone()})
}

func (g *gen) obsAll() {
	for _, x := range g.vars {
		g.obsVar(x)
	}
	for _, s := range g.slots {
		if s.v != nil {
			g.obsSlot(s)
		}
	}
}

// a part of a variable, at a path
func (g *gen) stObsPart() bool {
	if len(g.vars) == 0 {
		return false
	}
	x := g.vars[g.rng.Intn(len(g.vars))]
	ls := locs(x.v, 3)
	l := ls[g.rng.Intn(len(ls))]
	g.cur.lines = append(g.cur.lines, fmt.Sprintf("log(v%d%s)", x.idx, l.suffix))
	g.cur.stmts = append(g.cur.stmts, fmt.Sprintf("SObs (RKey (KVar %d)) %s", x.idx, coqPath(l.steps)))
	g.cur.expect = append(g.cur.expect, expect{l.v.t, l.v.clone()})
	return true
}

func (g *gen) totalSize() int {
	n := 0
	for _, x := range g.vars {
		n += x.v.size()
	}
	return n
}

func (g *gen) transaction(nStmts int) *txn {
	g.cur = &txn{}
	g.vars, g.refs = nil, nil
	// start with something to work on
	if len(g.slots) > 0 && g.rng.Chance(2, 3) {
		g.stLoadOrCopy()
	}
	g.stDeclare()
	for i := 0; i < nStmts; i++ {
		w := g.rng.Intn(100)
		ok := false
		switch {
		case w < 8 && len(g.vars) < 7 && g.totalSize() < 3000:
			g.stDeclare()
			ok = true
		case w < 22 && len(g.vars) < 7 && g.totalSize() < 3000:
			ok = g.stCopyOut()
		case w < 28:
			ok = g.stReassign()
		case w < 40:
			ok = g.stTempMutate()
		case w < 52:
			ok = g.stMutateVar()
		case w < 60:
			ok = g.stTakeRef()
		case w < 74:
			ok = g.stMutateRef()
		case w < 79 && g.nslot < 6:
			ok = g.stSave()
		case w < 84 && len(g.vars) < 7:
			ok = g.stLoadOrCopy()
		case w < 87:
			ok = g.stBorrow()
		case w < 93:
			ok = g.stCallMut()
		case w < 97:
			ok = g.stObsPart()
		default:
			g.obsAll()
			ok = true
		}
		if !ok {
			g.stMutateVar()
		}
	}
	g.obsAll()
	g.cur.stmts = append(g.cur.stmts, "SEndTx")
	return g.cur
}

func (t *txn) source() string {
	var b strings.Builder
	b.WriteString("import C05 from 0x1\ntransaction {\n prepare(acct: auth(Storage) &Account) {\n")
	for _, l := range t.lines {
		b.WriteString("  " + l + "\n")
	}
	b.WriteString(" }\n}\n")
	return b.String()
}
