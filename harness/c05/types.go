package main

// Type universe, values (pointer-based oracle: containers are Go objects, references are
// pointers, copies are deep clones), rendering to Cadence and Coq, parsing of logged values.

import (
	"fmt"
	"math/big"
	"sort"
	"strconv"
	"strings"

	"cvh/lib"
)

type fld struct {
	name   string
	t      *ty
	setter string
}

type ty struct {
	k      string // int arr dict struct opt
	elem   *ty
	name   string // struct name
	tag    int    // struct tag in the Coq model
	fields []fld
	idFun  string // contract function returning its argument
}

var (
	tInt      = &ty{k: "int"}
	tArrInt   = &ty{k: "arr", elem: tInt, idFun: "idArrInt"}
	tGrid     = &ty{k: "arr", elem: tArrInt, idFun: "idGrid"}
	tMap      = &ty{k: "dict", elem: tArrInt, idFun: "idMap"}
	tInner    = &ty{k: "struct", name: "Inner", tag: 1, idFun: "idInner"}
	tArrInner = &ty{k: "arr", elem: tInner, idFun: "idArrInner"}
	tS        = &ty{k: "struct", name: "S", tag: 0, idFun: "idS"}
	tArrS     = &ty{k: "arr", elem: tS, idFun: "idArrS"}
	tMapS     = &ty{k: "dict", elem: tS, idFun: "idMapS"}
	// optionals of containers, at every nesting position
	tOptArrInt    = &ty{k: "opt", elem: tArrInt, idFun: "idOptArrInt"}     // [Int]?
	tOptInner     = &ty{k: "opt", elem: tInner, idFun: "idOptInner"}       // Inner?
	tArrOptArrInt = &ty{k: "arr", elem: tOptArrInt, idFun: "idArrOptArr"}  // [[Int]?]
	tMapOptArr    = &ty{k: "dict", elem: tOptArrInt, idFun: "idMapOptArr"} // {Int: [Int]?}
	tOptOptArrInt = &ty{k: "opt", elem: tOptArrInt, idFun: "idOptOptArr"}  // [Int]??
	tOptMap       = &ty{k: "opt", elem: tMap, idFun: "idOptMap"}           // {Int: [Int]}?
	tP            = &ty{k: "struct", name: "P", tag: 2, idFun: "idP"}      // struct with optional container fields
	tOptP         = &ty{k: "opt", elem: tP, idFun: "idOptP"}               // P?
	tArrP         = &ty{k: "arr", elem: tP, idFun: "idArrP"}               // [P]
	universe      = []*ty{tArrInt, tGrid, tMap, tInner, tArrInner, tS, tArrS, tMapS,
		tOptArrInt, tOptInner, tArrOptArrInt, tMapOptArr, tOptOptArrInt, tOptMap, tP, tOptP, tArrP,
		tOptArrInt, tP, tArrOptArrInt} // (optional shapes are drawn more often)
)

func init() {
	tInner.fields = []fld{{"v", tInt, "setV"}, {"ys", tArrInt, "setYs"}}
	tS.fields = []fld{{"n", tInt, "setN"}, {"xs", tArrInt, "setXs"}, {"grid", tGrid, "setGrid"},
		{"m", tMap, "setM"}, {"inner", tInner, "setInner"}, {"inners", tArrInner, "setInners"}}
	tP.fields = []fld{{"oxs", tOptArrInt, "setOxs"}, {"oin", tOptInner, "setOin"}, {"om", tMapOptArr, "setOm"},
		{"ooxs", tOptOptArrInt, "setOoxs"}, {"oarr", tArrOptArrInt, "setOarr"}}
}

func (t *ty) cad() string {
	switch t.k {
	case "int":
		return "Int"
	case "arr":
		return "[" + t.elem.cad() + "]"
	case "dict":
		return "{Int: " + t.elem.cad() + "}"
	case "opt":
		return t.elem.cad() + "?"
	}
	return "C05." + t.name
}

func (t *ty) container() bool { return t.k != "int" }

// mutable: has operations of its own (an optional is only replaced as a whole, through its parent)
func (t *ty) mutable() bool { return t.k == "arr" || t.k == "dict" || t.k == "struct" }

const contract = `
access(all) contract C05 {
    access(all) struct Inner {
        access(all) var v: Int
        access(all) var ys: [Int]
        init(v: Int, ys: [Int]) { self.v = v; self.ys = ys }
        access(all) fun setV(_ x: Int) { self.v = x }
        access(all) fun setYs(_ x: [Int]) { self.ys = x }
        access(all) fun appendYs(_ x: Int) { self.ys.append(x) }
    }
    access(all) struct S {
        access(all) var n: Int
        access(all) var xs: [Int]
        access(all) var grid: [[Int]]
        access(all) var m: {Int: [Int]}
        access(all) var inner: Inner
        access(all) var inners: [Inner]
        init(n: Int, xs: [Int], grid: [[Int]], m: {Int: [Int]}, inner: Inner, inners: [Inner]) {
            self.n = n; self.xs = xs; self.grid = grid; self.m = m; self.inner = inner; self.inners = inners
        }
        access(all) fun setN(_ x: Int) { self.n = x }
        access(all) fun setXs(_ x: [Int]) { self.xs = x }
        access(all) fun setGrid(_ x: [[Int]]) { self.grid = x }
        access(all) fun setM(_ x: {Int: [Int]}) { self.m = x }
        access(all) fun setInner(_ x: Inner) { self.inner = x }
        access(all) fun setInners(_ x: [Inner]) { self.inners = x }
        access(all) fun appendXs(_ x: Int) { self.xs.append(x) }
        access(all) fun innerAppendYs(_ x: Int) { self.inner.ys.append(x) }
    }
    access(all) struct P {
        access(all) var oxs: [Int]?
        access(all) var oin: Inner?
        access(all) var om: {Int: [Int]?}
        access(all) var ooxs: [Int]??
        access(all) var oarr: [[Int]?]
        init(oxs: [Int]?, oin: Inner?, om: {Int: [Int]?}, ooxs: [Int]??, oarr: [[Int]?]) {
            self.oxs = oxs; self.oin = oin; self.om = om; self.ooxs = ooxs; self.oarr = oarr
        }
        access(all) fun setOxs(_ x: [Int]?) { self.oxs = x }
        access(all) fun setOin(_ x: Inner?) { self.oin = x }
        access(all) fun setOm(_ x: {Int: [Int]?}) { self.om = x }
        access(all) fun setOoxs(_ x: [Int]??) { self.ooxs = x }
        access(all) fun setOarr(_ x: [[Int]?]) { self.oarr = x }
        // method results: returning self.f is a transfer
        access(all) fun getOxs(): [Int]? { return self.oxs }
        access(all) fun getOin(): Inner? { return self.oin }
        access(all) fun getOoxs(): [Int]?? { return self.ooxs }
    }
    access(all) fun idOptArrInt(_ x: [Int]?): [Int]? { return x }
    access(all) fun idOptInner(_ x: Inner?): Inner? { return x }
    access(all) fun idArrOptArr(_ x: [[Int]?]): [[Int]?] { return x }
    access(all) fun idMapOptArr(_ x: {Int: [Int]?}): {Int: [Int]?} { return x }
    access(all) fun idOptOptArr(_ x: [Int]??): [Int]?? { return x }
    access(all) fun idOptMap(_ x: {Int: [Int]}?): {Int: [Int]}? { return x }
    access(all) fun idP(_ x: P): P { return x }
    access(all) fun idOptP(_ x: P?): P? { return x }
    access(all) fun idArrP(_ x: [P]): [P] { return x }
    access(all) fun idArrInt(_ x: [Int]): [Int] { return x }
    access(all) fun idGrid(_ x: [[Int]]): [[Int]] { return x }
    access(all) fun idMap(_ x: {Int: [Int]}): {Int: [Int]} { return x }
    access(all) fun idInner(_ x: Inner): Inner { return x }
    access(all) fun idArrInner(_ x: [Inner]): [Inner] { return x }
    access(all) fun idS(_ x: S): S { return x }
    access(all) fun idArrS(_ x: [S]): [S] { return x }
    access(all) fun idMapS(_ x: {Int: S}): {Int: S} { return x }
    // callees that mutate their (copied) parameter and log it
    access(all) fun mutArrInt(_ x: [Int]) { x.append(97); log(x) }
    access(all) fun mutGrid(_ x: [[Int]]) { x.append([96]); log(x) }
    access(all) fun mutMap(_ x: {Int: [Int]}) { x[95] = [95]; log(x) }
    access(all) fun mutInner(_ x: Inner) { x.ys.append(98); log(x) }
    access(all) fun mutS(_ x: S) { x.xs.append(99); log(x) }
}
`

// ---------------------------------------------------------------- values

type val struct {
	t    *ty
	n    int64
	h    *big.Int // Int leaf too large for int64 (non-inlinable scalars: 2^600 .. 2^7000); overrides n
	kids []*val  // array elements / struct fields / dictionary values (aligned with keys)
	keys []int64 // dictionary keys, ascending
}

func (v *val) clone() *val {
	c := &val{t: v.t, n: v.n, h: v.h, keys: append([]int64{}, v.keys...)}
	for _, k := range v.kids {
		c.kids = append(c.kids, k.clone())
	}
	return c
}

func (v *val) cad() string {
	switch v.t.k {
	case "int":
		if v.h != nil {
			return v.h.String()
		}
		return strconv.FormatInt(v.n, 10)
	case "arr":
		parts := make([]string, len(v.kids))
		for i, k := range v.kids {
			parts[i] = k.cad()
		}
		return "[" + strings.Join(parts, ", ") + "]"
	case "opt":
		if len(v.kids) == 0 {
			return "nil"
		}
		return v.kids[0].cad() // implicit wrapping / what log() prints
	case "dict":
		if len(v.kids) == 0 {
			return "{}"
		}
		parts := make([]string, len(v.kids))
		for i, k := range v.kids {
			parts[i] = fmt.Sprintf("%d: %s", v.keys[i], k.cad())
		}
		return "{" + strings.Join(parts, ", ") + "}"
	}
	parts := make([]string, len(v.kids))
	for i, k := range v.kids {
		parts[i] = v.t.fields[i].name + ": " + k.cad()
	}
	return "C05." + v.t.name + "(" + strings.Join(parts, ", ") + ")"
}

func zc(n int64) string {
	if n < 0 {
		return fmt.Sprintf("(%d)", n)
	}
	return strconv.FormatInt(n, 10)
}

func (v *val) zcoq() string {
	if v.h != nil {
		return lib.Z(v.h) // limbs: Coq is slow on huge decimal literals
	}
	return zc(v.n)
}

func (v *val) coq() string {
	switch v.t.k {
	case "int":
		return "TPrim " + v.zcoq()
	case "arr":
		if v.t.elem.k == "int" {
			parts := make([]string, len(v.kids))
			for i, k := range v.kids {
				parts[i] = k.zcoq()
			}
			return "ints [" + strings.Join(parts, "; ") + "]"
		}
		parts := make([]string, len(v.kids))
		for i, k := range v.kids {
			parts[i] = k.coq()
		}
		return "arr [" + strings.Join(parts, "; ") + "]"
	case "opt":
		if len(v.kids) == 0 {
			return "onone"
		}
		return "osome (" + v.kids[0].coq() + ")"
	case "dict":
		parts := make([]string, len(v.kids))
		for i, k := range v.kids {
			parts[i] = "(" + zc(v.keys[i]) + ", " + k.coq() + ")"
		}
		return "dic [" + strings.Join(parts, "; ") + "]"
	}
	parts := make([]string, len(v.kids))
	for i, k := range v.kids {
		parts[i] = k.coq()
	}
	return fmt.Sprintf("str %d [%s]", v.t.tag, strings.Join(parts, "; "))
}

func (v *val) canon() string { return v.cad() }

func (v *val) size() int {
	n := 1
	for _, k := range v.kids {
		n += k.size()
	}
	return n
}

// dictionary helpers
func (v *val) dictIndex(k int64) int {
	for i, x := range v.keys {
		if x == k {
			return i
		}
	}
	return -1
}

func (v *val) dictSet(k int64, x *val) {
	if i := v.dictIndex(k); i >= 0 {
		v.kids[i] = x
		return
	}
	i := sort.Search(len(v.keys), func(i int) bool { return v.keys[i] > k })
	v.keys = append(v.keys, 0)
	copy(v.keys[i+1:], v.keys[i:])
	v.keys[i] = k
	v.kids = append(v.kids, nil)
	copy(v.kids[i+1:], v.kids[i:])
	v.kids[i] = x
}

func (v *val) dictRemove(k int64) {
	if i := v.dictIndex(k); i >= 0 {
		v.keys = append(v.keys[:i], v.keys[i+1:]...)
		v.kids = append(v.kids[:i], v.kids[i+1:]...)
	}
}

// fromLog converts a parsed log value to a value of type t; every part must be present.
func fromLog(t *ty, n *lib.LogNode) (*val, error) {
	bad := func() (*val, error) { return nil, fmt.Errorf("logged value does not have type %s", t.cad()) }
	switch t.k {
	case "int":
		if n.Tag != 'i' {
			return bad()
		}
		if !n.Int.IsInt64() {
			return &val{t: t, h: n.Int}, nil
		}
		return &val{t: t, n: n.Int.Int64()}, nil
	case "opt":
		// log() prints an optional as its payload, or nil; Some(nil) is never generated
		if n.Tag == 'n' {
			return &val{t: t}, nil
		}
		k, err := fromLog(t.elem, n)
		if err != nil {
			return nil, err
		}
		if t.elem.k == "opt" && len(k.kids) == 0 {
			return &val{t: t}, nil
		}
		return &val{t: t, kids: []*val{k}}, nil
	case "arr":
		if n.Tag != 'a' {
			return bad()
		}
		v := &val{t: t}
		for _, e := range n.Elems {
			k, err := fromLog(t.elem, e)
			if err != nil {
				return nil, err
			}
			v.kids = append(v.kids, k)
		}
		return v, nil
	case "dict":
		if n.Tag != 'd' {
			return bad()
		}
		v := &val{t: t}
		for i, e := range n.Elems {
			kn := n.Keys[i]
			if kn.Tag != 'i' || !kn.Int.IsInt64() {
				return bad()
			}
			if v.dictIndex(kn.Int.Int64()) >= 0 {
				return nil, fmt.Errorf("duplicate dictionary key %s", kn.Int)
			}
			k, err := fromLog(t.elem, e)
			if err != nil {
				return nil, err
			}
			v.dictSet(kn.Int.Int64(), k)
		}
		return v, nil
	}
	if n.Tag != 'c' || n.Str != "A.0000000000000001.C05."+t.name || len(n.Fields) != len(t.fields) {
		return bad()
	}
	v := &val{t: t}
	for _, f := range t.fields {
		fn := n.Fields[f.name]
		if fn == nil {
			return bad()
		}
		k, err := fromLog(f.t, fn)
		if err != nil {
			return nil, err
		}
		v.kids = append(v.kids, k)
	}
	return v, nil
}

// ---------------------------------------------------------------- locations inside a value

type loc struct {
	steps  []int64
	suffix string // Cadence access path appended to the root expression
	v      *val
	parent *val
	last   int // index in parent.kids
}

func locs(root *val, maxDepth int) []loc {
	var out []loc
	var walk func(v *val, steps []int64, suffix string, parent *val, last, d int)
	walk = func(v *val, steps []int64, suffix string, parent *val, last, d int) {
		out = append(out, loc{steps: append([]int64{}, steps...), suffix: suffix, v: v, parent: parent, last: last})
		if d == 0 {
			return
		}
		for i, k := range v.kids {
			switch v.t.k {
			case "arr":
				walk(k, append(steps, int64(i)), fmt.Sprintf("%s[%d]", suffix, i), v, i, d-1)
			case "dict":
				walk(k, append(steps, v.keys[i]), fmt.Sprintf("%s[%d]!", suffix, v.keys[i]), v, i, d-1)
			case "struct":
				walk(k, append(steps, int64(i)), suffix+"."+v.t.fields[i].name, v, i, d-1)
			case "opt":
				walk(k, append(steps, 0), suffix+"!", v, i, d-1)
			}
		}
	}
	walk(root, nil, "", nil, -1, maxDepth)
	return out
}

func reachable(root, target *val) bool {
	if root == target {
		return true
	}
	for _, k := range root.kids {
		if reachable(k, target) {
			return true
		}
	}
	return false
}

func coqPath(steps []int64) string {
	parts := make([]string, len(steps))
	for i, s := range steps {
		parts[i] = zc(s)
	}
	return "[" + strings.Join(parts, "; ") + "]"
}
