package main

// Hand-written programs from /verif/corpus/C05/*.json, run before the generated ones.
// Each transaction lists Cadence statements, the corresponding Coq statements and the values
// that copy semantics requires to be logged (type + Cadence literal).

import (
	"encoding/json"
	"os"
	"path/filepath"
	"sort"

	"cvh/lib"
)

type corpusExpect struct {
	Type  string `json:"type"`
	Value string `json:"value"`
}

type corpusTx struct {
	Lines  []string       `json:"lines"`
	Stmts  []string       `json:"stmts"`
	Expect []corpusExpect `json:"expect"`
}

type corpusProgram struct {
	Label        string     `json:"label"`
	Transactions []corpusTx `json:"transactions"`
}

func typeByName(s string) *ty {
	for _, t := range append([]*ty{tInt}, universe...) {
		if t.cad() == s {
			return t
		}
	}
	return nil
}

func corpusDir() string {
	if d := os.Getenv("VERIF_CORPUS"); d != "" {
		return d
	}
	exe, err := os.Executable()
	if err != nil {
		return ""
	}
	return filepath.Join(filepath.Dir(filepath.Dir(filepath.Dir(exe))), "corpus", "C05")
}

func loadCorpus(sum *lib.Summary) []*program {
	files, _ := filepath.Glob(filepath.Join(corpusDir(), "*.json"))
	sort.Strings(files)
	var out []*program
	for _, f := range files {
		b, err := os.ReadFile(f)
		if err != nil {
			continue
		}
		var cps []corpusProgram
		if err := json.Unmarshal(b, &cps); err != nil {
			sum.Fail("corpus", "cannot read corpus file "+f+": "+err.Error(), nil)
			continue
		}
		for _, cp := range cps {
			p := &program{label: "corpus:" + cp.Label}
			ok := true
			for _, ct := range cp.Transactions {
				t := &txn{lines: ct.Lines, stmts: append(append([]string{}, ct.Stmts...), "SEndTx")}
				for _, e := range ct.Expect {
					tt := typeByName(e.Type)
					var v *val
					if tt != nil {
						if n, err := lib.ParseLogValue(e.Value); err == nil {
							v, _ = fromLogLiteral(tt, n)
						}
					}
					if v == nil {
						sum.Fail("corpus", "bad expectation in "+f+" ("+cp.Label+"): "+e.Type+" "+e.Value, nil)
						ok = false
						break
					}
					t.expect = append(t.expect, expect{tt, v})
				}
				p.txs = append(p.txs, t)
			}
			if ok {
				out = append(out, p)
			}
		}
	}
	return out
}

// fromLogLiteral accepts composites written as S(...) / Inner(...) with positional field order
// given by names (same syntax as log output but with the short type name).
func fromLogLiteral(t *ty, n *lib.LogNode) (*val, error) {
	qualify(n)
	return fromLog(t, n)
}

func qualify(n *lib.LogNode) {
	if n == nil {
		return
	}
	if n.Tag == 'c' && (n.Str == "S" || n.Str == "Inner" || n.Str == "P") {
		n.Str = "A.0000000000000001.C05." + n.Str
	}
	for _, e := range n.Elems {
		qualify(e)
	}
	for _, e := range n.Fields {
		qualify(e)
	}
}
