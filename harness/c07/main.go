// Command c07: correspondence + direct-monitor harness for C07 (view functions have no observable side effects).
//
//	-mode table   extract the purity of every built-in function from the linked sema package, join it with the
//	              hand-written ground truth corpus/C07/mutates_receiver.json and write coq/theories/Gen/GenC07Purity.v
//	-mode run     generate programs (Cadence source + Coq term), obtain the real checker's purity verdict, execute the
//	              accepted ones in both engines with ledger-write / event recording and before/after snapshots of all
//	              pre-existing values, and write Coq case files for evaluation by the model
package main

import (
	"encoding/json"
	"flag"
	"fmt"
	"os"
	"path/filepath"
	"strings"

	"cvh/lib"
)

var (
	prop     = flag.String("prop", "C07", "property id")
	seed     = flag.Uint64("seed", 1, "seed")
	tier     = flag.String("tier", "quick", "quick|thorough")
	dir      = flag.String("dir", ".", "output directory")
	mode     = flag.String("mode", "run", "run|table|dump|show")
	gen      = flag.String("gen", "/verif/coq/theories/Gen/GenC07Purity.v", "generated Coq table")
	truth    = flag.String("truth", "/verif/corpus/C07/mutates_receiver.json", "ground truth")
	corpus   = flag.String("corpus", "/verif/corpus/C07", "corpus directory")
	probeArg = flag.String("probe", "", "probe file")
	count    = flag.Int("n", 0, "number of generated cases (0 = by tier)")
	debug    = flag.Bool("debug", false, "print invalid programs")
	repo     = flag.String("repo", "/repo", "onflow/cadence tree under check (sources read for the purity call sites)")
	only     = flag.String("only", "", "run only the case with this name and print it")
)

func main() {
	flag.Parse()
	switch {
	case *mode == "dump":
		for _, b := range extractBuiltins() {
			fmt.Printf("%-60s view=%-5v fp=%v  %s\n", b.Name, b.View, b.FunParamView, b.Sig)
		}
	case *mode == "table":
		text, probs := genTable(extractBuiltins(), loadGroundTruth(*truth))
		sites, err := extractPuritySites(*repo)
		if err != nil {
			panic(err)
		}
		text += sitesCoq(sites)
		probs = append(probs, siteProblems(sites)...)
		writeIfChanged(*gen, text)
		b, _ := json.MarshalIndent(map[string]any{"problems": probs}, "", " ")
		if err := os.WriteFile(filepath.Join(*dir, "table.json"), b, 0o644); err != nil {
			panic(err)
		}
	case *probeArg != "":
		probe(*probeArg)
	case *mode == "witness":
		// Coq definitions of the hand-picked corpus programs (used once to write coq/theories/C07/Witness.v)
		for _, c := range corpusCases() {
			n := strings.NewReplacer("corpus/", "w_", "-", "_").Replace(c.Name)
			fmt.Printf("(* kind %d: %s *)\nDefinition %s : prog :=\n  %s.\n\n", c.Kind, c.Note, n, c.Prog.Coq())
		}
	case *mode == "show":
		r := lib.NewRng(*seed)
		c := genCase(r, "show")
		fmt.Println(c.Prog.cadence())
		fmt.Println(driverTx(c.Kind))
		fmt.Println(c.Prog.Coq())
	default:
		sum := &lib.Summary{}
		run(sum)
		sum.Write(*dir)
	}
}
