package main

import (
	"errors"
	"fmt"
	"os"
	"strings"

	"cvh/lib"

	"github.com/onflow/cadence/sema"
)

// purityLines returns the 1-based source lines of all PurityErrors in err, and the number of other checker errors.
func purityLines(err error) (lines []int, other []string) {
	var ce *sema.CheckerError
	if !errors.As(err, &ce) {
		return nil, nil
	}
	for _, e := range ce.Errors {
		var pe *sema.PurityError
		if errors.As(e, &pe) {
			lines = append(lines, pe.StartPos.Line)
		} else {
			other = append(other, fmt.Sprintf("%T", e))
		}
	}
	return
}

// probe runs each script given (files separated by a line "----") and prints verdict and effects.
func probe(path string) {
	b, err := os.ReadFile(path)
	if err != nil {
		panic(err)
	}
	for i, src := range strings.Split(string(b), "\n----\n") {
		for _, vm := range []bool{false, true} {
			h := lib.NewHost()
			o := h.RunScript(src, nil, vm)
			pl, other := purityLines(o.Err)
			fmt.Printf("#%d vm=%v class=%q purity=%v other=%v value=%v events=%d writes=%d logs=%v\n", i, vm, o.Class, pl, other, lib.ValueString(o.Value), len(o.Events), len(h.Writes), o.Logs)
			if o.Err != nil && len(pl) == 0 {
				fmt.Println("   err:", strings.ReplaceAll(o.Err.Error(), "\n", " | "))
			}
		}
	}
}
