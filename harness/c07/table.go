package main

import (
	"encoding/json"
	"fmt"
	"os"
	"path/filepath"
	"sort"
	"strings"

	"github.com/onflow/cadence/common"
	"github.com/onflow/cadence/sema"
	"github.com/onflow/cadence/stdlib"
)

// BuiltinFn is one built-in function known to the checker, with the purity the checker assigns to it.
type BuiltinFn struct {
	Name         string   `json:"name"` // "Array.append", "Account.Storage.save", "fun log"
	View         bool     `json:"view"`
	FunParamView []bool   `json:"fun_param_view,omitempty"` // purity of each function-typed parameter
	Sig          string   `json:"sig"`
	Via          []string `json:"-"`
}

func funParams(ft *sema.FunctionType) (out []bool) {
	for _, p := range ft.Parameters {
		t := p.TypeAnnotation.Type
		if o, ok := t.(*sema.OptionalType); ok {
			t = o.Type
		}
		if f, ok := t.(*sema.FunctionType); ok {
			out = append(out, f.Purity == sema.FunctionPurityView)
		}
	}
	return
}

// extractBuiltins walks the member tables of the built-in types linked from /repo's sema package
// and the standard library's global functions.
func extractBuiltins() []BuiltinFn {
	seen := map[string]bool{}
	var out []BuiltinFn
	visitedTypes := map[string]bool{}
	var walk func(name string, t sema.Type)
	walk = func(name string, t sema.Type) {
		if visitedTypes[name] {
			return
		}
		visitedTypes[name] = true
		members := t.GetMembers()
		names := make([]string, 0, len(members))
		for n := range members {
			names = append(names, n)
		}
		sort.Strings(names)
		for _, n := range names {
			var m *sema.Member
			func() {
				defer func() { _ = recover() }()
				m = members[n].Resolve(nil, n, nil, func(error) {})
			}()
			if m == nil {
				continue
			}
			mt := m.TypeAnnotation.Type
			switch x := mt.(type) {
			case *sema.FunctionType:
				key := name + "." + n
				if !seen[key] {
					seen[key] = true
					out = append(out, BuiltinFn{Name: key, View: x.Purity == sema.FunctionPurityView, FunParamView: funParams(x), Sig: x.String()})
				}
			case *sema.CompositeType:
				if x.Location == nil {
					walk(x.QualifiedIdentifier(), x)
				}
			case *sema.SimpleType:
				walk(x.QualifiedName, x)
			case *sema.ReferenceType:
				if c, ok := x.Type.(*sema.CompositeType); ok && c.Location == nil {
					walk(c.QualifiedIdentifier(), c)
				}
			}
		}
	}
	intArr := &sema.VariableSizedType{Type: sema.IntType}
	roots := []struct {
		n string
		t sema.Type
	}{
		{"Array", intArr},
		{"ResourceArray", &sema.VariableSizedType{Type: sema.AnyResourceType}},
		{"ConstantArray", &sema.ConstantSizedType{Type: sema.IntType, Size: 2}},
		{"Dictionary", &sema.DictionaryType{KeyType: sema.IntType, ValueType: sema.IntType}},
		{"ResourceDictionary", &sema.DictionaryType{KeyType: sema.IntType, ValueType: sema.AnyResourceType}},
		{"Optional", &sema.OptionalType{Type: sema.IntType}},
		{"String", sema.StringType},
		{"Character", sema.CharacterType},
		{"Bool", sema.BoolType},
		{"Int", sema.IntType},
		{"UInt8", sema.UInt8Type},
		{"Word64", sema.Word64Type},
		{"Fix64", sema.Fix64Type},
		{"UFix64", sema.UFix64Type},
		{"Address", sema.TheAddressType},
		{"Path", sema.PathType},
		{"StoragePath", sema.StoragePathType},
		{"PublicPath", sema.PublicPathType},
		{"Type", sema.MetaType},
		{"Capability", &sema.CapabilityType{BorrowType: &sema.ReferenceType{Type: intArr, Authorization: sema.UnauthorizedAccess}}},
		{"InclusiveRange", &sema.InclusiveRangeType{MemberType: sema.IntType}},
		{"Account", sema.AccountType},
		{"StorageCapabilityController", sema.StorageCapabilityControllerType},
		{"AccountCapabilityController", sema.AccountCapabilityControllerType},
		{"DeployedContract", sema.DeployedContractType},
		{"Block", sema.BlockType},
		{"PublicKey", sema.PublicKeyType},
		{"AnyStruct", sema.AnyStructType},
		{"AnyResource", sema.AnyResourceType},
		{"Function", &sema.FunctionType{ReturnTypeAnnotation: sema.VoidTypeAnnotation}},
		{"StringBuilder", sema.StringBuilderType},
	}
	for _, r := range roots {
		func() {
			defer func() {
				if e := recover(); e != nil {
					panic(fmt.Sprintf("walking %s: %v", r.n, e))
				}
			}()
			walk(r.n, r.t)
		}()
	}
	// global functions of the standard library (both engines declare the same types)
	for _, v := range stdlib.InterpreterDefaultStandardLibraryValues(nil) {
		if _, ok := v.Type.(*sema.FunctionType); !ok && v.Type != nil {
			walk(v.Name, v.Type)
		}
		if ft, ok := v.Type.(*sema.FunctionType); ok {
			walk("static "+v.Name, ft)
			key := "fun " + v.Name
			if !seen[key] {
				seen[key] = true
				out = append(out, BuiltinFn{Name: key, View: ft.Purity == sema.FunctionPurityView, FunParamView: funParams(ft), Sig: ft.String()})
			}
		}
	}
	// base value activation (conversion functions etc.)
	_ = sema.BaseValueActivation.ForEach(func(name string, v *sema.Variable) error {
		if ft, ok := v.Type.(*sema.FunctionType); ok {
			walk("static "+name, ft)
			key := "fun " + name
			if !seen[key] {
				seen[key] = true
				out = append(out, BuiltinFn{Name: key, View: ft.Purity == sema.FunctionPurityView, FunParamView: funParams(ft), Sig: ft.String()})
			}
		}
		return nil
	})
	sort.Slice(out, func(i, j int) bool { return out[i].Name < out[j].Name })
	return out
}

var _ = common.CompositeKindStructure

type groundTruth struct {
	Mutates   []string `json:"mutates"`
	CallsBack []string `json:"calls_back"`
}

func loadGroundTruth(path string) groundTruth {
	var g groundTruth
	b, err := os.ReadFile(path)
	if err != nil {
		panic(err)
	}
	if err := json.Unmarshal(b, &g); err != nil {
		panic(err)
	}
	return g
}

// genTable renders the purity table extracted from sema, joined with the hand-written ground truth,
// as a Coq file. Returns the file text and the list of table-level problems.
func genTable(bs []BuiltinFn, g groundTruth) (string, [][3]string) {
	mut := map[string]bool{}
	for _, m := range g.Mutates {
		mut[m] = true
	}
	present := map[string]bool{}
	var probs [][3]string
	var sb strings.Builder
	sb.WriteString("(* GENERATED on every run of ./check C07 by harness/c07 (-mode table) from the sema package linked\n")
	sb.WriteString("   from the onflow/cadence tree under check, joined with corpus/C07/mutates_receiver.json.\n")
	sb.WriteString("   One entry per built-in function: name, declared `view`, all function-typed parameters `view`,\n")
	sb.WriteString("   listed as mutating in the ground truth.  Do not edit. *)\n")
	sb.WriteString("From Coq Require Import String List Bool.\nImport ListNotations.\nLocal Open Scope string_scope.\n\n")
	sb.WriteString("Record bentry : Type := mkB { bn : string; bview : bool; bfpview : bool; bmut : bool }.\n\n")
	sb.WriteString("Definition builtins : list bentry := [\n")
	for i, b := range bs {
		present[b.Name] = true
		fp := true
		for _, v := range b.FunParamView {
			fp = fp && v
		}
		if i > 0 {
			sb.WriteString(";\n")
		}
		fmt.Fprintf(&sb, "  mkB %q %v %v %v", b.Name, b.View, fp, mut[b.Name])
		if mut[b.Name] && b.View {
			probs = append(probs, [3]string{"builtin-purity:" + b.Name, fmt.Sprintf("built-in %s mutates its receiver or account state (corpus/C07/mutates_receiver.json) but the checker declares it `%s`", b.Name, b.Sig), b.Name})
		}
		if b.View && !fp {
			probs = append(probs, [3]string{"builtin-funparam:" + b.Name, fmt.Sprintf("built-in %s is `view` but takes a non-view function parameter: `%s`", b.Name, b.Sig), b.Name})
		}
	}
	sb.WriteString("\n].\n")
	for _, m := range g.Mutates {
		if !present[m] {
			probs = append(probs, [3]string{"builtin-missing:" + m, fmt.Sprintf("ground-truth mutator %s is no longer found in the checker's member tables (renamed or removed?): the purity table obligation would be vacuous for it", m), m})
		}
	}
	return sb.String(), probs
}

func writeIfChanged(path, text string) {
	if old, err := os.ReadFile(path); err == nil && string(old) == text {
		return
	}
	if err := os.MkdirAll(filepath.Dir(path), 0o755); err != nil {
		panic(err)
	}
	if err := os.WriteFile(path, []byte(text), 0o644); err != nil {
		panic(err)
	}
}
