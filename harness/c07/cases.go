package main

import (
	"encoding/json"
	"fmt"
	"os"
	"path/filepath"
	"sort"
	"strings"

	"cvh/lib"
)

// ---------------------------------------------------------------- classification of the three known defect classes

// strictSites walks the view-checked code of a program and reports which of the constructs occur that the
// property forbids but the checker does not observe:
//
//	"emit"   an emit statement in a view function body (not an emit condition)
//	"self"   in a view initializer, an assignment/swap target rooted at self that goes through a reference- or
//	         resource-typed member/element
//	"attach" attach to a resource in view code
func strictSites(p *Prog) map[string]bool {
	out := map[string]bool{}
	var ss func(l []*Stmt, view, init bool, host string)
	var ex func(e *Exp, view bool, host string)
	selfMid := func(t *Target, host string) bool {
		// types of the proper prefixes of t below the root
		var tys []*Ty
		var walk func(t *Target) *Ty
		walk = func(t *Target) *Ty {
			switch t.Kind {
			case "Var":
				if host == "S" {
					return tS
				}
				return tObj
			case "Field":
				b := walk(t.T)
				if b == nil {
					return nil
				}
				ty := fieldTy(b, t.N)
				tys = append(tys, ty)
				return ty
			default:
				b := walk(t.T)
				if b == nil {
					return nil
				}
				ty := elemTy(b)
				tys = append(tys, ty)
				return ty
			}
		}
		if t.Root() != idSelf || t.Kind == "Var" {
			return false
		}
		walk(t.T) // prefixes of the parent, and the parent itself
		for _, ty := range tys {
			if ty == nil || ty.K == "Ref" || ty.IsRes() {
				return true
			}
		}
		return false
	}
	ex = func(e *Exp, view bool, host string) {
		if e == nil {
			return
		}
		switch e.Kind {
		case "Fun":
			ss(e.Body, e.View, false, host)
			return
		case "Attach":
			if view {
				out["attach"] = true
			}
		}
		ex(e.A, view, host)
		ex(e.B, view, host)
		for _, a := range e.Args {
			ex(a, view, host)
		}
	}
	ss = func(l []*Stmt, view, init bool, host string) {
		for _, s := range l {
			switch s.Kind {
			case "Emit":
				if view {
					out["emit"] = true
				}
			case "Assign":
				if view && init && selfMid(s.T, host) {
					out["self"] = true
				}
			case "Swap":
				if view && init && (selfMid(s.T, host) || selfMid(s.T2, host)) {
					out["self"] = true
				}
			case "Let2":
				// in a view initializer the self-rooted target of a second value transfer is not checked either
				if view && init && s.T.Root() == idSelf {
					out["self"] = true
				}
			case "Remove":
				if view && init && s.T.Root() == idSelf {
					out["self"] = true
				}
			}
			ex(s.E, view, host)
			ss(s.Th, view, init, host)
			ss(s.El, view, init, host)
		}
	}
	for _, f := range p.Funs {
		ss(f.Body, f.View, f.Init, f.Host)
		for _, c := range append(append([]Cond{}, f.Pre...), f.Post...) {
			ex(c.E, true, f.Host)
		}
	}
	return out
}

func hasEmitCond(p *Prog) bool {
	for _, f := range p.Funs {
		for _, c := range append(append([]Cond{}, f.Pre...), f.Post...) {
			if c.Emit {
				return true
			}
		}
	}
	return false
}

// testFun returns the function under test of a case
func (c *Case) testFun() *Fun {
	for _, f := range c.Prog.Funs {
		switch c.Kind {
		case KMethodS:
			if f.Host == "S" && !f.Init && f.ID == fnTest {
				return f
			}
		case KMethodR:
			if f.Host == "R" && !f.Init && f.ID == fnTest {
				return f
			}
		case KGlobal:
			if f.Host == "" && f.ID == fnTest {
				return f
			}
		case KInitS:
			if f.Host == "S" && f.Init {
				return f
			}
		case KInitR:
			if f.Host == "R" && f.Init {
				return f
			}
		}
	}
	return nil
}

// names of the snapshot slots (contract function snap)
var snapNames = []string{"C.g", "C.gd[1]", "C.gd.length", "C.garr.length", "C.garr[0]",
	"storage s0[1]", "storage s0[5]", "storage s0.length", "storage a0.length", "storage a0[0]", "storage e0 present",
	"s2.x", "s2.arr.length", "s1.x", "s1.arr.length", "s1.arr[0]", "s1.kids.length", "s1.kids[0].x", "s1.refs.length", "s1.d[1]", "s1.d.length",
	"a1.length", "a1[0]", "d1[1]", "d1.length", "r1.x", "r1.arr.length", "r1 has attachment A",
	"r2.x", "r2.arr.length", "r2.kids.length", "r2.kids[0].x", "r2 has attachment A", "r3.x"}

const snapAttR1 = 27

func zs(xs []int64) string {
	var p []string
	for _, x := range xs {
		p = append(p, zlit(x))
	}
	return "[" + strings.Join(p, "; ") + "]"
}

func ns(xs []int) string {
	var p []string
	for _, x := range xs {
		if x < 0 {
			x = 99999
		}
		p = append(p, fmt.Sprint(x)+"%nat")
	}
	return "[" + strings.Join(p, "; ") + "]"
}

func eqInts(a, b []int64) bool {
	if len(a) != len(b) {
		return false
	}
	for i := range a {
		if a[i] != b[i] {
			return false
		}
	}
	return true
}

func coqClass(c string) string {
	switch c {
	case lib.EIndexOOB, lib.ETypeMism, lib.ECondFail, lib.EUserOther:
		return c
	}
	return "Internal"
}

func run(sum *lib.Summary) {
	// lib.Rng states of neighbouring seeds are one step apart: spread the seeds
	rng := lib.NewRng(*seed<<40 ^ 0x5bd1e995)
	n := *count
	if n == 0 {
		n = 180
		if *tier == "thorough" {
			n = 4000
		}
	}
	cw := &lib.CaseWriter{
		Dir: *dir, Prefix: "cases_C07",
		Header:   "From CV Require Import C07.Cases.",
		ElemType: "nat * prog * list nat * option (res Z * list Z * list Z * bool)",
		CheckFn:  "check_case",
		PerFile:  60,
	}
	sum.Rule = "programs of the MiniCadence fragment (struct S / resource R with view and non-view methods and initializers, " +
		"global functions, closures, references, optionals, arrays, dictionary, built-in mutators, account storage, emit, destroy, attach), " +
		"one function under test each (method of S, method of R taking and returning a resource, global function, initializer of S, initializer of R); " +
		"the real checker's PurityErrors (statement, multiplicity, order) are compared with the model's; accepted programs are executed in both engines with " +
		"snapshots of 34 observables of pre-existing values before/after, event and ledger-write recording, and compared with the model's run. " +
		"non-trivial = the program contains at least one write, call of a non-view function, mutating built-in, emit, destroy or attach inside view-checked code, " +
		"or is accepted and executed; distinct = distinct program text"
	distinct := map[string]bool{}
	// every built-in the checker declares view, executed from a user view function (see builtin_mon.go)
	if *only == "" {
		builtinMonitors(sum)
	}
	var cases []*Case
	cases = append(cases, corpusCases()...)
	if files, _ := filepath.Glob(filepath.Join(*corpus, "case_*.json")); len(files) > 0 {
		sort.Strings(files)
		for _, f := range files {
			b, err := os.ReadFile(f)
			if err != nil {
				continue
			}
			var c Case
			if json.Unmarshal(b, &c) == nil && c.Prog != nil {
				c.Name = filepath.Base(f)
				cases = append(cases, &c)
			}
		}
	}
	for i := 0; i < n; i++ {
		cases = append(cases, genCase(rng, fmt.Sprintf("gen-%d-%d", *seed, i)))
	}
	invalid := 0
	for _, c := range cases {
		if *only != "" && c.Name != *only {
			continue
		}
		v := runCase(c)
		if *only != "" {
			fmt.Fprintf(os.Stderr, "%s\n%s\n%+v\n%+v\n", v.Source, driverTx(c.Kind), v.Runs[0], v.Runs[1])
		}
		sum.Evaluations++
		tf := c.testFun()
		desc := map[string]any{"name": c.Name, "kind": c.Kind, "lines": v.Lines}
		replay := func() map[string]any {
			return map[string]any{"name": c.Name, "kind": c.Kind, "contract": v.Source, "transaction": driverTx(c.Kind), "note": c.Note}
		}
		if len(v.Other) > 0 || v.DeployEr != "" {
			// the generator produced a program the checker rejects for a reason other than purity: not a test
			invalid++
			sum.Count("invalid-program")
			if *debug {
				fmt.Fprintf(os.Stderr, "INVALID %s kind=%d: %v %s\n%s\n", c.Name, c.Kind, v.Other, v.DeployEr, v.Source)
			}
			continue
		}
		if !distinct[v.Source] {
			distinct[v.Source] = true
			sum.DistinctNontrivial++
		}
		sum.Count(fmt.Sprintf("kind-%d", c.Kind))
		obs := "None"
		if v.DeployOK {
			sum.Count("accepted")
			r0, r1 := v.Runs[0], v.Runs[1]
			if r0 == nil || r1 == nil {
				sum.Fail("engine-divergence:deploy", "contract deploys with one engine only", replay())
				continue
			}
			// both engines must behave identically
			if r0.Class != r1.Class || r0.Res != r1.Res || !eqInts(r0.After, r1.After) || !eqInts(r0.Events, r1.Events) || (r0.Writes > 0) != (r1.Writes > 0) {
				rp := replay()
				rp["interpreter"], rp["vm"] = r0, r1
				sum.Fail("engine-divergence", fmt.Sprintf("interpreter and VM disagree on %s: %+v vs %+v", c.Name, *r0, *r1), rp)
			}
			if r0.Class != "" {
				sum.Count("run-error-" + r0.Class)
				obs = fmt.Sprintf("(Some (Err %s, [], [], false))", coqClass(r0.Class))
				desc["run"] = r0.Class
				desc["err"] = r0.Err
			} else {
				sum.Count("run-ok")
				obs = fmt.Sprintf("(Some (Ok %s, %s, %s, %v))", zlit(r0.Res), zs(r0.After), zs(r0.Events), r0.Writes > 0)
				desc["res"], desc["after"], desc["events"], desc["writes"] = r0.Res, r0.After, r0.Events, r0.Writes
				// direct monitor: a function accepted as view must not change anything
				if tf != nil && tf.View {
					sites := strictSites(c.Prog)
					for ei, r := range v.Runs {
						eng := []string{"interpreter", "vm"}[ei]
						for i := range r.Before {
							if i < len(r.After) && r.Before[i] != r.After[i] {
								key := "view-mutates:" + snapNames[i]
								what := fmt.Sprintf("function accepted as `view` changed pre-existing value %s from %d to %d (%s)", snapNames[i], r.Before[i], r.After[i], eng)
								switch {
								case i == snapAttR1 && sites["attach"]:
									key = "view-attach-resource"
								case (c.Kind == KInitS || c.Kind == KInitR) && sites["self"]:
									key = "view-init-self-chain-write"
								}
								rp := replay()
								rp["observable"], rp["before"], rp["after"], rp["engine"] = snapNames[i], r.Before[i], r.After[i], eng
								sum.Fail(key, what, rp)
							}
						}
						if len(r.Events) > 0 && !hasEmitCond(c.Prog) {
							key := "view-emits-event"
							if sites["emit"] {
								key = "view-body-emit"
							}
							rp := replay()
							rp["events"], rp["engine"] = r.Events, eng
							sum.Fail(key, fmt.Sprintf("function accepted as `view` emitted events %v although the program declares no emit condition (%s)", r.Events, eng), rp)
						}
						if r.Writes > 0 {
							rp := replay()
							rp["writes"], rp["engine"] = r.Writes, eng
							sum.Fail("view-writes-storage", fmt.Sprintf("function accepted as `view` wrote %d ledger registers (%s)", r.Writes, eng), rp)
						}
					}
				}
			}
		} else {
			sum.Count("rejected-purity")
		}
		cw.Add(fmt.Sprintf("(%d%%nat, %s,\n %s, %s)", c.Kind, c.Prog.Coq(), ns(v.Lines), obs), desc)
		if len(sum.Samples) < 4 {
			sum.Sample(map[string]any{"name": c.Name, "kind": c.Kind, "purity_error_sites": v.Lines, "accepted": v.DeployOK, "test_function": strings.TrimSpace(tfText(c))})
		}
	}
	cw.Close()
	sum.CaseFiles = cw.Files
	if sum.Extra == nil {
		sum.Extra = map[string]any{}
	}
	sum.Extra["invalid_programs_skipped"] = invalid
	if invalid*5 > len(cases) {
		sum.Fail("generator-invalid", fmt.Sprintf("%d of %d generated programs are rejected by the checker for reasons other than purity", invalid, len(cases)), map[string]any{"broken": "generator"})
	}
}

func tfText(c *Case) string {
	if f := c.testFun(); f != nil {
		s := f.cadence()
		if len(s) > 900 {
			s = s[:900] + "..."
		}
		return s
	}
	return ""
}
