package main

import (
	"errors"
	"fmt"
	"regexp"
	"strconv"
	"strings"

	"cvh/lib"

	"github.com/onflow/cadence"
	"github.com/onflow/cadence/common"
	"github.com/onflow/cadence/runtime"
	"github.com/onflow/cadence/sema"
)

// Case is one program with a designated function under test.
type Case struct {
	Name string
	Kind int
	Prog *Prog
	Note string
}

// EngineRun is what one engine did with an accepted program.
type EngineRun struct {
	Class  string  // "" = transaction succeeded
	Res    int64   // result of the call
	Before []int64 // snapshot of all pre-existing values before the call
	After  []int64
	Events []int64 // payloads of Ev events emitted by the test transaction
	Writes int     // ledger registers written by the test transaction
	Err    string
}

type Verdict struct {
	Lines    []int    // statement tags of the PurityErrors, in report order
	Other    []string // other checker errors (generator produced an invalid program)
	DeployOK bool
	DeployEr string
	Runs     [2]*EngineRun // interpreter, VM
	Source   string
}

var addr1 = common.MustBytesToAddress([]byte{1})

func parseInts(s string) []int64 {
	s = strings.Trim(s, "[] ")
	if s == "" {
		return nil
	}
	var out []int64
	for _, p := range strings.Split(s, ",") {
		n, err := strconv.ParseInt(strings.TrimSpace(p), 10, 64)
		if err != nil {
			return nil
		}
		out = append(out, n)
	}
	return out
}

var evRe = regexp.MustCompile(`Ev$`)

func runCase(c *Case) *Verdict {
	src := c.Prog.cadence()
	v := &Verdict{Source: src}
	tags := lineTags(src)
	tx := driverTx(c.Kind)
	for ei, vm := range []bool{false, true} {
		h := lib.NewHost()
		// structs holding references are not storable; atree's debug-time slab round-trip validation
		// (runtime.Config.AtreeValidationEnabled, off in production) rejects such transient values
		h.RT = runtime.NewRuntime(runtime.Config{})
		o := h.Deploy(addr1, "C", src, vm)
		if o.Err != nil {
			if ei == 0 {
				var ce *sema.CheckerError
				if errors.As(o.Err, &ce) {
					for _, e := range ce.Errors {
						var pe *sema.PurityError
						if errors.As(e, &pe) {
							tag, ok := tags[pe.StartPos.Line]
							if !ok {
								tag = -pe.StartPos.Line
							}
							v.Lines = append(v.Lines, tag)
						} else {
							v.Other = append(v.Other, fmt.Sprintf("%T: %s", e, strings.SplitN(e.Error(), "\n", 2)[0]))
						}
					}
				}
				if len(v.Lines) == 0 && len(v.Other) == 0 {
					v.DeployEr = o.Err.Error()
				}
			}
			continue
		}
		if ei == 0 {
			v.DeployOK = true
		}
		h.Writes = nil
		r := &EngineRun{}
		out := h.RunTx(tx, nil, []common.Address{addr1}, vm)
		r.Class = classifyRun(out.Class, out.Err)
		r.Writes = len(h.Writes)
		if out.Err != nil {
			r.Err = out.Err.Error()
		}
		if out.Class == "" && len(out.Logs) == 3 {
			r.Before = parseInts(out.Logs[0])
			rs := parseInts(out.Logs[1])
			if len(rs) == 1 {
				r.Res = rs[0]
			}
			r.After = parseInts(out.Logs[2])
		}
		for _, e := range out.Events {
			if evRe.MatchString(e.EventType.QualifiedIdentifier) {
				fields := cadence.FieldsMappedByName(e)
				if iv, ok := fields["x"].(cadence.Int); ok {
					r.Events = append(r.Events, iv.Big().Int64())
				}
			}
		}
		v.Runs[ei] = r
	}
	return v
}

// classifyRun refines the class of a run-time error by the concrete error types in its chain.
func classifyRun(class string, err error) string {
	if err == nil {
		return class
	}
	found := ""
	for e, i := err, 0; e != nil && i < 60; i++ {
		n := fmt.Sprintf("%T", e)
		switch {
		case strings.Contains(n, "ArrayIndexOutOfBounds"):
			found = lib.EIndexOOB
		case strings.Contains(n, "ForceNilError"), strings.Contains(n, "ForceCastTypeMismatch"), strings.Contains(n, "ValueTransferTypeError"), strings.Contains(n, "ContainerMutationError"):
			found = lib.ETypeMism
		case strings.Contains(n, "ConditionError"):
			found = lib.ECondFail
		case strings.Contains(n, "OverwriteError"), strings.Contains(n, "DuplicateAttachment"):
			found = lib.EUserOther
		}
		if found != "" {
			return found
		}
		u, ok := e.(interface{ Unwrap() error })
		if !ok {
			break
		}
		e = u.Unwrap()
	}
	return class
}
