package main

// Hand-picked programs, run first on every run.  The first four exercise the three defect classes recorded in
// known_findings/C07.json deterministically; the others pin one impure form each.

func mkBody(kind int, view bool, body []*Stmt, pre, post []Cond) *Case {
	var funs []*Fun
	var sExtra, rExtra []*Stmt
	sView, rView := true, true
	switch kind {
	case KMethodS, KGlobal:
		host := ""
		if kind == KMethodS {
			host = "S"
		}
		funs = append(funs, &Fun{ID: fnTest, Host: host, View: view, Params: testParams(false), Pre: pre, Post: post, Body: body})
	case KMethodR:
		funs = append(funs, &Fun{ID: fnTest, Host: "R", View: view, Params: testParams(true), Pre: pre, Post: post, Body: body, RetRes: true})
	case KInitS:
		sExtra, sView = body, view
	case KInitR:
		rExtra, rView = body, view
	}
	p := &Prog{Funs: append(fixedFuns(sView, rView, sExtra, rExtra), funs...)}
	fixLines(p)
	return &Case{Kind: kind, Prog: p}
}

func sExp(e *Exp) *Stmt                     { return &Stmt{Kind: "Exp", E: e} }
func sLet(x int, t *Ty, e *Exp) *Stmt       { return &Stmt{Kind: "Let", X: x, Ty: t, E: e} }
func sAssign(t *Target, e *Exp) *Stmt       { return &Stmt{Kind: "Assign", T: t, E: e} }
func sRet(e *Exp) *Stmt                     { return &Stmt{Kind: "Return", E: e} }
func callB(t *Target, b string, a ...*Exp) *Exp { return &Exp{Kind: "CallB", T: t, Bi: b, Args: a} }

func corpusCases() []*Case {
	self := tgVar(idSelf)
	var cs []*Case
	add := func(name, note string, c *Case) {
		c.Name, c.Note = "corpus/"+name, note
		cs = append(cs, c)
	}
	// --- known defect classes
	add("emit-in-view-body", "emit statement in the body of a view method: accepted by the checker, emits an event",
		mkBody(KMethodS, true, []*Stmt{{Kind: "Emit", E: eInt(5)}, sRet(eInt(1))}, nil, nil))
	add("view-init-writes-through-self-refs", "view initializer assigns through a reference stored in a field of self",
		mkBody(KInitS, true, []*Stmt{sAssign(tgField(tgIndex(tgField(self, 3), 0), 0), eInt(9))}, nil, nil))
	add("view-init-writes-through-self-resource", "view initializer assigns a field of a resource it has just been given",
		mkBody(KInitR, true, []*Stmt{sAssign(tgField(tgIndex(tgField(self, 2), 0), 0), eInt(5))}, nil, nil))
	add("view-attach-to-resource", "view method attaches an attachment to a resource it was given",
		mkBody(KMethodR, true, []*Stmt{sRet(&Exp{Kind: "Attach", A: eVar(idPR)})}, nil, nil))
	// --- one impure form each (expected: rejected at that statement)
	add("write-through-ref-param", "", mkBody(KMethodS, true, []*Stmt{sAssign(tgField(tgVar(idPRS), 0), eInt(1)), sRet(eInt(0))}, nil, nil))
	add("index-write-through-ref-param", "", mkBody(KGlobal, true, []*Stmt{sAssign(tgIndex(tgVar(idPRA), 0), eInt(1)), sRet(eInt(0))}, nil, nil))
	add("append-through-ref", "", mkBody(KGlobal, true, []*Stmt{sExp(callB(tgVar(idPRA), "BAppend", eInt(1))), sRet(eInt(0))}, nil, nil))
	add("append-through-optional-chain", "", mkBody(KGlobal, true, []*Stmt{sExp(&Exp{Kind: "CallB", T: tgVar(idPRO), Opt: true, Bi: "BAppend", Args: []*Exp{eInt(1)}}), sRet(eInt(0))}, nil, nil))
	// every modelled mutating built-in, through a reference to a pre-existing value
	add("removeFirst-through-ref", "", mkBody(KGlobal, true, []*Stmt{sRet(callB(tgVar(idPRA), "BRemoveFirst"))}, nil, nil))
	add("insert-through-ref", "", mkBody(KGlobal, true, []*Stmt{sExp(callB(tgVar(idPRA), "BInsert", eInt(0), eInt(9))), sRet(eInt(0))}, nil, nil))
	add("dict-insert-through-ref", "", mkBody(KGlobal, true, []*Stmt{sExp(callB(tgVar(idPRD), "BDInsert", eInt(7), eInt(9))), sRet(eInt(0))}, nil, nil))
	add("dict-remove-through-ref", "", mkBody(KGlobal, true, []*Stmt{sExp(callB(tgVar(idPRD), "BDRemove", eInt(1))), sRet(eInt(0))}, nil, nil))
	add("view-builtins-through-ref", "", mkBody(KGlobal, true, []*Stmt{
		sLet(100, tArr(tInt), callB(tgVar(idPRA), "BConcat", &Exp{Kind: "Arr", Args: []*Exp{eInt(1)}, Ty: tArr(tInt)})),
		sRet(eAdd(callB(tgVar(idPRA), "BContains", eInt(20)), callB(tgVar(idPRD), "BDContainsKey", eInt(1))))}, nil, nil))
	add("append-on-local-copy", "", mkBody(KGlobal, true, []*Stmt{sLet(100, tArr(tInt), eVar(idPA)), sExp(callB(tgVar(100), "BAppend", eInt(1))), sRet(eInt(0))}, nil, nil))
	add("param-struct-writes-are-local", "writes to by-value parameters and locals are accepted and invisible to the caller",
		mkBody(KMethodS, true, []*Stmt{
			sAssign(tgField(tgVar(idPS), 0), eInt(77)),
			sAssign(tgIndex(tgVar(idPA), 0), eInt(78)),
			sAssign(tgField(tgIndex(tgField(tgVar(idPS), 2), 0), 0), eInt(79)),
			sAssign(tgIndex(tgVar(idPD), 1), eInt(80)),
			sLet(100, tS, eRead(self)), sAssign(tgField(tgVar(100), 0), eInt(81)),
			sLet(101, tArr(tInt), &Exp{Kind: "Deref", A: eVar(idPRA)}), sAssign(tgIndex(tgVar(101), 0), eInt(82)),
			{Kind: "Swap", T: tgIndex(tgVar(idPA), 0), T2: tgIndex(tgVar(idPA), 1)},
			sRet(eAdd(eRead(tgField(tgVar(idPS), 0)), eRead(tgIndex(tgVar(101), 0))))}, nil, nil))
	add("write-self-in-view-method", "", mkBody(KMethodS, true, []*Stmt{sAssign(tgField(self, 0), eInt(1)), sRet(eInt(0))}, nil, nil))
	add("write-global", "", mkBody(KGlobal, true, []*Stmt{sAssign(tgVar(idG), eInt(1)), sRet(eInt(0))}, nil, nil))
	add("write-through-struct-held-ref", "", mkBody(KMethodS, true, []*Stmt{sAssign(tgField(tgIndex(tgField(tgVar(idPS), 3), 0), 0), eInt(1)), sRet(eInt(0))}, nil, nil))
	add("resource-param-field-write", "", mkBody(KMethodR, true, []*Stmt{sAssign(tgField(tgVar(idPR), 0), eInt(3)), sRet(eVar(idPR))}, nil, nil))
	add("closure-writes-captured", "", mkBody(KGlobal, true, []*Stmt{
		sLet(100, tInt, eInt(0)),
		sLet(101, tFun(true), &Exp{Kind: "Fun", View: true, Body: []*Stmt{sAssign(tgVar(100), eInt(1)), sRet(eVar(100))}}),
		sRet(&Exp{Kind: "CallV", F: 101})}, nil, nil))
	add("impure-closure-created-not-called", "", mkBody(KGlobal, true, []*Stmt{
		sLet(100, tInt, eInt(0)),
		sLet(101, tFun(false), &Exp{Kind: "Fun", View: false, Body: []*Stmt{sAssign(tgVar(100), eInt(1)), sExp(eCallG(fnGI, eInt(1))), sRet(eVar(100))}}),
		sRet(eVar(100))}, nil, nil))
	add("impure-call-in-nested-view-closure", "", mkBody(KGlobal, true, []*Stmt{
		sLet(101, tFun(true), &Exp{Kind: "Fun", View: true, Body: []*Stmt{sRet(eCallG(fnGI, eInt(1)))}}),
		sRet(eInt(0))}, nil, nil))
	add("impure-call-in-doubly-nested-view-closure", "", mkBody(KGlobal, true, []*Stmt{
		sLet(101, tFun(true), &Exp{Kind: "Fun", View: true, Body: []*Stmt{
			sLet(102, tFun(true), &Exp{Kind: "Fun", View: true, Body: []*Stmt{
				sAssign(tgIndex(tgVar(idPRA), 0), eInt(5)), sRet(eCallG(fnGI, eInt(1)))}}),
			sRet(eInt(0))}}),
		sRet(eInt(0))}, nil, nil))
	add("write-captured-from-doubly-nested-closure", "", mkBody(KMethodS, true, []*Stmt{
		sLet(100, tS, eVar(idPS)),
		sLet(101, tFun(true), &Exp{Kind: "Fun", View: true, Body: []*Stmt{
			sLet(103, tInt, eInt(1)),
			sLet(102, tFun(true), &Exp{Kind: "Fun", View: true, Body: []*Stmt{
				sAssign(tgField(tgVar(100), 0), eInt(5)), sAssign(tgVar(103), eInt(2)), sLet(104, tInt, eInt(3)), sAssign(tgVar(104), eInt(4)),
				sRet(eVar(104))}}),
			sRet(&Exp{Kind: "CallV", F: 102})}}),
		sRet(&Exp{Kind: "CallV", F: 101})}, nil, nil))
	add("call-impure-function-value", "", mkBody(KGlobal, true, []*Stmt{sRet(&Exp{Kind: "CallV", F: idPF})}, nil, nil))
	add("call-view-function-value", "", mkBody(KGlobal, true, []*Stmt{sRet(&Exp{Kind: "CallV", F: idPVF})}, nil, nil))
	add("impure-method-through-ref", "", mkBody(KGlobal, true, []*Stmt{sRet(&Exp{Kind: "CallM", T: tgVar(idPRS), F: mSetXS, Args: []*Exp{eInt(4)}})}, nil, nil))
	add("storage-save", "", mkBody(KGlobal, true, []*Stmt{sExp(&Exp{Kind: "CallB", T: tgVar(idAcct), Bi: "BSave", Args: []*Exp{eVar(idPA), eInt(2)}, SlotTy: tArr(tInt)}), sRet(eInt(0))}, nil, nil))
	add("storage-load", "", mkBody(KGlobal, true, []*Stmt{sLet(100, tOpt(tArr(tInt)), &Exp{Kind: "CallB", T: tgVar(idAcct), Bi: "BLoad", Args: []*Exp{eInt(1)}, SlotTy: tArr(tInt)}), sRet(eInt(0))}, nil, nil))
	add("storage-borrow-then-write", "", mkBody(KGlobal, true, []*Stmt{
		sLet(100, tRef(tArr(tInt)), &Exp{Kind: "Force", A: &Exp{Kind: "CallB", T: tgVar(idAcct), Bi: "BBorrow", Args: []*Exp{eInt(1)}, SlotTy: tArr(tInt)}}),
		sAssign(tgIndex(tgVar(100), 0), eInt(1)), sRet(eInt(0))}, nil, nil))
	add("storage-copy-borrow-check-are-view", "", mkBody(KGlobal, true, []*Stmt{
		sLet(100, tArr(tInt), &Exp{Kind: "Force", A: &Exp{Kind: "CallB", T: tgVar(idAcct), Bi: "BCopy", Args: []*Exp{eInt(1)}, SlotTy: tArr(tInt)}}),
		sAssign(tgIndex(tgVar(100), 0), eInt(1)),
		sLet(101, tRef(tDict), &Exp{Kind: "Force", A: &Exp{Kind: "CallB", T: tgVar(idAcct), Bi: "BBorrow", Args: []*Exp{eInt(0)}, SlotTy: tDict}}),
		sRet(eAdd(&Exp{Kind: "Force", A: eRead(tgIndex(tgVar(101), 1))}, &Exp{Kind: "CallB", T: tgVar(idAcct), Bi: "BCheck", Args: []*Exp{eInt(2)}, SlotTy: tArr(tInt)}))}, nil, nil))
	add("destroy-in-view", "", mkBody(KGlobal, true, []*Stmt{sExp(&Exp{Kind: "Destroy", A: &Exp{Kind: "New", CK: "KR", Args: []*Exp{eInt(1), {Kind: "Arr", Ty: tArr(tInt)}, {Kind: "Arr", Ty: tArr(tR)}, eInt(0)}}}), sRet(eInt(0))}, nil, nil))
	add("emit-conditions", "emit conditions are allowed in view functions", mkBody(KGlobal, true, []*Stmt{sRet(eInt(2))},
		[]Cond{{Emit: true, E: eInt(11)}, {E: eInt(1)}}, []Cond{{Emit: true, E: eRead(tgField(tgVar(idPS), 0))}}))
	add("impure-call-in-condition-of-impure-function", "conditions are view contexts even in non-view functions",
		mkBody(KGlobal, false, []*Stmt{sRet(eInt(2))}, []Cond{{E: eCallG(fnGI, eInt(1))}}, nil))
	add("cast-then-write", "", mkBody(KMethodS, true, []*Stmt{
		sLet(100, tRefN(tS), &Exp{Kind: "Cast", A: eVar(idPAny), Ty: tRefN(tS)}), sAssign(tgField(tgVar(100), 0), eInt(1)), sRet(eInt(0))}, nil, nil))
	add("swap-through-ref", "", mkBody(KGlobal, true, []*Stmt{{Kind: "Swap", T: tgIndex(tgVar(idPRA), 0), T2: tgIndex(tgVar(idPA), 1)}, sRet(eInt(0))}, nil, nil))
	// --- every write form (each must be rejected in a view context unless the target is local)
	kid0 := func(root int) *Target { return tgIndex(tgField(tgVar(root), 2), 0) }
	add("second-transfer-into-self-field-element", "let old <- self.kids[0] <- pr: the second value transfer writes self",
		mkBody(KMethodR, true, []*Stmt{{Kind: "Let2", X: 100, Ty: tR, T: kid0(idSelf), E: eVar(idPR)}, sRet(eVar(100))}, nil, nil))
	add("second-transfer-into-param-element", "", mkBody(KMethodR, true, []*Stmt{
		{Kind: "Let2", X: 100, Ty: tR, T: kid0(idPR), E: newR(4)}, sExp(&Exp{Kind: "Destroy", A: eVar(100)}), sRet(eVar(idPR))}, nil, nil))
	add("second-transfer-in-view-closure", "", mkBody(KMethodR, true, []*Stmt{
		sLet(101, tFun(true), &Exp{Kind: "Fun", View: true, Body: []*Stmt{
			sLet(102, tR, &Exp{Kind: "New", CK: "KR", Args: []*Exp{eInt(1), {Kind: "Arr", Ty: tArr(tInt)}, {Kind: "Arr", Args: []*Exp{newR(2)}, Ty: tArr(tR)}, eInt(0)}}),
			{Kind: "Let2", X: 103, Ty: tR, T: kid0(102), E: newR(3)},
			sExp(&Exp{Kind: "Destroy", A: eVar(102)}), sExp(&Exp{Kind: "Destroy", A: eVar(103)}), sRet(eInt(0))}}),
		sRet(eVar(idPR))}, nil, nil))
	add("second-transfer-nonview-executes", "non-view: the swap-in/out is allowed and must match the model's run",
		mkBody(KMethodR, false, []*Stmt{{Kind: "Let2", X: 100, Ty: tR, T: kid0(idSelf), E: eVar(idPR)}, sRet(eVar(100))}, nil, nil))
	add("second-transfer-in-view-init", "", mkBody(KInitR, true, []*Stmt{
		{Kind: "Let2", X: 100, Ty: tR, T: kid0(idSelf), E: newR(4)}, sExp(&Exp{Kind: "Destroy", A: eVar(100)})}, nil, nil))
	add("force-assignment-in-view", "", mkBody(KGlobal, true, []*Stmt{
		sLet(100, tOpt(tR), &Exp{Kind: "Nil"}), sAssign(tgVar(100), newR(5)), sExp(&Exp{Kind: "Destroy", A: eVar(100)}), sRet(eInt(0))}, nil, nil))
	add("force-assignment-nonview-executes", "", mkBody(KGlobal, false, []*Stmt{
		sLet(100, tOpt(tR), &Exp{Kind: "Nil"}), sAssign(tgVar(100), newR(5)), sExp(&Exp{Kind: "Destroy", A: eVar(100)}), sRet(eInt(3))}, nil, nil))
	add("remove-attachment-in-view", "", mkBody(KMethodR, true, []*Stmt{{Kind: "Remove", T: tgVar(idPR)}, sRet(eVar(idPR))}, nil, nil))
	add("attach-then-remove-nonview-executes", "", mkBody(KMethodR, false, []*Stmt{
		sLet(100, tR, &Exp{Kind: "Attach", A: eVar(idPR)}), {Kind: "Remove", T: tgVar(100)}, sRet(eVar(100))}, nil, nil))
	add("swap-self-field-in-view-method", "", mkBody(KMethodS, true, []*Stmt{
		{Kind: "Swap", T: tgField(self, 0), T2: tgIndex(tgVar(idPA), 0)}, sRet(eInt(0))}, nil, nil))
	add("swap-global-in-view", "", mkBody(KGlobal, true, []*Stmt{{Kind: "Swap", T: tgVar(idG), T2: tgIndex(tgVar(idPA), 0)}, sRet(eInt(0))}, nil, nil))
	add("assign-global-array-element", "", mkBody(KGlobal, true, []*Stmt{sAssign(tgIndex(tgVar(idGArr), 0), eInt(1)), sRet(eInt(0))}, nil, nil))
	add("assign-global-dictionary-element", "", mkBody(KGlobal, true, []*Stmt{sAssign(tgIndex(tgVar(idGD), 1), eInt(1)), sRet(eInt(0))}, nil, nil))
	add("assign-compound-chain-through-self", "", mkBody(KMethodS, true, []*Stmt{
		sAssign(tgIndex(tgField(tgIndex(tgField(self, 2), 0), 1), 0), eInt(1)), sRet(eInt(0))}, nil, nil))
	add("assign-compound-chain-through-ref-param", "", mkBody(KMethodS, true, []*Stmt{
		sAssign(tgField(tgIndex(tgField(tgVar(idPRS), 2), 0), 0), eInt(1)), sRet(eInt(0))}, nil, nil))
	add("nonview-mutates-everything", "non-view function: effects are allowed and must match the model's run",
		mkBody(KMethodS, false, []*Stmt{
			sAssign(tgField(self, 0), eInt(1)), sAssign(tgField(tgVar(idPRS), 0), eInt(2)), sExp(callB(tgVar(idPRA), "BAppend", eInt(3))),
			sAssign(tgVar(idG), eInt(4)), sExp(callB(tgVar(idPRD), "BDInsert", eInt(1), eInt(55))), {Kind: "Emit", E: eInt(6)},
			sExp(&Exp{Kind: "CallB", T: tgVar(idAcct), Bi: "BSave", Args: []*Exp{eVar(idPA), eInt(2)}, SlotTy: tArr(tInt)}),
			sRet(&Exp{Kind: "CallV", F: idPF})}, nil, nil))
	return cs
}
