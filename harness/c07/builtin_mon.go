package main

import (
	"fmt"
	"regexp"
	"sort"
	"strings"

	"cvh/lib"

	"github.com/onflow/cadence"
	"github.com/onflow/cadence/common"
	"github.com/onflow/cadence/runtime"
	"github.com/onflow/cadence/stdlib"
)

// Execution monitors for the built-in functions the checker declares `view`.
//
// The list of functions is NOT written here: it is the purity table extracted from the linked sema package
// (extractBuiltins).  For every `view` member function this file knows how to obtain a receiver of its type and
// plausible arguments; a view member without a recipe is reported ("builtin-uncovered"), so that a new view built-in
// cannot slip past unexercised.  Each function is called from a user `view fun` of a deployed contract
//
//	(A) account family (Account, Account.Storage / Capabilities / StorageCapabilities / AccountCapabilities /
//	    Contracts / Keys / Inbox, capability controllers, Capability, DeployedContract): in a transaction that does
//	    nothing else, signed by (a) an account that was never touched and (b) an account with stored values,
//	    capabilities, controllers and a contract; the transaction must write no ledger register (beyond what an empty
//	    transaction of the same signer writes) and a snapshot of the account taken by a script must not change;
//	    the same call is also run from a script;
//	(B) value family (arrays, dictionaries, strings, numbers, paths, types, optionals, ranges, StringBuilder ...):
//	    on pre-existing values reached through references; the values must print the same before and after.

const acctTy = "auth(Storage, Capabilities, Contracts, Keys, Inbox) &Account"

// receivers of the account family: how to reach a value of the type from `acct`; %s is the call suffix
var acctRecv = map[string]string{
	"Account":                     "let r = acct%s",
	"Account.Storage":             "let r = acct.storage%s",
	"Account.Capabilities":        "let r = acct.capabilities%s",
	"Account.StorageCapabilities": "let r = acct.capabilities.storage%s",
	"Account.AccountCapabilities": "let r = acct.capabilities.account%s",
	"Account.Contracts":           "let r = acct.contracts%s",
	"Account.Keys":                "let r = acct.keys%s",
	"Account.Inbox":               "let r = acct.inbox%s",
	"StorageCapabilityController": "for c in acct.capabilities.storage.getControllers(forPath: /storage/a0) { let r = c%s }",
	"AccountCapabilityController": "for c in acct.capabilities.account.getControllers() { let r = c%s }",
	"Capability":                  "let r = acct.capabilities.get<&[Int]>(/public/p0)%s",
	"DeployedContract":            "if let dc = acct.contracts.get(name: \"V\") { let r = dc%s }",
}

var acctArgs = map[string]string{
	"Account.AccountCapabilities.getController":  "(byCapabilityID: 2)",
	"Account.AccountCapabilities.getControllers": "()",
	"Account.Capabilities.borrow":                "<&[Int]>(/public/p0)",
	"Account.Capabilities.exists":                "(/public/p0)",
	"Account.Capabilities.get":                   "<&[Int]>(/public/p0)",
	"Account.Contracts.borrow":                   "<&V>(name: \"V\")",
	"Account.Contracts.get":                      "(name: \"V\")",
	"Account.Keys.get":                           "(keyIndex: 0)",
	"Account.Storage.borrow":                     "<&[Int]>(from: /storage/a0)",
	"Account.Storage.check":                      "<[Int]>(from: /storage/a0)",
	"Account.Storage.copy":                       "<[Int]>(from: /storage/a0)",
	"Account.Storage.type":                       "(at: /storage/a0)",
	"Account.StorageCapabilities.getController":  "(byCapabilityID: 1)",
	"Account.StorageCapabilities.getControllers": "(forPath: /storage/a0)",
	"Capability.borrow":                          "()",
	"Capability.check":                           "()",
	"DeployedContract.publicTypes":               "()",
}

// receivers of the value family (parameters / locals of the probe function)
var valRecv = map[string]string{
	"Array": "arr", "ConstantArray": "carr", "Dictionary": "dict", "String": "str", "Character": "chr",
	"Bool": "true", "Int": "(7)", "UInt8": "(7 as UInt8)", "Word64": "(7 as Word64)", "Fix64": "(1.5 as Fix64)", "UFix64": "(1.5 as UFix64)",
	"Address": "(0x1 as Address)", "Path": "(/storage/a0 as Path)", "StoragePath": "/storage/a0", "PublicPath": "/public/p0",
	"Type": "Type<Int>()", "Optional": "opt", "InclusiveRange": "InclusiveRange(1, 5)", "StringBuilder": "sb",
	"AnyStruct": "anyv", "Function": "fn", "RoundingRule": "RoundingRule.towardZero",
	"HashAlgorithm": "HashAlgorithm.SHA3_256", "SignatureAlgorithm": "SignatureAlgorithm.ECDSA_P256",
}

// arguments by member name (and by type where they differ)
func valArgs(ty, member string) (string, bool) {
	switch member {
	case "getType", "reverse", "toVariableSized", "toString", "toBytes", "toBigEndianBytes", "toLower":
		return "()", true
	case "isInstance":
		return "(Type<Int>())", true
	case "decodeHex":
		return "()", true
	case "concat":
		if ty == "String" {
			return "(\"zz\")", true
		}
		return "([9])", true
	case "contains":
		switch ty {
		case "String":
			return "(\"b\")", true
		case "InclusiveRange":
			return "(3)", true
		}
		return "(1)", true
	case "filter":
		return "(view fun (e: Int): Bool { return e > 1 })", true
	case "firstIndex":
		return "(of: 1)", true
	case "slice":
		return "(from: 0, upTo: 1)", true
	case "toConstantSized":
		return "<[Int; 3]>()", true
	case "containsKey":
		return "(1)", true
	case "saturatingAdd", "saturatingSubtract", "saturatingMultiply", "saturatingDivide":
		if ty == "UInt8" {
			return "(3)", true
		}
		return "(2.0)", true
	case "multiplyDivide":
		return "(2.0, 3.0, rounding: RoundingRule.towardZero)", true
	case "pow":
		return "(2.0)", true
	case "count":
		return "(\"a\")", true
	case "index":
		return "(of: \"b\")", true
	case "replaceAll":
		return "(of: \"a\", with: \"c\")", true
	case "split":
		return "(separator: \"b\")", true
	case "isSubtype":
		return "(of: Type<Int>())", true
	}
	return "", false
}

// view members that are deliberately not executed, with the reason
var monSkip = map[string]string{
	"ResourceArray":      "the Array member types instantiated with a resource element type (same sema functions; most are statically unavailable on resource arrays)",
	"ResourceDictionary": "the Dictionary member types instantiated with a resource element type",
	"AnyResource":        "getType / isInstance of the top resource type (exercised on the concrete types)",
	"Block":              "needs host block handlers",
	"PublicKey":          "needs host crypto handlers (immutable value)",
	"BLS":                "needs host crypto handlers (contract-like value without state)",
	"RLP":                "pure decoder on argument bytes (C46)",
	"HashAlgorithm.hash": "needs host crypto handlers", "HashAlgorithm.hashWithTag": "needs host crypto handlers",
}

type probeFn struct {
	Name   string // table name, e.g. Account.Storage.copy
	Fn     string // name of the view function in contract V
	Family string // "acct" | "val"
	Body   string
}

func splitName(n string) (ty, member string) {
	i := strings.LastIndex(n, ".")
	return n[:i], n[i+1:]
}

// buildProbes derives the probe functions from the extracted table.
func buildProbes(bs []BuiltinFn) (probes []probeFn, uncovered []string, skipped map[string]string) {
	skipped = map[string]string{}
	for _, b := range bs {
		if !b.View || strings.HasPrefix(b.Name, "fun ") || strings.HasPrefix(b.Name, "static ") {
			continue
		}
		ty, member := splitName(b.Name)
		if why, ok := monSkip[b.Name]; ok {
			skipped[b.Name] = why
			continue
		}
		if why, ok := monSkip[ty]; ok {
			skipped[b.Name] = why
			continue
		}
		fn := fmt.Sprintf("p%d", len(probes))
		if recv, ok := acctRecv[ty]; ok {
			args, ok := acctArgs[b.Name]
			if !ok {
				switch member {
				case "getType":
					args, ok = "()", true
				case "isInstance":
					args, ok = "(Type<Int>())", true
				}
			}
			if !ok {
				uncovered = append(uncovered, b.Name)
				continue
			}
			probes = append(probes, probeFn{b.Name, fn, "acct", fmt.Sprintf(recv, "."+member+args)})
			continue
		}
		if recv, ok := valRecv[ty]; ok {
			if args, ok := valArgs(ty, member); ok {
				probes = append(probes, probeFn{b.Name, fn, "val", "let r = " + recv + "." + member + args})
				continue
			}
		}
		uncovered = append(uncovered, b.Name)
	}
	return
}

const valParams = "_ arr: auth(Mutate) &[Int], _ carr: auth(Mutate) &[Int; 2], _ dict: auth(Mutate) &{Int: Int}, _ str: String, _ chr: Character, _ opt: Int?, _ sb: &StringBuilder, _ anyv: AnyStruct, _ fn: view fun(): Int"

func probeContract(probes []probeFn) string {
	var sb strings.Builder
	sb.WriteString("access(all) contract V {\n    access(all) view fun nop(_ acct: " + acctTy + ") {}\n    access(all) view fun nopv(" + valParams + ") {}\n")
	for _, p := range probes {
		if p.Family == "acct" {
			fmt.Fprintf(&sb, "    // %s\n    access(all) view fun %s(_ acct: %s) {\n        %s\n    }\n", p.Name, p.Fn, acctTy, p.Body)
		} else {
			fmt.Fprintf(&sb, "    // %s\n    access(all) view fun %s(%s) {\n        %s\n    }\n", p.Name, p.Fn, valParams, p.Body)
		}
	}
	sb.WriteString("}\n")
	return sb.String()
}

const setupTx = `transaction {
    prepare(acct: auth(Storage, Capabilities) &Account) {
        acct.storage.save([1, 2, 3], to: /storage/a0)
        acct.storage.save("hello", to: /storage/b0)
        let cap = acct.capabilities.storage.issue<&[Int]>(/storage/a0)
        acct.capabilities.publish(cap, at: /public/p0)
        let acap = acct.capabilities.account.issue<&Account>()
    }
}`

const snapScript = `access(all) fun main(a: Address): [String] {
    let acct = getAuthAccount<auth(Storage, Capabilities, Contracts) &Account>(a)
    var n = 0
    for c in acct.capabilities.storage.getControllers(forPath: /storage/a0) { n = n + 1 }
    return [acct.storage.storagePaths.length.toString(), acct.storage.publicPaths.length.toString(),
        (acct.storage.copy<[Int]>(from: /storage/a0) ?? []).length.toString(), acct.storage.copy<String>(from: /storage/b0) ?? "-",
        n.toString(), acct.capabilities.account.getControllers().length.toString(),
        acct.capabilities.exists(/public/p0) ? "1" : "0", acct.contracts.names.length.toString()]
}`

func acctProbeTx(fn string) string {
	return fmt.Sprintf("import V from 0x0000000000000001\ntransaction {\n    prepare(acct: %s) {\n        V.%s(acct)\n    }\n}\n", acctTy, fn)
}

func acctProbeScript(fn string) string {
	return fmt.Sprintf("import V from 0x0000000000000001\naccess(all) fun main(a: Address) {\n    V.%s(getAuthAccount<%s>(a))\n}\n", fn, acctTy)
}

func valProbeTx(fn string) string {
	return fmt.Sprintf(`import V from 0x0000000000000001
transaction {
    prepare(acct: &Account) {
        var arr = [3, 1, 2]
        var carr: [Int; 2] = [5, 6]
        var dict = {1: 10, 2: 20}
        let sb = StringBuilder()
        sb.append("ab")
        var opt: Int? = 4
        let fn = view fun(): Int { return 1 }
        log(arr)
        log(carr)
        log(dict)
        log(sb.toString())
        V.%s(&arr as auth(Mutate) &[Int], &carr as auth(Mutate) &[Int; 2], &dict as auth(Mutate) &{Int: Int}, "0a0b", "a", opt, &sb as &StringBuilder, arr, fn)
        log(arr)
        log(carr)
        log(dict)
        log(sb.toString())
    }
}
`, fn)
}

func monHost(vm bool, code string) (*lib.Host, error) {
	h := lib.NewHost()
	h.RT = runtime.NewRuntime(runtime.Config{})
	h.Iface.OnGetAccountKey = func(address runtime.Address, index uint32) (*stdlib.AccountKey, error) { return nil, nil }
	o := h.Deploy(addr1, "V", code, vm)
	if o.Err != nil {
		return nil, o.Err
	}
	o = h.RunTx(setupTx, nil, []common.Address{addr1}, vm)
	if o.Err != nil {
		return nil, o.Err
	}
	return h, nil
}

func snapshotOf(h *lib.Host, a common.Address, vm bool) string {
	o := h.RunScript(snapScript, []cadence.Value{cadence.NewAddress(a)}, vm)
	if o.Err != nil {
		return "ERR " + o.Err.Error()
	}
	return lib.ValueString(o.Value)
}

func errLine(err error) string {
	s := err.Error()
	if k := strings.Index(s, "error:"); k >= 0 {
		s = s[k:]
	}
	if len(s) > 400 {
		s = s[:400]
	}
	return s
}

// builtinMonitors runs the probes and records failures.
func builtinMonitors(sum *lib.Summary) {
	probes, uncovered, skipped := buildProbes(extractBuiltins())
	for _, u := range uncovered {
		sum.Fail("builtin-uncovered:"+u, "the checker declares built-in "+u+" `view` but harness/c07/builtin_mon.go has no recipe (receiver + arguments) to execute it: add one",
			map[string]any{"builtin": u, "broken": "harness/c07/builtin_mon.go"})
	}
	code := probeContract(probes)
	if sum.Extra == nil {
		sum.Extra = map[string]any{}
	}
	var skippedNames []string
	for n := range skipped {
		skippedNames = append(skippedNames, n)
	}
	sort.Strings(skippedNames)
	sum.Extra["view_builtins_executed"] = len(probes)
	sum.Extra["view_builtins_not_executed"] = skippedNames
	for _, vm := range []bool{false, true} {
		eng := []string{"interpreter", "vm"}[btoi(vm)]
		h, err := monHost(vm, code)
		// the VM does not link every built-in member (e.g. getType on the account sub-objects): such probes are
		// dropped for that engine (an engine-equivalence matter, not a purity matter) and listed in the summary
		probes := probes
		var unsupported []string
		for tries := 0; err != nil && tries < 60; tries++ {
			m := regexp.MustCompile(`cannot find import '([^']+)'`).FindStringSubmatch(err.Error())
			if m == nil {
				break
			}
			var kept []probeFn
			for _, p := range probes {
				if p.Name != m[1] {
					kept = append(kept, p)
				}
			}
			if len(kept) == len(probes) {
				break
			}
			unsupported = append(unsupported, m[1])
			probes = kept
			code = probeContract(probes)
			h, err = monHost(vm, code)
		}
		if len(unsupported) > 0 {
			sum.Extra["view_builtins_not_linked_by_"+eng] = unsupported
		}
		if err != nil {
			sum.Fail("builtin-probe-contract", "the contract of view functions calling every view built-in is not accepted / set up ("+eng+"): "+errLine(err),
				map[string]any{"contract": code, "engine": eng, "error": err.Error()})
			continue
		}
		// control: what an empty transaction of a fresh / of the data account writes
		fresh := 0x100
		nextFresh := func() common.Address {
			fresh++
			return common.MustBytesToAddress([]byte{byte(fresh >> 8), byte(fresh)})
		}
		ctl := func(a common.Address, tx string) int {
			h.Writes = nil
			o := h.RunTx(tx, nil, []common.Address{a}, vm)
			if o.Err != nil {
				return -1
			}
			return len(h.Writes)
		}
		baseFresh := ctl(nextFresh(), acctProbeTx("nop"))
		baseData := ctl(addr1, acctProbeTx("nop"))
		for _, p := range probes {
			sum.Evaluations++
			sum.Count("builtin-probe-" + p.Family)
			replay := func(tx string, extra map[string]any) map[string]any {
				m := map[string]any{"builtin": p.Name, "view_function": "access(all) view fun " + p.Fn + "(...) { " + p.Body + " }",
					"contract": code, "setup_transaction": setupTx, "transaction": tx, "engine": eng}
				for k, v := range extra {
					m[k] = v
				}
				return m
			}
			if p.Family == "acct" {
				for _, sc := range []struct {
					kind string
					addr common.Address
					base int
				}{{"fresh account", nextFresh(), baseFresh}, {"account with data", addr1, baseData}} {
					tx := acctProbeTx(p.Fn)
					before := snapshotOf(h, sc.addr, vm)
					h.Writes = nil
					o := h.RunTx(tx, nil, []common.Address{sc.addr}, vm)
					writes := append([]string{}, h.Writes...)
					after := snapshotOf(h, sc.addr, vm)
					if o.Err != nil {
						sum.Count("builtin-probe-error")
						sum.Fail("builtin-probe-error:"+p.Name, fmt.Sprintf("view function calling %s fails on a %s (%s): %s", p.Name, sc.kind, eng, errLine(o.Err)),
							replay(tx, map[string]any{"account": sc.kind}))
						continue
					}
					if len(writes) != sc.base {
						sum.Fail("view-builtin-writes:"+p.Name,
							fmt.Sprintf("a transaction whose only action is a user `view fun` calling the view built-in %s on a %s wrote %d ledger registers (an empty view call writes %d) (%s)",
								p.Name, sc.kind, len(writes), sc.base, eng),
							replay(tx, map[string]any{"account": sc.kind, "ledger_writes": writes, "required_writes": sc.base}))
					}
					if before != after {
						sum.Fail("view-builtin-changes-account:"+p.Name,
							fmt.Sprintf("view built-in %s changed the account (%s): %s -> %s (%s)", p.Name, sc.kind, before, after, eng),
							replay(tx, map[string]any{"account": sc.kind, "before": before, "after": after}))
					}
					// the same call from a script
					so := h.RunScript(acctProbeScript(p.Fn), []cadence.Value{cadence.NewAddress(sc.addr)}, vm)
					if so.Err != nil {
						sum.Fail("builtin-probe-error:"+p.Name, fmt.Sprintf("script calling %s fails on a %s (%s): %s", p.Name, sc.kind, eng, errLine(so.Err)),
							replay(acctProbeScript(p.Fn), map[string]any{"account": sc.kind}))
					}
				}
				continue
			}
			tx := valProbeTx(p.Fn)
			h.Writes = nil
			o := h.RunTx(tx, nil, []common.Address{nextFresh()}, vm)
			if o.Err != nil {
				sum.Count("builtin-probe-error")
				sum.Fail("builtin-probe-error:"+p.Name, fmt.Sprintf("view function calling %s fails (%s): %s", p.Name, eng, errLine(o.Err)), replay(tx, nil))
				continue
			}
			if len(h.Writes) != baseFresh {
				sum.Fail("view-builtin-writes:"+p.Name, fmt.Sprintf("view built-in %s on a value wrote %d ledger registers (%s)", p.Name, len(h.Writes), eng),
					replay(tx, map[string]any{"ledger_writes": h.Writes}))
			}
			if len(o.Logs) == 8 {
				for i := 0; i < 4; i++ {
					if o.Logs[i] != o.Logs[i+4] {
						sum.Fail("view-builtin-mutates-receiver:"+p.Name,
							fmt.Sprintf("view built-in %s changed a pre-existing value: %s -> %s (%s)", p.Name, o.Logs[i], o.Logs[i+4], eng),
							replay(tx, map[string]any{"before": o.Logs[:4], "after": o.Logs[4:]}))
					}
				}
			}
		}
	}
}

func btoi(b bool) int {
	if b {
		return 1
	}
	return 0
}
