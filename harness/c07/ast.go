package main

import (
	"fmt"
	"strings"
)

// ---------------------------------------------------------------- types (mirror of coq/theories/C07/Syntax.v)

type Ty struct {
	K    string // Int S R Obj Arr Dict Ref Opt Any Fun Acct
	E    *Ty
	View bool // Fun
	Auth bool // Ref: auth(Mutate); not part of the Coq model (entitlements are not modelled)
}

var (
	tInt  = &Ty{K: "Int"}
	tS    = &Ty{K: "S"}
	tR    = &Ty{K: "R"}
	tObj  = &Ty{K: "Obj"}
	tDict = &Ty{K: "Dict"}
	tAny  = &Ty{K: "Any"}
	tAcct = &Ty{K: "Acct"}
)

func tArr(e *Ty) *Ty  { return &Ty{K: "Arr", E: e} }
func tRef(e *Ty) *Ty  { return &Ty{K: "Ref", E: e, Auth: e.K == "Arr" || e.K == "Dict"} }
func tRefN(e *Ty) *Ty { return &Ty{K: "Ref", E: e} }
func tOpt(e *Ty) *Ty  { return &Ty{K: "Opt", E: e} }
func tFun(v bool) *Ty { return &Ty{K: "Fun", View: v} }

func (t *Ty) Coq() string {
	switch t.K {
	case "Int", "S", "R", "Obj", "Dict", "Any", "Acct":
		return "T" + t.K
	case "Arr":
		return "(TArr " + t.E.Coq() + ")"
	case "Ref":
		return "(TRef " + t.E.Coq() + ")"
	case "Opt":
		return "(TOpt " + t.E.Coq() + ")"
	case "Fun":
		return fmt.Sprintf("(TFun %v)", t.View)
	}
	panic("ty " + t.K)
}

func (t *Ty) IsRes() bool {
	switch t.K {
	case "R", "Obj":
		return true
	case "Arr", "Opt":
		return t.E.IsRes()
	}
	return false
}

// Cadence renders the type; resource types get the @ prefix at the outermost position only.
func (t *Ty) Cadence() string {
	s := t.cdc()
	if t.IsRes() {
		return "@" + s
	}
	return s
}

func (t *Ty) cdc() string {
	switch t.K {
	case "Int":
		return "Int"
	case "S":
		return "S"
	case "R", "Obj":
		return "R"
	case "Arr":
		return "[" + t.E.cdc() + "]"
	case "Dict":
		return "{Int: Int}"
	case "Ref":
		if t.Auth {
			return "auth(Mutate) &" + t.E.cdc()
		}
		return "&" + t.E.cdc()
	case "Opt":
		if t.E.K == "Ref" || t.E.K == "Fun" {
			return "(" + t.E.cdc() + ")?"
		}
		return t.E.cdc() + "?"
	case "Any":
		return "AnyStruct"
	case "Fun":
		if t.View {
			return "view fun(): Int"
		}
		return "fun(): Int"
	case "Acct":
		return "auth(Storage) &Account"
	}
	panic("ty " + t.K)
}

func (t *Ty) Eq(u *Ty) bool {
	if t.K != u.K {
		return false
	}
	switch t.K {
	case "Arr", "Opt":
		return t.E.Eq(u.E)
	case "Ref":
		return t.E.Eq(u.E) && t.Auth == u.Auth
	case "Fun":
		return t.View == u.View
	}
	return true
}

var fieldsS = []*Ty{tInt, tArr(tInt), tArr(tS), tArr(tRefN(tS)), tDict}
var fieldsR = []*Ty{tInt, tArr(tInt), tArr(tR), tInt}
var fieldNamesS = []string{"x", "arr", "kids", "refs", "d"}
var fieldNamesR = []string{"x", "arr", "kids", "att"}

func isContainerTy(t *Ty) bool {
	switch t.K {
	case "S", "R", "Obj", "Arr", "Dict":
		return true
	}
	return false
}

// wrapref: member / element access through a reference yields an (unauthorized) reference for containers
func wrapref(t *Ty) *Ty {
	if isContainerTy(t) {
		return tRefN(t)
	}
	return t
}

func fieldTy(t *Ty, n int) *Ty {
	switch t.K {
	case "S":
		return fieldsS[n]
	case "R", "Obj":
		return fieldsR[n]
	case "Ref":
		switch t.E.K {
		case "S":
			return wrapref(fieldsS[n])
		case "R", "Obj":
			return wrapref(fieldsR[n])
		}
	}
	return nil
}

func elemTy(t *Ty) *Ty {
	switch t.K {
	case "Arr":
		return t.E
	case "Dict":
		return tOpt(tInt)
	case "Ref":
		switch t.E.K {
		case "Arr":
			return wrapref(t.E.E)
		case "Dict":
			return tOpt(tInt)
		}
	}
	return nil
}

// ---------------------------------------------------------------- syntax

type Idx struct {
	Const int
	Var   int // variable id when >= 0 ... (Var < 0: constant)
}

type Target struct {
	Kind string // Var Field Index
	X    int
	T    *Target
	N    int
	I    Idx
}

func tgVar(x int) *Target            { return &Target{Kind: "Var", X: x} }
func tgField(t *Target, n int) *Target { return &Target{Kind: "Field", T: t, N: n} }
func tgIndex(t *Target, i int) *Target { return &Target{Kind: "Index", T: t, I: Idx{Const: i, Var: -1}} }
func tgIndexV(t *Target, x int) *Target {
	return &Target{Kind: "Index", T: t, I: Idx{Var: x}}
}

func (t *Target) Root() int {
	if t.Kind == "Var" {
		return t.X
	}
	return t.T.Root()
}

func (t *Target) Coq() string {
	switch t.Kind {
	case "Var":
		return fmt.Sprintf("(TgVar %d)", t.X)
	case "Field":
		return fmt.Sprintf("(TgField %s %d)", t.T.Coq(), t.N)
	default:
		if t.I.Var >= 0 {
			return fmt.Sprintf("(TgIndex %s (IVar %d))", t.T.Coq(), t.I.Var)
		}
		return fmt.Sprintf("(TgIndex %s (IConst %d))", t.T.Coq(), t.I.Const)
	}
}

type Exp struct {
	Kind   string // Int Read Add New Arr Dict Ref Deref CallG CallM CallB CallV Fun Force Cast Attach Destroy
	Z      int64
	T      *Target
	A, B   *Exp
	CK     string // KS KR
	Args   []*Exp
	F      int    // function / method id, variable id for CallV
	Opt    bool
	Bi     string // builtin constructor name
	View   bool
	Body   []*Stmt
	Ty     *Ty   // Cast: target type; Ref: the reference type; Arr: static array type (for printing)
	KVs    [][2]int64
	SlotTy *Ty // storage built-ins: the stored type
}

type Stmt struct {
	Kind   string // Let Assign Swap Exp If Return Emit Let2 Remove
	Ln     int
	X      int
	Ty     *Ty
	E      *Exp
	T, T2  *Target
	Th, El []*Stmt
}

type Cond struct {
	Emit bool
	Ln   int
	E    *Exp
}

type Param struct {
	X  int
	Ty *Ty
}

type Fun struct {
	ID     int
	Host   string // "" S R
	Init   bool
	View   bool
	Params []Param
	Pre    []Cond
	Post   []Cond
	Body   []*Stmt
	RetRes bool // Cadence return type is @R (method of R that returns its resource parameter)
}

type Prog struct {
	Funs []*Fun
}

func coqList(xs []string) string { return "[" + strings.Join(xs, "; ") + "]" }

func (e *Exp) Coq() string {
	args := func() string { return coqExps(e.Args) }
	switch e.Kind {
	case "Int":
		return "(EInt " + zlit(e.Z) + ")"
	case "Read":
		return "(ERead " + e.T.Coq() + ")"
	case "Add":
		return "(EAdd " + e.A.Coq() + " " + e.B.Coq() + ")"
	case "New":
		return "(ENew " + e.CK + " " + args() + ")"
	case "Arr":
		return "(EArr " + args() + ")"
	case "Dict":
		var kv []string
		for _, p := range e.KVs {
			kv = append(kv, "("+zlit(p[0])+", "+zlit(p[1])+")")
		}
		return "(EDict " + coqList(kv) + ")"
	case "Ref":
		return "(ERef " + e.T.Coq() + ")"
	case "Deref":
		return "(EDeref " + e.A.Coq() + ")"
	case "CallG":
		return fmt.Sprintf("(ECallG %d %s)", e.F, args())
	case "CallM":
		return fmt.Sprintf("(ECallM %s %v %d %s)", e.T.Coq(), e.Opt, e.F, args())
	case "CallB":
		return fmt.Sprintf("(ECallB %s %v %s %s)", e.T.Coq(), e.Opt, e.Bi, args())
	case "CallV":
		return fmt.Sprintf("(ECallV %d %s)", e.F, args())
	case "Fun":
		return fmt.Sprintf("(EFun %v [] %s)", e.View, coqStmts(e.Body))
	case "Force":
		return "(EForce " + e.A.Coq() + ")"
	case "Cast":
		return "(ECast " + e.A.Coq() + " " + e.Ty.Coq() + ")"
	case "Attach":
		return "(EAttach " + e.A.Coq() + ")"
	case "Destroy":
		return "(EDestroy " + e.A.Coq() + ")"
	case "Nil":
		return "ENilV"
	}
	panic("exp " + e.Kind)
}

func zlit(z int64) string {
	if z < 0 {
		return fmt.Sprintf("(%d)", z)
	}
	return fmt.Sprint(z)
}

func coqExps(es []*Exp) string {
	s := "ENil"
	for i := len(es) - 1; i >= 0; i-- {
		s = "(ECons " + es[i].Coq() + " " + s + ")"
	}
	return s
}

func coqStmts(ss []*Stmt) string {
	s := "SNil"
	for i := len(ss) - 1; i >= 0; i-- {
		s = "(SCons " + ss[i].Coq() + " " + s + ")"
	}
	return s
}

func (s *Stmt) Coq() string {
	switch s.Kind {
	case "Let":
		return fmt.Sprintf("(SLet %d %d %s %s)", s.Ln, s.X, s.Ty.Coq(), s.E.Coq())
	case "Assign":
		return fmt.Sprintf("(SAssign %d %s %s)", s.Ln, s.T.Coq(), s.E.Coq())
	case "Swap":
		return fmt.Sprintf("(SSwap %d %s %s)", s.Ln, s.T.Coq(), s.T2.Coq())
	case "Exp":
		return fmt.Sprintf("(SExp %d %s)", s.Ln, s.E.Coq())
	case "If":
		return fmt.Sprintf("(SIf %d %s %s %s)", s.Ln, s.E.Coq(), coqStmts(s.Th), coqStmts(s.El))
	case "Return":
		return fmt.Sprintf("(SReturn %d %s)", s.Ln, s.E.Coq())
	case "Emit":
		return fmt.Sprintf("(SEmit %d %s)", s.Ln, s.E.Coq())
	case "Let2":
		return fmt.Sprintf("(SLet2 %d %d %s %s %s)", s.Ln, s.X, s.Ty.Coq(), s.T.Coq(), s.E.Coq())
	case "Remove":
		return fmt.Sprintf("(SRemove %d %s)", s.Ln, s.T.Coq())
	}
	panic("stmt " + s.Kind)
}

func coqConds(cs []Cond) string {
	var xs []string
	for _, c := range cs {
		k := "CTest"
		if c.Emit {
			k = "CEmit"
		}
		xs = append(xs, fmt.Sprintf("%s %d %s", k, c.Ln, c.E.Coq()))
	}
	return coqList(xs)
}

func (f *Fun) Coq() string {
	host := "None"
	if f.Host != "" {
		host = "(Some K" + f.Host + ")"
	}
	var ps []string
	for _, p := range f.Params {
		ps = append(ps, fmt.Sprintf("(%d%%nat, %s)", p.X, p.Ty.Coq()))
	}
	return fmt.Sprintf("(mkFun %d %s %v %v %s %s %s %s)", f.ID, host, f.Init, f.View, coqList(ps),
		coqConds(f.Pre), coqConds(f.Post), coqStmts(f.Body))
}

func (p *Prog) Coq() string {
	var xs []string
	for _, f := range p.Funs {
		xs = append(xs, f.Coq())
	}
	return "[" + strings.Join(xs, ";\n   ") + "]"
}

// ---------------------------------------------------------------- Cadence printer

// scope: static types of the variables in scope, used for printing moves, references and field names
type scope struct {
	vars map[int]*Ty
	host string
}

func (sc *scope) clone() *scope {
	m := map[int]*Ty{}
	for k, v := range sc.vars {
		m[k] = v
	}
	return &scope{vars: m, host: sc.host}
}

func varName(x int) string {
	switch x {
	case 0:
		return "self"
	case 1:
		return "C.g"
	case 2:
		return "C.gd"
	case 3:
		return "C.garr"
	}
	return fmt.Sprintf("v%d", x)
}

func (sc *scope) tyOf(t *Target) *Ty {
	switch t.Kind {
	case "Var":
		return sc.vars[t.X]
	case "Field":
		b := sc.tyOf(t.T)
		if b == nil {
			return nil
		}
		return fieldTy(b, t.N)
	default:
		b := sc.tyOf(t.T)
		if b == nil {
			return nil
		}
		return elemTy(b)
	}
}

func (sc *scope) target(t *Target) string {
	switch t.Kind {
	case "Var":
		return varName(t.X)
	case "Field":
		b := sc.tyOf(t.T)
		names := fieldNamesS
		if b != nil && (b.K == "R" || b.K == "Obj" || (b.K == "Ref" && (b.E.K == "R" || b.E.K == "Obj"))) {
			names = fieldNamesR
		}
		return sc.target(t.T) + "." + names[t.N]
	default:
		if t.I.Var >= 0 {
			return sc.target(t.T) + "[" + varName(t.I.Var) + "]"
		}
		return fmt.Sprintf("%s[%d]", sc.target(t.T), t.I.Const)
	}
}

var slotPath = map[int64]string{0: "/storage/s0", 1: "/storage/a0", 2: "/storage/e0"}

var builtinName = map[string]string{
	"BAppend": "append", "BRemoveFirst": "removeFirst", "BInsert": "insert", "BContains": "contains", "BConcat": "concat",
	"BDInsert": "insert", "BDRemove": "remove", "BDContainsKey": "containsKey",
	"BSave": "save", "BLoad": "load", "BCopy": "copy", "BBorrow": "borrow", "BCheck": "check",
}

// exp prints e; move = the expression is in a position where a resource is moved
func (sc *scope) exp(e *Exp) string {
	switch e.Kind {
	case "Int":
		if e.Z < 0 {
			return fmt.Sprintf("(%d)", e.Z)
		}
		return fmt.Sprint(e.Z)
	case "Read":
		return sc.target(e.T)
	case "Add":
		return "(" + sc.exp(e.A) + " + " + sc.exp(e.B) + ")"
	case "New":
		if e.CK == "KS" {
			l := []string{"x", "arr", "kids", "refs", "d", "t"}
			var as []string
			for i, a := range e.Args {
				as = append(as, l[i]+": "+sc.exp(a))
			}
			return "S(" + strings.Join(as, ", ") + ")"
		}
		l := []string{"x", "arr", "kids", "t"}
		var as []string
		for i, a := range e.Args {
			as = append(as, l[i]+": "+sc.mv(a))
		}
		return "create R(" + strings.Join(as, ", ") + ")"
	case "Arr":
		var as []string
		for _, a := range e.Args {
			as = append(as, sc.mv(a))
		}
		if e.Ty != nil && e.Ty.E.K == "Ref" {
			// no type is inferred for values of reference-containing target types: annotate
			return "([" + strings.Join(as, ", ") + "] as " + e.Ty.cdc() + ")"
		}
		return "[" + strings.Join(as, ", ") + "]"
	case "Dict":
		var as []string
		for _, kv := range e.KVs {
			as = append(as, fmt.Sprintf("%d: %d", kv[0], kv[1]))
		}
		return "{" + strings.Join(as, ", ") + "}"
	case "Ref":
		return "(&" + sc.target(e.T) + " as " + e.Ty.cdc() + ")"
	case "Deref":
		return "(*" + sc.exp(e.A) + ")"
	case "CallG":
		return fmt.Sprintf("C.gf%d(%s)", e.F, sc.args(e.Args))
	case "CallM":
		q := "."
		if e.Opt {
			q = "?."
		}
		return fmt.Sprintf("%s%sm%d(%s)", sc.target(e.T), q, e.F, sc.args(e.Args))
	case "CallB":
		q := "."
		if e.Opt {
			q = "?."
		}
		recv := sc.target(e.T)
		switch e.Bi {
		case "BContains", "BDContainsKey":
			return fmt.Sprintf("(%s%s%s(%s) ? 1 : 0)", recv, q, builtinName[e.Bi], sc.args(e.Args))
		case "BInsert":
			return fmt.Sprintf("%s%sinsert(at: %s, %s)", recv, q, sc.exp(e.Args[0]), sc.exp(e.Args[1]))
		case "BDInsert":
			return fmt.Sprintf("%s%sinsert(key: %s, %s)", recv, q, sc.exp(e.Args[0]), sc.exp(e.Args[1]))
		case "BDRemove":
			return fmt.Sprintf("%s%sremove(key: %s)", recv, q, sc.exp(e.Args[0]))
		case "BSave":
			return fmt.Sprintf("%s.storage.save(%s, to: %s)", recv, sc.exp(e.Args[0]), slotPath[e.Args[1].Z])
		case "BLoad", "BCopy":
			return fmt.Sprintf("%s.storage.%s<%s>(from: %s)", recv, builtinName[e.Bi], e.SlotTy.Cadence(), slotPath[e.Args[0].Z])
		case "BBorrow":
			return fmt.Sprintf("%s.storage.borrow<%s>(from: %s)", recv, tRef(e.SlotTy).cdc(), slotPath[e.Args[0].Z])
		case "BCheck":
			return fmt.Sprintf("(%s.storage.check<%s>(from: %s) ? 1 : 0)", recv, e.SlotTy.Cadence(), slotPath[e.Args[0].Z])
		}
		return fmt.Sprintf("%s%s%s(%s)", recv, q, builtinName[e.Bi], sc.args(e.Args))
	case "CallV":
		return fmt.Sprintf("%s(%s)", varName(e.F), sc.args(e.Args))
	case "Fun":
		inner := sc.clone()
		v := ""
		if e.View {
			v = "view "
		}
		return v + "fun(): Int {\n" + inner.stmts(e.Body, "            ") + "        }"
	case "Force":
		return "(" + sc.exp(e.A) + ")!"
	case "Cast":
		return "(" + sc.exp(e.A) + " as! " + e.Ty.Cadence() + ")"
	case "Attach":
		return "attach A() to " + sc.mv(e.A)
	case "Destroy":
		return "destroy " + sc.exp(e.A)
	case "Nil":
		return "nil"
	}
	panic("exp " + e.Kind)
}

// static "is this expression resource-typed": only the forms the generator produces
func (sc *scope) isResExp(e *Exp) bool {
	switch e.Kind {
	case "Read":
		t := sc.tyOf(e.T)
		return t != nil && t.IsRes()
	case "New":
		return e.CK == "KR"
	case "Attach":
		return true
	case "Arr":
		return e.Ty != nil && e.Ty.IsRes()
	}
	return false
}

func (sc *scope) mv(e *Exp) string {
	if sc.isResExp(e) {
		return "<-" + sc.exp(e)
	}
	return sc.exp(e)
}

func (sc *scope) args(es []*Exp) string {
	var as []string
	for _, a := range es {
		as = append(as, sc.mv(a))
	}
	return strings.Join(as, ", ")
}

// stmts prints one statement per line; the line number of every statement is recorded in s.Ln by layout().
func (sc *scope) stmts(ss []*Stmt, ind string) string {
	var sb strings.Builder
	for _, s := range ss {
		sb.WriteString(sc.stmt(s, ind))
	}
	return sb.String()
}

func (sc *scope) stmt(s *Stmt, ind string) string {
	tag := fmt.Sprintf(" // #%d\n", s.Ln)
	// a statement whose expression is a function literal spans several lines: the tag goes on the first line
	put := func(line string) string {
		if i := strings.Index(line, "\n"); i >= 0 {
			return line[:i] + tag + line[i+1:] + "\n"
		}
		return line + tag
	}
	switch s.Kind {
	case "Let":
		op := "="
		if s.Ty.IsRes() {
			op = "<-"
		}
		line := fmt.Sprintf("%svar %s: %s %s %s", ind, varName(s.X), s.Ty.Cadence(), op, sc.exp(s.E))
		sc.vars[s.X] = s.Ty
		return put(line)
	case "Assign":
		op := "="
		if t := sc.tyOf(s.T); t != nil && t.IsRes() {
			op = "<-"
			if t.K == "Opt" {
				// force-assignment into an optional resource slot (must be nil)
				op = "<-!"
			}
		}
		return put(fmt.Sprintf("%s%s %s %s", ind, sc.target(s.T), op, sc.exp(s.E)))
	case "Let2":
		line := fmt.Sprintf("%svar %s: %s <- %s <- %s", ind, varName(s.X), s.Ty.Cadence(), sc.target(s.T), sc.exp(s.E))
		sc.vars[s.X] = s.Ty
		return put(line)
	case "Remove":
		return put(fmt.Sprintf("%sremove A from %s", ind, sc.target(s.T)))
	case "Swap":
		return put(fmt.Sprintf("%s%s <-> %s", ind, sc.target(s.T), sc.target(s.T2)))
	case "Exp":
		return put(fmt.Sprintf("%s%s", ind, sc.exp(s.E)))
	case "If":
		th := sc.clone().stmts(s.Th, ind+"    ")
		el := sc.clone().stmts(s.El, ind+"    ")
		return fmt.Sprintf("%sif %s != 0 {%s%s%s} else {\n%s%s}\n", ind, sc.exp(s.E), tag, th, ind, el, ind)
	case "Return":
		return put(fmt.Sprintf("%sreturn %s", ind, sc.mv(s.E)))
	case "Emit":
		return put(fmt.Sprintf("%semit Ev(x: %s)", ind, sc.exp(s.E)))
	}
	panic("stmt " + s.Kind)
}

