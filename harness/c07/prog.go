package main

import (
	"fmt"
	"regexp"
	"strconv"
	"strings"
)

// ---------------------------------------------------------------- fixed parts of every program

func eInt(z int64) *Exp        { return &Exp{Kind: "Int", Z: z} }
func eRead(t *Target) *Exp     { return &Exp{Kind: "Read", T: t} }
func eVar(x int) *Exp          { return eRead(tgVar(x)) }
func eAdd(a, b *Exp) *Exp      { return &Exp{Kind: "Add", A: a, B: b} }
func eCallG(f int, a ...*Exp) *Exp { return &Exp{Kind: "CallG", F: f, Args: a} }

const (
	idSelf = 0
	idG    = 1
	idGD   = 2
	idGArr = 3
	// common parameters of the function under test
	idPS   = 10
	idPA   = 11
	idPKS  = 12
	idPRS  = 13
	idPRA  = 14
	idPRO  = 15
	idPAny = 16
	idPD   = 17
	idPRD  = 18
	idPF   = 19
	idPVF  = 20
	idAcct = 21
	idPRR  = 22
	idPR   = 23 // @R, methods of R only
	// initializer parameters
	idIX, idIArr, idIKids, idIRefs, idID, idIT = 30, 31, 32, 33, 34, 35
	// helper parameters
	idHS, idHRA, idHX = 40, 41, 42
	fnGV, fnGI, fnHelper, fnTest = 1, 2, 5, 9
	mGetXS, mSetXS, mGetXR, mSetXR = 1, 2, 3, 4
)

func testParams(withPR bool) []Param {
	ps := []Param{
		{idPS, tS}, {idPA, tArr(tInt)}, {idPKS, tArr(tS)}, {idPRS, tRefN(tS)}, {idPRA, tRef(tArr(tInt))},
		{idPRO, tOpt(tRef(tArr(tInt)))}, {idPAny, tAny}, {idPD, tDict}, {idPRD, tRef(tDict)},
		{idPF, tFun(false)}, {idPVF, tFun(true)}, {idAcct, tAcct}, {idPRR, tRefN(tR)},
	}
	if withPR {
		ps = append(ps, Param{idPR, tR})
	}
	return ps
}

func ret(ln int, e *Exp) *Stmt { return &Stmt{Kind: "Return", Ln: ln, E: e} }
func assign(ln int, t *Target, e *Exp) *Stmt {
	return &Stmt{Kind: "Assign", Ln: ln, T: t, E: e}
}

// fixedFuns: helper functions present in every program (line tags 900..)
func fixedFuns(sInitView, rInitView bool, sExtra, rExtra []*Stmt) []*Fun {
	self := tgVar(idSelf)
	sInit := &Fun{ID: 0, Host: "S", Init: true, View: sInitView,
		Params: []Param{{idIX, tInt}, {idIArr, tArr(tInt)}, {idIKids, tArr(tS)}, {idIRefs, tArr(tRefN(tS))}, {idID, tDict}, {idIT, tInt}},
		Body: []*Stmt{
			assign(900, tgField(self, 0), eVar(idIX)), assign(901, tgField(self, 1), eVar(idIArr)),
			assign(902, tgField(self, 2), eVar(idIKids)), assign(903, tgField(self, 3), eVar(idIRefs)),
			assign(904, tgField(self, 4), eVar(idID)),
		}}
	if len(sExtra) > 0 {
		sInit.Body = append(sInit.Body, &Stmt{Kind: "If", Ln: 905, E: eVar(idIT), Th: sExtra})
	}
	rInit := &Fun{ID: 0, Host: "R", Init: true, View: rInitView,
		Params: []Param{{idIX, tInt}, {idIArr, tArr(tInt)}, {idIKids, tArr(tR)}, {idIT, tInt}},
		Body: []*Stmt{
			assign(910, tgField(self, 0), eVar(idIX)), assign(911, tgField(self, 1), eVar(idIArr)),
			assign(912, tgField(self, 2), eVar(idIKids)),
		}}
	if len(rExtra) > 0 {
		rInit.Body = append(rInit.Body, &Stmt{Kind: "If", Ln: 915, E: eVar(idIT), Th: rExtra})
	}
	return []*Fun{
		sInit, rInit,
		{ID: fnGV, View: true, Params: []Param{{50, tInt}}, Body: []*Stmt{ret(920, eAdd(eVar(50), eInt(1)))}},
		{ID: fnGI, Params: []Param{{50, tInt}}, Body: []*Stmt{
			assign(921, tgVar(idG), eAdd(eVar(idG), eVar(50))), ret(922, eVar(idG))}},
		{ID: mGetXS, Host: "S", View: true, Body: []*Stmt{ret(923, eRead(tgField(self, 0)))}},
		{ID: mSetXS, Host: "S", Params: []Param{{51, tInt}}, Body: []*Stmt{
			assign(924, tgField(self, 0), eVar(51)), ret(925, eRead(tgField(self, 0)))}},
		{ID: mGetXR, Host: "R", View: true, Body: []*Stmt{ret(926, eRead(tgField(self, 0)))}},
		{ID: mSetXR, Host: "R", Params: []Param{{51, tInt}}, Body: []*Stmt{
			assign(927, tgField(self, 0), eVar(51)), ret(928, eRead(tgField(self, 0)))}},
	}
}

// ---------------------------------------------------------------- Cadence rendering of a program

func (f *Fun) cadence() string {
	sc := &scope{vars: map[int]*Ty{idG: tInt, idGD: tDict, idGArr: tArr(tInt)}, host: f.Host}
	switch f.Host {
	case "S":
		sc.vars[idSelf] = tS
	case "R":
		sc.vars[idSelf] = tObj
	}
	var ps []string
	for _, p := range f.Params {
		sc.vars[p.X] = p.Ty
		if f.Init {
			names := map[int]string{idIX: "x", idIArr: "arr", idIKids: "kids", idIRefs: "refs", idID: "d", idIT: "t"}
			ps = append(ps, fmt.Sprintf("%s %s: %s", names[p.X], varName(p.X), p.Ty.Cadence()))
		} else {
			ps = append(ps, fmt.Sprintf("_ %s: %s", varName(p.X), p.Ty.Cadence()))
		}
	}
	view := ""
	if f.View {
		view = "view "
	}
	var sb strings.Builder
	ind := "        "
	if f.Host == "" {
		ind = "    "
	}
	switch {
	case f.Init:
		fmt.Fprintf(&sb, "%s%sinit(%s) {\n", ind, view, strings.Join(ps, ", "))
	case f.Host == "":
		fmt.Fprintf(&sb, "%saccess(all) %sfun gf%d(%s): Int {\n", ind, view, f.ID, strings.Join(ps, ", "))
	default:
		rt := "Int"
		if f.RetRes {
			rt = "@R"
		}
		fmt.Fprintf(&sb, "%saccess(all) %sfun m%d(%s): %s {\n", ind, view, f.ID, strings.Join(ps, ", "), rt)
	}
	conds := func(kw string, cs []Cond) {
		if len(cs) == 0 {
			return
		}
		fmt.Fprintf(&sb, "%s    %s {\n", ind, kw)
		for _, c := range cs {
			if c.Emit {
				fmt.Fprintf(&sb, "%s        emit Ev(x: %s) // #%d\n", ind, sc.exp(c.E), c.Ln)
			} else {
				fmt.Fprintf(&sb, "%s        %s != 0: \"c\" // #%d\n", ind, sc.exp(c.E), c.Ln)
			}
		}
		fmt.Fprintf(&sb, "%s    }\n", ind)
	}
	conds("pre", f.Pre)
	conds("post", f.Post)
	sb.WriteString(sc.stmts(f.Body, ind+"    "))
	fmt.Fprintf(&sb, "%s}\n", ind)
	return sb.String()
}

const contractHead = `access(all) contract C {
    access(all) event Ev(x: Int)
    access(all) var g: Int
    access(all) var gd: {Int: Int}
    access(all) var garr: [Int]
    access(all) attachment A for R {}
`

const contractTail = `
    access(all) fun mkR(_ x: Int, _ arr: [Int], _ kids: @[R], _ t: Int): @R {
        return <- create R(x: x, arr: arr, kids: <-kids, t: t)
    }
    access(all) fun first(_ a: &[Int]): Int {
        return a.length > 0 ? a[0] : -1
    }
    access(all) fun snap(_ s1: &S, _ s2: &S, _ a1: &[Int], _ d1: &{Int: Int}, _ r1: &R, _ r2: &R, _ r3: &R, _ acct: auth(Storage) &Account): [Int] {
        let o: [Int] = [C.g, C.gd[1] ?? -1, C.gd.length, C.garr.length, C.first(&C.garr as &[Int])]
        if let t0 = acct.storage.borrow<&{Int: Int}>(from: /storage/s0) {
            o.appendAll([t0[1] ?? -1, t0[5] ?? -1, t0.length])
        } else {
            o.appendAll([-1, -1, -1])
        }
        if let t1 = acct.storage.borrow<&[Int]>(from: /storage/a0) {
            o.appendAll([t1.length, C.first(t1)])
        } else {
            o.appendAll([-1, -1])
        }
        o.append(acct.storage.type(at: /storage/e0) != nil ? 1 : 0)
        o.appendAll([s2.x, s2.arr.length])
        o.appendAll([s1.x, s1.arr.length, C.first(s1.arr), s1.kids.length, s1.kids.length > 0 ? s1.kids[0].x : -1, s1.refs.length, s1.d[1] ?? -1, s1.d.length])
        o.appendAll([a1.length, C.first(a1), d1[1] ?? -1, d1.length])
        o.appendAll([r1.x, r1.arr.length, r1[A] != nil ? 1 : 0])
        o.appendAll([r2.x, r2.arr.length, r2.kids.length, r2.kids.length > 0 ? r2.kids[0].x : -1, r2[A] != nil ? 1 : 0])
        o.append(r3.x)
        return o
    }
    init() {
        self.g = 7
        self.gd = {1: 11, 2: 12}
        self.garr = [5, 6, 7]
        self.account.storage.save({1: 100, 5: 6} as {Int: Int}, to: /storage/s0)
        self.account.storage.save([8, 9], to: /storage/a0)
    }
}
`

func (p *Prog) cadence() string {
	var sb strings.Builder
	sb.WriteString(contractHead)
	sb.WriteString("    access(all) struct S {\n        access(all) var x: Int\n        access(all) var arr: [Int]\n        access(all) var kids: [S]\n        access(all) var refs: [&S]\n        access(all) var d: {Int: Int}\n")
	for _, f := range p.Funs {
		if f.Host == "S" {
			sb.WriteString(f.cadence())
		}
	}
	sb.WriteString("    }\n    access(all) resource R {\n        access(all) var x: Int\n        access(all) var arr: [Int]\n        access(all) var kids: @[R]\n")
	for _, f := range p.Funs {
		if f.Host == "R" {
			sb.WriteString(f.cadence())
		}
	}
	sb.WriteString("    }\n")
	for _, f := range p.Funs {
		if f.Host == "" {
			sb.WriteString(f.cadence())
		}
	}
	sb.WriteString(contractTail)
	return sb.String()
}

var tagRe = regexp.MustCompile(`// #(\d+)\s*$`)

// lineTags maps 1-based source lines to statement tags.
func lineTags(src string) map[int]int {
	m := map[int]int{}
	for i, l := range strings.Split(src, "\n") {
		if g := tagRe.FindStringSubmatch(l); g != nil {
			n, _ := strconv.Atoi(g[1])
			m[i+1] = n
		}
	}
	return m
}

// ---------------------------------------------------------------- driver transaction

// kinds of functions under test
const (
	KMethodS = 1 // view method of S:            s1.m9(args): Int
	KMethodR = 2 // view method of R:            r2.m9(args, <-r1): @R
	KGlobal  = 3 // global function:             C.gf9(args): Int
	KInitS   = 4 // initializer of S:            C.S(x: 81, arr: [1, 2], kids: [s2], refs: [&s2], d: {3: 4}, t: 1)
	KInitR   = 5 // initializer of R:            C.mkR(91, [6, 7], <-[<-r1], 1)
)

func driverTx(kind int) string {
	args := "s1, a1, [s1, s2], &s1 as &C.S, &a1 as auth(Mutate) &[Int], &a1 as auth(Mutate) &[Int], &s1 as &C.S, d1, &d1 as auth(Mutate) &{Int: Int}, pf, pvf, acct, &r3 as &C.R"
	var call, after, cleanup string
	snap := func(r1 string) string {
		return fmt.Sprintf("C.snap(&s1 as &C.S, &s2 as &C.S, &a1 as &[Int], &d1 as &{Int: Int}, %s, &r2 as &C.R, &r3 as &C.R, acct)", r1)
	}
	switch kind {
	case KMethodS:
		call = "let res = s1.m9(" + args + ")"
		after, cleanup = snap("&r1 as &C.R"), "destroy r1"
	case KMethodR:
		call = "let rr <- r2.m9(" + args + ", <-r1)\n        let res = 0"
		after, cleanup = snap("&rr as &C.R"), "destroy rr"
	case KGlobal:
		call = "let res = C.gf9(" + args + ")"
		after, cleanup = snap("&r1 as &C.R"), "destroy r1"
	case KInitS:
		call = "let sn = C.S(x: 81, arr: [1, 2], kids: [s2], refs: [&s2 as &C.S], d: {3: 4}, t: 1)\n        let res = sn.x"
		after, cleanup = snap("&r1 as &C.R"), "destroy r1"
	case KInitR:
		call = "let rn <- C.mkR(91, [6, 7], <-[<-r1], 1)\n        let res = rn.x"
		after, cleanup = snap("&rn.kids[0] as &C.R"), "destroy rn"
	}
	return fmt.Sprintf(`import C from 0x0000000000000001
transaction {
    prepare(acct: auth(Storage) &Account) {
        var s2 = C.S(x: 31, arr: [4, 5], kids: [], refs: [] as [&C.S], d: {}, t: 0)
        var s1 = C.S(x: 41, arr: [1, 2, 3], kids: [C.S(x: 42, arr: [7], kids: [], refs: [] as [&C.S], d: {}, t: 0)], refs: [&s2 as &C.S], d: {1: 10, 2: 20}, t: 0)
        var a1: [Int] = [10, 20, 30]
        var d1: {Int: Int} = {1: 5, 2: 6}
        var r1 <- C.mkR(51, [1], <-[], 0)
        var r2 <- C.mkR(61, [2, 3], <-[<-C.mkR(62, [], <-[], 0)], 0)
        var r3 <- C.mkR(71, [], <-[], 0)
        let pf = fun(): Int { return C.gf2(1) }
        let pvf = view fun(): Int { return 3 }
        log(%s)
        %s
        log(res)
        log(%s)
        %s
        destroy r2
        destroy r3
    }
}
`, snap("&r1 as &C.R"), call, after, cleanup)
}
