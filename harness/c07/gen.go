package main

import (
	"cvh/lib"
)

// ---------------------------------------------------------------- typed generator of function bodies

type gvar struct {
	ID    int
	Ty    *Ty
	Local bool // declared with `var` in the body (assignable as a whole)
}

type genCtx struct {
	rng    *lib.Rng
	vars   []gvar
	host   string // "" S R
	nextID *int
	nextLn *int
	impure int  // per-mille probability of choosing a form that is likely impure
	depth  int  // nesting of blocks / closures
	helper bool // helper function gf5 exists and may be called
	inHelp bool
	inInit bool // generating the extra statements of an initializer
	hasRefs *bool // a local reference (or AnyStruct possibly holding one) has been declared
}

func (g *genCtx) ln() int  { *g.nextLn++; return *g.nextLn }
func (g *genCtx) id() int  { *g.nextID++; return *g.nextID }
func (g *genCtx) child() *genCtx {
	c := *g
	c.vars = append([]gvar{}, g.vars...)
	c.depth++
	return &c
}

// acc is an access chain with its static type
type acc struct {
	T      *Target
	Ty     *Ty
	Via    bool // goes through a reference
	RootLo bool // root is an assignable local
	Depth  int
}

func baseOf(t *Ty) *Ty {
	if t.K == "Ref" {
		return t.E
	}
	return t
}

func (g *genCtx) chains() []acc {
	var out []acc
	var intLocals []int
	for _, v := range g.vars {
		if v.Ty.K == "Int" && v.Local {
			intLocals = append(intLocals, v.ID)
		}
	}
	var expand func(a acc)
	expand = func(a acc) {
		out = append(out, a)
		if a.Depth >= 3 {
			return
		}
		b := baseOf(a.Ty)
		via := a.Via || a.Ty.K == "Ref"
		switch b.K {
		case "S":
			for n := range fieldsS {
				expand(acc{tgField(a.T, n), fieldTy(a.Ty, n), via, a.RootLo, a.Depth + 1})
			}
		case "R", "Obj":
			for n := 0; n < 3; n++ {
				expand(acc{tgField(a.T, n), fieldTy(a.Ty, n), via, a.RootLo, a.Depth + 1})
			}
		case "Arr":
			expand(acc{tgIndex(a.T, 0), elemTy(a.Ty), via, a.RootLo, a.Depth + 1})
			if b.E.K == "Int" {
				expand(acc{tgIndex(a.T, 1), elemTy(a.Ty), via, a.RootLo, a.Depth + 1})
				if len(intLocals) > 0 && g.rng.Chance(1, 3) {
					expand(acc{tgIndexV(a.T, intLocals[g.rng.Intn(len(intLocals))]), elemTy(a.Ty), via, a.RootLo, a.Depth + 1})
				}
			}
		case "Dict":
			expand(acc{tgIndex(a.T, 1), elemTy(a.Ty), via, a.RootLo, a.Depth + 1})
			expand(acc{tgIndex(a.T, 3), elemTy(a.Ty), via, a.RootLo, a.Depth + 1})
		}
	}
	for _, v := range g.vars {
		if v.Ty.K == "Acct" || v.Ty.K == "Fun" || v.Ty.K == "Any" {
			out = append(out, acc{tgVar(v.ID), v.Ty, false, v.Local, 0})
			continue
		}
		expand(acc{tgVar(v.ID), v.Ty, false, v.Local, 0})
	}
	return out
}

func (g *genCtx) pick(pred func(acc) bool) *acc {
	var c []acc
	for _, a := range g.chains() {
		if pred(a) {
			c = append(c, a)
		}
	}
	if len(c) == 0 {
		return nil
	}
	a := c[g.rng.Intn(len(c))]
	return &a
}

// parent type of a chain's last step
func (g *genCtx) tyOf(t *Target) *Ty {
	sc := &scope{vars: map[int]*Ty{}}
	for _, v := range g.vars {
		sc.vars[v.ID] = v.Ty
	}
	return sc.tyOf(t)
}

// assignable: may the real checker accept `a = ...` apart from purity?
func (g *genCtx) assignable(a acc) bool {
	if a.Ty.IsRes() || a.Ty.K == "Acct" || a.Ty.K == "Fun" || a.Ty.K == "Any" {
		return false
	}
	if a.Via && a.Ty.K == "Ref" {
		// a container-typed member reached through a reference: its read type is a reference, its slot type is not
		return false
	}
	switch a.T.Kind {
	case "Var":
		return a.RootLo || a.T.X == idG || a.T.X == idGArr
	case "Field":
		pt := baseOf(g.tyOf(a.T.T))
		if pt.K == "S" {
			return g.host == "S"
		}
		return g.host == "R"
	default:
		pt := g.tyOf(a.T.T)
		return pt.K != "Ref" || pt.Auth
	}
}

// mutable receiver for mutating built-ins: container by value, or authorized reference
func mutRecv(a acc, k string) bool {
	if a.Ty.K == k && !a.Ty.IsRes() {
		return true
	}
	return a.Ty.K == "Ref" && a.Ty.Auth && a.Ty.E.K == k
}

func (g *genCtx) genInt(d int) *Exp {
	r := g.rng
	if d > 2 {
		return eInt(int64(r.Intn(5)))
	}
	for try := 0; try < 6; try++ {
		switch r.Intn(16) {
		case 0, 1:
			return eInt(int64(r.Intn(7)) - 1)
		case 2, 3, 4:
			if a := g.pick(func(a acc) bool { return a.Ty.K == "Int" }); a != nil {
				return eRead(a.T)
			}
		case 5:
			return eAdd(g.genInt(d+1), g.genInt(d+1))
		case 6:
			if a := g.pick(func(a acc) bool { return a.Ty.K == "Opt" && a.Ty.E.K == "Int" && a.T.Kind == "Index" && a.T.I.Const == 1 }); a != nil {
				return &Exp{Kind: "Force", A: eRead(a.T)}
			}
		case 7:
			return eCallG(fnGV, g.genInt(d+1))
		case 8:
			if r.Intn(1000) < g.impure {
				return eCallG(fnGI, g.genInt(d+1))
			}
		case 9:
			if g.helper && !g.inHelp {
				s, ra := g.genTy(tS, d+1), g.genTy(tRef(tArr(tInt)), d+1)
				if s != nil && ra != nil {
					return eCallG(fnHelper, s, ra, g.genInt(d+1))
				}
			}
		case 10:
			// user methods
			a := g.pick(func(a acc) bool { b := baseOf(a.Ty); return (b.K == "S" || b.K == "R" || b.K == "Obj") && a.Ty.K != "Opt" })
			if a != nil {
				isS := baseOf(a.Ty).K == "S"
				if r.Intn(1000) < g.impure {
					m := mSetXR
					if isS {
						m = mSetXS
					}
					return &Exp{Kind: "CallM", T: a.T, F: m, Args: []*Exp{g.genInt(d + 1)}}
				}
				m := mGetXR
				if isS {
					m = mGetXS
				}
				return &Exp{Kind: "CallM", T: a.T, F: m}
			}
		case 11:
			if a := g.pick(func(a acc) bool { return a.Ty.K == "Fun" && (a.Ty.View || r.Intn(1000) < g.impure) }); a != nil {
				return &Exp{Kind: "CallV", F: a.T.X}
			}
		case 12:
			if a := g.pick(func(a acc) bool { return baseOf(a.Ty).K == "Arr" && baseOf(a.Ty).E.K == "Int" }); a != nil {
				return &Exp{Kind: "CallB", T: a.T, Bi: "BContains", Args: []*Exp{g.genInt(d + 1)}}
			}
		case 13:
			if a := g.pick(func(a acc) bool { return baseOf(a.Ty).K == "Dict" }); a != nil {
				return &Exp{Kind: "CallB", T: a.T, Bi: "BDContainsKey", Args: []*Exp{eInt(int64(r.Intn(3)))}}
			}
		case 14:
			if a := g.pick(func(a acc) bool { return a.Ty.K == "Acct" }); a != nil {
				slot := int64(r.Intn(3))
				return &Exp{Kind: "CallB", T: a.T, Bi: "BCheck", Args: []*Exp{eInt(slot)}, SlotTy: slotTy(slot)}
			}
		case 15:
			if r.Intn(1000) < g.impure {
				if a := g.pick(func(a acc) bool { return mutRecv(a, "Arr") && baseOf(a.Ty).E.K == "Int" }); a != nil {
					return &Exp{Kind: "CallB", T: a.T, Bi: "BRemoveFirst"}
				}
			}
		}
	}
	return eInt(int64(r.Intn(5)))
}

func slotTy(slot int64) *Ty {
	if slot == 0 {
		return tDict
	}
	return tArr(tInt)
}

// genTy produces an expression of static type t (nil if none is available)
func (g *genCtx) genTy(t *Ty, d int) *Exp {
	r := g.rng
	readOf := func(pred func(acc) bool) *Exp {
		if a := g.pick(pred); a != nil {
			return eRead(a.T)
		}
		return nil
	}
	acct := g.pick(func(a acc) bool { return a.Ty.K == "Acct" })
	if t.K == "Ref" {
		// from here on a reference may be alive somewhere (variable, struct field, array element)
		*g.hasRefs = true
	}
	switch t.K {
	case "Int":
		return g.genInt(d)
	case "S":
		for try := 0; try < 4; try++ {
			switch r.Intn(5) {
			case 0, 1:
				if e := readOf(func(a acc) bool { return a.Ty.K == "S" && !(a.T.Kind == "Var" && a.T.X == idSelf && g.host != "S") }); e != nil {
					return e
				}
			case 2:
				// (*ref) is not defined for composite types in Cadence: no dereference of &S
			case 3:
				if d < 2 {
					tt := int64(0)
					// inside an initializer's extra statements a constructor call with t = 1 would recurse forever
					if r.Chance(1, 4) && !g.inInit {
						tt = 1
					}
					return &Exp{Kind: "New", CK: "KS", Args: []*Exp{g.genInt(d + 1), g.mustTy(tArr(tInt), d+1), g.mustTy(tArr(tS), d+2),
						g.mustTy(tArr(tRefN(tS)), d+2), g.mustTy(tDict, d+1), eInt(tt)}}
				}
			}
		}
		return readOf(func(a acc) bool { return a.Ty.K == "S" && a.T.Kind == "Var" && a.T.X != idSelf })
	case "Arr":
		switch t.E.K {
		case "Int":
			for try := 0; try < 4; try++ {
				switch r.Intn(6) {
				case 0, 1:
					if e := readOf(func(a acc) bool { return a.Ty.Eq(t) }); e != nil {
						return e
					}
				case 2:
					n := r.Intn(3)
					var es []*Exp
					for i := 0; i < n; i++ {
						es = append(es, g.genInt(d+1))
					}
					return &Exp{Kind: "Arr", Args: es, Ty: t}
				case 3:
					if e := readOf(func(a acc) bool { return a.Ty.K == "Ref" && a.Ty.E.Eq(t) }); e != nil {
						return &Exp{Kind: "Deref", A: e}
					}
				case 4:
					if a := g.pick(func(a acc) bool { return baseOf(a.Ty).Eq(t) }); a != nil && d < 2 {
						return &Exp{Kind: "CallB", T: a.T, Bi: "BConcat", Args: []*Exp{g.mustTy(t, d+1)}}
					}
				case 5:
					if acct != nil {
						bi := "BCopy"
						if r.Intn(1000) < g.impure {
							bi = "BLoad"
						}
						return &Exp{Kind: "Force", A: &Exp{Kind: "CallB", T: acct.T, Bi: bi, Args: []*Exp{eInt(1)}, SlotTy: t}}
					}
				}
			}
			return &Exp{Kind: "Arr", Args: []*Exp{eInt(1), eInt(2)}, Ty: t}
		case "S":
			if r.Chance(1, 2) {
				if e := readOf(func(a acc) bool { return a.Ty.Eq(t) }); e != nil {
					return e
				}
			}
			var es []*Exp
			if d < 2 {
				for i := 0; i < r.Intn(3); i++ {
					if s := g.genTy(tS, d+1); s != nil {
						es = append(es, s)
					}
				}
			}
			return &Exp{Kind: "Arr", Args: es, Ty: t}
		case "Ref":
			if r.Chance(1, 2) {
				if e := readOf(func(a acc) bool { return a.Ty.K == "Arr" && a.Ty.E.K == "Ref" }); e != nil {
					return e
				}
			}
			var es []*Exp
			for i := 0; i < r.Intn(3); i++ {
				if s := g.genTy(tRefN(tS), d+1); s != nil {
					es = append(es, s)
				}
			}
			return &Exp{Kind: "Arr", Args: es, Ty: t}
		}
	case "Dict":
		for try := 0; try < 3; try++ {
			switch r.Intn(3) {
			case 0:
				if e := readOf(func(a acc) bool { return a.Ty.K == "Dict" }); e != nil {
					return e
				}
			case 1:
				if e := readOf(func(a acc) bool { return a.Ty.K == "Ref" && a.Ty.E.K == "Dict" }); e != nil {
					return &Exp{Kind: "Deref", A: e}
				}
			}
		}
		return &Exp{Kind: "Dict", KVs: [][2]int64{{1, int64(r.Intn(9))}, {int64(2 + r.Intn(3)), 7}}}
	case "Ref":
		switch t.E.K {
		case "S":
			for try := 0; try < 4; try++ {
				switch r.Intn(5) {
				case 0, 1:
					if e := readOf(func(a acc) bool { return a.Ty.K == "Ref" && a.Ty.E.K == "S" }); e != nil {
						return e
					}
				case 2:
					if a := g.pick(func(a acc) bool {
						return a.Ty.K == "S" && !a.Via && !(a.T.Kind == "Var" && a.T.X == idSelf)
					}); a != nil {
						return &Exp{Kind: "Ref", T: a.T, Ty: tRefN(tS)}
					}
				case 3:
					if e := readOf(func(a acc) bool { return a.Ty.K == "Any" }); e != nil {
						return &Exp{Kind: "Cast", A: e, Ty: tRefN(tS)}
					}
				}
			}
			return readOf(func(a acc) bool { return a.Ty.K == "Ref" && a.Ty.E.K == "S" && a.T.Kind == "Var" })
		case "Arr", "Dict":
			for try := 0; try < 4; try++ {
				switch r.Intn(4) {
				case 0:
					if e := readOf(func(a acc) bool { return a.Ty.Eq(t) }); e != nil {
						return e
					}
				case 1:
					if a := g.pick(func(a acc) bool { return a.Ty.Eq(t.E) && !a.Via }); a != nil {
						return &Exp{Kind: "Ref", T: a.T, Ty: t}
					}
				case 2:
					if t.E.K == "Arr" {
						if e := readOf(func(a acc) bool { return a.Ty.K == "Opt" && a.Ty.E.Eq(t) }); e != nil {
							return &Exp{Kind: "Force", A: e}
						}
					}
				case 3:
					if acct != nil {
						slot := int64(1)
						if t.E.K == "Dict" {
							slot = 0
						}
						return &Exp{Kind: "Force", A: &Exp{Kind: "CallB", T: acct.T, Bi: "BBorrow", Args: []*Exp{eInt(slot)}, SlotTy: t.E}}
					}
				}
			}
			return readOf(func(a acc) bool { return a.Ty.Eq(t) && a.T.Kind == "Var" })
		}
	case "Fun":
		if r.Chance(1, 3) {
			if e := readOf(func(a acc) bool { return a.Ty.K == "Fun" && (a.Ty.View || !t.View) }); e != nil {
				return e
			}
		}
		if d > 1 || g.depth > 2 {
			return &Exp{Kind: "Fun", View: t.View || r.Bool(), Body: []*Stmt{ret(g.ln(), eInt(int64(r.Intn(5))))}}
		}
		view := t.View || r.Chance(1, 3)
		c := g.child()
		c.host = g.host
		// resources (and a resource's self) cannot be captured by a closure
		var kept []gvar
		for _, v := range c.vars {
			if !v.Ty.IsRes() {
				kept = append(kept, v)
			}
		}
		c.vars = kept
		body := c.genBody(1+r.Intn(3), false)
		body = append(body, ret(g.ln(), c.genInt(1)))
		return &Exp{Kind: "Fun", View: view, Body: body}
	case "Any":
		switch r.Intn(3) {
		case 0:
			return g.genInt(d)
		case 1:
			if e := g.genTy(tRefN(tS), d); e != nil {
				return e
			}
		}
		if e := g.genTy(tS, d+1); e != nil {
			return e
		}
		return g.genInt(d)
	case "Opt":
		if e := readOf(func(a acc) bool { return a.Ty.Eq(t) }); e != nil && r.Chance(1, 2) {
			return e
		}
		if t.E.K == "Ref" && acct != nil {
			return &Exp{Kind: "CallB", T: acct.T, Bi: "BBorrow", Args: []*Exp{eInt(int64(1 + r.Intn(2)))}, SlotTy: t.E.E}
		}
		return readOf(func(a acc) bool { return a.Ty.Eq(t) })
	}
	return nil
}

func (g *genCtx) mustTy(t *Ty, d int) *Exp {
	if e := g.genTy(t, d); e != nil {
		return e
	}
	switch t.K {
	case "Arr":
		return &Exp{Kind: "Arr", Ty: t}
	case "Dict":
		return &Exp{Kind: "Dict"}
	}
	return eInt(0)
}

var letTypes = []*Ty{tInt, tInt, tS, tS, tArr(tInt), tArr(tInt), tArr(tS), tDict, tRefN(tS), tRefN(tS), tRef(tArr(tInt)), tRef(tArr(tInt)),
	tRef(tDict), tFun(true), tFun(false), tAny, tOpt(tRef(tArr(tInt)))}

// genStmt produces one statement (or nil)
func (g *genCtx) genStmt(allowIf bool) *Stmt {
	r := g.rng
	switch r.Intn(14) {
	case 0, 1, 2, 3:
		t := letTypes[r.Intn(len(letTypes))]
		e := g.genTy(t, 0)
		if e == nil {
			return nil
		}
		x := g.id()
		s := &Stmt{Kind: "Let", Ln: g.ln(), X: x, Ty: t, E: e}
		// the line tag of a let whose initializer is a function literal must precede the tags of its body:
		// renumbering is done by fixLines
		g.vars = append(g.vars, gvar{x, t, true})
		if t.K == "Ref" || t.K == "Any" || (t.K == "Opt" && t.E.K == "Ref") {
			*g.hasRefs = true
		}
		return s
	case 4, 5, 6, 7:
		a := g.pick(func(a acc) bool {
			if !g.assignable(a) {
				return false
			}
			// replacing a whole container while a reference into it is alive leaves that reference dangling in the
			// implementation (run-time error on use): a matter of reference validity, not of purity
			if *g.hasRefs && isContainerTy(a.Ty) {
				return false
			}
			// bias: locals and parameter-rooted chains are mostly pure, the others impure
			if a.RootLo || (a.T.Root() >= 10 && !a.Via && a.T.Kind != "Var") {
				return true
			}
			return r.Intn(1000) < g.impure*2
		})
		if a == nil {
			return nil
		}
		vt := a.Ty
		if vt.K == "Opt" {
			vt = vt.E
		}
		e := g.genTy(vt, 0)
		if e == nil {
			return nil
		}
		return &Stmt{Kind: "Assign", Ln: g.ln(), T: a.T, E: e}
	case 8:
		a := g.pick(func(a acc) bool { return g.assignable(a) && a.Ty.K == "Int" && (a.RootLo || r.Intn(1000) < g.impure*2) })
		if a == nil {
			return nil
		}
		b := g.pick(func(b acc) bool { return g.assignable(b) && b.Ty.K == "Int" && (b.RootLo || r.Intn(1000) < g.impure*2) })
		local := func(x acc) bool { return !x.Via && x.T.Root() >= 10 }
		if b == nil || a.T.Coq() == b.T.Coq() || (!local(*a) && !local(*b)) {
			// swapping a slot with itself (directly, or through two aliases: self / a reference parameter / a global)
			// fails at run time in the implementation ("used before initialized"): not a purity matter
			return nil
		}
		return &Stmt{Kind: "Swap", Ln: g.ln(), T: a.T, T2: b.T}
	case 9, 10:
		// expression statements: calls
		switch r.Intn(9) {
		case 0, 1:
			if r.Intn(1000) < g.impure*2 {
				if a := g.pick(func(a acc) bool { return mutRecv(a, "Arr") && baseOf(a.Ty).E.K == "Int" }); a != nil {
					bi := []string{"BAppend", "BInsert", "BRemoveFirst"}[r.Intn(3)]
					var args []*Exp
					switch bi {
					case "BAppend":
						args = []*Exp{g.genInt(1)}
					case "BInsert":
						args = []*Exp{eInt(int64(r.Intn(2))), g.genInt(1)}
					}
					return &Stmt{Kind: "Exp", Ln: g.ln(), E: &Exp{Kind: "CallB", T: a.T, Bi: bi, Args: args}}
				}
			}
		case 2:
			if r.Intn(1000) < g.impure*2 {
				if a := g.pick(func(a acc) bool { return mutRecv(a, "Dict") }); a != nil {
					if r.Bool() {
						return &Stmt{Kind: "Exp", Ln: g.ln(), E: &Exp{Kind: "CallB", T: a.T, Bi: "BDInsert", Args: []*Exp{eInt(int64(r.Intn(4))), g.genInt(1)}}}
					}
					return &Stmt{Kind: "Exp", Ln: g.ln(), E: &Exp{Kind: "CallB", T: a.T, Bi: "BDRemove", Args: []*Exp{eInt(int64(r.Intn(4)))}}}
				}
			}
		case 3:
			if r.Intn(1000) < g.impure*2 {
				if a := g.pick(func(a acc) bool { return a.Ty.K == "Opt" && a.Ty.E.K == "Ref" }); a != nil {
					return &Stmt{Kind: "Exp", Ln: g.ln(), E: &Exp{Kind: "CallB", T: a.T, Opt: true, Bi: "BAppend", Args: []*Exp{g.genInt(1)}}}
				}
			}
		case 4:
			if r.Intn(1000) < g.impure*2 {
				if a := g.pick(func(a acc) bool { return a.Ty.K == "Acct" }); a != nil {
					return &Stmt{Kind: "Exp", Ln: g.ln(), E: &Exp{Kind: "CallB", T: a.T, Bi: "BSave", Args: []*Exp{g.mustTy(tArr(tInt), 1), eInt(2)}, SlotTy: tArr(tInt)}}
				}
			}
		case 5:
			if r.Intn(1000) < g.impure {
				return &Stmt{Kind: "Exp", Ln: g.ln(), E: &Exp{Kind: "Destroy", A: &Exp{Kind: "New", CK: "KR", Args: []*Exp{g.genInt(1),
					&Exp{Kind: "Arr", Ty: tArr(tInt)}, &Exp{Kind: "Arr", Ty: tArr(tR)}, eInt(0)}}}}
			}
		default:
			return &Stmt{Kind: "Exp", Ln: g.ln(), E: g.genInt(0)}
		}
		return nil
	case 11:
		if allowIf && g.depth < 2 {
			ln := g.ln()
			c := g.genInt(1)
			th := g.child().genBody(1+r.Intn(2), false)
			var el []*Stmt
			if r.Bool() {
				el = g.child().genBody(1, false)
			}
			return &Stmt{Kind: "If", Ln: ln, E: c, Th: th, El: el}
		}
		return nil
	case 12:
		if r.Intn(1000) < g.impure*2 {
			return &Stmt{Kind: "Emit", Ln: g.ln(), E: g.genInt(1)}
		}
		return nil
	default:
		return &Stmt{Kind: "Exp", Ln: g.ln(), E: g.genInt(0)}
	}
}

func (g *genCtx) genBody(n int, allowIf bool) []*Stmt {
	var out []*Stmt
	for i := 0; i < n*3 && len(out) < n; i++ {
		if g.rng.Chance(1, 6) {
			if grp := g.genGroup(); grp != nil {
				out = append(out, grp...)
				continue
			}
		}
		if s := g.genStmt(allowIf || g.depth == 0); s != nil {
			out = append(out, s)
		}
	}
	return out
}

func (g *genCtx) hasVar(id int) *Ty {
	for _, v := range g.vars {
		if v.ID == id {
			return v.Ty
		}
	}
	return nil
}

func newR(x int64) *Exp {
	return &Exp{Kind: "New", CK: "KR", Args: []*Exp{eInt(x), {Kind: "Arr", Ty: tArr(tInt)}, {Kind: "Arr", Ty: tArr(tR)}, eInt(0)}}
}

// genGroup: the write forms that need more than one statement to be resource-correct
//
//	force-assignment          var o: @R? <- nil;  o <-! create R(..);  destroy o
//	second value transfer     var old: @R <- TARGET <- create R(..);  destroy old      (TARGET: element of a resource array
//	                          field of self / of a resource parameter)
//	remove                    remove A from TARGET
func (g *genCtx) genGroup() []*Stmt {
	r := g.rng
	// resource-typed element slots reachable here
	var slots []*Target
	var bases []*Target
	if t := g.hasVar(idSelf); t != nil && t.K == "Obj" {
		slots = append(slots, tgIndex(tgField(tgVar(idSelf), 2), 0))
		if g.inInit {
			bases = append(bases, tgIndex(tgField(tgVar(idSelf), 2), 0))
		}
	}
	if g.hasVar(idPR) != nil {
		slots = append(slots, tgIndex(tgField(tgVar(idPR), 2), 0))
		bases = append(bases, tgVar(idPR))
	}
	switch r.Intn(3) {
	case 0:
		x := g.id()
		l1, l2, l3 := g.ln(), g.ln(), g.ln()
		return []*Stmt{
			{Kind: "Let", Ln: l1, X: x, Ty: tOpt(tR), E: &Exp{Kind: "Nil"}},
			{Kind: "Assign", Ln: l2, T: tgVar(x), E: newR(int64(r.Intn(9)))},
			{Kind: "Exp", Ln: l3, E: &Exp{Kind: "Destroy", A: eVar(x)}},
		}
	case 1:
		if len(slots) == 0 {
			return nil
		}
		x := g.id()
		l1, l2 := g.ln(), g.ln()
		return []*Stmt{
			{Kind: "Let2", Ln: l1, X: x, Ty: tR, T: slots[r.Intn(len(slots))], E: newR(int64(r.Intn(9)))},
			{Kind: "Exp", Ln: l2, E: &Exp{Kind: "Destroy", A: eVar(x)}},
		}
	default:
		if len(bases) == 0 {
			return nil
		}
		return []*Stmt{{Kind: "Remove", Ln: g.ln(), T: bases[r.Intn(len(bases))]}}
	}
}

func (g *genCtx) genConds(n int) []Cond {
	var out []Cond
	for i := 0; i < n; i++ {
		if g.rng.Chance(1, 3) {
			out = append(out, Cond{Emit: true, Ln: g.ln(), E: g.genInt(1)})
		} else {
			// tests that (almost always) hold: e*0 + 1 is not expressible; use 1 + |small|: compare nonzero
			out = append(out, Cond{Ln: g.ln(), E: eAdd(eInt(100), g.genInt(1))})
		}
	}
	return out
}

// fixLines renumbers line tags in source order (function literals make generation order differ from print order)
func fixLines(p *Prog) {
	n := 0
	var ss func([]*Stmt)
	var ex func(*Exp)
	ex = func(e *Exp) {
		if e == nil {
			return
		}
		if e.Kind == "Fun" {
			ss(e.Body)
		}
		ex(e.A)
		ex(e.B)
		for _, a := range e.Args {
			ex(a)
		}
	}
	ss = func(l []*Stmt) {
		for _, s := range l {
			n++
			s.Ln = n
			ex(s.E)
			ss(s.Th)
			ss(s.El)
		}
	}
	for _, f := range p.Funs {
		for i := range f.Pre {
			n++
			f.Pre[i].Ln = n
		}
		for i := range f.Post {
			n++
			f.Post[i].Ln = n
		}
		ss(f.Body)
	}
}

// genCase generates one program with a function under test of a random kind.
func genCase(r *lib.Rng, name string) *Case {
	nextID, nextLn := 100, 0
	kind := []int{KMethodS, KMethodS, KMethodS, KMethodR, KMethodR, KGlobal, KGlobal, KInitS, KInitR}[r.Intn(9)]
	impure := []int{0, 0, 40, 120, 300}[r.Intn(5)]
	mk := func(host string, params []Param) *genCtx {
		g := &genCtx{rng: r, host: host, nextID: &nextID, nextLn: &nextLn, impure: impure, hasRefs: new(bool)}
		g.vars = []gvar{{idG, tInt, false}, {idGD, tDict, false}, {idGArr, tArr(tInt), false}}
		switch host {
		case "S":
			g.vars = append(g.vars, gvar{idSelf, tS, false})
		case "R":
			g.vars = append(g.vars, gvar{idSelf, tObj, false})
		}
		for _, p := range params {
			g.vars = append(g.vars, gvar{p.X, p.Ty, false})
		}
		return g
	}
	sInitView, rInitView := !r.Chance(1, 8), !r.Chance(1, 8)
	var sExtra, rExtra []*Stmt
	var funs []*Fun
	// helper gf5
	hasHelper := r.Chance(1, 2)
	if hasHelper {
		hp := []Param{{idHS, tS}, {idHRA, tRef(tArr(tInt))}, {idHX, tInt}}
		g := mk("", hp)
		g.inHelp = true
		body := g.genBody(1+r.Intn(3), true)
		body = append(body, ret(g.ln(), g.genInt(0)))
		funs = append(funs, &Fun{ID: fnHelper, View: r.Chance(2, 3), Params: hp, Body: body})
	}
	view := !r.Chance(1, 7)
	switch kind {
	case KMethodS, KGlobal:
		host := ""
		if kind == KMethodS {
			host = "S"
		}
		ps := testParams(false)
		g := mk(host, ps)
		g.helper = hasHelper
		f := &Fun{ID: fnTest, Host: host, View: view, Params: ps}
		if r.Chance(1, 3) {
			f.Pre = g.genConds(1 + r.Intn(2))
		}
		if r.Chance(1, 4) {
			f.Post = g.genConds(1)
		}
		f.Body = g.genBody(2+r.Intn(6), true)
		f.Body = append(f.Body, ret(g.ln(), g.genInt(0)))
		funs = append(funs, f)
	case KMethodR:
		ps := testParams(true)
		g := mk("R", ps)
		g.helper = hasHelper
		// the resource parameter is only consumed by the final return
		f := &Fun{ID: fnTest, Host: "R", View: view, Params: ps, RetRes: true}
		if r.Chance(1, 3) {
			f.Pre = g.genConds(1)
		}
		f.Body = g.genBody(2+r.Intn(6), true)
		var last *Exp = eVar(idPR)
		if r.Chance(1, 6) {
			last = &Exp{Kind: "Attach", A: eVar(idPR)}
		}
		f.Body = append(f.Body, ret(g.ln(), last))
		funs = append(funs, f)
	case KInitS:
		sInitView = view
		ps := []Param{{idIX, tInt}, {idIArr, tArr(tInt)}, {idIKids, tArr(tS)}, {idIRefs, tArr(tRefN(tS))}, {idID, tDict}, {idIT, tInt}}
		g := mk("S", ps)
		g.depth = 1
		g.inInit = true
		if g.impure < 120 && r.Chance(1, 2) {
			g.impure = 120
		}
		sExtra = g.genInitBody(1 + r.Intn(4))
	case KInitR:
		rInitView = view
		// the resource array parameter has been moved into self.kids when the extra statements run
		g := mk("R", []Param{{idIX, tInt}, {idIArr, tArr(tInt)}, {idIT, tInt}})
		g.depth = 1
		g.inInit = true
		if g.impure < 120 && r.Chance(1, 2) {
			g.impure = 120
		}
		rExtra = g.genInitBody(1 + r.Intn(4))
	}
	p := &Prog{Funs: append(fixedFuns(sInitView, rInitView, sExtra, rExtra), funs...)}
	fixLines(p)
	return &Case{Name: name, Kind: kind, Prog: p}
}

// genInitBody: statements of an initializer after the field initialisations; biased towards self-rooted writes
func (g *genCtx) genInitBody(n int) []*Stmt {
	var out []*Stmt
	r := g.rng
	for i := 0; i < n*4 && len(out) < n; i++ {
		if r.Chance(1, 2) {
			a := g.pick(func(a acc) bool { return a.T.Root() == idSelf && a.Depth >= 1 && g.assignable(a) })
			if a != nil {
				vt := a.Ty
				if vt.K == "Opt" {
					vt = vt.E
				}
				if e := g.genTy(vt, 1); e != nil {
					out = append(out, &Stmt{Kind: "Assign", Ln: g.ln(), T: a.T, E: e})
					continue
				}
			}
		}
		if s := g.genStmt(false); s != nil {
			out = append(out, s)
		}
	}
	return out
}
