package main

import (
	"fmt"
	"go/ast"
	"go/parser"
	"go/token"
	"path/filepath"
	"sort"
	"strings"
)

// PuritySite: function `Caller` of package sema calls checker method `Callee` `Count` times.
type PuritySite struct {
	Callee, Caller string
	Count          int
}

// the methods through which the checker's purity analysis is wired into the visitors
var purityCallees = map[string]bool{
	"enforceViewAssignment": true, "checkAssignment": true, "ObserveImpureOperation": true,
	"EnforcePurity": true, "InNewPurityScope": true,
}

// extractPuritySites reads the sema sources of the tree under check and lists which functions call the purity
// entry points (and the shared assignment helper) how often: the wiring that coq/theories/C07/Check.v transcribes.
func extractPuritySites(repo string) ([]PuritySite, error) {
	files, err := filepath.Glob(filepath.Join(repo, "sema", "*.go"))
	if err != nil {
		return nil, err
	}
	counts := map[[2]string]int{}
	fset := token.NewFileSet()
	for _, f := range files {
		if strings.HasSuffix(f, "_test.go") {
			continue
		}
		file, err := parser.ParseFile(fset, f, nil, 0)
		if err != nil {
			return nil, err
		}
		for _, d := range file.Decls {
			fd, ok := d.(*ast.FuncDecl)
			if !ok || fd.Body == nil {
				continue
			}
			ast.Inspect(fd.Body, func(n ast.Node) bool {
				call, ok := n.(*ast.CallExpr)
				if !ok {
					return true
				}
				if sel, ok := call.Fun.(*ast.SelectorExpr); ok && purityCallees[sel.Sel.Name] {
					counts[[2]string{sel.Sel.Name, fd.Name.Name}]++
				}
				return true
			})
		}
	}
	var out []PuritySite
	for k, n := range counts {
		out = append(out, PuritySite{k[0], k[1], n})
	}
	sort.Slice(out, func(i, j int) bool {
		if out[i].Callee != out[j].Callee {
			return out[i].Callee < out[j].Callee
		}
		return out[i].Caller < out[j].Caller
	})
	return out, nil
}

func sitesCoq(sites []PuritySite) string {
	var sb strings.Builder
	sb.WriteString("\n(* which functions of package sema call the purity entry points / the shared assignment helper, and how often\n")
	sb.WriteString("   (read from the sema sources of the tree under check with go/parser) *)\n")
	sb.WriteString("Definition purity_sites : list (string * string * nat) := [\n")
	for i, s := range sites {
		if i > 0 {
			sb.WriteString(";\n")
		}
		fmt.Fprintf(&sb, "  (%q, %q, %d)", s.Callee, s.Caller, s.Count)
	}
	sb.WriteString("\n].\n")
	return sb.String()
}

// expectedSites: the wiring that Check.v transcribes (mirrors [expected_sites] of coq/theories/C07/Soundness.v)
var expectedSites = []PuritySite{
	{"EnforcePurity", "checkInvocationExpression", 1},
	{"InNewPurityScope", "checkFunction", 1},
	{"InNewPurityScope", "visitConditions", 1},
	{"InNewPurityScope", "visitWithPostConditions", 1},
	{"ObserveImpureOperation", "EnforcePurity", 1},
	{"ObserveImpureOperation", "VisitDestroyExpression", 1},
	{"ObserveImpureOperation", "enforceViewAssignment", 4},
	{"checkAssignment", "VisitAssignmentStatement", 1},
	{"checkAssignment", "visitVariableDeclarationValues", 1},
	{"enforceViewAssignment", "VisitRemoveStatement", 1},
	{"enforceViewAssignment", "VisitSwapStatement", 2},
	{"enforceViewAssignment", "checkAssignment", 1},
}

func siteProblems(sites []PuritySite) [][3]string {
	if len(expectedSites) == 0 {
		return nil
	}
	exp := map[[2]string]int{}
	for _, s := range expectedSites {
		exp[[2]string{s.Callee, s.Caller}] = s.Count
	}
	got := map[[2]string]int{}
	var probs [][3]string
	for _, s := range sites {
		k := [2]string{s.Callee, s.Caller}
		got[k] = s.Count
		if exp[k] != s.Count {
			probs = append(probs, [3]string{"purity-sites:" + s.Callee + "<-" + s.Caller,
				fmt.Sprintf("sema.%s calls %s %d time(s); the purity analysis transcribed in coq/theories/C07/Check.v assumes %d: the wiring of the purity checks changed", s.Caller, s.Callee, s.Count, exp[k]),
				s.Caller})
		}
	}
	for _, s := range expectedSites {
		k := [2]string{s.Callee, s.Caller}
		if _, ok := got[k]; !ok {
			probs = append(probs, [3]string{"purity-sites:" + s.Callee + "<-" + s.Caller,
				fmt.Sprintf("sema.%s no longer calls %s (expected %d call(s)): a statement kind is no longer purity-checked through this path", s.Caller, s.Callee, s.Count),
				s.Caller})
		}
	}
	return probs
}
