// Command c24: harness for C24 (failed transactions and all scripts write no ledger
// registers; successful transactions write only after their code has finished, and those
// writes hold everything a later transaction observes).
//
// It generates chain histories of scripts, transactions and contract-function calls that mutate
// storage in many ways (save/load, array and dictionary mutation inside stored values, contract
// field mutation, capability issue/publish, contract deployment, storage.used/.capacity and
// account creation) and then succeed or fail in many ways (panic, assert, pre-/post-condition,
// force unwrap, force cast, type-mismatching load, index out of bounds, arithmetic overflow,
// division by zero, overwrite, metering limits injected at varied call counts of a computation
// or memory gauge, including after the program's last statement, i.e. inside commit).
// The ledger records every SetValue in one trace together with the program's logs, so the
// position of writes relative to the final log("END") marker (999) is known.
//
//	(a) direct checks: a script or a failed transaction with any SetValue, a successful
//	    transaction with a SetValue before END, or an observation script that disagrees with a
//	    Go shadow map is a property failure;
//	(b) the instruction list of each program, the observed outcome and the projected trace go
//	    to Coq case files evaluated against the executor model of coq/theories/C24/Model.v.
package main

import (
	"encoding/hex"
	"flag"
	"fmt"
	"os"
	"sort"
	"strconv"
	"strings"

	"cvh/lib"

	"github.com/onflow/cadence"
	"github.com/onflow/cadence/common"
	"github.com/onflow/cadence/interpreter"
	"github.com/onflow/cadence/runtime"
	"github.com/onflow/cadence/sema"
	ru "github.com/onflow/cadence/test_utils/runtime_utils"
)

var (
	prop = flag.String("prop", "C24", "property id")
	seed = flag.Uint64("seed", 1, "seed")
	tier = flag.String("tier", "quick", "quick|thorough")
	dir  = flag.String("dir", ".", "output directory")
)

const contractC = `
access(all) contract C {
    access(all) var counter: Int
    init() { self.counter = 0 }
    access(all) fun bump(_ n: Int) { self.counter = self.counter + n }
    access(all) fun bumpThenFail(_ n: Int) { self.counter = self.counter + n; panic("bumpThenFail") }
    access(all) fun boom() { panic("boom") }
    access(all) view fun ten(): Int { return 10 }
    access(all) fun any(): AnyStruct { return 1 }
    access(all) view fun ha(_ a: [Int]?): Int {
        if let b = a { var h = 0; for x in b { h = (h * 31 + x + 1) % 1000003 }; return h }
        return -1
    }
    access(all) view fun hd(_ d: {Int: Int}?): Int {
        if let e = d { var h = 0; for k in e.keys { h = h + k * 100 + e[k]! + 1 }; return h }
        return -1
    }
}
`

const contractD = `access(all) contract D { access(all) var x: Int; init() { self.x = 7 } }`

const acctType = "auth(Storage, Contracts, Capabilities) &Account"

// ------------------------------------------------------------------------------------------
// cells (model registers): (account, key)

const (
	kC0    = 1
	kC1    = 2
	kArr   = 3
	kDic   = 4
	kCount = 20 // C.counter, account 1 only
	kCaps  = 30 // number of capability controllers for /storage/c0
	kPub   = 31 // /public/q published
	kD     = 40 // field x of contract D deployed at the account
)

type reg struct{ a, k int }

func (r reg) coq() string { return fmt.Sprintf("(%d, %d)", r.a, r.k) }

// shadow: plain Go map with working copy, flush and pending contract updates
type shadow struct {
	committed map[reg]int64
	cur       map[reg]int64
	arrs      map[int][]int64       // working content of /storage/arr per account
	dics      map[int]map[int]int64 // working content of /storage/dic per account
	cArrs     map[int][]int64
	cDics     map[int]map[int]int64
	pending   map[reg]int64 // recorded contract updates
}

func newShadow() *shadow {
	return &shadow{committed: map[reg]int64{{1, kCount}: 0}, cArrs: map[int][]int64{}, cDics: map[int]map[int]int64{}}
}

func cloneDics(m map[int]map[int]int64) map[int]map[int]int64 {
	out := map[int]map[int]int64{}
	for a, d := range m {
		c := map[int]int64{}
		for k, v := range d {
			c[k] = v
		}
		out[a] = c
	}
	return out
}
func cloneArrs(m map[int][]int64) map[int][]int64 {
	out := map[int][]int64{}
	for a, l := range m {
		out[a] = append([]int64{}, l...)
	}
	return out
}

func (s *shadow) begin() {
	s.cur = map[reg]int64{}
	for k, v := range s.committed {
		s.cur[k] = v
	}
	s.arrs, s.dics = cloneArrs(s.cArrs), cloneDics(s.cDics)
	s.pending = map[reg]int64{}
}

// flush: CommitStorageTemporarily (everything except the recorded contract updates)
func (s *shadow) flush() {
	s.committed = map[reg]int64{}
	for k, v := range s.cur {
		s.committed[k] = v
	}
	s.cArrs, s.cDics = cloneArrs(s.arrs), cloneDics(s.dics)
}

func (s *shadow) commit() {
	for k, v := range s.pending {
		s.cur[k] = v
	}
	s.flush()
}

func hashArr(l []int64) int64 {
	var h int64
	for _, x := range l {
		h = (h*31 + x + 1) % 1000003
	}
	return h
}
func hashDic(d map[int]int64) int64 {
	var h int64
	for k, v := range d {
		h += int64(k)*100 + v + 1
	}
	return h
}

// ------------------------------------------------------------------------------------------
// operations

type Op struct {
	K string `json:"k"`
	A int    `json:"a,omitempty"`
	C int    `json:"c,omitempty"` // cell c0/c1, or dictionary key
	V int64  `json:"v,omitempty"`
}

var failKinds = []string{"panic", "assert", "nilUnwrap", "forceCast", "overflow", "divZero", "oob", "arrOOB", "loadMismatch"}
var flushKinds = []string{"storage.used", "storage.capacity", "account-creation"}

func isFlush(k string) bool {
	return k == "storage.used" || k == "storage.capacity" || k == "account-creation"
}

func acct(script bool, a int) string {
	if script {
		return fmt.Sprintf("a%d", a)
	}
	return fmt.Sprintf("self.a%d", a)
}

// cadence renders the statements of operation number i
func (o Op) cadence(i int, script bool) string {
	A := acct(script, o.A)
	cell := func(c int) string { return fmt.Sprintf("/storage/c%d", c-kC0) }
	switch o.K {
	case "saveInt":
		return fmt.Sprintf("%s.storage.save(%d, to: %s)", A, o.V, cell(o.C))
	case "loadInt":
		return fmt.Sprintf("let l%d = %s.storage.load<Int>(from: %s)", i, A, cell(o.C))
	case "loadMismatch":
		return fmt.Sprintf("let l%d = %s.storage.load<String>(from: %s)", i, A, cell(o.C))
	case "arrNew":
		return fmt.Sprintf("%s.storage.save([%d], to: /storage/arr)", A, o.V)
	case "arrAppend":
		return fmt.Sprintf("%s.storage.borrow<auth(Mutate) &[Int]>(from: /storage/arr)!.append(%d)", A, o.V)
	case "arrDrop":
		return fmt.Sprintf("let l%d = %s.storage.load<[Int]>(from: /storage/arr)", i, A)
	case "arrOOB":
		return fmt.Sprintf("let l%d = %s.storage.borrow<&[Int]>(from: /storage/arr)![99]", i, A)
	case "dicNew":
		return fmt.Sprintf("%s.storage.save({} as {Int: Int}, to: /storage/dic)", A)
	case "dicSet":
		return fmt.Sprintf("%s.storage.borrow<auth(Mutate) &{Int: Int}>(from: /storage/dic)!.insert(key: %d, %d)", A, o.C, o.V)
	case "bump":
		return fmt.Sprintf("C.bump(%d)", o.V)
	case "capIssue":
		return fmt.Sprintf("let cap%d = %s.capabilities.storage.issue<&Int>(/storage/c0)", i, A)
	case "capPublish":
		return fmt.Sprintf("%s.capabilities.publish(%s.capabilities.storage.issue<&Int>(/storage/c0), at: /public/q)", A, A)
	case "addContract":
		return fmt.Sprintf("%s.contracts.add(name: \"D\", code: \"%s\".decodeHex())", A, hex.EncodeToString([]byte(contractD)))
	case "storage.used":
		return fmt.Sprintf("let u%d = %s.storage.used", i, A)
	case "storage.capacity":
		return fmt.Sprintf("let u%d = %s.storage.capacity", i, A)
	case "account-creation":
		return fmt.Sprintf("let n%d = Account(payer: %s)", i, A)
	case "panic":
		return "C.boom()"
	case "assert":
		return "assert(C.ten() == 11, message: \"assert\")"
	case "nilUnwrap":
		return fmt.Sprintf("let o%d: Int? = C.ten() == 10 ? nil : 1\nlet w%d = o%d!", i, i, i)
	case "forceCast":
		return fmt.Sprintf("let w%d = C.any() as! String", i)
	case "overflow":
		return fmt.Sprintf("let w%d = UInt8(250) + UInt8(C.ten())", i)
	case "divZero":
		return fmt.Sprintf("let w%d = 7 / (C.ten() - 10)", i)
	case "oob":
		return fmt.Sprintf("let w%d = [1, 2][C.ten()]", i)
	}
	panic(o.K)
}

// apply runs the operation on the shadow and returns the model instructions;
// failed = the operation fails (its last instruction is IFail)
func (s *shadow) apply(o Op) (ins []string, failed bool) {
	get := func(r reg) string { return "IGet " + r.coq() }
	set := func(r reg, v int64) string {
		s.cur[r] = v
		return fmt.Sprintf("ISet %s %d", r.coq(), v)
	}
	del := func(r reg) string {
		delete(s.cur, r)
		return "IDel " + r.coq()
	}
	r := reg{o.A, o.C}
	switch o.K {
	case "saveInt":
		if _, has := s.cur[r]; has {
			return []string{get(r), "IFail"}, true
		}
		return []string{get(r), set(r, o.V)}, false
	case "loadInt":
		return []string{get(r), del(r)}, false
	case "loadMismatch":
		if _, has := s.cur[r]; has {
			return []string{get(r), "IFail"}, true
		}
		return []string{get(r), del(r)}, false
	case "arrNew":
		r = reg{o.A, kArr}
		if _, has := s.cur[r]; has {
			return []string{get(r), "IFail"}, true
		}
		s.arrs[o.A] = []int64{o.V}
		return []string{get(r), set(r, hashArr(s.arrs[o.A]))}, false
	case "arrAppend":
		r = reg{o.A, kArr}
		if _, has := s.cur[r]; !has {
			return []string{get(r), "IFail"}, true
		}
		s.arrs[o.A] = append(s.arrs[o.A], o.V)
		return []string{get(r), set(r, hashArr(s.arrs[o.A]))}, false
	case "arrDrop":
		r = reg{o.A, kArr}
		delete(s.arrs, o.A)
		return []string{get(r), del(r)}, false
	case "arrOOB":
		return []string{get(reg{o.A, kArr}), "IFail"}, true
	case "dicNew":
		r = reg{o.A, kDic}
		if _, has := s.cur[r]; has {
			return []string{get(r), "IFail"}, true
		}
		s.dics[o.A] = map[int]int64{}
		return []string{get(r), set(r, 0)}, false
	case "dicSet":
		r = reg{o.A, kDic}
		if _, has := s.cur[r]; !has {
			return []string{get(r), "IFail"}, true
		}
		s.dics[o.A][o.C] = o.V
		return []string{get(r), set(r, hashDic(s.dics[o.A]))}, false
	case "bump":
		r = reg{1, kCount}
		return []string{get(r), set(r, s.cur[r]+o.V)}, false
	case "capIssue":
		r = reg{o.A, kCaps}
		return []string{set(r, s.cur[r]+1)}, false
	case "capPublish":
		r = reg{o.A, kCaps}
		ins = []string{set(r, s.cur[r]+1)}
		p := reg{o.A, kPub}
		if _, has := s.cur[p]; has {
			return append(ins, "IFail"), true
		}
		return append(ins, set(p, 1)), false
	case "addContract":
		r = reg{o.A, kD}
		_, has := s.cur[r]
		_, pend := s.pending[r]
		if has || pend {
			return []string{"IFail"}, true
		}
		s.pending[r] = 7
		return []string{fmt.Sprintf("IUpd %s (Some 7)", r.coq())}, false
	case "storage.used", "storage.capacity", "account-creation":
		s.flush()
		return []string{"IFlush"}, false
	case "panic", "assert", "nilUnwrap", "forceCast", "overflow", "divZero", "oob":
		return []string{"IFail"}, true
	}
	panic(o.K)
}

// ------------------------------------------------------------------------------------------
// programs

type Prog struct {
	Kind   string `json:"kind"` // script | tx | fn (contract function call) | observe
	Part1  []Op   `json:"part1,omitempty"`
	Pre    bool   `json:"pre"`
	Part2  []Op   `json:"part2,omitempty"`
	Post   bool   `json:"post"`
	FnFail bool   `json:"fn_fail,omitempty"`
	FnArg  int64  `json:"fn_arg,omitempty"`
	Gauge  string `json:"gauge,omitempty"` // "", "mem", "comp"
	GaugeK int    `json:"gauge_k,omitempty"`
	// observation script: which contracts D exist
	ObsD []int `json:"obs_d,omitempty"`
}

const endMark = 999

func (p Prog) source() string {
	var sb strings.Builder
	sb.WriteString("import C from 0x1\n")
	switch p.Kind {
	case "script":
		sb.WriteString("access(all) fun main() {\n")
		for a := 1; a <= 3; a++ {
			fmt.Fprintf(&sb, "  let a%d = getAuthAccount<%s>(0x%d)\n", a, acctType, a)
		}
		for i, o := range p.Part1 {
			fmt.Fprintf(&sb, "  %s\n  log(%d)\n", o.cadence(i, true), i)
		}
		fmt.Fprintf(&sb, "  log(%d)\n}\n", endMark)
	case "tx":
		sb.WriteString("transaction {\n")
		for a := 1; a <= 3; a++ {
			fmt.Fprintf(&sb, "  let a%d: %s\n", a, acctType)
		}
		fmt.Fprintf(&sb, "  prepare(a1: %s, a2: %s, a3: %s) {\n    self.a1 = a1\n    self.a2 = a2\n    self.a3 = a3\n", acctType, acctType, acctType)
		for i, o := range p.Part1 {
			fmt.Fprintf(&sb, "    %s\n    log(%d)\n", o.cadence(i, false), i)
		}
		sb.WriteString("  }\n")
		fmt.Fprintf(&sb, "  pre { C.ten() == %d: \"pre\" }\n", map[bool]int{true: 10, false: 11}[p.Pre])
		sb.WriteString("  execute {\n")
		for i, o := range p.Part2 {
			fmt.Fprintf(&sb, "    %s\n    log(%d)\n", o.cadence(len(p.Part1)+i, false), len(p.Part1)+i)
		}
		fmt.Fprintf(&sb, "    log(%d)\n  }\n", endMark)
		fmt.Fprintf(&sb, "  post { C.ten() == %d: \"post\" }\n}\n", map[bool]int{true: 10, false: 11}[p.Post])
	case "observe":
		for _, a := range p.ObsD {
			fmt.Fprintf(&sb, "import D from 0x%d\n", a)
		}
		sb.WriteString("access(all) fun main() {\n")
		for a := 1; a <= 3; a++ {
			fmt.Fprintf(&sb, "  let a%d = getAuthAccount<%s>(0x%d)\n", a, acctType, a)
			fmt.Fprintf(&sb, "  log(a%d.storage.copy<Int>(from: /storage/c0) ?? -1)\n", a)
			fmt.Fprintf(&sb, "  log(a%d.storage.copy<Int>(from: /storage/c1) ?? -1)\n", a)
			fmt.Fprintf(&sb, "  log(C.ha(a%d.storage.copy<[Int]>(from: /storage/arr)))\n", a)
			fmt.Fprintf(&sb, "  log(C.hd(a%d.storage.copy<{Int: Int}>(from: /storage/dic)))\n", a)
			fmt.Fprintf(&sb, "  let n%d = a%d.capabilities.storage.getControllers(forPath: /storage/c0).length\n  log(n%d == 0 ? -1 : n%d)\n", a, a, a, a)
			fmt.Fprintf(&sb, "  log(a%d.capabilities.exists(/public/q) ? 1 : -1)\n", a)
		}
		sb.WriteString("  log(C.counter)\n")
		for _, a := range p.ObsD {
			_ = a
			sb.WriteString("  log(D.x)\n")
		}
		sb.WriteString("}\n")
	}
	return sb.String()
}

func observeRegs(obsD []int) []reg {
	var rs []reg
	for a := 1; a <= 3; a++ {
		rs = append(rs, reg{a, kC0}, reg{a, kC1}, reg{a, kArr}, reg{a, kDic}, reg{a, kCaps}, reg{a, kPub})
	}
	rs = append(rs, reg{1, kCount})
	for _, a := range obsD {
		rs = append(rs, reg{a, kD})
	}
	return rs
}

// ------------------------------------------------------------------------------------------
// chain with a recording ledger

type chain struct {
	h      *lib.Host
	trace  []string // "L <int>" | "W <owner>|<key hex>"
	comp   common.ComputationGauge
	mem    common.MemoryGauge
	locGen int
}

func newChain(vm bool) (*chain, error) {
	c := &chain{h: lib.NewHost()}
	h := c.h
	h.Ledger = ru.NewTestLedger(
		func(owner, key, value []byte) {},
		func(owner, key, value []byte) {
			c.trace = append(c.trace, fmt.Sprintf("W %d|%x", owner[len(owner)-1], key))
		},
	)
	h.Iface.Storage = h.Ledger
	h.Iface.OnProgramLog = func(s string) {
		c.trace = append(c.trace, "L "+s)
		h.Logs = append(h.Logs, s)
	}
	h.Iface.OnGetStorageUsed = func(a common.Address) (uint64, error) { return 10, nil }
	h.Iface.OnGetStorageCapacity = func(a common.Address) (uint64, error) { return 1000, nil }
	next := byte(0x20)
	h.Iface.OnCreateAccount = func(payer runtime.Address, _ interpreter.InvocationContext) (runtime.Address, error) {
		next++
		return common.MustBytesToAddress([]byte{next}), nil
	}
	dep := h.Deploy(addr(1), "C", contractC, vm)
	if dep.Err != nil || dep.Panic != nil {
		return nil, fmt.Errorf("deploying C failed: %v %v", dep.Err, dep.Panic)
	}
	return c, nil
}

func addr(i int) common.Address { return common.MustBytesToAddress([]byte{byte(i)}) }

type snapshot struct {
	values  map[string][]byte
	indices map[string]uint64
	codes   map[common.AddressLocation][]byte
}

func (c *chain) snap() snapshot {
	s := snapshot{map[string][]byte{}, map[string]uint64{}, map[common.AddressLocation][]byte{}}
	for k, v := range c.h.Ledger.StoredValues {
		s.values[k] = v
	}
	for k, v := range c.h.Ledger.StorageIndices {
		s.indices[k] = v
	}
	for k, v := range c.h.Codes {
		s.codes[k] = v
	}
	return s
}

func (c *chain) restore(s snapshot) {
	for k := range c.h.Ledger.StoredValues {
		delete(c.h.Ledger.StoredValues, k)
	}
	for k, v := range s.values {
		c.h.Ledger.StoredValues[k] = v
	}
	for k := range c.h.Ledger.StorageIndices {
		delete(c.h.Ledger.StorageIndices, k)
	}
	for k, v := range s.indices {
		c.h.Ledger.StorageIndices[k] = v
	}
	c.restoreCodes(s)
}

func (c *chain) restoreCodes(s snapshot) {
	for k := range c.h.Codes {
		delete(c.h.Codes, k)
	}
	for k, v := range s.codes {
		c.h.Codes[k] = v
	}
	c.h.Iface.Programs = nil
}

type limitError struct{ what string }

func (e limitError) Error() string { return "limit exceeded: " + e.what }

type runResult struct {
	Ok       bool
	Class    string
	ErrText  string
	Trace    []string
	Calls    int    // number of gauge calls
	FailKind string // usage kind of the gauge call that was failed
	FailLogs int    // number of logs recorded when the gauge failed
}

// exec runs one program; gauge "" = none; k = 0: only count the gauge calls
func (c *chain) exec(p Prog, vm bool, gauge string, k int) runResult {
	var res runResult
	c.trace = nil
	c.h.MemGauge, c.h.CompGauge = nil, nil
	countLogs := func() int {
		n := 0
		for _, e := range c.trace {
			if e[0] == 'L' {
				n++
			}
		}
		return n
	}
	hit := func(kind string) error {
		res.Calls++
		if k > 0 && res.Calls == k {
			res.FailKind = kind
			res.FailLogs = countLogs()
			return limitError{kind}
		}
		return nil
	}
	switch gauge {
	case "mem":
		c.h.MemGauge = common.FunctionMemoryGauge(func(u common.MemoryUsage) error { return hit(u.Kind.String()) })
	case "comp":
		c.h.CompGauge = common.FunctionComputationGauge(func(u common.ComputationUsage) error { return hit(u.Kind.String()) })
	}
	var out lib.Outcome
	switch p.Kind {
	case "script", "observe":
		out = c.h.RunScript(p.source(), nil, vm)
	case "tx":
		out = c.h.RunTx(p.source(), nil, []common.Address{addr(1), addr(2), addr(3)}, vm)
	case "fn":
		out = c.invokeFn(p, vm)
	}
	c.h.MemGauge, c.h.CompGauge = nil, nil
	res.Ok = out.Err == nil && out.Panic == nil
	res.Class = out.Class
	if out.Panic != nil {
		res.Class = "GoPanic"
		res.ErrText = fmt.Sprint(out.Panic)
	} else if out.Err != nil {
		res.ErrText = firstLines(out.Err.Error())
	}
	res.Trace = append([]string{}, c.trace...)
	return res
}

func (c *chain) invokeFn(p Prog, vm bool) (o lib.Outcome) {
	c.locGen++
	var loc common.TransactionLocation
	loc[31] = 0xEE
	loc[30] = byte(c.locGen)
	loc[29] = byte(c.locGen >> 8)
	loc[28] = byte(c.locGen >> 16)
	name := "bump"
	if p.FnFail {
		name = "bumpThenFail"
	}
	func() {
		defer func() {
			if r := recover(); r != nil {
				o.Panic = r
			}
		}()
		_, err := c.h.RT.InvokeContractFunction(
			common.AddressLocation{Address: addr(1), Name: "C"},
			name,
			[]cadence.Value{cadence.NewInt(int(p.FnArg))},
			[]sema.Type{sema.IntType},
			runtime.Context{Interface: c.h.Iface, Location: loc, UseVM: vm, MemoryGauge: c.h.MemGauge, ComputationGauge: c.h.CompGauge},
		)
		o.Err = err
		if err != nil {
			o.Class = lib.ClassifyRuntimeError(err)
		}
	}()
	return
}

func firstLines(s string) string {
	var keep []string
	for _, l := range strings.Split(s, "\n") {
		l = strings.TrimSpace(l)
		if strings.HasPrefix(l, "error:") || strings.HasPrefix(l, "Execution failed") || strings.Contains(l, "limit exceeded") {
			keep = append(keep, l)
		}
	}
	s = strings.Join(keep, " ")
	if len(s) > 300 {
		s = s[:300]
	}
	return s
}

// ------------------------------------------------------------------------------------------
// projection of the recorded trace: logs and bursts of writes (set of owners)

func project(trace []string) (items []string, coq []string) {
	var burst []int
	flush := func() {
		if len(burst) == 0 {
			return
		}
		sort.Ints(burst)
		var u []string
		for i, a := range burst {
			if i == 0 || a != burst[i-1] {
				u = append(u, fmt.Sprint(a))
			}
		}
		items = append(items, "W{"+strings.Join(u, ",")+"}")
		coq = append(coq, "PW ["+strings.Join(u, ";")+"]")
		burst = nil
	}
	for _, e := range trace {
		if e[0] == 'W' {
			a, _ := strconv.Atoi(e[2:strings.Index(e, "|")])
			burst = append(burst, a)
			continue
		}
		flush()
		items = append(items, e)
		n, err := strconv.ParseInt(strings.TrimSpace(e[2:]), 10, 64)
		if err != nil {
			n = -424242 // a non-integer log never matches the model
		}
		coq = append(coq, "PLog "+lib.ZI(n))
	}
	flush()
	return
}

var commitMeterKinds = map[string]bool{"EncodeValue": true, "Bytes": true, "AtreeEncodedSlab": true}

// ------------------------------------------------------------------------------------------
// generation

type gen struct {
	rng *lib.Rng
	sh  *shadow
}

func (g *gen) mutOp() Op {
	r := g.rng
	a := 1 + r.Intn(3)
	switch k := r.Intn(100); {
	case k < 22:
		return Op{K: "saveInt", A: a, C: kC0 + r.Intn(2), V: int64(r.Intn(90))}
	case k < 34:
		return Op{K: "loadInt", A: a, C: kC0 + r.Intn(2)}
	case k < 42:
		return Op{K: "arrNew", A: a, V: int64(r.Intn(50))}
	case k < 54:
		return Op{K: "arrAppend", A: a, V: int64(r.Intn(50))}
	case k < 58:
		return Op{K: "arrDrop", A: a}
	case k < 64:
		return Op{K: "dicNew", A: a}
	case k < 74:
		return Op{K: "dicSet", A: a, C: r.Intn(4), V: int64(r.Intn(50))}
	case k < 84:
		return Op{K: "bump", V: int64(1 + r.Intn(9))}
	case k < 90:
		return Op{K: "capIssue", A: a}
	case k < 95:
		return Op{K: "capPublish", A: a}
	default:
		return Op{K: "addContract", A: 2}
	}
}

// ops generates up to n operations; it stops after the first one the shadow says fails.
// wantFail: append a failing operation of a random kind at the end (if none failed before).
func (g *gen) ops(n int, withFlush bool, base int) (ops []Op, ins []string, failed bool) {
	for i := 0; i < n; i++ {
		var o Op
		switch {
		case withFlush && g.rng.Chance(1, 4):
			o = Op{K: lib.Pick(g.rng, flushKinds), A: 1 + g.rng.Intn(3)}
		case g.rng.Chance(1, 14):
			o = Op{K: lib.Pick(g.rng, failKinds), A: 1 + g.rng.Intn(3), C: kC0 + g.rng.Intn(2)}
		default:
			o = g.mutOp()
		}
		oi, f := g.sh.apply(o)
		ops = append(ops, o)
		ins = append(ins, oi...)
		if f {
			return ops, ins, true
		}
		ins = append(ins, fmt.Sprintf("ILog %d", base+i))
	}
	return ops, ins, false
}

type item struct {
	P       Prog     `json:"prog"`
	Ins     []string `json:"instrs"`
	Fp      string   `json:"failpoint"`
	Vm      bool     `json:"vm"`
	Ok      bool     `json:"ok"`
	Class   string   `json:"class,omitempty"`
	Err     string   `json:"err,omitempty"`
	Obs     []string `json:"trace"`
	obsCoq  []string
	Flushes []string `json:"flushes,omitempty"`
}

func (it item) coq() string {
	kind := "KTx"
	if it.P.Kind == "script" || it.P.Kind == "observe" {
		kind = "KScript"
	}
	if it.P.Kind == "fn" {
		kind = "KCall"
	}
	if it.P.Kind == "observe" {
		// compact form: the instruction list is [obs_prog d] of C24/Cases.v
		vals := make([]string, 0, len(it.obsCoq))
		plain := true
		for _, o := range it.obsCoq {
			if !strings.HasPrefix(o, "PLog ") {
				plain = false
			}
			vals = append(vals, strings.TrimPrefix(o, "PLog "))
		}
		if plain {
			return fmt.Sprintf("IO %v %v [%s]", len(it.P.ObsD) > 0, it.Ok, strings.Join(vals, "; "))
		}
	}
	fp := "None"
	if it.Fp != "" {
		fp = "(Some " + it.Fp + ")"
	}
	if strings.HasPrefix(it.Fp, "AtStep") {
		fp = "(Some (" + it.Fp + "))"
	}
	return fmt.Sprintf("I %s [%s] %s %v [%s]", kind, strings.Join(it.Ins, "; "), fp, it.Ok, strings.Join(it.obsCoq, "; "))
}

type runner struct {
	broken bool // the ledger was left inconsistent by a failed transaction's partial commit: end the history
	sum    *lib.Summary
	rng    *lib.Rng
	cw     *lib.CaseWriter
	dist   map[string]bool
	chain  *chain
	sh     *shadow
	vm     bool
	hist   []item
}

func (r *runner) fail(key, what string, it item) {
	r.sum.Fail(key, what, map[string]any{
		"item": it, "source": it.P.source(), "engine": map[bool]string{false: "interpreter", true: "vm"}[r.vm],
		"history_before": r.hist,
		"note":           "trace = program logs (L n; 999 = END marker, last statement of the program) and ledger SetValue calls (W account|register key hex) in the order they happened"})
}

// plan builds the model program of p on the shadow (which is left at the end-of-program state)
func (r *runner) plan(p *Prog, g *gen, n1, n2 int, withFlush bool) (ins []string, failed bool) {
	r.sh.begin()
	g.sh = r.sh
	switch p.Kind {
	case "script":
		p.Part1, ins, failed = g.ops(n1, withFlush, 0)
		if !failed {
			ins = append(ins, fmt.Sprintf("ILog %d", endMark))
		}
	case "tx":
		p.Part1, ins, failed = g.ops(n1, withFlush, 0)
		if failed {
			return
		}
		if !p.Pre {
			return append(ins, "IFail"), true
		}
		var i2 []string
		p.Part2, i2, failed = g.ops(n2, withFlush, len(p.Part1))
		ins = append(ins, i2...)
		if failed {
			return
		}
		ins = append(ins, fmt.Sprintf("ILog %d", endMark))
		if !p.Post {
			return append(ins, "IFail"), true
		}
	case "fn":
		oi, _ := r.sh.apply(Op{K: "bump", V: p.FnArg})
		ins = oi
		if p.FnFail {
			return append(ins, "IFail"), true
		}
	}
	return
}

func flushesOf(p Prog) (out []string) {
	for _, o := range append(append([]Op{}, p.Part1...), p.Part2...) {
		if isFlush(o.K) {
			out = append(out, o.K)
		}
	}
	return
}

// run executes one planned program on the chain, performs the direct checks, records the item
func (r *runner) run(p Prog, ins []string, planFailed bool) {
	c := r.chain
	before := c.snap()
	it := item{P: p, Ins: ins, Vm: r.vm, Flushes: flushesOf(p)}
	var res runResult
	if p.Gauge != "" {
		// count the gauge calls of an unlimited run, restore the chain, then fail the k-th call
		c.h.Iface.Programs = nil // both runs start with an empty program cache: same metering sequence
		cnt := c.exec(p, r.vm, p.Gauge, 0)
		c.restore(before)
		k := p.GaugeK
		if cnt.Calls > 0 {
			if k < 0 { // -k-th call from the end (commit region)
				k = cnt.Calls + 1 + k
				if k < 1 {
					k = 1
				}
			} else {
				k = 1 + k%cnt.Calls
			}
		} else {
			k = 1
		}
		it.P.GaugeK = k
		res = c.exec(p, r.vm, p.Gauge, k)
		if res.FailKind != "" && !res.Ok {
			// where did the injected failure strike?
			logs := res.FailLogs
			endSeen := false
			for _, e := range res.Trace {
				if e == fmt.Sprintf("L %d", endMark) {
					endSeen = true
				}
			}
			switch {
			case endSeen && (p.Kind == "script" || p.Kind == "observe"):
				// a script has no commit: after its last statement only the result export remains
				it.Fp = "AtExport"
			case endSeen && commitMeterKinds[res.FailKind]:
				it.Fp = "AtCommitMeter"
			case endSeen:
				it.Fp = "AtCommitUpdates"
			case p.Kind == "fn" && strings.HasPrefix(res.FailKind, "Cadence"):
				// Cadence* memory kinds are metered only while a result is exported (after the commit)
				it.Fp = "AtExport"
			case p.Kind == "fn":
				it.Fp = "AtStep 0"
			default:
				// the failure struck while operation number `logs` was running: before its instructions
				it.Fp = fmt.Sprintf("AtStep %d", stepOfOp(ins, logs))
			}
			r.sum.Count("injected " + p.Gauge + " " + strings.Fields(it.Fp)[0])
		}
	} else {
		res = c.exec(p, r.vm, "", 0)
	}
	it.Ok, it.Class, it.Err = res.Ok, res.Class, res.ErrText
	it.Obs, it.obsCoq = project(res.Trace)
	r.sum.Evaluations++
	r.sum.Count("kind " + p.Kind)
	if !res.Ok {
		r.sum.Count("fail " + res.Class)
	}

	// ---- direct checks
	writes, earlyWrites, endSeen := 0, 0, false
	onlyStored := true
	for _, e := range res.Trace {
		if e[0] == 'W' {
			writes++
			if !endSeen {
				earlyWrites++
			}
			if !strings.HasSuffix(e, "|"+hex.EncodeToString([]byte("stored"))) {
				onlyStored = false
			}
		} else if e == fmt.Sprintf("L %d", endMark) {
			endSeen = true
		}
	}
	flushTag := ""
	if len(it.Flushes) > 0 {
		flushTag = ":flush(" + it.Flushes[0] + ")"
	}
	switch {
	case (res.Class == "CheckerError" || res.Class == "ParseError") && p.Gauge == "":
		r.fail("generated-program-rejected", "the generated program was rejected: "+res.ErrText, it)
	case p.Kind == "script" || p.Kind == "observe":
		if writes > 0 {
			r.fail("script-write"+flushTag, fmt.Sprintf("a script issued %d register writes: trace %v", writes, it.Obs), it)
		}
	case !res.Ok:
		if writes > 0 {
			key := "failed-tx-write" + flushTag
			if flushTag == "" && it.Fp == "AtCommitMeter" && onlyStored {
				key = "failed-tx-write:commit-metering-after-new-account-register"
			}
			if p.Kind == "fn" && it.Fp == "AtExport" {
				key = "failed-call-write:result-export-after-commit"
			}
			r.fail(key, fmt.Sprintf("a failed %s (%s: %s) issued %d register writes: trace %v", p.Kind, res.Class, res.ErrText, writes, it.Obs), it)
			if flushTag == "" && it.Fp != "AtExport" {
				// partial commit: e.g. an account register pointing to a slab that was never written
				r.broken = true
			}
		}
	default:
		if earlyWrites > 0 && p.Kind == "tx" {
			r.fail("success-early-write"+flushTag, fmt.Sprintf("a successful transaction issued %d register writes before its END marker: trace %v", earlyWrites, it.Obs), it)
		}
	}
	// the outcome the shadow expects (deterministic failures only)
	if p.Gauge == "" && res.Ok == planFailed && res.Class != "CheckerError" && res.Class != "ParseError" {
		r.fail("outcome", fmt.Sprintf("program outcome ok=%v but the plan says failed=%v (%s %s)", res.Ok, planFailed, res.Class, res.ErrText), it)
	}

	// ---- bookkeeping: the shadow follows what the property prescribes for a host without
	// rollback of its own: success commits; failure/script leaves the (possibly flushed) state
	if (res.Ok && p.Kind != "script" && p.Kind != "observe") || (p.Kind == "fn" && it.Fp == "AtExport") {
		r.sh.commit()
	}
	if !res.Ok || p.Kind == "script" {
		// the embedding host's own (non-ledger) contract code store is rolled back by the host
		c.restoreCodes(before)
	}
	r.hist = append(r.hist, it)
}

// stepOfOp: index of the first instruction of operation number n (operations are separated by ILog)
func stepOfOp(ins []string, n int) int {
	if n == 0 {
		return 0
	}
	seen := 0
	for i, s := range ins {
		if strings.HasPrefix(s, "ILog ") {
			seen++
			if seen == n {
				return i + 1
			}
		}
	}
	return len(ins)
}

// observe runs the observation script and compares with the shadow's committed state
func (r *runner) observe() {
	if r.broken {
		return
	}
	var obsD []int
	for _, a := range []int{2} {
		if _, ok := r.sh.committed[reg{a, kD}]; ok {
			obsD = append(obsD, a)
		}
	}
	p := Prog{Kind: "observe", Pre: true, Post: true, ObsD: obsD}
	regs := observeRegs(obsD)
	var ins []string
	for _, rg := range regs {
		ins = append(ins, "ILogV "+rg.coq())
	}
	res := r.chain.exec(p, r.vm, "", 0)
	it := item{P: p, Ins: ins, Vm: r.vm, Ok: res.Ok, Class: res.Class, Err: res.ErrText}
	it.Obs, it.obsCoq = project(res.Trace)
	r.sum.Evaluations++
	r.sum.Count("kind observe")
	if !res.Ok {
		r.fail("observe-failed", "the observation script failed: "+res.ErrText, it)
	} else {
		var want []string
		for _, rg := range regs {
			v, ok := r.sh.committed[rg]
			if !ok {
				v = -1
			}
			want = append(want, fmt.Sprintf("L %d", v))
		}
		if strings.Join(want, " ") != strings.Join(it.Obs, " ") {
			r.fail("next-tx-observes", fmt.Sprintf("a later script observes %v but the preceding transactions' effects are %v (cells %v)", it.Obs, want, regs), it)
		}
	}
	r.hist = append(r.hist, it)
}

func (r *runner) finishHistory(label string) {
	parts := make([]string, len(r.hist))
	nontrivial := false
	sig := ""
	for i, it := range r.hist {
		parts[i] = it.coq()
		if it.P.Kind != "observe" {
			sig += fmt.Sprint(it.P)
			if !it.Ok && len(it.Ins) > 2 {
				nontrivial = true
			}
		}
	}
	r.cw.Add("["+strings.Join(parts, ";\n  ")+"]", map[string]any{"label": label, "vm": r.vm, "items": r.hist})
	if nontrivial && !r.dist[sig] {
		r.dist[sig] = true
		r.sum.DistinctNontrivial++
	}
	if len(r.sum.Samples) < 4 && nontrivial {
		r.sum.Sample(map[string]any{"vm": r.vm, "items": r.hist[:min(3, len(r.hist))]})
	}
}

func (r *runner) start(vm bool) bool {
	c, err := newChain(vm)
	if err != nil {
		r.sum.Fail("setup", err.Error(), nil)
		return false
	}
	r.chain, r.sh, r.vm, r.hist, r.broken = c, newShadow(), vm, nil, false
	return true
}

// ------------------------------------------------------------------------------------------

// fixed programs exercising the known defect classes deterministically on every run
func (r *runner) fixedFindings(vm bool) {
	if !r.start(vm) {
		return
	}
	g := &gen{rng: r.rng}
	for _, fk := range flushKinds {
		for _, variant := range []string{"script", "failed-tx", "ok-tx"} {
			p := Prog{Kind: "tx", Pre: true, Post: true}
			ops := []Op{{K: "loadInt", A: 2, C: kC0}, {K: "saveInt", A: 2, C: kC0, V: 5}, {K: fk, A: 2}, {K: "loadInt", A: 2, C: kC0}}
			switch variant {
			case "script":
				p.Kind = "script"
			case "failed-tx":
				ops = append(ops, Op{K: "panic"})
			}
			r.sh.begin()
			g.sh = r.sh
			var ins []string
			failed := false
			for i, o := range ops {
				oi, f := r.sh.apply(o)
				ins = append(ins, oi...)
				if f {
					failed = true
					break
				}
				ins = append(ins, fmt.Sprintf("ILog %d", i))
			}
			p.Part1 = ops
			if !failed {
				if p.Kind == "tx" {
					// (pre-condition, empty execute block)
				}
				ins = append(ins, fmt.Sprintf("ILog %d", endMark))
			}
			r.run(p, ins, failed)
			r.observe()
		}
	}
	// contract-function call failing while its result is exported (after the commit)
	{
		p := Prog{Kind: "fn", Pre: true, Post: true, FnArg: 3, Gauge: "mem", GaugeK: -1}
		r.sh.begin()
		oi, _ := r.sh.apply(Op{K: "bump", V: 3})
		r.run(p, oi, false)
		r.observe()
	}
	r.finishHistory("fixed-findings-flush")
	// commit-time metering after the register of a new account storage map was written
	for _, gk := range []string{"comp", "mem"} {
		if !r.start(vm) {
			return
		}
		p := Prog{Kind: "tx", Pre: true, Post: true, Gauge: gk, GaugeK: -1,
			Part1: []Op{{K: "saveInt", A: 3, C: kC1, V: 8}}}
		r.sh.begin()
		oi, _ := r.sh.apply(p.Part1[0])
		ins := append(oi, "ILog 0", fmt.Sprintf("ILog %d", endMark))
		r.run(p, ins, false)
		r.finishHistory("fixed-findings-commit-metering")
	}
}

func main() {
	flag.Parse()
	if *prop != "C24" {
		fmt.Fprintln(os.Stderr, "unknown prop", *prop)
		os.Exit(2)
	}
	sum := &lib.Summary{}
	rng := lib.NewRng(*seed)
	cw := &lib.CaseWriter{
		Dir: *dir, Prefix: "cases_C24",
		Header:   "From CV Require Import C24.Cases.",
		ElemType: "list item",
		CheckFn:  "check_case",
		PerFile:  6,
	}
	nhist := 60
	if *tier == "thorough" {
		nhist = 1000
		cw.PerFile = 25
	}
	sum.Rule = "one case = one chain history of 6-10 scripts / transactions / contract-function calls, each followed by an observation script " +
		"(17-19 cells); programs mutate storage by save/load, array append and dictionary insert through references, contract field updates, " +
		"capability issue/publish, contract deployment, and fail by panic, assert, pre-/post-condition, nil unwrap, force cast, type-mismatching load, " +
		"index out of bounds, overflow, division by zero, overwrite, duplicate publish/deploy, or a computation/memory gauge failing its k-th call " +
		"(k uniform over the run, or among the last calls = inside commit); a third of the histories use storage.used/.capacity/account creation. " +
		"Each history runs with the interpreter and with the VM. non-trivial = history containing a failing program that had already mutated storage; " +
		"distinct = distinct program lists"
	r := &runner{sum: sum, rng: rng, cw: cw, dist: map[string]bool{}}

	for _, vm := range []bool{false, true} {
		r.fixedFindings(vm)
	}

	for h := 0; h < nhist; h++ {
		hseed := rng.U64()
		withFlush := h%3 == 2
		for _, vm := range []bool{false, true} {
			if !r.start(vm) {
				break
			}
			hr := lib.NewRng(hseed) // same history for both engines
			g := &gen{rng: hr}
			n := 6 + hr.Intn(5)
			for i := 0; i < n; i++ {
				p := Prog{Pre: true, Post: true}
				switch k := hr.Intn(100); {
				case k < 25:
					p.Kind = "script"
				case k < 90:
					p.Kind = "tx"
					p.Pre = !hr.Chance(1, 12)
					p.Post = !hr.Chance(1, 10)
				default:
					p.Kind = "fn"
					p.FnArg = int64(1 + hr.Intn(9))
					p.FnFail = hr.Chance(1, 3)
				}
				if !withFlush && hr.Chance(1, 3) {
					p.Gauge = lib.Pick(hr, []string{"mem", "comp"})
					if hr.Chance(1, 2) {
						p.GaugeK = -(1 + hr.Intn(8)) // among the last calls: commit region
					} else {
						p.GaugeK = hr.Intn(1 << 20)
					}
				}
				ins, failed := r.plan(&p, g, hr.Intn(5), hr.Intn(4), withFlush)
				r.run(p, ins, failed)
				r.observe()
				if r.broken {
					break
				}
			}
			r.finishHistory("generated")
		}
	}
	cw.Close()
	sum.CaseFiles = cw.Files
	sum.Write(*dir)
}
