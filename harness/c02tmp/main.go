package main

import (
	"fmt"

	"cvh/lib"

	"github.com/onflow/cadence/common"
)

const item = `
access(all) contract Item {
    access(all) resource NFT {
        access(all) event ResourceDestroyed(uuid: UInt64 = self.uuid, id: Int = self.id)
        access(all) let id: Int
        init(_ id: Int) { self.id = id }
    }
    access(all) fun mk(_ id: Int): @NFT { return <- create NFT(id) }
}`

const txA1 = `
import Item from 0x1
transaction {
  prepare(acct: auth(Storage) &Account) {
    let a: @[AnyResource] <- [<-Item.mk(1), <-Item.mk(2), <-Item.mk(3)]
    acct.storage.save(<-a, to: /storage/arr)
  }
}`
const txA2 = `
transaction {
  prepare(acct: auth(Storage) &Account) {
    let a <- acct.storage.load<@[AnyResource]>(from: /storage/arr)!
    destroy a
  }
}`
const txA2imp = `
import Item from 0x1
transaction {
  prepare(acct: auth(Storage) &Account) {
    let a <- acct.storage.load<@[AnyResource]>(from: /storage/arr)!
    destroy a
  }
}`

// (b) transaction field force-assign onto occupied
const txB = `
import Item from 0x1
transaction {
  var r: @Item.NFT?
  prepare(acct: auth(Storage) &Account) {
    self.r <- Item.mk(10)
    self.r <-! Item.mk(11)
    log("after force assign")
  }
  execute {
    destroy self.r
  }
}`
const txB2 = `
import Item from 0x1
transaction {
  var r: @Item.NFT?
  prepare(acct: auth(Storage) &Account) {
    self.r <- Item.mk(10)
  }
  execute {
    self.r <-! Item.mk(11)
    log("after force assign")
    log(self.r?.id)
    destroy self.r
  }
}`

func main() {
	addr := common.MustBytesToAddress([]byte{1})
	run := func(name string, vm bool, txs ...string) {
		h := lib.NewHost()
		if o := h.Deploy(addr, "Item", item, vm); o.Err != nil {
			fmt.Println("deploy", o.Err)
		}
		for i, src := range txs {
			o := h.RunTx(src, nil, []common.Address{addr}, vm)
			e := ""
			if o.Err != nil {
				e = o.Err.Error()
				if len(e) > 300 {
					e = e[:300]
				}
			}
			fmt.Printf("%s vm=%v tx%d uuid=%d err=%q logs=%v\n", name, vm, i, h.UUID, e, o.Logs)
			for _, ev := range o.Events {
				fmt.Println("    ", ev.String())
			}
		}
	}
	for _, vm := range []bool{false, true} {
		run("B-execute", vm, txB2)
	}
}
