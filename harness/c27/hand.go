package main

// Fixed end-to-end scenarios run first on every run: the refutation witnesses of
// Properties/C27.v replayed on the real validator and real storage.

import "github.com/onflow/cadence/common"

func handScenarios() []*scenario {
	return []*scenario{
		{
			Label: []string{lblIfaceConf}, Hand: true, KnownKey: "accepted-unusable:" + lblIfaceConf,
			OldSrc: `access(all) contract C {
    access(all) struct interface J { access(all) let a: Int }
    access(all) struct interface I: J {}
    access(all) struct S: I { access(all) let a: Int; init() { self.a = 7 } }
    access(all) fun mk(): S { return S() }
}`,
			NewSrc: `access(all) contract C {
    access(all) struct interface J { access(all) let a: Int }
    access(all) struct interface I {}
    access(all) struct S: I { access(all) let a: Int; init() { self.a = 7 } }
    access(all) fun mk(): S { return S() }
}`,
			Setup: `import C from 0x1
transaction { prepare(acct: auth(Storage) &Account) { let xs: [{C.J}] = [C.mk()]; acct.storage.save(xs, to: /storage/xs) } }`,
			Roots: []root{{Name: "xs"}},
			Scripts: []string{`import C from 0x1
access(all) fun main(): [String] {
    let xs = getAuthAccount<auth(Storage) &Account>(0x1).storage.borrow<&[{C.J}]>(from: /storage/xs)!
    return [xs[0].a.toString()]
}`},
			Expected: [][]string{{"7"}},
			HandVals: []string{"(VArr [(VComp [$C$;$S$] [$a$] [(VPrim 1)])])"},
		},
		{
			Label: []string{lblEntRemove}, Hand: true, KnownKey: "accepted-unusable:" + lblEntRemove,
			OldSrc: `access(all) contract C {
    access(all) entitlement E
    access(all) resource R { access(E) fun f(): Int { return 1 } }
    access(all) fun mk(): @R { return <- create R() }
}`,
			NewSrc: `access(all) contract C {
    access(all) resource R { access(all) fun f(): Int { return 1 } }
    access(all) fun mk(): @R { return <- create R() }
}`,
			Setup: `import C from 0x1
transaction { prepare(acct: auth(Storage, Capabilities) &Account) {
    acct.storage.save(<- C.mk(), to: /storage/r)
    acct.storage.save([Type<auth(C.E) &C.R>()], to: /storage/tys)
    acct.storage.save([acct.capabilities.storage.issue<auth(C.E) &C.R>(/storage/r)], to: /storage/caps)
} }`,
			Roots: []root{{Name: "tys"}, {Name: "caps"}},
			Scripts: []string{`access(all) fun main(): [String] {
    let tys = getAuthAccount<auth(Storage) &Account>(0x1).storage.copy<[Type]>(from: /storage/tys)!
    return [tys[0].identifier]
}`, `access(all) fun main(): [String] {
    let caps = getAuthAccount<auth(Storage) &Account>(0x1).storage.copy<[Capability]>(from: /storage/caps)!
    return [caps[0].getType().identifier]
}`},
			Expected: [][]string{{""}, {""}},
			HandVals: []string{
				"(VArr [(VType (SRef (SConj [TLocal [$C$;$E$]]) (SNom (TLocal [$C$;$R$]))))])",
				"(VArr [(VCap (SRef (SConj [TLocal [$C$;$E$]]) (SNom (TLocal [$C$;$R$]))))])",
			},
		},
		{
			Label: []string{"import-captured-by-nested-declaration"}, Hand: true,
			KnownKey: "accepted-unusable:import-captured-by-nested-declaration",
			Pre:      map[string]string{"S": `access(all) contract S { access(all) fun hello(): String { return "contract S" } }`},
			PreAddr:  map[string]common.Address{"S": addrFoo},
			OldSrc: `import S from 0x2
access(all) contract C {
    access(all) var cap: Capability<&S>?
    access(all) fun set(_ c: Capability<&S>) { self.cap = c }
    init() { self.cap = nil }
}`,
			NewSrc: `access(all) contract C {
    access(all) struct S { access(all) var b: Int; init() { self.b = 42 } }
    access(all) var cap: Capability<&C.S>?
    init() { self.cap = nil }
}`,
			Setup: `import S from 0x2
import C from 0x1
transaction { prepare(acct: auth(Capabilities) &Account) { C.set(acct.capabilities.storage.issue<&S>(/storage/x)) } }`,
			Roots: []root{{Name: "contract"}},
			Scripts: []string{`import C from 0x1
access(all) fun main(): [String] {
    let c = C.cap!
    return [c.getType().identifier]
}`},
			Expected:  [][]string{{""}},
			HandVals:  []string{"(VComp [$C$] [$cap$] [(VSome (VCap (SRef SUnauth (SNom (TExt (2,$S$) [])))))])"},
			HandNames: []string{"cap", "S"},
		},
		{
			Label: []string{lblPragma + ":struct"}, Hand: true, ByDesign: true,
			OldSrc: `access(all) contract C {
    access(all) struct S { access(all) var a: Int; init() { self.a = 1 } }
    access(all) fun mk(): S { return S() }
}`,
			NewSrc: `access(all) contract C {
    #removedType(S)
}`,
			Setup: `import C from 0x1
transaction { prepare(acct: auth(Storage) &Account) { acct.storage.save([C.mk()], to: /storage/ss) } }`,
			Roots: []root{{Name: "ss"}},
			Scripts: []string{`access(all) fun main(): [String] {
    let ss = getAuthAccount<auth(Storage) &Account>(0x1).storage.copy<[AnyStruct]>(from: /storage/ss)!
    return [ss.length.toString()]
}`},
			Expected:  [][]string{{"1"}},
			HandVals:  []string{"(VArr [(VComp [$C$;$S$] [$a$] [(VPrim 1)])])"},
			HandNames: []string{"S", "a"},
		},
		{
			// update history: v1 declares S (a: Int) and a value is stored; v2 removes S with
			// #removedType(S); v3 keeps the pragma and declares a different S (a: String).
			// v3 must be rejected (the tombstone outlives the version that removed the type);
			// were it accepted, the stored C.S would be read with the wrong field type.
			Hand: true,
			OldSrc: `access(all) contract C {
    access(all) struct S { access(all) var a: Int; init() { self.a = 1 } }
    access(all) fun mk(): S { return S() }
}`,
			Setup: `import C from 0x1
transaction { prepare(acct: auth(Storage) &Account) { acct.storage.save([C.mk()], to: /storage/ss) } }`,
			Roots: []root{{Name: "ss"}},
			Steps: []*step{
				{
					Label: []string{lblPragma + ":struct"}, ByDesign: true,
					NewSrc: `access(all) contract C {
    #removedType(S)
}`,
					Scripts: []string{`access(all) fun main(): [String] {
    let ss = getAuthAccount<auth(Storage) &Account>(0x1).storage.copy<[AnyStruct]>(from: /storage/ss)!
    return [ss.length.toString()]
}`},
					Expected: [][]string{{"1"}},
				},
				{
					Label: []string{"reintroduce-removed:different-fields"},
					NewSrc: `access(all) contract C {
    #removedType(S)
    access(all) struct S { access(all) var a: String; init() { self.a = "" } }
}`,
					Scripts: []string{`import C from 0x1
access(all) fun main(): [String] {
    let ss = getAuthAccount<auth(Storage) &Account>(0x1).storage.copy<[AnyStruct]>(from: /storage/ss)!
    let s = ss[0] as! C.S
    let a: String = s.a
    return [a]
}`},
					Expected: [][]string{{"1"}},
				},
			},
			HandVals:  []string{"(VArr [(VComp [$C$;$S$] [$a$] [(VPrim 1)])])"},
			HandNames: []string{"S", "a"},
		},
	}
}
