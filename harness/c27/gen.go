package main

// Generated contracts: structure, rendering to Cadence source, random generation and mutation
// for the direct leg (real ContractUpdateValidator on parsed programs vs the Coq model).

import (
	"fmt"
	"regexp"
	"strings"

	"cvh/lib"
)

type gNom struct {
	Path []string // A.B.C
}

func (n gNom) String() string { return strings.Join(n.Path, ".") }

type gTy struct {
	K      string // nom opt var const dict ref inter fun inst
	Nom    gNom
	A, B   *gTy
	Size   int
	Base   int    // 10, 16, 2, 8
	AuthK  string // "", conj, disj, map
	Auth   []gNom
	Inter  []gNom
	View   bool
	List   []*gTy
	Parens bool
}

func (t *gTy) clone() *gTy {
	if t == nil {
		return nil
	}
	c := *t
	c.A, c.B = t.A.clone(), t.B.clone()
	c.Auth = append([]gNom{}, t.Auth...)
	c.Inter = append([]gNom{}, t.Inter...)
	c.List = nil
	for _, x := range t.List {
		c.List = append(c.List, x.clone())
	}
	return &c
}

func nomsString(l []gNom, sep string) string {
	var p []string
	for _, n := range l {
		p = append(p, n.String())
	}
	return strings.Join(p, sep)
}

func (t *gTy) String() string {
	switch t.K {
	case "nom":
		return t.Nom.String()
	case "opt":
		if t.A.K == "ref" || t.A.K == "fun" {
			return "(" + t.A.String() + ")?"
		}
		return t.A.String() + "?"
	case "var":
		return "[" + t.A.String() + "]"
	case "const":
		var sz string
		switch t.Base {
		case 16:
			sz = fmt.Sprintf("0x%x", t.Size)
		case 2:
			sz = fmt.Sprintf("0b%b", t.Size)
		case 8:
			sz = fmt.Sprintf("0o%o", t.Size)
		default:
			sz = fmt.Sprint(t.Size)
		}
		return "[" + t.A.String() + "; " + sz + "]"
	case "dict":
		return "{" + t.A.String() + ": " + t.B.String() + "}"
	case "ref":
		switch t.AuthK {
		case "conj":
			return "auth(" + nomsString(t.Auth, ", ") + ") &" + t.A.String()
		case "disj":
			return "auth(" + nomsString(t.Auth, " | ") + ") &" + t.A.String()
		case "map":
			return "auth(mapping " + t.Auth[0].String() + ") &" + t.A.String()
		}
		return "&" + t.A.String()
	case "inter":
		return "{" + nomsString(t.Inter, ", ") + "}"
	case "fun":
		var ps []string
		for _, p := range t.List {
			ps = append(ps, p.String())
		}
		v := ""
		if t.View {
			v = "view "
		}
		return v + "fun(" + strings.Join(ps, ", ") + "): " + t.A.String()
	case "inst":
		var ps []string
		for _, p := range t.List {
			ps = append(ps, p.String())
		}
		return t.A.String() + "<" + strings.Join(ps, ", ") + ">"
	}
	panic(t.K)
}

type gField struct {
	Name   string
	Ty     *gTy
	Access string
	Var    bool
	Res    bool // write the annotation as @T
}

type gDecl struct {
	Kind    string // struct resource enum event "struct interface" "resource interface" attachment entitlement "entitlement mapping" contract "contract interface"
	Name    string
	Access  string
	Fields  []*gField
	Nested  []*gDecl
	Confs   []gNom
	Cases   []string
	Pragmas []string
	Base    gNom
}

func (d *gDecl) clone() *gDecl {
	c := *d
	c.Fields = nil
	for _, f := range d.Fields {
		g := *f
		g.Ty = f.Ty.clone()
		c.Fields = append(c.Fields, &g)
	}
	c.Nested = nil
	for _, n := range d.Nested {
		c.Nested = append(c.Nested, n.clone())
	}
	c.Confs = append([]gNom{}, d.Confs...)
	c.Cases = append([]string{}, d.Cases...)
	c.Pragmas = append([]string{}, d.Pragmas...)
	return &c
}

type gProgram struct {
	Imports []string // source lines
	Root    *gDecl
}

func (p *gProgram) clone() *gProgram {
	return &gProgram{Imports: append([]string{}, p.Imports...), Root: p.Root.clone()}
}

// render without function bodies (enough for the parser and the validator)
func (d *gDecl) render(sb *strings.Builder, ind string) {
	acc := d.Access
	if acc == "" {
		acc = "access(all)"
	}
	switch d.Kind {
	case "entitlement":
		fmt.Fprintf(sb, "%s%s entitlement %s\n", ind, acc, d.Name)
		return
	case "entitlement mapping":
		fmt.Fprintf(sb, "%s%s entitlement mapping %s {}\n", ind, acc, d.Name)
		return
	case "event":
		var ps []string
		for _, f := range d.Fields {
			ps = append(ps, f.Name+": "+f.Ty.String())
		}
		fmt.Fprintf(sb, "%s%s event %s(%s)\n", ind, acc, d.Name, strings.Join(ps, ", "))
		return
	}
	head := fmt.Sprintf("%s%s %s %s", ind, acc, d.Kind, d.Name)
	if d.Kind == "attachment" {
		head += " for " + d.Base.String()
	}
	if len(d.Confs) > 0 {
		head += ": " + nomsString(d.Confs, ", ")
	}
	sb.WriteString(head + " {\n")
	in2 := ind + "    "
	for _, p := range d.Pragmas {
		sb.WriteString(in2 + p + "\n")
	}
	for _, c := range d.Cases {
		fmt.Fprintf(sb, "%saccess(all) case %s\n", in2, c)
	}
	for _, f := range d.Fields {
		fa := f.Access
		if fa == "" {
			fa = "access(all)"
		}
		kw := "let"
		if f.Var {
			kw = "var"
		}
		at := ""
		if f.Res {
			at = "@"
		}
		fmt.Fprintf(sb, "%s%s %s %s: %s%s\n", in2, fa, kw, f.Name, at, f.Ty.String())
	}
	for _, n := range d.Nested {
		n.render(sb, in2)
	}
	sb.WriteString(ind + "}\n")
}

func (p *gProgram) Source() string {
	var sb strings.Builder
	for _, i := range p.Imports {
		sb.WriteString(i + "\n")
	}
	p.Root.render(&sb, "")
	return sb.String()
}

// ---------------------------------------------------------------- random generation (direct leg)

var declNames = []string{"A", "B", "D", "E", "G", "H", "I", "J", "K", "M", "N", "R", "S", "T", "U", "X"}
var fieldNames = []string{"a", "b", "c", "d", "e", "f", "g", "h"}
var caseNames = []string{"p", "q", "r", "s", "t", "u"}
var builtinPool = []string{"Int", "String", "Bool", "UInt8", "UInt64", "Address", "AnyStruct", "AnyResource", "Character", "Int8", "UFix64", "Type", "Capability", "Integer"}
var importLines = []string{
	"import Foo from 0x2",
	"import Foo from 0x3",
	"import Foo as F from 0x2",
	"import Bar as F from 0x2",
	"import Bar, Baz from 0x3",
	"import Bar from 0x2",
	"import S from 0x2",
	"import T as S from 0x2",
	"import 0x4",
	"import 0x5",
	"import Crypto",
	"import I, J from 0x2",
}

// account contract names for wildcard imports (AccountContractNamesProvider)
var accountNames = map[uint64][]string{4: {"W", "S", "Foo"}, 5: {"V", "W"}}

var kindPool = []string{"struct", "struct", "struct", "resource", "resource", "enum", "event",
	"struct interface", "struct interface", "resource interface", "attachment", "entitlement", "entitlement mapping"}

var removedPragmaRE = regexp.MustCompile(`^#removedType\(([A-Za-z][A-Za-z0-9_]*)\)$`)

type dgen struct {
	r    *lib.Rng
	root string
}

// names usable as type heads in the program: nested decl names, import names, root
func (g *dgen) nomPool(p *gProgram) [][]string {
	var pool [][]string
	for _, n := range p.Root.Nested {
		pool = append(pool, []string{n.Name}, []string{p.Root.Name, n.Name})
		for _, m := range n.Nested {
			pool = append(pool, []string{m.Name}, []string{n.Name, m.Name}, []string{p.Root.Name, n.Name, m.Name})
		}
	}
	pool = append(pool, []string{p.Root.Name}, []string{"Foo", "T"}, []string{"F", "T"}, []string{"Bar", "T", "U"},
		[]string{"Foo"}, []string{"S"}, []string{"W"}, []string{"Other", "S"}, []string{"Crypto", "KeyList"})
	return pool
}

func (g *dgen) nom(p *gProgram) gNom {
	if g.r.Chance(2, 5) {
		return gNom{[]string{lib.Pick(g.r, builtinPool)}}
	}
	return gNom{append([]string{}, lib.Pick(g.r, g.nomPool(p))...)}
}

func (g *dgen) ty(p *gProgram, depth int) *gTy {
	k := g.r.Intn(20)
	if depth <= 0 && k >= 9 {
		k = g.r.Intn(9)
	}
	switch {
	case k < 9:
		return &gTy{K: "nom", Nom: g.nom(p)}
	case k < 11:
		return &gTy{K: "opt", A: g.ty(p, depth-1)}
	case k < 13:
		return &gTy{K: "var", A: g.ty(p, depth-1)}
	case k < 14:
		return &gTy{K: "const", A: g.ty(p, depth-1), Size: lib.Pick(g.r, []int{0, 1, 2, 3, 10, 16}), Base: lib.Pick(g.r, []int{10, 10, 10, 16, 2, 8})}
	case k < 15:
		return &gTy{K: "dict", A: g.ty(p, depth-1), B: g.ty(p, depth-1)}
	case k < 16:
		t := &gTy{K: "ref", A: g.ty(p, 0)}
		switch g.r.Intn(5) {
		case 1:
			t.AuthK = "conj"
			for i := 0; i <= g.r.Intn(3); i++ {
				t.Auth = append(t.Auth, g.nom(p))
			}
		case 2:
			t.AuthK = "disj"
			for i := 0; i < 2+g.r.Intn(2); i++ {
				t.Auth = append(t.Auth, g.nom(p))
			}
		case 3:
			t.AuthK = "map"
			t.Auth = []gNom{g.nom(p)}
		}
		return t
	case k < 18:
		t := &gTy{K: "inter"}
		for i := 0; i <= g.r.Intn(3); i++ {
			t.Inter = append(t.Inter, g.nom(p))
		}
		return t
	case k < 19:
		t := &gTy{K: "fun", View: g.r.Chance(1, 3), A: g.ty(p, 0)}
		for i := 0; i < g.r.Intn(3); i++ {
			t.List = append(t.List, g.ty(p, depth-1))
		}
		return t
	default:
		t := &gTy{K: "inst", A: &gTy{K: "nom", Nom: gNom{[]string{lib.Pick(g.r, []string{"Capability", "Capability", "InclusiveRange", "Foo"})}}}}
		for i := 0; i <= g.r.Intn(2); i++ {
			t.List = append(t.List, g.ty(p, depth-1))
		}
		return t
	}
}

func (g *dgen) field(p *gProgram, used map[string]bool) *gField {
	name := lib.Pick(g.r, fieldNames)
	for i := 0; used[name] && i < 10 && !g.r.Chance(1, 30); i++ {
		name = lib.Pick(g.r, fieldNames)
	}
	used[name] = true
	return &gField{Name: name, Ty: g.ty(p, 2), Var: g.r.Bool(), Res: g.r.Chance(1, 8),
		Access: lib.Pick(g.r, []string{"", "", "access(self)", "access(contract)", "access(account)"})}
}

func (g *dgen) decl(p *gProgram, used map[string]bool, depth int) *gDecl {
	name := lib.Pick(g.r, declNames)
	for i := 0; used[name] && i < 10 && !g.r.Chance(1, 40); i++ {
		name = lib.Pick(g.r, declNames)
	}
	used[name] = true
	d := &gDecl{Kind: lib.Pick(g.r, kindPool), Name: name}
	g.fill(p, d, depth)
	return d
}

func (g *dgen) fill(p *gProgram, d *gDecl, depth int) {
	switch d.Kind {
	case "entitlement", "entitlement mapping":
		return
	case "enum":
		d.Confs = []gNom{{[]string{lib.Pick(g.r, []string{"UInt8", "UInt8", "Int", "UInt64"})}}}
		n := 1 + g.r.Intn(4)
		for i := 0; i < n; i++ {
			d.Cases = append(d.Cases, caseNames[i])
		}
		return
	case "attachment":
		d.Base = g.nom(p)
	}
	fu := map[string]bool{}
	for i := 0; i < g.r.Intn(4); i++ {
		d.Fields = append(d.Fields, g.field(p, fu))
	}
	if d.Kind != "event" {
		for i := 0; i < g.r.Intn(3); i++ {
			if g.r.Chance(2, 3) {
				d.Confs = append(d.Confs, g.nom(p))
			}
		}
		if g.r.Chance(1, 12) {
			d.Cases = append(d.Cases, caseNames[0], caseNames[1])
		}
		if depth > 0 && g.r.Chance(1, 6) {
			nu := map[string]bool{}
			for i := 0; i <= g.r.Intn(2); i++ {
				d.Nested = append(d.Nested, g.decl(p, nu, depth-1))
			}
		}
		if g.r.Chance(1, 10) {
			d.Pragmas = append(d.Pragmas, g.pragma(p))
		}
	}
}

func (g *dgen) pragma(p *gProgram) string {
	name := lib.Pick(g.r, declNames)
	if len(p.Root.Nested) > 0 && g.r.Bool() {
		name = lib.Pick(g.r, p.Root.Nested).Name
	}
	switch g.r.Intn(12) {
	case 0:
		return "#removedType(" + name + ", " + lib.Pick(g.r, declNames) + ")"
	case 1:
		return "#removedType()"
	case 2:
		return "#removedType(\"" + name + "\")"
	case 3:
		return "#removedType(" + p.Root.Name + "." + name + ")"
	case 4:
		return "#somethingElse(" + name + ")"
	case 5:
		return "#removedType"
	default:
		return "#removedType(" + name + ")"
	}
}

func (g *dgen) program() *gProgram {
	p := &gProgram{Root: &gDecl{Kind: "contract", Name: lib.Pick(g.r, []string{"C", "C", "C", "Test"})}}
	if g.r.Chance(1, 8) {
		p.Root.Kind = "contract interface"
	}
	for i := 0; i < g.r.Intn(3); i++ {
		p.Imports = append(p.Imports, lib.Pick(g.r, importLines))
	}
	used := map[string]bool{}
	n := 1 + g.r.Intn(5)
	for i := 0; i < n; i++ {
		p.Root.Nested = append(p.Root.Nested, g.decl(p, used, 1))
	}
	// second pass so that field types can mention all nested declarations
	fu := map[string]bool{}
	for i := 0; i < g.r.Intn(4); i++ {
		p.Root.Fields = append(p.Root.Fields, g.field(p, fu))
	}
	for _, d := range p.Root.Nested {
		for _, f := range d.Fields {
			if g.r.Chance(1, 2) {
				f.Ty = g.ty(p, 2)
			}
		}
	}
	if g.r.Chance(1, 3) {
		p.Root.Pragmas = append(p.Root.Pragmas, g.pragma(p))
	}
	if g.r.Chance(1, 10) {
		p.Root.Confs = append(p.Root.Confs, g.nom(p))
	}
	return p
}

// ---------------------------------------------------------------- mutations

func (g *dgen) pickDecl(p *gProgram) *gDecl {
	var all []*gDecl
	all = append(all, p.Root, p.Root)
	for _, n := range p.Root.Nested {
		all = append(all, n, n)
		for _, m := range n.Nested {
			all = append(all, m)
		}
	}
	return lib.Pick(g.r, all)
}

func (g *dgen) tweakNom(p *gProgram, n gNom) gNom {
	path := append([]string{}, n.Path...)
	switch g.r.Intn(6) {
	case 0: // qualify with the root name
		return gNom{append([]string{p.Root.Name}, path...)}
	case 1: // drop the first component
		if len(path) > 1 {
			return gNom{path[1:]}
		}
		return gNom{append([]string{p.Root.Name}, path...)}
	case 2: // qualify with something else
		return gNom{append([]string{lib.Pick(g.r, []string{"Foo", "F", "Other", "S"})}, path...)}
	case 3: // replace the last component
		path[len(path)-1] = lib.Pick(g.r, declNames)
		return gNom{path}
	case 4: // replace the first component
		path[0] = lib.Pick(g.r, []string{p.Root.Name, "Foo", "F", "S"})
		return gNom{path}
	}
	return g.nom(p)
}

func (g *dgen) tweakNoms(p *gProgram, l []gNom) []gNom {
	l = append([]gNom{}, l...)
	switch {
	case len(l) == 0 || g.r.Chance(1, 5):
		return append(l, g.nom(p))
	case g.r.Chance(1, 4):
		i := g.r.Intn(len(l))
		return append(l[:i], l[i+1:]...)
	case g.r.Chance(1, 3) && len(l) > 1:
		i := g.r.Intn(len(l) - 1)
		l[i], l[i+1] = l[i+1], l[i]
		return l
	default:
		i := g.r.Intn(len(l))
		l[i] = g.tweakNom(p, l[i])
		return l
	}
}

// tweakTy makes a small change somewhere in a type (or none at the chosen spot)
func (g *dgen) tweakTy(p *gProgram, t *gTy) *gTy {
	t = t.clone()
	// descend with some probability
	if t.A != nil && g.r.Chance(1, 2) {
		t.A = g.tweakTy(p, t.A)
		return t
	}
	if t.B != nil && g.r.Chance(1, 2) {
		t.B = g.tweakTy(p, t.B)
		return t
	}
	if len(t.List) > 0 && g.r.Chance(1, 2) {
		i := g.r.Intn(len(t.List))
		t.List[i] = g.tweakTy(p, t.List[i])
		return t
	}
	switch t.K {
	case "nom":
		if g.r.Chance(1, 4) {
			return &gTy{K: "opt", A: t}
		}
		t.Nom = g.tweakNom(p, t.Nom)
	case "opt":
		if g.r.Bool() {
			return t.A // only the optional-ness differs
		}
		return &gTy{K: "opt", A: t}
	case "var":
		if g.r.Bool() {
			return &gTy{K: "const", A: t.A, Size: 2, Base: 10}
		}
		return t.A
	case "const":
		switch g.r.Intn(3) {
		case 0:
			t.Size++
		case 1:
			t.Base = lib.Pick(g.r, []int{10, 16, 2, 8})
		default:
			return &gTy{K: "var", A: t.A}
		}
	case "dict":
		t.A, t.B = t.B, t.A
	case "ref":
		switch g.r.Intn(4) {
		case 0:
			t.AuthK, t.Auth = "", nil
		case 1:
			if len(t.Auth) > 0 {
				t.Auth = g.tweakNoms(p, t.Auth)
				if len(t.Auth) == 0 {
					t.AuthK = ""
				}
			} else {
				t.AuthK, t.Auth = "conj", []gNom{g.nom(p)}
			}
		case 2:
			if t.AuthK == "conj" && len(t.Auth) > 1 {
				t.AuthK = "disj"
			} else if t.AuthK == "disj" {
				t.AuthK = "conj"
			} else {
				t.AuthK, t.Auth = "map", []gNom{g.nom(p)}
			}
		default:
			t.A = g.tweakTy(p, t.A)
		}
	case "inter":
		t.Inter = g.tweakNoms(p, t.Inter)
		if len(t.Inter) == 0 {
			t.Inter = []gNom{g.nom(p)}
		}
	case "fun":
		switch g.r.Intn(3) {
		case 0:
			t.View = !t.View
		case 1:
			t.List = append(t.List, g.ty(p, 0))
		default:
			if len(t.List) > 0 {
				t.List = t.List[1:]
			} else {
				t.A = g.tweakTy(p, t.A)
			}
		}
	case "inst":
		switch g.r.Intn(3) {
		case 0:
			t.List = append(t.List, g.ty(p, 0))
		case 1:
			if len(t.List) > 1 {
				t.List = t.List[1:]
			} else {
				t.A = g.tweakTy(p, t.A)
			}
		default:
			return t.A // instantiation vs nominal
		}
	}
	return t
}

// mutate applies one mutation and returns its label
func (g *dgen) mutate(p *gProgram) string {
	d := g.pickDecl(p)
	switch g.r.Intn(33) {
	case 0:
		fu := map[string]bool{}
		for _, f := range d.Fields {
			fu[f.Name] = true
		}
		f := g.field(p, fu)
		i := g.r.Intn(len(d.Fields) + 1)
		d.Fields = append(d.Fields[:i], append([]*gField{f}, d.Fields[i:]...)...)
		return "field-add"
	case 1:
		if len(d.Fields) > 0 {
			i := g.r.Intn(len(d.Fields))
			d.Fields = append(d.Fields[:i], d.Fields[i+1:]...)
			return "field-remove"
		}
	case 2, 3, 4, 5:
		if len(d.Fields) > 0 {
			f := lib.Pick(g.r, d.Fields)
			f.Ty = g.tweakTy(p, f.Ty)
			return "field-retype-tweak"
		}
	case 6:
		if len(d.Fields) > 0 {
			lib.Pick(g.r, d.Fields).Ty = g.ty(p, 2)
			return "field-retype-fresh"
		}
	case 7:
		if len(d.Fields) > 1 {
			i := g.r.Intn(len(d.Fields) - 1)
			d.Fields[i], d.Fields[i+1] = d.Fields[i+1], d.Fields[i]
			return "field-reorder"
		}
	case 8:
		if len(d.Fields) > 0 {
			lib.Pick(g.r, d.Fields).Name = lib.Pick(g.r, fieldNames)
			return "field-rename"
		}
	case 9:
		if len(d.Fields) > 0 {
			f := lib.Pick(g.r, d.Fields)
			f.Access = lib.Pick(g.r, []string{"", "access(self)", "access(contract)"})
			f.Var = !f.Var
			f.Res = g.r.Chance(1, 4)
			return "field-access-mutability"
		}
	case 10:
		if d.Kind == "contract" || d.Kind == "contract interface" || g.r.Chance(1, 3) {
			used := map[string]bool{}
			for _, n := range d.Nested {
				used[n.Name] = true
			}
			n := g.decl(p, used, 0)
			i := g.r.Intn(len(d.Nested) + 1)
			d.Nested = append(d.Nested[:i], append([]*gDecl{n}, d.Nested[i:]...)...)
			return "nested-add"
		}
	case 11, 12:
		if len(d.Nested) > 0 {
			i := g.r.Intn(len(d.Nested))
			name := d.Nested[i].Name
			d.Nested = append(d.Nested[:i], d.Nested[i+1:]...)
			if g.r.Bool() {
				d.Pragmas = append(d.Pragmas, "#removedType("+name+")")
				return "nested-remove-with-pragma"
			}
			return "nested-remove"
		}
	case 13, 14:
		if len(d.Nested) > 0 {
			n := lib.Pick(g.r, d.Nested)
			old := n.Kind
			n.Kind = lib.Pick(g.r, kindPool)
			if n.Kind == "attachment" && len(n.Base.Path) == 0 {
				n.Base = g.nom(p)
			}
			if n.Kind == "enum" && len(n.Cases) == 0 {
				n.Cases = []string{"p"}
			}
			return "nested-kind-change:" + old + "->" + n.Kind
		}
	case 15:
		if len(d.Nested) > 0 {
			lib.Pick(g.r, d.Nested).Name = lib.Pick(g.r, declNames)
			return "nested-rename"
		}
	case 16:
		if len(d.Nested) > 1 {
			i := g.r.Intn(len(d.Nested) - 1)
			d.Nested[i], d.Nested[i+1] = d.Nested[i+1], d.Nested[i]
			return "nested-reorder"
		}
	case 17, 18, 19:
		if d.Kind != "event" && d.Kind != "entitlement" && d.Kind != "entitlement mapping" {
			d.Confs = g.tweakNoms(p, d.Confs)
			return "conformance-change"
		}
	case 20, 21, 22:
		var enums []*gDecl
		for _, n := range p.Root.Nested {
			if len(n.Cases) > 0 {
				enums = append(enums, n)
			}
		}
		if len(enums) > 0 {
			e := lib.Pick(g.r, enums)
			switch g.r.Intn(6) {
			case 0:
				e.Cases = append(e.Cases, lib.Pick(g.r, caseNames)+"x")
				return "enum-case-append"
			case 1:
				e.Cases = append([]string{"front"}, e.Cases...)
				return "enum-case-insert-front"
			case 2:
				e.Cases = e.Cases[:len(e.Cases)-1]
				return "enum-case-remove-last"
			case 3:
				if len(e.Cases) > 1 {
					e.Cases = e.Cases[1:]
					return "enum-case-remove-first"
				}
			case 4:
				if len(e.Cases) > 1 {
					i := g.r.Intn(len(e.Cases) - 1)
					e.Cases[i], e.Cases[i+1] = e.Cases[i+1], e.Cases[i]
					return "enum-case-reorder"
				}
			default:
				e.Cases[g.r.Intn(len(e.Cases))] = "renamed"
				return "enum-case-rename"
			}
		}
	case 23, 24:
		d.Pragmas = append(d.Pragmas, g.pragma(p))
		return "pragma-add"
	case 25:
		if len(d.Pragmas) > 0 {
			i := g.r.Intn(len(d.Pragmas))
			d.Pragmas = append(d.Pragmas[:i], d.Pragmas[i+1:]...)
			return "pragma-remove"
		}
	case 26, 27:
		switch {
		case len(p.Imports) > 0 && g.r.Bool():
			i := g.r.Intn(len(p.Imports))
			p.Imports = append(p.Imports[:i], p.Imports[i+1:]...)
			return "import-remove"
		case len(p.Imports) > 0 && g.r.Bool():
			p.Imports[g.r.Intn(len(p.Imports))] = lib.Pick(g.r, importLines)
			return "import-change"
		default:
			p.Imports = append(p.Imports, lib.Pick(g.r, importLines))
			return "import-add"
		}
	case 28:
		if g.r.Chance(1, 3) {
			if p.Root.Kind == "contract" {
				p.Root.Kind = "contract interface"
			} else {
				p.Root.Kind = "contract"
			}
			return "root-kind-change"
		}
		if g.r.Chance(1, 3) {
			p.Root.Name = lib.Pick(g.r, []string{"C", "Test", "D"})
			return "root-rename"
		}
	case 30, 31, 32:
		// declare (again) a name that a #removedType pragma of the containing declaration covers:
		// the second half of a history "remove S with the pragma, later re-introduce S"
		// prefer a declaration that already carries such a pragma in the old version
		var carriers []*gDecl
		for _, c := range append([]*gDecl{p.Root}, p.Root.Nested...) {
			for _, pr := range c.Pragmas {
				if removedPragmaRE.MatchString(pr) {
					carriers = append(carriers, c)
					break
				}
			}
		}
		if len(carriers) > 0 && g.r.Chance(4, 5) {
			d = lib.Pick(g.r, carriers)
		}
		if len(carriers) > 0 || d.Kind == "contract" || d.Kind == "contract interface" || g.r.Chance(1, 4) {
			var names []string
			for _, pr := range d.Pragmas {
				if m := removedPragmaRE.FindStringSubmatch(pr); m != nil {
					names = append(names, m[1])
				}
			}
			label := "declare-removed-name"
			if len(names) == 0 {
				name := lib.Pick(g.r, declNames)
				d.Pragmas = append(d.Pragmas, "#removedType("+name+")")
				names = []string{name}
				label = "declare-removed-name+pragma"
			}
			name := lib.Pick(g.r, names)
			for _, n := range d.Nested {
				if n.Name == name {
					return "none"
				}
			}
			n := g.decl(p, map[string]bool{}, 0)
			n.Name = name
			i := g.r.Intn(len(d.Nested) + 1)
			d.Nested = append(d.Nested[:i], append([]*gDecl{n}, d.Nested[i:]...)...)
			if g.r.Chance(1, 4) { // ... and try to drop the pragma at the same time
				var ps []string
				for _, pr := range d.Pragmas {
					if pr != "#removedType("+name+")" {
						ps = append(ps, pr)
					}
				}
				d.Pragmas = ps
				label += "+pragma-dropped"
			}
			return label
		}
	case 29:
		for _, n := range p.Root.Nested {
			if n.Kind == "attachment" {
				n.Base = g.tweakNom(p, n.Base)
				return "attachment-base-change"
			}
		}
	}
	return "none"
}
