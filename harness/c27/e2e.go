package main

// Leg B: end-to-end scenarios through the runtime (deploy old, store values, update, inspect).

import (
	"errors"
	"fmt"
	"sort"
	"strings"

	"cvh/lib"

	"github.com/onflow/cadence"
	"github.com/onflow/cadence/common"
	"github.com/onflow/cadence/stdlib"
	ru "github.com/onflow/cadence/test_utils/runtime_utils"
)

var (
	addrC   = common.MustBytesToAddress([]byte{1})
	addrFoo = common.MustBytesToAddress([]byte{2})
	addrLib = common.MustBytesToAddress([]byte{3})
)

const libSource = `access(all) contract Lib {
    access(all) struct T { access(all) var v: Int; init(v: Int) { self.v = v } }
    access(all) struct interface LI {}
}`

// ---------------------------------------------------------------- values

type Val struct {
	K      string // int str bool u8 nil some arr dict comp ext enum cap type
	I      int64
	S      string
	B      bool
	Elems  []*Val
	Keys   []*Val
	Name   string   // comp/enum: declaration name; ext: "Foo.T"
	FNames []string // comp: field names in order
	FVals  []*Val
	STy    *gTy // cap: borrow type (a ref type); type: the type
	Slot   string
}

func nomTy(path ...string) *gTy { return &gTy{K: "nom", Nom: gNom{path}} }
func optTy(t *gTy) *gTy         { return &gTy{K: "opt", A: t} }
func arrTy(t *gTy) *gTy         { return &gTy{K: "var", A: t} }
func dictTy(k, v *gTy) *gTy     { return &gTy{K: "dict", A: k, B: v} }
func interTy(n ...string) *gTy {
	t := &gTy{K: "inter"}
	for _, x := range n {
		t.Inter = append(t.Inter, gNom{[]string{x}})
	}
	return t
}
func refTy(auth []string, t *gTy) *gTy {
	r := &gTy{K: "ref", A: t}
	if len(auth) > 0 {
		r.AuthK = "conj"
		for _, a := range auth {
			r.Auth = append(r.Auth, gNom{[]string{a}})
		}
	}
	return r
}
func capTy(b *gTy) *gTy { return &gTy{K: "inst", A: nomTy("Capability"), List: []*gTy{b}} }

func (p *gProgram) find(name string) *gDecl {
	for _, d := range p.Root.Nested {
		if d.Name == name {
			return d
		}
	}
	return nil
}

// ext qualifies local declaration names with the contract name (for code outside the contract)
func (p *gProgram) ext(t *gTy) *gTy {
	t = t.clone()
	q := func(n gNom) gNom {
		if len(n.Path) == 1 && p.find(n.Path[0]) != nil {
			return gNom{[]string{p.Root.Name, n.Path[0]}}
		}
		return n
	}
	var rec func(t *gTy)
	rec = func(t *gTy) {
		if t == nil {
			return
		}
		t.Nom = q(t.Nom)
		for i := range t.Auth {
			t.Auth[i] = q(t.Auth[i])
		}
		for i := range t.Inter {
			t.Inter[i] = q(t.Inter[i])
		}
		rec(t.A)
		rec(t.B)
		for _, x := range t.List {
			rec(x)
		}
	}
	rec(t)
	return t
}

func (p *gProgram) localName(n gNom) string {
	if len(n.Path) == 1 {
		return n.Path[0]
	}
	if len(n.Path) == 2 && n.Path[0] == p.Root.Name {
		return n.Path[1]
	}
	return ""
}

func (p *gProgram) isRes(t *gTy) bool {
	switch t.K {
	case "nom":
		if d := p.find(p.localName(t.Nom)); d != nil {
			return d.Kind == "resource"
		}
		return t.Nom.String() == "AnyResource"
	case "opt", "var", "const":
		return p.isRes(t.A)
	case "dict":
		return p.isRes(t.B)
	case "inter":
		if d := p.find(p.localName(t.Inter[0])); d != nil {
			return d.Kind == "resource interface"
		}
	}
	return false
}

func (p *gProgram) ann(t *gTy) string {
	if p.isRes(t) {
		return "@" + t.String()
	}
	return t.String()
}

// ---------------------------------------------------------------- full rendering (with bodies)

func (p *gProgram) renderFull(initExpr func(f *gField) string) string {
	var sb strings.Builder
	for _, i := range p.Imports {
		sb.WriteString(i + "\n")
	}
	root := p.Root
	fmt.Fprintf(&sb, "access(all) %s %s {\n", root.Kind, root.Name)
	for _, pr := range root.Pragmas {
		sb.WriteString("    " + pr + "\n")
	}
	for _, d := range root.Nested {
		p.renderDeclFull(&sb, d)
	}
	for _, f := range root.Fields {
		acc := f.Access
		if acc == "" {
			acc = "access(all)"
		}
		fmt.Fprintf(&sb, "    %s var %s: %s\n", acc, f.Name, p.ann(f.Ty))
	}
	if root.Kind == "contract" {
		sb.WriteString("    init() {\n")
		for _, f := range root.Fields {
			op := "="
			if p.isRes(f.Ty) {
				op = "<-"
			}
			fmt.Fprintf(&sb, "        self.%s %s %s\n", f.Name, op, initExpr(f))
		}
		sb.WriteString("    }\n")
	}
	sb.WriteString("}\n")
	return sb.String()
}

func (p *gProgram) renderDeclFull(sb *strings.Builder, d *gDecl) {
	ind := "    "
	switch d.Kind {
	case "entitlement":
		fmt.Fprintf(sb, "%saccess(all) entitlement %s\n", ind, d.Name)
		return
	case "enum":
		fmt.Fprintf(sb, "%saccess(all) enum %s: %s {\n", ind, d.Name, nomsString(d.Confs, ", "))
		for _, c := range d.Cases {
			fmt.Fprintf(sb, "%s    access(all) case %s\n", ind, c)
		}
		sb.WriteString(ind + "}\n")
		return
	}
	head := fmt.Sprintf("%saccess(all) %s %s", ind, d.Kind, d.Name)
	if len(d.Confs) > 0 {
		head += ": " + nomsString(d.Confs, ", ")
	}
	sb.WriteString(head + " {\n")
	for _, pr := range d.Pragmas {
		sb.WriteString(ind + "    " + pr + "\n")
	}
	var params, assigns []string
	for _, f := range d.Fields {
		acc := f.Access
		if acc == "" {
			acc = "access(all)"
		}
		fmt.Fprintf(sb, "%s    %s var %s: %s\n", ind, acc, f.Name, p.ann(f.Ty))
		params = append(params, f.Name+": "+p.ann(f.Ty))
		op := "="
		if p.isRes(f.Ty) {
			op = "<-"
		}
		assigns = append(assigns, fmt.Sprintf("self.%s %s %s", f.Name, op, f.Name))
	}
	if d.Kind == "struct" || d.Kind == "resource" {
		fmt.Fprintf(sb, "%s    init(%s) { %s }\n", ind, strings.Join(params, ", "), strings.Join(assigns, "; "))
	}
	sb.WriteString(ind + "}\n")
	if d.Kind == "resource" {
		var args []string
		for _, f := range d.Fields {
			a := f.Name + ": "
			if p.isRes(f.Ty) {
				a += "<- "
			}
			args = append(args, a+f.Name)
		}
		fmt.Fprintf(sb, "%saccess(all) fun mk%s(%s): @%s { return <- create %s(%s) }\n", ind, d.Name,
			strings.Join(params, ", "), d.Name, d.Name, strings.Join(args, ", "))
	}
}

// defaultExpr: some expression of type t inside the contract (used by the contract initializer
// of the NEW version, which the update never runs but the checker requires)
func (p *gProgram) defaultExpr(t *gTy, depth int) string {
	switch t.K {
	case "opt":
		return "nil"
	case "var":
		return "[]"
	case "const":
		var e []string
		for i := 0; i < t.Size; i++ {
			e = append(e, p.defaultExpr(t.A, depth+1))
		}
		return "[" + strings.Join(e, ", ") + "]"
	case "dict":
		return "{}"
	case "nom":
		switch t.Nom.String() {
		case "Int", "UInt8", "UInt64", "Int8", "Integer":
			return "0"
		case "String":
			return "\"\""
		case "Bool":
			return "false"
		case "AnyStruct":
			return "0"
		case "Type":
			return "Type<Int>()"
		case "Lib.T":
			return "Lib.T(v: 0)"
		}
		d := p.find(p.localName(t.Nom))
		if d == nil || depth > 5 {
			return "panic(\"no default\")"
		}
		switch d.Kind {
		case "enum":
			if len(d.Cases) > 0 {
				return d.Name + "." + d.Cases[0]
			}
		case "struct", "resource":
			var args []string
			for _, f := range d.Fields {
				a := f.Name + ": "
				if p.isRes(f.Ty) {
					a += "<- "
				}
				args = append(args, a+p.defaultExpr(f.Ty, depth+1))
			}
			if d.Kind == "resource" {
				return "create " + d.Name + "(" + strings.Join(args, ", ") + ")"
			}
			return d.Name + "(" + strings.Join(args, ", ") + ")"
		}
	}
	return "panic(\"no default\")"
}

// valueExpr renders a value as an expression. inside=true: within the contract; else in a
// transaction that has `acct` (auth account reference) in scope.
func (p *gProgram) valueExpr(v *Val, inside bool) string {
	q := func(n string) string {
		if inside {
			return n
		}
		return p.Root.Name + "." + n
	}
	switch v.K {
	case "int", "u8":
		return fmt.Sprint(v.I)
	case "str":
		return "\"" + v.S + "\""
	case "bool":
		return fmt.Sprint(v.B)
	case "nil":
		return "nil"
	case "some":
		return p.valueExpr(v.Elems[0], inside)
	case "arr":
		var e []string
		for _, x := range v.Elems {
			e = append(e, p.valueExpr(x, inside))
		}
		return "[" + strings.Join(e, ", ") + "]"
	case "dict":
		var e []string
		for i, x := range v.Elems {
			e = append(e, p.valueExpr(v.Keys[i], inside)+": "+p.valueExpr(x, inside))
		}
		return "{" + strings.Join(e, ", ") + "}"
	case "ext":
		var args []string
		for i, n := range v.FNames {
			args = append(args, n+": "+p.valueExpr(v.FVals[i], inside))
		}
		return v.Name + "(" + strings.Join(args, ", ") + ")"
	case "comp":
		d := p.find(v.Name)
		var args []string
		for i, n := range v.FNames {
			a := n + ": "
			if d.Kind == "resource" && v.FVals[i].K == "comp" {
				a += "<- "
			}
			args = append(args, a+p.valueExpr(v.FVals[i], inside))
		}
		if d.Kind == "resource" {
			if inside {
				return "create " + v.Name + "(" + strings.Join(args, ", ") + ")"
			}
			return p.Root.Name + ".mk" + v.Name + "(" + strings.Join(args, ", ") + ")"
		}
		return q(v.Name) + "(" + strings.Join(args, ", ") + ")"
	case "enum":
		d := p.find(v.Name)
		return q(v.Name) + "." + d.Cases[v.I]
	case "cap":
		return "acct.capabilities.storage.issue<" + p.ext(v.STy).String() + ">(/storage/" + v.Slot + ")"
	case "type":
		return "Type<" + p.ext(v.STy).String() + ">()"
	}
	panic(v.K)
}

// ---------------------------------------------------------------- generation of the old version

type egen struct {
	r *lib.Rng
	p *gProgram
	// names of generated declarations
	structs, resources []string
	resSlots           map[string]string // resource name -> storage slot holding one
	removed            string            // name of the type removed with a pragma (if any)
}

var strPool = []string{"a", "bc", "def", "x", "yz"}

func (g *egen) old() *gProgram {
	p := &gProgram{Root: &gDecl{Kind: "contract", Name: "C"}}
	g.p = p
	add := func(d *gDecl) { p.Root.Nested = append(p.Root.Nested, d) }
	fld := func(n string, t *gTy) *gField { return &gField{Name: n, Ty: t, Var: true} }
	if g.r.Chance(1, 3) {
		p.Imports = append(p.Imports, "import Lib from 0x3")
	}
	add(&gDecl{Kind: "entitlement", Name: "X"})
	if g.r.Bool() {
		add(&gDecl{Kind: "entitlement", Name: "Y"})
	}
	add(&gDecl{Kind: "struct interface", Name: "I0", Fields: []*gField{fld("a", nomTy("Int"))}})
	i1 := &gDecl{Kind: "struct interface", Name: "I1", Fields: []*gField{fld("b", nomTy("String"))}}
	if g.r.Chance(3, 4) {
		i1.Confs = []gNom{{[]string{"I0"}}}
		i1.Fields = append(i1.Fields, fld("a", nomTy("Int")))
	}
	add(i1)
	add(&gDecl{Kind: "resource interface", Name: "RI", Fields: []*gField{fld("a", nomTy("Int"))}})
	e := &gDecl{Kind: "enum", Name: "E", Confs: []gNom{{[]string{"UInt8"}}}}
	for i := 0; i < 2+g.r.Intn(3); i++ {
		e.Cases = append(e.Cases, fmt.Sprintf("c%d", i))
	}
	add(e)
	ns := 2 + g.r.Intn(3)
	for i := 0; i < ns; i++ {
		d := &gDecl{Kind: "struct", Name: fmt.Sprintf("S%d", i)}
		used := map[string]bool{}
		switch g.r.Intn(4) {
		case 0:
			d.Confs = []gNom{{[]string{"I0"}}}
		case 1, 2:
			d.Confs = []gNom{{[]string{"I1"}}}
		}
		if g.r.Chance(1, 6) && len(p.Imports) > 0 {
			d.Confs = append(d.Confs, gNom{[]string{"Lib", "LI"}})
		}
		for _, c := range d.Confs {
			if it := p.find(c.String()); it != nil {
				for _, f := range g.allIfaceFields(it) {
					if !used[f.Name] {
						used[f.Name] = true
						d.Fields = append(d.Fields, fld(f.Name, f.Ty.clone()))
					}
				}
			}
		}
		nf := 1 + g.r.Intn(4)
		for k := 0; k < nf; k++ {
			name := lib.Pick(g.r, []string{"f", "g", "h", "k", "m", "n"})
			if used[name] {
				continue
			}
			used[name] = true
			d.Fields = append(d.Fields, fld(name, g.structFieldTy(i)))
		}
		add(d)
		g.structs = append(g.structs, d.Name)
	}
	// resources
	r1 := &gDecl{Kind: "resource", Name: "R1", Fields: []*gField{fld("v", nomTy("Int")), fld("e", nomTy("E"))}}
	add(r1)
	r0 := &gDecl{Kind: "resource", Name: "R0", Confs: []gNom{{[]string{"RI"}}},
		Fields: []*gField{fld("a", nomTy("Int")), fld("n", nomTy("String")), fld("l", arrTy(nomTy("Int")))}}
	if g.r.Bool() {
		r0.Fields = append(r0.Fields, fld("child", nomTy("R1")))
	}
	add(r0)
	g.resources = []string{"R1", "R0"}
	// contract fields
	nc := 2 + g.r.Intn(4)
	used := map[string]bool{}
	for k := 0; k < nc; k++ {
		name := fmt.Sprintf("cf%d", k)
		used[name] = true
		p.Root.Fields = append(p.Root.Fields, fld(name, g.contractFieldTy()))
	}
	return p
}

func (g *egen) allIfaceFields(it *gDecl) []*gField {
	fs := append([]*gField{}, it.Fields...)
	for _, c := range it.Confs {
		if sup := g.p.find(c.String()); sup != nil {
			fs = append(fs, g.allIfaceFields(sup)...)
		}
	}
	return fs
}

func (g *egen) someStruct(below int) string {
	if below <= 0 {
		return ""
	}
	return fmt.Sprintf("S%d", g.r.Intn(below))
}

func (g *egen) structFieldTy(idx int) *gTy {
	s := g.someStruct(idx)
	for {
		switch g.r.Intn(24) {
		case 0, 1:
			return nomTy("Int")
		case 2:
			return nomTy("String")
		case 3:
			return nomTy("Bool")
		case 4:
			return nomTy("UInt8")
		case 5:
			return optTy(nomTy("Int"))
		case 6:
			return arrTy(nomTy("Int"))
		case 7:
			return dictTy(nomTy("String"), nomTy("Int"))
		case 8, 9:
			return nomTy("E")
		case 10:
			if s != "" {
				return nomTy(s)
			}
		case 11:
			if s != "" {
				return optTy(nomTy(s))
			}
		case 12:
			if s != "" {
				return arrTy(nomTy(s))
			}
		case 13:
			if s != "" {
				return nomTy("C", s)
			}
		case 14:
			return arrTy(interTy("I0"))
		case 15:
			return optTy(interTy("I1"))
		case 16:
			if s != "" {
				return optTy(capTy(refTy(nil, nomTy(s))))
			}
		case 17:
			return optTy(capTy(refTy([]string{"X"}, nomTy("R0"))))
		case 18:
			return optTy(nomTy("Type"))
		case 19:
			return nomTy("AnyStruct")
		case 20:
			return &gTy{K: "const", A: nomTy("Int"), Size: 2, Base: 10}
		case 21:
			return nomTy("Integer")
		case 22:
			return optTy(nomTy("Capability"))
		case 23:
			if len(g.p.Imports) > 0 {
				return nomTy("Lib", "T")
			}
		}
	}
}

func (g *egen) contractFieldTy() *gTy {
	s := g.someStruct(len(g.structs))
	switch g.r.Intn(14) {
	case 0, 1:
		return nomTy(s)
	case 2:
		return arrTy(nomTy(s))
	case 3:
		return dictTy(nomTy("String"), nomTy(s))
	case 4:
		return optTy(nomTy(s))
	case 5:
		return nomTy("E")
	case 6:
		return arrTy(interTy("I0"))
	case 7:
		return optTy(interTy("I1"))
	case 8:
		return nomTy("Int")
	case 9:
		return arrTy(nomTy("E"))
	case 10:
		return nomTy("R0")
	case 11:
		return nomTy("AnyStruct")
	case 12:
		return dictTy(nomTy("Int"), arrTy(nomTy(s)))
	default:
		return nomTy("C", s)
	}
}

// conformsOld: does struct declaration d conform (transitively) to interface `iface` in g.p
func (p *gProgram) supers(name string) []string {
	seen := map[string]bool{}
	var out []string
	var rec func(n string, isIface bool)
	rec = func(n string, isIface bool) {
		d := p.find(n)
		if d == nil {
			return
		}
		for _, c := range d.Confs {
			ln := p.localName(c)
			sd := p.find(ln)
			if sd == nil || !strings.HasSuffix(sd.Kind, "interface") {
				continue
			}
			if !seen[ln] {
				seen[ln] = true
				out = append(out, ln)
				rec(ln, true)
			}
		}
	}
	rec(name, false)
	sort.Strings(out)
	return out
}

func contains(l []string, s string) bool {
	for _, x := range l {
		if x == s {
			return true
		}
	}
	return false
}

// genVal: a value of type t under the old program (inside=true: no capabilities, no Foo values)
func (g *egen) genVal(t *gTy, depth int, inside bool) *Val {
	p := g.p
	switch t.K {
	case "opt":
		if g.r.Chance(1, 4) || depth > 4 {
			return &Val{K: "nil"}
		}
		if x := g.genVal(t.A, depth+1, inside); x != nil {
			return &Val{K: "some", Elems: []*Val{x}}
		}
		return &Val{K: "nil"}
	case "var", "const":
		n := 1 + g.r.Intn(2)
		if t.K == "const" {
			n = t.Size
		}
		v := &Val{K: "arr"}
		for i := 0; i < n; i++ {
			x := g.genVal(t.A, depth+1, inside)
			if x == nil {
				return nil
			}
			v.Elems = append(v.Elems, x)
		}
		return v
	case "dict":
		v := &Val{K: "dict"}
		n := 1 + g.r.Intn(2)
		for i := 0; i < n; i++ {
			if t.A.Nom.String() == "Int" {
				v.Keys = append(v.Keys, &Val{K: "int", I: int64(i + 1)})
			} else {
				v.Keys = append(v.Keys, &Val{K: "str", S: fmt.Sprintf("k%d", i)})
			}
			x := g.genVal(t.B, depth+1, inside)
			if x == nil {
				return nil
			}
			v.Elems = append(v.Elems, x)
		}
		return v
	case "inter":
		want := p.localName(t.Inter[0])
		if depth > 6 {
			return nil
		}
		var cands []string
		for _, s := range g.structs {
			if contains(p.supers(s), want) {
				cands = append(cands, s)
			}
		}
		if !inside && want == "I0" && g.r.Chance(1, 3) || len(cands) == 0 && !inside && want == "I0" {
			return &Val{K: "ext", Name: "Foo.T", FNames: []string{"a"}, FVals: []*Val{{K: "int", I: int64(g.r.Intn(50))}}}
		}
		if len(cands) == 0 {
			return nil
		}
		return g.genVal(nomTy(lib.Pick(g.r, cands)), depth+1, inside)
	case "inst": // Capability<&T>
		if inside {
			return nil
		}
		target := p.localName(t.List[0].A.Nom)
		return &Val{K: "cap", STy: t.List[0].clone(), Slot: "tgt" + target}
	case "nom":
		switch t.Nom.String() {
		case "Int", "Integer":
			return &Val{K: "int", I: int64(g.r.Intn(100)) - 20}
		case "UInt8":
			return &Val{K: "u8", I: int64(g.r.Intn(200))}
		case "String":
			return &Val{K: "str", S: lib.Pick(g.r, strPool)}
		case "Bool":
			return &Val{K: "bool", B: g.r.Bool()}
		case "AnyStruct":
			if g.r.Bool() || len(g.structs) == 0 {
				return &Val{K: "int", I: int64(g.r.Intn(9))}
			}
			return g.genVal(nomTy(g.structs[0]), depth+1, inside)
		case "Type":
			switch g.r.Intn(3) {
			case 0:
				return &Val{K: "type", STy: nomTy("Int")}
			case 1:
				return &Val{K: "type", STy: nomTy(lib.Pick(g.r, g.structs))}
			default:
				return &Val{K: "type", STy: refTy([]string{"X"}, nomTy("R0"))}
			}
		case "Capability":
			if inside {
				return nil
			}
			return &Val{K: "cap", STy: refTy([]string{"X"}, nomTy("R0")), Slot: "tgtR0"}
		case "Lib.T":
			return &Val{K: "ext", Name: "Lib.T", FNames: []string{"v"}, FVals: []*Val{{K: "int", I: int64(g.r.Intn(50))}}}
		}
		d := p.find(p.localName(t.Nom))
		if d == nil {
			return nil
		}
		switch d.Kind {
		case "enum":
			return &Val{K: "enum", Name: d.Name, I: int64(g.r.Intn(len(d.Cases)))}
		case "struct", "resource":
			v := &Val{K: "comp", Name: d.Name}
			for _, f := range d.Fields {
				fv := g.genVal(f.Ty, depth+1, inside)
				if fv == nil {
					if f.Ty.K == "opt" {
						fv = &Val{K: "nil"}
					} else {
						return nil
					}
				}
				v.FNames = append(v.FNames, f.Name)
				v.FVals = append(v.FVals, fv)
			}
			return v
		}
	}
	return nil
}

// ---------------------------------------------------------------- mutations of checker-valid contracts

// labels whose acceptance makes stored data unusable (known defects of the validator / by design)
const (
	lblIfaceConf = "iface-conformance-removed"
	lblEntRemove = "entitlement-removed"
	lblPragma    = "type-removed-with-pragma"
)

func (p *gProgram) mentions(t *gTy, name string) bool {
	if t == nil {
		return false
	}
	hit := func(n gNom) bool { return p.localName(n) == name }
	if t.K == "nom" && hit(t.Nom) {
		return true
	}
	for _, n := range t.Auth {
		if hit(n) {
			return true
		}
	}
	for _, n := range t.Inter {
		if hit(n) {
			return true
		}
	}
	if p.mentions(t.A, name) || p.mentions(t.B, name) {
		return true
	}
	for _, x := range t.List {
		if p.mentions(x, name) {
			return true
		}
	}
	return false
}

// dropMentions removes every field and conformance that mentions a declaration name
func (p *gProgram) dropMentions(name string) {
	strip := func(d *gDecl) {
		var fs []*gField
		for _, f := range d.Fields {
			if !p.mentions(f.Ty, name) {
				fs = append(fs, f)
			}
		}
		d.Fields = fs
		var cs []gNom
		for _, c := range d.Confs {
			if p.localName(c) != name {
				cs = append(cs, c)
			}
		}
		d.Confs = cs
	}
	strip(p.Root)
	for _, d := range p.Root.Nested {
		strip(d)
	}
}

func (p *gProgram) removeDecl(name string) {
	var ns []*gDecl
	for _, d := range p.Root.Nested {
		if d.Name != name {
			ns = append(ns, d)
		}
	}
	p.Root.Nested = ns
}

func (g *egen) mutateE2E(p *gProgram) string {
	r := g.r
	pickKind := func(kinds ...string) *gDecl {
		var c []*gDecl
		for _, d := range p.Root.Nested {
			if contains(kinds, d.Kind) {
				c = append(c, d)
			}
		}
		if len(c) == 0 {
			return nil
		}
		return lib.Pick(r, c)
	}
	withFields := func() *gDecl {
		var c []*gDecl
		c = append(c, p.Root)
		for _, d := range p.Root.Nested {
			if (d.Kind == "struct" || d.Kind == "resource") && len(d.Fields) > 0 {
				c = append(c, d)
			}
		}
		return lib.Pick(r, c)
	}
	switch r.Intn(34) {
	case 0:
		d := withFields()
		d.Fields = append(d.Fields, &gField{Name: "added", Ty: lib.Pick(r, []*gTy{nomTy("Int"), optTy(nomTy("Int")), arrTy(nomTy("String"))}), Var: true})
		return "field-add"
	case 1, 2:
		d := withFields()
		if len(d.Fields) > 0 {
			i := r.Intn(len(d.Fields))
			d.Fields = append(d.Fields[:i], d.Fields[i+1:]...)
			return "field-remove"
		}
	case 3, 4, 5, 6, 7:
		d := withFields()
		if len(d.Fields) > 0 {
			f := lib.Pick(r, d.Fields)
			old := f.Ty.String()
			switch f.Ty.K {
			case "nom":
				if ln := p.localName(f.Ty.Nom); ln != "" && p.find(ln) != nil {
					if len(f.Ty.Nom.Path) == 1 {
						f.Ty = nomTy("C", ln) // qualify
					} else if r.Bool() {
						f.Ty = nomTy(ln) // unqualify
					} else {
						f.Ty = optTy(f.Ty)
					}
				} else if r.Bool() {
					f.Ty = optTy(f.Ty)
				} else {
					f.Ty = lib.Pick(r, []*gTy{nomTy("Int"), nomTy("String"), nomTy("UInt8"), nomTy("AnyStruct"), nomTy("Integer")})
				}
			case "opt":
				if r.Bool() {
					f.Ty = f.Ty.A
				} else {
					f.Ty = optTy(f.Ty)
				}
			case "var":
				if r.Bool() {
					f.Ty = &gTy{K: "const", A: f.Ty.A, Size: 2, Base: 10}
				} else {
					f.Ty = arrTy(optTy(f.Ty.A))
				}
			case "const":
				f.Ty = &gTy{K: "const", A: f.Ty.A, Size: f.Ty.Size, Base: 16}
			case "dict":
				f.Ty = dictTy(f.Ty.B, f.Ty.A)
			default:
				f.Ty = optTy(f.Ty)
			}
			return "field-retype:" + old + "->" + f.Ty.String()
		}
	case 8:
		d := withFields()
		if len(d.Fields) > 1 {
			i := r.Intn(len(d.Fields) - 1)
			d.Fields[i], d.Fields[i+1] = d.Fields[i+1], d.Fields[i]
			return "field-reorder"
		}
	case 9:
		d := withFields()
		if len(d.Fields) > 0 {
			lib.Pick(r, d.Fields).Name = "renamed"
			return "field-rename"
		}
	case 10:
		d := withFields()
		if len(d.Fields) > 0 {
			lib.Pick(r, d.Fields).Access = lib.Pick(r, []string{"access(self)", "access(contract)", "access(account)"})
			return "field-access-change"
		}
	case 11, 12:
		k := lib.Pick(r, []string{"struct", "enum", "struct interface", "entitlement", "resource"})
		d := &gDecl{Kind: k, Name: "New" + fmt.Sprint(r.Intn(3))}
		if p.find(d.Name) != nil {
			break
		}
		switch k {
		case "struct", "resource":
			d.Fields = []*gField{{Name: "z", Ty: nomTy("Int"), Var: true}}
		case "enum":
			d.Confs = []gNom{{[]string{"UInt8"}}}
			d.Cases = []string{"n0"}
		}
		p.Root.Nested = append(p.Root.Nested, d)
		return "nested-add:" + k
	case 13, 14:
		if d := pickKind("struct", "enum", "resource"); d != nil {
			p.removeDecl(d.Name)
			p.dropMentions(d.Name)
			return "nested-remove:" + d.Kind
		}
	case 15, 16:
		if d := pickKind("struct", "enum", "resource"); d != nil {
			p.removeDecl(d.Name)
			p.dropMentions(d.Name)
			p.Root.Pragmas = append(p.Root.Pragmas, "#removedType("+d.Name+")")
			g.removed = d.Name
			return lblPragma + ":" + d.Kind
		}
	case 17:
		if d := pickKind("struct interface", "resource interface"); d != nil {
			p.removeDecl(d.Name)
			p.dropMentions(d.Name)
			p.Root.Pragmas = append(p.Root.Pragmas, "#removedType("+d.Name+")")
			return "interface-remove-with-pragma"
		}
	case 18:
		if d := pickKind("entitlement"); d != nil {
			p.removeDecl(d.Name)
			p.dropMentions(d.Name)
			g.removed = d.Name
			return lblEntRemove
		}
	case 19:
		if d := pickKind("struct"); d != nil {
			d.Kind = "resource"
			return "kind-change:struct->resource"
		}
	case 20:
		if d := pickKind("struct interface"); d != nil {
			d.Kind = "resource interface"
			return "kind-change:struct interface->resource interface"
		}
	case 21:
		if d := pickKind("struct"); d != nil {
			has := func(n string) bool {
				for _, f := range d.Fields {
					if f.Name == n {
						return true
					}
				}
				return false
			}
			if !contains(p.supers(d.Name), "I0") {
				if !has("a") {
					break
				}
				d.Confs = append(d.Confs, gNom{[]string{"I0"}})
				return "conformance-add"
			}
		}
	case 22, 23:
		if d := pickKind("struct", "resource"); d != nil && len(d.Confs) > 0 {
			i := r.Intn(len(d.Confs))
			d.Confs = append(d.Confs[:i], d.Confs[i+1:]...)
			return "conformance-remove"
		}
	case 24, 25:
		if d := p.find("I1"); d != nil && len(d.Confs) > 0 {
			d.Confs = nil
			return lblIfaceConf
		}
	case 26:
		if d := pickKind("struct"); d != nil && len(d.Confs) > 0 {
			c := d.Confs[0]
			if len(c.Path) == 1 {
				d.Confs[0] = gNom{[]string{"C", c.Path[0]}}
				return "conformance-qualify"
			}
		}
	case 27:
		if e := p.find("E"); e != nil {
			e.Cases = append(e.Cases, "extra")
			return "enum-case-append"
		}
	case 28:
		if e := p.find("E"); e != nil {
			e.Cases = append([]string{"front"}, e.Cases...)
			return "enum-case-insert-front"
		}
	case 29:
		if e := p.find("E"); e != nil && len(e.Cases) > 1 {
			e.Cases = e.Cases[:len(e.Cases)-1]
			return "enum-case-remove-last"
		}
	case 30:
		if e := p.find("E"); e != nil && len(e.Cases) > 1 {
			e.Cases[0], e.Cases[1] = e.Cases[1], e.Cases[0]
			return "enum-case-reorder"
		}
	case 31:
		if e := p.find("E"); e != nil {
			e.Cases[r.Intn(len(e.Cases))] = "renamed"
			return "enum-case-rename"
		}
	case 32:
		p.Root.Pragmas = append(p.Root.Pragmas, lib.Pick(r, []string{"#removedType(Nothing)", "#removedType(A, B)", "#removedType(\"x\")", "#other"}))
		return "pragma-add"
	case 33:
		if len(p.Imports) > 0 {
			used := false
			for _, d := range append([]*gDecl{p.Root}, p.Root.Nested...) {
				for _, f := range d.Fields {
					if strings.Contains(f.Ty.String(), "Lib.") {
						used = true
					}
				}
				for _, c := range d.Confs {
					if strings.HasPrefix(c.String(), "Lib.") {
						used = true
					}
				}
			}
			if !used {
				p.Imports = nil
				return "import-remove"
			}
		} else {
			p.Imports = append(p.Imports, "import Lib from 0x3")
			return "import-add"
		}
	}
	return "none"
}

// ---------------------------------------------------------------- inspection scripts

type walker struct {
	np, op *gProgram // the version being inspected, the version before it
	orig   *gProgram // version 1 (under which the values were written)
	lines  []string
	exp    []string // expected leaf value ("" = take from the run before the update)
}

// oldDecl: the declaration the value had before this update (or, when the previous version does
// not declare the name, under version 1)
func (w *walker) oldDecl(name string) *gDecl {
	if d := w.op.find(name); d != nil {
		return d
	}
	if w.orig != nil {
		return w.orig.find(name)
	}
	return nil
}

func (w *walker) leaf(expr, expected string) {
	w.lines = append(w.lines, "out.append("+expr+")")
	w.exp = append(w.exp, expected)
}

// walk emits reads of everything reachable in v. dt = the type the NEW program declares for this
// position (nil when unknown), viaRef = expr has a reference type.
func (w *walker) walk(expr string, v *Val, dt *gTy, viaRef bool) {
	amp := ""
	if viaRef {
		amp = "&"
	}
	isAny := dt != nil && dt.K == "nom" && dt.Nom.String() == "AnyStruct"
	sub := func(f func(t *gTy) *gTy) *gTy {
		if dt == nil {
			return nil
		}
		return f(dt)
	}
	if isAny && v.K != "comp" {
		w.leaf(expr+".getType().identifier", "")
		return
	}
	switch v.K {
	case "int", "u8":
		w.leaf(expr+".toString()", fmt.Sprint(v.I))
	case "bool":
		w.leaf("("+expr+" ? \"true\" : \"false\")", fmt.Sprint(v.B))
	case "str":
		w.leaf(expr, v.S)
	case "nil":
		w.leaf("("+expr+" == nil ? \"nil\" : \"some\")", "nil")
	case "some":
		w.leaf("("+expr+" == nil ? \"nil\" : \"some\")", "some")
		w.walk("("+expr+"!)", v.Elems[0], sub(func(t *gTy) *gTy {
			if t.K == "opt" {
				return t.A
			}
			return nil
		}), viaRef)
	case "arr":
		w.leaf(expr+".length.toString()", fmt.Sprint(len(v.Elems)))
		et := sub(func(t *gTy) *gTy {
			if t.K == "var" || t.K == "const" {
				return t.A
			}
			return nil
		})
		for i, e := range v.Elems {
			w.walk(fmt.Sprintf("%s[%d]", expr, i), e, et, viaRef)
		}
	case "dict":
		w.leaf(expr+".length.toString()", fmt.Sprint(len(v.Elems)))
		et := sub(func(t *gTy) *gTy {
			if t.K == "dict" {
				return t.B
			}
			return nil
		})
		for i, e := range v.Elems {
			k := fmt.Sprint(v.Keys[i].I)
			if v.Keys[i].K == "str" {
				k = "\"" + v.Keys[i].S + "\""
			}
			w.walk("("+expr+"["+k+"]!)", e, et, viaRef)
		}
	case "enum":
		w.leaf(expr+".rawValue.toString()", fmt.Sprint(v.I))
		if od := w.oldDecl(v.Name); od != nil && int(v.I) < len(od.Cases) {
			w.leaf(fmt.Sprintf("(C.%s(rawValue: %s.rawValue)! == C.%s.%s ? \"same\" : \"diff\")", v.Name, expr, v.Name, od.Cases[v.I]), "same")
		}
	case "cap":
		w.leaf(expr+".getType().identifier", "")
		// a dynamic cast makes the runtime load the capability's own borrow type
		w.leaf("((("+expr+" as AnyStruct) as? Capability<&AnyResource>) != nil ? \"res\" : \"other\")", "")
	case "type":
		w.leaf(expr+".identifier", "")
	case "ext":
		typed := expr
		if dt == nil || dt.K != "nom" || dt.Nom.String() != v.Name {
			typed = "(" + expr + " as! " + amp + v.Name + ")"
		}
		for i, n := range v.FNames {
			w.walk(typed+"."+n, v.FVals[i], nomTy("Int"), viaRef)
		}
		if v.Name == "Foo.T" {
			for _, i := range append([]string{"I0"}, w.op.supers("I0")...) {
				w.leaf(fmt.Sprintf("((%s as %sAnyStruct) as? %s{C.%s} != nil ? \"conf\" : \"noconf\")", expr, amp, amp, i), "conf")
			}
		}
	case "comp":
		nd := w.np.find(v.Name)
		od := w.oldDecl(v.Name)
		if nd == nil || od == nil {
			// the type no longer exists: any use of the value goes through its type
			w.leaf(expr+".getType().identifier", "")
			return
		}
		isRes := od.Kind == "resource"
		typed := expr
		if !isRes && (dt == nil || dt.K != "nom" || w.np.localName(dt.Nom) != v.Name) {
			typed = "(" + expr + " as! " + amp + "C." + v.Name + ")"
		}
		top := "AnyStruct"
		if isRes {
			top = "AnyResource"
		}
		for _, f := range nd.Fields {
			if f.Access != "" {
				continue
			}
			for i, n := range v.FNames {
				if n == f.Name {
					w.walk(typed+"."+n, v.FVals[i], f.Ty, viaRef || isRes)
				}
			}
		}
		for _, i := range w.op.supers(v.Name) {
			a := amp
			if isRes {
				a = "&"
			}
			w.leaf(fmt.Sprintf("((%s as %s%s) as? %s{C.%s} != nil ? \"conf\" : \"noconf\")", expr, a, top, a, i), "conf")
		}
	}
}

func (w *walker) script(prelude string) string {
	return "import C from 0x1\nimport Foo from 0x2\nimport Lib from 0x3\n" +
		"access(all) fun main(): [String] {\n    let acct = getAuthAccount<auth(Storage) &Account>(0x1)\n    var out: [String] = []\n" +
		prelude + "    " + strings.Join(w.lines, "\n    ") + "\n    return out\n}\n"
}

// ---------------------------------------------------------------- Coq rendering of values

func (in *Interner) styOf(p *gProgram, t *gTy) string {
	tid := func(n gNom) string {
		if ln := p.localName(n); ln != "" && p.find(ln) != nil {
			return "(TLocal [" + in.id(p.Root.Name) + ";" + in.id(ln) + "])"
		}
		if len(n.Path) == 1 {
			return "(TPrim " + in.id(n.Path[0]) + ")"
		}
		panic("styOf: " + n.String())
	}
	switch t.K {
	case "nom":
		return "(SNom " + tid(t.Nom) + ")"
	case "opt":
		return "(SOpt " + in.styOf(p, t.A) + ")"
	case "var":
		return "(SVar " + in.styOf(p, t.A) + ")"
	case "ref":
		a := "SUnauth"
		if t.AuthK == "conj" {
			var es []string
			for _, n := range t.Auth {
				es = append(es, tid(n))
			}
			a = "(SConj [" + strings.Join(es, ";") + "])"
		}
		return "(SRef " + a + " " + in.styOf(p, t.A) + ")"
	}
	panic("styOf: " + t.K)
}

func (in *Interner) value(p *gProgram, v *Val) string {
	list := func(l []*Val) string {
		var e []string
		for _, x := range l {
			e = append(e, in.value(p, x))
		}
		return "[" + strings.Join(e, ";") + "]"
	}
	switch v.K {
	case "int":
		return "(VPrim 1)"
	case "str":
		return "(VPrim 2)"
	case "bool":
		return "(VPrim 3)"
	case "u8":
		return "(VPrim 4)"
	case "nil":
		return "VNil"
	case "some":
		return "(VSome " + in.value(p, v.Elems[0]) + ")"
	case "arr":
		return "(VArr " + list(v.Elems) + ")"
	case "dict":
		return "(VDict " + list(v.Keys) + " " + list(v.Elems) + ")"
	case "comp":
		return fmt.Sprintf("(VComp [%s;%s] %s %s)", in.id(p.Root.Name), in.id(v.Name), in.names(v.FNames), list(v.FVals))
	case "enum":
		return fmt.Sprintf("(VEnum [%s;%s] %d)", in.id(p.Root.Name), in.id(v.Name), v.I)
	case "ext":
		parts := strings.Split(v.Name, ".")
		addr := 2
		if parts[0] == "Lib" {
			addr = 3
		}
		return fmt.Sprintf("(VExt (%d,%s) [%s])", addr, in.id(parts[0]), in.id(parts[1]))
	case "cap":
		return "(VCap " + in.styOf(p, v.STy) + ")"
	case "type":
		return "(VType " + in.styOf(p, v.STy) + ")"
	}
	panic(v.K)
}

// ---------------------------------------------------------------- scenarios

type root struct {
	Name    string // "contract" or storage slot
	Val     *Val
	Ty      *gTy // declared type of the slot (old program)
	Prelude string
	Expr    string
	ViaRef  bool
}

// one update of a history: the version submitted, how it was derived, and the inspection of the
// stored values generated for it (from its declarations and the values written under version 1)
type step struct {
	Label    []string
	NewSrc   string
	NewG     *gProgram
	Scripts  []string
	Expected [][]string
	Removed  []string // names removed so far (pragma or entitlement), cumulative
	PragmaRm []string // names removed so far with #removedType, cumulative
	KnownKey string   // hand-written scenarios
	ByDesign bool     // hand-written scenarios
}

type scenario struct {
	// single-step form used by hand.go (converted to Steps)
	Label    []string
	NewSrc   string
	Scripts  []string
	Expected [][]string
	KnownKey string
	ByDesign bool

	OldSrc    string
	Steps     []*step
	FooSrc    string
	Pre       map[string]string // other contracts deployed first: name -> source (address 0x2/0x3)
	PreAddr   map[string]common.Address
	Setup     string
	Roots     []root
	OldG      *gProgram
	XC        bool // Foo.T conforms to C.I0
	Hand      bool
	HandVals  []string // Coq values for hand-written scenarios
	HandNames []string
}

func (s *scenario) normalize() {
	if len(s.Steps) == 0 {
		s.Steps = []*step{{Label: s.Label, NewSrc: s.NewSrc, Scripts: s.Scripts, Expected: s.Expected,
			KnownKey: s.KnownKey, ByDesign: s.ByDesign}}
	}
}

func (s *scenario) chain() []string {
	out := []string{s.OldSrc}
	for _, st := range s.Steps {
		out = append(out, st.NewSrc)
	}
	return out
}

type stepResult struct {
	Verdict int // 0 rejected before validation, 1 validator ran
	Codes   []code3
	Other   string // description when neither accepted nor ContractUpdateError
	OK      []bool
	Detail  []string
}

func (r stepResult) accepted() bool { return r.Verdict == 1 && len(r.Codes) == 0 }

func (r stepResult) json() map[string]any {
	return map[string]any{"verdict": r.Verdict, "errors": codesStrings(r.Codes), "other": r.Other, "usable": r.OK, "detail": r.Detail}
}

func updateTx(name, code string) string { return string(ru.UpdateTransaction(name, []byte(code))) }

func stringsOf(v cadence.Value) []string {
	arr, ok := v.(cadence.Array)
	if !ok {
		return nil
	}
	var out []string
	for _, e := range arr.Values {
		if s, ok := e.(cadence.String); ok {
			out = append(out, string(s))
		} else {
			out = append(out, e.String())
		}
	}
	return out
}

func firstLine(err error) string {
	if err == nil {
		return ""
	}
	var out []string
	for _, l := range strings.Split(err.Error(), "\n") {
		if strings.HasPrefix(l, "error:") {
			if len(l) > 160 {
				l = l[:160]
			}
			out = append(out, l)
		}
	}
	if len(out) > 3 {
		out = out[:3]
	}
	return strings.Join(out, " | ")
}

// run executes a scenario with one engine: deploy version 1, store the values, then submit the
// later versions one after the other (the history stops at the first update that is not accepted);
// after every accepted update all stored values are inspected.
// setupErr != "" means the scenario itself is broken (version 1 or the setup does not work),
// which is a harness problem, not a finding.
func (s *scenario) run(vm bool) (res []stepResult, setupErr string) {
	h := lib.NewHost()
	var names []string
	for n := range s.Pre {
		names = append(names, n)
	}
	sort.Strings(names)
	for _, n := range names {
		if o := h.Deploy(s.PreAddr[n], n, s.Pre[n], vm); o.Err != nil {
			return res, "deploy " + n + ": " + firstLine(o.Err)
		}
	}
	if o := h.Deploy(addrC, "C", s.OldSrc, vm); o.Err != nil {
		return res, "deploy old: " + firstLine(o.Err)
	}
	if s.FooSrc != "" {
		if o := h.Deploy(addrFoo, "Foo", s.FooSrc, vm); o.Err != nil {
			return res, "deploy Foo: " + firstLine(o.Err)
		}
	}
	if s.Setup != "" {
		if o := h.RunTx(s.Setup, nil, []common.Address{addrC}, vm); o.Err != nil || o.Panic != nil {
			return res, "setup: " + firstLine(o.Err)
		}
	}
	for _, st := range s.Steps {
		var r stepResult
		// expected leaves: from the value trees, and from a run before the update where not known
		pre := make([][]string, len(st.Scripts))
		for i, sc := range st.Scripts {
			o := h.RunScript(sc, nil, vm)
			if o.Err == nil && o.Panic == nil {
				pre[i] = stringsOf(o.Value)
			}
		}
		o := h.RunTx(updateTx("C", st.NewSrc), nil, []common.Address{addrC}, vm)
		h.Iface.Programs = nil
		switch {
		case o.Panic != nil:
			r.Other = fmt.Sprintf("panic: %v", o.Panic)
		case o.Err == nil:
			r.Verdict = 1
		default:
			var cue *stdlib.ContractUpdateError
			if errors.As(o.Err, &cue) {
				r.Verdict = 1
				r.Codes = errorCodes(cue.Errors)
			} else {
				r.Other = o.Class + ": " + firstLine(o.Err)
			}
		}
		if !r.accepted() {
			res = append(res, r)
			return
		}
		// accepted: inspect
		for i, sc := range st.Scripts {
			x := h.RunScript(sc, nil, vm)
			ok := true
			detail := ""
			if x.Err != nil || x.Panic != nil {
				ok = false
				detail = x.Class + ": " + firstLine(x.Err)
				if x.Panic != nil {
					detail = fmt.Sprintf("panic: %v", x.Panic)
				}
			} else {
				got := stringsOf(x.Value)
				exp := st.Expected[i]
				if len(got) != len(exp) {
					ok = false
					detail = fmt.Sprintf("leaf count %d, expected %d", len(got), len(exp))
				}
				for k := 0; ok && k < len(exp); k++ {
					want := exp[k]
					if want == "" {
						if pre[i] == nil || k >= len(pre[i]) {
							continue
						}
						want = pre[i][k]
					}
					if got[k] != want {
						ok = false
						detail = fmt.Sprintf("leaf %d = %q, stored %q", k, got[k], want)
					}
				}
			}
			r.OK = append(r.OK, ok)
			r.Detail = append(r.Detail, detail)
		}
		res = append(res, r)
	}
	return
}

func legE2E(sum *lib.Summary, rng *lib.Rng, distinct map[string]bool) []string {
	cw := &lib.CaseWriter{
		Dir: *dir, Prefix: "cases_C27_e2e",
		Header:   "From CV Require Import C27.Cases.",
		ElemType: "acct_names * ext_confs * program * program * Z * list code3 * list (option value * value * bool)",
		CheckFn:  "check_e2e",
		PerFile:  60,
	}
	n := 70
	if *tier == "thorough" {
		n = 1800
	}
	for _, s := range handScenarios() {
		runScenario(sum, cw, distinct, s)
	}
	for i := 0; i < n; i++ {
		if s := genScenario(rng); s != nil {
			runScenario(sum, cw, distinct, s)
		}
	}
	cw.Close()
	return cw.Files
}

// retypeField gives a field a different type (for re-introduced declarations)
func retypeTy(t *gTy) *gTy {
	if t.K == "nom" {
		switch t.Nom.String() {
		case "Int":
			return nomTy("String")
		case "String", "Bool", "UInt8":
			return nomTy("Int")
		}
	}
	if t.K == "opt" {
		return t.A
	}
	return optTy(t)
}

// reintroduce builds, from version 2 (where `name` was removed with #removedType), a version that
// declares the name again. orig is the declaration of version 1.
func (g *egen) reintroduce(p *gProgram, orig *gDecl) string {
	r := g.r
	d := orig.clone()
	label := "same"
	switch r.Intn(7) {
	case 0, 1:
	case 2, 3:
		label = "different-fields"
		if len(d.Fields) > 0 {
			for _, f := range d.Fields {
				f.Ty = retypeTy(f.Ty)
			}
		} else if d.Kind == "enum" {
			d.Cases = append([]string{"other"}, d.Cases...)
		} else {
			d.Fields = []*gField{{Name: "fresh", Ty: nomTy("Int"), Var: true}}
		}
	case 4, 5:
		kinds := map[string][]string{"struct": {"resource", "enum", "struct interface"}, "resource": {"struct", "resource interface"},
			"enum": {"struct", "resource"}}
		d.Kind = lib.Pick(r, kinds[orig.Kind])
		label = "different-kind:" + d.Kind
		d.Confs = nil
		switch d.Kind {
		case "enum":
			d.Fields = nil
			d.Confs = []gNom{{[]string{"UInt8"}}}
			d.Cases = []string{"k0", "k1"}
		default:
			d.Cases = nil
			if len(d.Fields) == 0 {
				d.Fields = []*gField{{Name: "a", Ty: nomTy("Int"), Var: true}}
			}
		}
	default:
		label = "not-declared"
		d = nil
	}
	if d != nil {
		p.Root.Nested = append(p.Root.Nested, d)
	}
	if d == nil || r.Chance(1, 3) {
		var ps []string
		for _, pr := range p.Root.Pragmas {
			if pr != "#removedType("+orig.Name+")" {
				ps = append(ps, pr)
			}
		}
		p.Root.Pragmas = ps
		label += "+pragma-dropped"
	}
	return "reintroduce-removed:" + label
}

func genScenario(rng *lib.Rng) *scenario {
	g := &egen{r: rng}
	oldG := g.old()
	s := &scenario{OldG: oldG, XC: true,
		Pre: map[string]string{"Lib": libSource}, PreAddr: map[string]common.Address{"Lib": addrLib}}
	// contract value
	cv := &Val{K: "comp", Name: "C"}
	inits := map[string]string{}
	for _, f := range oldG.Root.Fields {
		v := g.genVal(f.Ty, 0, true)
		if v == nil {
			return nil
		}
		cv.FNames = append(cv.FNames, f.Name)
		cv.FVals = append(cv.FVals, v)
		inits[f.Name] = oldG.valueExpr(v, true)
	}
	s.OldSrc = oldG.renderFull(func(f *gField) string { return inits[f.Name] })
	s.FooSrc = "import C from 0x1\naccess(all) contract Foo {\n    access(all) struct T: C.I0 { access(all) var a: Int; init(a: Int) { self.a = a } }\n}\n"
	// storage slots
	var setup []string
	setup = append(setup, "acct.storage.save(<- C.mkR0("+g.resArgs("R0")+"), to: /storage/tgtR0)")
	for _, sn := range g.structs {
		v := g.genVal(nomTy(sn), 0, false)
		if v != nil {
			setup = append(setup, "acct.storage.save("+oldG.valueExpr(v, false)+", to: /storage/tgt"+sn+")")
		}
	}
	nslots := 2 + rng.Intn(3)
	var roots []root
	for k := 0; k < nslots; k++ {
		var t *gTy
		st := lib.Pick(rng, g.structs)
		switch rng.Intn(9) {
		case 0, 1:
			t = nomTy(st)
		case 2:
			t = arrTy(nomTy(st))
		case 3:
			t = arrTy(interTy("I0"))
		case 4:
			t = dictTy(nomTy("String"), nomTy(st))
		case 5:
			t = nomTy("R0")
		case 6:
			t = arrTy(capTy(refTy([]string{"X"}, nomTy("R0"))))
		case 7:
			t = arrTy(nomTy("Type"))
		default:
			t = nomTy("E")
		}
		v := g.genVal(t, 0, false)
		if v == nil {
			continue
		}
		slot := fmt.Sprintf("s%d", k)
		arrow := ""
		if oldG.isRes(t) {
			arrow = "<- "
		}
		setup = append(setup, "acct.storage.save("+arrow+oldG.valueExpr(v, false)+", to: /storage/"+slot+")")
		rt := root{Name: slot, Val: v, Ty: t}
		if oldG.isRes(t) {
			rt.Prelude = fmt.Sprintf("    let r = acct.storage.borrow<&%s>(from: /storage/%s)!\n", oldG.ext(t).String(), slot)
			rt.ViaRef = true
		} else {
			rt.Prelude = fmt.Sprintf("    let r = acct.storage.copy<%s>(from: /storage/%s)!\n", oldG.ext(t).String(), slot)
		}
		rt.Expr = "r"
		roots = append(roots, rt)
	}
	s.Setup = "import C from 0x1\nimport Foo from 0x2\nimport Lib from 0x3\ntransaction {\n  prepare(acct: auth(Storage, Capabilities) &Account) {\n    " +
		strings.Join(setup, "\n    ") + "\n  }\n}\n"
	s.Roots = append(s.Roots, root{Name: "contract", Val: cv})
	s.Roots = append(s.Roots, roots...)

	// the later versions: a history of 1 to 3 updates
	var removed, pragmaRm []string
	prev := oldG
	addStep := func(newG *gProgram, labels []string) {
		if g.removed != "" {
			removed = append(removed, g.removed)
			for _, l := range labels {
				if strings.HasPrefix(l, lblPragma) {
					pragmaRm = append(pragmaRm, g.removed)
				}
			}
			g.removed = ""
		}
		st := &step{Label: labels, NewG: newG, Removed: append([]string{}, removed...), PragmaRm: append([]string{}, pragmaRm...)}
		st.NewSrc = newG.renderFull(func(f *gField) string { return newG.defaultExpr(f.Ty, 0) })
		// inspection scripts, generated from this version's declarations and the stored values
		for _, rt := range s.Roots {
			w := &walker{np: newG, op: prev, orig: oldG}
			if rt.Name == "contract" {
				for i, f := range cv.FNames {
					var nf *gField
					for _, x := range newG.Root.Fields {
						if x.Name == f && x.Access == "" {
							nf = x
						}
					}
					if nf != nil {
						w.walk("C."+f, cv.FVals[i], nf.Ty, true)
					}
				}
				if len(w.lines) == 0 {
					w.leaf("\"none\"", "none")
				}
			} else {
				w.walk(rt.Expr, rt.Val, rt.Ty, rt.ViaRef)
			}
			st.Scripts = append(st.Scripts, w.script(rt.Prelude))
			st.Expected = append(st.Expected, w.exp)
		}
		s.Steps = append(s.Steps, st)
		prev = newG
	}
	randomStep := func() {
		newG := prev.clone()
		var labels []string
		for k := 0; k <= rng.Intn(2); k++ {
			l := g.mutateE2E(newG)
			if l == "none" {
				continue
			}
			labels = append(labels, l)
			if l == lblIfaceConf || l == lblEntRemove || strings.HasPrefix(l, lblPragma) {
				break // defect-class mutations are applied alone (or last)
			}
		}
		addStep(newG, labels)
	}
	switch mode := rng.Intn(20); {
	case mode < 9: // a single update
		randomStep()
	case mode < 13: // a history of random updates
		for k := 0; k < 2+rng.Intn(2); k++ {
			randomStep()
		}
	case mode < 18: // remove a type with #removedType, later bring the name back
		var cands []*gDecl
		for _, d := range oldG.Root.Nested {
			if d.Kind == "struct" || d.Kind == "enum" || d.Kind == "resource" {
				cands = append(cands, d)
			}
		}
		// prefer a type of which a value is stored
		var stored []*gDecl
		for _, d := range cands {
			for _, rt := range s.Roots {
				if valMentions(rt.Val, d.Name) {
					stored = append(stored, d)
					break
				}
			}
		}
		if len(stored) > 0 && rng.Chance(4, 5) {
			cands = stored
		}
		orig := lib.Pick(rng, cands)
		if rng.Chance(1, 4) {
			randomStep() // something unrelated first
			if prev.find(orig.Name) == nil {
				break
			}
		}
		v2 := prev.clone()
		v2.removeDecl(orig.Name)
		v2.dropMentions(orig.Name)
		v2.Root.Pragmas = append(v2.Root.Pragmas, "#removedType("+orig.Name+")")
		g.removed = orig.Name
		addStep(v2, []string{lblPragma + ":" + orig.Kind})
		if rng.Chance(1, 4) {
			randomStep()
		}
		v3 := prev.clone()
		if v3.find(orig.Name) == nil {
			l := g.reintroduce(v3, orig)
			addStep(v3, []string{l})
		}
		if rng.Chance(1, 3) {
			randomStep()
		}
	default: // remove a field, later declare it again (same or different type)
		var cands []*gDecl
		for _, d := range oldG.Root.Nested {
			if (d.Kind == "struct" || d.Kind == "resource") && len(d.Fields) > 0 {
				cands = append(cands, d)
			}
		}
		od := lib.Pick(rng, cands)
		f := lib.Pick(rng, od.Fields)
		v2 := prev.clone()
		d2 := v2.find(od.Name)
		var fs []*gField
		for _, x := range d2.Fields {
			if x.Name != f.Name {
				fs = append(fs, x)
			}
		}
		d2.Fields = fs
		addStep(v2, []string{"field-remove"})
		v3 := prev.clone()
		nf := *f
		nf.Ty = f.Ty.clone()
		l := "field-readd:same-type"
		if rng.Bool() {
			nf.Ty = retypeTy(nf.Ty)
			l = "field-readd:different-type"
		}
		d3 := v3.find(od.Name)
		d3.Fields = append(d3.Fields, &nf)
		addStep(v3, []string{l})
	}
	if len(s.Steps) == 0 {
		return nil
	}
	return s
}

func (g *egen) resArgs(name string) string {
	v := g.genVal(nomTy(name), 0, false)
	e := g.p.valueExpr(v, false)
	// strip "C.mkR0(" ... ")"
	i := strings.Index(e, "(")
	return e[i+1 : len(e)-1]
}

func sameResults(a, b []stepResult) bool {
	if len(a) != len(b) {
		return false
	}
	for i := range a {
		if a[i].Verdict != b[i].Verdict || fmt.Sprint(codesStrings(a[i].Codes)) != fmt.Sprint(codesStrings(b[i].Codes)) ||
			fmt.Sprint(a[i].OK) != fmt.Sprint(b[i].OK) {
			return false
		}
	}
	return true
}

func runScenario(sum *lib.Summary, cw *lib.CaseWriter, distinct map[string]bool, s *scenario) {
	s.normalize()
	r0, e0 := s.run(false)
	r1, e1 := s.run(true)
	chain := s.chain()
	var history [][]string
	for _, st := range s.Steps {
		history = append(history, st.Label)
	}
	if e0 != "" || e1 != "" {
		sum.Count("e2e: scenario not runnable (generator)")
		if sum.Distribution["e2e: scenario not runnable (generator)"] <= 3 {
			sum.Sample(map[string]any{"not-runnable": e0 + " / " + e1, "old": s.OldSrc, "setup": s.Setup})
		}
		return
	}
	base := func() map[string]any {
		d := map[string]any{"leg": "e2e", "history": history, "versions": chain, "setup": s.Setup}
		var i0, i1 []any
		for _, r := range r0 {
			i0 = append(i0, r.json())
		}
		for _, r := range r1 {
			i1 = append(i1, r.json())
		}
		d["interpreter_steps"], d["vm_steps"] = i0, i1
		return d
	}
	distinct[strings.Join(chain, "\x00")+"\x00"+s.Setup] = true
	sum.Count(fmt.Sprintf("e2e: history of %d update(s)", len(s.Steps)))
	if !sameResults(r0, r1) {
		sum.Fail("engines-disagree", "interpreter and VM disagree on an update verdict or on the usability of stored values", base())
		return
	}
	var labelsSoFar []string
	prevSrc := s.OldSrc
	for k, r := range r0 {
		st := s.Steps[k]
		sum.Evaluations += 2
		labelsSoFar = append(labelsSoFar, st.Label...)
		desc := base()
		desc["step"] = k + 1
		desc["mutations"] = st.Label
		desc["old"], desc["new"] = prevSrc, st.NewSrc
		desc["scripts"] = st.Scripts
		desc["interpreter"] = r.json()
		for _, l := range st.Label {
			sum.Count("e2e mutation " + strings.SplitN(l, ":", 2)[0])
		}
		switch {
		case r.Verdict == 0:
			sum.Count("e2e: new version rejected before validation")
			if strings.HasPrefix(r.Other, "Internal") || strings.HasPrefix(r.Other, "Crash") || strings.HasPrefix(r.Other, "panic") {
				sum.Fail("update-internal-error", "contract update failed with an internal error: "+r.Other, desc)
			}
		case len(r.Codes) > 0:
			sum.Count("e2e: rejected by validator")
		default:
			sum.Count("e2e: accepted")
			bad := false
			for i, ok := range r.OK {
				if !ok {
					bad = true
					desc["failing_root"] = s.Roots[i].Name
					desc["failing_detail"] = r.Detail[i]
				}
			}
			if bad {
				// by design: a type removed with #removedType (and not declared again) is given up
				byDesign, known := st.ByDesign, st.KnownKey
				if !s.Hand {
					gone, back := false, false
					for _, n := range st.PragmaRm {
						if st.NewG.find(n) == nil {
							gone = true
						} else {
							back = true
						}
					}
					byDesign = gone && !back
					for _, l := range labelsSoFar {
						if known == "" && (l == lblIfaceConf || l == lblEntRemove) {
							known = "accepted-unusable:" + l
						}
					}
				}
				what := fmt.Sprintf("update %d of the history accepted, but a value stored under version 1 cannot be used: %v", k+1, desc["failing_detail"])
				switch {
				case byDesign:
					sum.Count("e2e: accepted, value of a #removedType type unusable (by design)")
				case known != "":
					sum.Fail(known, what, desc)
				default:
					sum.Fail("accepted-unusable:"+strings.Join(labelsSoFar, "+"), what, desc)
				}
			} else {
				sum.Count("e2e: accepted and every stored value usable")
			}
		}
		s.coqCase(cw, k, prevSrc, st, r, desc)
		if len(st.Label) > 0 {
			sum.Sample(map[string]any{"leg": "e2e", "history": history, "step": k + 1, "verdict": r.Verdict, "errors": codesStrings(r.Codes), "usable": r.OK})
		}
		prevSrc = st.NewSrc
	}
}

// coqCase writes the case of one update (old = the previously accepted version)
func (s *scenario) coqCase(cw *lib.CaseWriter, k int, oldSrc string, st *step, r stepResult, desc map[string]any) {
	oldP, err1 := parse(oldSrc)
	newP, err2 := parse(st.NewSrc)
	if err1 != nil || err2 != nil {
		return
	}
	oldM, ok1 := programOf(oldP)
	newM, ok2 := programOf(newP)
	if !ok1 || !ok2 {
		return
	}
	// the values were written under version 1: its names must be interned as well
	v1P, _ := parse(s.OldSrc)
	v1M, _ := programOf(v1P)
	extra := append([]string{"Foo", "T", "Lib", "C", "I0", "X", "R0"}, codeNames(r.Codes)...)
	extra = append(extra, s.HandNames...)
	in := newInterner([]*mProgram{oldM, newM, v1M}, extra)
	xc := "[]"
	if s.XC {
		xc = fmt.Sprintf("[(((2,%s),[%s]),[TLocal [%s;%s]])]", in.id("Foo"), in.id("T"), in.id("C"), in.id("I0"))
	}
	full := func(t string) string {
		if k == 0 {
			return "(Some " + t + ")"
		}
		return "None"
	}
	var vals []string
	if s.Hand {
		for i, hv := range s.HandVals {
			ok := "true"
			if r.accepted() && i < len(r.OK) && !r.OK[i] {
				ok = "false"
			}
			vals = append(vals, "("+full(in.subst(hv))+","+in.subst(hv)+","+ok+")")
		}
	} else {
		for i, rt := range s.Roots {
			ok := "true"
			if r.accepted() && !r.OK[i] {
				ok = "false"
			}
			// roots read through references (contract fields, borrowed resources) only load what is
			// accessed; roots read with storage.copy load every stored field
			reach := rt.Val
			if rt.Name == "contract" || rt.ViaRef {
				reach = prune(rt.Val, st.NewG, rt.Name == "contract")
			}
			// values of a type removed with #removedType are given up by design, and whether a value
			// CONTAINING one (or a capability mentioning a removed entitlement, in a field a later
			// version dropped) still loads depends on container static types, which the model does
			// not have: such roots are checked for well-formedness only (the direct check in
			// runScenario still reports every failed inspection)
			for _, n := range st.Removed {
				if valMentions(rt.Val, n) {
					reach, ok = &Val{K: "int"}, "true"
				}
			}
			cv := full(renderAny(in, s.OldG, rt.Val, rt.Name == "contract")) + "," +
				renderAny(in, s.OldG, reach, rt.Name == "contract" && reach.K == "comp")
			vals = append(vals, "("+cv+","+ok+")")
		}
	}
	cw.Add(fmt.Sprintf("([], %s, %s, %s, %d, %s, [%s])", xc, in.program(oldM), in.program(newM), r.Verdict,
		in.codes(r.Codes), strings.Join(vals, ";")), desc)
}

// prune keeps of a stored value what the inspection under the new program reads: for composites
// whose type still exists, the fields the new declaration still has.
func prune(v *Val, np *gProgram, isContract bool) *Val {
	c := *v
	c.Elems, c.Keys, c.FVals, c.FNames = nil, nil, nil, nil
	for _, x := range v.Elems {
		c.Elems = append(c.Elems, prune(x, np, false))
	}
	c.Keys = append(c.Keys, v.Keys...)
	if v.K == "comp" {
		var nd *gDecl
		if isContract {
			nd = np.Root
		} else {
			nd = np.find(v.Name)
		}
		for i, n := range v.FNames {
			keep := nd == nil
			if nd != nil {
				for _, f := range nd.Fields {
					if f.Name == n { // still declared (possibly no longer public: then it is not read)
						keep = true
					}
				}
			}
			if keep {
				c.FNames = append(c.FNames, n)
				c.FVals = append(c.FVals, prune(v.FVals[i], np, false))
			}
		}
	} else {
		c.FNames = append(c.FNames, v.FNames...)
		for _, x := range v.FVals {
			c.FVals = append(c.FVals, prune(x, np, false))
		}
	}
	return &c
}

func renderAny(in *Interner, p *gProgram, v *Val, isContract bool) string {
	if isContract {
		var e []string
		for _, x := range v.FVals {
			e = append(e, in.value(p, x))
		}
		return fmt.Sprintf("(VComp [%s] %s [%s])", in.id("C"), in.names(v.FNames), strings.Join(e, ";"))
	}
	return in.value(p, v)
}

func valMentions(v *Val, name string) bool {
	if (v.K == "comp" || v.K == "enum") && v.Name == name {
		return true
	}
	if v.STy != nil && strings.Contains(v.STy.String(), name) {
		return true
	}
	for _, l := range [][]*Val{v.Elems, v.Keys, v.FVals} {
		for _, x := range l {
			if valMentions(x, name) {
				return true
			}
		}
	}
	return false
}

// subst replaces $name$ by the interned identifier (hand-written Coq values)
func (in *Interner) subst(s string) string {
	parts := strings.Split(s, "$")
	for i := 1; i < len(parts); i += 2 {
		parts[i] = in.id(parts[i])
	}
	return strings.Join(parts, "")
}
