package main

// Conversion of parsed programs (ast.Program) into the input of the Coq model
// (coq/theories/C27/Model.v: program, decl, ty, ...). The model input is taken from the SAME
// parsed AST the real validator receives, so the renderer of this harness is not trusted.

import (
	"fmt"
	"math/big"
	"sort"
	"strings"

	"github.com/onflow/cadence/ast"
	"github.com/onflow/cadence/common"
)

type mNom struct {
	ID     string
	Nested []string
}

type mAuth struct {
	K     string // none | conj | disj | map
	Elems []mNom
}

type mTy struct {
	K      string // nom opt var const dict ref inter fun inst
	Nom    mNom
	A, B   *mTy
	Size   *big.Int
	Base   int
	Auth   mAuth
	Inter  []mNom
	Purity int
	List   []*mTy // fun params / inst args
}

type mField struct {
	Name string
	Ty   *mTy
}

type mPragma struct {
	K    string // removed | badarity | badarg | other
	Name string
}

type mDecl struct {
	Kind    string
	Name    string
	Fields  []mField
	Nested  []*mDecl
	Confs   []mNom
	Cases   []string
	Pragmas []mPragma
	Base    *mNom
}

type mImportID struct{ ID, Alias string }
type mImport struct {
	HasAddr bool
	Addr    uint64
	IDs     []mImportID
}

type mProgram struct {
	Imports []mImport
	Root    *mDecl
}

func nomOf(t *ast.NominalType) mNom {
	n := mNom{ID: t.Identifier.Identifier}
	for _, x := range t.NestedIdentifiers {
		n.Nested = append(n.Nested, x.Identifier)
	}
	return n
}

func authOf(a ast.Authorization) mAuth {
	switch x := a.(type) {
	case nil:
		return mAuth{K: "none"}
	case *ast.ConjunctiveEntitlementSet:
		r := mAuth{K: "conj"}
		for _, e := range x.Elements {
			r.Elems = append(r.Elems, nomOf(e))
		}
		return r
	case *ast.DisjunctiveEntitlementSet:
		r := mAuth{K: "disj"}
		for _, e := range x.Elements {
			r.Elems = append(r.Elems, nomOf(e))
		}
		return r
	case *ast.MappedAccess:
		return mAuth{K: "map", Elems: []mNom{nomOf(x.EntitlementMap)}}
	}
	panic(fmt.Sprintf("unsupported authorization %T", a))
}

func tyOf(t ast.Type) *mTy {
	switch x := t.(type) {
	case *ast.NominalType:
		return &mTy{K: "nom", Nom: nomOf(x)}
	case *ast.OptionalType:
		return &mTy{K: "opt", A: tyOf(x.Type)}
	case *ast.VariableSizedType:
		return &mTy{K: "var", A: tyOf(x.Type)}
	case *ast.ConstantSizedType:
		return &mTy{K: "const", A: tyOf(x.Type), Size: new(big.Int).Set(x.Size.Value), Base: x.Size.Base}
	case *ast.DictionaryType:
		return &mTy{K: "dict", A: tyOf(x.KeyType), B: tyOf(x.ValueType)}
	case *ast.ReferenceType:
		return &mTy{K: "ref", Auth: authOf(x.Authorization), A: tyOf(x.Type)}
	case *ast.IntersectionType:
		r := &mTy{K: "inter"}
		for _, n := range x.Types {
			r.Inter = append(r.Inter, nomOf(n))
		}
		return r
	case *ast.FunctionType:
		r := &mTy{K: "fun", Purity: int(x.PurityAnnotation)}
		for _, p := range x.ParameterTypeAnnotations {
			r.List = append(r.List, tyOf(p.Type))
		}
		r.A = tyOf(x.ReturnTypeAnnotation.Type)
		return r
	case *ast.InstantiationType:
		r := &mTy{K: "inst", A: tyOf(x.Type)}
		for _, p := range x.TypeArguments {
			r.List = append(r.List, tyOf(p.Type))
		}
		return r
	}
	panic(fmt.Sprintf("unsupported type %T", t))
}

func kindName(k common.DeclarationKind) string {
	switch k {
	case common.DeclarationKindStructure:
		return "KStruct"
	case common.DeclarationKindResource:
		return "KResource"
	case common.DeclarationKindContract:
		return "KContract"
	case common.DeclarationKindEvent:
		return "KEvent"
	case common.DeclarationKindEnum:
		return "KEnum"
	case common.DeclarationKindStructureInterface:
		return "KStructIface"
	case common.DeclarationKindResourceInterface:
		return "KResIface"
	case common.DeclarationKindContractInterface:
		return "KContractIface"
	case common.DeclarationKindAttachment:
		return "KAttachment"
	case common.DeclarationKindEntitlement:
		return "KEntitlement"
	case common.DeclarationKindEntitlementMapping:
		return "KEntMapping"
	}
	panic("unsupported declaration kind " + k.Name())
}

func pragmaOf(p *ast.PragmaDeclaration) mPragma {
	inv, ok := p.Expression.(*ast.InvocationExpression)
	if !ok {
		return mPragma{K: "other"}
	}
	id, ok := inv.InvokedExpression.(*ast.IdentifierExpression)
	if !ok || id.Identifier.Identifier != "removedType" {
		return mPragma{K: "other"}
	}
	if len(inv.Arguments) != 1 {
		return mPragma{K: "badarity"}
	}
	arg, ok := inv.Arguments[0].Expression.(*ast.IdentifierExpression)
	if !ok {
		return mPragma{K: "badarg"}
	}
	return mPragma{K: "removed", Name: arg.Identifier.Identifier}
}

func declOf(d ast.Declaration) *mDecl {
	r := &mDecl{Kind: kindName(d.DeclarationKind()), Name: d.DeclarationIdentifier().Identifier}
	switch x := d.(type) {
	case *ast.CompositeDeclaration:
		for _, c := range x.Conformances {
			r.Confs = append(r.Confs, nomOf(c))
		}
	case *ast.InterfaceDeclaration:
		for _, c := range x.Conformances {
			r.Confs = append(r.Confs, nomOf(c))
		}
	case *ast.AttachmentDeclaration:
		for _, c := range x.Conformances {
			r.Confs = append(r.Confs, nomOf(c))
		}
		b := nomOf(x.BaseType)
		r.Base = &b
	}
	m := d.DeclarationMembers()
	if m == nil {
		return r
	}
	for _, f := range m.Fields() {
		r.Fields = append(r.Fields, mField{f.Identifier.Identifier, tyOf(f.TypeAnnotation.Type)})
	}
	for _, c := range m.EnumCases() {
		r.Cases = append(r.Cases, c.Identifier.Identifier)
	}
	for _, p := range m.Pragmas() {
		r.Pragmas = append(r.Pragmas, pragmaOf(p))
	}
	for _, n := range m.Declarations() {
		switch n.(type) {
		case *ast.CompositeDeclaration, *ast.InterfaceDeclaration, *ast.AttachmentDeclaration,
			*ast.EntitlementDeclaration, *ast.EntitlementMappingDeclaration:
			r.Nested = append(r.Nested, declOf(n))
		}
	}
	return r
}

// programOf converts a parsed program; ok=false when it has no sole contract (interface).
func programOf(p *ast.Program) (*mProgram, bool) {
	var root ast.Declaration
	if c := p.SoleContractDeclaration(); c != nil {
		root = c
	} else if i := p.SoleContractInterfaceDeclaration(); i != nil {
		root = i
	} else {
		return nil, false
	}
	r := &mProgram{Root: declOf(root)}
	for _, imp := range p.ImportDeclarations() {
		mi := mImport{}
		if al, ok := imp.Location.(common.AddressLocation); ok {
			mi.HasAddr = true
			var a uint64
			for _, b := range al.Address {
				a = a<<8 | uint64(b)
			}
			mi.Addr = a
		}
		for _, id := range imp.Imports {
			mi.IDs = append(mi.IDs, mImportID{id.Identifier.Identifier, id.Alias.Identifier})
		}
		r.Imports = append(r.Imports, mi)
	}
	return r, true
}

// ---------------------------------------------------------------- interning

// built-in type names get the fixed identifiers 1..99 (Spec.v: is_builtin)
var builtinIDs = map[string]int{
	"Int": 1, "String": 2, "Bool": 3, "UInt8": 4, "UInt64": 5, "Address": 6, "AnyStruct": 7,
	"AnyResource": 8, "Capability": 9, "Type": 10, "Character": 11, "Int8": 12, "UFix64": 13,
	"Path": 14, "Void": 15, "Never": 16, "Integer": 17, "Number": 18, "Int16": 19, "Int32": 20,
	"Int64": 21, "UInt16": 22, "UInt32": 23, "UInt": 24, "Fix64": 25, "StoragePath": 26,
	"PublicPath": 27, "Int128": 28, "Int256": 29, "UInt128": 30, "UInt256": 31, "Word8": 32,
	"Word64": 33, "SignedInteger": 34, "FixedPoint": 35, "CapabilityPath": 36, "Block": 37,
}

// Interner maps identifier strings to Z so that Z order = string order for non-built-ins.
type Interner struct {
	ids map[string]int
}

func newInterner(progs []*mProgram, extra []string) *Interner {
	set := map[string]bool{}
	add := func(s string) {
		if s != "" {
			set[s] = true
		}
	}
	var walkNom func(n mNom)
	walkNom = func(n mNom) {
		add(n.ID)
		for _, x := range n.Nested {
			add(x)
		}
	}
	var walkTy func(t *mTy)
	walkTy = func(t *mTy) {
		if t == nil {
			return
		}
		walkNom(t.Nom)
		walkTy(t.A)
		walkTy(t.B)
		for _, n := range t.Auth.Elems {
			walkNom(n)
		}
		for _, n := range t.Inter {
			walkNom(n)
		}
		for _, x := range t.List {
			walkTy(x)
		}
	}
	var walkDecl func(d *mDecl)
	walkDecl = func(d *mDecl) {
		add(d.Name)
		for _, f := range d.Fields {
			add(f.Name)
			walkTy(f.Ty)
		}
		for _, n := range d.Nested {
			walkDecl(n)
		}
		for _, c := range d.Confs {
			walkNom(c)
		}
		for _, c := range d.Cases {
			add(c)
		}
		for _, p := range d.Pragmas {
			add(p.Name)
		}
		if d.Base != nil {
			walkNom(*d.Base)
		}
	}
	for _, p := range progs {
		if p == nil {
			continue
		}
		for _, i := range p.Imports {
			for _, id := range i.IDs {
				add(id.ID)
				add(id.Alias)
			}
		}
		walkDecl(p.Root)
	}
	for _, s := range extra {
		add(s)
	}
	var names []string
	for s := range set {
		if _, ok := builtinIDs[s]; !ok {
			names = append(names, s)
		}
	}
	sort.Strings(names)
	in := &Interner{ids: map[string]int{}}
	for k, v := range builtinIDs {
		in.ids[k] = v
	}
	for i, s := range names {
		in.ids[s] = 100 + i
	}
	return in
}

func (in *Interner) id(s string) string {
	v, ok := in.ids[s]
	if !ok {
		panic("identifier not interned: " + s)
	}
	return fmt.Sprint(v)
}

func (in *Interner) names(l []string) string {
	parts := make([]string, len(l))
	for i, s := range l {
		parts[i] = in.id(s)
	}
	return "[" + strings.Join(parts, ";") + "]"
}

// ---------------------------------------------------------------- Coq rendering

func (in *Interner) nom(n mNom) string {
	return "(" + in.id(n.ID) + "," + in.names(n.Nested) + ")"
}

func (in *Interner) noms(l []mNom) string {
	parts := make([]string, len(l))
	for i, n := range l {
		parts[i] = in.nom(n)
	}
	return "[" + strings.Join(parts, ";") + "]"
}

func (in *Interner) auth(a mAuth) string {
	switch a.K {
	case "none":
		return "ANone"
	case "conj":
		return "(AConj " + in.noms(a.Elems) + ")"
	case "disj":
		return "(ADisj " + in.noms(a.Elems) + ")"
	case "map":
		return "(AMap " + in.nom(a.Elems[0]) + ")"
	}
	panic(a.K)
}

func (in *Interner) tys(l []*mTy) string {
	parts := make([]string, len(l))
	for i, t := range l {
		parts[i] = in.ty(t)
	}
	return "[" + strings.Join(parts, ";") + "]"
}

func zlit(z *big.Int) string {
	if z.Sign() < 0 {
		return "(" + z.String() + ")"
	}
	return z.String()
}

func (in *Interner) ty(t *mTy) string {
	switch t.K {
	case "nom":
		return "(TNom " + in.nom(t.Nom) + ")"
	case "opt":
		return "(TOpt " + in.ty(t.A) + ")"
	case "var":
		return "(TVar " + in.ty(t.A) + ")"
	case "const":
		return fmt.Sprintf("(TConst %s %s %d)", in.ty(t.A), zlit(t.Size), t.Base)
	case "dict":
		return "(TDict " + in.ty(t.A) + " " + in.ty(t.B) + ")"
	case "ref":
		return "(TRef " + in.auth(t.Auth) + " " + in.ty(t.A) + ")"
	case "inter":
		return "(TInter " + in.noms(t.Inter) + ")"
	case "fun":
		return fmt.Sprintf("(TFun %d %s %s)", t.Purity, in.tys(t.List), in.ty(t.A))
	case "inst":
		return "(TInst " + in.ty(t.A) + " " + in.tys(t.List) + ")"
	}
	panic(t.K)
}

func (in *Interner) decl(d *mDecl) string {
	var fs, ns, ps []string
	for _, f := range d.Fields {
		fs = append(fs, "("+in.id(f.Name)+","+in.ty(f.Ty)+")")
	}
	for _, n := range d.Nested {
		ns = append(ns, in.decl(n))
	}
	for _, p := range d.Pragmas {
		switch p.K {
		case "removed":
			ps = append(ps, "PRemoved "+in.id(p.Name))
		case "badarity":
			ps = append(ps, "PBadArity")
		case "badarg":
			ps = append(ps, "PBadArg")
		default:
			ps = append(ps, "POther")
		}
	}
	base := "None"
	if d.Base != nil {
		base = "(Some " + in.nom(*d.Base) + ")"
	}
	return fmt.Sprintf("(Decl %s %s [%s] [%s] %s %s [%s] %s)", d.Kind, in.id(d.Name),
		strings.Join(fs, ";"), strings.Join(ns, ";"), in.noms(d.Confs), in.names(d.Cases),
		strings.Join(ps, ";"), base)
}

func (in *Interner) program(p *mProgram) string {
	var is []string
	for _, i := range p.Imports {
		addr := "None"
		if i.HasAddr {
			addr = fmt.Sprintf("(Some %d)", i.Addr)
		}
		var ids []string
		for _, id := range i.IDs {
			al := "0"
			if id.Alias != "" {
				al = in.id(id.Alias)
			}
			ids = append(ids, "("+in.id(id.ID)+","+al+")")
		}
		is = append(is, "("+addr+",["+strings.Join(ids, ";")+"])")
	}
	return "(Program [" + strings.Join(is, ";") + "] " + in.decl(p.Root) + ")"
}

// acct renders account contract names (for wildcard imports).
func (in *Interner) acct(a map[uint64][]string) string {
	var keys []uint64
	for k := range a {
		keys = append(keys, k)
	}
	sort.Slice(keys, func(i, j int) bool { return keys[i] < keys[j] })
	var parts []string
	for _, k := range keys {
		parts = append(parts, fmt.Sprintf("(%d,%s)", k, in.names(a[k])))
	}
	return "[" + strings.Join(parts, ";") + "]"
}
