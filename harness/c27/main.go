// Command c27: correspondence harness for C27 (accepted contract updates keep stored data usable).
//
// Leg A (direct): random (old, new) contract pairs produced by mutating a generated contract are
// parsed with the real parser and given to the real stdlib.ContractUpdateValidator; the ordered
// list of reported error kinds (with names) is written to Coq case files together with the two
// programs (converted from the parsed ASTs) and compared with the Coq model `validate`.
//
// Leg B (end to end): checker-valid contracts with values stored in contract fields and account
// storage; the old version is deployed through the runtime, values are stored, the new version
// is submitted through `contracts.update` (both engines), and after an accepted update every
// stored value is loaded and fully inspected under the new code. The real verdict is compared
// with the model verdict and the inspection result with the model's `usable`; an accepted update
// after which a stored value cannot be used is reported as a direct failure.
package main

import (
	"errors"
	"flag"
	"fmt"
	"os"
	"strings"

	"cvh/lib"

	"github.com/onflow/cadence/ast"
	"github.com/onflow/cadence/common"
	"github.com/onflow/cadence/parser"
	"github.com/onflow/cadence/stdlib"
)

var (
	prop = flag.String("prop", "C27", "property id")
	seed = flag.Uint64("seed", 1, "seed")
	tier = flag.String("tier", "quick", "quick|thorough")
	dir  = flag.String("dir", ".", "output directory")
)

type namesProvider struct{}

func (namesProvider) GetAccountContractNames(address common.Address) ([]string, error) {
	var a uint64
	for _, b := range address {
		a = a<<8 | uint64(b)
	}
	return accountNames[a], nil
}

type code3 struct {
	Code int
	A, B string
}

// errorCodes maps the errors of a ContractUpdateError to the codes of Model.v (uerr_code)
func errorCodes(errs []error) []code3 {
	var out []code3
	for _, e := range errs {
		switch x := e.(type) {
		case *stdlib.NameMismatchError:
			out = append(out, code3{1, x.OldName, x.NewName})
		case *stdlib.ExtraneousFieldError:
			out = append(out, code3{2, x.DeclName, x.FieldName})
		case *stdlib.FieldMismatchError:
			out = append(out, code3{3, x.DeclName, x.FieldName})
		case *stdlib.InvalidDeclarationKindChangeError:
			out = append(out, code3{4, x.Name, ""})
		case *stdlib.MissingDeclarationError:
			out = append(out, code3{5, x.Name, ""})
		case *stdlib.InvalidTypeRemovalPragmaError:
			out = append(out, code3{6, "", ""})
		case *stdlib.UseOfRemovedTypeError:
			out = append(out, code3{7, x.Declaration.DeclarationIdentifier().Identifier, ""})
		case *stdlib.TypeRemovalPragmaRemovalError:
			out = append(out, code3{8, x.RemovedType, ""})
		case *stdlib.MissingEnumCasesError:
			out = append(out, code3{9, x.DeclName, ""})
		case *stdlib.EnumCaseMismatchError:
			out = append(out, code3{10, x.ExpectedName, x.FoundName})
		case *stdlib.ConformanceMismatchError:
			out = append(out, code3{11, x.DeclName, ""})
		case *stdlib.TypeMismatchError:
			out = append(out, code3{12, "", ""})
		default:
			out = append(out, code3{99, fmt.Sprintf("%T", e), ""})
		}
	}
	return out
}

func codesStrings(cs []code3) []string {
	var out []string
	for _, c := range cs {
		out = append(out, fmt.Sprintf("%d(%s,%s)", c.Code, c.A, c.B))
	}
	return out
}

func (in *Interner) codes(cs []code3) string {
	var parts []string
	for _, c := range cs {
		a, b := "0", "0"
		if c.A != "" {
			a = in.id(c.A)
		}
		if c.B != "" {
			b = in.id(c.B)
		}
		parts = append(parts, fmt.Sprintf("(%d,%s,%s)", c.Code, a, b))
	}
	return "[" + strings.Join(parts, ";") + "]"
}

func codeNames(cs []code3) []string {
	var out []string
	for _, c := range cs {
		out = append(out, c.A, c.B)
	}
	return out
}

func parse(src string) (*ast.Program, error) {
	return parser.ParseProgram(nil, []byte(src), parser.Config{})
}

// runValidator runs the real validator on two parsed programs.
func runValidator(oldP, newP *ast.Program, name string) (codes []code3, crash any) {
	defer func() {
		if r := recover(); r != nil {
			crash = r
		}
	}()
	loc := common.AddressLocation{Address: common.MustBytesToAddress([]byte{1}), Name: name}
	v := stdlib.NewContractUpdateValidator(loc, name, namesProvider{}, oldP, newP)
	err := v.Validate()
	if err == nil {
		return nil, nil
	}
	var cue *stdlib.ContractUpdateError
	if errors.As(err, &cue) {
		return errorCodes(cue.Errors), nil
	}
	return []code3{{99, fmt.Sprintf("%T", err), ""}}, nil
}

func main() {
	flag.Parse()
	sum := &lib.Summary{}
	rng := lib.NewRng(*seed)
	sum.Rule = "leg A: (old,new) pairs = generated contract + 1..3 mutations (field add/remove/retype/reorder/rename/access, " +
		"nested declaration add/remove/kind change/rename/reorder, conformance add/remove/reorder/qualify, enum case append/insert/remove/reorder/rename, " +
		"#removedType pragmas well- and ill-formed, import add/remove/change, root kind/name, attachment base); real validator error list vs Coq model. " +
		"leg B: checker-valid contracts with stored values, real update through the runtime in both engines, stored values inspected after accepted updates; " +
		"non-trivial = the pair differs (at least one effective mutation) and both programs parse; distinct = distinct (old source, new source)"
	distinct := map[string]bool{}
	var files []string
	files = append(files, legDirect(sum, rng, distinct)...)
	files = append(files, legE2E(sum, rng, distinct)...)
	sum.CaseFiles = files
	sum.DistinctNontrivial = len(distinct)
	sum.Write(*dir)
	_ = os.Stderr
}

func legDirect(sum *lib.Summary, rng *lib.Rng, distinct map[string]bool) []string {
	cw := &lib.CaseWriter{
		Dir: *dir, Prefix: "cases_C27_direct",
		Header:   "From CV Require Import C27.Cases.",
		ElemType: "acct_names * program * program * list code3",
		CheckFn:  "check_validate",
		PerFile:  250,
	}
	n := 600
	if *tier == "thorough" {
		n = 12000
	}
	g := &dgen{r: rng}
	for i := 0; i < n; i++ {
		oldG := g.program()
		newG := oldG.clone()
		var labels []string
		for k := 0; k <= rng.Intn(3); k++ {
			if l := g.mutate(newG); l != "none" {
				labels = append(labels, l)
			}
		}
		directCase(sum, cw, distinct, oldG.Source(), newG.Source(), labels)
	}
	// fixed corner cases
	for _, c := range directCorpus {
		directCase(sum, cw, distinct, c[0], c[1], []string{"corpus"})
	}
	cw.Close()
	return cw.Files
}

func directCase(sum *lib.Summary, cw *lib.CaseWriter, distinct map[string]bool, oldSrc, newSrc string, labels []string) {
	oldP, err1 := parse(oldSrc)
	newP, err2 := parse(newSrc)
	if err1 != nil || err2 != nil {
		sum.Count("direct: parse error (skipped)")
		return
	}
	oldM, ok1 := programOf(oldP)
	newM, ok2 := programOf(newP)
	if !ok1 || !ok2 {
		sum.Count("direct: no sole contract (skipped)")
		return
	}
	sum.Evaluations++
	codes, crash := runValidator(oldP, newP, newM.Root.Name)
	desc := map[string]any{"leg": "direct", "old": oldSrc, "new": newSrc, "mutations": labels, "observed": codesStrings(codes)}
	if crash != nil {
		sum.Fail("validator-crash", fmt.Sprintf("ContractUpdateValidator panicked: %v", crash), desc)
		return
	}
	if oldSrc != newSrc {
		distinct[oldSrc+"\x00"+newSrc] = true
	}
	if len(codes) == 0 {
		sum.Count("direct: accepted")
	} else {
		sum.Count("direct: rejected")
		for _, c := range codes {
			sum.Count(fmt.Sprintf("direct error kind %d", c.Code))
		}
	}
	for _, l := range labels {
		sum.Count("direct mutation " + strings.SplitN(l, ":", 2)[0])
	}
	var extra []string
	for _, ns := range accountNames {
		extra = append(extra, ns...)
	}
	in := newInterner([]*mProgram{oldM, newM}, append(extra, codeNames(codes)...))
	cw.Add(fmt.Sprintf("(%s, %s, %s, %s)", in.acct(accountNames), in.program(oldM), in.program(newM), in.codes(codes)), desc)
	if len(labels) > 0 && len(codes) > 0 {
		sum.Sample(map[string]any{"mutations": labels, "observed": codesStrings(codes), "new": newSrc})
	}
}

// hand-picked pairs for the direct leg
var directCorpus = [][2]string{
	{"access(all) contract C { access(all) struct S { access(all) var a: Int } }",
		"access(all) contract C { access(all) struct S { access(all) var a: Int? } }"},
	{"access(all) contract C { access(all) struct S { access(all) var a: Int? } }",
		"access(all) contract C { access(all) struct S { access(all) var a: Int } }"},
	{"access(all) contract C { access(all) enum E: UInt8 { access(all) case a\n access(all) case b } }",
		"access(all) contract C { access(all) enum E: UInt8 { access(all) case b\n access(all) case a } }"},
	{"access(all) contract C { access(all) resource R {} }",
		"access(all) contract C { }"},
	{"access(all) contract C { access(all) resource R {} }",
		"access(all) contract C { #removedType(R) }"},
	{"access(all) contract C { access(all) resource interface R {} }",
		"access(all) contract C { #removedType(R) }"},
	{"access(all) contract C { access(all) struct interface I {}\n access(all) struct S: I {} }",
		"access(all) contract C { access(all) struct interface I {}\n access(all) struct S {} }"},
	{"access(all) contract C { access(all) struct interface I {}\n access(all) struct interface J: I {} }",
		"access(all) contract C { access(all) struct interface I {}\n access(all) struct interface J {} }"},
	{"import S from 0x2\naccess(all) contract C { access(all) var c: Capability<&S>? }",
		"access(all) contract C { access(all) struct S {}\n access(all) var c: Capability<&C.S>? }"},
	{"access(all) contract C { access(all) struct S {}\n access(all) var c: C.S }",
		"import S from 0x2\naccess(all) contract C { #removedType(S)\n access(all) var c: S }"},
	{"access(all) contract C { access(all) var a: [Int; 2] }",
		"access(all) contract C { access(all) var a: [Int; 0x2] }"},
	{"access(all) contract C { access(all) var a: {I, J} }",
		"access(all) contract C { access(all) var a: {J, I} }"},
	{"access(all) contract C { #removedType(A) }",
		"access(all) contract C { }"},
	{"access(all) contract C { #removedType(A)\n #removedType(B)\n #removedType(A) }",
		"access(all) contract C { #removedType(B) }"},
	{"access(all) contract C { access(all) struct A {}\n access(all) struct B {}\n access(all) struct D {} }",
		"access(all) contract C { }"},
	{"access(all) contract C { access(all) struct A {} }",
		"access(all) contract C { access(all) struct A {}\n #removedType(A) }"},
	{"access(all) contract C { access(all) attachment A for S {} }",
		"access(all) contract C { access(all) attachment A for T {} }"},
	{"access(all) contract C { access(all) struct S {} }",
		"access(all) contract interface C { access(all) struct S {} }"},
	{"access(all) contract C { access(all) var a: auth(E) &Int }",
		"access(all) contract C { access(all) var a: &Int }"},
	{"access(all) contract C { access(all) var a: auth(E, F) &Int }",
		"access(all) contract C { access(all) var a: auth(E | F) &Int }"},
	{"access(all) contract C { access(all) var a: fun(Int): Int }",
		"access(all) contract C { access(all) var a: view fun(Int): Int }"},
	{"access(all) contract C { access(all) var a: Capability<&Int> }",
		"access(all) contract C { access(all) var a: Capability<&Int, &Int> }"},
	{"access(all) contract C { access(all) struct S {}\n access(all) struct interface S {} }",
		"access(all) contract C { access(all) struct interface S {} }"},
	{"access(all) contract C { access(all) entitlement E }",
		"access(all) contract C { }"},
	// second half of "remove with #removedType, later declare the name again": the old version
	// has only the pragma
	{"access(all) contract C { #removedType(S) }",
		"access(all) contract C { #removedType(S)\n access(all) struct S { access(all) var a: String } }"},
	{"access(all) contract C { #removedType(S) }",
		"access(all) contract C { #removedType(S)\n access(all) resource S {} }"},
	{"access(all) contract C { #removedType(S) }",
		"access(all) contract C { #removedType(S)\n access(all) enum S: UInt8 { access(all) case a } }"},
	{"access(all) contract C { #removedType(S) }",
		"access(all) contract C { #removedType(S)\n access(all) struct interface S {} }"},
	{"access(all) contract C { #removedType(S)\n access(all) struct T {} }",
		"access(all) contract C { #removedType(S)\n access(all) struct T {}\n access(all) attachment S for T {} }"},
	{"access(all) contract C { #removedType(S) }",
		"access(all) contract C { access(all) struct S {} }"},
	{"access(all) contract C { #removedType(S) }",
		"access(all) contract C { }"},
	{"access(all) contract C { #removedType(S)\n #removedType(T) }",
		"access(all) contract C { #removedType(T)\n #removedType(S)\n access(all) event T() }"},
	{"access(all) contract C { access(all) struct A { #removedType(S) } }",
		"access(all) contract C { access(all) struct A { #removedType(S)\n access(all) struct S {} } }"},
	{"access(all) contract C { }",
		"access(all) contract C { #removedType(S)\n access(all) struct S {} }"},
}
