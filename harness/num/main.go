// Command num: correspondence + direct-oracle harness for the integer arithmetic properties
// (C11 checked arithmetic, C12 word arithmetic, C13 saturating arithmetic, C14 bitwise/shift).
// It drives the real interpreter value methods (and scripts in both engines) and writes
// Coq case files holding inputs and observed outputs for evaluation against the Coq model.
package main

import (
	"flag"
	"fmt"
	"math/big"
	"os"
	"sort"
	"strings"

	"cvh/lib"

	"github.com/onflow/cadence/common"
	"github.com/onflow/cadence/interpreter"
	"github.com/onflow/cadence/sema"
)

type op struct {
	Name string // Coq constructor
	Sym  string // Cadence syntax (infix) or method name
	Call func(a, b interpreter.IntegerValue) interpreter.Value
}

var arith = []op{
	{"OAdd", "+", func(a, b interpreter.IntegerValue) interpreter.Value { return a.Plus(nil, b) }},
	{"OSub", "-", func(a, b interpreter.IntegerValue) interpreter.Value { return a.Minus(nil, b) }},
	{"OMul", "*", func(a, b interpreter.IntegerValue) interpreter.Value { return a.Mul(nil, b) }},
	{"ODiv", "/", func(a, b interpreter.IntegerValue) interpreter.Value { return a.Div(nil, b) }},
	{"ORem", "%", func(a, b interpreter.IntegerValue) interpreter.Value { return a.Mod(nil, b) }},
}

type outcome struct {
	cls string
	z   *big.Int
}

func (o outcome) String() string {
	if o.cls != "" {
		return "Err " + o.cls
	}
	return o.z.String()
}

func (o outcome) eq(p outcome) bool {
	if o.cls != "" || p.cls != "" {
		return o.cls == p.cls
	}
	return o.z.Cmp(p.z) == 0
}

func run(t lib.IntType, o op, a, b *big.Int) (res outcome) {
	cls, _ := lib.Catch(func() {
		v := o.Call(t.Make(a), t.Make(b))
		if v == nil {
			res.cls = lib.ECrash
			return
		}
		res.z = lib.ValueToBig(v)
	})
	if cls != "" {
		res = outcome{cls: cls}
	}
	return
}

var (
	prop = flag.String("prop", "C12", "property id")
	seed = flag.Uint64("seed", 1, "seed")
	tier = flag.String("tier", "quick", "quick|thorough")
	dir  = flag.String("dir", ".", "output directory")
)

func main() {
	flag.Parse()
	sum := &lib.Summary{}
	switch *prop {
	case "C12":
		c12(sum)
	case "C11":
		c11(sum)
	case "C13":
		c13(sum)
	case "C14":
		c14(sum)
	case "C32":
		c32(sum)
	case "C21":
		c21(sum)
	default:
		fmt.Fprintln(os.Stderr, "unknown prop", *prop)
		os.Exit(2)
	}
	sum.Write(*dir)
}

func mod2n(z *big.Int, n int) *big.Int {
	m := new(big.Int).Lsh(big.NewInt(1), uint(n))
	r := new(big.Int).Mod(z, m) // Euclidean: non-negative
	return r
}

// exactOp computes the exact mathematical result with truncated division.
func exactOp(name string, a, b *big.Int) *big.Int {
	switch name {
	case "OAdd":
		return new(big.Int).Add(a, b)
	case "OSub":
		return new(big.Int).Sub(a, b)
	case "OMul":
		return new(big.Int).Mul(a, b)
	case "ODiv":
		return new(big.Int).Quo(a, b)
	case "ORem":
		return new(big.Int).Rem(a, b)
	}
	panic(name)
}

func c12(sum *lib.Summary) {
	rng := lib.NewRng(*seed)
	cw := &lib.CaseWriter{
		Dir: *dir, Prefix: "cases_C12",
		Header:   "From CV Require Import Num.NumCases.",
		ElemType: "Z * binop * Z * Z * res Z",
		CheckFn:  "check_word",
		PerFile:  700,
	}
	distinct := map[string]bool{}
	nrand := 300
	coqRand := 40
	if *tier == "thorough" {
		nrand = 20000
		coqRand = 400
	}
	sum.Rule = "Word8..Word256 x {+,-,*,/,%}: all pairs of the boundary lattice, " +
		"random operand pairs of varied bit length, Word8 exhaustively (65536 pairs per operator); every case is compared " +
		"with a math/big oracle ((a op b) mod 2^n, DivZero iff b=0) in Go; lattice pairs and a random sample are also evaluated by " +
		"the Coq model word_model via vm_compute; a sample runs as scripts in interpreter and VM. " +
		"non-trivial = result wraps (exact result outside [0,2^n)) or divisor is zero; distinct = distinct (type,op,a,b)"
	check := func(t lib.IntType, o op, a, b *big.Int, toCoq bool) {
		got := run(t, o, a, b)
		sum.Evaluations++
		var want outcome
		wraps := false
		if (o.Name == "ODiv" || o.Name == "ORem") && b.Sign() == 0 {
			want = outcome{cls: lib.EDivZero}
			wraps = true
		} else {
			ex := exactOp(o.Name, a, b)
			want = outcome{z: mod2n(ex, t.Bits)}
			wraps = ex.Cmp(want.z) != 0
		}
		key := fmt.Sprintf("%s %s %s %s", t.Name, o.Name, a, b)
		if wraps && !distinct[key] {
			distinct[key] = true
			sum.DistinctNontrivial++
		}
		sum.Count(t.Name + " " + o.Sym)
		if wraps {
			sum.Count("wraps-or-divzero")
		}
		if !got.eq(want) {
			sum.Fail(fmt.Sprintf("word-arith:%s:%s", t.Name, o.Name),
				fmt.Sprintf("%s: %s %s %s = %s, required %s", t.Name, a, o.Sym, b, got, want),
				map[string]any{"type": t.Name, "op": o.Sym, "a": a.String(), "b": b.String(), "observed": got.String(), "required": want.String(), "via": "interpreter value method"})
		}
		if toCoq {
			cw.Add(fmt.Sprintf("(%d, %s, %s, %s, %s)", t.Bits, o.Name, lib.Z(a), lib.Z(b), lib.ResZ(got.cls, got.z)),
				map[string]any{"type": t.Name, "op": o.Sym, "a": a.String(), "b": b.String(), "observed": got.String()})
		}
		if wraps {
			sum.Sample(map[string]string{"type": t.Name, "expr": fmt.Sprintf("%s %s %s", a, o.Sym, b), "observed": got.String()})
		}
	}
	for _, t := range lib.IntTypes {
		if t.Kind != "word" {
			continue
		}
		lat := t.Lattice()
		for _, o := range arith {
			for i, a := range lat {
				for j, b := range lat {
					// all lattice pairs go to the Go oracle; a deterministic third also to Coq (all at thorough tier)
					check(t, o, a, b, *tier == "thorough" || (i*31+j*17)%5 == 0)
				}
			}
			for i := 0; i < nrand; i++ {
				check(t, o, t.Random(rng), t.Random(rng), i < coqRand)
			}
			if t.Bits == 8 {
				for a := int64(0); a < 256; a++ {
					for b := int64(0); b < 256; b++ {
						check(t, o, big.NewInt(a), big.NewInt(b), false)
					}
				}
			}
		}
	}
	cw.Close()
	sum.CaseFiles = cw.Files

	// scripts through both engines
	h := lib.NewHost()
	nscript := 60
	if *tier == "thorough" {
		nscript = 1500
	}
	for i := 0; i < nscript; i++ {
		t := lib.Pick(rng, lib.IntTypes[12:18])
		o := lib.Pick(rng, arith)
		lat := t.Lattice()
		a, b := lib.Pick(rng, lat), lib.Pick(rng, lat)
		if rng.Bool() {
			a, b = t.Random(rng), t.Random(rng)
		}
		src := fmt.Sprintf("access(all) fun main(): %s { let a: %s = %s; let b: %s = %s; return a %s b }", t.Name, t.Name, a, t.Name, b, o.Sym)
		direct := run(t, o, a, b)
		for _, vm := range []bool{false, true} {
			out := h.RunScript(src, nil, vm)
			sum.Evaluations++
			sum.Count(fmt.Sprintf("script vm=%v", vm))
			var got outcome
			if out.Class != "" {
				got = outcome{cls: out.Class}
			} else {
				z, _ := new(big.Int).SetString(out.Value.String(), 10)
				got = outcome{z: z}
			}
			if !got.eq(direct) {
				sum.Fail(fmt.Sprintf("word-arith-script:%s:%s:vm=%v", t.Name, o.Name, vm),
					fmt.Sprintf("script `%s` (vm=%v) gives %s but the value method gives %s (err: %v)", src, vm, got, direct, out.Err),
					map[string]any{"script": src, "vm": vm, "observed": got.String(), "value_method": direct.String()})
			}
		}
	}
}

// fitOracle: exact-or-fail.
func fitOracle(t lib.IntType, z *big.Int) outcome {
	if m := t.Min(); m != nil && z.Cmp(m) < 0 {
		return outcome{cls: lib.EUnderflow}
	}
	if m := t.Max(); m != nil && z.Cmp(m) > 0 {
		return outcome{cls: lib.EOverflow}
	}
	return outcome{z: z}
}

func clampOracle(t lib.IntType, z *big.Int) outcome {
	if m := t.Min(); m != nil && z.Cmp(m) < 0 {
		return outcome{z: m}
	}
	if m := t.Max(); m != nil && z.Cmp(m) > 0 {
		return outcome{z: m}
	}
	return outcome{z: z}
}

// pairs enumerates the operand pairs of a type: lattice x lattice, random, and exhaustive for 8 bits.
// f(a, b, toCoq)
func pairs(t lib.IntType, rng *lib.Rng, nrand, coqRand int, f func(a, b *big.Int, toCoq bool)) {
	lat := t.Lattice()
	for i, a := range lat {
		for j, b := range lat {
			f(a, b, (*tier == "thorough" && (i*31+j*17)%6 == 0) || (i*31+j*17)%40 == 0)
		}
	}
	for i := 0; i < nrand; i++ {
		f(t.Random(rng), t.Random(rng), i < coqRand)
	}
	// operands whose product / sum / difference lies right at a bound
	if mx := t.Max(); mx != nil {
		for i := 0; i < nrand/4+8; i++ {
			a := t.Random(rng)
			if a.Sign() == 0 {
				continue
			}
			bound := mx
			if rng.Bool() && t.Min() != nil && t.Min().Sign() < 0 {
				bound = t.Min()
			}
			q := new(big.Int).Quo(bound, a)
			for _, d := range []int64{-1, 0, 1} {
				b := new(big.Int).Add(q, big.NewInt(d))
				if t.InRange(b) {
					f(a, b, i < coqRand/2+4)
				}
			}
			s := new(big.Int).Sub(bound, a)
			for _, d := range []int64{-1, 0, 1} {
				b := new(big.Int).Add(s, big.NewInt(d))
				if t.InRange(b) {
					f(a, b, i < coqRand/4+2)
				}
				nb := new(big.Int).Neg(b)
				if t.InRange(nb) {
					f(a, nb, false)
				}
			}
		}
	}
	// exact quotient boundaries: a = floor(bound / b) and its neighbours for small and random b, both orders
	for _, bound := range []*big.Int{t.Max(), t.Min()} {
		if bound == nil || bound.Sign() == 0 {
			continue
		}
		var bs []*big.Int
		for _, k := range []int64{2, 3, 5, 7, 10, 16, 255, 256, -1, -2, -3, -7} {
			bs = append(bs, big.NewInt(k))
		}
		for i := 0; i < 6; i++ {
			bs = append(bs, t.Random(rng))
		}
		for i, b := range bs {
			if b.Sign() == 0 || !t.InRange(b) {
				continue
			}
			q := new(big.Int).Quo(bound, b)
			for _, d := range []int64{-1, 0, 1} {
				a := new(big.Int).Add(q, big.NewInt(d))
				if t.InRange(a) {
					f(a, b, i < 6 || *tier == "thorough")
					f(b, a, false)
				}
			}
		}
	}
	if t.Bits == 8 {
		lo, hi := t.Min().Int64(), t.Max().Int64()
		for a := lo; a <= hi; a++ {
			for b := lo; b <= hi; b++ {
				f(big.NewInt(a), big.NewInt(b), false)
			}
		}
	}
}

func sizes() (nrand, coqRand, nscript int) {
	if *tier == "thorough" {
		return 20000, 400, 1500
	}
	return 300, 30, 60
}

func c11(sum *lib.Summary) {
	rng := lib.NewRng(*seed)
	cw := &lib.CaseWriter{Dir: *dir, Prefix: "cases_C11", Header: "From CV Require Import Num.NumCases.",
		ElemType: "ikind * binop * Z * Z * res Z", CheckFn: "check_checked", PerFile: 700}
	cwn := &lib.CaseWriter{Dir: *dir, Prefix: "cases_C11neg", Header: "From CV Require Import Num.NumCases.",
		ElemType: "ikind * Z * res Z", CheckFn: "check_neg", PerFile: 700}
	distinct := map[string]bool{}
	nrand, coqRand, nscript := sizes()
	sum.Rule = "Int8..Int256, UInt8..UInt256, Int, UInt x {+,-,*,/,%,unary -}: all pairs of the boundary lattice, random pairs of varied " +
		"bit length, pairs whose sum/difference/product lies within 1 of a bound, all 65536 pairs per operator for Int8 and UInt8; every case " +
		"compared with a math/big oracle (exact-or-fail with truncated division) in Go; lattice pairs (a fifth at quick tier) and a random " +
		"sample also evaluated by the Coq model checked_model; a sample runs as scripts in interpreter and VM. non-trivial = the required " +
		"outcome is an error, or the exact result is within 1 of a bound of the type; distinct = distinct (type,op,a,b)"
	var types []lib.IntType
	for _, t := range lib.IntTypes {
		if t.Kind != "word" {
			types = append(types, t)
		}
	}
	for _, t := range types {
		for _, o := range arith {
			pairs(t, rng, nrand, coqRand, func(a, b *big.Int, toCoq bool) {
				got := run(t, o, a, b)
				sum.Evaluations++
				var want outcome
				nontriv := false
				if (o.Name == "ODiv" || o.Name == "ORem") && b.Sign() == 0 {
					want = outcome{cls: lib.EDivZero}
					nontriv = true
				} else {
					ex := exactOp(o.Name, a, b)
					want = fitOracle(t, ex)
					if want.cls != "" {
						nontriv = true
					} else {
						for _, bd := range []*big.Int{t.Min(), t.Max()} {
							if bd != nil && new(big.Int).Abs(new(big.Int).Sub(ex, bd)).Cmp(big.NewInt(1)) <= 0 {
								nontriv = true
							}
						}
					}
				}
				if nontriv {
					key := fmt.Sprintf("%s %s %s %s", t.Name, o.Name, a, b)
					if !distinct[key] {
						distinct[key] = true
						sum.DistinctNontrivial++
					}
					sum.Count("outcome " + want.clsOrOk())
					sum.Sample(map[string]string{"type": t.Name, "expr": fmt.Sprintf("%s %s %s", a, o.Sym, b), "observed": got.String()})
				}
				sum.Count(t.Name + " " + o.Sym)
				if !got.eq(want) {
					sum.Fail(fmt.Sprintf("checked-arith:%s:%s", t.Name, o.Name),
						fmt.Sprintf("%s: %s %s %s = %s, required %s", t.Name, a, o.Sym, b, got, want),
						map[string]any{"type": t.Name, "op": o.Sym, "a": a.String(), "b": b.String(), "observed": got.String(), "required": want.String(), "via": "interpreter value method"})
				}
				if toCoq {
					cw.Add(fmt.Sprintf("(%s, %s, %s, %s, %s)", t.CoqKind(), o.Name, lib.Z(a), lib.Z(b), lib.ResZ(got.cls, got.z)),
						map[string]any{"type": t.Name, "op": o.Sym, "a": a.String(), "b": b.String(), "observed": got.String()})
				}
			})
		}
		// unary minus (signed kinds and Int)
		if t.Kind == "signed" || t.Kind == "int" {
			vals := append([]*big.Int{}, t.Lattice()...)
			for i := 0; i < nrand; i++ {
				vals = append(vals, t.Random(rng))
			}
			if t.Bits == 8 {
				for a := int64(-128); a < 128; a++ {
					vals = append(vals, big.NewInt(a))
				}
			}
			for _, a := range vals {
				var got outcome
				cls, _ := lib.Catch(func() {
					v := t.Make(a).Negate(nil)
					got.z = lib.ValueToBig(v)
				})
				if cls != "" {
					got = outcome{cls: cls}
				}
				want := fitOracle(t, new(big.Int).Neg(a))
				sum.Evaluations++
				sum.Count(t.Name + " neg")
				if want.cls != "" {
					key := fmt.Sprintf("%s neg %s", t.Name, a)
					if !distinct[key] {
						distinct[key] = true
						sum.DistinctNontrivial++
					}
				}
				if !got.eq(want) {
					sum.Fail(fmt.Sprintf("checked-arith:%s:neg", t.Name), fmt.Sprintf("%s: -(%s) = %s, required %s", t.Name, a, got, want),
						map[string]any{"type": t.Name, "op": "neg", "a": a.String(), "observed": got.String(), "required": want.String()})
				}
				cwn.Add(fmt.Sprintf("(%s, %s, %s)", t.CoqKind(), lib.Z(a), lib.ResZ(got.cls, got.z)),
					map[string]any{"type": t.Name, "op": "neg", "a": a.String(), "observed": got.String()})
			}
		}
	}
	cw.Close()
	cwn.Close()
	sum.CaseFiles = append(cw.Files, cwn.Files...)
	scripts(sum, rng, nscript, types, arith, "checked-arith-script", func(t lib.IntType, o op, a, b *big.Int) string {
		return fmt.Sprintf("access(all) fun main(): %s { let a: %s = %s; let b: %s = %s; return a %s b }", t.Name, t.Name, a, t.Name, b, o.Sym)
	})
}

func (o outcome) clsOrOk() string {
	if o.cls != "" {
		return o.cls
	}
	return "Ok"
}

// scripts runs a sample of operations as Cadence scripts in both engines and compares with the value method.
func scripts(sum *lib.Summary, rng *lib.Rng, n int, types []lib.IntType, ops []op, keyPrefix string, mk func(t lib.IntType, o op, a, b *big.Int) string) {
	h := lib.NewHost()
	for i := 0; i < n; i++ {
		t := lib.Pick(rng, types)
		o := lib.Pick(rng, ops)
		lat := t.Lattice()
		a, b := lib.Pick(rng, lat), lib.Pick(rng, lat)
		if rng.Bool() {
			a, b = t.Random(rng), t.Random(rng)
		}
		src := mk(t, o, a, b)
		if src == "" {
			continue
		}
		direct := run(t, o, a, b)
		for _, vm := range []bool{false, true} {
			out := h.RunScript(src, nil, vm)
			sum.Evaluations++
			sum.Count(fmt.Sprintf("script vm=%v", vm))
			var got outcome
			if out.Class != "" {
				got = outcome{cls: out.Class}
			} else {
				z, _ := new(big.Int).SetString(out.Value.String(), 10)
				got = outcome{z: z}
			}
			if !got.eq(direct) {
				sum.Fail(fmt.Sprintf("%s:%s:%s:vm=%v", keyPrefix, t.Name, o.Name, vm),
					fmt.Sprintf("script `%s` (vm=%v) gives %s but the value method gives %s (err: %v)", src, vm, got, direct, out.Err),
					map[string]any{"script": src, "vm": vm, "observed": got.String(), "value_method": direct.String()})
			}
		}
	}
}

var satOps = []op{
	{"OAdd", "saturatingAdd", func(a, b interpreter.IntegerValue) interpreter.Value { return a.SaturatingPlus(nil, b) }},
	{"OSub", "saturatingSubtract", func(a, b interpreter.IntegerValue) interpreter.Value { return a.SaturatingMinus(nil, b) }},
	{"OMul", "saturatingMultiply", func(a, b interpreter.IntegerValue) interpreter.Value { return a.SaturatingMul(nil, b) }},
	{"ODiv", "saturatingDivide", func(a, b interpreter.IntegerValue) interpreter.Value { return a.SaturatingDiv(nil, b) }},
}

// satDeclared reads from the linked sema package which saturating functions a type declares.
func satDeclared(t lib.IntType, o op) bool {
	st, ok := semaTypeByName(t.Name).(sema.SaturatingArithmeticType)
	if !ok {
		return false
	}
	switch o.Name {
	case "OAdd":
		return st.SupportsSaturatingAdd()
	case "OSub":
		return st.SupportsSaturatingSubtract()
	case "OMul":
		return st.SupportsSaturatingMultiply()
	case "ODiv":
		return st.SupportsSaturatingDivide()
	}
	return false
}

func semaTypeByName(n string) sema.Type {
	for _, t := range sema.AllIntegerTypes {
		if t.String() == n {
			return t
		}
	}
	panic("no sema type " + n)
}

func c13(sum *lib.Summary) {
	rng := lib.NewRng(*seed)
	cw := &lib.CaseWriter{Dir: *dir, Prefix: "cases_C13", Header: "From CV Require Import Num.NumCases.",
		ElemType: "ikind * binop * Z * Z * res Z", CheckFn: "check_sat", PerFile: 700}
	distinct := map[string]bool{}
	nrand, coqRand, nscript := sizes()
	sum.Rule = "every (integer type, saturating function) pair that sema declares (read from the linked sema package at run time): all pairs " +
		"of the boundary lattice, random pairs, pairs with sum/difference/product within 1 of a bound, all 65536 pairs for Int8/UInt8; each compared " +
		"with a math/big oracle clamp(exact) in Go; a fifth of lattice pairs + random sample evaluated by the Coq model sat_model; scripts in both engines. " +
		"non-trivial = exact result outside the range (clamping happens) or divisor zero; distinct = distinct (type,op,a,b)"
	declared := map[string]bool{}
	var types []lib.IntType
	for _, t := range lib.IntTypes {
		any := false
		for _, o := range satOps {
			if satDeclared(t, o) {
				declared[t.Name+" "+o.Name] = true
				any = true
				// the Coq-side table sat_declared must agree with sema: emitted as a case with a marker op
			}
		}
		if any {
			types = append(types, t)
		}
	}
	sum.Extra = map[string]any{"declared_saturating": keys(declared)}
	for _, t := range types {
		for _, o := range satOps {
			if !declared[t.Name+" "+o.Name] {
				continue
			}
			pairs(t, rng, nrand, coqRand, func(a, b *big.Int, toCoq bool) {
				got := run(t, o, a, b)
				sum.Evaluations++
				var want outcome
				nontriv := false
				if o.Name == "ODiv" && b.Sign() == 0 {
					want = outcome{cls: lib.EDivZero}
					nontriv = true
				} else {
					ex := exactOp(o.Name, a, b)
					want = clampOracle(t, ex)
					nontriv = want.z.Cmp(ex) != 0
				}
				if nontriv {
					key := fmt.Sprintf("%s %s %s %s", t.Name, o.Name, a, b)
					if !distinct[key] {
						distinct[key] = true
						sum.DistinctNontrivial++
					}
					sum.Sample(map[string]string{"type": t.Name, "expr": fmt.Sprintf("(%s).%s(%s)", a, o.Sym, b), "observed": got.String()})
					sum.Count("clamped-or-divzero")
				}
				sum.Count(t.Name + " " + o.Sym)
				if !got.eq(want) {
					sum.Fail(fmt.Sprintf("sat-arith:%s:%s", t.Name, o.Name),
						fmt.Sprintf("%s: (%s).%s(%s) = %s, required %s", t.Name, a, o.Sym, b, got, want),
						map[string]any{"type": t.Name, "op": o.Sym, "a": a.String(), "b": b.String(), "observed": got.String(), "required": want.String()})
				}
				if toCoq {
					cw.Add(fmt.Sprintf("(%s, %s, %s, %s, %s)", t.CoqKind(), o.Name, lib.Z(a), lib.Z(b), lib.ResZ(got.cls, got.z)),
						map[string]any{"type": t.Name, "op": o.Sym, "a": a.String(), "b": b.String(), "observed": got.String()})
				}
			})
		}
	}
	cw.Close()
	sum.CaseFiles = cw.Files
	// declared table vs the Coq table sat_declared
	tw := &lib.CaseWriter{Dir: *dir, Prefix: "cases_C13decl", Header: "From CV Require Import Num.NumCases.",
		ElemType: "ikind * binop * bool", CheckFn: "(fun c => let '(k,o,d) := c in Bool.eqb (sat_declared k o) d)", PerFile: 700}
	for _, t := range lib.IntTypes {
		for _, o := range satOps {
			d := "false"
			if declared[t.Name+" "+o.Name] {
				d = "true"
			}
			tw.Add(fmt.Sprintf("(%s, %s, %s)", t.CoqKind(), o.Name, d), map[string]any{"type": t.Name, "op": o.Sym, "declared_in_sema": d})
		}
	}
	tw.Close()
	sum.CaseFiles = append(sum.CaseFiles, tw.Files...)
	scripts(sum, rng, nscript, types, satOps, "sat-arith-script", func(t lib.IntType, o op, a, b *big.Int) string {
		if !declared[t.Name+" "+o.Name] {
			return ""
		}
		return fmt.Sprintf("access(all) fun main(): %s { let a: %s = %s; let b: %s = %s; return a.%s(b) }", t.Name, t.Name, a, t.Name, b, o.Sym)
	})
}

func keys(m map[string]bool) []string {
	var ks []string
	for k := range m {
		ks = append(ks, k)
	}
	sort.Strings(ks)
	return ks
}

var bitOps = []op{
	{"BOr", "|", func(a, b interpreter.IntegerValue) interpreter.Value { return a.BitwiseOr(nil, b) }},
	{"BXor", "^", func(a, b interpreter.IntegerValue) interpreter.Value { return a.BitwiseXor(nil, b) }},
	{"BAnd", "&", func(a, b interpreter.IntegerValue) interpreter.Value { return a.BitwiseAnd(nil, b) }},
	{"BShl", "<<", func(a, b interpreter.IntegerValue) interpreter.Value { return a.BitwiseLeftShift(nil, b) }},
	{"BShr", ">>", func(a, b interpreter.IntegerValue) interpreter.Value { return a.BitwiseRightShift(nil, b) }},
}

var big2_64 = new(big.Int).Lsh(big.NewInt(1), 64)

// signedOf reinterprets u in [0,2^n) as an n-bit two's complement number.
func signedOf(u *big.Int, n int) *big.Int {
	if u.Bit(n-1) == 1 {
		return new(big.Int).Sub(u, new(big.Int).Lsh(big.NewInt(1), uint(n)))
	}
	return u
}

// bitsOracle: the property's specification. second result: alternative allowed outcome ("" if none).
func bitsOracle(t lib.IntType, name string, a, b *big.Int) (outcome, string) {
	bounded := t.Bits != 0
	norm := func(z *big.Int) *big.Int {
		if !bounded {
			return z
		}
		u := mod2n(z, t.Bits)
		if t.Kind == "signed" {
			return signedOf(u, t.Bits)
		}
		return u
	}
	switch name {
	case "BOr":
		return outcome{z: norm(new(big.Int).Or(a, b))}, ""
	case "BXor":
		return outcome{z: norm(new(big.Int).Xor(a, b))}, ""
	case "BAnd":
		return outcome{z: norm(new(big.Int).And(a, b))}, ""
	}
	if b.Sign() < 0 {
		return outcome{cls: lib.ENegShift}, ""
	}
	alt := ""
	if !bounded && b.Cmp(big2_64) >= 0 {
		alt = lib.EOverflow
	}
	if name == "BShl" {
		if bounded {
			if b.Cmp(big.NewInt(int64(t.Bits))) >= 0 {
				return outcome{z: big.NewInt(0)}, alt
			}
			return outcome{z: norm(new(big.Int).Lsh(a, uint(b.Uint64())))}, alt
		}
		if alt != "" {
			return outcome{cls: alt}, alt // exact value not computable; Overflow is the allowed outcome
		}
		return outcome{z: new(big.Int).Lsh(a, uint(b.Uint64()))}, alt
	}
	// floor(a / 2^b)
	if b.Cmp(big.NewInt(int64(a.BitLen()+1))) > 0 {
		if a.Sign() < 0 {
			return outcome{z: big.NewInt(-1)}, alt
		}
		return outcome{z: big.NewInt(0)}, alt
	}
	return outcome{z: new(big.Int).Rsh(a, uint(b.Uint64()))}, alt
}

func c14(sum *lib.Summary) {
	rng := lib.NewRng(*seed)
	cw := &lib.CaseWriter{Dir: *dir, Prefix: "cases_C14", Header: "From CV Require Import Num.NumCases.",
		ElemType: "ikind * bitop * Z * Z * res Z", CheckFn: "check_bits", PerFile: 700}
	distinct := map[string]bool{}
	nrand, coqRand, nscript := sizes()
	sum.Rule = "all 20 integer/word types x {|,^,&,<<,>>}: bitwise ops on all lattice pairs + random pairs (+ all 65536 pairs for the 8-bit types); " +
		"shifts with amounts 0..width+1, 63,64,65, 2^63-1, 2^63, 2^64-1, 2^64, 2^64+1, the type's maximum, -1, min (where representable) against lattice and " +
		"random left operands (Int/UInt left shifts only up to 4096 or >= 2^64: larger amounts would allocate the result); each compared with a math/big " +
		"oracle of the property's specification in Go; cases with amount <= 4096 or >= 2^64 also evaluated by the Coq model bits_model; scripts in both " +
		"engines. non-trivial = negative operand, or shift that drops/truncates bits or has amount >= width, or error outcome; distinct = distinct (type,op,a,b)"
	small := big.NewInt(4096)
	one := func(t lib.IntType, o op, a, b *big.Int, toCoq bool) {
		if o.Name == "BShl" && t.Bits == 0 && b.Cmp(small) > 0 && b.Cmp(big2_64) < 0 {
			return // would allocate gigabytes
		}
		got := run(t, o, a, b)
		sum.Evaluations++
		want, alt := bitsOracle(t, o.Name, a, b)
		ok := got.eq(want) || (alt != "" && got.cls == alt)
		nontriv := want.cls != "" || a.Sign() < 0 || ((o.Name == "BShl" || o.Name == "BShr") && b.Sign() > 0 && a.Sign() != 0)
		if nontriv {
			key := fmt.Sprintf("%s %s %s %s", t.Name, o.Name, a, b)
			if !distinct[key] {
				distinct[key] = true
				sum.DistinctNontrivial++
			}
			if len(sum.Samples) < 8 && (a.BitLen() > 3 || t.Bits == 8) {
				sum.Sample(map[string]string{"type": t.Name, "expr": fmt.Sprintf("%s %s %s", a, o.Sym, b), "observed": got.String()})
			}
		}
		sum.Count(t.Name + " " + o.Sym)
		sum.Count("outcome " + got.clsOrOk())
		if !ok {
			k := fmt.Sprintf("bits:%s:%s", t.Name, o.Name)
			sum.Fail(k, fmt.Sprintf("%s: %s %s %s = %s, required %s", t.Name, a, o.Sym, b, got, want),
				map[string]any{"type": t.Name, "op": o.Sym, "a": a.String(), "b": b.String(), "observed": got.String(), "required": want.String(), "via": "interpreter value method"})
		}
		shiftOp := o.Name == "BShl" || o.Name == "BShr"
		if toCoq && (!shiftOp || b.Cmp(small) <= 0 || b.Cmp(big2_64) >= 0) {
			cw.Add(fmt.Sprintf("(%s, %s, %s, %s, %s)", t.CoqKind(), o.Name, lib.Z(a), lib.Z(b), lib.ResZ(got.cls, got.z)),
				map[string]any{"type": t.Name, "op": o.Sym, "a": a.String(), "b": b.String(), "observed": got.String()})
		}
	}
	for _, t := range lib.IntTypes {
		// shift amounts
		var amts []*big.Int
		addAmt := func(z *big.Int) {
			if t.InRange(z) {
				amts = append(amts, z)
			}
		}
		w := t.Bits
		if w == 0 {
			w = 256
		}
		for k := 0; k <= w+1; k++ {
			addAmt(big.NewInt(int64(k)))
		}
		for _, k := range []int64{300, 1000, 4096, -1, -2} {
			addAmt(big.NewInt(k))
		}
		for _, e := range []uint{31, 32, 62, 63, 64, 65, 100, 127} {
			p := new(big.Int).Lsh(big.NewInt(1), e)
			for _, d := range []int64{-1, 0, 1} {
				addAmt(new(big.Int).Add(p, big.NewInt(d)))
			}
		}
		if m := t.Max(); m != nil {
			addAmt(m)
		}
		if m := t.Min(); m != nil {
			addAmt(m)
		}
		lat := t.Lattice()
		for _, o := range bitOps {
			if o.Name == "BShl" || o.Name == "BShr" {
				for i, a := range lat {
					for j, b := range amts {
						one(t, o, a, b, (*tier == "thorough" && (i*7+j*3)%6 == 0) || (i*7+j*3)%45 == 0)
					}
				}
				for i := 0; i < nrand; i++ {
					one(t, o, t.Random(rng), lib.Pick(rng, amts), i < coqRand)
				}
			} else {
				for i, a := range lat {
					for j, b := range lat {
						one(t, o, a, b, (*tier == "thorough" && (i*31+j*17)%6 == 0) || (i*31+j*17)%40 == 0)
					}
				}
				for i := 0; i < nrand; i++ {
					one(t, o, t.Random(rng), t.Random(rng), i < coqRand)
				}
			}
			if t.Bits == 8 {
				lo, hi := t.Min().Int64(), t.Max().Int64()
				for a := lo; a <= hi; a++ {
					for b := lo; b <= hi; b++ {
						one(t, o, big.NewInt(a), big.NewInt(b), false)
					}
				}
			}
		}
	}
	cw.Close()
	sum.CaseFiles = cw.Files
	// scripts: small operands/amounts only
	h := lib.NewHost()
	for i := 0; i < nscript; i++ {
		t := lib.Pick(rng, lib.IntTypes)
		o := lib.Pick(rng, bitOps)
		a := lib.Pick(rng, t.Lattice())
		var b *big.Int
		if o.Name == "BShl" || o.Name == "BShr" {
			b = big.NewInt(int64(rng.Intn(t.Bits + 70)))
			if !t.InRange(b) {
				continue
			}
		} else {
			b = lib.Pick(rng, t.Lattice())
		}
		src := fmt.Sprintf("access(all) fun main(): %s { let a: %s = %s; let b: %s = %s; return a %s b }", t.Name, t.Name, a, t.Name, b, o.Sym)
		direct := run(t, o, a, b)
		for _, vm := range []bool{false, true} {
			out := h.RunScript(src, nil, vm)
			sum.Evaluations++
			sum.Count(fmt.Sprintf("script vm=%v", vm))
			var got outcome
			if out.Class != "" {
				got = outcome{cls: out.Class}
			} else {
				z, _ := new(big.Int).SetString(out.Value.String(), 10)
				got = outcome{z: z}
			}
			if !got.eq(direct) {
				sum.Fail(fmt.Sprintf("bits-script:%s:%s:vm=%v", t.Name, o.Name, vm),
					fmt.Sprintf("script `%s` (vm=%v) gives %s but the value method gives %s (err: %v)", src, vm, got, direct, out.Err),
					map[string]any{"script": src, "vm": vm, "observed": got.String(), "value_method": direct.String()})
			}
		}
	}
}

type mop struct {
	Name string
	Est  func(a, b *big.Int) common.MemoryUsage // the estimator in common/metering.go
	Res  func(a, b *big.Int) *big.Int           // what the operation produces
	Call func(ctx interpreter.NumberValueArithmeticContext, a, b interpreter.IntegerValue) interpreter.Value
	Def  func(a, b *big.Int) bool
}

var always = func(a, b *big.Int) bool { return true }
var nonzeroB = func(a, b *big.Int) bool { return b.Sign() != 0 }

var mops = []mop{
	{"MPlus", common.NewPlusBigIntMemoryUsage, func(a, b *big.Int) *big.Int { return new(big.Int).Add(a, b) },
		func(c interpreter.NumberValueArithmeticContext, a, b interpreter.IntegerValue) interpreter.Value {
			return a.Plus(c, b)
		}, always},
	{"MMinus", common.NewMinusBigIntMemoryUsage, func(a, b *big.Int) *big.Int { return new(big.Int).Sub(a, b) },
		func(c interpreter.NumberValueArithmeticContext, a, b interpreter.IntegerValue) interpreter.Value {
			return a.Minus(c, b)
		}, always},
	{"MMul", common.NewMulBigIntMemoryUsage, func(a, b *big.Int) *big.Int { return new(big.Int).Mul(a, b) },
		func(c interpreter.NumberValueArithmeticContext, a, b interpreter.IntegerValue) interpreter.Value {
			return a.Mul(c, b)
		}, always},
	{"MDiv", common.NewDivBigIntMemoryUsage, func(a, b *big.Int) *big.Int { return new(big.Int).Quo(a, b) },
		func(c interpreter.NumberValueArithmeticContext, a, b interpreter.IntegerValue) interpreter.Value {
			return a.Div(c, b)
		}, nonzeroB},
	{"MMod", common.NewModBigIntMemoryUsage, func(a, b *big.Int) *big.Int { return new(big.Int).Rem(a, b) },
		func(c interpreter.NumberValueArithmeticContext, a, b interpreter.IntegerValue) interpreter.Value {
			return a.Mod(c, b)
		}, nonzeroB},
	{"MOr", common.NewBitwiseOrBigIntMemoryUsage, func(a, b *big.Int) *big.Int { return new(big.Int).Or(a, b) },
		func(c interpreter.NumberValueArithmeticContext, a, b interpreter.IntegerValue) interpreter.Value {
			return a.BitwiseOr(c, b)
		}, always},
	{"MXor", common.NewBitwiseXorBigIntMemoryUsage, func(a, b *big.Int) *big.Int { return new(big.Int).Xor(a, b) },
		func(c interpreter.NumberValueArithmeticContext, a, b interpreter.IntegerValue) interpreter.Value {
			return a.BitwiseXor(c, b)
		}, always},
	{"MAnd", common.NewBitwiseAndBigIntMemoryUsage, func(a, b *big.Int) *big.Int { return new(big.Int).And(a, b) },
		func(c interpreter.NumberValueArithmeticContext, a, b interpreter.IntegerValue) interpreter.Value {
			return a.BitwiseAnd(c, b)
		}, always},
	{"MShl", common.NewBitwiseLeftShiftBigIntMemoryUsage, func(a, b *big.Int) *big.Int { return new(big.Int).Lsh(a, uint(b.Uint64())) },
		func(c interpreter.NumberValueArithmeticContext, a, b interpreter.IntegerValue) interpreter.Value {
			return a.BitwiseLeftShift(c, b)
		}, func(a, b *big.Int) bool { return b.Sign() >= 0 && b.Cmp(big.NewInt(20000)) <= 0 }},
	{"MShr", common.NewBitwiseRightShiftBigIntMemoryUsage, func(a, b *big.Int) *big.Int { return new(big.Int).Rsh(a, uint(b.Uint64())) },
		func(c interpreter.NumberValueArithmeticContext, a, b interpreter.IntegerValue) interpreter.Value {
			return a.BitwiseRightShift(c, b)
		}, func(a, b *big.Int) bool { return b.Sign() >= 0 && b.Cmp(big.NewInt(1<<40)) <= 0 }},
	{"MNeg", func(a, b *big.Int) common.MemoryUsage { return common.NewNegateBigIntMemoryUsage(a) }, func(a, b *big.Int) *big.Int { return new(big.Int).Neg(a) },
		func(c interpreter.NumberValueArithmeticContext, a, b interpreter.IntegerValue) interpreter.Value {
			return a.Negate(c)
		}, always},
}

// estimator branch, used to key failures narrowly
func meterBranch(name string, a, b *big.Int) string {
	wa, wb := len(a.Bits()), len(b.Bits())
	switch name {
	case "MDiv", "MMod":
		if a.Cmp(b) < 0 || wb == 1 {
			return "a<b-or-|b|=1"
		} else if wb < 100 {
			return "mid(|b|<100)"
		}
		return "large(|b|>=100)"
	case "MShr":
		if a.Sign() >= 0 {
			if b.Sign() == 0 {
				return "a>=0,b=0"
			}
			return "a>=0,b>0"
		}
		return "a<0"
	case "MShl":
		if b.Sign() == 0 {
			return "b=0"
		}
		return "b>0"
	case "MOr", "MXor", "MAnd":
		if a.Sign() >= 0 && b.Sign() >= 0 {
			return "nonneg"
		} else if a.Sign() <= 0 && b.Sign() <= 0 {
			return "nonpos"
		}
		return "mixed"
	case "MMul":
		if min(wa, wb) <= 40 {
			return "small"
		}
		return "karatsuba"
	}
	return "all"
}

func c32(sum *lib.Summary) {
	rng := lib.NewRng(*seed)
	cw := &lib.CaseWriter{Dir: *dir, Prefix: "cases_C32", Header: "From CV Require Import Num.MeterCases.",
		ElemType: "mop * Z * Z * Z", CheckFn: "check_meter", PerFile: 700}
	cwv := &lib.CaseWriter{Dir: *dir, Prefix: "cases_C32v", Header: "From CV Require Import Num.MeterCases.",
		ElemType: "Z * Z * osumm", CheckFn: "check_summ", PerFile: 700}
	cws := &lib.CaseWriter{Dir: *dir, Prefix: "cases_C32s", Header: "From CV Require Import Num.MeterCases.",
		ElemType: "mop * osumm * Z", CheckFn: "check_meter_s", PerFile: 700}
	rec := &lib.MemRecorder{}
	inter := lib.NewInterp(rec)
	distinct := map[string]bool{}
	ncoq := 0
	sum.Rule = "Int and UInt x {+,-,*,/,%,|,^,&,<<,>>,neg}: operands of word length 0..300 at word boundaries (2^(64k)-1, 2^(64k), 2^(64k)+1), both signs, " +
		"random values of random word length, divisors around the estimator's branch thresholds (|b| = 1, 2, 99, 100, 101; a<b, a=b, a>b), shift amounts " +
		"0..130, multiples of 64 +-1 up to thousands of bits; plus Int128/Int256/UInt128/UInt256/Word128/Word256 operations against their fixed 16/32-byte usage. " +
		"For each case: (1) the estimator of common/metering.go is called directly and its amount compared with the Coq model (vm_compute), " +
		"(2) the amount metered as MemoryKindBigInt by the real value method under a recording gauge is compared with that estimator, " +
		"(3) both are compared with 8*len(result.Bits()). non-trivial = both operands non-zero and at least one longer than one word; distinct = distinct (op,a,b)"
	check := func(o mop, a, b *big.Int, unsignedToo bool) {
		if !o.Def(a, b) {
			return
		}
		sum.Evaluations++
		est := o.Est(a, b).Amount
		res := o.Res(a, b)
		need := uint64(len(res.Bits()) * 8)
		br := meterBranch(o.Name, a, b)
		sum.Count(o.Name + " " + br)
		if a.Sign() != 0 && b.Sign() != 0 && (len(a.Bits()) > 1 || len(b.Bits()) > 1) {
			key := o.Name + a.String() + " " + b.String()
			if !distinct[key] {
				distinct[key] = true
				sum.DistinctNontrivial++
			}
		}
		if est < need {
			sum.Fail(fmt.Sprintf("underreport:%s:%s", o.Name, br),
				fmt.Sprintf("%s: estimator meters %d bytes but the result has %d bytes (|a|=%d words, |b|=%d words, b=%s)", o.Name, est, need, len(a.Bits()), len(b.Bits()), trunc(b.String())),
				map[string]any{"op": o.Name, "a": a.String(), "b": b.String(), "metered_bytes": est, "result_bytes": need, "branch": br, "via": "common.New...BigIntMemoryUsage"})
		}
		ncoq++
		// Coq's parser is slow on huge literals: operands of at most 3 words go to the Coq model in full
		// (plus a check of the Go-side summary); every sampled case goes as a summary.
		sm := func() string {
			bo := func(b bool) string {
				if b {
					return "true"
				}
				return "false"
			}
			shift := big.NewInt(0) // only read by the shift estimators, whose amounts are small
			if b.BitLen() <= 192 {
				shift = b
			}
			return fmt.Sprintf("{| s_wa := %d; s_wb := %d; s_a_ge0 := %s; s_a_le0 := %s; s_b_ge0 := %s; s_b_le0 := %s; s_lt := %s; s_blb := %d; s_b_zero := %s; s_shift := %s |}",
				len(a.Bits()), len(b.Bits()), bo(a.Sign() >= 0), bo(a.Sign() <= 0), bo(b.Sign() >= 0), bo(b.Sign() <= 0), bo(a.Cmp(b) < 0), b.BitLen(), bo(b.Sign() == 0), lib.Z(shift))
		}
		desc := map[string]any{"op": o.Name, "a": trunc(a.String()), "b": trunc(b.String()), "a_words": len(a.Bits()), "b_words": len(b.Bits()), "metered": est, "branch": br}
		if len(a.Bits()) <= 3 && len(b.Bits()) <= 3 && ((*tier == "thorough" && ncoq%3 == 0) || (*tier != "thorough" && ncoq%7 == 0)) {
			cw.Add(fmt.Sprintf("(%s, %s, %s, %d)", o.Name, lib.Z(a), lib.Z(b), est), desc)
			if b.IsUint64() || true {
				cwv.Add(fmt.Sprintf("(%s, %s, %s)", lib.Z(a), lib.Z(b), sm()), desc)
			}
		}
		if (*tier == "thorough" && ncoq%40 == 0) || (*tier != "thorough" && ncoq%10 == 0) || (est < need && ncoq%3 == 0) {
			cws.Add(fmt.Sprintf("(%s, %s, %d)", o.Name, sm(), est), desc)
		}
		if len(sum.Samples) < 8 && len(a.Bits()) > 1 {
			sum.Sample(map[string]any{"op": o.Name, "a_words": len(a.Bits()), "b_words": len(b.Bits()), "b": trunc(b.String()), "metered": est, "result_bytes": need})
		}
		// through the real value methods (Int always; UInt when operands and result are non-negative)
		for _, tn := range []string{"Int", "UInt"} {
			if tn == "UInt" && (!unsignedToo || a.Sign() < 0 || b.Sign() < 0 || res.Sign() < 0 || o.Name == "MNeg") {
				continue
			}
			t := lib.IntTypeByName(tn)
			va, vb := t.Make(a), t.Make(b)
			rec.Reset()
			var out interpreter.Value
			cls, _ := lib.Catch(func() { out = o.Call(inter, va, vb) })
			if cls != "" {
				continue
			}
			got := rec.SumKind(common.MemoryKindBigInt)
			sum.Evaluations++
			outBytes := uint64(len(lib.ValueToBig(out).Bits()) * 8)
			if got != est {
				sum.Fail(fmt.Sprintf("method-meters-differently:%s:%s", tn, o.Name),
					fmt.Sprintf("%s.%s meters %d bytes of BigInt memory, the estimator says %d", tn, o.Name, got, est),
					map[string]any{"type": tn, "op": o.Name, "a": a.String(), "b": b.String(), "metered_by_method": got, "estimator": est})
			}
			if got < outBytes {
				sum.Fail(fmt.Sprintf("underreport:%s:%s", o.Name, br),
					fmt.Sprintf("%s %s: value method metered %d bytes but its result has %d bytes", tn, o.Name, got, outBytes),
					map[string]any{"type": tn, "op": o.Name, "a": a.String(), "b": b.String(), "metered_bytes": got, "result_bytes": outBytes, "branch": br, "via": "value method under recording gauge"})
			}
		}
	}
	// operand pool
	var pool []*big.Int
	add := func(z *big.Int) { pool = append(pool, z, new(big.Int).Neg(z)) }
	for _, i := range []int64{0, 1, 2, 5, 255} {
		add(big.NewInt(i))
	}
	wl := []int{1, 2, 3, 39, 40, 41, 42, 50, 80, 99, 100, 101, 150, 300}
	if *tier == "thorough" {
		for k := 4; k < 300; k += 23 {
			wl = append(wl, k)
		}
	}
	for _, k := range wl {
		p := new(big.Int).Lsh(big.NewInt(1), uint(64*k))
		add(new(big.Int).Sub(p, big.NewInt(1)))
		add(p)
		add(new(big.Int).Add(p, big.NewInt(12345)))
		add(new(big.Int).Lsh(big.NewInt(1), uint(64*k-1)))
	}
	nr := 25
	if *tier == "thorough" {
		nr = 100
	}
	for i := 0; i < nr; i++ {
		z := rng.BigBits(64*(1+rng.Intn(260)) - rng.Intn(64))
		add(z)
	}
	arithOps := mops[:8]
	for _, o := range arithOps {
		for i, a := range pool {
			for j, b := range pool {
				if (*tier == "thorough" && (i*13+j*7)%3 == 0) || (i*13+j*7)%9 == 0 || (i < 24 && j < 24) {
					check(o, a, b, true)
				}
			}
		}
	}
	// known witnesses of the two recorded findings are always exercised
	w1a := new(big.Int).Sub(new(big.Int).Lsh(big.NewInt(1), 3200), big.NewInt(1))
	w1b := new(big.Int).Add(new(big.Int).Lsh(big.NewInt(1), 2559), big.NewInt(12345))
	check(mops[4], w1a, w1b, true)
	check(mops[9], new(big.Int).Lsh(big.NewInt(1), 6399), big.NewInt(640), true)
	// shifts
	var amts []*big.Int
	for k := int64(0); k <= 130; k++ {
		amts = append(amts, big.NewInt(k))
	}
	for _, k := range []int64{191, 192, 193, 640, 1000, 4095, 4096, 6400, 19200, 19264, 20000} {
		amts = append(amts, big.NewInt(k))
	}
	for i, a := range pool {
		for j, b := range amts {
			if (*tier == "thorough" && (i*5+j*3)%3 == 0) || (i*5+j*3)%7 == 0 {
				check(mops[8], a, b, true)
				check(mops[9], a, b, true)
			}
		}
	}
	for _, a := range pool {
		check(mops[10], a, big.NewInt(0), false)
	}
	cw.Close()
	cwv.Close()
	cws.Close()
	sum.CaseFiles = append(append(cw.Files, cwv.Files...), cws.Files...)
	// fixed-size big types: metered amount is the fixed usage, result must fit
	for _, tn := range []string{"Int128", "Int256", "UInt128", "UInt256", "Word128", "Word256"} {
		t := lib.IntTypeByName(tn)
		lat := t.Lattice()
		for _, o := range mops[:10] {
			for _, a := range lat {
				for _, b := range lat {
					if (o.Name == "MShl" || o.Name == "MShr") && (b.Sign() < 0 || b.Cmp(big.NewInt(300)) > 0) {
						continue
					}
					rec.Reset()
					var out interpreter.Value
					cls, _ := lib.Catch(func() { out = o.Call(inter, t.Make(a), t.Make(b)) })
					if cls != "" {
						continue
					}
					sum.Evaluations++
					sum.Count(tn + " fixed")
					got := rec.SumKind(common.MemoryKindBigInt)
					outBytes := uint64(len(lib.ValueToBig(out).Bits()) * 8)
					if got < outBytes {
						sum.Fail(fmt.Sprintf("underreport-fixed:%s:%s", tn, o.Name),
							fmt.Sprintf("%s %s: metered %d bytes, result %d bytes", tn, o.Name, got, outBytes),
							map[string]any{"type": tn, "op": o.Name, "a": a.String(), "b": b.String(), "metered_bytes": got, "result_bytes": outBytes})
					}
				}
			}
		}
	}
}

func trunc(s string) string {
	if len(s) > 60 {
		return s[:24] + fmt.Sprintf("...(%d digits)...", len(s)) + s[len(s)-12:]
	}
	return s
}

// ---------------------------------------------------------------------------- C21 InclusiveRange

func coqOptZ(z *big.Int) string {
	if z == nil {
		return "None"
	}
	return "(Some " + lib.Z(z) + ")"
}

func c21(sum *lib.Summary) {
	rng := lib.NewRng(*seed)
	cwi := &lib.CaseWriter{Dir: *dir, Prefix: "cases_C21iter", Header: "From CV Require Import Num.RangeCases.",
		ElemType: "ikind * Z * Z * option Z * res (list Z)", CheckFn: "check_iter", PerFile: 150}
	cwc := &lib.CaseWriter{Dir: *dir, Prefix: "cases_C21cont", Header: "From CV Require Import Num.RangeCases.",
		ElemType: "ikind * Z * Z * option Z * Z * res bool", CheckFn: "check_contains", PerFile: 500}
	sum.Rule = "all 20 integer/word element types: (start,end,step) from boundary values (min, min+1, max-1, max, 0, +-1, +-2, 2^k neighbours) and random " +
		"values, with explicit steps (1,2,3,7, -1,-2,-3, large, zero, wrong direction) and the default step, restricted to sequences of at most 300 elements; " +
		"iteration (for-in collecting all elements, cut off after 400) and contains(x) for x in {start, end, start+-step, end+-1, members, non-members, type min/max} " +
		"run as Cadence scripts in BOTH engines; compared with (1) the arithmetic-sequence oracle in Go (direct property check) and (2) the Coq model via vm_compute. " +
		"non-trivial = constructed successfully with >= 2 elements or touching a type bound; distinct = distinct (type,start,end,step[,needle])"
	h := lib.NewHost()
	distinct := map[string]bool{}
	budget := 40
	if *tier == "thorough" {
		budget = 250
	}
	for _, t := range lib.IntTypes {
		// candidate endpoints
		var pts []*big.Int
		for _, z := range t.Lattice() {
			if z.BitLen() <= 10 || (t.Max() != nil && new(big.Int).Sub(t.Max(), z).BitLen() <= 4) || (t.Min() != nil && new(big.Int).Sub(z, t.Min()).BitLen() <= 4) {
				pts = append(pts, z)
			}
		}
		if t.Max() != nil {
			for _, d := range []int64{2, 3, 5, 6} {
				pts = append(pts, new(big.Int).Sub(t.Max(), big.NewInt(d)))
				if t.Min().Sign() < 0 {
					pts = append(pts, new(big.Int).Add(t.Min(), big.NewInt(d)))
				}
			}
		}
		steps := []*big.Int{nil, big.NewInt(1), big.NewInt(2), big.NewInt(3), big.NewInt(7), big.NewInt(-1), big.NewInt(-2), big.NewInt(-3), big.NewInt(0), big.NewInt(100)}
		// huge steps (around the Go int / int64 boundaries and the type's bounds): few elements, large strides
		for _, e := range []uint{31, 32, 62, 63, 64, 100} {
			p := new(big.Int).Lsh(big.NewInt(1), e)
			for _, d := range []int64{-1, 0, 1} {
				z := new(big.Int).Add(p, big.NewInt(d))
				steps = append(steps, z, new(big.Int).Neg(z))
			}
		}
		if t.Max() != nil {
			steps = append(steps, t.Max(), new(big.Int).Sub(t.Max(), big.NewInt(1)), new(big.Int).Rsh(t.Max(), 1))
			if t.Min().Sign() < 0 {
				steps = append(steps, t.Min(), new(big.Int).Add(t.Min(), big.NewInt(1)))
			}
		}
		type tri struct{ s, e, st *big.Int }
		var tris []tri
		for n := 0; n < budget*6 && len(tris) < budget; n++ {
			s, e := lib.Pick(rng, pts), lib.Pick(rng, pts)
			if rng.Chance(1, 4) {
				s = t.Random(rng)
				e = new(big.Int).Add(s, big.NewInt(int64(rng.Intn(60)-30)))
			}
			st := lib.Pick(rng, steps)
			if !t.InRange(s) || !t.InRange(e) || (st != nil && !t.InRange(st)) {
				continue
			}
			// at most 300 elements
			a := big.NewInt(1)
			if st != nil && st.Sign() != 0 {
				a = new(big.Int).Abs(st)
			}
			cnt := new(big.Int).Quo(new(big.Int).Abs(new(big.Int).Sub(e, s)), a)
			if cnt.Cmp(big.NewInt(299)) > 0 {
				continue
			}
			tris = append(tris, tri{s, e, st})
		}
		// always include the recorded witnesses
		switch t.Name {
		case "UInt8":
			tris = append(tris, tri{big.NewInt(250), big.NewInt(255), nil})
		case "Int8":
			tris = append(tris, tri{big.NewInt(-126), big.NewInt(-128), big.NewInt(-1)}, tri{big.NewInt(-128), big.NewInt(127), big.NewInt(2)})
		case "Int":
			tris = append(tris, tri{big.NewInt(0), big.NewInt(10), big.NewInt(3)},
				tri{big.NewInt(0), new(big.Int).Lsh(big.NewInt(1), 64), new(big.Int).Lsh(big.NewInt(1), 64)},
				tri{big.NewInt(5), new(big.Int).Neg(new(big.Int).Lsh(big.NewInt(1), 65)), new(big.Int).Neg(new(big.Int).Lsh(big.NewInt(1), 63))})
		case "Word8":
			tris = append(tris, tri{big.NewInt(250), big.NewInt(255), nil})
		case "UInt64":
			tris = append(tris, tri{big.NewInt(0), big.NewInt(5), new(big.Int).Lsh(big.NewInt(1), 63)},
				tri{big.NewInt(0), new(big.Int).Sub(new(big.Int).Lsh(big.NewInt(1), 64), big.NewInt(2)), new(big.Int).Lsh(big.NewInt(1), 63)})
		case "Int128":
			tris = append(tris, tri{big.NewInt(0), new(big.Int).Neg(new(big.Int).Lsh(big.NewInt(1), 70)), new(big.Int).Neg(new(big.Int).Lsh(big.NewInt(1), 64))})
		case "UInt":
			tris = append(tris, tri{big.NewInt(0), new(big.Int).Lsh(big.NewInt(1), 65), new(big.Int).Lsh(big.NewInt(1), 64)})
		}
		for _, tr := range tris {
			ctor := fmt.Sprintf("InclusiveRange<%s>(%s, %s)", t.Name, tr.s, tr.e)
			if tr.st != nil {
				ctor = fmt.Sprintf("InclusiveRange<%s>(%s, %s, step: %s)", t.Name, tr.s, tr.e, tr.st)
			}
			// ---- oracle
			step := tr.st
			constructOK := true
			if step == nil {
				step = big.NewInt(1)
				if tr.s.Cmp(tr.e) > 0 {
					step = big.NewInt(-1)
					if t.Kind == "unsigned" || t.Kind == "word" || t.Kind == "uint" {
						constructOK = false
					}
				}
			} else if step.Sign() == 0 || (tr.s.Cmp(tr.e) < 0 && step.Sign() < 0) || (tr.s.Cmp(tr.e) > 0 && step.Sign() > 0) {
				constructOK = false
			}
			var want []*big.Int
			var pastEnd *big.Int
			if constructOK {
				cur := new(big.Int).Set(tr.s)
				for {
					if (step.Sign() > 0 && cur.Cmp(tr.e) > 0) || (step.Sign() < 0 && cur.Cmp(tr.e) < 0) {
						pastEnd = cur
						break
					}
					want = append(want, cur)
					cur = new(big.Int).Add(cur, step)
				}
			}
			key := fmt.Sprintf("%s %s", t.Name, ctor)
			if constructOK && (len(want) >= 2 || !t.InRange(pastEnd)) && !distinct[key] {
				distinct[key] = true
				sum.DistinctNontrivial++
			}
			// ---- iteration in both engines
			src := fmt.Sprintf("access(all) fun main(): [%s] { var r: [%s] = []; for x in %s { r.append(x); if r.length > 400 { panic(\"FUEL\") } }; return r }", t.Name, t.Name, ctor)
			var obsRes [2]string
			for ei, vm := range []bool{false, true} {
				out := h.RunScript(src, nil, vm)
				sum.Evaluations++
				var got []*big.Int
				cls := out.Class
				if cls == "Panic" {
					cls = "OutOfFuel"
				}
				if cls == "" {
					arr := out.Value.String()
					got = parseIntArray(arr)
				}
				obsRes[ei] = cls + fmt.Sprint(got)
				sum.Count("iter " + map[bool]string{true: "ok", false: "err " + cls}[cls == ""])
				// direct property check
				if constructOK {
					okSeq := cls == "" && sameSeq(got, want)
					if !okSeq {
						k := "range-iter:other"
						if (cls == lib.EOverflow || cls == lib.EUnderflow) && !t.InRange(pastEnd) {
							k = "range-iter:overflow-past-end"
						} else if t.Kind == "word" && !t.InRange(pastEnd) && len(got) >= len(want) && sameSeq(got[:min(len(got), len(want))], want) || (cls == "OutOfFuel" && t.Kind == "word" && !t.InRange(pastEnd)) {
							// the required elements are produced, then current+step wraps below end and iteration goes on
							k = "range-iter:word-wraps-past-end"
						}
						sum.Fail(k, fmt.Sprintf("for-in over %s (vm=%v): observed %s%v, required the sequence %v without error", ctor, vm, cls, got, want),
							map[string]any{"script": src, "vm": vm, "observed_error": cls, "observed": fmt.Sprint(got), "required": fmt.Sprint(want)})
					}
				} else if cls == "" {
					sum.Fail("range-construct:accepted-invalid", fmt.Sprintf("%s constructed although step is zero / moves away from end (vm=%v)", ctor, vm),
						map[string]any{"script": src, "vm": vm})
				}
				if ei == 0 {
					obs := "(Err " + cls + ")"
					if cls == "" {
						parts := make([]string, len(got))
						for i, g := range got {
							parts[i] = lib.Z(g)
						}
						obs = "(Ok [" + strings.Join(parts, ";") + "])"
					}
					cwi.Add(fmt.Sprintf("(%s, %s, %s, %s, %s)", t.CoqKind(), lib.Z(tr.s), lib.Z(tr.e), coqOptZ(tr.st), obs),
						map[string]any{"type": t.Name, "range": ctor, "observed": cls + fmt.Sprint(got), "what": "iteration"})
					sum.Sample(map[string]any{"range": ctor, "iteration": cls + fmt.Sprint(got)})
				}
			}
			if obsRes[0] != obsRes[1] {
				sum.Fail("range-iter:engines-differ", fmt.Sprintf("for-in over %s: interpreter %s, VM %s", ctor, obsRes[0], obsRes[1]), map[string]any{"script": src})
			}
			if !constructOK {
				continue
			}
			// ---- contains
			var needles []*big.Int
			addN := func(z *big.Int) {
				if t.InRange(z) {
					needles = append(needles, z)
				}
			}
			addN(tr.s)
			addN(tr.e)
			addN(new(big.Int).Add(tr.s, step))
			addN(new(big.Int).Sub(tr.s, step))
			addN(new(big.Int).Add(tr.e, big.NewInt(1)))
			addN(new(big.Int).Sub(tr.e, big.NewInt(1)))
			if len(want) > 2 {
				addN(want[len(want)-1])
				addN(new(big.Int).Add(want[rng.Intn(len(want))], big.NewInt(1)))
				addN(want[rng.Intn(len(want))])
			}
			if t.Max() != nil {
				addN(t.Max())
				addN(t.Min())
			}
			for _, x := range needles {
				member := false
				for _, w := range want {
					if w.Cmp(x) == 0 {
						member = true
					}
				}
				csrc := fmt.Sprintf("access(all) fun main(): Bool { let x: %s = %s; return %s.contains(x) }", t.Name, x, ctor)
				var obs [2]string
				for ei, vm := range []bool{false, true} {
					out := h.RunScript(csrc, nil, vm)
					sum.Evaluations++
					cls := out.Class
					val := ""
					if cls == "" {
						val = out.Value.String()
					}
					obs[ei] = cls + val
					sum.Count("contains " + cls + val)
					if cls != "" || val != fmt.Sprint(member) {
						k := "range-contains:other"
						diff := new(big.Int).Sub(x, tr.s)
						if cls == "" && val == "true" && !member && x.Cmp(tr.e) == 0 {
							k = "range-contains:end-not-member"
						} else if (cls == lib.EOverflow || cls == lib.EUnderflow) && !t.InRange(diff) {
							k = "range-contains:diff-overflow"
						}
						sum.Fail(k, fmt.Sprintf("%s.contains(%s) (vm=%v) = %s%s, required %v", ctor, x, vm, cls, val, member),
							map[string]any{"script": csrc, "vm": vm, "observed": cls + val, "required": member})
					}
					if ei == 0 {
						o := "(Err " + cls + ")"
						if cls == "" {
							o = "(Ok " + val + ")"
						}
						cwc.Add(fmt.Sprintf("(%s, %s, %s, %s, %s, %s)", t.CoqKind(), lib.Z(tr.s), lib.Z(tr.e), coqOptZ(tr.st), lib.Z(x), o),
							map[string]any{"type": t.Name, "range": ctor, "needle": x.String(), "observed": cls + val, "what": "contains"})
					}
				}
				if obs[0] != obs[1] {
					sum.Fail("range-contains:engines-differ", fmt.Sprintf("%s.contains(%s): interpreter %s, VM %s", ctor, x, obs[0], obs[1]), map[string]any{"script": csrc})
				}
			}
		}
	}
	cwi.Close()
	cwc.Close()
	sum.CaseFiles = append(cwi.Files, cwc.Files...)
}

func parseIntArray(s string) []*big.Int {
	s = strings.Trim(s, "[] ")
	if s == "" {
		return nil
	}
	var out []*big.Int
	for _, p := range strings.Split(s, ",") {
		z, ok := new(big.Int).SetString(strings.TrimSpace(p), 10)
		if !ok {
			panic("bad int " + p)
		}
		out = append(out, z)
	}
	return out
}

func sameSeq(a, b []*big.Int) bool {
	if len(a) != len(b) {
		return false
	}
	for i := range a {
		if a[i].Cmp(b[i]) != 0 {
			return false
		}
	}
	return true
}
