// Command num: correspondence + direct-oracle harness for the integer arithmetic properties
// (C11 checked arithmetic, C12 word arithmetic, C13 saturating arithmetic, C14 bitwise/shift).
// It drives the real interpreter value methods (and scripts in both engines) and writes
// Coq case files holding inputs and observed outputs for evaluation against the Coq model.
package main

import (
	"flag"
	"fmt"
	"math/big"
	"os"

	"cvh/lib"

	"github.com/onflow/cadence/interpreter"
)

type op struct {
	Name string // Coq constructor
	Sym  string // Cadence syntax (infix) or method name
	Call func(a, b interpreter.IntegerValue) interpreter.Value
}

var arith = []op{
	{"OAdd", "+", func(a, b interpreter.IntegerValue) interpreter.Value { return a.Plus(nil, b) }},
	{"OSub", "-", func(a, b interpreter.IntegerValue) interpreter.Value { return a.Minus(nil, b) }},
	{"OMul", "*", func(a, b interpreter.IntegerValue) interpreter.Value { return a.Mul(nil, b) }},
	{"ODiv", "/", func(a, b interpreter.IntegerValue) interpreter.Value { return a.Div(nil, b) }},
	{"ORem", "%", func(a, b interpreter.IntegerValue) interpreter.Value { return a.Mod(nil, b) }},
}

type outcome struct {
	cls string
	z   *big.Int
}

func (o outcome) String() string {
	if o.cls != "" {
		return "Err " + o.cls
	}
	return o.z.String()
}

func (o outcome) eq(p outcome) bool {
	if o.cls != "" || p.cls != "" {
		return o.cls == p.cls
	}
	return o.z.Cmp(p.z) == 0
}

func run(t lib.IntType, o op, a, b *big.Int) (res outcome) {
	cls, _ := lib.Catch(func() {
		v := o.Call(t.Make(a), t.Make(b))
		if v == nil {
			res.cls = lib.ECrash
			return
		}
		res.z = lib.ValueToBig(v)
	})
	if cls != "" {
		res = outcome{cls: cls}
	}
	return
}

var (
	prop = flag.String("prop", "C12", "property id")
	seed = flag.Uint64("seed", 1, "seed")
	tier = flag.String("tier", "quick", "quick|thorough")
	dir  = flag.String("dir", ".", "output directory")
)

func main() {
	flag.Parse()
	sum := &lib.Summary{}
	switch *prop {
	case "C12":
		c12(sum)
	default:
		fmt.Fprintln(os.Stderr, "unknown prop", *prop)
		os.Exit(2)
	}
	sum.Write(*dir)
}

func mod2n(z *big.Int, n int) *big.Int {
	m := new(big.Int).Lsh(big.NewInt(1), uint(n))
	r := new(big.Int).Mod(z, m) // Euclidean: non-negative
	return r
}

// exactOp computes the exact mathematical result with truncated division.
func exactOp(name string, a, b *big.Int) *big.Int {
	switch name {
	case "OAdd":
		return new(big.Int).Add(a, b)
	case "OSub":
		return new(big.Int).Sub(a, b)
	case "OMul":
		return new(big.Int).Mul(a, b)
	case "ODiv":
		return new(big.Int).Quo(a, b)
	case "ORem":
		return new(big.Int).Rem(a, b)
	}
	panic(name)
}

func c12(sum *lib.Summary) {
	rng := lib.NewRng(*seed)
	cw := &lib.CaseWriter{
		Dir: *dir, Prefix: "cases_C12",
		Header:   "From CV Require Import Num.NumCases.",
		ElemType: "Z * binop * Z * Z * res Z",
		CheckFn:  "check_word",
		PerFile:  700,
	}
	distinct := map[string]bool{}
	nrand := 300
	coqRand := 40
	if *tier == "thorough" {
		nrand = 20000
		coqRand = 400
	}
	sum.Rule = "Word8..Word256 x {+,-,*,/,%}: all pairs of the boundary lattice, " +
		"random operand pairs of varied bit length, Word8 exhaustively (65536 pairs per operator); every case is compared " +
		"with a math/big oracle ((a op b) mod 2^n, DivZero iff b=0) in Go; lattice pairs and a random sample are also evaluated by " +
		"the Coq model word_model via vm_compute; a sample runs as scripts in interpreter and VM. " +
		"non-trivial = result wraps (exact result outside [0,2^n)) or divisor is zero; distinct = distinct (type,op,a,b)"
	check := func(t lib.IntType, o op, a, b *big.Int, toCoq bool) {
		got := run(t, o, a, b)
		sum.Evaluations++
		var want outcome
		wraps := false
		if (o.Name == "ODiv" || o.Name == "ORem") && b.Sign() == 0 {
			want = outcome{cls: lib.EDivZero}
			wraps = true
		} else {
			ex := exactOp(o.Name, a, b)
			want = outcome{z: mod2n(ex, t.Bits)}
			wraps = ex.Cmp(want.z) != 0
		}
		key := fmt.Sprintf("%s %s %s %s", t.Name, o.Name, a, b)
		if wraps && !distinct[key] {
			distinct[key] = true
			sum.DistinctNontrivial++
		}
		sum.Count(t.Name + " " + o.Sym)
		if wraps {
			sum.Count("wraps-or-divzero")
		}
		if !got.eq(want) {
			sum.Fail(fmt.Sprintf("word-arith:%s:%s", t.Name, o.Name),
				fmt.Sprintf("%s: %s %s %s = %s, required %s", t.Name, a, o.Sym, b, got, want),
				map[string]any{"type": t.Name, "op": o.Sym, "a": a.String(), "b": b.String(), "observed": got.String(), "required": want.String(), "via": "interpreter value method"})
		}
		if toCoq {
			cw.Add(fmt.Sprintf("(%d, %s, %s, %s, %s)", t.Bits, o.Name, lib.Z(a), lib.Z(b), lib.ResZ(got.cls, got.z)),
				map[string]any{"type": t.Name, "op": o.Sym, "a": a.String(), "b": b.String(), "observed": got.String()})
		}
		if wraps {
			sum.Sample(map[string]string{"type": t.Name, "expr": fmt.Sprintf("%s %s %s", a, o.Sym, b), "observed": got.String()})
		}
	}
	for _, t := range lib.IntTypes {
		if t.Kind != "word" {
			continue
		}
		lat := t.Lattice()
		for _, o := range arith {
			for i, a := range lat {
				for j, b := range lat {
					// all lattice pairs go to the Go oracle; a deterministic third also to Coq (all at thorough tier)
					check(t, o, a, b, *tier == "thorough" || (i*31+j*17)%5 == 0)
				}
			}
			for i := 0; i < nrand; i++ {
				check(t, o, t.Random(rng), t.Random(rng), i < coqRand)
			}
			if t.Bits == 8 {
				for a := int64(0); a < 256; a++ {
					for b := int64(0); b < 256; b++ {
						check(t, o, big.NewInt(a), big.NewInt(b), false)
					}
				}
			}
		}
	}
	cw.Close()
	sum.CaseFiles = cw.Files

	// scripts through both engines
	h := lib.NewHost()
	nscript := 60
	if *tier == "thorough" {
		nscript = 1500
	}
	for i := 0; i < nscript; i++ {
		t := lib.Pick(rng, lib.IntTypes[12:18])
		o := lib.Pick(rng, arith)
		lat := t.Lattice()
		a, b := lib.Pick(rng, lat), lib.Pick(rng, lat)
		if rng.Bool() {
			a, b = t.Random(rng), t.Random(rng)
		}
		src := fmt.Sprintf("access(all) fun main(): %s { let a: %s = %s; let b: %s = %s; return a %s b }", t.Name, t.Name, a, t.Name, b, o.Sym)
		direct := run(t, o, a, b)
		for _, vm := range []bool{false, true} {
			out := h.RunScript(src, nil, vm)
			sum.Evaluations++
			sum.Count(fmt.Sprintf("script vm=%v", vm))
			var got outcome
			if out.Class != "" {
				got = outcome{cls: out.Class}
			} else {
				z, _ := new(big.Int).SetString(out.Value.String(), 10)
				got = outcome{z: z}
			}
			if !got.eq(direct) {
				sum.Fail(fmt.Sprintf("word-arith-script:%s:%s:vm=%v", t.Name, o.Name, vm),
					fmt.Sprintf("script `%s` (vm=%v) gives %s but the value method gives %s (err: %v)", src, vm, got, direct, out.Err),
					map[string]any{"script": src, "vm": vm, "observed": got.String(), "value_method": direct.String()})
			}
		}
	}
}
