package main

// rules2coq: regenerates coq/theories/Gen/GenC08Subtype.v from tools/subtype-gen/rules.yaml.
//
// The meaning of rules.yaml is the one the repository gives it: the file is parsed with the
// repository's own parser (subtype_gen.ParseRulesFromBytes) and turned into the body of
// CheckSubTypeWithoutEquality_gen by the repository's own generator (the code that produces
// sema/subtype_check.gen.go), both linked from the tree under check.  (A purely boolean reading of
// the predicates would be wrong: the generator gives `or` a committed-choice meaning — a matching
// type switch or a negated `equals/oneOf` guard decides the result — and the intersection rule
// relies on that.)  The resulting Go function body — a small Go subset: value switches, type
// switches, if, return, :=, the fixed for-all loop, &&, ||, !, ==, != and calls of a fixed set of
// helpers — is transliterated statement by statement to a Gallina Fixpoint on fuel.
// Anything outside the subset is a hard error (the check then reports a broken tie).

import (
	"crypto/sha256"
	"fmt"
	"go/token"
	"os"
	"path/filepath"
	"sort"
	"strings"

	"github.com/dave/dst"

	subtypegen "github.com/onflow/cadence/tools/subtype-gen"
)

type srt int

const (
	sTy srt = iota
	sOptTy
	sAuth
	sKind
	sBool
	sZ
	sNat
	sISet
	sTyList
	sTParamList
	sParamList
	sTParam // element of TypeParameters: option ty (its bound)
	sParam  // element of Parameters: ty
	sParamAnn
	sArity
	sNil
)

var srtNames = map[srt]string{sTy: "type", sOptTy: "optional type", sAuth: "authorization", sKind: "composite kind", sBool: "bool",
	sZ: "integer", sNat: "length", sISet: "interface set", sTyList: "type list", sTParamList: "type parameter list",
	sParamList: "parameter list", sTParam: "type parameter", sParam: "parameter", sParamAnn: "type annotation", sArity: "arity", sNil: "nil"}

type cexpr struct {
	code   string
	s      srt
	prim   string // non-empty: the expression is the primitive type constant of that name
	gotype string // for typed variables: the Go type established by a type switch
	fields map[string]cexpr
}

type tr struct {
	scope  []map[string]cexpr
	nthunk int
	nvar   int
}

type trErr struct{ msg string }

func fail(format string, args ...any) { panic(trErr{fmt.Sprintf(format, args...)}) }

func (t *tr) push()                       { t.scope = append(t.scope, map[string]cexpr{}) }
func (t *tr) pop()                        { t.scope = t.scope[:len(t.scope)-1] }
func (t *tr) bind(name string, e cexpr)   { t.scope[len(t.scope)-1][name] = e }
func (t *tr) lookup(name string) (cexpr, bool) {
	for i := len(t.scope) - 1; i >= 0; i-- {
		if e, ok := t.scope[i][name]; ok {
			return e, true
		}
	}
	return cexpr{}, false
}

var primSet = func() map[string]bool {
	m := map[string]bool{}
	for _, p := range prims {
		m[p] = true
	}
	return m
}()

// typed variable patterns: Go type name -> (Coq pattern builder)
func (t *tr) typedPattern(gotype string, v string) (pat string, fields map[string]cexpr) {
	f := func(n string) string { return v + "_" + n }
	switch gotype {
	case "OptionalType":
		return fmt.Sprintf("(TOptional %s)", f("Type")), map[string]cexpr{"Type": {code: f("Type"), s: sTy}}
	case "DictionaryType":
		return fmt.Sprintf("(TDict %s %s)", f("KeyType"), f("ValueType")),
			map[string]cexpr{"KeyType": {code: f("KeyType"), s: sTy}, "ValueType": {code: f("ValueType"), s: sTy}}
	case "VariableSizedType":
		return fmt.Sprintf("(TVarArray %s)", f("Elem")), map[string]cexpr{"ElementType()": {code: f("Elem"), s: sTy}}
	case "ConstantSizedType":
		return fmt.Sprintf("(TConstArray %s %s)", f("Elem"), f("Size")),
			map[string]cexpr{"ElementType()": {code: f("Elem"), s: sTy}, "Size": {code: f("Size"), s: sZ}}
	case "ReferenceType":
		return fmt.Sprintf("(TRef %s %s)", f("Authorization"), f("Type")),
			map[string]cexpr{"Authorization": {code: f("Authorization"), s: sAuth}, "Type": {code: f("Type"), s: sTy}}
	case "CompositeType":
		return fmt.Sprintf("(TComposite %s)", f("name")), map[string]cexpr{
			"Kind":                               {code: fmt.Sprintf("(comp_kind E %s)", f("name")), s: sKind},
			"EffectiveInterfaceConformanceSet()": {code: fmt.Sprintf("(comp_conf E %s)", f("name")), s: sISet},
		}
	case "InterfaceType":
		return fmt.Sprintf("(TInterface %s)", f("name")), map[string]cexpr{
			"CompositeKind":                      {code: fmt.Sprintf("(iface_kind E %s)", f("name")), s: sKind},
			"EffectiveInterfaceConformanceSet()": {code: fmt.Sprintf("(iface_conf E %s)", f("name")), s: sISet},
			"#name":                              {code: f("name"), s: sZ},
		}
	case "IntersectionType":
		return fmt.Sprintf("(TIntersection %s %s)", f("LegacyType"), f("Types")), map[string]cexpr{
			"LegacyType":                 {code: f("LegacyType"), s: sOptTy},
			"EffectiveIntersectionSet()": {code: fmt.Sprintf("(eff_inter_set E %s)", f("Types")), s: sISet},
		}
	case "FunctionType":
		return fmt.Sprintf("(TFunction %s %s %s %s %s %s)", f("Purity"), f("TypeParameters"), f("Parameters"), f("Ret"), f("Arity"), f("IsConstructor")),
			map[string]cexpr{
				"Purity":         {code: f("Purity"), s: sBool},
				"TypeParameters": {code: f("TypeParameters"), s: sTParamList},
				"Parameters":     {code: f("Parameters"), s: sParamList},
				"Arity":          {code: f("Arity"), s: sArity},
				"IsConstructor":  {code: f("IsConstructor"), s: sBool},
			}
	case "ParameterizedType":
		return "(TCapability _ | TRange _)", map[string]cexpr{
			"BaseType()":      {code: fmt.Sprintf("(param_base_type %s)", v), s: sOptTy},
			"TypeArguments()": {code: fmt.Sprintf("(param_type_args %s)", v), s: sTyList},
		}
	case "ConformingType":
		return "(TPrim _ | TComposite _ | TInterface _)", map[string]cexpr{}
	}
	fail("type switch on unsupported Go type %q", gotype)
	return
}

func optOf(e cexpr) string {
	switch e.s {
	case sTy, sParam:
		return "(Some " + e.code + ")"
	case sOptTy, sTParam:
		return e.code
	case sNil:
		return "None"
	}
	fail("expected a type, found %s (%s)", srtNames[e.s], e.code)
	return ""
}

func isTyLike(e cexpr) bool { return e.s == sTy || e.s == sParam }

func (t *tr) expr(e dst.Expr) cexpr {
	switch e := e.(type) {
	case *dst.ParenExpr:
		r := t.expr(e.X)
		return r
	case *dst.Ident:
		if e.Path != "" {
			fail("unsupported qualified identifier %s.%s", e.Path, e.Name)
		}
		switch e.Name {
		case "true", "false":
			return cexpr{code: e.Name, s: sBool}
		case "nil":
			return cexpr{code: "None", s: sNil}
		case "FunctionPurityView":
			return cexpr{code: "true", s: sBool}
		}
		if b, ok := t.lookup(e.Name); ok {
			return b
		}
		if strings.HasSuffix(e.Name, "Type") {
			p := strings.TrimSuffix(e.Name, "Type")
			if e.Name == "MetaType" {
				p = "MetaType"
			}
			if primSet[p] {
				return cexpr{code: "(TPrim P" + p + ")", s: sTy, prim: p}
			}
			fail("rule mentions type %q, which the Coq type `ty` does not model", e.Name)
		}
		fail("unbound identifier %q", e.Name)
	case *dst.SelectorExpr:
		x := t.expr(e.X)
		name := e.Sel.Name
		if x.s == sParam && name == "TypeAnnotation" {
			return cexpr{code: x.code, s: sParamAnn}
		}
		if x.s == sParamAnn && name == "Type" {
			return cexpr{code: x.code, s: sTy}
		}
		if x.s == sTParam && name == "TypeBound" {
			return cexpr{code: x.code, s: sOptTy}
		}
		if x.fields != nil {
			if f, ok := x.fields[name]; ok {
				return f
			}
		}
		fail("unsupported field %s of %s (%s, Go type %q)", name, x.code, srtNames[x.s], x.gotype)
	case *dst.UnaryExpr:
		if e.Op != token.NOT {
			fail("unsupported unary operator %s", e.Op)
		}
		x := t.expr(e.X)
		t.want(x, sBool)
		return cexpr{code: "(negb " + x.code + ")", s: sBool}
	case *dst.BinaryExpr:
		switch e.Op {
		case token.LAND, token.LOR:
			x, y := t.expr(e.X), t.expr(e.Y)
			t.want(x, sBool)
			t.want(y, sBool)
			op := "&&"
			if e.Op == token.LOR {
				op = "||"
			}
			return cexpr{code: "(" + x.code + " " + op + " " + y.code + ")", s: sBool}
		case token.EQL, token.NEQ:
			c := t.equal(t.expr(e.X), t.expr(e.Y))
			if e.Op == token.NEQ {
				c = "(negb " + c + ")"
			}
			return cexpr{code: c, s: sBool}
		}
		fail("unsupported binary operator %s", e.Op)
	case *dst.CallExpr:
		return t.call(e)
	}
	fail("unsupported expression %T", e)
	return cexpr{}
}

func (t *tr) want(e cexpr, s srt) {
	if e.s != s {
		fail("expected %s, found %s (%s)", srtNames[s], srtNames[e.s], e.code)
	}
}

// equal translates Go's == between two translated operands.
func (t *tr) equal(x, y cexpr) string {
	if x.prim != "" && y.prim == "" {
		x, y = y, x
	}
	if x.s == sNil && y.s != sNil {
		x, y = y, x
	}
	switch {
	case isTyLike(x) && y.prim != "":
		// interface value compared with a singleton simple type: identity
		return fmt.Sprintf("(ty_is_prim %s P%s)", x.code, y.prim)
	case x.s == sOptTy && y.prim != "":
		return fmt.Sprintf("(opt_is_prim %s P%s)", x.code, y.prim)
	case (x.s == sOptTy || x.s == sTParam) && y.s == sNil:
		return fmt.Sprintf("(opt_is_none %s)", x.code)
	case x.s == sArity && y.s == sNil:
		return fmt.Sprintf("(opt_is_none %s)", x.code)
	case x.s == sZ && y.s == sZ:
		return fmt.Sprintf("(Z.eqb %s %s)", x.code, y.code)
	case x.s == sNat && y.s == sNat:
		return fmt.Sprintf("(Nat.eqb %s %s)", x.code, y.code)
	case x.s == sKind && y.s == sKind:
		return fmt.Sprintf("(ckind_eqb %s %s)", x.code, y.code)
	case x.s == sBool && y.s == sBool:
		return fmt.Sprintf("(Bool.eqb %s %s)", x.code, y.code)
	}
	fail("unsupported comparison of %s (%s) with %s (%s)", srtNames[x.s], x.code, srtNames[y.s], y.code)
	return ""
}

func (t *tr) call(e *dst.CallExpr) cexpr {
	args := func(n int) []cexpr {
		if len(e.Args) != n {
			fail("call with %d arguments, expected %d", len(e.Args), n)
		}
		var out []cexpr
		for _, a := range e.Args {
			out = append(out, t.expr(a))
		}
		return out
	}
	switch f := e.Fun.(type) {
	case *dst.Ident:
		if f.Path == "github.com/onflow/cadence/common" && f.Name == "DeepEquals" {
			a := args(2)
			if a[0].s == sArity && a[1].s == sArity {
				return cexpr{code: fmt.Sprintf("(arity_eqb %s %s)", a[0].code, a[1].code), s: sBool}
			}
			if isTyLike(a[0]) && isTyLike(a[1]) {
				return cexpr{code: fmt.Sprintf("(ty_equal E %s %s)", a[0].code, a[1].code), s: sBool}
			}
			return cexpr{code: fmt.Sprintf("(deep_equals_opt E %s %s)", optOf(a[0]), optOf(a[1])), s: sBool}
		}
		if f.Path != "" {
			fail("unsupported call %s.%s", f.Path, f.Name)
		}
		switch f.Name {
		case "IsSubType":
			a := args(2)
			if isTyLike(a[0]) && isTyLike(a[1]) {
				return cexpr{code: fmt.Sprintf("(IsSubType %s %s)", a[0].code, a[1].code), s: sBool}
			}
			return cexpr{code: fmt.Sprintf("(issub_opt IsSubType %s %s)", optOf(a[0]), optOf(a[1])), s: sBool}
		case "IsResourceType":
			a := args(1)
			t.want(a[0], sTy)
			return cexpr{code: fmt.Sprintf("(is_resource E %s)", a[0].code), s: sBool}
		case "isAttachmentType":
			a := args(1)
			t.want(a[0], sTy)
			return cexpr{code: fmt.Sprintf("(is_attachment E %s)", a[0].code), s: sBool}
		case "IsHashableStructType":
			a := args(1)
			t.want(a[0], sTy)
			return cexpr{code: fmt.Sprintf("(is_hashable_struct E IsSubType %s)", a[0].code), s: sBool}
		case "PermitsAccess":
			a := args(2)
			t.want(a[0], sAuth)
			t.want(a[1], sAuth)
			return cexpr{code: fmt.Sprintf("(permits %s %s)", a[0].code, a[1].code), s: sBool}
		case "IsIntersectionSubset":
			a := args(2)
			t.want(a[0], sTy)
			t.want(a[1], sTy)
			if a[0].gotype != "IntersectionType" {
				fail("IsIntersectionSubset: first argument is not statically an intersection type")
			}
			switch a[1].gotype {
			case "IntersectionType", "CompositeType", "InterfaceType", "ConformingType":
			default:
				fail("IsIntersectionSubset: second argument (Go type %q) is not statically an intersection or conforming type; the Go function would panic", a[1].gotype)
			}
			return cexpr{code: fmt.Sprintf("(is_intersection_subset E %s %s)", a[0].code, a[1].code), s: sBool}
		case "AreReturnsCovariant":
			a := args(2)
			if a[0].gotype != "FunctionType" || a[1].gotype != "FunctionType" {
				fail("AreReturnsCovariant: arguments are not statically function types")
			}
			return cexpr{code: fmt.Sprintf("(returns_covariant IsSubType %s %s)", a[0].code, a[1].code), s: sBool}
		case "len":
			a := args(1)
			switch a[0].s {
			case sTyList, sTParamList, sParamList:
			default:
				fail("len of %s", srtNames[a[0].s])
			}
			return cexpr{code: fmt.Sprintf("(length %s)", a[0].code), s: sNat}
		}
		fail("call of unsupported function %q", f.Name)
	case *dst.SelectorExpr:
		x := t.expr(f.X)
		name := f.Sel.Name
		if name == "Contains" {
			t.want(x, sISet)
			a := args(1)
			nm, ok := a[0].fields["#name"]
			if !ok {
				fail("Contains: argument is not statically an interface type")
			}
			return cexpr{code: fmt.Sprintf("(zmem %s %s)", nm.code, x.code), s: sBool}
		}
		if x.fields != nil {
			if fl, ok := x.fields[name+"()"]; ok {
				if name == "ElementType" {
					if len(e.Args) != 1 {
						fail("ElementType: expected one argument")
					}
					if id, ok := e.Args[0].(*dst.Ident); !ok || id.Name != "false" {
						fail("ElementType: expected argument false")
					}
				} else if len(e.Args) != 0 {
					fail("%s: unexpected arguments", name)
				}
				return fl
			}
		}
		fail("unsupported method %s on %s (Go type %q)", name, x.code, x.gotype)
	}
	fail("unsupported call %T", e.Fun)
	return cexpr{}
}

func indent(n int) string { return strings.Repeat("  ", n) }

// stmts translates a statement list; k is the Coq expression evaluated when control falls off
// the end of the list.
func (t *tr) stmts(list []dst.Stmt, k string, d int) string {
	if len(list) == 0 {
		return k
	}
	s := list[0]
	rest := list[1:]
	// continuation for compound statements
	withK := func(f func(k2 string) string) string {
		if len(rest) == 0 {
			return f(k)
		}
		t.nthunk++
		name := fmt.Sprintf("k%d", t.nthunk)
		restCode := t.stmts(rest, k, d+1)
		return fmt.Sprintf("let %s := fun _ : unit =>\n%s%s in\n%s%s", name, indent(d+1), restCode, indent(d), f("("+name+" tt)"))
	}
	switch s := s.(type) {
	case *dst.ReturnStmt:
		if len(s.Results) != 1 {
			fail("return with %d results", len(s.Results))
		}
		e := t.expr(s.Results[0])
		t.want(e, sBool)
		return e.code
	case *dst.IfStmt:
		if s.Init != nil || s.Else != nil {
			fail("if statement with init or else")
		}
		return withK(func(k2 string) string {
			c := t.expr(s.Cond)
			t.want(c, sBool)
			t.push()
			body := t.stmts(s.Body.List, k2, d+1)
			t.pop()
			return fmt.Sprintf("if %s\n%sthen %s\n%selse %s", c.code, indent(d), body, indent(d), k2)
		})
	case *dst.SwitchStmt:
		if s.Init != nil || s.Tag == nil {
			fail("switch statement with init or without tag")
		}
		return withK(func(k2 string) string {
			tag := t.expr(s.Tag)
			var b strings.Builder
			var deflt *dst.CaseClause
			n := 0
			for _, c := range s.Body.List {
				cc := c.(*dst.CaseClause)
				if len(cc.List) == 0 {
					deflt = cc
					continue
				}
				var conds []string
				for _, ce := range cc.List {
					conds = append(conds, t.equal(tag, t.expr(ce)))
				}
				t.push()
				body := t.stmts(cc.Body, k2, d+1)
				t.pop()
				fmt.Fprintf(&b, "if %s\n%sthen %s\n%selse ", strings.Join(conds, " || "), indent(d), body, indent(d))
				n++
			}
			if deflt != nil {
				t.push()
				b.WriteString(t.stmts(deflt.Body, k2, d+1))
				t.pop()
			} else {
				b.WriteString(k2)
			}
			return b.String()
		})
	case *dst.TypeSwitchStmt:
		if s.Init != nil {
			fail("type switch with init")
		}
		as, ok := s.Assign.(*dst.AssignStmt)
		if !ok || len(as.Lhs) != 1 || len(as.Rhs) != 1 || as.Tok != token.DEFINE {
			fail("unsupported type switch header")
		}
		v := as.Lhs[0].(*dst.Ident).Name
		ta, ok := as.Rhs[0].(*dst.TypeAssertExpr)
		if tid, isId := ta.Type.(*dst.Ident); !ok || (ta.Type != nil && !(isId && tid.Name == "type")) {
			fail("unsupported type switch header")
		}
		return withK(func(k2 string) string {
			x := t.expr(ta.X)
			if x.s != sTy && x.s != sOptTy {
				fail("type switch on %s", srtNames[x.s])
			}
			var b strings.Builder
			fmt.Fprintf(&b, "match %s with\n", x.code)
			hasDefault := false
			for _, c := range s.Body.List {
				cc := c.(*dst.CaseClause)
				if len(cc.List) == 0 {
					t.push()
					fmt.Fprintf(&b, "%s| _ => %s\n", indent(d), t.stmts(cc.Body, k2, d+1))
					t.pop()
					hasDefault = true
					break
				}
				if len(cc.List) != 1 {
					fail("type switch case with several types")
				}
				var gotype string
				switch ct := cc.List[0].(type) {
				case *dst.StarExpr:
					gotype = ct.X.(*dst.Ident).Name
				case *dst.Ident:
					gotype = ct.Name
				default:
					fail("unsupported type switch case %T", ct)
				}
				t.nvar++
				cv := fmt.Sprintf("%s%d", v, t.nvar)
				pat, fields := t.typedPattern(gotype, cv)
				full := fmt.Sprintf("(%s as %s)", pat, cv)
				if x.s == sOptTy {
					full = "Some " + full
				}
				t.push()
				t.bind(v, cexpr{code: cv, s: sTy, gotype: gotype, fields: fields})
				fmt.Fprintf(&b, "%s| %s => %s\n", indent(d), full, t.stmts(cc.Body, k2, d+1))
				t.pop()
			}
			if !hasDefault {
				fmt.Fprintf(&b, "%s| _ => %s\n", indent(d), k2)
			}
			fmt.Fprintf(&b, "%send", indent(d))
			return b.String()
		})
	case *dst.AssignStmt:
		if s.Tok != token.DEFINE || len(s.Lhs) != 1 || len(s.Rhs) != 1 {
			fail("unsupported assignment")
		}
		name := s.Lhs[0].(*dst.Ident).Name
		e := t.expr(s.Rhs[0])
		t.nvar++
		cv := fmt.Sprintf("%s%d", name, t.nvar)
		t.bind(name, cexpr{code: cv, s: e.s})
		return fmt.Sprintf("let %s := %s in\n%s%s", cv, e.code, indent(d), t.stmts(rest, k, d))
	case *dst.RangeStmt:
		// for i, source := range xs { target := ys[i]; if COND { return false } }
		key, ok1 := s.Key.(*dst.Ident)
		val, ok2 := s.Value.(*dst.Ident)
		xsId, ok3 := s.X.(*dst.Ident)
		if !ok1 || !ok2 || !ok3 || s.Tok != token.DEFINE || len(s.Body.List) != 2 {
			fail("unsupported loop shape")
		}
		as, ok := s.Body.List[0].(*dst.AssignStmt)
		if !ok || as.Tok != token.DEFINE || len(as.Lhs) != 1 || len(as.Rhs) != 1 {
			fail("unsupported loop shape (first statement)")
		}
		ix, ok := as.Rhs[0].(*dst.IndexExpr)
		if !ok {
			fail("unsupported loop shape (index)")
		}
		ysId, ok4 := ix.X.(*dst.Ident)
		ixId, ok5 := ix.Index.(*dst.Ident)
		if !ok4 || !ok5 || ixId.Name != key.Name {
			fail("unsupported loop shape (index)")
		}
		ifs, ok := s.Body.List[1].(*dst.IfStmt)
		if !ok || ifs.Init != nil || ifs.Else != nil || len(ifs.Body.List) != 1 {
			fail("unsupported loop shape (if)")
		}
		ret, ok := ifs.Body.List[0].(*dst.ReturnStmt)
		if !ok || len(ret.Results) != 1 {
			fail("unsupported loop shape (return)")
		}
		if id, ok := ret.Results[0].(*dst.Ident); !ok || id.Name != "false" {
			fail("unsupported loop shape (return value)")
		}
		xs, ys := t.expr(xsId), t.expr(ysId)
		if xs.s != ys.s {
			fail("loop over lists of different element kinds")
		}
		var es srt
		switch xs.s {
		case sTyList:
			es = sTy
		case sTParamList:
			es = sTParam
		case sParamList:
			es = sParam
		default:
			fail("loop over %s", srtNames[xs.s])
		}
		t.nvar++
		sv := fmt.Sprintf("%s%d", val.Name, t.nvar)
		tv := fmt.Sprintf("%s%d", as.Lhs[0].(*dst.Ident).Name, t.nvar)
		t.push()
		t.bind(val.Name, cexpr{code: sv, s: es})
		t.bind(as.Lhs[0].(*dst.Ident).Name, cexpr{code: tv, s: es})
		c := t.expr(ifs.Cond)
		t.want(c, sBool)
		t.pop()
		// Go indexes ys[i] for every i < len(xs): the generated code always checks the lengths first;
		// forall2b answers false on a length mismatch
		// the loop leaves with false as soon as COND holds: all pairs must satisfy its negation
		body := "(negb " + c.code + ")"
		if strings.HasPrefix(c.code, "(negb ") && strings.HasSuffix(c.code, ")") {
			body = strings.TrimSuffix(strings.TrimPrefix(c.code, "(negb "), ")")
		}
		return fmt.Sprintf("if forall2b (fun %s %s => %s) %s %s\n%sthen %s\n%selse false",
			sv, tv, body, xs.code, ys.code, indent(d), t.stmts(rest, k, d+1), indent(d))
	}
	fail("unsupported statement %T", s)
	return ""
}

// GenerateCoq returns the content of GenC08Subtype.v for the given rules.yaml bytes.
func GenerateCoq(yaml []byte) (code string, err error) {
	defer func() {
		if r := recover(); r != nil {
			if te, ok := r.(trErr); ok {
				err = fmt.Errorf("rules2coq: %s", te.msg)
				return
			}
			err = fmt.Errorf("rules2coq: %v", r)
		}
	}()
	rules, perr := subtypegen.ParseRulesFromBytes(yaml)
	if perr != nil {
		return "", fmt.Errorf("rules2coq: rules.yaml does not parse: %w", perr)
	}
	// same configuration as sema/type_check_gen (the checker's generated function); the rule for the
	// internal-only type bound `Storable`, which the property excludes, is skipped the way
	// interpreter/type_check_gen skips it
	config := subtypegen.Config{
		SimpleTypeSuffix:           "Type",
		ComplexTypeSuffix:          "Type",
		ArrayElementTypeMethodArgs: []any{false},
		NonPointerTypes: map[string]struct{}{
			subtypegen.TypePlaceholderParameterized: {},
			subtypegen.TypePlaceholderConforming:    {},
		},
		NameMapping: map[string]string{subtypegen.FieldNameReferencedType: "Type"},
		SkipTypes:   map[string]struct{}{subtypegen.TypePlaceholderStorable: {}},
	}
	var supers []string
	for _, r := range rules.Rules {
		if r.SuperType != nil {
			supers = append(supers, r.SuperType.Name())
		}
	}
	gen := subtypegen.NewSubTypeCheckGenerator(config)
	decls := gen.GenerateCheckSubTypeWithoutEqualityFunction(rules)
	if len(decls) != 1 {
		return "", fmt.Errorf("rules2coq: generator produced %d declarations", len(decls))
	}
	fd, ok := decls[0].(*dst.FuncDecl)
	if !ok {
		return "", fmt.Errorf("rules2coq: generator did not produce a function")
	}
	params := fd.Type.Params.List
	if len(params) != 2 || params[0].Names[0].Name != "subType" || params[1].Names[0].Name != "superType" {
		return "", fmt.Errorf("rules2coq: unexpected signature of the generated function")
	}
	t := &tr{}
	t.push()
	t.bind("subType", cexpr{code: "subType", s: sTy})
	t.bind("superType", cexpr{code: "superType", s: sTy})
	body := t.stmts(fd.Body.List, "false", 2)
	sum := sha256.Sum256(yaml)
	var b strings.Builder
	fmt.Fprintf(&b, "(* GENERATED by /verif/harness/c08 (rules2coq) from tools/subtype-gen/rules.yaml — do not edit.\n")
	fmt.Fprintf(&b, "   rules.yaml sha256 %x; %d rules, supertypes in rule order: %s *)\n", sum, len(rules.Rules), strings.Join(supers, " "))
	b.WriteString("From Coq Require Import ZArith List Bool.\nFrom CV Require Import Base.Prelude C08.Model.\nImport ListNotations.\nOpen Scope Z_scope.\n\n")
	b.WriteString("(* one application of the rules: the body of CheckSubTypeWithoutEquality_gen, with the recursive\n")
	b.WriteString("   entry point sema.IsSubTypeWithoutComparison as a parameter *)\n")
	b.WriteString("Definition gen_step (E : denv) (IsSubType : ty -> ty -> bool) (subType superType : ty) : bool :=\n    ")
	b.WriteString(body)
	b.WriteString(".\n\n")
	b.WriteString("(* CheckSubTypeWithoutEquality_gen; IsSubType is isSubType: Equal first, then the rules *)\n")
	b.WriteString("Fixpoint gen_check (E : denv) (fuel : nat) (subType superType : ty) {struct fuel} : bool :=\n")
	b.WriteString("  match fuel with\n  | O => false\n  | S fuel' =>\n")
	b.WriteString("    gen_step E (fun a b : ty => ty_equal E a b || gen_check E fuel' a b) subType superType\n")
	b.WriteString("  end.\n")
	sort.Strings(supers)
	return b.String(), nil
}

// WriteIfChanged writes content to path unless the file already has exactly that content.
func WriteIfChanged(path, content string) (changed bool, err error) {
	old, rerr := os.ReadFile(path)
	if rerr == nil && string(old) == content {
		return false, nil
	}
	if err := os.MkdirAll(filepath.Dir(path), 0o755); err != nil {
		return false, err
	}
	tmp := path + ".tmp"
	if err := os.WriteFile(tmp, []byte(content), 0o644); err != nil {
		return false, err
	}
	return true, os.Rename(tmp, path)
}
