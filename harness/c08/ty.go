package main

// Type AST shared by the generator, the real-implementation drivers and the Coq printer.
// It mirrors the Coq inductive `ty` of coq/theories/C08/Model.v constructor by constructor.

import (
	"fmt"
	"sort"
	"strings"

	"github.com/onflow/cadence/ast"
	"github.com/onflow/cadence/common"
	"github.com/onflow/cadence/common/orderedmap"
	"github.com/onflow/cadence/interpreter"
	"github.com/onflow/cadence/parser"
	"github.com/onflow/cadence/sema"
)

type Kind int

const (
	KPrim Kind = iota
	KOpt
	KVar
	KConst
	KDict
	KRef
	KInter
	KComp
	KIface
	KCap
	KFun
	KRange
)

var kindNames = []string{"prim", "optional", "vararray", "constarray", "dictionary", "reference",
	"intersection", "composite", "interface", "capability", "function", "range"}

type AuthKind int

const (
	AUnauth AuthKind = iota
	AConj
	ADisj
	AMap
)

type Auth struct {
	K    AuthKind
	Ents []int // indices into entNames, sorted
	Map  int   // index into mapNames
}

type FunTy struct {
	View    bool
	TParams []*Ty // nil entry: no bound
	Params  []*Ty
	Ret     *Ty
	Arity   *[2]int // nil: no explicit arity; {min,max}
	Ctor    bool
}

type Ty struct {
	K      Kind
	Prim   int // index into prims
	A, B   *Ty // Opt/Var/Const/Ref/Cap/Range: A (Cap, Range: may be nil); Dict: A key, B value
	Size   int64
	Auth   Auth
	Legacy *Ty   // intersection legacy type (nil: none)
	Ifaces []int // intersection: indices into env.Ifaces, in the order given
	Name   int   // composite: index into env.Comps; interface: index into env.Ifaces
	Fun    *FunTy
	str    string
}

// prims: Coq constructor name = "P" + name; sema variable looked up in primSema.
var prims = []string{
	"Never", "Any", "AnyStruct", "AnyResource", "AnyResourceAttachment", "AnyStructAttachment", "HashableStruct",
	"Void", "Bool", "String", "Character", "Address", "MetaType", "Block",
	"Path", "StoragePath", "CapabilityPath", "PublicPath", "PrivatePath",
	"Number", "SignedNumber", "Integer", "SignedInteger", "FixedSizeUnsignedInteger", "FixedPoint", "SignedFixedPoint",
	"Int", "Int8", "Int16", "Int32", "Int64", "Int128", "Int256",
	"UInt", "UInt8", "UInt16", "UInt32", "UInt64", "UInt128", "UInt256",
	"Word8", "Word16", "Word32", "Word64", "Word128", "Word256",
	"Fix64", "Fix128", "UFix64", "UFix128",
}

var primSema = map[string]sema.Type{
	"Never": sema.NeverType, "Any": sema.AnyType, "AnyStruct": sema.AnyStructType, "AnyResource": sema.AnyResourceType,
	"AnyResourceAttachment": sema.AnyResourceAttachmentType, "AnyStructAttachment": sema.AnyStructAttachmentType,
	"HashableStruct": sema.HashableStructType,
	"Void":           sema.VoidType, "Bool": sema.BoolType, "String": sema.StringType, "Character": sema.CharacterType,
	"Address": sema.TheAddressType, "MetaType": sema.MetaType, "Block": sema.BlockType,
	"Path": sema.PathType, "StoragePath": sema.StoragePathType, "CapabilityPath": sema.CapabilityPathType,
	"PublicPath": sema.PublicPathType, "PrivatePath": sema.PrivatePathType,
	"Number": sema.NumberType, "SignedNumber": sema.SignedNumberType, "Integer": sema.IntegerType,
	"SignedInteger": sema.SignedIntegerType, "FixedSizeUnsignedInteger": sema.FixedSizeUnsignedIntegerType,
	"FixedPoint": sema.FixedPointType, "SignedFixedPoint": sema.SignedFixedPointType,
	"Int": sema.IntType, "Int8": sema.Int8Type, "Int16": sema.Int16Type, "Int32": sema.Int32Type, "Int64": sema.Int64Type,
	"Int128": sema.Int128Type, "Int256": sema.Int256Type,
	"UInt": sema.UIntType, "UInt8": sema.UInt8Type, "UInt16": sema.UInt16Type, "UInt32": sema.UInt32Type, "UInt64": sema.UInt64Type,
	"UInt128": sema.UInt128Type, "UInt256": sema.UInt256Type,
	"Word8": sema.Word8Type, "Word16": sema.Word16Type, "Word32": sema.Word32Type, "Word64": sema.Word64Type,
	"Word128": sema.Word128Type, "Word256": sema.Word256Type,
	"Fix64": sema.Fix64Type, "Fix128": sema.Fix128Type, "UFix64": sema.UFix64Type, "UFix128": sema.UFix128Type,
}

func primIndex(name string) int {
	for i, p := range prims {
		if p == name {
			return i
		}
	}
	panic("unknown prim " + name)
}

func P(name string) *Ty { return &Ty{K: KPrim, Prim: primIndex(name)} }
func Opt(a *Ty) *Ty     { return &Ty{K: KOpt, A: a} }
func Var(a *Ty) *Ty     { return &Ty{K: KVar, A: a} }
func Const(a *Ty, n int64) *Ty {
	return &Ty{K: KConst, A: a, Size: n}
}
func Dict(k, v *Ty) *Ty       { return &Ty{K: KDict, A: k, B: v} }
func Ref(a Auth, t *Ty) *Ty   { return &Ty{K: KRef, Auth: a, A: t} }
func Comp(i int) *Ty          { return &Ty{K: KComp, Name: i} }
func Iface(i int) *Ty         { return &Ty{K: KIface, Name: i} }
func Cap(t *Ty) *Ty           { return &Ty{K: KCap, A: t} }
func Range(t *Ty) *Ty         { return &Ty{K: KRange, A: t} }
func Inter(l *Ty, is ...int) *Ty { return &Ty{K: KInter, Legacy: l, Ifaces: is} }
func Fun(f FunTy) *Ty         { return &Ty{K: KFun, Fun: &f} }

// ---------------------------------------------------------------------------------------------
// Declaration environment: a real checked Cadence program.

const envProgram = `
access(all) entitlement E
access(all) entitlement F
access(all) entitlement G
access(all) entitlement mapping M { E -> F }

access(all) struct interface I1 {}
access(all) struct interface I2: I1 {}
access(all) struct interface I3: I2 {}
access(all) resource interface RI {}
access(all) resource interface RJ: RI {}

access(all) struct S1: I2 {}
access(all) struct S2 {}
access(all) struct S3: I3 {}
access(all) resource R1: RI {}
access(all) resource R2 {}
access(all) resource R3: RJ {}
access(all) attachment AR for R1 {}
access(all) attachment AS for S1 {}
access(all) enum En: UInt8 { access(all) case a }
`

// The declaration program is checked twice, at two different addresses: the same qualified names
// denote distinct types ("S1" is A.0000000000000001.S1, "S1@2" is A.0000000000000002.S1).
var baseCompNames = []string{"S1", "S2", "S3", "R1", "R2", "R3", "AR", "AS", "En"}
var baseIfaceNames = []string{"I1", "I2", "I3", "RI", "RJ"}
var baseEntNames = []string{"E", "F", "G"}
var baseMapNames = []string{"M"}

func at2(names []string) []string {
	var out []string
	for _, n := range names {
		out = append(out, n+"@2")
	}
	return out
}

var compNames = append(append([]string{}, baseCompNames...), at2(baseCompNames)...)
var ifaceNames = append(append(append([]string{}, baseIfaceNames...), "StructStringer"), at2(baseIfaceNames)...)
var entNames = append(append([]string{}, baseEntNames...), at2(baseEntNames)...)
var mapNames = append(append([]string{}, baseMapNames...), at2(baseMapNames)...)

type Env struct {
	Checker *sema.Checker
	Inter   *interpreter.Interpreter
	Comps   []*sema.CompositeType
	Ifaces  []*sema.InterfaceType
	Ents    []*sema.EntitlementType
	Maps    []*sema.EntitlementMapType
}

var envLocation = common.NewAddressLocation(nil, common.MustBytesToAddress([]byte{0x1}), "Decls")
var envLocation2 = common.NewAddressLocation(nil, common.MustBytesToAddress([]byte{0x2}), "Decls")

func checkEnvProgram(location common.Location) *sema.Checker {
	program, err := parser.ParseProgram(nil, []byte(envProgram), parser.Config{})
	if err != nil {
		panic(fmt.Errorf("environment program does not parse: %w", err))
	}
	checker, err := sema.NewChecker(program, location, nil, &sema.Config{
		AccessCheckMode: sema.AccessCheckModeStrict,
	})
	if err != nil {
		panic(err)
	}
	if err := checker.Check(); err != nil {
		panic(fmt.Errorf("environment program does not check: %w", err))
	}
	return checker
}

func NewEnv() *Env {
	checker := checkEnvProgram(envLocation)
	checker2 := checkEnvProgram(envLocation2)
	e := &Env{Checker: checker}
	get := func(name string) sema.Type {
		c := checker
		if strings.HasSuffix(name, "@2") {
			c = checker2
			name = strings.TrimSuffix(name, "@2")
		}
		v, ok := c.Elaboration.GetGlobalType(name)
		if !ok {
			panic("missing global type " + name)
		}
		return v.Type
	}
	for _, n := range compNames {
		e.Comps = append(e.Comps, get(n).(*sema.CompositeType))
	}
	for _, n := range ifaceNames {
		if n == "StructStringer" {
			e.Ifaces = append(e.Ifaces, sema.StructStringerType)
			continue
		}
		e.Ifaces = append(e.Ifaces, get(n).(*sema.InterfaceType))
	}
	for _, n := range entNames {
		e.Ents = append(e.Ents, get(n).(*sema.EntitlementType))
	}
	for _, n := range mapNames {
		e.Maps = append(e.Maps, get(n).(*sema.EntitlementMapType))
	}
	elabFor := func(location common.Location) *sema.Elaboration {
		// by address: the decoder of type IDs takes the contract name from the first identifier
		if al, ok := location.(common.AddressLocation); ok && al.Address == envLocation2.Address {
			return checker2.Elaboration
		}
		return checker.Elaboration
	}
	inter, err := interpreter.NewInterpreter(
		interpreter.ProgramFromChecker(checker),
		envLocation,
		&interpreter.Config{
			ImportLocationHandler: func(inter *interpreter.Interpreter, location common.Location) interpreter.Import {
				return interpreter.VirtualImport{Elaboration: elabFor(location)}
			},
			CompositeTypeHandler: func(location common.Location, typeID interpreter.TypeID) *sema.CompositeType {
				return elabFor(location).CompositeType(typeID)
			},
		},
	)
	if err != nil {
		panic(err)
	}
	e.Inter = inter
	return e
}

func (e *Env) SemaAuth(a Auth) sema.Access {
	switch a.K {
	case AUnauth:
		return sema.UnauthorizedAccess
	case AMap:
		return sema.NewEntitlementMapAccess(e.Maps[a.Map])
	}
	var ents []*sema.EntitlementType
	for _, i := range a.Ents {
		ents = append(ents, e.Ents[i])
	}
	k := sema.Conjunction
	if a.K == ADisj {
		k = sema.Disjunction
	}
	return sema.NewEntitlementSetAccess(ents, k)
}

// Sema builds the checker's representation of t (fresh objects for structural types,
// the declared objects for nominal types).
func (e *Env) Sema(t *Ty) sema.Type {
	if t == nil {
		return nil
	}
	switch t.K {
	case KPrim:
		return primSema[prims[t.Prim]]
	case KOpt:
		return &sema.OptionalType{Type: e.Sema(t.A)}
	case KVar:
		return &sema.VariableSizedType{Type: e.Sema(t.A)}
	case KConst:
		return &sema.ConstantSizedType{Type: e.Sema(t.A), Size: t.Size}
	case KDict:
		return &sema.DictionaryType{KeyType: e.Sema(t.A), ValueType: e.Sema(t.B)}
	case KRef:
		return &sema.ReferenceType{Type: e.Sema(t.A), Authorization: e.SemaAuth(t.Auth)}
	case KInter:
		var is []*sema.InterfaceType
		for _, i := range t.Ifaces {
			is = append(is, e.Ifaces[i])
		}
		return &sema.IntersectionType{Types: is, LegacyType: e.Sema(t.Legacy)}
	case KComp:
		return e.Comps[t.Name]
	case KIface:
		return e.Ifaces[t.Name]
	case KCap:
		if t.A == nil {
			return &sema.CapabilityType{}
		}
		return &sema.CapabilityType{BorrowType: e.Sema(t.A)}
	case KRange:
		if t.A == nil {
			return &sema.InclusiveRangeType{}
		}
		return &sema.InclusiveRangeType{MemberType: e.Sema(t.A)}
	case KFun:
		f := t.Fun
		ft := &sema.FunctionType{IsConstructor: f.Ctor}
		if f.View {
			ft.Purity = sema.FunctionPurityView
		}
		for i, b := range f.TParams {
			ft.TypeParameters = append(ft.TypeParameters, &sema.TypeParameter{Name: fmt.Sprintf("T%d", i), TypeBound: e.Sema(b)})
		}
		for i, p := range f.Params {
			ft.Parameters = append(ft.Parameters, sema.Parameter{
				Label: sema.ArgumentLabelNotRequired, Identifier: fmt.Sprintf("a%d", i),
				TypeAnnotation: sema.NewTypeAnnotation(e.Sema(p)),
			})
		}
		ft.ReturnTypeAnnotation = sema.NewTypeAnnotation(e.Sema(f.Ret))
		if f.Arity != nil {
			ft.Arity = &sema.Arity{Min: f.Arity[0], Max: f.Arity[1]}
		}
		return ft
	}
	panic("unreachable")
}

// ---------------------------------------------------------------------------------------------
// printing

func (a Auth) String() string {
	switch a.K {
	case AUnauth:
		return ""
	case AMap:
		return "auth(mapping " + mapNames[a.Map] + ") "
	}
	var ns []string
	for _, i := range a.Ents {
		ns = append(ns, entNames[i])
	}
	sep := ","
	if a.K == ADisj {
		sep = "|"
	}
	return "auth(" + strings.Join(ns, sep) + ") "
}

func (t *Ty) String() string {
	if t == nil {
		return "<none>"
	}
	if t.str != "" {
		return t.str
	}
	var s string
	switch t.K {
	case KPrim:
		s = prims[t.Prim]
	case KOpt:
		s = "(" + t.A.String() + ")?"
	case KVar:
		s = "[" + t.A.String() + "]"
	case KConst:
		s = fmt.Sprintf("[%s;%d]", t.A, t.Size)
	case KDict:
		s = "{" + t.A.String() + ":" + t.B.String() + "}"
	case KRef:
		s = t.Auth.String() + "&" + t.A.String()
	case KInter:
		var ns []string
		for _, i := range t.Ifaces {
			ns = append(ns, ifaceNames[i])
		}
		s = "{" + strings.Join(ns, ",") + "}"
		if t.Legacy != nil {
			s = t.Legacy.String() + s
		}
	case KComp:
		s = compNames[t.Name]
	case KIface:
		s = ifaceNames[t.Name]
	case KCap:
		s = "Capability"
		if t.A != nil {
			s += "<" + t.A.String() + ">"
		}
	case KRange:
		s = "InclusiveRange"
		if t.A != nil {
			s += "<" + t.A.String() + ">"
		}
	case KFun:
		f := t.Fun
		var ps, tps []string
		for _, p := range f.Params {
			ps = append(ps, p.String())
		}
		for _, b := range f.TParams {
			if b == nil {
				tps = append(tps, "T")
			} else {
				tps = append(tps, "T:"+b.String())
			}
		}
		s = "fun"
		if f.View {
			s = "view fun"
		}
		if f.Ctor {
			s = "ctor " + s
		}
		if len(tps) > 0 {
			s += "<" + strings.Join(tps, ",") + ">"
		}
		s += "(" + strings.Join(ps, ",") + ")"
		if f.Arity != nil {
			s += fmt.Sprintf("[arity %d..%d]", f.Arity[0], f.Arity[1])
		}
		s += ":" + f.Ret.String()
	}
	t.str = s
	return s
}

func coqList(xs []string) string { return "[" + strings.Join(xs, "; ") + "]" }

func coqInts(xs []int) string {
	var s []string
	for _, x := range xs {
		s = append(s, fmt.Sprint(x))
	}
	return coqList(s)
}

func (a Auth) Coq() string {
	switch a.K {
	case AUnauth:
		return "AUnauth"
	case AMap:
		return fmt.Sprintf("(AMap %d)", a.Map)
	case AConj:
		return "(AConj " + coqInts(a.Ents) + ")"
	}
	return "(ADisj " + coqInts(a.Ents) + ")"
}

func coqOptTy(t *Ty) string {
	if t == nil {
		return "None"
	}
	return "(Some " + t.Coq() + ")"
}

// Coq renders t as a term of the Coq type `ty`.
func (t *Ty) Coq() string {
	switch t.K {
	case KPrim:
		return "(TPrim P" + prims[t.Prim] + ")"
	case KOpt:
		return "(TOptional " + t.A.Coq() + ")"
	case KVar:
		return "(TVarArray " + t.A.Coq() + ")"
	case KConst:
		return fmt.Sprintf("(TConstArray %s %d)", t.A.Coq(), t.Size)
	case KDict:
		return "(TDict " + t.A.Coq() + " " + t.B.Coq() + ")"
	case KRef:
		return "(TRef " + t.Auth.Coq() + " " + t.A.Coq() + ")"
	case KInter:
		return "(TIntersection " + coqOptTy(t.Legacy) + " " + coqInts(t.Ifaces) + ")"
	case KComp:
		return fmt.Sprintf("(TComposite %d)", t.Name)
	case KIface:
		return fmt.Sprintf("(TInterface %d)", t.Name)
	case KCap:
		return "(TCapability " + coqOptTy(t.A) + ")"
	case KRange:
		return "(TRange " + coqOptTy(t.A) + ")"
	case KFun:
		f := t.Fun
		var tps, ps []string
		for _, b := range f.TParams {
			tps = append(tps, coqOptTy(b))
		}
		for _, p := range f.Params {
			ps = append(ps, p.Coq())
		}
		ar := "None"
		if f.Arity != nil {
			ar = fmt.Sprintf("(Some (%d, %d))", f.Arity[0], f.Arity[1])
		}
		return fmt.Sprintf("(TFunction %s %s %s %s %s %s)", coqBool(f.View), coqList(tps), coqList(ps), f.Ret.Coq(), ar, coqBool(f.Ctor))
	}
	panic("unreachable")
}

func coqBool(b bool) string {
	if b {
		return "true"
	}
	return "false"
}

// Depth: primitives and nominal types have depth 0.
func (t *Ty) Depth() int {
	if t == nil {
		return 0
	}
	max := func(a, b int) int {
		if a > b {
			return a
		}
		return b
	}
	switch t.K {
	case KPrim, KComp, KIface:
		return 0
	case KInter:
		if t.Legacy != nil {
			return 1 + t.Legacy.Depth()
		}
		return 0
	case KDict:
		return 1 + max(t.A.Depth(), t.B.Depth())
	case KCap, KRange:
		if t.A == nil {
			return 0
		}
		return 1 + t.A.Depth()
	case KFun:
		d := t.Fun.Ret.Depth()
		for _, p := range t.Fun.Params {
			d = max(d, p.Depth())
		}
		for _, p := range t.Fun.TParams {
			d = max(d, p.Depth())
		}
		return 1 + d
	}
	return 1 + t.A.Depth()
}

// CoqEnv renders the declaration environment, as observed on the real checker objects, as Coq
// definitions (kinds, resource-ness, effective conformance sets, primitive conformances).
func (e *Env) CoqEnv() string {
	var b strings.Builder
	ifaceIdx := map[*sema.InterfaceType]int{}
	for i, it := range e.Ifaces {
		ifaceIdx[it] = i
	}
	setOf := func(s *sema.InterfaceSet) string {
		var xs []int
		s.ForEach(func(it *sema.InterfaceType) {
			i, ok := ifaceIdx[it]
			if !ok {
				panic("interface outside the environment: " + it.String())
			}
			xs = append(xs, i)
		})
		sort.Ints(xs)
		if len(xs) == 0 {
			return "[]"
		}
		return coqInts(xs)
	}
	kind := func(k common.CompositeKind) string {
		switch k {
		case common.CompositeKindStructure:
			return "CKStruct"
		case common.CompositeKindResource:
			return "CKResource"
		case common.CompositeKindContract:
			return "CKContract"
		case common.CompositeKindEnum:
			return "CKEnum"
		case common.CompositeKindAttachment:
			return "CKAttachment"
		case common.CompositeKindEvent:
			return "CKEvent"
		}
		panic("kind")
	}
	dom := func(n int) string {
		var xs []int
		for i := 0; i < n; i++ {
			xs = append(xs, i)
		}
		return coqInts(xs)
	}
	fmt.Fprintf(&b, "Definition env0 : denv := {|\n  comp_dom := %s;\n  iface_dom := %s;\n  comp_kind := fun c => match c with\n", dom(len(e.Comps)), dom(len(e.Ifaces)))
	for i, c := range e.Comps {
		fmt.Fprintf(&b, "    | %d => %s\n", i, kind(c.Kind))
	}
	b.WriteString("    | _ => CKStruct end;\n  comp_resource := fun c => match c with\n")
	for i, c := range e.Comps {
		fmt.Fprintf(&b, "    | %d => %s\n", i, coqBool(c.IsResourceType()))
	}
	b.WriteString("    | _ => false end;\n  comp_conf := fun c => match c with\n")
	for i, c := range e.Comps {
		fmt.Fprintf(&b, "    | %d => %s\n", i, setOf(c.EffectiveInterfaceConformanceSet()))
	}
	b.WriteString("    | _ => [] end;\n  iface_kind := fun c => match c with\n")
	for i, c := range e.Ifaces {
		fmt.Fprintf(&b, "    | %d => %s\n", i, kind(c.CompositeKind))
	}
	b.WriteString("    | _ => CKStruct end;\n  iface_conf := fun c => match c with\n")
	for i, c := range e.Ifaces {
		fmt.Fprintf(&b, "    | %d => %s\n", i, setOf(c.EffectiveInterfaceConformanceSet()))
	}
	b.WriteString("    | _ => [] end;\n  prim_conf := fun p => match p with\n")
	for _, p := range prims {
		if ct, ok := primSema[p].(sema.ConformingType); ok {
			s := setOf(ct.EffectiveInterfaceConformanceSet())
			if s != "[]" {
				fmt.Fprintf(&b, "    | P%s => %s\n", p, s)
			}
		}
	}
	b.WriteString("    | _ => [] end\n|}.\n")
	return b.String()
}

var _ = ast.AccessAll
var _ = orderedmap.OrderedMap[int, int]{}

// Has reports whether some subterm of t satisfies f.
func (t *Ty) Has(f func(*Ty) bool) bool {
	if t == nil {
		return false
	}
	if f(t) {
		return true
	}
	if t.A.Has(f) || t.B.Has(f) || t.Legacy.Has(f) {
		return true
	}
	if t.Fun != nil {
		if t.Fun.Ret.Has(f) {
			return true
		}
		for _, p := range t.Fun.Params {
			if p.Has(f) {
				return true
			}
		}
		for _, p := range t.Fun.TParams {
			if p.Has(f) {
				return true
			}
		}
	}
	return false
}
